/-
Translated Python functions, group QuicDissect2: tlexport/quic/quic_dissector.py — `byte_xor`, `byte_and`,
`remove_header_protection` and `extract_quic_packet` (long and short headers, header-protection removal, the coalesced
remainder, the `except Exception` that turns every failure into "drop the rest of the datagram").
The definitions are regenerated from the tree under test (`TLX/Gen/Translated/QuicDissect2.lean`); the model is
`TLX/Quic/Dissect.lean`. The two mask primitives of `cryptography` are one external function, a parameter on both sides.
This group rests on the groups Varint and QuicDissect (the functions it calls).
-/
import TLX.Gen.Translated.QuicDissect2
import TLX.Props.Translated.Varint
import TLX.Props.Translated.QuicDissect
import TLX.Quic.Dissect
namespace TLX.Props.Translated
open TLX TLX.PyRt TLX.Quic TLX.Quic.Dissect TLX.Quic.Varint

/-- the header-protection primitive of the model (`none` = it raises) as the external function of the translation -/
def maskE (mask : MaskFn) : Bool → Bytes → Bytes → Except PyRt.Err Bytes :=
  fun c k s => match mask c k s with
    | none => .error .value
    | some m => .ok m

theorem bytesOf_one (x : Nat) (h : x < 256) : bytesOfE [Int.ofNat x] = .ok [UInt8.ofNat x] := by
  have : (0 : Int) ≤ Int.ofNat x ∧ Int.ofNat x < 256 := by simp only [Int.ofNat_eq_natCast]; omega
  simp only [bytesOfE, List.all_cons, List.all_nil, this, and_self, decide_true, Bool.and_self, if_true]
  simp

theorem bytesOf_one' (x : Nat) (h : x < 256) : bytesOfE [(x : Int)] = .ok [UInt8.ofNat x] := bytesOf_one x h

/-- the loop of `byte_xor` / `byte_and` for any byte operation that stays a byte -/
theorem zip_loop (f : Nat → Nat → Nat) (g : UInt8 → UInt8 → UInt8)
    (hf : ∀ x y : UInt8, f x.toNat y.toNat < 256 ∧ UInt8.ofNat (f x.toNat y.toNat) = g x y) (a b acc : Bytes) :
    forE (zipBytes a b) acc (fun (py_s : Bytes) (py_i : Nat × Nat) =>
      tryE (bytesOfE [(Int.ofNat (f py_i.1 py_i.2))]) (fun py_e => .error py_e) (fun py_t_1 => .ok (py_s ++ py_t_1)))
    = .ok (acc ++ List.zipWith g a b) := by
  induction a generalizing b acc with
  | nil => simp [zipBytes, forE]
  | cons x a ih =>
    cases b with
    | nil => simp [zipBytes, forE]
    | cons y b =>
      have h := hf x y
      simp only [zipBytes, List.zipWith_cons_cons, forE, bytesOf_one _ h.1, tryE_ok, h.2]
      have := ih b (acc ++ [g x y])
      simp only [zipBytes] at this
      rw [this]; simp

theorem byte_xor_eq_model (a b : Bytes) : Gen.Py.byte_xor a b = .ok (byteXor a b) := by
  unfold Gen.Py.byte_xor byteXor
  simp only []
  rw [zip_loop (fun x y => x ^^^ y) (· ^^^ ·)]
  · simp
  · intro x y
    have h : x.toNat ^^^ y.toNat = (x ^^^ y).toNat := (UInt8.toNat_xor x y).symm
    rw [h]; exact ⟨(x ^^^ y).toNat_lt, by simp⟩

theorem byte_and_eq_model (a b : Bytes) : Gen.Py.byte_and a b = .ok (byteAnd a b) := by
  unfold Gen.Py.byte_and byteAnd
  simp only []
  rw [zip_loop (fun x y => x &&& y) (· &&& ·)]
  · simp
  · intro x y
    have h : x.toNat &&& y.toNat = (x &&& y).toNat := (UInt8.toNat_and x y).symm
    rw [h]; exact ⟨(x &&& y).toNat_lt, by simp⟩

example : Gen.Py.byte_xor [0xff, 0x0f, 1] [0x0f, 0x0f] = .ok [0xf0, 0] ∧ Gen.Py.byte_and [0xc3] [0x0f, 9] = .ok [3] := by decide

/-- the model's exception kinds as the runtime's (`mask`: the primitive raised, a ValueError) -/
def dErr : DErr → PyRt.Err
  | .index => .index
  | .struct => .struct
  | .key => .key
  | .mask => .value
  | .unbound => .unbound

def ofD {α : Type} : Except DErr α → Except PyRt.Err α
  | .ok a => .ok a
  | .error e => .error (dErr e)

theorem beNat_one (x : UInt8) : Bytes.beNat [x] = x.toNat := by simp [Bytes.beNat]

/-- `remove_header_protection` with the mask primitive as a parameter is the model's `removeHP`, exception kinds
    included; the first byte comes back as a one-byte string -/
theorem remove_header_protection_eq_model (mask : MaskFn) (ht : HType) (sample : Bytes) (fb : UInt8) (key d : Bytes)
    (pnOff : Nat) (cs : Option Bytes) :
    Gen.Py.remove_header_protection (maskE mask) ht sample fb.toNat key d pnOff cs =
      ofD ((removeHP mask (decide (ht = .long)) sample fb key d pnOff (decide (cs = some [0x13, 0x03]))).map
        fun r => ([r.1], r.2.1, r.2.2)) := by
  have hfb := fb.toNat_lt
  unfold Gen.Py.remove_header_protection removeHP
  by_cases hc : cs = some [0x13, 0x03] <;> by_cases hl : ht = .long <;>
    simp only [hc, hl, decide_true, decide_false, Bool.false_eq_true, if_true, if_false, maskE, bind, Except.bind, Dissect.ofOpt] <;>
    (cases hm : mask _ key sample with
     | none => simp [ofD, dErr, Except.map]
     | some m =>
       cases m with
       | nil => simp [ofD, dErr, Except.map, bytesOf_one' _ hfb]
       | cons m0 mr =>
         have hm0 := m0.toNat_lt
         simp only [tryE_ok, bytesOf_one _ hfb, getItem_cons_zero, bytesOf_one _ hm0, UInt8.ofNat_toNat, byte_and_eq_model, byte_xor_eq_model,
           byteAnd, byteXor, List.zipWith_cons_cons, List.zipWith_nil_right, beNat_one, List.getElem?_cons_zero,
           decode_variable_length_int_eq_model]
         have hx := (fb ^^^ (m0 &&& 15)).toNat_lt
         have hy := (fb ^^^ (m0 &&& 31)).toNat_lt
         simp only [bytesOf_one _ hx, bytesOf_one _ hy, tryE_ok, UInt8.ofNat_toNat, byte_and_eq_model, byteAnd, List.zipWith_cons_cons,
           List.zipWith_nil_right, decode_variable_length_int_eq_model]
         cases hv : decodeVarint [(fb ^^^ (m0 &&& 15)) &&& 3] <;> cases hv' : decodeVarint [(fb ^^^ (m0 &&& 31)) &&& 3] <;>
           simp [ofOpt, ofD, dErr, Except.map, byte_xor_eq_model, byteXor, hv, hv', Nat.add_comm])

/-- the names `keys[...]` is asked for (ASCII) -/
def keyName : KeyName → List Nat
  | .serverInitial => [115, 101, 114, 118, 101, 114, 95, 105, 110, 105, 116, 105, 97, 108, 95, 104, 112]
  | .clientInitial => [99, 108, 105, 101, 110, 116, 95, 105, 110, 105, 116, 105, 97, 108, 95, 104, 112]
  | .serverHandshake => [115, 101, 114, 118, 101, 114, 95, 104, 97, 110, 100, 115, 104, 97, 107, 101, 95, 104, 112]
  | .clientHandshake => [99, 108, 105, 101, 110, 116, 95, 104, 97, 110, 100, 115, 104, 97, 107, 101, 95, 104, 112]
  | .clientEarly => [99, 108, 105, 101, 110, 116, 95, 101, 97, 114, 108, 121, 95, 104, 112]
  | .serverApplication => [115, 101, 114, 118, 101, 114, 95, 97, 112, 112, 108, 105, 99, 97, 116, 105, 111, 110, 95, 104, 112]
  | .clientApplication => [99, 108, 105, 101, 110, 116, 95, 97, 112, 112, 108, 105, 99, 97, 116, 105, 111, 110, 95, 104, 112]

/-- a packet of the model as the keyword arguments the constructor call is given (`token_len`, `packet_len` are the
    model's derived attributes; `first_byte` of Retry / Version Negotiation is an int) -/
def ofPkt (p : Pkt) : Gen.Py.QuicPacketObj :=
  { header := p.htype, packet_type := p.ptype, isserver := p.isServer, ts := p.ts,
    first_byte := if p.ptype = .retry ∨ p.ptype = .versionNeg then .inl (p.firstByte.headD 0).toNat else .inr p.firstByte,
    dcid := p.dcid, version := p.version, dcid_len := p.dcidLen, scid_len := p.scidLen, scid := p.scid,
    token_len := p.tokenLen, token_len_bytes := p.tokenLenBytes, token := p.token, packet_len := p.packetLen,
    packet_len_bytes := p.lenBytes, packet_num := p.pn, payload := p.payload, key_phase := p.keyPhase,
    retry_token := p.retryToken, retry_integ_tag := p.retryTag }

/-- a field whose count is fine, and its size -/
def fOk : Fld → Bool
  | .B => true
  | .S z => decide (0 ≤ z)
def fNat : Fld → Nat
  | .B => 1
  | .S z => z.toNat

@[simp] theorem fOk_B : fOk .B = true := rfl
@[simp] theorem fOk_nat (n : Nat) : fOk (.S (Int.ofNat n)) = true := by simp [fOk]
@[simp] theorem fNat_B : fNat .B = 1 := rfl
@[simp] theorem fNat_nat (n : Nat) : fNat (.S (Int.ofNat n)) = n := by simp [fNat]

theorem fmtSize_eq (fmt : List Fld) : fmtSize fmt = if fmt.all fOk then .ok ((fmt.map fNat).sum) else .error .struct := by
  induction fmt with
  | nil => rfl
  | cons f r ih =>
    cases f with
    | B => rw [fmtSize, ih]; by_cases h : r.all fOk <;> simp [Fld.size, h, fOk, fNat]
    | S z =>
      rw [fmtSize, ih]
      by_cases hz : z < 0
      · have : ¬ 0 ≤ z := by omega
        simp [Fld.size, hz, fOk, this]
      · have : 0 ≤ z := by omega
        by_cases h : r.all fOk <;> simp [Fld.size, hz, h, fOk, fNat, this]

/-- `struct.unpack_from` under a handler: struct.error for a negative count or a short buffer, else the fields -/
theorem try_unpack {β : Type} (fmt : List Fld) (d : Bytes) (H : PyRt.Err → β) (K : List Bytes → β) :
    tryE (unpackFrom fmt d) H K =
      if fmt.all fOk then (if d.length < (fmt.map fNat).sum then H .struct else K (cutFields fmt d)) else H .struct := by
  unfold unpackFrom
  rw [fmtSize_eq]
  by_cases h : fmt.all fOk
  · by_cases h2 : d.length < (fmt.map fNat).sum <;> simp [h, h2]
  · simp [h]

theorem dErr_ne_fuel (e : DErr) : dErr e ≠ .fuel := by cases e <;> simp [dErr]

theorem key_phase_eq (x : UInt8) : x.toNat >>> 2 &&& 1 = (x >>> 2 &&& 1).toNat := by
  revert x; apply forall_u8; decide +kernel

theorem extract_short (mask : MaskFn) (env : Env) (isServer : Bool) (guessed : Bytes) (ts : Nat) (fb : UInt8) (r : Bytes)
    (keys : Dict (List Nat) Bytes) (cs : Option Bytes)
    (hk : ∀ n, keys (keyName n) = env.keys n) (hc : env.chacha = decide (cs = some [0x13, 0x03]))
    (hz : Bytes.beNat (fb :: r) ≠ 0) (hs : isLong fb = false) :
    Gen.Py.extract_quic_packet (maskE mask) isServer guessed keys cs (fb :: r) ts =
      .ok ((extract mask env isServer guessed ts (fb :: r)).pkts.map ofPkt)
        { tls_data := (extract mask env isServer guessed ts (fb :: r)).rest } := by
  unfold Gen.Py.extract_quic_packet extract
  have kSA : keys (keyName .serverApplication) = env.keys .serverApplication := hk _
  have kCA : keys (keyName .clientApplication) = env.keys .clientApplication := hk _
  simp only [keyName] at kSA kCA
  simp only [get_header_type_eq_model, onFirst, hs, hz, tryE_ok, Bool.false_eq_true, if_false, decide_false, reduceCtorEq,
    decide_true, if_true]
  simp only [try_unpack, List.append_nil, List.cons_append, List.nil_append, List.all_cons, List.all_nil, fOk_B, fOk_nat,
    Bool.and_self, Bool.and_true, Bool.true_and, List.map_cons, List.map_nil, List.sum_cons, List.sum_nil, fNat_B, fNat_nat,
    cutFields, fldB, fldS, List.getD_cons_zero, List.take_succ_cons, List.take_zero, List.headD_cons, dictGetE, kSA, kCA,
    remove_header_protection_eq_model, extractShort, need, bind, Except.bind, Dissect.ofOpt, ne_eq, not_false_eq_true,
    List.length_cons, reduceCtorEq, hc, decide_false]
  have hH : ∀ (e : DErr), (if (decide ¬ dErr e = PyRt.Err.fuel) = true then (Res.ok [] { tls_data := [] } : Res Gen.Py.extract_quic_packet.St (List Gen.Py.QuicPacketObj))
      else Res.raised (dErr e) { tls_data := fb :: r }) = Res.ok [] { tls_data := [] } := by
    intro e; simp [dErr_ne_fuel]
  by_cases h1 : List.length r + 1 < 1 + (List.length guessed + 0)
  · have h1' : List.length r + 1 < 1 + List.length guessed := by omega
    simp [h1, h1']
  · have h1' : ¬ List.length r + 1 < 1 + List.length guessed := by omega
    simp only [h1, h1', if_false, if_true]
    cases isServer <;> simp only [Bool.false_eq_true, if_false, if_true] <;>
    (cases hkey : env.keys _ with
     | none => simp [tryE]
     | some key =>
       simp only [tryE_ok]
       cases hr : removeHP mask false (Bytes.slice (fb :: r) (1 + List.length guessed + 4) (1 + List.length guessed + 4 + 16)) fb key
           (fb :: r) (1 + List.length guessed) (decide (cs = some [19, 3])) with
       | error e => simp [ofD, Except.map, tryE, dErr_ne_fuel]
       | ok v =>
         obtain ⟨fb', pn, l⟩ := v
         simp only [ofD, Except.map, tryE_ok]
         by_cases h2 : List.length r + 1 < 1 + List.length guessed + l
         · have hf : fOk (Fld.S (Int.ofNat (List.length r + 1) - Int.ofNat (1 + List.length guessed + l))) = false := by
             simp only [fOk, Int.ofNat_eq_natCast, decide_eq_false_iff_not]; omega
           simp only [hf, Bool.false_eq_true, if_false, decide_true, if_true, h2]
           simp
         · have hf : fOk (Fld.S (Int.ofNat (List.length r + 1) - Int.ofNat (1 + List.length guessed + l))) = true := by
             simp only [fOk, Int.ofNat_eq_natCast, decide_eq_true_eq]; omega
           have hn : fNat (Fld.S (Int.ofNat (List.length r + 1) - Int.ofNat (1 + List.length guessed + l))) =
               List.length r + 1 - (1 + List.length guessed + l) := by
             simp only [fNat, Int.ofNat_eq_natCast]; omega
           have hsum : ¬ List.length r + 1 < 1 + (List.length guessed + (l + (List.length r + 1 - (1 + List.length guessed + l) + 0))) := by omega
           have hd : ∀ (x : Bytes) (a b c n : Nat), List.take n (List.drop a (List.drop b (List.drop c x))) =
               Bytes.slice x (c + b + a) (c + b + a + n) := by
             intro x a b c n
             have e : c + b + a + n - (c + b + a) = n := by omega
             simp only [Bytes.slice, List.drop_drop, e]
           simp only [hf, hn, hsum, h2, if_true, if_false, getItem_cons_zero, tryE_ok]
           simp only [Int.ofNat_eq_natCast, Int.toNat_natCast, List.getD_cons_succ, List.getD_cons_zero, hd, List.map_cons, List.map_nil]
           have e1 : (((List.length r + 1 : Nat) : Int) - ((1 + List.length guessed + l : Nat) : Int)).toNat =
               List.length r + 1 - (1 + List.length guessed + l) := by omega
           rw [e1, key_phase_eq]
           simp [ofPkt, Pkt.tokenLen, Pkt.packetLen])

@[simp] theorem fOk_cast (n : Nat) : fOk (.S (n : Int)) = true := by simp [fOk]
@[simp] theorem fNat_cast (n : Nat) : fNat (.S (n : Int)) = n := by simp [fNat]

/-- the catch-all handler of `extract_quic_packet` at a point where nothing has been appended yet -/
theorem try_opt {α β : Type} (o : Option α) (H : PyRt.Err → β) (K : α → β) :
    tryE (ofOpt o) H K = match o with | none => H .index | some a => K a := by cases o <;> rfl

theorem try_dict {β : Type} (d : Dict (List Nat) Bytes) (k : List Nat) (H : PyRt.Err → β) (K : Bytes → β) :
    tryE (dictGetE d k) H K = match d k with | none => H .key | some v => K v := by
  unfold dictGetE; cases d k <;> rfl

theorem try_ofD {α β γ : Type} (x : Except DErr α) (f : α → β) (H : PyRt.Err → γ) (K : β → γ) :
    tryE (ofD (Except.map f x)) H K = match x with | .error e => H (dErr e) | .ok v => K (f v) := by
  cases x <;> rfl

theorem try_tb1 {β : Type} (n : Nat) (H : PyRt.Err → β) (K : Bytes → β) :
    tryE (toBytesE (n : Int) 1) H K = if n < 256 then K [UInt8.ofNat n] else H .overflow := by
  have h1 : (1 : Int) = Int.ofNat 1 := rfl
  by_cases h : n < 256
  · have := toBytesE_nat n 1 (by simpa using h)
    simp only [Int.ofNat_eq_natCast] at this
    rw [h1]; simp only [Int.ofNat_eq_natCast]; rw [this]
    have e : n % 256 = n := Nat.mod_eq_of_lt h
    simp [h, Bytes.ofNatBE, e]
  · have : toBytesE (n : Int) 1 = .error .overflow := by
      unfold toBytesE
      have hh : ((n : Int) < 0 ∨ (n : Int) ≥ 256 ^ (1 : Int).toNat) := by
        right
        show (n : Int) ≥ 256 ^ 1
        omega
      have h0 : ¬ ((1 : Int) < 0) := by omega
      rw [if_neg h0, if_pos hh]
    rw [this]; simp [h]

@[simp] theorem fOk_4 : fOk (.S 4) = true := by decide
@[simp] theorem fOk_1 : fOk (.S 1) = true := by decide
@[simp] theorem fNat_4 : fNat (.S 4) = 4 := by decide
@[simp] theorem fNat_1 : fNat (.S 1) = 1 := by decide
theorem toNat_4 : Int.toNat 4 = 4 := rfl
theorem toNat_1 : Int.toNat 1 = 1 := rfl

/-- the simp set that turns the `struct.unpack_from` calls into length tests and slices -/
macro "unpack_norm" : tactic =>
  `(tactic| simp only [try_unpack, List.append_nil, List.cons_append, List.nil_append, List.all_cons, List.all_nil, fOk_B, fOk_nat,
    fOk_4, fOk_1, fNat_4, fNat_1, toNat_4, toNat_1, Bool.and_self, Bool.and_true, Bool.true_and, List.map_cons, List.map_nil,
    List.sum_cons, List.sum_nil, fNat_B, fNat_nat, cutFields, fldB, fldS, List.getD_cons_zero, List.getD_cons_succ,
    List.take_succ_cons, List.take_zero, List.drop_succ_cons, List.drop_zero, List.headD_cons, ne_eq, not_false_eq_true,
    fOk_cast, fNat_cast, try_opt, try_dict, try_ofD, try_tb1, decode_variable_length_int_eq_model, get_variable_length_int_length_eq_model,
    List.length_cons, reduceCtorEq, decide_false, decide_true, if_true, Int.ofNat_eq_natCast, Int.toNat_natCast, List.getElem?_cons_succ,
    List.getElem?_cons_zero])

theorem decodeVarint_take1 (l : Bytes) (v : Nat) (h : decodeVarint (List.take 1 l) = some v) : v < 64 := by
  cases l with
  | nil => simp [decodeVarint] at h
  | cons x t =>
    simp only [List.take_succ_cons, List.take_zero, decodeVarint, List.length_nil] at h
    split at h
    · cases h
    · simp only [List.take_nil, accBE, List.foldl_nil, Option.some.injEq] at h
      subst h
      have : x.toNat &&& 63 ≤ 63 := Nat.and_le_right
      omega

/-- slices of a datagram behind its six fixed header bytes -/
theorem slice6 (x0 x1 x2 x3 x4 x5 : UInt8) (r : Bytes) (i j : Nat) :
    Bytes.slice (x0 :: x1 :: x2 :: x3 :: x4 :: x5 :: r) (6 + i) (6 + j) = List.take (j - i) (List.drop i r) := by
  have e : 6 + j - (6 + i) = j - i := by omega
  simp only [Bytes.slice]
  rw [e, Nat.add_comm 6 i]
  simp only [List.drop_succ_cons]

theorem seven (x : Nat) : 7 + x = 6 + (1 + x) := by omega

/-- `l[x : x + n]` -/
theorem slice_add (l : Bytes) (x n : Nat) : Bytes.slice l x (x + n) = List.take n (List.drop x l) := by
  simp [Bytes.slice]

theorem drop6 (x0 x1 x2 x3 x4 x5 : UInt8) (r : Bytes) (y : Nat) :
    List.drop (6 + y) (x0 :: x1 :: x2 :: x3 :: x4 :: x5 :: r) = List.drop y r := by
  rw [Nat.add_comm]; rfl

theorem drop7 (x0 x1 x2 x3 x4 x5 : UInt8) (r : Bytes) (y : Nat) :
    List.drop (7 + y) (x0 :: x1 :: x2 :: x3 :: x4 :: x5 :: r) = List.drop (1 + y) r := by
  rw [seven, drop6]

/-- resolve every `if` whose condition the hypotheses decide by linear arithmetic -/
macro "ifs" : tactic => `(tactic| simp (disch := omega) only [if_pos, if_neg])

/-- a long-header datagram whose version field is zero (Version Negotiation): the packet is appended, then the unbound
    `total_packet_len` is caught and the rest of the datagram dropped -/
theorem extract_long_vneg (mask : MaskFn) (env : Env) (isServer : Bool) (guessed : Bytes) (ts : Nat) (fb dl : UInt8) (r : Bytes)
    (keys : Dict (List Nat) Bytes) (cs : Option Bytes)
    (hz : Bytes.beNat (fb :: 0 :: 0 :: 0 :: 0 :: dl :: r) ≠ 0) (hs : isLong fb = true) :
    Gen.Py.extract_quic_packet (maskE mask) isServer guessed keys cs (fb :: 0 :: 0 :: 0 :: 0 :: dl :: r) ts =
      .ok ((extract mask env isServer guessed ts (fb :: 0 :: 0 :: 0 :: 0 :: dl :: r)).pkts.map ofPkt)
        { tls_data := (extract mask env isServer guessed ts (fb :: 0 :: 0 :: 0 :: 0 :: dl :: r)).rest } := by
  unfold Gen.Py.extract_quic_packet extract
  simp only [get_header_type_eq_model, get_packet_type_eq_model, onFirst, hs, hz, tryE_ok, Bool.false_eq_true, if_false, decide_false,
    reduceCtorEq, decide_true, if_true]
  unpack_norm
  simp only [extractLong, need, bind, Except.bind, Dissect.ofOpt, slice_add]
  unpack_norm
  have S0 : Bytes.slice (fb :: 0 :: 0 :: 0 :: 0 :: dl :: r) 1 5 = [0, 0, 0, 0] := by simp [Bytes.slice]
  have S1 : Bytes.slice (fb :: 0 :: 0 :: 0 :: 0 :: dl :: r) (6 + dl.toNat) (7 + dl.toNat) = List.take 1 (List.drop dl.toNat r) := by
    rw [seven, slice6]; congr 1; omega
  simp only [S0, S1, Nat.add_assoc, Nat.reduceAdd, Nat.add_zero, drop6, drop7, List.drop_drop, List.drop_zero, if_true, decide_true]
  have hdl : dl.toNat < 256 := by simpa using dl.toNat_lt
  by_cases hA : List.length r < dl.toNat
  · ifs; simp
  by_cases hB : List.length r < dl.toNat + 1
  · ifs; simp
  ifs
  cases hv : decodeVarint (List.take 1 (List.drop dl.toNat r)) with
  | none => simp
  | some v =>
    have hv64 := decodeVarint_take1 _ _ hv
    by_cases hC : List.length r < dl.toNat + 1 + v
    · ifs; simp
    simp (disch := omega) only [if_pos, if_neg, List.length_take, List.length_drop, Nat.min_eq_left]
    by_cases hD : List.length r < dl.toNat + 1 + v + 4
    · ifs; simp
    ifs
    simp [ofPkt, Pkt.tokenLen, Pkt.packetLen, Nat.add_comm]

theorem pySlice_to_neg (x : Bytes) (k : Nat) (hk : 0 < k) : pySlice x none (some (-(k : Int))) = x.take (x.length - k) := by
  have h : (-(k : Int)) < 0 := by omega
  simp only [pySlice, Option.map_none, Option.getD_none, Option.map_some, Option.getD_some, bound, Bytes.slice, List.drop_zero, Nat.sub_zero,
    h, if_true]
  congr 1; omega

theorem pySlice_from_neg (x : Bytes) (k : Nat) (hk : 0 < k) : pySlice x (some (-(k : Int))) none = x.drop (x.length - k) := by
  have h : (-(k : Int)) < 0 := by omega
  simp only [pySlice, Option.map_none, Option.getD_none, Option.map_some, Option.getD_some, bound, Bytes.slice, h, if_true]
  have e : (-(k : Int) + (x.length : Int)).toNat = x.length - k := by omega
  rw [e, List.take_of_length_le]
  simp only [List.length_drop]; omega

/-- the shared start of the long-header arms: goal after unfolding, for a version that is not zero and a known packet type -/
macro "long_start" hz:ident hs:ident hver:ident hpt:ident : tactic =>
  `(tactic| (
    unfold Gen.Py.extract_quic_packet extract
    simp only [get_header_type_eq_model, get_packet_type_eq_model, onFirst, $hs:ident, $hz:ident, tryE_ok, Bool.false_eq_true, if_false,
      decide_false, reduceCtorEq, decide_true, if_true]
    unpack_norm
    simp only [$hver:ident, $hpt:ident, decide_false, decide_true, Bool.false_eq_true, if_false, if_true, Option.some.injEq, reduceCtorEq,
      Bool.or_self, Bool.or_false, Bool.or_true, Bool.false_or, Bool.true_or, beNat_one, UInt8.ofNat_toNat]))

theorem extract_long_retry (mask : MaskFn) (env : Env) (isServer : Bool) (guessed : Bytes) (ts : Nat) (fb a b c e dl : UInt8) (r : Bytes)
    (keys : Dict (List Nat) Bytes) (cs : Option Bytes)
    (hz : Bytes.beNat (fb :: a :: b :: c :: e :: dl :: r) ≠ 0) (hs : isLong fb = true)
    (hver : ¬ [a, b, c, e] = [0, 0, 0, 0]) (hpt : packetType fb = .retry) :
    Gen.Py.extract_quic_packet (maskE mask) isServer guessed keys cs (fb :: a :: b :: c :: e :: dl :: r) ts =
      .ok ((extract mask env isServer guessed ts (fb :: a :: b :: c :: e :: dl :: r)).pkts.map ofPkt)
        { tls_data := (extract mask env isServer guessed ts (fb :: a :: b :: c :: e :: dl :: r)).rest } := by
  long_start hz hs hver hpt
  simp only [extractLong, need, bind, Except.bind, Dissect.ofOpt, slice_add, hpt]
  unpack_norm
  have S0 : Bytes.slice (fb :: a :: b :: c :: e :: dl :: r) 1 5 = [a, b, c, e] := by simp [Bytes.slice]
  have S1 : Bytes.slice (fb :: a :: b :: c :: e :: dl :: r) (6 + dl.toNat) (7 + dl.toNat) = List.take 1 (List.drop dl.toNat r) := by
    rw [seven, slice6]; congr 1; omega
  simp only [S0, S1, hver, Nat.add_assoc, Nat.reduceAdd, Nat.add_zero, drop6, drop7, List.drop_drop, List.drop_zero, if_true, if_false, decide_true]
  have hdl : dl.toNat < 256 := by simpa using dl.toNat_lt
  by_cases hA : List.length r < dl.toNat
  · ifs; simp
  by_cases hB : List.length r < dl.toNat + 1
  · ifs; simp
  ifs
  cases hv : decodeVarint (List.take 1 (List.drop dl.toNat r)) with
  | none => simp
  | some v =>
    have hv64 := decodeVarint_take1 _ _ hv
    have hbv : (UInt8.ofNat v).toNat = v := by
      simp only [UInt8.toNat_ofNat']; omega
    by_cases hC : List.length r < dl.toNat + 1 + v
    · ifs; simp
    simp (disch := omega) only [if_pos, if_neg, List.length_take, List.length_drop, Nat.min_eq_left, hbv]
    have hf : fOk (Fld.S (((List.length r + 6 : Nat) : Int) - ((6 + (dl.toNat + (1 + v)) : Nat) : Int))) = true := by
      simp only [fOk, decide_eq_true_eq]; omega
    have hn : fNat (Fld.S (((List.length r + 6 : Nat) : Int) - ((6 + (dl.toNat + (1 + v)) : Nat) : Int))) =
        List.length r - (dl.toNat + (1 + v)) := by
      simp only [fNat]; omega
    have ht : (((List.length r + 6 : Nat) : Int) - ((6 + (dl.toNat + (1 + v)) : Nat) : Int)).toNat = List.length r - (dl.toNat + (1 + v)) := by omega
    have hm : List.length r + 6 - (6 + (dl.toNat + (1 + v))) = List.length r - (dl.toNat + (1 + v)) := by omega
    have e16 : (-16 : Int) = -((16 : Nat) : Int) := rfl
    simp only [hf, hn, ht, hm, if_true, getItem_cons_zero, tryE_ok, e16, pySlice_to_neg _ 16 (by omega), pySlice_from_neg _ 16 (by omega)]
    ifs
    have hx : List.take (List.length r - (dl.toNat + (1 + v))) (List.drop (dl.toNat + (1 + v)) r) = List.drop (dl.toNat + (1 + v)) r := by
      apply List.take_of_length_le; simp only [List.length_drop]; omega
    have hx' : List.drop (1 + (dl.toNat + v)) r = List.drop (dl.toNat + (1 + v)) r := by congr 1; omega
    have hx'' : List.drop (dl.toNat + 1) r = List.drop (1 + dl.toNat) r := by congr 1; omega
    simp only [hx, hx', hx'', drop6, List.map_cons, List.map_nil, ofPkt, Pkt.tokenLen, Pkt.packetLen, List.length_take, List.length_drop]
    simp

/-- a varint of `n` bytes fits `n` bytes: `decode_variable_length_int(b).to_bytes(len, "big")` cannot overflow -/
theorem varint_fits (X : Bytes) (pll plen : Nat) (h1 : getVarintLength (List.take 1 X) = some pll)
    (h2 : decodeVarint (List.take pll X) = some plen) : plen < 256 ^ pll := by
  cases X with
  | nil => simp [getVarintLength] at h1
  | cons x t =>
    simp only [List.take_succ_cons, List.take_zero, getVarintLength, Option.some.injEq] at h1
    subst h1
    have hpos := varintLen_pos x
    obtain ⟨m, hm⟩ : ∃ m, varintLen x = m + 1 := ⟨varintLen x - 1, by omega⟩
    rw [hm] at h2 ⊢
    simp only [List.take_succ_cons, decodeVarint, hm, Nat.add_sub_cancel] at h2
    split at h2
    · cases h2
    · simp only [Option.some.injEq] at h2
      subst h2
      have hl : (List.take m (List.take m t)).length ≤ m := List.length_take_le _ _
      generalize List.take m (List.take m t) = L' at hl ⊢
      have hb := beNat_fold_lt L' (x.toNat &&& 63)
      have ha : x.toNat &&& 63 ≤ 63 := Nat.and_le_right
      have hp : 256 ^ L'.length ≤ 256 ^ m := Nat.pow_le_pow_right (by omega) hl
      have hmul : ((x.toNat &&& 63) + 1) * 256 ^ L'.length ≤ 64 * 256 ^ m := Nat.mul_le_mul (by omega) hp
      have e : 256 ^ (m + 1) = 256 * 256 ^ m := by rw [Nat.pow_succ, Nat.mul_comm]
      unfold accBE
      rw [e]
      exact Nat.lt_of_lt_of_le hb (Nat.le_trans hmul (by omega))

set_option maxHeartbeats 1000000 in
theorem extract_long_handshake (mask : MaskFn) (env : Env) (isServer : Bool) (guessed : Bytes) (ts : Nat) (fb a b c e dl : UInt8)
    (r : Bytes) (keys : Dict (List Nat) Bytes) (cs : Option Bytes)
    (hk : ∀ n, keys (keyName n) = env.keys n) (hc : env.chacha = decide (cs = some [0x13, 0x03]))
    (hz : Bytes.beNat (fb :: a :: b :: c :: e :: dl :: r) ≠ 0) (hs : isLong fb = true)
    (hver : ¬ [a, b, c, e] = [0, 0, 0, 0]) (hpt : packetType fb = .handshake) :
    Gen.Py.extract_quic_packet (maskE mask) isServer guessed keys cs (fb :: a :: b :: c :: e :: dl :: r) ts =
      .ok ((extract mask env isServer guessed ts (fb :: a :: b :: c :: e :: dl :: r)).pkts.map ofPkt)
        { tls_data := (extract mask env isServer guessed ts (fb :: a :: b :: c :: e :: dl :: r)).rest } := by
  have kSH := hk .serverHandshake; have kCH := hk .clientHandshake
  simp only [keyName] at kSH kCH
  have S0 : Bytes.slice (fb :: a :: b :: c :: e :: dl :: r) 1 5 = [a, b, c, e] := by simp [Bytes.slice]
  have S1 : Bytes.slice (fb :: a :: b :: c :: e :: dl :: r) (6 + dl.toNat) (7 + dl.toNat) = List.take 1 (List.drop dl.toNat r) := by
    rw [seven, slice6]; congr 1; omega
  have hdl : dl.toNat < 256 := by simpa using dl.toNat_lt
  have t0 : ¬ List.length r + 6 < 6 := by omega
  cases isServer <;> long_start hz hs hver hpt
  all_goals
    simp only [extractLong, protectedTail, need, bind, Except.bind, Dissect.ofOpt, slice_add, hpt, kSH, kCH, hc,
      remove_header_protection_eq_model]
    unpack_norm
    simp only [S0, S1, hver, Nat.add_assoc, Nat.reduceAdd, Nat.add_zero, drop6, drop7, List.drop_drop, List.drop_zero, if_true, if_false,
      decide_true, t0, hdl]
    by_cases hA : List.length r < dl.toNat
    · have g1 : List.length r + 6 < 1 + (4 + (1 + dl.toNat)) := by omega
      have m1 : List.length r + 6 < 6 + dl.toNat := by omega
      simp only [g1, m1, if_true]; simp
    have g1 : ¬ List.length r + 6 < 1 + (4 + (1 + dl.toNat)) := by omega
    have m1 : ¬ List.length r + 6 < 6 + dl.toNat := by omega
    simp only [g1, m1, if_false]
    by_cases hB : List.length r < dl.toNat + 1
    · have g2 : List.length r + 6 < 1 + (4 + (1 + (dl.toNat + 1))) := by omega
      have m2 : List.length r + 6 < 7 + dl.toNat := by omega
      simp only [g2, m2, if_true]; simp
    have g2 : ¬ List.length r + 6 < 1 + (4 + (1 + (dl.toNat + 1))) := by omega
    have m2 : ¬ List.length r + 6 < 7 + dl.toNat := by omega
    simp only [g2, m2, if_false]
    cases hv : decodeVarint (List.take 1 (List.drop dl.toNat r)) with
    | none => simp
    | some v =>
      have hv64 := decodeVarint_take1 _ _ hv
      have hv256 : v < 256 := by omega
      have hbv : (UInt8.ofNat v).toNat = v := by
        simp only [UInt8.toNat_ofNat']; omega
      simp only [hv256, if_true]
      by_cases hC : List.length r < dl.toNat + 1 + v
      · have g3 : List.length r + 6 < 1 + (4 + (1 + (dl.toNat + (1 + v)))) := by omega
        have m3 : List.length r + 6 < 7 + (dl.toNat + v) := by omega
        simp only [g3, m3, if_true]; simp
      have g3 : ¬ List.length r + 6 < 1 + (4 + (1 + (dl.toNat + (1 + v)))) := by omega
      have m3 : ¬ List.length r + 6 < 7 + (dl.toNat + v) := by omega
      have L1 : (List.take dl.toNat r).length = dl.toNat := by rw [List.length_take]; omega
      have L2 : (List.take v (List.drop (1 + dl.toNat) r)).length = v := by rw [List.length_take, List.length_drop]; omega
      have L2' : (List.take v (List.drop (dl.toNat + 1) r)).length = v := by rw [List.length_take, List.length_drop]; omega
      have eD : List.drop (1 + (dl.toNat + v)) r = List.drop (dl.toNat + (1 + v)) r := by congr 1; omega
      simp only [g3, m3, if_false, L1, L2, L2', hbv, eD]
      by_cases hD : List.length r < dl.toNat + 1 + v + 1
      · have g4 : List.length r + 6 < 1 + (4 + (1 + (dl.toNat + (1 + (v + 1))))) := by omega
        have m4 : List.length r + 6 < 7 + (dl.toNat + (v + 1)) := by omega
        simp only [g4, m4, if_true]; simp
      have g4 : ¬ List.length r + 6 < 1 + (4 + (1 + (dl.toNat + (1 + (v + 1))))) := by omega
      have m4 : ¬ List.length r + 6 < 7 + (dl.toNat + (v + 1)) := by omega
      simp only [g4, m4, if_false]
      cases hpl : getVarintLength (List.take 1 (List.drop (dl.toNat + (1 + v)) r)) with
      | none => simp
      | some pll =>
        simp only []
        by_cases hE : List.length r < dl.toNat + 1 + v + pll
        · have g5 : List.length r + 6 < 1 + (4 + (1 + (dl.toNat + (1 + (v + pll))))) := by omega
          have m5 : List.length r + 6 < 7 + (dl.toNat + (v + pll)) := by omega
          simp only [g5, m5, if_true]; simp
        have g5 : ¬ List.length r + 6 < 1 + (4 + (1 + (dl.toNat + (1 + (v + pll))))) := by omega
        have m5 : ¬ List.length r + 6 < 7 + (dl.toNat + (v + pll)) := by omega
        simp only [g5, m5, if_false]
        cases hpn : decodeVarint (List.take pll (List.drop (dl.toNat + (1 + v)) r)) with
        | none => simp
        | some plen =>
          have hfit := varint_fits _ _ _ hpl hpn
          have htb : toBytesE (plen : Int) (pll : Int) = .ok (Bytes.ofNatBE pll plen) := by
            have := toBytesE_nat plen pll hfit
            simpa using this
          simp only [htb, tryE_ok, beNat_ofNatBE _ _ hfit]
          generalize env.keys _ = K
          cases K with
          | none => simp
          | some key =>
            simp only []
            generalize removeHP mask true _ fb key _ _ _ = R
            cases R with
            | error er => simp [dErr_ne_fuel]
            | ok w =>
              obtain ⟨fb', pn, l⟩ := w
              simp only []
              by_cases hF : plen < l
              · have hf : fOk (Fld.S ((plen : Int) - (l : Int))) = false := by
                  simp only [fOk, decide_eq_false_iff_not]; omega
                simp only [hf, hF, Bool.false_eq_true, if_false, if_true]; simp
              have hf : fOk (Fld.S ((plen : Int) - (l : Int))) = true := by
                simp only [fOk, decide_eq_true_eq]; omega
              have hn : fNat (Fld.S ((plen : Int) - (l : Int))) = plen - l := by simp only [fNat]; omega
              have ht : ((plen : Int) - (l : Int)).toNat = plen - l := by omega
              simp only [hf, hn, ht, hF, if_true, if_false]
              by_cases hG : List.length r < dl.toNat + 1 + v + pll + l + (plen - l)
              · have g6 : List.length r + 6 < 1 + (4 + (1 + (dl.toNat + (1 + (v + (pll + (l + (plen - l)))))))) := by omega
                have m6 : List.length r + 6 < 7 + (dl.toNat + (v + (pll + (l + (plen - l))))) := by omega
                simp only [g6, m6, if_true]; simp
              have g6 : ¬ List.length r + 6 < 1 + (4 + (1 + (dl.toNat + (1 + (v + (pll + (l + (plen - l)))))))) := by omega
              have m6 : ¬ List.length r + 6 < 7 + (dl.toNat + (v + (pll + (l + (plen - l))))) := by omega
              have eP : List.drop (1 + (dl.toNat + (v + (pll + l)))) r = List.drop (dl.toNat + (1 + (v + (pll + l)))) r := by
                congr 1; omega
              have eS : List.drop (dl.toNat + 1) r = List.drop (1 + dl.toNat) r := by congr 1; omega
              have hlen : (List.take (plen - l) (List.drop (dl.toNat + (1 + (v + (pll + l)))) r)).length = plen - l := by
                rw [List.length_take, List.length_drop]; omega
              have hlb : (List.take pll (List.drop (dl.toNat + (1 + v)) r)).length = pll := by
                rw [List.length_take, List.length_drop]; omega
              simp only [g6, m6, if_false, eP, eS, hlen, drop6, List.map_cons, List.map_nil, ofPkt, Pkt.tokenLen, Pkt.packetLen]
              simp [hpn, hlb]

set_option maxHeartbeats 1000000 in
theorem extract_long_rtt0 (mask : MaskFn) (env : Env) (isServer : Bool) (guessed : Bytes) (ts : Nat) (fb a b c e dl : UInt8)
    (r : Bytes) (keys : Dict (List Nat) Bytes) (cs : Option Bytes)
    (hk : ∀ n, keys (keyName n) = env.keys n) (hc : env.chacha = decide (cs = some [0x13, 0x03]))
    (hz : Bytes.beNat (fb :: a :: b :: c :: e :: dl :: r) ≠ 0) (hs : isLong fb = true)
    (hver : ¬ [a, b, c, e] = [0, 0, 0, 0]) (hpt : packetType fb = .rtt0) :
    Gen.Py.extract_quic_packet (maskE mask) isServer guessed keys cs (fb :: a :: b :: c :: e :: dl :: r) ts =
      .ok ((extract mask env isServer guessed ts (fb :: a :: b :: c :: e :: dl :: r)).pkts.map ofPkt)
        { tls_data := (extract mask env isServer guessed ts (fb :: a :: b :: c :: e :: dl :: r)).rest } := by
  have kCE := hk .clientEarly
  simp only [keyName] at kCE
  have S0 : Bytes.slice (fb :: a :: b :: c :: e :: dl :: r) 1 5 = [a, b, c, e] := by simp [Bytes.slice]
  have S1 : Bytes.slice (fb :: a :: b :: c :: e :: dl :: r) (6 + dl.toNat) (7 + dl.toNat) = List.take 1 (List.drop dl.toNat r) := by
    rw [seven, slice6]; congr 1; omega
  have hdl : dl.toNat < 256 := by simpa using dl.toNat_lt
  have t0 : ¬ List.length r + 6 < 6 := by omega
  cases isServer <;> long_start hz hs hver hpt
  all_goals
    simp only [extractLong, protectedTail, need, bind, Except.bind, Dissect.ofOpt, slice_add, hpt, kCE, hc,
      remove_header_protection_eq_model]
    unpack_norm
    simp only [S0, S1, hver, Nat.add_assoc, Nat.reduceAdd, Nat.add_zero, drop6, drop7, List.drop_drop, List.drop_zero, if_true, if_false,
      decide_true, t0, hdl]
    by_cases hA : List.length r < dl.toNat
    · have g1 : List.length r + 6 < 1 + (4 + (1 + dl.toNat)) := by omega
      have m1 : List.length r + 6 < 6 + dl.toNat := by omega
      simp only [g1, m1, if_true]; simp
    have g1 : ¬ List.length r + 6 < 1 + (4 + (1 + dl.toNat)) := by omega
    have m1 : ¬ List.length r + 6 < 6 + dl.toNat := by omega
    simp only [g1, m1, if_false]
    by_cases hB : List.length r < dl.toNat + 1
    · have g2 : List.length r + 6 < 1 + (4 + (1 + (dl.toNat + 1))) := by omega
      have m2 : List.length r + 6 < 7 + dl.toNat := by omega
      simp only [g2, m2, if_true]; simp
    have g2 : ¬ List.length r + 6 < 1 + (4 + (1 + (dl.toNat + 1))) := by omega
    have m2 : ¬ List.length r + 6 < 7 + dl.toNat := by omega
    simp only [g2, m2, if_false]
    cases hv : decodeVarint (List.take 1 (List.drop dl.toNat r)) with
    | none => simp
    | some v =>
      have hv64 := decodeVarint_take1 _ _ hv
      have hv256 : v < 256 := by omega
      have hbv : (UInt8.ofNat v).toNat = v := by
        simp only [UInt8.toNat_ofNat']; omega
      simp only [hv256, if_true]
      by_cases hC : List.length r < dl.toNat + 1 + v
      · have g3 : List.length r + 6 < 1 + (4 + (1 + (dl.toNat + (1 + v)))) := by omega
        have m3 : List.length r + 6 < 7 + (dl.toNat + v) := by omega
        simp only [g3, m3, if_true]; simp
      have g3 : ¬ List.length r + 6 < 1 + (4 + (1 + (dl.toNat + (1 + v)))) := by omega
      have m3 : ¬ List.length r + 6 < 7 + (dl.toNat + v) := by omega
      have L1 : (List.take dl.toNat r).length = dl.toNat := by rw [List.length_take]; omega
      have L2 : (List.take v (List.drop (1 + dl.toNat) r)).length = v := by rw [List.length_take, List.length_drop]; omega
      have L2' : (List.take v (List.drop (dl.toNat + 1) r)).length = v := by rw [List.length_take, List.length_drop]; omega
      have eD : List.drop (1 + (dl.toNat + v)) r = List.drop (dl.toNat + (1 + v)) r := by congr 1; omega
      simp only [g3, m3, if_false, L1, L2, L2', hbv, eD]
      by_cases hD : List.length r < dl.toNat + 1 + v + 1
      · have g4 : List.length r + 6 < 1 + (4 + (1 + (dl.toNat + (1 + (v + 1))))) := by omega
        have m4 : List.length r + 6 < 7 + (dl.toNat + (v + 1)) := by omega
        simp only [g4, m4, if_true]; simp
      have g4 : ¬ List.length r + 6 < 1 + (4 + (1 + (dl.toNat + (1 + (v + 1))))) := by omega
      have m4 : ¬ List.length r + 6 < 7 + (dl.toNat + (v + 1)) := by omega
      simp only [g4, m4, if_false]
      cases hpl : getVarintLength (List.take 1 (List.drop (dl.toNat + (1 + v)) r)) with
      | none => simp
      | some pll =>
        simp only []
        by_cases hE : List.length r < dl.toNat + 1 + v + pll
        · have g5 : List.length r + 6 < 1 + (4 + (1 + (dl.toNat + (1 + (v + pll))))) := by omega
          have m5 : List.length r + 6 < 7 + (dl.toNat + (v + pll)) := by omega
          simp only [g5, m5, if_true]; simp
        have g5 : ¬ List.length r + 6 < 1 + (4 + (1 + (dl.toNat + (1 + (v + pll))))) := by omega
        have m5 : ¬ List.length r + 6 < 7 + (dl.toNat + (v + pll)) := by omega
        simp only [g5, m5, if_false]
        cases hpn : decodeVarint (List.take pll (List.drop (dl.toNat + (1 + v)) r)) with
        | none => simp
        | some plen =>
          have hfit := varint_fits _ _ _ hpl hpn
          have htb : toBytesE (plen : Int) (pll : Int) = .ok (Bytes.ofNatBE pll plen) := by
            have := toBytesE_nat plen pll hfit
            simpa using this
          simp only [htb, tryE_ok, beNat_ofNatBE _ _ hfit]
          generalize env.keys _ = K
          cases K with
          | none => simp
          | some key =>
            simp only []
            generalize removeHP mask true _ fb key _ _ _ = R
            cases R with
            | error er => simp [dErr_ne_fuel]
            | ok w =>
              obtain ⟨fb', pn, l⟩ := w
              simp only []
              by_cases hF : plen < l
              · have hf : fOk (Fld.S ((plen : Int) - (l : Int))) = false := by
                  simp only [fOk, decide_eq_false_iff_not]; omega
                simp only [hf, hF, Bool.false_eq_true, if_false, if_true]; simp
              have hf : fOk (Fld.S ((plen : Int) - (l : Int))) = true := by
                simp only [fOk, decide_eq_true_eq]; omega
              have hn : fNat (Fld.S ((plen : Int) - (l : Int))) = plen - l := by simp only [fNat]; omega
              have ht : ((plen : Int) - (l : Int)).toNat = plen - l := by omega
              simp only [hf, hn, ht, hF, if_true, if_false]
              by_cases hG : List.length r < dl.toNat + 1 + v + pll + l + (plen - l)
              · have g6 : List.length r + 6 < 1 + (4 + (1 + (dl.toNat + (1 + (v + (pll + (l + (plen - l)))))))) := by omega
                have m6 : List.length r + 6 < 7 + (dl.toNat + (v + (pll + (l + (plen - l))))) := by omega
                simp only [g6, m6, if_true]; simp
              have g6 : ¬ List.length r + 6 < 1 + (4 + (1 + (dl.toNat + (1 + (v + (pll + (l + (plen - l)))))))) := by omega
              have m6 : ¬ List.length r + 6 < 7 + (dl.toNat + (v + (pll + (l + (plen - l))))) := by omega
              have eP : List.drop (1 + (dl.toNat + (v + (pll + l)))) r = List.drop (dl.toNat + (1 + (v + (pll + l)))) r := by
                congr 1; omega
              have eS : List.drop (dl.toNat + 1) r = List.drop (1 + dl.toNat) r := by congr 1; omega
              have hlen : (List.take (plen - l) (List.drop (dl.toNat + (1 + (v + (pll + l)))) r)).length = plen - l := by
                rw [List.length_take, List.length_drop]; omega
              have hlb : (List.take pll (List.drop (dl.toNat + (1 + v)) r)).length = pll := by
                rw [List.length_take, List.length_drop]; omega
              simp only [g6, m6, if_false, eP, eS, hlen, drop6, List.map_cons, List.map_nil, ofPkt, Pkt.tokenLen, Pkt.packetLen]
              simp [hpn, hlb]

set_option maxHeartbeats 1000000 in
theorem extract_long_initial (mask : MaskFn) (env : Env) (isServer : Bool) (guessed : Bytes) (ts : Nat) (fb a b c e dl : UInt8)
    (r : Bytes) (keys : Dict (List Nat) Bytes) (cs : Option Bytes)
    (hk : ∀ n, keys (keyName n) = env.keys n) (hc : env.chacha = decide (cs = some [0x13, 0x03]))
    (hz : Bytes.beNat (fb :: a :: b :: c :: e :: dl :: r) ≠ 0) (hs : isLong fb = true)
    (hver : ¬ [a, b, c, e] = [0, 0, 0, 0]) (hpt : packetType fb = .initial) :
    Gen.Py.extract_quic_packet (maskE mask) isServer guessed keys cs (fb :: a :: b :: c :: e :: dl :: r) ts =
      .ok ((extract mask env isServer guessed ts (fb :: a :: b :: c :: e :: dl :: r)).pkts.map ofPkt)
        { tls_data := (extract mask env isServer guessed ts (fb :: a :: b :: c :: e :: dl :: r)).rest } := by
  have kSI := hk .serverInitial; have kCI := hk .clientInitial
  simp only [keyName] at kSI kCI
  have S0 : Bytes.slice (fb :: a :: b :: c :: e :: dl :: r) 1 5 = [a, b, c, e] := by simp [Bytes.slice]
  have S1 : Bytes.slice (fb :: a :: b :: c :: e :: dl :: r) (6 + dl.toNat) (7 + dl.toNat) = List.take 1 (List.drop dl.toNat r) := by
    rw [seven, slice6]; congr 1; omega
  have hdl : dl.toNat < 256 := by simpa using dl.toNat_lt
  have t0 : ¬ List.length r + 6 < 6 := by omega
  cases isServer <;> long_start hz hs hver hpt
  all_goals
    simp only [extractLong, protectedTail, need, bind, Except.bind, Dissect.ofOpt, slice_add, hpt, kSI, kCI, hc,
      remove_header_protection_eq_model]
    unpack_norm
    simp only [S0, S1, hver, Nat.add_assoc, Nat.reduceAdd, Nat.add_zero, drop6, drop7, List.drop_drop, List.drop_zero, if_true, if_false,
      decide_true, t0, hdl]
    by_cases hA : List.length r < dl.toNat
    · have g1 : List.length r + 6 < 1 + (4 + (1 + dl.toNat)) := by omega
      have m1 : List.length r + 6 < 6 + dl.toNat := by omega
      simp only [g1, m1, if_true]; simp
    have g1 : ¬ List.length r + 6 < 1 + (4 + (1 + dl.toNat)) := by omega
    have m1 : ¬ List.length r + 6 < 6 + dl.toNat := by omega
    simp only [g1, m1, if_false]
    by_cases hB : List.length r < dl.toNat + 1
    · have g2 : List.length r + 6 < 1 + (4 + (1 + (dl.toNat + 1))) := by omega
      have m2 : List.length r + 6 < 7 + dl.toNat := by omega
      simp only [g2, m2, if_true]; simp
    have g2 : ¬ List.length r + 6 < 1 + (4 + (1 + (dl.toNat + 1))) := by omega
    have m2 : ¬ List.length r + 6 < 7 + dl.toNat := by omega
    simp only [g2, m2, if_false]
    cases hv : decodeVarint (List.take 1 (List.drop dl.toNat r)) with
    | none => simp
    | some v =>
      have hv64 := decodeVarint_take1 _ _ hv
      have hv256 : v < 256 := by omega
      have hbv : (UInt8.ofNat v).toNat = v := by
        simp only [UInt8.toNat_ofNat']; omega
      simp only [hv256, if_true]
      by_cases hC : List.length r < dl.toNat + 1 + v
      · have g3 : List.length r + 6 < 1 + (4 + (1 + (dl.toNat + (1 + v)))) := by omega
        have m3 : List.length r + 6 < 7 + (dl.toNat + v) := by omega
        simp only [g3, m3, if_true]; simp
      have g3 : ¬ List.length r + 6 < 1 + (4 + (1 + (dl.toNat + (1 + v)))) := by omega
      have m3 : ¬ List.length r + 6 < 7 + (dl.toNat + v) := by omega
      have L1 : (List.take dl.toNat r).length = dl.toNat := by rw [List.length_take]; omega
      have L2 : (List.take v (List.drop (1 + dl.toNat) r)).length = v := by rw [List.length_take, List.length_drop]; omega
      have L2' : (List.take v (List.drop (dl.toNat + 1) r)).length = v := by rw [List.length_take, List.length_drop]; omega
      have eD : List.drop (1 + (dl.toNat + v)) r = List.drop (dl.toNat + (1 + v)) r := by congr 1; omega
      simp only [g3, m3, if_false, L1, L2, L2', hbv, eD]
      by_cases hD : List.length r < dl.toNat + 1 + v + 1
      · have g4 : List.length r + 6 < 1 + (4 + (1 + (dl.toNat + (1 + (v + 1))))) := by omega
        have m4 : List.length r + 6 < 7 + (dl.toNat + (v + 1)) := by omega
        simp only [g4, m4, if_true]; simp
      have g4 : ¬ List.length r + 6 < 1 + (4 + (1 + (dl.toNat + (1 + (v + 1))))) := by omega
      have m4 : ¬ List.length r + 6 < 7 + (dl.toNat + (v + 1)) := by omega
      simp only [g4, m4, if_false]
      cases htll : getVarintLength (List.take 1 (List.drop (dl.toNat + (1 + v)) r)) with
      | none => simp
      | some tll =>
        simp only []
        by_cases hE : List.length r < dl.toNat + 1 + v + tll
        · have g5 : List.length r + 6 < 1 + (4 + (1 + (dl.toNat + (1 + (v + tll))))) := by omega
          have m5 : List.length r + 6 < 7 + (dl.toNat + (v + tll)) := by omega
          simp only [g5, m5, if_true]; simp
        have g5 : ¬ List.length r + 6 < 1 + (4 + (1 + (dl.toNat + (1 + (v + tll))))) := by omega
        have m5 : ¬ List.length r + 6 < 7 + (dl.toNat + (v + tll)) := by omega
        simp only [g5, m5, if_false]
        cases htl : decodeVarint (List.take tll (List.drop (dl.toNat + (1 + v)) r)) with
        | none => simp
        | some tl =>
          simp only []
          by_cases hT : List.length r < dl.toNat + 1 + v + tll + tl
          · have g7 : List.length r + 6 < 1 + (4 + (1 + (dl.toNat + (1 + (v + (tll + tl)))))) := by omega
            have m7 : List.length r + 6 < 7 + (dl.toNat + (v + (tll + tl))) := by omega
            simp only [g7, m7, if_true]; simp
          have g7 : ¬ List.length r + 6 < 1 + (4 + (1 + (dl.toNat + (1 + (v + (tll + tl)))))) := by omega
          have m7 : ¬ List.length r + 6 < 7 + (dl.toNat + (v + (tll + tl))) := by omega
          simp only [g7, m7, if_false]
          by_cases hT1 : List.length r < dl.toNat + 1 + v + tll + tl + 1
          · have g8 : List.length r + 6 < 1 + (4 + (1 + (dl.toNat + (1 + (v + (tll + (tl + 1))))))) := by omega
            have m8 : List.length r + 6 < 7 + (dl.toNat + (v + (tll + (tl + 1)))) := by omega
            simp only [g8, m8, if_true]; simp
          have g8 : ¬ List.length r + 6 < 1 + (4 + (1 + (dl.toNat + (1 + (v + (tll + (tl + 1))))))) := by omega
          have m8 : ¬ List.length r + 6 < 7 + (dl.toNat + (v + (tll + (tl + 1)))) := by omega
          have eD2 : List.drop (1 + (dl.toNat + (v + (tll + tl)))) r = List.drop (dl.toNat + (1 + (v + (tll + tl)))) r := by
            congr 1; omega
          simp only [g8, m8, if_false, eD2]
          cases hpl : getVarintLength (List.take 1 (List.drop (dl.toNat + (1 + (v + (tll + tl)))) r)) with
          | none => simp
          | some pll =>
            simp only []
            by_cases hP : List.length r < dl.toNat + 1 + v + tll + tl + pll
            · have g9 : List.length r + 6 < 1 + (4 + (1 + (dl.toNat + (1 + (v + (tll + (tl + pll))))))) := by omega
              have m9 : List.length r + 6 < 7 + (dl.toNat + (v + (tll + (tl + pll)))) := by omega
              simp only [g9, m9, if_true]; simp
            have g9 : ¬ List.length r + 6 < 1 + (4 + (1 + (dl.toNat + (1 + (v + (tll + (tl + pll))))))) := by omega
            have m9 : ¬ List.length r + 6 < 7 + (dl.toNat + (v + (tll + (tl + pll)))) := by omega
            simp only [g9, m9, if_false]
            cases hpn : decodeVarint (List.take pll (List.drop (dl.toNat + (1 + (v + (tll + tl)))) r)) with
            | none => simp
            | some plen =>
              have hfit := varint_fits _ _ _ hpl hpn
              have htb : toBytesE (plen : Int) (pll : Int) = .ok (Bytes.ofNatBE pll plen) := by
                have := toBytesE_nat plen pll hfit
                simpa using this
              have eO : 7 + (dl.toNat + (v + (pll + (tll + tl)))) = 7 + (dl.toNat + (v + (tll + (tl + pll)))) := by omega
              simp only [htb, tryE_ok, beNat_ofNatBE _ _ hfit, eO]
              generalize env.keys _ = K
              cases K with
              | none => simp
              | some key =>
                simp only []
                generalize removeHP mask true _ fb key _ _ _ = R
                cases R with
                | error er => simp [dErr_ne_fuel]
                | ok w =>
                  obtain ⟨fb', pn, l⟩ := w
                  simp only []
                  by_cases hF : plen < l
                  · have hf : fOk (Fld.S ((plen : Int) - (l : Int))) = false := by
                      simp only [fOk, decide_eq_false_iff_not]; omega
                    simp only [hf, hF, Bool.false_eq_true, if_false, if_true]; simp
                  have hf : fOk (Fld.S ((plen : Int) - (l : Int))) = true := by
                    simp only [fOk, decide_eq_true_eq]; omega
                  have hn : fNat (Fld.S ((plen : Int) - (l : Int))) = plen - l := by simp only [fNat]; omega
                  have ht : ((plen : Int) - (l : Int)).toNat = plen - l := by omega
                  simp only [hf, hn, ht, hF, if_true, if_false]
                  by_cases hG : List.length r < dl.toNat + 1 + v + tll + tl + pll + l + (plen - l)
                  · have g6 : List.length r + 6 < 1 + (4 + (1 + (dl.toNat + (1 + (v + (tll + (tl + (pll + (l + (plen - l)))))))))) := by omega
                    have m6 : List.length r + 6 < 7 + (dl.toNat + (v + (tll + (tl + (pll + (l + (plen - l))))))) := by omega
                    simp only [g6, m6, if_true]; simp
                  have g6 : ¬ List.length r + 6 < 1 + (4 + (1 + (dl.toNat + (1 + (v + (tll + (tl + (pll + (l + (plen - l)))))))))) := by omega
                  have m6 : ¬ List.length r + 6 < 7 + (dl.toNat + (v + (tll + (tl + (pll + (l + (plen - l))))))) := by omega
                  have eP : List.drop (1 + (dl.toNat + (v + (tll + (tl + (pll + l)))))) r =
                      List.drop (dl.toNat + (1 + (v + (tll + (tl + (pll + l)))))) r := by congr 1; omega
                  have eS : List.drop (dl.toNat + 1) r = List.drop (1 + dl.toNat) r := by congr 1; omega
                  have eT : List.drop (1 + (dl.toNat + (v + tll))) r = List.drop (dl.toNat + (1 + (v + tll))) r := by congr 1; omega
                  have hlen : (List.take (plen - l) (List.drop (dl.toNat + (1 + (v + (tll + (tl + (pll + l)))))) r)).length = plen - l := by
                    rw [List.length_take, List.length_drop]; omega
                  have hlb : (List.take pll (List.drop (dl.toNat + (1 + (v + (tll + tl)))) r)).length = pll := by
                    rw [List.length_take, List.length_drop]; omega
                  simp only [g6, m6, if_false, eP, eS, eT, hlen, drop6, List.map_cons, List.map_nil, ofPkt, Pkt.tokenLen, Pkt.packetLen]
                  simp [hpn, hlb, htl]

theorem packetType_cases (fb : UInt8) :
    packetType fb = .initial ∨ packetType fb = .rtt0 ∨ packetType fb = .handshake ∨ packetType fb = .retry := by
  revert fb; apply forall_u8; decide +kernel

/-- a long-header datagram of fewer than six bytes: the first `struct.unpack_from` fails, everything is dropped -/
theorem extract_long_tiny (mask : MaskFn) (env : Env) (isServer : Bool) (guessed : Bytes) (ts : Nat) (fb : UInt8) (r : Bytes)
    (keys : Dict (List Nat) Bytes) (cs : Option Bytes)
    (hz : Bytes.beNat (fb :: r) ≠ 0) (hs : isLong fb = true) (hlen : r.length < 5) :
    Gen.Py.extract_quic_packet (maskE mask) isServer guessed keys cs (fb :: r) ts =
      .ok ((extract mask env isServer guessed ts (fb :: r)).pkts.map ofPkt)
        { tls_data := (extract mask env isServer guessed ts (fb :: r)).rest } := by
  unfold Gen.Py.extract_quic_packet extract
  simp only [get_header_type_eq_model, onFirst, hs, hz, tryE_ok, Bool.false_eq_true, if_false, decide_false, reduceCtorEq, decide_true, if_true]
  rw [try_unpack]
  have h6 : (fb :: r).length < ([Fld.B, Fld.S 4, Fld.B].map fNat).sum := by
    simp only [List.length_cons, List.map_cons, List.map_nil, List.sum_cons, List.sum_nil, fNat_B, fNat_4]; omega
  have hall : ([Fld.B, Fld.S (4 : Int), Fld.B] ++ []).all fOk = true := by decide
  simp only [List.append_nil] at hall ⊢
  simp only [hall, h6, if_true, decide_true]
  simp only [extractLong, need, bind, Except.bind]
  have : List.length r + 1 < 6 := by omega
  simp only [List.length_cons, this, if_true]
  simp

set_option maxRecDepth 4096 in
theorem extract_nil (mask : MaskFn) (env : Env) (isServer : Bool) (guessed : Bytes) (ts : Nat)
    (keys : Dict (List Nat) Bytes) (cs : Option Bytes) :
    Gen.Py.extract_quic_packet (maskE mask) isServer guessed keys cs [] ts =
      .ok ((extract mask env isServer guessed ts []).pkts.map ofPkt) { tls_data := (extract mask env isServer guessed ts []).rest } := by
  have h : Gen.Py.get_header_type [] = .error .index := by rw [get_header_type_eq_model]; rfl
  unfold Gen.Py.extract_quic_packet extract
  simp only [h, tryE_error]
  simp

set_option maxRecDepth 4096 in
theorem extract_zeros (mask : MaskFn) (env : Env) (isServer : Bool) (guessed : Bytes) (ts : Nat) (fb : UInt8) (r : Bytes)
    (keys : Dict (List Nat) Bytes) (cs : Option Bytes) (hz : Bytes.beNat (fb :: r) = 0) :
    Gen.Py.extract_quic_packet (maskE mask) isServer guessed keys cs (fb :: r) ts =
      .ok ((extract mask env isServer guessed ts (fb :: r)).pkts.map ofPkt)
        { tls_data := (extract mask env isServer guessed ts (fb :: r)).rest } := by
  have h : Gen.Py.get_header_type (fb :: r) = .ok (if isLong fb then .long else .short) := by rw [get_header_type_eq_model]; rfl
  unfold Gen.Py.extract_quic_packet extract
  simp only [h, tryE_ok, hz]
  rw [if_pos (by decide)]
  simp

/-- `extract_quic_packet(in_packet, isserver, guessed_dcid, keys, ciphersuite)` on `in_packet.tls_data = d`, the whole
    function: with the two mask primitives as the model's `mask` parameter and `keys` holding what the model's `env.keys`
    holds, the packets constructed are — keyword argument by keyword argument — the model's `extract … d`, the datagram
    remainder left in `in_packet.tls_data` is the model's `rest`, and no exception leaves the function. -/
theorem extract_quic_packet_eq_model (mask : MaskFn) (env : Env) (isServer : Bool) (guessed : Bytes) (ts : Nat) (d : Bytes)
    (keys : Dict (List Nat) Bytes) (cs : Option Bytes)
    (hk : ∀ n, keys (keyName n) = env.keys n) (hc : env.chacha = decide (cs = some [0x13, 0x03])) :
    Gen.Py.extract_quic_packet (maskE mask) isServer guessed keys cs d ts =
      .ok ((extract mask env isServer guessed ts d).pkts.map ofPkt) { tls_data := (extract mask env isServer guessed ts d).rest } := by
  cases d with
  | nil =>
    exact extract_nil mask env isServer guessed ts keys cs
  | cons fb r =>
    by_cases hz : Bytes.beNat (fb :: r) = 0
    · exact extract_zeros mask env isServer guessed ts fb r keys cs hz
    by_cases hs : isLong fb = true
    · rcases r with _ | ⟨a, _ | ⟨b, _ | ⟨c, _ | ⟨e, _ | ⟨dl, r'⟩⟩⟩⟩⟩
      · exact extract_long_tiny mask env isServer guessed ts fb _ keys cs hz hs (by simp)
      · exact extract_long_tiny mask env isServer guessed ts fb _ keys cs hz hs (by simp)
      · exact extract_long_tiny mask env isServer guessed ts fb _ keys cs hz hs (by simp)
      · exact extract_long_tiny mask env isServer guessed ts fb _ keys cs hz hs (by simp)
      · exact extract_long_tiny mask env isServer guessed ts fb _ keys cs hz hs (by simp)
      · by_cases hver : [a, b, c, e] = [0, 0, 0, 0]
        · simp only [List.cons.injEq, and_true] at hver
          obtain ⟨rfl, rfl, rfl, rfl⟩ := hver
          exact extract_long_vneg mask env isServer guessed ts fb dl r' keys cs hz hs
        · rcases packetType_cases fb with hpt | hpt | hpt | hpt
          · exact extract_long_initial mask env isServer guessed ts fb a b c e dl r' keys cs hk hc hz hs hver hpt
          · exact extract_long_rtt0 mask env isServer guessed ts fb a b c e dl r' keys cs hk hc hz hs hver hpt
          · exact extract_long_handshake mask env isServer guessed ts fb a b c e dl r' keys cs hk hc hz hs hver hpt
          · exact extract_long_retry mask env isServer guessed ts fb a b c e dl r' keys cs hz hs hver hpt
    · have hs' : isLong fb = false := by simpa using hs
      exact extract_short mask env isServer guessed ts fb r keys cs hk hc hz hs'

-- Non-vacuity: a short-header packet and a Retry through the translated code, with a toy mask (first five sample bytes)
example : Gen.Py.extract_quic_packet (maskE fun _ _ s => some (s.take 5)) false [0xaa] (fun _ => some [1]) none
      ([0x41, 0xaa] ++ List.replicate 24 7) 9 =
    .ok ((extract (fun _ _ s => some (s.take 5)) ⟨fun _ => some [1], false⟩ false [0xaa] 9 ([0x41, 0xaa] ++ List.replicate 24 7)).pkts.map ofPkt)
      { tls_data := [] } ∧
    (extract (fun _ _ s => some (s.take 5)) ⟨fun _ => some [1], false⟩ false [0xaa] 9 ([0x41, 0xaa] ++ List.replicate 24 7)).pkts.length = 1 := by
  decide +kernel

end TLX.Props.Translated
