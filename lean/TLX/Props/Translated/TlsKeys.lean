/-
session.py's key selection as translated from the Python source (`TLX/Gen/Translated/TlsKeys.lean`) equals the hand-written
model: `Session.find_session_secrets` = `TLX.Keylog.findSessionSecrets` (`str.lower` is the external `str_lower`, instantiated
with the model's `lower`), the secret-line choice of `generate_keys` = the `found` part of `TLX.Pipeline.genKeys`
(the (pre-)master-secret filter for TLS ≤ 1.2, "no line" = `can_decrypt = False; return`), its block-size table = `blockBits`.
-/
import TLX.Gen.Translated.TlsKeys
import TLX.Lemmas.PyRt
namespace TLX.Props.Translated.TlsKeys
open TLX TLX.Keylog TLX.Gen.Py PyRt

theorem hexStr_eq (b : Bytes) : PyRt.hexStr b = hexOf (Pipeline.natsOfBytes b) := by
  induction b with
  | nil => rfl
  | cons x r ih =>
    have : PyRt.hexStr (x :: r) = PyRt.hexDigit (x.toNat / 16) :: PyRt.hexDigit (x.toNat % 16) :: PyRt.hexStr r := by
      simp [PyRt.hexStr]
    rw [this, ih]
    rfl

theorem fold_snd {α : Type} (f : Nat × List α → α → Nat × List α) (p : α → Bool)
    (hf : ∀ s k, (f s k).2 = if p k then s.2 ++ [k] else s.2) :
    ∀ (l : List α) (s : Nat × List α), (l.foldl f s).2 = s.2 ++ l.filter p := by
  intro l
  induction l with
  | nil => intro s; simp
  | cons k r ih =>
    intro s
    rw [List.foldl_cons, ih, hf]
    by_cases h : p k = true <;> simp [h]

/-- `find_session_secrets()`: the key-log lines whose client random is this session's, in key-log order -/
theorem find_session_secrets_eq_model (kl : List Key) (cr : Bytes) (v : Option Session.Ver) :
    TK.find_session_secrets lower kl cr v = findSessionSecrets kl (Pipeline.natsOfBytes cr) := by
  unfold TK.find_session_secrets findSessionSecrets
  rw [hexStr_eq]
  refine (fold_snd _ (fun k => lower k.clientRandom == lower (hexOf (Pipeline.natsOfBytes cr))) ?_ kl (0, [])).trans (by simp)
  intro s k
  by_cases h : lower k.clientRandom = lower (hexOf (Pipeline.natsOfBytes cr))
  · simp [h]
  · have h2 : ¬ lower (hexOf (Pipeline.natsOfBytes cr)) = lower k.clientRandom := fun e => h e.symm
    simp [h, h2]

/-- the model's choice of the lines `generate_keys` goes on with (`Pipeline.genKeys`: `found`) -/
def found (kl : List Key) (cr : Bytes) (v : Option Session.Ver) : List Key :=
  let found := findSessionSecrets kl (Pipeline.natsOfBytes cr)
  if v = some .tls13 then found else found.filter fun k => k.label == s_CLIENT_RANDOM || k.label == s_RSA

/-- `generate_keys`, from `secret_list = self.find_session_secrets()` to `secret = secret_list[0]`: no line left is
    `can_decrypt = False; return` (the model's `.noSecrets`), otherwise the fragment is left at its end with the list -/
theorem select_secret_eq_model (kl : List Key) (cr : Bytes) (v : Option Session.Ver) (cd : Bool) :
    TK.select_secret lower v kl cr v cd
      = match found kl cr v with
        | [] => .ok .ret ⟨false, []⟩
        | k :: r => .ok .fall ⟨cd, k :: r⟩ := by
  unfold TK.select_secret found
  rw [find_session_secrets_eq_model]
  have hl : ∀ k : Key, decide (k.label ∈ [([67, 76, 73, 69, 78, 84, 95, 82, 65, 78, 68, 79, 77] : List Nat), ([82, 83, 65] : List Nat)])
      = (k.label == s_CLIENT_RANDOM || k.label == s_RSA) := by
    intro k
    have e1 : ∀ a b : List Nat, decide (a = b) = (a == b) := by
      intro a b; by_cases h : a = b <;> simp [h]
    simp only [s_CLIENT_RANDOM, s_RSA, List.mem_cons, List.not_mem_nil, or_false, Bool.decide_or, e1]
  simp only [hl]
  by_cases h13 : v = some .tls13
  · simp only [h13, ne_eq, not_true_eq_false, decide_false, if_true, Bool.false_eq_true, if_false]
    cases findSessionSecrets kl (Pipeline.natsOfBytes cr) <;> rfl
  · simp only [h13, ne_eq, not_false_eq_true, decide_true, if_true, if_false]
    cases List.filter (fun k : Key => k.label == s_CLIENT_RANDOM || k.label == s_RSA) (findSessionSecrets kl (Pipeline.natsOfBytes cr)) <;> rfl

/-- the block-size table of `generate_keys` (bits) -/
theorem block_size_eq_model (a : Cipher.Alg) : (TK.block_size a).block_size = Pipeline.blockBits a := by
  cases a <;> rfl

/-- the end of `generate_keys`: `Decryptor(CryptoAlgo[0], Mode[0], MAC, keys, self.tls_version, KeyLength, MAC.digest_size, TagLength,
    block_size, self.extensions, self.compression_method)` — the constructor (external `mk`; its parameters in the order of
    `Decryptor.__init__`, group Decrypt2) gets the model's `blockBits` of the bulk algorithm as block length, the session's version,
    key length before MAC length before tag length (`Pipeline.genKeys`: `Dec.init P a.bulk (rlVersion v) macLen a.tagLen (blockBits a.bulk) …`) -/
theorem install_eq_model {μ η κ ε δ : Type}
    (mk : Cipher.Alg → μ → η → κ → Option Session.Ver → Nat → Nat → Option Nat → Nat → ε → Nat → δ)
    (a : Cipher.Alg) (m : μ) (mac : η) (keys : κ) (kl ds : Nat) (tl : Option Nat) (v : Option Session.Ver) (ex : ε) (comp : Nat) :
    (TK.install mk a m mac keys kl ds tl v ex comp).decryptor = mk a m mac keys v kl ds tl (Pipeline.blockBits a) ex comp := by
  cases a <;> rfl

end TLX.Props.Translated.TlsKeys
