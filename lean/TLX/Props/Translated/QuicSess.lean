/-
Translated Python functions, group QuicSess: tlexport/quic/quic_session.py `check_key_epoch`, `packet_isserver`, `matches_session_dgram`.
Each `<python name>_eq_model` says the definition regenerated from the tree under test
(`TLX/Gen/Translated/QuicSess.lean`, written by `harness/translate.py`) EQUALS the hand-written model function.
This module imports only its own group's generated file: a source change outside the group cannot break it.
-/
import TLX.Gen.Translated.QuicSess
import TLX.Props.Translated.Enc
import TLX.Quic.Session
import TLX.MainLoop
namespace TLX.Props.Translated
open TLX TLX.PyRt

/-- the model state seen as the record of the four attributes `check_key_epoch` writes -/
def epochsOf {σ : Type} (s : Quic.Session.St σ) : Gen.Py.check_key_epoch_flip.St :=
  { epoch_server := s.epochServer, last_key_phase_server := s.lastPhaseServer,
    epoch_client := s.epochClient, last_key_phase_client := s.lastPhaseClient }

/-- `check_key_epoch`, first statement (`if isserver: … else: …`): the model's `flipEpoch` -/
theorem check_key_epoch_flip_eq_model {σ : Type} (s : Quic.Session.St σ) (phase : Option Nat) (srv : Bool) :
    Gen.Py.check_key_epoch_flip phase srv s.epochServer s.lastPhaseServer s.epochClient s.lastPhaseClient =
      epochsOf (Quic.Session.flipEpoch s phase srv) := by
  unfold Gen.Py.check_key_epoch_flip Quic.Session.flipEpoch epochsOf
  cases srv <;> simp only [Bool.false_eq_true, if_false, if_true, decide_eq_true_eq] <;> split <;> simp_all

example : Gen.Py.check_key_epoch_flip (some 1) true 0 (some 0) 0 (some 0) =
    { epoch_server := 1, last_key_phase_server := some 1, epoch_client := 0, last_key_phase_client := some 0 } := by decide

/-- `check_key_epoch`, the test of the second `if`: the condition under which the model's `extendGens` appends a
    key generation -/
theorem check_key_epoch_extend_test_eq_model (ec es : Nat) (gens : List Quic.Session.Dec) :
    Gen.Py.check_key_epoch_extend_test ec es gens = decide (ec = gens.length ∨ es = gens.length) := by
  simp [Gen.Py.check_key_epoch_extend_test]

/-- … which is literally the `if` of `extendGens` -/
theorem extendGens_cond {σ : Type} (P : Quic.Session.Params σ) (s : Quic.Session.St σ) (gens : List Quic.Session.Dec)
    (h : s.decApp = some gens) (hc : Gen.Py.check_key_epoch_extend_test s.epochClient s.epochServer gens = false) :
    Quic.Session.extendGens P s = (s, none) := by
  rw [check_key_epoch_extend_test_eq_model] at hc
  simp only [decide_eq_false_iff_not] at hc
  simp [Quic.Session.extendGens, h, hc]

example : Gen.Py.check_key_epoch_extend_test 1 1 [] = false ∧ Gen.Py.check_key_epoch_extend_test 0 0 [] = true := by decide

/-- `packet_isserver` is the model's `packetIsServer`, its `fromClientAddr` being the address test of the third arm -/
theorem packet_isserver_eq_model {σ : Type} (s : Quic.Session.St σ) (dcid ipSrc clientIp : Bytes) (sport clientPort : Nat) :
    Gen.Py.packet_isserver dcid s.serverCids s.clientCids ipSrc sport clientIp clientPort =
      Quic.Session.packetIsServer s (decide (ipSrc = clientIp ∧ sport = clientPort)) dcid := by
  unfold Gen.Py.packet_isserver Quic.Session.packetIsServer
  simp only [Bool.and_eq_true, decide_eq_true_eq, Bool.not_eq_true', decide_eq_false_iff_not, gt_iff_lt]
  repeat' split
  all_goals simp_all

example : Gen.Py.packet_isserver [1, 2] [[1, 2]] [[9]] [10, 0, 0, 1] 443 [10, 0, 0, 2] 5000 = false ∧
    Gen.Py.packet_isserver [] [[1, 2]] [[9]] [10, 0, 0, 1] 443 [10, 0, 0, 2] 5000 = true := by decide

/-- `matches_session_dgram(ip_src, ip_dst, sport, dport)` is the model's `Sess.matches` -/
theorem matches_session_dgram_eq_model {α : Type} (s : MainLoop.Sess α) (p : MainLoop.Pkt) :
    Gen.Py.matches_session_dgram p.src.ip p.dst.ip p.src.port p.dst.port s.server.ip s.server.port s.client.ip s.client.port =
      s.matches p := by
  unfold Gen.Py.matches_session_dgram MainLoop.Sess.matches
  have he : ∀ a b : MainLoop.Endpoint, (a == b) = (decide (a.ip = b.ip) && decide (a.port = b.port)) := by
    intro a b
    cases a; cases b
    simp only [BEq.beq, MainLoop.Endpoint.mk.injEq]
    simp [Bool.decide_and]
  simp only [he]
  repeat' split
  all_goals simp_all

example : Gen.Py.matches_session_dgram [10, 0, 0, 2] [10, 0, 0, 1] 5000 443 [10, 0, 0, 1] 443 [10, 0, 0, 2] 5000 = true := by decide

end TLX.Props.Translated
