/-
Translated Python functions, group QuicDissect: tlexport/quic/quic_dissector.py `get_header_type`, `get_packet_type`; the head of main.py `handle_quic_packet`.
Each `<python name>_eq_model` says the definition regenerated from the tree under test
(`TLX/Gen/Translated/QuicDissect.lean`, written by `harness/translate.py`) EQUALS the hand-written model function.
This module imports only its own group's generated file: a source change outside the group cannot break it.
-/
import TLX.Gen.Translated.QuicDissect
import TLX.Props.Translated.Enc
import TLX.Quic.Dissect
import TLX.MainLoop
namespace TLX.Props.Translated
open TLX TLX.PyRt

/-- `get_header_type` is the model's `isLong` of the first byte -/
theorem get_header_type_eq_model (d : Bytes) :
    Gen.Py.get_header_type d = onFirst d fun fb => if Quic.Dissect.isLong fb then .long else .short := by
  cases d with
  | nil => simp [Gen.Py.get_header_type, onFirst]
  | cons fb r =>
    simp only [Gen.Py.get_header_type, getItem_cons_zero, onFirst]
    revert fb
    apply forall_u8
    decide +kernel

example : Gen.Py.get_header_type [0xc3, 0, 0, 0, 1] = .ok .long ∧ Gen.Py.get_header_type [0x43] = .ok .short := by decide

/-- `get_packet_type` is the model's `packetType` of the first byte (never `None`) -/
theorem get_packet_type_eq_model (d : Bytes) :
    Gen.Py.get_packet_type d = onFirst d fun fb => some (Quic.Dissect.packetType fb) := by
  cases d with
  | nil => simp [Gen.Py.get_packet_type, onFirst]
  | cons fb r =>
    simp only [Gen.Py.get_packet_type, getItem_cons_zero, onFirst]
    revert fb
    apply forall_u8
    decide +kernel

example : Gen.Py.get_packet_type [0xe3] = .ok (some .handshake) ∧ Gen.Py.get_packet_type [] = .error .index := by decide

/-- how the head of `handle_quic_packet` is left, and with which `dcid` / `quic_version`, per model header -/
def hdrRes : MainLoop.Hdr → Res Gen.Py.quic_header.St Exit
  | .tooShort => .ok .ret { dcid := [], quic_version := .unknown }
  | .long d v => .ok .fall { dcid := d, quic_version := v }
  | .short => .ok .fall { dcid := [], quic_version := .unknown }

theorem isLong_eq (b0 : UInt8) : Quic.Dissect.isLong b0 = decide ((b0.toNat >>> 7) &&& 1 = 1) := by
  revert b0
  apply forall_u8
  decide +kernel

/-- the head of `handle_quic_packet` (with the translated `get_header_type` for its `header_type`) is the model's
    `parseHeader1`; the `packet_payload[5]` it reads never raises -/
theorem quic_header_eq_model (b0 : UInt8) (rest : Bytes) (ht : Quic.HType)
    (h : Gen.Py.get_header_type (b0 :: rest) = .ok ht) :
    Gen.Py.quic_header ht (b0 :: rest) = hdrRes (MainLoop.parseHeader1 b0 rest) := by
  rw [get_header_type_eq_model] at h
  simp only [onFirst, Except.ok.injEq, isLong_eq] at h
  subst h
  unfold Gen.Py.quic_header MainLoop.parseHeader1
  by_cases hl : (b0.toNat >>> 7) &&& 1 = 1
  · by_cases h6 : (b0 :: rest).length < 6
    · simp only [hl, h6, decide_true, if_true, hdrRes]
    · have h5 : 5 < (b0 :: rest).length := by omega
      have hn : (5 : Int) = Int.ofNat 5 := rfl
      simp only [hl, h6, decide_true, decide_false, Bool.false_eq_true, if_true, if_false, hn, getItem_nat,
        List.getElem?_eq_getElem h5, tryE_ok, hdrRes, MainLoop.versionOf, decide_eq_true_eq]
      repeat' split
      all_goals simp_all
  · simp only [hl, decide_false, Bool.false_eq_true, if_false, reduceCtorEq, hdrRes]

example : Gen.Py.quic_header .long [0xc3, 0, 0, 0, 1, 2, 0xaa, 0xbb, 0] = .ok .fall { dcid := [0xaa, 0xbb], quic_version := .v1 } ∧
    Gen.Py.quic_header .long [0xc3, 0, 0] = .ok .ret { dcid := [], quic_version := .unknown } := by decide +kernel

end TLX.Props.Translated
