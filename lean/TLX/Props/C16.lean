/-
C16 — QUIC packet numbers are reconstructed as RFC 9000 Appendix A.3 defines.
Property theorems only (helper lemmas are local and small here).
-/
import TLX.Quic.PktNum
namespace TLX.Props.C16
open TLX.Quic.PktNum

/-- The implementation's decode (with its `largest == 0` shortcut) equals RFC 9000 A.3 for every
    window `W ≥ 2`, every `largest` and every truncated value `< W`. -/
theorem impl_eq_rfc (W B largest trunc : Nat) (hW : 2 ≤ W) (ht : trunc < W) :
    implDecode W B largest trunc = rfcDecode W B largest trunc := by
  unfold implDecode
  split
  · rename_i h
    obtain ⟨h1, rfl⟩ := h
    unfold rfcDecode
    have : (0 + 1) % W = 1 := Nat.mod_eq_of_lt (by omega)
    simp only [this]
    split
    · omega
    · split <;> omega
  · rfl

/-- C16, first clause: for every largest-received packet number, every encoded length 1–4 and every
    truncated value, the reconstructed packet number is the one RFC 9000 A.3 defines. -/
theorem pn_decode_eq_rfc (n largest trunc : Nat) (hn : 1 ≤ n ∧ n ≤ 4) (ht : trunc < 2 ^ (8 * n)) :
    implDecode (2 ^ (8 * n)) (2 ^ 62) largest trunc = rfcDecode (2 ^ (8 * n)) (2 ^ 62) largest trunc :=
  impl_eq_rfc _ _ _ _
    (by have : 2 ^ 1 ≤ 2 ^ (8 * n) := Nat.pow_le_pow_right (by omega) (by omega); omega) ht

/-- The RFC's own guarantee, generic in the window: a packet number within half a window of
    `largest + 1` is recovered from its low bits. -/
theorem rfc_window (W B largest pn : Nat) (hW : 2 ≤ W) (hev : W % 2 = 0)
    (hlo : largest + 1 < pn + W / 2) (hhi : pn < largest + 1 + W / 2) (hpn : pn + W < B) :
    rfcDecode W B largest (pn % W) = pn := by
  simp only [rfcDecode]
  have e1 := Nat.div_add_mod (largest + 1) W
  have e2 := Nat.div_add_mod pn W
  have l1 := Nat.mod_lt (largest + 1) (show W > 0 by omega)
  have l2 := Nat.mod_lt pn (show W > 0 by omega)
  generalize (largest + 1) / W = q1 at e1
  generalize pn / W = q2 at e2
  generalize (largest + 1) % W = r1 at *
  generalize pn % W = r2 at *
  have hh : W / 2 * 2 = W := by omega
  generalize W / 2 = h at *
  have hc : q2 + 1 = q1 ∨ q2 = q1 ∨ q2 = q1 + 1 := by
    rcases Nat.lt_trichotomy q1 q2 with hlt | heq | hgt
    · right; right
      false_or_by_contra; rename_i hc
      have : W * (q1 + 2) ≤ W * q2 := Nat.mul_le_mul_left W (by omega)
      rw [Nat.mul_add] at this; omega
    · right; left; exact heq.symm
    · left
      false_or_by_contra; rename_i hc
      have : W * (q2 + 2) ≤ W * q1 := Nat.mul_le_mul_left W (by omega)
      rw [Nat.mul_add] at this; omega
  rcases hc with rfl | rfl | rfl
  · rw [Nat.mul_add] at e1
    repeat' split
    all_goals omega
  · repeat' split
    all_goals omega
  · rw [Nat.mul_add] at e2
    repeat' split
    all_goals omega

private theorem pow8_even (n : Nat) (hn : 1 ≤ n) : 2 ≤ 2 ^ (8 * n) ∧ 2 ^ (8 * n) % 2 = 0 := by
  obtain ⟨k, rfl⟩ : ∃ k, n = k + 1 := ⟨n - 1, by omega⟩
  have : 2 ^ (8 * (k + 1)) = 2 * 2 ^ (8 * k + 7) := by
    rw [show 8 * (k + 1) = (8 * k + 7) + 1 by omega, Nat.pow_succ]; omega
  have hpos : 0 < 2 ^ (8 * k + 7) := Nat.pow_pos (by omega)
  omega

/-- C16, consequence used for the AEAD nonce: the implementation recovers every packet number that
    the sender was allowed to truncate to `n` bytes (RFC 9000 §17.1 window rule). -/
theorem pn_decode_window (n largest pn : Nat) (hn : 1 ≤ n ∧ n ≤ 4)
    (hlo : largest + 1 < pn + 2 ^ (8 * n) / 2) (hhi : pn < largest + 1 + 2 ^ (8 * n) / 2)
    (hpn : pn + 2 ^ (8 * n) < 2 ^ 62) :
    implDecode (2 ^ (8 * n)) (2 ^ 62) largest (pn % 2 ^ (8 * n)) = pn := by
  have hp := pow8_even n hn.1
  rw [pn_decode_eq_rfc n largest _ hn (Nat.mod_lt _ (by omega))]
  exact rfc_window _ _ _ _ hp.1 hp.2 hlo hhi hpn

/-- C16, "separately per packet-number space and direction": a call touches only the table entry of
    its own (direction, space). -/
theorem pn_space_isolation (t : Table) (srv : Bool) (ty : PType) (n trunc : Nat)
    (srv' : Bool) (sp' : Space) (h : ¬ (srv' = srv ∧ sp' = ty.space)) :
    (step t srv ty n trunc).2.get srv' sp' = t.get srv' sp' := by
  simp [step, Table.set, h]

/-- … and the decode of a packet depends only on its own entry. -/
theorem pn_decode_reads_own_entry (t t' : Table) (srv : Bool) (ty : PType) (n trunc : Nat)
    (h : t.get srv ty.space = t'.get srv ty.space) :
    (step t srv ty n trunc).1 = (step t' srv ty n trunc).1 := by
  simp [step, h]

/-- The own entry becomes the maximum of the old entry and the decoded number (histories with gaps
    and reordering keep `largest` = the largest number decoded so far). -/
theorem pn_entry_is_max (t : Table) (srv : Bool) (ty : PType) (n trunc : Nat) :
    (step t srv ty n trunc).2.get srv ty.space =
      max (t.get srv ty.space) (step t srv ty n trunc).1 := by
  simp only [step, Table.set, implUpdate, and_self, if_true]
  split <;> omega

/-- 0-RTT and 1-RTT share a packet-number space (RFC 9000 §12.3), Initial and Handshake do not. -/
theorem spaces : PType.zeroRtt.space = PType.oneRtt.space ∧
    PType.initial.space ≠ PType.handshake.space ∧ PType.initial.space ≠ PType.oneRtt.space ∧
    PType.handshake.space ≠ PType.oneRtt.space := by decide

-- Non-vacuity: concrete inputs meeting the hypotheses, taking each branch of A.3
-- (RFC 9000 A.3's own example: largest 0xa82f30ea, 2-byte 0x9b32 decodes to 0xa82f9b32).
example : implDecode (2 ^ (8 * 2)) (2 ^ 62) 0xa82f30ea 0x9b32 = 0xa82f9b32 := by decide
example : implDecode (2 ^ (8 * 1)) (2 ^ 62) 255 1 = 257 := by decide          -- candidate + window
example : implDecode (2 ^ (8 * 1)) (2 ^ 62) 256 255 = 255 := by decide        -- candidate - window
example : (1 ≤ 2 ∧ 2 ≤ 4) ∧ 0x9b32 < 2 ^ (8 * 2) := by decide
example : 0xa82f30ea + 1 < 0xa82f9b32 + 2 ^ (8 * 2) / 2 ∧ 0xa82f9b32 < 0xa82f30ea + 1 + 2 ^ (8 * 2) / 2 := by decide

end TLX.Props.C16
