/-
C02 (QUIC part) — what `QuicTlsSession.handle_record` (tlexport/quic/quic_tls_parser.py) extracts from the
TLS hello messages carried in CRYPTO frames: for every RFC 8446 well-formed ClientHello / ServerHello /
EncryptedExtensions (encoders: TLX/Spec/TlsHello.lean) the model of the parser (TLX/Quic/TlsMsgs.lean)
does not raise and sets client_random / ciphersuite / session_id / tls_vers / alpn / greasy_bit / new_data
to what was sent; and the exact set of byte strings on which `handle_record` raises (IndexError).
Property theorems only; helper lemmas are in TLX/Lemmas/TlsHello.lean.
-/
import TLX.Lemmas.TlsHello
namespace TLX.Props.C02Hello
open TLX TLX.Quic.TlsMsgs TLX.Spec.TlsHello TLX.Spec.QuicFrames TLX.Lemmas.TlsHello

/-! ## ClientHello -/

/-- The exact state after a well-formed ClientHello: the hello's fixed fields, then the extension loop
    (`extsEffect`, Lemmas/TlsHello.lean) over the sent extensions in order, then `new_data = True`. -/
def afterClientHello (s : State) (ch : ClientHello) : State :=
  { extsEffect { s with tlsVers := some ch.legacyVersion, clientRandom := some ch.random,
                        sessionId := some ch.sessionId, ciphersuite := ch.cipherSuites.head? }
      (ch.extensions.getD []) with newData := true }

theorem client_hello_body_length (ch : ClientHello) (h : ch.WellFormed) : 41 ≤ ch.body.length := by
  obtain ⟨h1, h2, _, h4, h5, _, h7, _⟩ := h
  have : 1 ≤ ch.cipherSuites.length := by
    cases hc : ch.cipherSuites with
    | nil => exact absurd hc h4
    | cons => simp
  have hf := flatten_length2 _ h5
  simp only [ClientHello.body, List.length_append, vec8, vec16, u8_length, u16_length]
  omega

/-- Every well-formed ClientHello is at least 45 bytes long, so the `len(record) < 38` guard never drops one
    and `record[34]` (after `record = record[4:]`) is in range. -/
theorem client_hello_length (ch : ClientHello) (h : ch.WellFormed) : 45 ≤ (encodeClientHello ch).length := by
  have := client_hello_body_length ch h
  rw [encodeClientHello, handshake_length]; omega

/-- Full-strength form: for EVERY well-formed ClientHello (any session-id length 0..32, any number of suites,
    any compression list, extensions present or absent) and any prior state, `handle_record(1, …)` does not
    raise and the resulting state is exactly `afterClientHello`. -/
theorem client_hello_fields (ch : ClientHello) (h : ch.WellFormed) (s : State) :
    handleRecord s 1 (encodeClientHello ch) = (afterClientHello s ch, none) := by
  have hb := client_hello_body_length ch h
  obtain ⟨h1, h2, h3, h4, h5, h6, h7, h8, h9, h10⟩ := h
  have hf := flatten_length2 _ h5
  show handleClientHello s (handshake 1 ch.body) = _
  unfold handleClientHello
  rw [handshake_length, handshake_lenfield _ _ h10, handshake_drop, if_neg (by omega), if_neg (by omega)]
  unfold ClientHello.body
  rw [chBody_layout s _ _ _ _ _ _ h1 h2 (by omega) (by omega) (by omega), extsThenNewData_eq,
    getExtensions_encodeOptExts _ _ h9, first_suite _ h5]
  have : some (ch.cipherSuites.head?.getD []) = ch.cipherSuites.head? := by
    cases hc : ch.cipherSuites with
    | nil => exact absurd hc h4
    | cons => rfl
  rw [this]
  rfl

/-- C02 for the client's first flight: client_random is the sent `random`, ciphersuite is the FIRST offered
    suite (the one 0-RTT keys use), session_id the sent one, new_data is set, and tls_vers is
    `legacy_version` unless a `supported_versions` extension with a bare 2-byte body overrides it. -/
theorem client_hello_parsed (ch : ClientHello) (h : ch.WellFormed) (s : State) :
    ∃ s', handleRecord s 1 (encodeClientHello ch) = (s', none) ∧
      s'.clientRandom = some ch.random ∧
      s'.ciphersuite = ch.cipherSuites.head? ∧ (∃ c, ch.cipherSuites.head? = some c ∧ c.length = 2) ∧
      s'.sessionId = some ch.sessionId ∧ s'.newData = true ∧
      s'.tlsVers = versionSeen (some ch.legacyVersion) (ch.extensions.getD []) := by
  refine ⟨_, client_hello_fields ch h s, ?_⟩
  obtain ⟨h1, h2, h3, h4, h5, h6, h7, h8, h9, h10⟩ := h
  have hw : ∀ e ∈ ch.extensions.getD [], e.wf := by
    cases hx : ch.extensions with
    | none => intro e he; simp at he
    | some es => rw [hx] at h9; exact h9.1
  simp only [afterClientHello]
  rw [extsEffect_eq]
  have hfr := applyExts_frame ((ch.extensions.getD []).map toP)
    { s with tlsVers := some ch.legacyVersion, clientRandom := some ch.random,
             sessionId := some ch.sessionId, ciphersuite := ch.cipherSuites.head? }
  refine ⟨hfr.1, hfr.2.1, ?_, hfr.2.2.1, trivial, ?_⟩
  · cases hc : ch.cipherSuites with
    | nil => exact absurd hc h4
    | cons c cs => exact ⟨c, rfl, h5 c (by simp [hc])⟩
  · rw [← extsEffect_eq, extsEffect_tlsVers _ hw]

/-! ## ServerHello -/

def afterServerHello (s : State) (sh : ServerHello) : State :=
  { extsEffect { s with ciphersuite := some sh.cipherSuite } (sh.extensions.getD []) with newData := true }

/-- The statement one would like: every well-formed ServerHello sets ciphersuite and new_data. -/
def server_hello_parsed_statement : Prop :=
  ∀ (sh : ServerHello), sh.WellFormed → ∀ s : State,
    ∃ s', handleRecord s 2 (encodeServerHello sh) = (s', none) ∧
      s'.ciphersuite = some sh.cipherSuite ∧ s'.newData = true

theorem server_hello_fields (sh : ServerHello) (h : sh.WellFormed)
    (h44 : sh.extensions ≠ none ∨ 2 ≤ sh.sessionIdEcho.length) (s : State) :
    handleRecord s 2 (encodeServerHello sh) = (afterServerHello s sh, none) := by
  obtain ⟨h1, h2, h3, h4, h5, h6⟩ := h
  show handleServerHello s ((u8 2 ++ u24 sh.body.length) ++
    (sh.legacyVersion ++ sh.random ++ vec8 sh.sessionIdEcho ++ sh.cipherSuite ++ [sh.compressionMethod] ++
      encodeOptExts sh.extensions)) = _
  have hl : 2 ≤ sh.sessionIdEcho.length + (encodeOptExts sh.extensions).length := by
    cases hx : sh.extensions with
    | none => rcases h44 with h | h
              · exact absurd hx h
              · omega
    | some es => simp only [encodeOptExts, encodeExts, vec16, List.length_append, u16_length]; omega
  rw [handleServerHello_layout s _ _ _ _ _ _ _ (by simp only [List.length_append, u8_length, u24_length])
    h1 h2 (by omega) h4 hl, extsThenNewData_eq, getExtensions_encodeOptExts _ _ h5]
  rfl

/-- What holds: the guard `len(record) < 44` silently drops a ServerHello shorter than 44 bytes; a well-formed
    one is that short only if it has NO extensions field and a session-id echo shorter than 2 bytes. -/
theorem server_hello_parsed_partial (sh : ServerHello) (h : sh.WellFormed)
    (h44 : sh.extensions ≠ none ∨ 2 ≤ sh.sessionIdEcho.length) (s : State) :
    ∃ s', handleRecord s 2 (encodeServerHello sh) = (s', none) ∧
      s'.ciphersuite = some sh.cipherSuite ∧ s'.newData = true ∧
      s'.clientRandom = s.clientRandom ∧
      s'.tlsVers = versionSeen s.tlsVers (sh.extensions.getD []) := by
  refine ⟨_, server_hello_fields sh h h44 s, ?_⟩
  obtain ⟨h1, h2, h3, h4, h5, h6⟩ := h
  have hw : ∀ e ∈ sh.extensions.getD [], e.wf := by
    cases hx : sh.extensions with
    | none => intro e he; simp at he
    | some es => rw [hx] at h5; exact h5.1
  simp only [afterServerHello]
  have hfr := applyExts_frame ((sh.extensions.getD []).map toP) { s with ciphersuite := some sh.cipherSuite }
  rw [← extsEffect_eq] at hfr
  exact ⟨hfr.2.1, trivial, hfr.1, extsEffect_tlsVers _ hw _⟩

/-- The RFC 8446 shape (the `extensions` field is mandatory in a TLS 1.3 ServerHello, and QUIC only carries
    TLS 1.3): always parsed. With `supported_versions = 0x0304` this is where tls_vers becomes 0304. -/
theorem server_hello_parsed (sh : ServerHello) (h : sh.WellFormed) (es : List Ext)
    (hes : sh.extensions = some es) (s : State) :
    ∃ s', handleRecord s 2 (encodeServerHello sh) = (s', none) ∧
      s'.ciphersuite = some sh.cipherSuite ∧ s'.newData = true ∧
      s'.clientRandom = s.clientRandom ∧ s'.tlsVers = versionSeen s.tlsVers es := by
  have := server_hello_parsed_partial sh h (Or.inl (by rw [hes]; simp)) s
  rw [hes] at this
  exact this

/-- A well-formed ServerHello without extensions field and with an empty session-id echo (42 bytes) is
    dropped silently: ciphersuite stays None, new_data stays False. -/
def shortServerHello : ServerHello :=
  { legacyVersion := [3, 3], random := List.replicate 32 7, sessionIdEcho := [], cipherSuite := [0x13, 0x01],
    compressionMethod := 0, extensions := none }

theorem server_hello_parsed_counterexample : ¬ server_hello_parsed_statement := by
  intro h
  obtain ⟨s', h1, h2, _⟩ := h shortServerHello (by decide) State.init
  have : handleRecord State.init 2 (encodeServerHello shortServerHello) = (State.init, none) := by decide
  rw [this] at h1
  cases h1
  cases h2

/-! ## EncryptedExtensions -/

theorem encrypted_extensions_parsed (es : List Ext) (h : extsWf es) (s : State) :
    handleRecord s 8 (encodeEncryptedExtensions es) = ({ extsEffect s es with newData := true }, none) ∧
    (extsEffect s es).clientRandom = s.clientRandom ∧ (extsEffect s es).ciphersuite = s.ciphersuite ∧
    (extsEffect s es).tlsVers = versionSeen s.tlsVers es := by
  have hfr := applyExts_frame (es.map toP) s
  rw [← extsEffect_eq] at hfr
  refine ⟨?_, hfr.1, hfr.2.1, extsEffect_tlsVers _ h.1 _⟩
  show handleEncryptedExtensions s (handshake 8 (encodeExts es)) = _
  unfold handleEncryptedExtensions
  have : (encodeExts es).length = 2 + (extsPayload es).length := by
    simp only [encodeExts, vec16, List.length_append, u16_length]
  rw [handshake_length, handshake_drop, if_neg (by omega), extsThenNewData_eq, getExtensions_encodeExts _ _ h]

/-! ## ALPN and the grease-quic-bit transport parameter -/

/-- The extension loop on `pre ++ [ALPN with exactly one protocol name] ++ post`, `post` without a further
    ALPN extension: alpn is that name. By `client_hello_fields` / `encrypted_extensions_parsed` /
    `server_hello_fields` this is the state after a hello carrying these extensions. -/
theorem alpn_parsed (s : State) (pre post : List Ext) (name : Bytes) (hn : name.length < 256)
    (hpost : ∀ e ∈ post, e.wf ∧ e.ty ≠ 16) :
    (extsEffect s (pre ++ ⟨16, alpnBody [name]⟩ :: post)).alpn = some name := by
  rw [extsEffect_append, extsEffect_cons, extsEffect_alpn_other _ hpost, applyD_alpn_one _ _ hn]

/-- … stated on the wire for the two messages that carry ALPN in QUIC. -/
theorem alpn_parsed_wire (s : State) (pre post : List Ext) (name : Bytes) (hn : name.length < 256)
    (hpost : ∀ e ∈ post, e.wf ∧ e.ty ≠ 16) :
    (∀ ch : ClientHello, ch.WellFormed → ch.extensions = some (pre ++ ⟨16, alpnBody [name]⟩ :: post) →
      (handleRecord s 1 (encodeClientHello ch)).1.alpn = some name) ∧
    (extsWf (pre ++ ⟨16, alpnBody [name]⟩ :: post) →
      (handleRecord s 8 (encodeEncryptedExtensions (pre ++ ⟨16, alpnBody [name]⟩ :: post))).1.alpn = some name) := by
  constructor
  · intro ch h hx
    rw [client_hello_fields ch h s]
    simp only [afterClientHello, hx, Option.getD_some]
    exact alpn_parsed _ pre post name hn hpost
  · intro h
    rw [(encrypted_extensions_parsed _ h s).1]
    exact alpn_parsed _ pre post name hn hpost

/-- greasy_bit after the extension loop over a list with exactly one quic_transport_parameters extension
    (type 57) whose body is a well-formed RFC 9000 §18 parameter sequence: set iff it was set before or
    a parameter with id 0x2ab2 is present (any varint widths). -/
theorem greasy_bit_parsed (s : State) (pre post : List Ext) (ps : List TParam) (hps : ∀ p ∈ ps, p.wf)
    (hpre : ∀ e ∈ pre, e.wf ∧ e.ty ≠ 57) (hpost : ∀ e ∈ post, e.wf ∧ e.ty ≠ 57) :
    (extsEffect s (pre ++ ⟨57, tpBody ps⟩ :: post)).greasyBit =
      (s.greasyBit || ps.any (fun p => p.id.val == 0x2ab2)) := by
  rw [extsEffect_append, extsEffect_cons, extsEffect_greasy_other _ hpost, applyD_greasy_tp _ _ hps,
    extsEffect_greasy_other _ hpre]

/-! ## Which inputs raise -/

/-- `get_extensions` (hence ServerHello / EncryptedExtensions handling) never raises, on any bytes. -/
theorem get_extensions_total (s : State) (r : Bytes) : (getExtensions s r).2 = none :=
  getExtensions_no_raise s r

/-- The records on which `handle_client_hello` raises IndexError: both length guards pass and, with
    `r = record[4:]`, either `r[34]` (session_id_length) is out of range — i.e. `len(record) == 38` —
    or `r[index]` (compression_methods_length) is, `index = 35 + sid_len + 2 + cipher_suites_length`. -/
def chRaises (record : Bytes) : Prop :=
  38 ≤ record.length ∧ 4 + Bytes.beNat (Bytes.slice record 1 4) ≤ record.length ∧
  (record.length = 38 ∨
   ∃ sil : UInt8, record[38]? = some sil ∧
     record.length ≤ 4 + (35 + sil.toNat + 2 +
       Bytes.beNat (Bytes.slice (record.drop 4) (35 + sil.toNat) (35 + sil.toNat + 2))))

theorem chBody_raises (s : State) (r : Bytes) :
    (chBody s r).2 = some Err.index ↔
      (r.length ≤ 34 ∨ ∃ sil : UInt8, r[34]? = some sil ∧
        r.length ≤ 35 + sil.toNat + 2 + Bytes.beNat (Bytes.slice r (35 + sil.toNat) (35 + sil.toNat + 2))) := by
  unfold chBody
  cases h34 : r[34]? with
  | none =>
    have := List.getElem?_eq_none_iff.mp h34
    simp only [true_iff]; left; exact this
  | some sil =>
    have hlt : 34 < r.length := by
      false_or_by_contra; rename_i hc
      have := List.getElem?_eq_none_iff.mpr (show r.length ≤ 34 by omega)
      rw [this] at h34; cases h34
    simp only
    generalize hcs : Bytes.beNat (Bytes.slice r (35 + sil.toNat) (35 + sil.toNat + 2)) = csl
    cases hi : r[35 + sil.toNat + 2 + csl]? with
    | none =>
      have := List.getElem?_eq_none_iff.mp hi
      simp only [true_iff]; right; exact ⟨sil, rfl, by rw [hcs]; exact this⟩
    | some cml =>
      have hlt2 : 35 + sil.toNat + 2 + csl < r.length := by
        false_or_by_contra; rename_i hc
        have := List.getElem?_eq_none_iff.mpr (show r.length ≤ 35 + sil.toNat + 2 + csl by omega)
        rw [this] at hi; cases hi
      simp only [extsThenNewData_eq]
      constructor
      · intro h; cases h
      · rintro (h | ⟨x, hx, h⟩)
        · omega
        · cases hx; rw [hcs] at h; omega

/-- Exact characterisation: `handle_record` raises (always IndexError) iff the record type is 1 and the
    bytes satisfy `chRaises`. ServerHello, EncryptedExtensions and every other type never raise. -/
theorem raises_iff (s : State) (ty : Nat) (record : Bytes) :
    (handleRecord s ty record).2 = some Err.index ↔ ty = 1 ∧ chRaises record := by
  unfold handleRecord
  split
  · simp only [true_and]
    unfold handleClientHello chRaises
    by_cases h1 : record.length < 38
    · rw [if_pos h1]
      constructor
      · intro h; cases h
      · intro h; omega
    · rw [if_neg h1]
      by_cases h2 : record.length < 4 + Bytes.beNat (Bytes.slice record 1 4)
      · rw [if_pos h2]
        constructor
        · intro h; cases h
        · intro h; omega
      · rw [if_neg h2, chBody_raises]
        have hg : (record.drop 4)[34]? = record[38]? := by rw [List.getElem?_drop]
        rw [hg, List.length_drop]
        constructor
        · rintro (h | ⟨sil, hs, h⟩)
          · exact ⟨by omega, by omega, Or.inl (by omega)⟩
          · exact ⟨by omega, by omega, Or.inr ⟨sil, hs, by omega⟩⟩
        · rintro ⟨_, _, h | ⟨sil, hs, h⟩⟩
          · left; omega
          · right; exact ⟨sil, hs, by omega⟩
  · constructor
    · intro h
      unfold handleServerHello at h
      split at h
      · cases h
      · rename_i hl
        have : 38 < record.length := by omega
        rw [List.getElem?_eq_getElem this] at h
        simp only [extsThenNewData_eq] at h
        cases h
    · intro h; omega
  · constructor
    · intro h
      unfold handleEncryptedExtensions at h
      split at h
      · cases h
      · rw [extsThenNewData_eq] at h; cases h
    · intro h; omega
  · rename_i h1 _ _
    constructor
    · intro h; cases h
    · intro h; exact absurd h.1 h1

theorem raises_only_client_hello (s : State) (ty : Nat) (record : Bytes)
    (h : (handleRecord s ty record).2 ≠ none) : ty = 1 ∧ 38 ≤ record.length := by
  have : (handleRecord s ty record).2 = some Err.index := by
    cases hx : (handleRecord s ty record).2 with
    | none => exact absurd hx h
    | some e => cases e; rfl
  have := (raises_iff s ty record).mp this
  exact ⟨this.1, this.2.1⟩

/-- A raise keeps the assignments made before it (here on a fresh session): the shortest raising input is a
    38-byte ClientHello record — header 01 000022, legacy_version, random, nothing else. -/
def shortestRaising : Bytes := [1, 0, 0, 34, 3, 3] ++ List.replicate 32 0xAB

theorem raise_shortest :
    handleRecord State.init 1 shortestRaising =
      ({ State.init with tlsVers := some [3, 3], clientRandom := some (List.replicate 32 0xAB) },
       some Err.index) := by decide

/-- A ClientHello cut (with a consistent length field, as `handle_buffer` passes it) before the
    compression-methods length byte: session id empty, one suite, then the end. 43 bytes. -/
def truncatedBeforeCompression : Bytes :=
  [1, 0, 0, 39, 3, 3] ++ List.replicate 32 0xAB ++ [0, 0, 2, 0x13, 0x01]

theorem raise_truncated_before_compression :
    handleRecord State.init 1 truncatedBeforeCompression =
      ({ State.init with tlsVers := some [3, 3], clientRandom := some (List.replicate 32 0xAB),
                         sessionId := some [], ciphersuite := some [0x13, 0x01] },
       some Err.index) := by decide

/-! ## Non-vacuity -/

/-- A ClientHello as a QUIC client sends it: session id, two suites, ALPN h3 and transport parameters
    with the grease-quic-bit parameter (0x2ab2, 2-byte varint 0x6ab2, empty value). -/
def ch0 : ClientHello :=
  { legacyVersion := [3, 3], random := List.replicate 32 0x11, sessionId := [9, 8, 7, 6],
    cipherSuites := [[0x13, 0x01], [0x13, 0x02]], compression := [0],
    extensions := some [⟨16, alpnBody [[0x68, 0x33]]⟩, ⟨57, tpBody [⟨⟨0x2ab2, ⟨1, by decide⟩⟩, ⟨0, by decide⟩, []⟩]⟩] }

example : ch0.WellFormed := by decide
example : (encodeClientHello ch0).length = 69 := by decide
example : ∃ s', handleRecord State.init 1 (encodeClientHello ch0) = (s', none) ∧
    s'.clientRandom = some (List.replicate 32 0x11) ∧ s'.ciphersuite = some [0x13, 0x01] := by
  obtain ⟨s', h, h1, h2, _⟩ := client_hello_parsed ch0 (by decide) State.init
  exact ⟨s', h, h1, h2⟩
example : (handleRecord State.init 1 (encodeClientHello ch0)).1.alpn = some [0x68, 0x33] :=
  (alpn_parsed_wire State.init [] [⟨57, tpBody [⟨⟨0x2ab2, ⟨1, by decide⟩⟩, ⟨0, by decide⟩, []⟩]⟩] [0x68, 0x33]
    (by decide) (by decide)).1 ch0 (by decide) rfl
example : (extsEffect State.init [⟨16, alpnBody [[0x68, 0x33]]⟩,
    ⟨57, tpBody [⟨⟨0x2ab2, ⟨1, by decide⟩⟩, ⟨0, by decide⟩, []⟩]⟩]).greasyBit = true :=
  greasy_bit_parsed State.init [⟨16, alpnBody [[0x68, 0x33]]⟩] [] _ (by decide) (by decide) (by decide)

/-- A TLS 1.3 ServerHello: session-id echo, suite 1301, supported_versions = 0304, key_share stub. -/
def sh0 : ServerHello :=
  { legacyVersion := [3, 3], random := List.replicate 32 0x22, sessionIdEcho := [9, 8, 7, 6],
    cipherSuite := [0x13, 0x01], compressionMethod := 0,
    extensions := some [⟨43, [3, 4]⟩, ⟨51, [0, 29, 0, 2, 1, 2]⟩] }

example : sh0.WellFormed := by decide
example : versionSeen none [⟨43, [3, 4]⟩, ⟨51, [0, 29, 0, 2, 1, 2]⟩] = some [3, 4] := by decide
example : shortServerHello.WellFormed ∧ (encodeServerHello shortServerHello).length = 42 := by decide
example : extsWf [⟨16, alpnBody [[0x68, 0x33]]⟩] := by decide
example : chRaises shortestRaising := by
  refine ⟨by decide, by decide, Or.inl (by decide)⟩

end TLX.Props.C02Hello
