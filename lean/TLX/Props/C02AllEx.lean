import TLX.Props.C02All
import TLX.Props.C02RfcEx
import TLX.Props.C02Zr2Ex
set_option autoImplicit false
set_option linter.unusedSimpArgs false
set_option linter.unusedVariables false
set_option maxRecDepth 100000
/-! # `Props/C02All`: non-vacuity

ONE capture exercising everything at once — Retry, coalescing, 0.5-RTT data, 0-RTT data of the first offered suite, a key
update, a truncated datagram of another QUIC flow and a second QUIC connection, TLS-over-TCP segments, ARP / DNS noise — and
a key-log file with the connection's five lines: every hypothesis of `QuicCaptureAll` is discharged by evaluation
(`captureAll0`), so `quic_capture_exact_all` speaks about it (`quic_all_instance`: `EARLY`, `HI`, `GET`, `OK`, `MORE`). -/
namespace TLX.Props.C02All.Ex
open TLX TLX.MainLoop TLX.Spec.Demux TLX.Dissect TLX.OutBytes TLX.Export TLX.Lemmas.MainLoop
open TLX.Props.C01File TLX.Spec.FrameBuild TLX.Spec.TlsCapture TLX.Spec.QuicCapture
open TLX.Spec.QuicSender TLX.Spec.QuicConnection TLX.Spec.QuicPackets TLX.QuicPipeline TLX.Props.C02Capstone
open TLX.Quic.Session TLX.Cipher TLX.Props.C02Session TLX.Spec.QuicFrames
open TLX.Spec.TlsHello TLX.Spec.TlsHandshakeFraming TLX.Props.C02Capstone.ExConf
open TLX.Spec.KeySchedules TLX.Props.C02Capstone3 TLX.Props.C02Capstone4 TLX.Props.C02File TLX.Props.C02Zr TLX.Props.C02Rfc
open TLX.Spec.RfcSuite TLX.Spec.RfcQuic TLX.Lemmas.C01Rfc TLX.Props.C09Found TLX.Spec.NssKeylog
open TLX.Props.C01File.Ex (timeAt arp notMinusOne cMac sMac args0 ports0 cv0 segFrame tcpOf)
open TLX.Props.C02File.Ex (H Pc L m5 maskFn sel hs hs_ok chS shS caS saS w0 w2 usAt cidS0 cidS cidC qCI qSI qSH qCH fl udpOf
  dgFrame isDg_mk dns dnsDg dnsFrame dnsU flDns wfCI wfSI wfSH wfCH pkCI pkSI pkSH pkCH arp_notQuic dns_notQuic M F)
open TLX.Props.C02File2.Ex (oth othDg othFrame othU flOther)
open TLX.Props.C02Capstone4.ExZ (selR eS)
open TLX.Props.C02Rfc.Ex (ln)

/-! ### the connection -/

/-- the Retry's Source Connection ID: the DCID of the client's second Initial, whose Initial keys derive from it -/
def cidR : Bytes := [0x5e, 0x5e, 0x5e, 0x5e]
def tokenR : Bytes := [0xaa, 0xbb, 0xcc]

/-- first attempt: the client's Initial with the whole ClientHello (position 1) -/
def dA : DgH := ⟨false, usAt 1, [qCI]⟩
/-- the server's Retry (position 3) -/
def rR : Retry := { unused := 0, version := [0, 0, 0, 1], dcid := cidC, scid := cidR, token := tokenR, tag := List.replicate 16 0x77 }

/-- second attempt: Initial with the Retry token, to the Retry's SCID, and a 0-RTT packet `EARLY` coalesced behind it
    (position 5); the resumed suite is 0x1303, the FIRST of the client's offer -/
def qCI2 : PkH := ⟨{ qCI.x with ts := usAt 5, pn := 1, dcid := cidR, token := tokenR }, m5⟩
def qZ2 : PkH :=
  ⟨{ level := .zeroRtt, srv := false, ts := usAt 5, pn := 0, pnLen := 1, typeBits := 1,
     frames := [.stream false ⟨0, w0⟩ none (some w0) [0x45, 0x41, 0x52, 0x4c, 0x59], .padding 3],
     dcid := cidR, scid := cidC, lenW := w2 }, m5⟩
def d0 : DgY := ⟨⟨⟨false, usAt 5, [qCI2], none⟩, [qZ2], 1⟩, true⟩

/-- the server's Initial (ServerHello), Handshake packet (its flight) and a 1-RTT packet with 0.5-RTT data `HI`, coalesced
    (position 6) -/
def qSI6 : PkH := ⟨{ qSI.x with ts := usAt 6 }, m5⟩
def qSH6 : PkH := ⟨{ qSH.x with ts := usAt 6 }, m5⟩
def oS6 : Dg1 :=
  ⟨{ level := .oneRtt, srv := true, ts := usAt 6, pn := 0, pnLen := 1,
     frames := [.stream false ⟨3, w0⟩ none (some w0) [0x48, 0x49], .padding 3], dcid := cidC, gen := 0 }, m5⟩
def dS : DgY := ⟨⟨⟨true, usAt 6, [qSI6, qSH6], some oS6⟩, [], 2⟩, true⟩

/-- the client's Finished and its request `GET` in a 1-RTT packet (number 1: 0-RTT and 1-RTT share the space), coalesced
    (position 8) -/
def qCH8 : PkH := ⟨{ qCH.x with ts := usAt 8 }, m5⟩
def oC8 : Dg1 :=
  ⟨{ level := .oneRtt, srv := false, ts := usAt 8, pn := 1, pnLen := 1,
     frames := [.stream true ⟨0, w0⟩ (some ⟨5, w0⟩) (some w0) [0x47, 0x45, 0x54], .padding 3], dcid := cidS, gen := 0 }, m5⟩
def dC : DgY := ⟨⟨⟨false, usAt 8, [qCH8], some oC8⟩, [], 1⟩, true⟩

/-- the 1-RTT-only part: the server updates its keys (`OK`, position 9), the client follows (`MORE`, position 11) -/
def bS9 : Dg1 :=
  ⟨{ level := .oneRtt, srv := true, ts := usAt 9, pn := 1, pnLen := 2,
     frames := [.ping, .stream false ⟨3, w0⟩ (some ⟨2, w0⟩) none [0x4f, 0x4b]], dcid := cidC, gen := 1, lowBits := 5 }, m5⟩
def bC11 : Dg1 :=
  ⟨{ level := .oneRtt, srv := false, ts := usAt 11, pn := 2, pnLen := 1,
     frames := [.stream false ⟨4, w0⟩ none (some w0) [0x4d, 0x4f, 0x52, 0x45], .padding 3], dcid := cidS, gen := 1 }, m5⟩

def wA : DgH → Bytes := dgWire H Pc L (dgDcid dA) sel shS chS
def wX : DgX → Bytes := DgX.wire H Pc L d0.x.dcid sel selR shS chS saS caS eS
def w1 : Dg1 → Bytes := wireOf H Pc L sel .v1 (rfcGen (hashOf H sel.hash) sel.keyLen saS caS 0)

/-- a TLS-over-TCP segment of another flow (the client's port 5555 → 443): the TLS side of the loop takes it -/
def tlsPl : Bytes := [0x16, 3, 1, 0, 5, 1, 0, 0, 1, 0]
def tlsSeg (n : Nat) : CapEv := ⟨timeAt n, (segFrame false 1000 tlsPl).encode, viewOf (segFrame false 1000 tlsPl)⟩

/-- a SECOND QUIC connection on another flow (10.0.0.9:40000 → 443): its client's Initial with the whole ClientHello, other
    connection IDs (position 12); the loop makes a session of its own for it -/
def dcidO : Bytes := List.replicate 8 0x99
def qO : PkH := ⟨{ qCI.x with ts := usAt 12, dcid := dcidO, scid := [0xd1] }, m5⟩
def dO : DgH := ⟨false, usAt 12, [qO]⟩
def wO : Bytes := dgWire H Pc L dcidO sel shS chS dO
def othU2 : Udp := ⟨40000, 443, 0, wO⟩
def othFrame2 : Spec.FrameBuild.Frame :=
  ⟨sMac, cMac, .v4 ⟨0, 9, false, false, 64, 0, [10, 0, 0, 9], [10, 0, 0, 2], []⟩, .udp othU2, []⟩
def oth2 : CapEv := ⟨timeAt 12, othFrame2.encode, viewOf othFrame2⟩

def preEv : QEv3 := .pre (timeAt 1) (dgFrame false (wA dA)) (udpOf false (wA dA)) dA
def retryEv : QEv3 := .retry (timeAt 3) (dgFrame true rR.encode) (udpOf true rR.encode) rR
def mixEv (n : Nat) (d : DgY) : QEv3 :=
  .mix (timeAt n) (dgFrame d.x.base.srv (wX d.x)) (udpOf d.x.base.srv (wX d.x)) d
def oneEv (n : Nat) (d : Dg1) : QEv3 := .one (timeAt n) (dgFrame d.x.srv (w1 d)) (udpOf d.x.srv (w1 d)) d

def rp0 : RetryPart :=
  ⟨[.foreign arp], timeAt 1, dgFrame false (wA dA), udpOf false (wA dA), dA, [.foreign (tlsSeg 2)],
   timeAt 3, dgFrame true rR.encode, udpOf true rR.encode, rR⟩
def preA0 : List QEv3 := [.other (oth 4)]
def restA0 : List QEv3 := [mixEv 6 dS, .foreign (dns 7), mixEv 8 dC]
def evsB0 : List QEv3 := [oneEv 9 bS9, .foreign (tlsSeg 10), oneEv 11 bC11, .other oth2]

def evs0 : List QEv3 :=
  allEvs (some rp0) preA0 (timeAt 5) (dgFrame false (wX d0.x)) (udpOf false (wX d0.x)) d0 restA0 evsB0

theorem evs0_eq : evs0 = [.foreign arp, preEv, .foreign (tlsSeg 2), retryEv, .other (oth 4), mixEv 5 d0, mixEv 6 dS,
    .foreign (dns 7), mixEv 8 dC, oneEv 9 bS9, .foreign (tlsSeg 10), oneEv 11 bC11, .other oth2] := rfl

/-- the key-log file, line by line: the connection's five lines and a line of another connection -/
def ls0 : List (FLine × Bool) :=
  [ln labelSHTS chx.random shS, ln labelCTS0 (List.replicate 32 9) [1, 2], ln labelCHTS chx.random chS,
   ln labelCETS chx.random eS, ln labelSTS0 chx.random saS, ln labelCTS0 chx.random caS]

theorem mixIns0 : allInsM ((d0 :: mixOf restA0).map (·.x.base)) = hs.ins := by decide +kernel
theorem insA0 : hs.ins = insOf dA.pkts ++ (hs.ins.drop (insOf dA.pkts).length) := by decide +kernel

/-! ### the senders' bookkeeping, packet by packet -/

instance (a b c : Nat) : Decidable (PnLenOk a b c) := by unfold PnLenOk; infer_instance

def rA : RTrk := rtrk0.run dA.pkts
def r0 : RTrk := rA.afterRetry
def r1 : RTrk := r0.dgx d0.eff
def r2 : RTrk := r1.dgx dS.eff
def r3 : RTrk := r2.dgx dC.eff

theorem wfCI2 : WellFormedSeq qCI2.x.frames := wfCI
theorem wfZ2 : WellFormedSeq qZ2.x.frames := by
  simp [qZ2, WellFormedSeq, QFrame.wf, QFrame.greedy, optOk, optFits]; decide +kernel
theorem wfS6 : WellFormedSeq oS6.x.frames := by
  simp [oS6, WellFormedSeq, QFrame.wf, QFrame.greedy, optOk, optFits]; decide +kernel
theorem wfC8 : WellFormedSeq oC8.x.frames := by
  simp [oC8, WellFormedSeq, QFrame.wf, QFrame.greedy, optOk, optFits]; decide +kernel
theorem wfB9 : WellFormedSeq bS9.x.frames := by
  simp [bS9, WellFormedSeq, QFrame.wf, QFrame.greedy, optOk, optFits]; decide +kernel
theorem wfB11 : WellFormedSeq bC11.x.frames := by
  simp [bC11, WellFormedSeq, QFrame.wf, QFrame.greedy, optOk, optFits]; decide +kernel

/-- first attempt -/
theorem rkA : HsPkR maskFn H Pc L (dgDcid dA) sel shS chS rtrk0 qCI :=
  ⟨pkCI.shape, by decide +kernel, by decide +kernel, by decide +kernel, wfCI, by decide +kernel, rfl, by decide⟩
theorem dgA : HsDgR maskFn H Pc L (dgDcid dA) sel shS chS rtrk0 dA := by
  refine ⟨?_, by decide +kernel, rkA, trivial⟩
  intro q hq; simp only [dA, List.mem_singleton] at hq; subst hq; exact ⟨rfl, rfl⟩

/-- second attempt -/
theorem shCI2 : LongShape qCI2.x :=
  ⟨by decide, by decide, by decide, by decide, by decide, by decide, by decide +kernel, by decide +kernel⟩
theorem rkCI2 : HsPkR maskFn H Pc L d0.x.dcid sel shS chS r0 qCI2 :=
  ⟨shCI2, by decide +kernel, by decide +kernel, by decide +kernel, wfCI2, by decide +kernel, rfl, by decide⟩
theorem rkSI6 : HsPkR maskFn H Pc L d0.x.dcid sel shS chS r1 qSI6 :=
  ⟨⟨by decide, by decide, by decide, by decide, by decide, by decide, by decide +kernel, by decide +kernel⟩,
    by decide +kernel, by decide +kernel, by decide +kernel, wfSI, by decide +kernel, rfl, by decide⟩
theorem rkSH6 : HsPkR maskFn H Pc L d0.x.dcid sel shS chS (r1.step qSI6.x) qSH6 :=
  ⟨⟨by decide, by decide, by decide, by decide, by decide, by decide, by decide +kernel, by decide +kernel⟩,
    by decide +kernel, by decide +kernel, by decide +kernel, wfSH, by decide +kernel, rfl, by decide⟩
theorem rkCH8 : HsPkR maskFn H Pc L d0.x.dcid sel shS chS r2 qCH8 :=
  ⟨⟨by decide, by decide, by decide, by decide, by decide, by decide, by decide +kernel, by decide +kernel⟩,
    by decide +kernel, by decide +kernel, by decide +kernel, wfCH, by decide +kernel, rfl, by decide⟩

theorem shZ2 : ZrShape qZ2.x :=
  ⟨rfl, rfl, by decide, by decide, by decide, by decide, by decide, by decide +kernel, by decide +kernel⟩

/-- the Early keys the tool holds when the 0-RTT packet arrives are those of the FIRST OFFERED suite 0x1303 — the
    client's resumed suite: the ClientHello is complete (it came in the same datagram), no ServerHello yet -/
theorem early0 : EarlyAt hs sel ([] ++ insOf (d0.x.base.longs.take d0.x.pos)) selR := by
  refine .inr ⟨by decide +kernel, ?_, by decide⟩
  have : ([] ++ insOf (d0.x.base.longs.take d0.x.pos)) = chIns hs := by decide +kernel
  rw [this]
  exact chIns_complete hs hs_ok

theorem ydg0 : YDgR maskFn H Pc L d0.x.dcid sel selR shS chS saS caS eS hs [] r0 d0 where
  client := fun _ => rfl
  dirL := by intro q hq; simp only [d0, List.mem_singleton] at hq; subst hq; exact ⟨rfl, rfl⟩
  dirZ := by intro q hq; simp only [d0, List.mem_singleton] at hq; subst hq; rfl
  cid := by decide +kernel
  pre := ⟨rkCI2, trivial⟩
  early := fun _ => ⟨selR, early0, by
    rw [if_pos (show d0.good = true from rfl)]
    refine ⟨rfl, ?_⟩
    intro i q hi
    cases i with
    | zero =>
      simp only [d0, List.getElem?_cons_zero, Option.some.injEq] at hi; subst hi
      exact ⟨shZ2, by decide, wfZ2, by decide +kernel, rfl, by decide⟩
    | succ j => simp [d0] at hi⟩
  post := trivial
  short := by intro o ho; cases ho

theorem ydgS : YDgR maskFn H Pc L d0.x.dcid sel selR shS chS saS caS eS hs ([] ++ insOf d0.x.base.longs) r1 dS where
  client := fun h => absurd rfl h
  dirL := by intro q hq; simp only [dS, List.mem_cons, List.not_mem_nil, or_false] at hq; rcases hq with rfl | rfl <;> exact ⟨rfl, rfl⟩
  dirZ := by intro q hq; cases hq
  cid := by decide +kernel
  pre := ⟨rkSI6, rkSH6, trivial⟩
  early := fun h => absurd rfl h
  post := trivial
  short := by
    intro o' ho; cases ho
    exact ⟨rfl, rfl, by decide, by decide +kernel, rfl, rfl, by decide +kernel, wfS6,
      ⟨by decide, by decide +kernel, rfl, by decide⟩⟩

theorem ydgC : YDgR maskFn H Pc L d0.x.dcid sel selR shS chS saS caS eS hs
    ([] ++ insOf d0.x.base.longs ++ insOf dS.x.base.longs) r2 dC where
  client := fun h => absurd rfl h
  dirL := by intro q hq; simp only [dC, List.mem_singleton] at hq; subst hq; exact ⟨rfl, rfl⟩
  dirZ := by intro q hq; cases hq
  cid := by decide +kernel
  pre := ⟨rkCH8, trivial⟩
  early := fun h => absurd rfl h
  post := trivial
  short := by
    intro o' ho; cases ho
    exact ⟨rfl, rfl, by decide, by decide +kernel, rfl, rfl, by decide +kernel, wfC8,
      ⟨by decide, by decide +kernel, rfl, by decide⟩⟩

theorem mixDgs0 : YDgsR maskFn H Pc L d0.x.dcid sel selR shS chS saS caS eS hs [] (r0Of (some rp0)) (d0 :: mixOf restA0) :=
  ⟨ydg0, ydgS, ydgC, trivial⟩

/-! ### the capture -/

def o : Opts := optsOf args0 ports0 []

theorem lenA : (wA dA).length < 60000 := by decide +kernel
theorem lenR : rR.encode.length < 60000 := by decide +kernel
theorem lenX (d : DgY) (h : d ∈ [d0, dS, dC]) : (wX d.x).length < 60000 := by
  simp only [List.mem_cons, List.not_mem_nil, or_false] at h
  rcases h with rfl | rfl | rfl <;> decide +kernel
theorem len1 (d : Dg1) (h : d ∈ [bS9, bC11]) : (w1 d).length < 60000 := by
  simp only [List.mem_cons, List.not_mem_nil, or_false] at h
  rcases h with rfl | rfl <;> decide +kernel

theorem tls_notQuic (n : Nat) : dissect (tlsSeg n).buf = .ok (tlsSeg n).d ∧ ∀ tag, NotQuic o (pktOf tag (tlsSeg n).d) := by
  refine ⟨?_, ?_⟩
  · show dissect (segFrame false 1000 tlsPl).encode = .ok (viewOf (segFrame false 1000 tlsPl))
    decide +kernel
  intro tag h
  have : (pktOf tag (tlsSeg n).d).l4 = .tcp := by
    simp [tlsSeg, viewOf, pktOf, segFrame, C12Dissect.transportOf]
  rw [this] at h; cases h

theorem dissect_oth2 : dissect oth2.buf = .ok oth2.d := by decide +kernel

theorem described0 : QDescribed3 fl wA wX w1 o evs0 := by
  intro ev hev
  rw [evs0_eq] at hev
  simp only [List.mem_cons, List.not_mem_nil, or_false] at hev
  rcases hev with rfl | rfl | rfl | rfl | rfl | rfl | rfl | rfl | rfl | rfl | rfl | rfl | rfl
  · exact arp_notQuic
  · exact ⟨isDg_mk _ _ lenA, rfl, rfl, ⟨qCI, [], rfl, pkCI.shape, by decide, by decide⟩⟩
  · exact tls_notQuic 2
  · exact ⟨isDg_mk _ _ lenR, rfl, by decide, rfl, by decide⟩
  · exact dissect_dg flOther false othFrame othU othDg
  · exact ⟨isDg_mk _ _ (lenX d0 (by simp)), rfl, rfl, .inl ⟨qCI2, [], rfl, shCI2, by decide, by decide⟩⟩
  · exact ⟨isDg_mk _ _ (lenX dS (by simp)), rfl, rfl, .inl ⟨qSI6, [qSH6], rfl, rkSI6.shape, by decide, by decide⟩⟩
  · exact dns_notQuic 7
  · exact ⟨isDg_mk _ _ (lenX dC (by simp)), rfl, rfl, .inl ⟨qCH8, [], rfl, rkCH8.shape, by decide, by decide⟩⟩
  · exact ⟨isDg_mk _ _ (len1 bS9 (by simp)), rfl, rfl, by decide, by decide⟩
  · exact tls_notQuic 10
  · exact ⟨isDg_mk _ _ (len1 bC11 (by simp)), rfl, rfl, by decide, by decide⟩
  · exact dissect_oth2

theorem times0 : ∀ e ∈ evs0.map QEv3.cap, Ingest.isMinusOne e.t = false := by
  intro e he
  rw [evs0_eq] at he
  simp only [List.map_cons, List.map_nil, List.mem_cons, List.not_mem_nil, or_false] at he
  rcases he with rfl | rfl | rfl | rfl | rfl | rfl | rfl | rfl | rfl | rfl | rfl | rfl | rfl <;> exact notMinusOne _

/-! ### the 1-RTT-only part -/

def rF : RTrk := ((d0 :: mixOf restA0).map DgY.eff).foldl RTrk.dgx (r0Of (some rp0))

theorem rF_eq : hpChacha sel = false ∧ rF.tc.app = 1 ∧ rF.ts.app = 0 ∧ rF.cc = [cidC] ∧ rF.sc = [cidS0, cidR, cidS] := by
  decide +kernel

theorem ones0 : onesOf3 evsB0 = [bS9, bC11] := rfl

theorem send1_0 : Send1 maskFn H Pc L sel .v1 (rfcGen (hashOf H sel.hash) sel.keyLen saS caS 0)
    (quicHp (hashOf H sel.hash) caS sel.keyLen) (quicHp (hashOf H sel.hash) saS sel.keyLen)
    (hpChacha sel) 0 0 rF.tc.app rF.ts.app rF.cc rF.sc (onesOf3 evsB0) := by
  obtain ⟨e1, e2, e3, e4, e5⟩ := rF_eq
  rw [ones0, e1, e2, e3, e4, e5]
  refine ⟨rfl, by decide, by decide, by decide +kernel, wfB9, ⟨by decide, by decide +kernel, rfl, by decide⟩, by decide,
    rfl, by decide, by decide, by decide +kernel, wfB11, ⟨by decide, by decide +kernel, rfl, by decide⟩, by decide, trivial⟩

instance (c : List Bytes) (w d : Bytes) : Decidable (RouteOk c w d) := by unfold RouteOk; infer_instance

theorem routesB0 : Routes1 w1 rF.cc rF.sc (onesOf3 evsB0) := by
  obtain ⟨_, _, _, e4, e5⟩ := rF_eq
  rw [ones0, e4, e5]
  refine ⟨?_, ?_, trivial⟩ <;> decide +kernel

theorem routesA0 : RoutesYR wX ((r0Of (some rp0)).dgx d0.eff) (mixOf restA0) :=
  ⟨fun h => absurd h.1 (by decide), fun h => absurd h.1 (by decide), trivial⟩

theorem distinct0 : C02Out.DistinctAdjacent false (((d0 :: mixOf restA0).map DgY.eff).map inDgX ++
    (onesOf3 evsB0).map fun d => inDg d.x) := by
  have hl : ((d0 :: mixOf restA0).map DgY.eff).map inDgX ++ (onesOf3 evsB0).map (fun d => inDg d.x) =
      [inDgX d0.x, inDgX dS.x, inDgX dC.x, inDg bS9.x, inDg bC11.x] := rfl
  rw [hl]
  have hf : [inDgX d0.x, inDgX dS.x, inDgX dC.x, inDg bS9.x, inDg bC11.x].filter (C02Out.hasExported false) =
      [inDgX d0.x, inDgX dS.x, inDgX dC.x, inDg bS9.x, inDg bC11.x] := by
    rw [List.filter_eq_self]
    intro d hd
    simp only [List.mem_cons, List.not_mem_nil, or_false] at hd
    rcases hd with rfl | rfl | rfl | rfl | rfl
    · rw [hasExported_inDgX d0.x ⟨(by intro q hq; simp only [d0, List.mem_singleton] at hq; subst hq; exact ⟨rfl, rfl⟩),
        (by intro o ho; cases ho)⟩]; decide
    · rw [hasExported_inDgX dS.x ⟨(by intro q hq; cases hq), (by intro o ho; cases ho; exact ⟨rfl, rfl⟩)⟩]; decide
    · rw [hasExported_inDgX dC.x ⟨(by intro q hq; cases hq), (by intro o ho; cases ho; exact ⟨rfl, rfl⟩)⟩]; decide
    · rw [hasExported_inDg]; decide
    · rw [hasExported_inDg]; decide
  unfold C02Out.DistinctAdjacent
  rw [hf]
  simp [C02Out.InDgram.key, inDg, inDgX, Quic.UdpOut.AdjDistinct, d0, dS, dC, bS9, bC11]

/-! ### the other QUIC connection stays apart, on the capture -/

def keys0 : List Keylog.Key := (fileKeysOf (some (fileText ls0))).getD []
def pO : MainLoop.Pkt := pktOf 4 (oth 4).d
def pO2 : MainLoop.Pkt := ⟨.udp, clientEp flOther, serverEp flOther, wO, true, 12⟩

/-- the main loop's calls for the other connections: the truncated long-header datagram, the second connection's Initial -/
def othItems : List (QIn Keylog.Key) := [⟨keys0, .tooShort, pO⟩, ⟨keys0, .long dcidO .v1, pO2⟩]

theorem oth2Dg : pktOf 12 oth2.d = pO2 := by decide +kernel

theorem othIn0 : othIn o keys0 0 evs0 = othItems := by
  have hp : pO = ⟨.udp, clientEp flOther, serverEp flOther, othU.payload, true, 4⟩ := by
    show pktOf 4 (viewOf othFrame) = _
    rw [pktOf_dg flOther false othFrame othU othDg]; rfl
  have hw : ∃ b0 r, wO = b0 :: r ∧ (b0.toNat &&& 0x40) >>> 6 = 1 ∧ parseHeader1 b0 r = .long dcidO .v1 := by
    refine ⟨wO.headD 0, wO.tail, by decide +kernel, by decide +kernel, by decide +kernel⟩
  obtain ⟨b0, r, h1, h2, h3⟩ := hw
  rw [evs0_eq]
  simp only [othIn, preEv, retryEv, mixEv, oneEv, List.append_nil]
  show quicView o keys0 [.frame pO] ++ quicView o keys0 [.frame (pktOf 12 oth2.d)] = _
  rw [hp, quicView_dgram o rfl _ rfl 0xc3 [0, 0] rfl (by decide) keys0, oth2Dg,
    quicView_dgram o rfl pO2 rfl b0 r h1 h2 keys0, h3]
  have : parseHeader1 0xc3 [0, 0] = .tooShort := by decide
  rw [this, ← hp]
  rfl

/-- the finite check of `ExportDemux` (`sepCheck`: the runs of either side ALONE, every prefix), evaluated -/
theorem sepOwn0 : Lemmas.ExportDemux.CaptureSeparated (quicMachine maskFn H Pc (capInfo (evs0.map QEv3.cap))) o
    (ownIn fl keys0 0 evs0) (othIn o keys0 0 evs0) := by
  rw [othIn0]
  exact Props.ExportDemux.captureSeparated_of_sepCheck _ _ _ _ (by decide +kernel)

theorem sepOther0 : Lemmas.ExportDemux.CaptureSeparated (quicMachine maskFn H Pc (capInfo (evs0.map QEv3.cap))) o
    (othIn o keys0 0 evs0) (ownIn fl keys0 0 evs0) := by
  rw [othIn0]
  exact Props.ExportDemux.captureSeparated_of_sepCheck _ _ _ _ (by decide +kernel)

/-! ### the key-log file -/

theorem ls0_wf : ∀ x ∈ ls0, x.1.WF := by
  intro x hx
  simp only [ls0, List.mem_cons, List.mem_nil_iff, or_false] at hx
  rcases hx with rfl | rfl | rfl | rfl | rfl | rfl <;>
    exact ⟨rfl, by decide, by decide +kernel, by decide +kernel, by decide +kernel, by decide +kernel⟩

theorem hasLine0 (label : List Nat) (s : Bytes) (h : ln label chx.random s ∈ ls0) :
    HasLine ls0 label (Pipeline.natsOfBytes chx.random) (Pipeline.natsOfBytes s) := ⟨_, _, false, h⟩

theorem only0 (label : List Nat) (s : Bytes)
    (h : ∀ x ∈ [(labelSHTS, chx.random, shS), (labelCTS0, List.replicate 32 9, [1, 2]), (labelCHTS, chx.random, chS),
      (labelCETS, chx.random, eS), (labelSTS0, chx.random, saS), (labelCTS0, chx.random, caS)],
      x.1 = label → Pipeline.natsOfBytes x.2.1 = Pipeline.natsOfBytes chx.random → Pipeline.natsOfBytes x.2.2 = Pipeline.natsOfBytes s) :
    OnlySecret ls0 label (Pipeline.natsOfBytes chx.random) (Pipeline.natsOfBytes s) := by
  intro tr hc hv crlf hm hl hcr
  simp only [ls0, ln, List.mem_cons, List.mem_nil_iff, or_false, Prod.mk.injEq, FLine.key.injEq] at hm
  rcases hm with ⟨⟨rfl, _, _⟩, _⟩ | ⟨⟨rfl, _, _⟩, _⟩ | ⟨⟨rfl, _, _⟩, _⟩ | ⟨⟨rfl, _, _⟩, _⟩ | ⟨⟨rfl, _, _⟩, _⟩ | ⟨⟨rfl, _, _⟩, _⟩
  · exact h (labelSHTS, chx.random, shS) (by simp) hl hcr
  · exact h (labelCTS0, List.replicate 32 9, [1, 2]) (by simp) hl hcr
  · exact h (labelCHTS, chx.random, chS) (by simp) hl hcr
  · exact h (labelCETS, chx.random, eS) (by simp) hl hcr
  · exact h (labelSTS0, chx.random, saS) (by simp) hl hcr
  · exact h (labelCTS0, chx.random, caS) (by simp) hl hcr

def sp0 : SuiteSpec := ⟨.aesGcm, 16, .sha256, 16⟩
def spR0 : SuiteSpec := ⟨.chacha20Poly1305, 32, .sha256, 16⟩

/-- **every hypothesis of `quic_capture_exact_all` holds** for this capture, key-log file and option vector -/
theorem captureAll0 : QuicCaptureAll maskFn H Pc L args0 ls0 [] ports0 fl hs chS shS caS saS eS sp0 spR0 sel selR [0x13, 0x03]
    (some rp0) preA0 (timeAt 5) (dgFrame false (wX d0.x)) (udpOf false (wX d0.x)) d0 restA0 evsB0 where
  lawful := Props.C15.sizedToy_lawful
  sha256 := rfl
  outLen := by decide
  times := times0
  noc := rfl
  nometa := rfl
  pmOk := rfl
  portsOk := rfl
  endpoints := by decide
  clientPort := by decide +kernel
  hsOk := hs_ok
  tls13 := by decide
  suite := by decide +kernel
  tls13R := by decide
  suiteR := by decide +kernel
  saLen := rfl
  caLen := rfl
  linesWf := ls0_wf
  lineCH := hasLine0 _ _ (by simp [ls0])
  lineSH := hasLine0 _ _ (by simp [ls0])
  lineCA := hasLine0 _ _ (by simp [ls0])
  lineSA := hasLine0 _ _ (by simp [ls0])
  lineE := hasLine0 _ _ (by simp [ls0])
  onlyCH := only0 _ _ (by decide +kernel)
  onlySH := only0 _ _ (by decide +kernel)
  onlyCA := only0 _ _ (by decide +kernel)
  onlySA := only0 _ _ (by decide +kernel)
  onlyE := only0 _ _ (by decide +kernel)
  noiseR := by intro x hx; cases hx; exact ⟨by decide, by decide⟩
  noiseA := by decide
  phaseA := by decide
  phaseB := by decide
  fromClient := rfl
  firstLong := by decide
  described := described0
  retryOk := by intro x hx; cases hx; exact ⟨rfl, dgA, _, insA0⟩
  mixDgs := mixDgs0
  mixIns := mixIns0
  routesA := routesA0
  send1 := send1_0
  routesB := routesB0
  distinct := distinct0
  sepOwn := sepOwn0
  sepOther := sepOther0

/-! ### the capture FILE (nanosecond libpcap) and the result -/
open TLX.Props.C01File.Ex (cevOf legacy_wf filterMap_map_some scale_cev)
open TLX.Props.C02File.Ex (dgFrame_length)

def cevs0 : List Spec.Containers.Ev := (evs0.map QEv3.cap).map cevOf

theorem evs_bounds : ∀ e ∈ evs0.map QEv3.cap, ∃ k, k < 100 ∧ e.t = timeAt k ∧ e.buf.length < 70000 := by
  intro e he
  rw [evs0_eq] at he
  simp only [List.map_cons, List.map_nil, List.mem_cons, List.not_mem_nil, or_false] at he
  rcases he with rfl | rfl | rfl | rfl | rfl | rfl | rfl | rfl | rfl | rfl | rfl | rfl | rfl
  · exact ⟨0, by decide, rfl, by decide⟩
  · exact ⟨1, by decide, rfl, by simp only [preEv, QEv3.cap, dgFrame_length]; have := lenA; omega⟩
  · exact ⟨2, by decide, rfl, by decide +kernel⟩
  · exact ⟨3, by decide, rfl, by simp only [retryEv, QEv3.cap, dgFrame_length]; have := lenR; omega⟩
  · exact ⟨4, by decide, rfl, by decide +kernel⟩
  · exact ⟨5, by decide, rfl, by simp only [mixEv, QEv3.cap, dgFrame_length]; have := lenX d0 (by simp); omega⟩
  · exact ⟨6, by decide, rfl, by simp only [mixEv, QEv3.cap, dgFrame_length]; have := lenX dS (by simp); omega⟩
  · exact ⟨7, by decide, rfl, by decide +kernel⟩
  · exact ⟨8, by decide, rfl, by simp only [mixEv, QEv3.cap, dgFrame_length]; have := lenX dC (by simp); omega⟩
  · exact ⟨9, by decide, rfl, by simp only [oneEv, QEv3.cap, dgFrame_length]; have := len1 bS9 (by simp); omega⟩
  · exact ⟨10, by decide, rfl, by decide +kernel⟩
  · exact ⟨11, by decide, rfl, by simp only [oneEv, QEv3.cap, dgFrame_length]; have := len1 bC11 (by simp); omega⟩
  · exact ⟨12, by decide, rfl, by decide +kernel⟩

theorem cwf0 : cv0.WF cevs0 := by
  refine ⟨by decide, by decide, by decide, by decide, by decide, legacy_wf _ _ rfl ?_ 0⟩
  intro ev hev
  simp only [cevs0, List.mem_map] at hev
  obtain ⟨e, ⟨c, hc, rfl⟩, rfl⟩ := hev
  obtain ⟨k, hk, ht, hl⟩ := evs_bounds _ (List.mem_map.mpr ⟨c, hc, rfl⟩)
  refine ⟨_, _, rfl, ?_, by omega⟩
  rw [ht]
  simp only [timeAt, Spec.Containers.LegacyVariant.unitsPerSecond, if_true]
  have : ((1700000000 : Int).toNat * 10 ^ 9 + (1000 + k)) / 10 ^ 9 = 1700000000 := by
    have : (1700000000 : Int).toNat = 1700000000 := rfl
    rw [this]; omega
  rw [this]; decide

theorem citems0 : cevs0.filterMap (Spec.Containers.scale cv0) = (evs0.map QEv3.cap).map CapEv.item := by
  unfold cevs0
  apply filterMap_map_some
  intro e he
  obtain ⟨k, hk, ht, _⟩ := evs_bounds e he
  exact scale_cev _ k hk ht

/-- what the export must contain: the 0-RTT data `EARLY` (the resumed suite is the first of the client's offer), the
    server's 0.5-RTT reply `HI`, the client's `GET` behind its Finished, then `OK` and `MORE` under updated keys — five
    frames, MAC addresses of the client's FIRST Initial (before the Retry) -/
def out0 : List Pipeline.OutPkt :=
  [⟨usAt 5, cMac, sMac, ⟨[10, 0, 0, 1], 50000⟩, ⟨[10, 0, 0, 2], 443⟩, false, 0, 0, 0, [0x45, 0x41, 0x52, 0x4c, 0x59], true⟩,
   ⟨usAt 6, sMac, cMac, ⟨[10, 0, 0, 2], 443⟩, ⟨[10, 0, 0, 1], 50000⟩, false, 0, 0, 0, [0x48, 0x49], true⟩,
   ⟨usAt 8, cMac, sMac, ⟨[10, 0, 0, 1], 50000⟩, ⟨[10, 0, 0, 2], 443⟩, false, 0, 0, 0, [0x47, 0x45, 0x54], true⟩,
   ⟨usAt 9, sMac, cMac, ⟨[10, 0, 0, 2], 443⟩, ⟨[10, 0, 0, 1], 50000⟩, false, 0, 0, 0, [0x4f, 0x4b], true⟩,
   ⟨usAt 11, cMac, sMac, ⟨[10, 0, 0, 1], 50000⟩, ⟨[10, 0, 0, 2], 443⟩, false, 0, 0, 0, [0x4d, 0x4f, 0x52, 0x45], true⟩]

theorem block0 : blockAll args0 [] fl (firstFrame (some rp0) (dgFrame false (wX d0.x)))
    ((d0 :: mixOf restA0).map DgY.eff) (onesOf3 evsB0) = out0 := rfl

/-- **Non-vacuity of `quic_capture_exact_all`.** The capture FILE (nanosecond libpcap) holds: an ARP request; the client's
    first Initial; a TLS-over-TCP segment of another flow; the server's Retry; a long-header datagram of ANOTHER QUIC flow;
    the client's second Initial (Retry token, Retry SCID as DCID) with a 0-RTT packet `EARLY` coalesced behind it; ONE server
    datagram with Initial (ServerHello), Handshake packet (its flight) and a 1-RTT packet with 0.5-RTT data `HI`; a DNS
    query; ONE client datagram with its Finished and the request `GET`; then, with UPDATED keys, `OK` from the server, another
    TLS segment, `MORE` from the client; at the end the client's Initial of a SECOND QUIC connection on another flow (the loop
    makes a session of its own for it; separation from it is CHECKED on the capture: `sepCheck`). The key-log file has the connection's five lines in any order and a line of
    another connection. Every hypothesis of `QuicCaptureAll` is discharged by evaluation (`captureAll0`); so the export
    contains exactly `EARLY`, `HI`, `GET`, `OK`, `MORE`. -/
theorem quic_all_instance :
    (∃ e, exportFile maskFn H Pc args0 cv0.isLegacy (some (fileText ls0)) (Spec.Containers.encode cv0 cevs0) = .abort (.write e)) ∨
    ∃ f, exportFile maskFn H Pc args0 cv0.isLegacy (some (fileText ls0)) (Spec.Containers.encode cv0 cevs0) = .file f ∧
      ReadsBack f out0 := by
  have h := quic_capture_exact_all captureAll0 cv0 cevs0 cwf0 citems0
  rw [block0] at h
  exact h

end TLX.Props.C02All.Ex
