/-
C04 FOR THE WHOLE PROGRAM, TLS and QUIC, any number of connections, with the separation stated on the CAPTURE.
Theorems about what `run()` hands to the writer (`TLX.Export.framesFrom`, which `exportFile` serialises) and, in section 3,
about capture FILES.

"Connection k alone" is the capture with the frames of the other connections removed: `only keep C` — the
decryption-secrets blocks stay in place and the `-s` file is the same, so every session meets the same key log at the same
moment in both runs (the property says "as if it were the only one in the capture"; it does not remove key-log lines).
NOT covered: a solo run given ONLY its own key-log lines. `ExportInputs.connOut_congr` / `quic_feed_congr` need the two key
logs to answer alike for EVERY client random (`SameView`), which removing the lines of another connection breaks; what is
missing is a congruence in the one client random a session looks up (a statement about `Session` / `Quic.Session`, not about
the loop).

1. TLS over TCP (no hypothesis)  `tls_frames_by_flow`: the TLS part of the output is, flow by flow in order of first
   appearance (`flowHeads`), the TLS part of the capture restricted to that flow; `tls_conn_alone`.
   QUIC  `CaptureSeparated` (Lemmas/ExportDemux): between two sets of datagrams — different 4-tuples; no long-header
   datagram of `B` carries as DCID, and no short-header datagram of `B` starts (bytes 1..) with, a non-empty connection ID
   that the sessions of `A` ALONE ever hold (`EverHolds`: a function of `A`'s datagrams and the key log, not of the merged
   run). `quicSeparated_of_capture` derives the session-state condition `C04.QuicSeparated` from it by induction over the run;
   `Lemmas.ExportDemuxCids.everHolds_sources` bounds what a session can hold by what its own datagrams carry: DCID / SCID of
   the long-header Initial packets dissected from them and the CIDs of NEW_CONNECTION_ID frames in packets it could open —
   nothing else (not the routing DCID, not a Retry SCID as such); hence `SeparatedByContent` (section 4: a condition on the
   datagrams' content only) implies `CaptureSeparated` (`captureSeparated_of_content`, `export_demux_content`). `quic_sessions_by_conn`, `quic_frames_by_conn`: for ANY number of mutually
   separated connections (`lab` names the connection of a datagram), connection by connection.
   `export_demux`: the output is the TLS blocks in creation order, then the QUIC blocks in creation order, each block the
   block of the solo run.
2. what is NOT separated (each clause of `CaptureSeparated` is needed):
   * `short`: a non-empty CID of connection A that a short-header datagram of B happens to START WITH (bytes 1..) — A's CID
     need not be a CID of B, nor prefix-related to one; a 1-byte CID is hit by 1 foreign datagram in 256, an n-byte CID by
     2^(-8n). Whole-program witness, kernel-evaluated through the full pipeline: `Ex.prefix_cross_routing`
     (`ExportDemuxEx.lean`; the datagram `OK` of the connection is lost), replayed on the REAL tool with real cryptography:
     harness/export_demux_replay.py. Loop-level: `C04.Ex.quic_cross_routing_by_prefix`, `C04.Ex.quic_route_counterexample`.
   * `long`: equal CIDs in two connections (the DCID of B's long header is a CID A holds).
   * `tuples`: the same 4-tuple (a reused client port; two captures merged): `C04.Ex.quic_cross_routing_by_tuple` — and with
     it every ZERO-LENGTH CID: an empty CID identifies nothing (`C04.empty_dcid_falls_to_tuple`,
     `C04.empty_cid_never_chosen`), such datagrams are routed by the 4-tuple alone, so two connections with zero-length CIDs
     are separated iff their 4-tuples differ.
3. files: `export_demux_file` (the capture file holding only the packet blocks of one connection, any container).
-/
import TLX.Lemmas.ExportDemux
import TLX.Lemmas.ExportDemuxCids
import TLX.Props.ExportInputs2
set_option linter.unusedSimpArgs false
set_option linter.unusedVariables false
namespace TLX.Props.ExportDemux
open TLX TLX.MainLoop TLX.Export TLX.Spec.Demux TLX.Lemmas.MainLoop TLX.Lemmas.ExportProps TLX.Lemmas.ExportDemux
open TLX.Props.ExportPropsQuic TLX.QuicPipeline

variable (mask : Quic.Dissect.MaskFn) (H : Crypto.Prims) (P : Cipher.Prims) (info : Nat → Pipeline.Info)

/-! ## 1. items level -/

/-- the restricted capture ends with the same key log -/
theorem keysOf_only (fk : Option (List Keylog.Key)) (keep : Pkt → Bool) (C : List (Item Keylog.Key)) :
    keysOf fk (only keep C) = keysOf fk C := by simp only [keysOf, dsbOnly_only]

/-- **TLS, any number of connections, no hypothesis.** For EVERY capture (TLS, QUIC, DSBs, junk, interleaved in any way)
    the per-conversation frame blocks of the run are, in order of the first packet of each flow that has a server port at
    one end, the blocks of the capture restricted to that flow. -/
theorem tls_frames_by_flow (o : Opts) (fk : Option (List Keylog.Key)) (C : List (Item Keylog.Key)) :
    tlsFrames H P info o fk C =
      (flowHeads o (tcpView o C)).flatMap fun q => tlsFrames H P info o fk (only (sameFlow q) C) := by
  unfold tlsFrames tlsConvs
  rw [C04.tls_demux_exact, groupByFlow_heads, List.map_flatMap]
  apply flatMap_congr'
  intro q _
  rw [tcpView_only, keysOf_only,
    C04.tls_alone_is_run _ o q _ (fun x hx => (List.mem_filter.mp hx).2)]

/-- … and for one flow: the capture restricted to the flow of `q` yields at most one conversation — the conversation `q`
    belongs to in the full run, the same object — and its frames. -/
theorem tls_conn_alone (o : Opts) (fk : Option (List Keylog.Key)) (C : List (Item Keylog.Key)) (q : Pkt) :
    tlsConvs H P info o (only (sameFlow q) C) = ((tlsConvs H P info o C).find? (·.matches q)).toList ∧
    tlsFrames H P info o fk (only (sameFlow q) C) =
      ((tlsConvs H P info o C).find? (·.matches q)).toList.map (convFrames H P info (keysOf fk C)) := by
  have h1 : tlsConvs H P info o (only (sameFlow q) C) = ((tlsConvs H P info o C).find? (·.matches q)).toList := by
    unfold tlsConvs
    rw [tcpView_only, C04.tls_alone_is_run _ o q _ (fun x hx => (List.mem_filter.mp hx).2), C04.tls_session_for]
  refine ⟨h1, ?_⟩
  unfold tlsFrames
  rw [h1, keysOf_only]

/-! ### QUIC: any number of mutually separated connections -/
section Quic
variable {κ τ ο : Type}

/-- `lab` names the connection a datagram belongs to; every connection is `CaptureSeparated` from all the others -/
def CaptureSeparatedN (M : QuicMachine κ τ ο) (o : Opts) (lab : Pkt → Nat) (V : List (QIn κ)) : Prop :=
  ∀ j, CaptureSeparated M o (cls (fun x : QIn κ => lab x.p) j V) (rest (fun x : QIn κ => lab x.p) j V)

theorem isoN_of_capture (M : QuicMachine κ τ ο) (o : Opts) (lab : Pkt → Nat) (V : List (QIn κ))
    (h : CaptureSeparatedN M o lab V) : IsoN (quicRouter M o) (fun x : QIn κ => lab x.p) V := by
  intro j n s hs x hx hne
  have := quic_iso_of_separated M o (quicSeparated_of_capture M o (h j)) n s hs x
  exact this (List.mem_filter.mpr ⟨hx, by simpa using hne⟩)

/-- the sessions of the whole run are, for every connection `k`, the sessions of the datagrams of `k` alone and those of
    all the other datagrams, interleaved — same objects -/
theorem quic_run_by_conn (M : QuicMachine κ τ ο) (o : Opts) (lab : Pkt → Nat) (V : List (QIn κ))
    (h : CaptureSeparatedN M o lab V) (k : Nat) :
    Merge (quicRun M o [] (cls (fun x : QIn κ => lab x.p) k V)) (quicRun M o [] (rest (fun x : QIn κ => lab x.p) k V))
      (quicRun M o [] V) := by
  simp only [quicRun_eq_router]
  exact Router.run_labelled (isoN_of_capture M o lab V h) k

end Quic

theorem quicSess_only (o : Opts) (fk : Option (List Keylog.Key)) (keep : Pkt → Bool) (C : List (Item Keylog.Key)) :
    quicSess mask H P info o fk (only keep C) =
      quicRun (quicMachine mask H P info) o [] ((quicView o (fk.getD []) C).filter fun x => keep x.p) := by
  unfold quicSess
  rw [quicView_only]

/-- **QUIC sessions, connection by connection.** `lab` assigns every datagram its connection; if the connections are
    mutually `CaptureSeparated`, then for every connection `k` the QUIC sessions of the full run are the sessions of the
    capture restricted to `k` — same roles, same state — and the sessions of the capture without `k`, interleaved. -/
theorem quic_sessions_by_conn (o : Opts) (fk : Option (List Keylog.Key)) (C : List (Item Keylog.Key)) (lab : Pkt → Nat)
    (hsep : CaptureSeparatedN (quicMachine mask H P info) o lab (quicView o (fk.getD []) C)) (k : Nat) :
    Merge (quicSess mask H P info o fk (only (fun p => lab p == k) C))
      (quicSess mask H P info o fk (only (fun p => !(lab p == k)) C)) (quicSess mask H P info o fk C) := by
  rw [quicSess_only, quicSess_only]
  exact quic_run_by_conn _ o lab _ hsep k

/-- … hence the exported frame blocks: the blocks of connection `k` alone stand, intact and in order, among the blocks of
    the full run; the others are the blocks of the capture without `k`. -/
theorem quic_frames_by_conn (o : Opts) (fk : Option (List Keylog.Key)) (C : List (Item Keylog.Key)) (lab : Pkt → Nat)
    (hsep : CaptureSeparatedN (quicMachine mask H P info) o lab (quicView o (fk.getD []) C)) (k : Nat) :
    Merge (quicFrames mask H P info o fk (only (fun p => lab p == k) C))
      (quicFrames mask H P info o fk (only (fun p => !(lab p == k)) C)) (quicFrames mask H P info o fk C) := by
  unfold quicFrames
  exact Props.ExportInputs.merge_map (quic_sessions_by_conn mask H P info o fk C lab hsep k) _

/-- **C04, whole program.** Any capture: TLS connections (any number, any 4-tuples — a flow IS a connection), QUIC
    connections named by `lab` and mutually separated on the capture, DSBs, other traffic, interleaved in any order. What
    `run()` hands to the writer is: the TLS blocks, one per flow in order of first appearance, each the TLS block of the
    capture restricted to that flow; then the QUIC blocks in session-creation order, among which — for every connection
    `k` — the blocks of the capture restricted to `k` stand intact and in order. -/
theorem export_demux (prior : Prior) (args : Args) (o : Opts) (ho : optsOf args = some o) (fk : Option (List Keylog.Key))
    (C : List (Item Keylog.Key)) (lab : Pkt → Nat)
    (hsep : CaptureSeparatedN (quicMachine mask H P info) o lab (quicView o (fk.getD []) C)) :
    framesFrom mask H P prior args fk C info = .ok (
      ((flowHeads o (tcpView o C)).flatMap fun q => tlsFrames H P info o fk (only (sameFlow q) C)).flatten ++
      (quicFrames mask H P info o fk C).flatten) ∧
    (∀ k, Merge (quicFrames mask H P info o fk (only (fun p => lab p == k) C))
      (quicFrames mask H P info o fk (only (fun p => !(lab p == k)) C)) (quicFrames mask H P info o fk C)) ∧
    (∀ keep : Pkt → Bool, framesFrom mask H P prior args fk (only keep C) info = .ok (
      (tlsFrames H P info o fk (only keep C)).flatten ++ (quicFrames mask H P info o fk (only keep C)).flatten)) := by
  refine ⟨?_, quic_frames_by_conn mask H P info o fk C lab hsep, fun keep => framesFrom_ok_quic mask H P info prior args fk _ o ho⟩
  rw [framesFrom_ok_quic mask H P info prior args fk C o ho, tls_frames_by_flow]

/-! ### checking `CaptureSeparated` on a given capture: finitely many prefixes -/
section Check
variable {κ τ ο : Type}

theorem everHolds_bounded (M : QuicMachine κ τ ο) (o : Opts) (A : List (QIn κ)) (c : Bytes) (h : EverHolds M o A c) :
    ∃ n ∈ List.range (A.length + 1), ∃ s ∈ quicRun M o [] (A.take n), c ∈ M.clientCids s.st ++ M.serverCids s.st := by
  obtain ⟨n, s, hs, hc⟩ := h
  by_cases hn : n ≤ A.length
  · exact ⟨n, List.mem_range.mpr (by omega), s, hs, List.mem_append.mpr hc⟩
  · have : A.take n = A.take A.length := by rw [List.take_length, List.take_of_length_le (by omega)]
    rw [this] at hs
    exact ⟨A.length, List.mem_range.mpr (by omega), s, hs, List.mem_append.mpr hc⟩

theorem captureSeparated_of_check (M : QuicMachine κ τ ο) (o : Opts) (A B : List (QIn κ))
    (ht : ∀ a ∈ A, ∀ b ∈ B, sameFlow a.p b.p = false)
    (hc : ∀ n ∈ List.range (A.length + 1), ∀ s ∈ quicRun M o [] (A.take n),
      ∀ c ∈ M.clientCids s.st ++ M.serverCids s.st, c ≠ [] →
        ∀ b ∈ B, b.h.dcid ≠ c ∧ (b.h = .short → ¬ c <+: b.p.payload.drop 1)) : CaptureSeparated M o A B := by
  refine ⟨ht, ?_, ?_⟩
  · intro b hb d v hd hne hev
    obtain ⟨n, hn, s, hs, hcs⟩ := everHolds_bounded M o A d hev
    have := (hc n hn s hs d hcs hne b hb).1
    rw [hd] at this
    exact this rfl
  · intro b hb hsh c hne hev hp
    obtain ⟨n, hn, s, hs, hcs⟩ := everHolds_bounded M o A c hev
    exact (hc n hn s hs c hcs hne b hb).2 hsh hp

/-- only the connections that occur need to be checked -/
theorem captureSeparatedN_of_check (M : QuicMachine κ τ ο) (o : Opts) (lab : Pkt → Nat) (V : List (QIn κ))
    (h : ∀ x ∈ V, CaptureSeparated M o (cls (fun x : QIn κ => lab x.p) (lab x.p) V) (rest (fun x : QIn κ => lab x.p) (lab x.p) V)) :
    CaptureSeparatedN M o lab V := by
  intro j
  by_cases hj : ∃ x ∈ V, lab x.p = j
  · obtain ⟨x, hx, rfl⟩ := hj
    exact h x hx
  · have : cls (fun x : QIn κ => lab x.p) j V = [] := by
      simp only [cls, List.filter_eq_nil_iff]
      intro x hx hl
      exact hj ⟨x, hx, by simpa using hl⟩
    rw [this]
    refine ⟨fun a ha _ _ => absurd ha (by simp), ?_, ?_⟩
    · intro b _ d v _ _ ⟨n, s, hs, _⟩; simp [quicRun] at hs
    · intro b _ _ c _ ⟨n, s, hs, _⟩; simp [quicRun] at hs
end Check
section Check2
variable {κ τ ο : Type}

/-- the finite check as a Boolean (for `decide`) -/
def sepCheck (M : QuicMachine κ τ ο) (o : Opts) (A B : List (QIn κ)) : Bool :=
  (A.all fun a => B.all fun b => !sameFlow a.p b.p) &&
  (List.range (A.length + 1)).all fun n => (quicRun M o [] (A.take n)).all fun s =>
    (M.clientCids s.st ++ M.serverCids s.st).all fun c => c.isEmpty ||
      B.all fun b => (b.h.dcid != c) && (b.h != .short || !(c.isPrefixOf (b.p.payload.drop 1)))

theorem captureSeparated_of_sepCheck (M : QuicMachine κ τ ο) (o : Opts) (A B : List (QIn κ))
    (h : sepCheck M o A B = true) : CaptureSeparated M o A B := by
  simp only [sepCheck, Bool.and_eq_true, List.all_eq_true, Bool.not_eq_true', Bool.or_eq_true, bne_iff_ne, ne_eq,
    List.isEmpty_iff] at h
  refine captureSeparated_of_check M o A B h.1 ?_
  intro n hn s hs c hc hne b hb
  rcases h.2 n hn s hs c hc with h0 | h0
  · exact absurd h0 hne
  · obtain ⟨h1, h2⟩ := h0 b hb
    refine ⟨h1, fun hsh hp => ?_⟩
    rcases h2 with h2 | h2
    · exact h2 hsh
    · rw [← List.isPrefixOf_iff_prefix] at hp
      rw [hp] at h2; cases h2
end Check2

section Files
open TLX.Props.ExportInputs TLX.Props.ExportInputs2 TLX.Ingest
open TLX.Spec.Containers (Zip)

/-! ## 3. files -/

/-- what `only keep` does to one item -/
def itemKeep (keep : Pkt → Bool) : Item Keylog.Key → Bool
  | .dsb _ => true
  | .frame p => keep p

/-- choosing packet blocks of the file (`keepIt`, on what the reader yields) that are the frames `keep` chooses -/
theorem keptOf_only (keepIt : Container.Item → Bool) (keep : Pkt → Bool) (its : List Container.Item) :
    ∀ X : List (Item Keylog.Key), X.length = its.length → (∀ ix ∈ its.zip X, keepIt ix.1 = itemKeep keep ix.2) →
      keptOf keepIt its X = only keep X := by
  induction its with
  | nil => intro X hl _; cases X with | nil => rfl | cons _ _ => simp at hl
  | cons it its ih =>
    intro X hl h
    cases X with
    | nil => simp at hl
    | cons x X =>
      have h0 := h (it, x) (by simp)
      have ht := ih X (by simpa using hl) (fun ix hix => h ix (by simp [hix]))
      simp only [keptOf, h0, ht]
      cases x with
      | dsb k => simp [itemKeep, only]
      | frame p => simp only [itemKeep, only_cons_frame]; rfl

/-- **C04, file to file.** `capC`: a capture the run reads to the end (`hC`); `capK`: a capture file — either container —
    whose reader yields just the blocks `keepIt` keeps, namely all secrets blocks and the packet blocks of the frames
    `keep` chooses (`hsel`; e.g. one connection). Then `capK` is read to the end too, and the run on `capK` hands the writer
    EXACTLY what the main loop makes of the items of `capC` restricted by `only keep` (with the time stamps, MAC addresses …
    of `capC`'s table): the renumbering of the packets behind the removed blocks changes nothing. -/
theorem export_demux_file (prior : Prior) (args : Args) (legacy legacy' : Bool) (kl : Option Keylog.Str)
    (capC capK : Bytes) (its : List Container.Item) (keepIt : Container.Item → Bool) (keep : Pkt → Bool)
    (hrC : Container.readPrefix legacy capC = .ok (its, none))
    (hrK : Container.readPrefix legacy' capK = .ok (its.filter keepIt, none))
    (X : List (Item Keylog.Key)) (IS : List (Nat × Pipeline.Info))
    (hC : go Keylog.srcHexClass args.checksumTest 0 its = .ok (X, IS))
    (hsel : ∀ ix ∈ its.zip X, keepIt ix.1 = itemKeep keep ix.2) :
    ∃ XK ISK,
      Ingest.itemsWith Keylog.srcHexClass args.checksumTest legacy capC = .ok (X, IS) ∧
      Ingest.itemsWith Keylog.srcHexClass args.checksumTest legacy' capK = .ok (XK, ISK) ∧
      framesFrom mask H P prior args (fileKeysOf kl) XK (Ingest.lookup ISK) =
        framesFrom mask H P prior args (fileKeysOf kl) (only keep X) (Ingest.lookup IS) := by
  obtain ⟨XK, ISK, g1, g2⟩ := go_filter args.checksumTest keepIt its 0 0 X IS hC
  rw [keptOf_only keepIt keep its X (go_length _ its 0 X IS hC) hsel] at g2
  refine ⟨XK, ISK, ?_, ?_, (framesFrom_alike mask H P _ _ prior args _ g2).symm⟩
  · unfold Ingest.itemsWith; rw [hrC]; simp only [hC]
  · unfold Ingest.itemsWith; rw [hrK]; simp only [g1]

/-- … as a statement about the two PROGRAM RUNS: the output file of the run on the one-connection capture file is the
    serialisation of the frames the loop makes of the restricted items of the full capture. -/
theorem export_demux_file_run (args : Args) (legacy legacy' : Bool) (kl : Option Keylog.Str)
    (capC capK : Bytes) (its : List Container.Item) (keepIt : Container.Item → Bool) (keep : Pkt → Bool)
    (hrC : Container.readPrefix legacy capC = .ok (its, none))
    (hrK : Container.readPrefix legacy' capK = .ok (its.filter keepIt, none))
    (X : List (Item Keylog.Key)) (IS : List (Nat × Pipeline.Info))
    (hC : go Keylog.srcHexClass args.checksumTest 0 its = .ok (X, IS))
    (hsel : ∀ ix ∈ its.zip X, keepIt ix.1 = itemKeep keep ix.2)
    (hopt : optionsBad (freshState : Prior) args = false) :
    exportFile mask H P args legacy kl capC =
      ExportInputs.finish (framesFrom mask H P freshState args (fileKeysOf kl) X (Ingest.lookup IS)) ∧
    exportFile mask H P args legacy' kl capK =
      ExportInputs.finish (framesFrom mask H P freshState args (fileKeysOf kl) (only keep X) (Ingest.lookup IS)) := by
  obtain ⟨XK, ISK, h1, h2, h3⟩ := export_demux_file mask H P freshState args legacy legacy' kl capC capK its keepIt keep
    hrC hrK X IS hC hsel
  rw [exportFile_stages, exportFile_stages, hopt, h1, h2]
  simp only [Bool.false_eq_true, if_false, h3, and_self]

section Encoder
open TLX.Spec.Containers TLX.Props.C12

/-- the events of the capture whose block `keepIt` keeps -/
def evKeep (v : Variant) (keepIt : Container.Item → Bool) (ev : Ev) : Bool :=
  match scale v ev with
  | some it => keepIt it
  | none => true

/-- … for the independent container encoder: the capture re-encoded with only the chosen connection's packet blocks (and
    all secrets blocks), any container variant: both reader hypotheses are discharged. -/
theorem export_demux_encoded (args : Args) (kl : Option Keylog.Str) (v : Variant) (evs : List Ev)
    (keepIt : Container.Item → Bool) (keep : Pkt → Bool)
    (hwf : v.WF evs) (hwf' : v.WF (evs.filter (evKeep v keepIt)))
    (X : List (Item Keylog.Key)) (IS : List (Nat × Pipeline.Info))
    (hC : go Keylog.srcHexClass args.checksumTest 0 (evs.filterMap (scale v)) = .ok (X, IS))
    (hsel : ∀ ix ∈ (evs.filterMap (scale v)).zip X, keepIt ix.1 = itemKeep keep ix.2)
    (hopt : optionsBad (freshState : Prior) args = false) :
    exportFile mask H P args v.isLegacy kl (encode v evs) =
      ExportInputs.finish (framesFrom mask H P freshState args (fileKeysOf kl) X (Ingest.lookup IS)) ∧
    exportFile mask H P args v.isLegacy kl (encode v (evs.filter (evKeep v keepIt))) =
      ExportInputs.finish (framesFrom mask H P freshState args (fileKeysOf kl) (only keep X) (Ingest.lookup IS)) := by
  have r1 := readPrefix_of_read _ _ _ (reader_roundtrip v evs hwf)
  have r2 := readPrefix_of_read _ _ _ (reader_roundtrip v _ hwf')
  have : (evs.filter (evKeep v keepIt)).filterMap (scale v) = (evs.filterMap (scale v)).filter keepIt :=
    filterMap_filter_comm (scale v) keepIt (evKeep v keepIt)
      (fun ev => by unfold evKeep; cases scale v ev <;> rfl) evs
  rw [this] at r2
  exact export_demux_file_run mask H P args _ _ kl _ _ _ keepIt keep r1 r2 X IS hC hsel hopt

end Encoder

end Files

section Content
open TLX.Lemmas.ExportDemuxCids

/-! ## 4. separation by what the datagrams carry -/

/-- **separation of two sets of datagrams by their CONTENT**: different 4-tuples, and every non-empty connection ID that a
    datagram of `A` names (DCID / SCID of a long-header Initial packet in it) or issues (NEW_CONNECTION_ID in a packet of it
    that a session can open) — `TaughtBy` — is neither the DCID of a long-header datagram of `B` nor what a short-header
    datagram of `B` starts with (bytes 1..). No session state of the merged run, and none of `A`'s run either, is mentioned. -/
structure SeparatedByContent (A B : List (QIn Keylog.Key)) : Prop where
  tuples : ∀ a ∈ A, ∀ b ∈ B, sameFlow a.p b.p = false
  long : ∀ b ∈ B, ∀ d v, b.h = .long d v → d ≠ [] → ∀ a ∈ A, ¬ TaughtBy mask H P info a d
  short : ∀ b ∈ B, b.h = .short → ∀ c, c ≠ [] → ∀ a ∈ A, TaughtBy mask H P info a c → ¬ c <+: b.p.payload.drop 1

/-- … implies the separation in terms of what `A`'s sessions hold (`everHolds_sources`: they hold nothing else) -/
theorem captureSeparated_of_content (o : Opts) {A B : List (QIn Keylog.Key)}
    (h : SeparatedByContent mask H P info A B) : CaptureSeparated (quicMachine mask H P info) o A B := by
  refine ⟨h.tuples, ?_, ?_⟩
  · intro b hb d v hd hne hev
    obtain ⟨a, ha, ht⟩ := everHolds_sources mask H P info o A d hev
    exact h.long b hb d v hd hne a ha ht
  · intro b hb hsh c hne hev
    obtain ⟨a, ha, ht⟩ := everHolds_sources mask H P info o A c hev
    exact h.short b hb hsh c hne a ha ht

/-- `export_demux` with the hypothesis on the content of the datagrams: connections named by `lab`, each separated by
    content from all the others -/
theorem export_demux_content (prior : Prior) (args : Args) (o : Opts) (ho : optsOf args = some o)
    (fk : Option (List Keylog.Key)) (C : List (Item Keylog.Key)) (lab : Pkt → Nat)
    (hsep : ∀ j, SeparatedByContent mask H P info
      (cls (fun x : QIn Keylog.Key => lab x.p) j (quicView o (fk.getD []) C))
      (rest (fun x : QIn Keylog.Key => lab x.p) j (quicView o (fk.getD []) C))) :
    framesFrom mask H P prior args fk C info = .ok (
      ((flowHeads o (tcpView o C)).flatMap fun q => tlsFrames H P info o fk (only (sameFlow q) C)).flatten ++
      (quicFrames mask H P info o fk C).flatten) ∧
    ∀ k, Merge (quicFrames mask H P info o fk (only (fun p => lab p == k) C))
      (quicFrames mask H P info o fk (only (fun p => !(lab p == k)) C)) (quicFrames mask H P info o fk C) := by
  have := export_demux mask H P info prior args o ho fk C lab (fun j => captureSeparated_of_content mask H P info o (hsep j))
  exact ⟨this.1, this.2.1⟩
end Content

end TLX.Props.ExportDemux
