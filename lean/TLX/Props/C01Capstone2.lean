/-
C01 capstones, second part (same namespace `TLX.Props.C01Capstone`; nothing of `Props/C01Capstone.lean` is restated).

0. `tls12_connection_exact_of_release`, `tls13_connection_exact_of_release`: the capstones with the reassembly conclusion
   ("the records released for each direction are the transcript's records") as hypothesis instead of a delivery model.
1. Causality from the PACKET order. `FirstFlights info c recsA recsB`: `c.pkts = A ++ B ++ C`, `A` client packets only,
   delivering (in order: cuts, duplicates, any ISN) the whole records `recsA`; `B` server packets only, delivering whole
   records `recsB ≠ []`; `C` arbitrary — a flight's segments are captured, ending on a record boundary, before the next
   flight's first segment. `causal12_of_packet_order` (`recsA ≠ []`, no CCS in it), `causal13_of_packet_order`
   (`recsA = [ClientHello]`). `Ex2`: byte-level causality alone ("all ClientHello bytes before the first server
   segment") is NOT enough when the segment completing the ClientHello carries the start of the next record.
2. `tls12_connection_exact_displaced`, `tls13_connection_exact_displaced`: `DeliveredDisplaced` = per direction
   `Delivers k isn` (segments displaced by up to k positions) ∧ `Props.C05.NoEarlyDelivery`.
3. TLS 1.3 handshake messages fragmented across records (`Spec/TlsFragmented13`: `FEv.frag bytes fins`, `FragConform`).
   `tls13_connection_exact_statement` (def, full RFC 8446 §5.1 strength) is TRUE for the model as repaired (per-direction
   `handshake_13_buffer`): `tls13_connection_exact_fragmented`. `Lemmas/Capstone2.plan_of_conform` turns RFC
   conformance (Finished ends counted per record) into the per-record facts the loop needs; `hsBuf_invariant`: the
   buffer is exactly the unfinished tail of the direction's handshake stream. Before the repair
   (`Session.Legacy.hs13Loop`, characterised by `walk` / `legacy_hs13Loop_walk`): `Ex2.legacy_tls13_fragmented_counterexample`.
4. `tls12_connection_meta_exact`, `tls13_connection_meta_exact`: the export with `-a` (`metaStream12`, `metaStream13`).
Non-vacuity: `Ex2.*_instance` discharge every hypothesis for concrete connections.
-/
import TLX.Lemmas.Capstone2
set_option linter.unusedSimpArgs false
set_option linter.unusedVariables false
namespace TLX.Props.C01Capstone
open TLX TLX.Cipher TLX.RecordLayer TLX.Spec.TlsSender TLX.Props.C01 TLX.Lemmas.Pipeline TLX.Spec.TlsConnection
open TLX.Lemmas.Capstone TLX.Lemmas.Capstone2 TLX.Props.C01Pipeline TLX.Spec.TlsFraming TLX.Spec.TlsFragmented13

-- ====================================================================== the capstones from the release order alone
/-- `tls12_connection_exact` with the reassembly conclusion as hypothesis: whatever the delivery was, if the records
    released for each direction are the transcript's records of that direction (and causality holds), the export is
    exact. The in-order and the displaced capstones are instances. -/
theorem tls12_connection_exact_of_release (H : Crypto.Prims) (P : Prims) (L : SealLaws P) (kl : List Keylog.Key)
    (info : Nat → Pipeline.Info) (c : Pipeline.Conn) (hmeta : c.opts.metadata = false)
    -- the connection as sent
    (t : Transcript) (hch : t.ch.WellFormed) (hsh : t.sh.WellFormed) (hrc : t.rvC.length = 2) (hrs : t.rvS.length = 2)
    (hv : t.ver.length = 2) (hcomp : t.sh.compressionMethod = 0)
    (v : Session.Ver) (hvne : v ≠ .tls13) (hneg : Negotiated t.rvS t.sh v)
    -- suite table (C14), key log (C09), key schedule (C15), as in `genKeys_installs_rel_legacy`
    (ps : CipherSuite.Params) (hres : CipherSuite.resolve (Bytes.beNat t.sh.cipherSuite) = some ps)
    (a : Pipeline.SuiteArgs) (hargs : Pipeline.suiteArgs ps = some a)
    (f : Keylog.Key) (fs : List Keylog.Key)
    (hfound : (Keylog.findSessionSecrets kl (Pipeline.natsOfBytes t.ch.random)).filter
        (fun k => k.label == Keylog.s_CLIENT_RANDOM || k.label == Keylog.s_RSA) = f :: fs)
    (secrets : List KeySchedule.Secret) (hsec : Pipeline.secretsOf false (f :: fs) = some secrets)
    (k : KeySchedule.Keys6)
    (hgen : KeySchedule.generateKeys H (Pipeline.ksVersion v) a.ks secrets t.ch.random t.sh.random
      = .ok (some (.legacy k)))
    (cls : CipherClass)
    (hcls : classOf a.bulk (Pipeline.rlVersion v)
      (Session.extGet ((t.sh.extensions.getD []).map extPair) [0x00, 0x16]).isSome a.tagLen = some cls)
    (hmac : 0 < (KeySchedule.macSuite H a.ks.mac).outLen)
    (hck : KeyMatOk cls k.clientKey k.clientIv) (hsk : KeyMatOk cls k.serverKey k.serverIv)
    -- what follows the hellos
    (hsc : Script12 t.cEvs) (hss : Script12 t.sEvs)
    (hokc : ∀ e ∈ t.cEvs, EvOk1 cls (KeySchedule.macSuite H a.ks.mac).outLen e)
    (hoks : ∀ e ∈ t.sEvs, EvOk1 cls (KeySchedule.macSuite H a.ks.mac).outLen e)
    (hwr : ∀ d, ∀ r ∈ t.records P L cls (legacySnd k) d, WholeRecord r)
    (hlen : t.cEvs.length + t.sEvs.length ≤ seqLimit)
    -- the capture
    (hproj : ∀ d, ((connRecs info c).filter fun q => q.2 == d).map (·.1.raw) = t.records P L cls (legacySnd k) d)
    (hcausal : Causal12 (connRecs info c)) :
    ∃ frames, Pipeline.connOut H P info c kl = some (frames.map (Pipeline.addressed c.opts c)) ∧
      Spec.reassemble frames = some (Spec.TlsConnection.plainOf t.cEvs, Spec.TlsConnection.plainOf t.sEvs) ∧
      TimesFromCarriers info c frames := by
  apply export_of_dirPlain
  rw [hmeta]
  obtain ⟨cl, rest, hcE, hcl, hrest⟩ := hsc
  have hC := hproj false
  have hS := hproj true
  simp only [Transcript.records, Bool.false_eq_true, if_false, if_true, legacySnd] at hC hS
  rw [hcE] at hC
  obtain ⟨pre, post, hsplit, hne, hpre, hpost⟩ := hcausal
  obtain ⟨c0, noise, c1, M', cl2, hM, hnoise, hcl2, h5, hC', hS'⟩ :=
    hello_split P L cls t.ver _ _ _ _ cl rest t.sEvs _ pre post hC hS hsplit hne hpre hpost
  rw [hM]
  -- the two hellos
  have h0 : (Session.St.init : Session.St Dec).srvCC = false ∧ (Session.St.init : Session.St Dec).cliCC = false :=
    ⟨rfl, rfl⟩
  have hs1 := handle_clientHello (Pipeline.ops H P kl) Session.St.init h0 t.rvC hrc t.ch hch c0
  have hnoop : Session.run (Pipeline.ops H P kl) false (Session.handleRecord (Pipeline.ops H P kl) false Session.St.init ⟨t.chRecord, c0⟩ false) noise
      = Session.handleRecord (Pipeline.ops H P kl) false Session.St.init ⟨t.chRecord, c0⟩ false := by
    apply run_noops
    intro q hq
    obtain ⟨b, car, rfl, hb⟩ := hnoise q hq
    exact handle_clear_noop (Pipeline.ops H P kl) _ t.ver b hv car false (hcl b hb) (Or.inl (by rw [Transcript.chRecord, hs1]; rfl))
  obtain ⟨g1, _, g3⟩ := server_hello_installs H P kl false Session.St.init h0 t.ch hch t.sh hsh t.rvC t.rvS hrc hrs c0 c1 v hneg
  obtain ⟨dd, hinst, hR⟩ := genKeys_installs_rel_legacy H P L kl v hvne t.sh.cipherSuite t.ch.random t.sh.random
    ((t.sh.extensions.getD []).map extPair) hsh.2.2.2.1 ps hres a hargs f fs hfound secrets hsec k hgen cls hcls hmac hck hsk
  rw [hcomp, hinst] at g3
  simp only at g3
  have hrl : Pipeline.rlVersion v ≠ .tls13 := by cases v <;> simp_all [Pipeline.rlVersion]
  have h13 : cls.is13 = false := by
    rw [(classOf_spec _ _ _ _ cls hcls).2.2.2]; simpa using hrl
  -- flags and traffic after the hellos
  have ht1 : (⟨t.chRecord, c0⟩ : Session.Rec).typ = some 0x16 := record_typ 22 _ _ _
  have ht2 : (⟨t.shRecord, c1⟩ : Session.Rec).typ = some 0x16 := record_typ 22 _ _ _
  have hf1 := handle_hs_flags (Pipeline.ops H P kl) Session.St.init ⟨t.chRecord, c0⟩ false ht1 h0
  have hf2 := handle_hs_flags (Pipeline.ops H P kl) _ ⟨t.shRecord, c1⟩ true ht2 hf1
  have htr1 := Props.C13.hello_records_silent (Pipeline.ops H P kl) Session.St.init ⟨t.chRecord, c0⟩ false ht1
  have htr2 := Props.C13.hello_records_silent (Pipeline.ops H P kl) (Session.handleRecord (Pipeline.ops H P kl) false Session.St.init ⟨t.chRecord, c0⟩ false)
    ⟨t.shRecord, c1⟩ true ht2
  have hready : Ready cls (KeySchedule.macSuite H a.ks.mac).outLen (legacySnd k)
      (Session.handleRecord (Pipeline.ops H P kl) false (Session.handleRecord (Pipeline.ops H P kl) false Session.St.init ⟨t.chRecord, c0⟩ false)
        ⟨t.shRecord, c1⟩ true) :=
    ⟨⟨g3.1, ⟨v, g1, ⟨fun h => absurd h hvne, fun h => by rw [h13] at h; cases h⟩⟩, dd, g3.2, hR⟩,
      hello_pair_bufs _ false Session.St.init h0 t.rvC t.rvS hrc hrs t.ch hch t.sh c0 c1⟩
  -- everything after the ServerHello: any interleaving
  have hrun : Session.run (Pipeline.ops H P kl) false Session.St.init
      ((⟨t.chRecord, c0⟩, false) :: (noise ++ (⟨t.shRecord, c1⟩, true) :: M'))
      = Session.run (Pipeline.ops H P kl) false (Session.handleRecord (Pipeline.ops H P kl) false
          (Session.handleRecord (Pipeline.ops H P kl) false Session.St.init ⟨t.chRecord, c0⟩ false) ⟨t.shRecord, c1⟩ true) M' := by
    have : Session.run (Pipeline.ops H P kl) false Session.St.init ((⟨t.chRecord, c0⟩, false) :: (noise ++ (⟨t.shRecord, c1⟩, true) :: M'))
        = Session.run (Pipeline.ops H P kl) false (Session.run (Pipeline.ops H P kl) false (Session.handleRecord (Pipeline.ops H P kl) false Session.St.init ⟨t.chRecord, c0⟩ false) noise)
            ((⟨t.shRecord, c1⟩, true) :: M') := by
      simp only [Session.run, List.foldl_cons, List.foldl_append]
    rw [this, hnoop]
    rfl
  rw [hrun]
  have hmerge := run_merge12 H P L kl cls h13 _ t.ver hv M' (legacySnd k) _
    (fun d => if d then t.sEvs else cl2.map DirEv.clear ++ DirEv.ccs :: rest) hready
    (by
      intro d
      cases d
      · exact Or.inl ⟨by simp [ccOf, hf2.2], cl2, rest, rfl, fun b hb => hcl b (hcl2 b hb), hrest⟩
      · exact Or.inl ⟨by simp [ccOf, hf2.1], hss⟩)
    (by
      intro d e he
      cases d
      · simp only [Bool.false_eq_true, if_false, List.mem_append, List.mem_map, List.mem_cons] at he
        rcases he with ⟨b, _, rfl⟩ | rfl | he
        · trivial
        · trivial
        · exact hokc e (by rw [hcE]; simp [he])
      · exact hoks e he)
    (by
      intro d
      cases d
      · exact hC'
      · exact hS')
    (by
      have h1 := length_by_dir M'
      have h2 := congrArg List.length hC'
      have h3 := congrArg List.length hS'
      simp only [List.length_map, sendDir_length, List.length_append, List.length_cons] at h2 h3
      have h4 := congrArg List.length hcE
      simp only [List.length_map, List.length_append, List.length_cons] at h4
      simp only [legacySnd, SDir.init]
      omega)
  intro d
  rw [hmerge d, htr2, htr1]
  cases d
  · simp only [Bool.false_eq_true, if_false, plainOf_clear_prefix, hcE]; rfl
  · rfl


/-- `tls13_connection_exact` from the release order alone -/
theorem tls13_connection_exact_of_release (H : Crypto.Prims) (P : Prims) (L : SealLaws P) (kl : List Keylog.Key)
    (info : Nat → Pipeline.Info) (c : Pipeline.Conn) (hmeta : c.opts.metadata = false)
    -- the connection as sent
    (t : Transcript) (hch : t.ch.WellFormed) (hsh : t.sh.WellFormed) (hrc : t.rvC.length = 2) (hrs : t.rvS.length = 2)
    (hv : t.ver.length = 2) (hcomp : t.sh.compressionMethod = 0) (hneg : Negotiated t.rvS t.sh .tls13)
    -- suite table (C14), key log (C09), key schedule (C15), as in `genKeys_installs_rel_13`
    (ps : CipherSuite.Params) (hres : CipherSuite.resolve (Bytes.beNat t.sh.cipherSuite) = some ps)
    (a : Pipeline.SuiteArgs) (hargs : Pipeline.suiteArgs ps = some a)
    (f : Keylog.Key) (fs : List Keylog.Key)
    (hfound : Keylog.findSessionSecrets kl (Pipeline.natsOfBytes t.ch.random) = f :: fs)
    (secrets : List KeySchedule.Secret) (hsec : Pipeline.secretsOf true (f :: fs) = some secrets)
    (k : KeySchedule.Installed13)
    (hgen : KeySchedule.generateKeys H .tls13 a.ks secrets t.ch.random t.sh.random = .ok (some (.tls13 k)))
    (chk chiv cak caiv shk shiv sak saiv : Bytes)
    (hk : k.clientHsKey = some chk ∧ k.clientHsIv = some chiv ∧ k.clientAppKey = some cak ∧ k.clientAppIv = some caiv ∧
      k.serverHsKey = some shk ∧ k.serverHsIv = some shiv ∧ k.serverAppKey = some sak ∧ k.serverAppIv = some saiv)
    (cls : CipherClass)
    (hcls : classOf a.bulk .tls13
      (Session.extGet ((t.sh.extensions.getD []).map extPair) [0x00, 0x16]).isSome a.tagLen = some cls)
    (h1 : KeyMatOk cls chk chiv) (h2 : KeyMatOk cls cak caiv) (h3 : KeyMatOk cls shk shiv) (h4 : KeyMatOk cls sak saiv)
    -- what follows the hellos
    (hsc : Script13 t.cEvs) (hss : Script13 t.sEvs)
    (hokc : ∀ e ∈ t.cEvs, EvOk1 cls (KeySchedule.macSuite H a.ks.mac).outLen e)
    (hoks : ∀ e ∈ t.sEvs, EvOk1 cls (KeySchedule.macSuite H a.ks.mac).outLen e)
    (hwr : ∀ d, ∀ r ∈ t.records P L cls ⟨SDir.init chk chiv cak caiv, SDir.init shk shiv sak saiv⟩ d, WholeRecord r)
    (hlen : budget13 t ≤ seqLimit)
    -- the capture
    (hproj : ∀ d, ((connRecs info c).filter fun q => q.2 == d).map (·.1.raw) = t.records P L cls ⟨SDir.init chk chiv cak caiv, SDir.init shk shiv sak saiv⟩ d)
    (hcausal : Causal13 (connRecs info c)) :
    ∃ frames, Pipeline.connOut H P info c kl = some (frames.map (Pipeline.addressed c.opts c)) ∧
      Spec.reassemble frames = some (Spec.TlsConnection.plainOf t.cEvs, Spec.TlsConnection.plainOf t.sEvs) ∧
      TimesFromCarriers info c frames := by
  apply export_of_dirPlain
  rw [hmeta]
  have hC := hproj false
  have hS := hproj true
  simp only [Transcript.records, Bool.false_eq_true, if_false, if_true] at hC hS
  obtain ⟨⟨r0, d0⟩, ⟨r1, d1⟩, M', hM, hd0, hd1⟩ := hcausal
  simp only at hd0 hd1
  subst hd0 hd1
  rw [hM] at hC hS ⊢
  rw [filter_dir_cons_same, filter_dir_cons_other _ _ _ _ (by decide), List.map_cons] at hC
  rw [filter_dir_cons_other _ _ _ _ (by decide), filter_dir_cons_same, List.map_cons] at hS
  simp only [List.cons.injEq] at hC hS
  obtain ⟨hc1, hC'⟩ := hC
  obtain ⟨hs1, hS'⟩ := hS
  have hr0 : r0 = ⟨t.chRecord, r0.carriers⟩ := by have h : r0.raw = t.chRecord := hc1; rw [← h]
  have hr1 : r1 = ⟨t.shRecord, r1.carriers⟩ := by have h : r1.raw = t.shRecord := hs1; rw [← h]
  have h0 : (Session.St.init : Session.St Dec).srvCC = false ∧ (Session.St.init : Session.St Dec).cliCC = false :=
    ⟨rfl, rfl⟩
  obtain ⟨g1, _, g3⟩ := server_hello_installs H P kl false Session.St.init h0 t.ch hch t.sh hsh t.rvC t.rvS hrc hrs
    r0.carriers r1.carriers .tls13 hneg
  obtain ⟨dd, hinst, hR⟩ := genKeys_installs_rel_13 H P kl t.sh.cipherSuite t.ch.random t.sh.random
    ((t.sh.extensions.getD []).map extPair) hsh.2.2.2.1 ps hres a hargs f fs hfound secrets hsec k hgen
    chk chiv cak caiv shk shiv sak saiv hk cls hcls h1 h2 h3 h4
  rw [hcomp, hinst] at g3
  simp only at g3
  have h13 : cls.is13 = true := by rw [(classOf_spec _ _ _ _ cls hcls).2.2.2]; rfl
  have ht1 : (⟨t.chRecord, r0.carriers⟩ : Session.Rec).typ = some 0x16 := record_typ 22 _ _ _
  have ht2 : (⟨t.shRecord, r1.carriers⟩ : Session.Rec).typ = some 0x16 := record_typ 22 _ _ _
  have htr1 := Props.C13.hello_records_silent (Pipeline.ops H P kl) Session.St.init ⟨t.chRecord, r0.carriers⟩ false ht1
  have htr2 := Props.C13.hello_records_silent (Pipeline.ops H P kl)
    (Session.handleRecord (Pipeline.ops H P kl) false Session.St.init ⟨t.chRecord, r0.carriers⟩ false)
    ⟨t.shRecord, r1.carriers⟩ true ht2
  have hready : Ready cls (KeySchedule.macSuite H a.ks.mac).outLen
      ⟨SDir.init chk chiv cak caiv, SDir.init shk shiv sak saiv⟩
      (Session.handleRecord (Pipeline.ops H P kl) false
        (Session.handleRecord (Pipeline.ops H P kl) false Session.St.init ⟨t.chRecord, r0.carriers⟩ false)
        ⟨t.shRecord, r1.carriers⟩ true) :=
    ⟨⟨g3.1, ⟨.tls13, g1, ⟨fun _ => h13, fun _ => rfl⟩⟩, dd, g3.2, hR⟩,
      hello_pair_bufs _ false Session.St.init h0 t.rvC t.rvS hrc hrs t.ch hch t.sh r0.carriers r1.carriers⟩
  rw [hr0, hr1]
  have hmerge := run_merge13 H P L kl cls h13 _ t.ver hv M'
    ⟨SDir.init chk chiv cak caiv, SDir.init shk shiv sak saiv⟩ _
    (fun d => if d then t.sEvs else t.cEvs) hready
    (by intro d; cases d; exact hsc; exact hss)
    (by intro d e he; cases d; exact hokc e he; exact hoks e he)
    (by intro d; cases d; exact hC'; exact hS')
    (by simp only [SDir.init, budget13] at hlen ⊢; simpa using hlen)
  intro d
  simp only [Session.run, List.foldl_cons] at hmerge ⊢
  rw [hmerge d, htr2, htr1]
  cases d <;> rfl


-- ====================================================================== 2. displaced segments
/-- each direction's segments are a delivery of its stream with any cuts, exact duplicates, any initial sequence number
    AND segments displaced by up to `k` positions, under the hypothesis of `Props.C05.reassembly_exact_partial`: nothing
    is handed on before the segment that starts the stream has been captured (`NoEarlyDelivery`) -/
def DeliveredDisplaced (info : Nat → Pipeline.Info) (c : Pipeline.Conn) (streams : Bool → Bytes) : Prop :=
  ∀ d, (∃ k isn, Delivers k isn (streams d) ((dirSegs info c.server d c.pkts).map Props.C05.wire) ∧
      Props.C05.NoEarlyDelivery isn (dirSegs info c.server d c.pkts)) ∧
    (streams d).length ≤ 2 ^ 31

theorem released_displaced (info : Nat → Pipeline.Info) (c : Pipeline.Conn) (recs : Bool → List Bytes)
    (hwr : ∀ d, ∀ r ∈ recs d, WholeRecord r) (hdel : DeliveredDisplaced info c (fun d => (recs d).flatten)) :
    ∀ d, ((connRecs info c).filter fun q => q.2 == d).map (·.1.raw) = recs d := by
  intro d
  obtain ⟨⟨k, isn, hd, hearly⟩, hl⟩ := hdel d
  exact released_dir_records_displaced info c.server c.pkts d k isn _ (hwr d) hd hl hearly

/-- C01 for a whole SSL 3.0 – TLS 1.2 connection whose segments may be displaced within each direction -/
theorem tls12_connection_exact_displaced (H : Crypto.Prims) (P : Prims) (L : SealLaws P) (kl : List Keylog.Key)
    (info : Nat → Pipeline.Info) (c : Pipeline.Conn) (hmeta : c.opts.metadata = false)
    -- the connection as sent
    (t : Transcript) (hch : t.ch.WellFormed) (hsh : t.sh.WellFormed) (hrc : t.rvC.length = 2) (hrs : t.rvS.length = 2)
    (hv : t.ver.length = 2) (hcomp : t.sh.compressionMethod = 0)
    (v : Session.Ver) (hvne : v ≠ .tls13) (hneg : Negotiated t.rvS t.sh v)
    -- suite table (C14), key log (C09), key schedule (C15), as in `genKeys_installs_rel_legacy`
    (ps : CipherSuite.Params) (hres : CipherSuite.resolve (Bytes.beNat t.sh.cipherSuite) = some ps)
    (a : Pipeline.SuiteArgs) (hargs : Pipeline.suiteArgs ps = some a)
    (f : Keylog.Key) (fs : List Keylog.Key)
    (hfound : (Keylog.findSessionSecrets kl (Pipeline.natsOfBytes t.ch.random)).filter
        (fun k => k.label == Keylog.s_CLIENT_RANDOM || k.label == Keylog.s_RSA) = f :: fs)
    (secrets : List KeySchedule.Secret) (hsec : Pipeline.secretsOf false (f :: fs) = some secrets)
    (k : KeySchedule.Keys6)
    (hgen : KeySchedule.generateKeys H (Pipeline.ksVersion v) a.ks secrets t.ch.random t.sh.random
      = .ok (some (.legacy k)))
    (cls : CipherClass)
    (hcls : classOf a.bulk (Pipeline.rlVersion v)
      (Session.extGet ((t.sh.extensions.getD []).map extPair) [0x00, 0x16]).isSome a.tagLen = some cls)
    (hmac : 0 < (KeySchedule.macSuite H a.ks.mac).outLen)
    (hck : KeyMatOk cls k.clientKey k.clientIv) (hsk : KeyMatOk cls k.serverKey k.serverIv)
    -- what follows the hellos
    (hsc : Script12 t.cEvs) (hss : Script12 t.sEvs)
    (hokc : ∀ e ∈ t.cEvs, EvOk1 cls (KeySchedule.macSuite H a.ks.mac).outLen e)
    (hoks : ∀ e ∈ t.sEvs, EvOk1 cls (KeySchedule.macSuite H a.ks.mac).outLen e)
    (hwr : ∀ d, ∀ r ∈ t.records P L cls (legacySnd k) d, WholeRecord r)
    (hlen : t.cEvs.length + t.sEvs.length ≤ seqLimit)
    -- the capture
    (hdel : DeliveredDisplaced info c (t.stream P L cls (legacySnd k)))
    (hcausal : Causal12 (connRecs info c)) :
    ∃ frames, Pipeline.connOut H P info c kl = some (frames.map (Pipeline.addressed c.opts c)) ∧
      Spec.reassemble frames = some (Spec.TlsConnection.plainOf t.cEvs, Spec.TlsConnection.plainOf t.sEvs) ∧
      TimesFromCarriers info c frames := by
  exact tls12_connection_exact_of_release H P L kl info c hmeta t hch hsh hrc hrs hv hcomp v hvne hneg ps hres a hargs f fs
    hfound secrets hsec k hgen cls hcls hmac hck hsk hsc hss hokc hoks hwr hlen (released_displaced info c _ hwr hdel) hcausal

/-- C01 for a whole TLS 1.3 connection whose segments may be displaced within each direction -/
theorem tls13_connection_exact_displaced (H : Crypto.Prims) (P : Prims) (L : SealLaws P) (kl : List Keylog.Key)
    (info : Nat → Pipeline.Info) (c : Pipeline.Conn) (hmeta : c.opts.metadata = false)
    -- the connection as sent
    (t : Transcript) (hch : t.ch.WellFormed) (hsh : t.sh.WellFormed) (hrc : t.rvC.length = 2) (hrs : t.rvS.length = 2)
    (hv : t.ver.length = 2) (hcomp : t.sh.compressionMethod = 0) (hneg : Negotiated t.rvS t.sh .tls13)
    -- suite table (C14), key log (C09), key schedule (C15), as in `genKeys_installs_rel_13`
    (ps : CipherSuite.Params) (hres : CipherSuite.resolve (Bytes.beNat t.sh.cipherSuite) = some ps)
    (a : Pipeline.SuiteArgs) (hargs : Pipeline.suiteArgs ps = some a)
    (f : Keylog.Key) (fs : List Keylog.Key)
    (hfound : Keylog.findSessionSecrets kl (Pipeline.natsOfBytes t.ch.random) = f :: fs)
    (secrets : List KeySchedule.Secret) (hsec : Pipeline.secretsOf true (f :: fs) = some secrets)
    (k : KeySchedule.Installed13)
    (hgen : KeySchedule.generateKeys H .tls13 a.ks secrets t.ch.random t.sh.random = .ok (some (.tls13 k)))
    (chk chiv cak caiv shk shiv sak saiv : Bytes)
    (hk : k.clientHsKey = some chk ∧ k.clientHsIv = some chiv ∧ k.clientAppKey = some cak ∧ k.clientAppIv = some caiv ∧
      k.serverHsKey = some shk ∧ k.serverHsIv = some shiv ∧ k.serverAppKey = some sak ∧ k.serverAppIv = some saiv)
    (cls : CipherClass)
    (hcls : classOf a.bulk .tls13
      (Session.extGet ((t.sh.extensions.getD []).map extPair) [0x00, 0x16]).isSome a.tagLen = some cls)
    (h1 : KeyMatOk cls chk chiv) (h2 : KeyMatOk cls cak caiv) (h3 : KeyMatOk cls shk shiv) (h4 : KeyMatOk cls sak saiv)
    -- what follows the hellos
    (hsc : Script13 t.cEvs) (hss : Script13 t.sEvs)
    (hokc : ∀ e ∈ t.cEvs, EvOk1 cls (KeySchedule.macSuite H a.ks.mac).outLen e)
    (hoks : ∀ e ∈ t.sEvs, EvOk1 cls (KeySchedule.macSuite H a.ks.mac).outLen e)
    (hwr : ∀ d, ∀ r ∈ t.records P L cls ⟨SDir.init chk chiv cak caiv, SDir.init shk shiv sak saiv⟩ d, WholeRecord r)
    (hlen : budget13 t ≤ seqLimit)
    -- the capture
    (hdel : DeliveredDisplaced info c (t.stream P L cls ⟨SDir.init chk chiv cak caiv, SDir.init shk shiv sak saiv⟩))
    (hcausal : Causal13 (connRecs info c)) :
    ∃ frames, Pipeline.connOut H P info c kl = some (frames.map (Pipeline.addressed c.opts c)) ∧
      Spec.reassemble frames = some (Spec.TlsConnection.plainOf t.cEvs, Spec.TlsConnection.plainOf t.sEvs) ∧
      TimesFromCarriers info c frames := by
  exact tls13_connection_exact_of_release H P L kl info c hmeta t hch hsh hrc hrs hv hcomp hneg ps hres a hargs f fs hfound
    secrets hsec k hgen chk chiv cak caiv shk shiv sak saiv hk cls hcls h1 h2 h3 h4 hsc hss hokc hoks hwr hlen
    (released_displaced info c _ hwr hdel) hcausal

-- ====================================================================== 1. causality from the packet order
/-- Flights alternate, stated on the CAPTURE ORDER of packets: the connection's packets are `A ++ B ++ C` where
    `A` (the client's first flight) holds client packets only and delivers — in order, any cuts, exact duplicates, any
    ISN — whole records `recsA`; `B` (the server's first flight) holds server packets only and delivers whole records
    `recsB`, at least one; `C` is arbitrary. I.e. a flight's segments are all captured, ending on a record boundary,
    before the first segment of the next flight. -/
structure FirstFlights (info : Nat → Pipeline.Info) (c : Pipeline.Conn) (recsA recsB : List Bytes) : Prop where
  split : ∃ A B C, c.pkts = A ++ B ++ C ∧ (∀ p ∈ A, (p.src == c.server) = false) ∧ (∀ p ∈ B, (p.src == c.server) = true) ∧
    (∃ isn, InOrder isn recsA.flatten ((dirSegs info c.server false A).map Props.C05.wire)) ∧
    (∃ isn, InOrder isn recsB.flatten ((dirSegs info c.server true B).map Props.C05.wire))
  wholeA : ∀ r ∈ recsA, WholeRecord r
  wholeB : ∀ r ∈ recsB, WholeRecord r
  lenA : recsA.flatten.length ≤ 2 ^ 31
  lenB : recsB.flatten.length ≤ 2 ^ 31
  neB : recsB ≠ []

theorem firstFlights_release (info : Nat → Pipeline.Info) (c : Pipeline.Conn) (recsA recsB : List Bytes)
    (h : FirstFlights info c recsA recsB) :
    ∃ relA relB relC, connRecs info c = relA ++ relB ++ relC ∧ relA.map (·.1.raw) = recsA ∧ (∀ q ∈ relA, q.2 = false) ∧
      relB.map (·.1.raw) = recsB ∧ (∀ q ∈ relB, q.2 = true) := by
  obtain ⟨A, B, C, hp, hA, hB, ⟨isnA, hdA⟩, ⟨isnB, hdB⟩⟩ := h.split
  obtain ⟨a1, a2⟩ := released_block info c.server (Reassembly.St.init, Reassembly.St.init) A false rfl hA isnA recsA
    h.wholeA hdA h.lenA
  have hR := reasmFinal_other info c.server (Reassembly.St.init, Reassembly.St.init) A true (by simpa using hA)
  obtain ⟨b1, b2⟩ := released_block info c.server (reasmFinal info c.server (Reassembly.St.init, Reassembly.St.init) A) B true
    (by simpa using hR) hB isnB recsB h.wholeB hdB h.lenB
  refine ⟨_, _, released info c.server (reasmFinal info c.server (Reassembly.St.init, Reassembly.St.init) (A ++ B)) C,
    ?_, a1, a2, b1, b2⟩
  unfold connRecs
  rw [hp, released_append, released_append]

/-- 1. TLS ≤ 1.2: if flights alternate in the capture order and the client's first flight contains at least one record
    (the ClientHello) and no ChangeCipherSpec, the release-order hypothesis `Causal12` of `tls12_connection_exact`
    holds. -/
theorem causal12_of_packet_order (info : Nat → Pipeline.Info) (c : Pipeline.Conn) (recsA recsB : List Bytes)
    (h : FirstFlights info c recsA recsB) (hneA : recsA ≠ []) (hccs : ∀ r ∈ recsA, r.head? ≠ some 20) :
    Causal12 (connRecs info c) := by
  obtain ⟨relA, relB, relC, hM, a1, a2, b1, b2⟩ := firstFlights_release info c recsA recsB h
  refine ⟨relA, relB ++ relC, by rw [hM, List.append_assoc], ?_, ?_, ?_⟩
  · intro hnil; rw [hnil] at a1; exact hneA a1.symm
  · intro q hq
    refine ⟨a2 q hq, ?_⟩
    have : q.1.raw ∈ recsA := by rw [← a1]; exact List.mem_map_of_mem (f := fun q => q.1.raw) hq
    exact hccs _ this
  · cases relB with
    | nil => rw [List.map_nil] at b1; exact absurd b1.symm h.neB
    | cons q rest => exact ⟨q, rest ++ relC, rfl, b2 q (by simp)⟩

/-- 1. TLS 1.3: if flights alternate and the client's first flight is exactly one record (the ClientHello; no early
    data), `Causal13` holds. -/
theorem causal13_of_packet_order (info : Nat → Pipeline.Info) (c : Pipeline.Conn) (chRec : Bytes) (recsB : List Bytes)
    (h : FirstFlights info c [chRec] recsB) : Causal13 (connRecs info c) := by
  obtain ⟨relA, relB, relC, hM, a1, a2, b1, b2⟩ := firstFlights_release info c [chRec] recsB h
  cases relA with
  | nil => simp at a1
  | cons q0 ra =>
    cases ra with
    | cons _ _ => simp at a1
    | nil =>
      cases relB with
      | nil => rw [List.map_nil] at b1; exact absurd b1.symm h.neB
      | cons q1 rest =>
        exact ⟨q0, q1, rest ++ relC, by rw [hM]; rfl, a2 q0 (by simp), b2 q1 (by simp)⟩

-- ====================================================================== 3. TLS 1.3 with fragmented handshake messages
set_option linter.unusedVariables false in
/-- `tls13_connection_exact` at full RFC 8446 §5.1 strength: the endpoints may cut their handshake message streams into
    records anywhere (`Spec/TlsFragmented13`: `FragConform`). FALSE for the tool: `Ex2.tls13_fragmented_counterexample`. -/
def tls13_connection_exact_statement : Prop := ∀ (H : Crypto.Prims) (P : Prims) (L : SealLaws P) (kl : List Keylog.Key)
    (info : Nat → Pipeline.Info) (c : Pipeline.Conn) (hmeta : c.opts.metadata = false)
    -- the connection as sent
    (t : TranscriptF) (hch : t.ch.WellFormed) (hsh : t.sh.WellFormed) (hrc : t.rvC.length = 2) (hrs : t.rvS.length = 2)
    (hv : t.ver.length = 2) (hcomp : t.sh.compressionMethod = 0) (hneg : Negotiated t.rvS t.sh .tls13)
    -- suite table (C14), key log (C09), key schedule (C15), as in `genKeys_installs_rel_13`
    (ps : CipherSuite.Params) (hres : CipherSuite.resolve (Bytes.beNat t.sh.cipherSuite) = some ps)
    (a : Pipeline.SuiteArgs) (hargs : Pipeline.suiteArgs ps = some a)
    (f : Keylog.Key) (fs : List Keylog.Key)
    (hfound : Keylog.findSessionSecrets kl (Pipeline.natsOfBytes t.ch.random) = f :: fs)
    (secrets : List KeySchedule.Secret) (hsec : Pipeline.secretsOf true (f :: fs) = some secrets)
    (k : KeySchedule.Installed13)
    (hgen : KeySchedule.generateKeys H .tls13 a.ks secrets t.ch.random t.sh.random = .ok (some (.tls13 k)))
    (chk chiv cak caiv shk shiv sak saiv : Bytes)
    (hk : k.clientHsKey = some chk ∧ k.clientHsIv = some chiv ∧ k.clientAppKey = some cak ∧ k.clientAppIv = some caiv ∧
      k.serverHsKey = some shk ∧ k.serverHsIv = some shiv ∧ k.serverAppKey = some sak ∧ k.serverAppIv = some saiv)
    (cls : CipherClass)
    (hcls : classOf a.bulk .tls13
      (Session.extGet ((t.sh.extensions.getD []).map extPair) [0x00, 0x16]).isSome a.tagLen = some cls)
    (h1 : KeyMatOk cls chk chiv) (h2 : KeyMatOk cls cak caiv) (h3 : KeyMatOk cls shk shiv) (h4 : KeyMatOk cls sak saiv)
    -- what follows the hellos
    (hfc : FragConform t.cF) (hfs : FragConform t.sF)
    (hwr : ∀ d, ∀ r ∈ t.records P L cls ⟨SDir.init chk chiv cak caiv, SDir.init shk shiv sak saiv⟩ d, WholeRecord r)
    (hlen : costF t.cF + costF t.sF ≤ seqLimit)
    -- the capture
    (hdel : DeliveredInOrder info c (t.stream P L cls ⟨SDir.init chk chiv cak caiv, SDir.init shk shiv sak saiv⟩))
    (hcausal : Causal13 (connRecs info c)),
    ∃ frames, Pipeline.connOut H P info c kl = some (frames.map (Pipeline.addressed c.opts c)) ∧
      Spec.reassemble frames = some (plainOfF t.cF, plainOfF t.sF) ∧
      TimesFromCarriers info c frames 
set_option linter.unusedVariables false in
/-- 3. THE POINT OF THE REPAIR: with the per-direction handshake buffer the full-strength statement holds — handshake
    messages may be fragmented ANYWHERE across protected records (RFC 8446 §5.1), coalesced, interleaved with the other
    direction; no lockstep hypothesis. (Before the repair: `Ex2.legacy_tls13_fragmented_counterexample`.) -/
theorem tls13_connection_exact_fragmented_aux (H : Crypto.Prims) (P : Prims) (L : SealLaws P) (kl : List Keylog.Key)
    (info : Nat → Pipeline.Info) (c : Pipeline.Conn) (hmeta : c.opts.metadata = false)
    -- the connection as sent
    (t : TranscriptF) (hch : t.ch.WellFormed) (hsh : t.sh.WellFormed) (hrc : t.rvC.length = 2) (hrs : t.rvS.length = 2)
    (hv : t.ver.length = 2) (hcomp : t.sh.compressionMethod = 0) (hneg : Negotiated t.rvS t.sh .tls13)
    -- suite table (C14), key log (C09), key schedule (C15), as in `genKeys_installs_rel_13`
    (ps : CipherSuite.Params) (hres : CipherSuite.resolve (Bytes.beNat t.sh.cipherSuite) = some ps)
    (a : Pipeline.SuiteArgs) (hargs : Pipeline.suiteArgs ps = some a)
    (f : Keylog.Key) (fs : List Keylog.Key)
    (hfound : Keylog.findSessionSecrets kl (Pipeline.natsOfBytes t.ch.random) = f :: fs)
    (secrets : List KeySchedule.Secret) (hsec : Pipeline.secretsOf true (f :: fs) = some secrets)
    (k : KeySchedule.Installed13)
    (hgen : KeySchedule.generateKeys H .tls13 a.ks secrets t.ch.random t.sh.random = .ok (some (.tls13 k)))
    (chk chiv cak caiv shk shiv sak saiv : Bytes)
    (hk : k.clientHsKey = some chk ∧ k.clientHsIv = some chiv ∧ k.clientAppKey = some cak ∧ k.clientAppIv = some caiv ∧
      k.serverHsKey = some shk ∧ k.serverHsIv = some shiv ∧ k.serverAppKey = some sak ∧ k.serverAppIv = some saiv)
    (cls : CipherClass)
    (hcls : classOf a.bulk .tls13
      (Session.extGet ((t.sh.extensions.getD []).map extPair) [0x00, 0x16]).isSome a.tagLen = some cls)
    (h1 : KeyMatOk cls chk chiv) (h2 : KeyMatOk cls cak caiv) (h3 : KeyMatOk cls shk shiv) (h4 : KeyMatOk cls sak saiv)
    -- what follows the hellos
    (hfc : FragConform t.cF) (hfs : FragConform t.sF)
    (hwr : ∀ d, ∀ r ∈ t.records P L cls ⟨SDir.init chk chiv cak caiv, SDir.init shk shiv sak saiv⟩ d, WholeRecord r)
    (hlen : costF t.cF + costF t.sF ≤ seqLimit)
    -- the capture
    (hdel : DeliveredInOrder info c (t.stream P L cls ⟨SDir.init chk chiv cak caiv, SDir.init shk shiv sak saiv⟩))
    (hcausal : Causal13 (connRecs info c)) :
    ∃ frames, Pipeline.connOut H P info c kl = some (frames.map (Pipeline.addressed c.opts c)) ∧
      Spec.reassemble frames = some (plainOfF t.cF, plainOfF t.sF) ∧
      TimesFromCarriers info c frames := by
  apply export_of_dirPlain
  rw [hmeta]
  have hproj : ∀ d, ((connRecs info c).filter fun q => q.2 == d).map (·.1.raw)
      = t.records P L cls ⟨SDir.init chk chiv cak caiv, SDir.init shk shiv sak saiv⟩ d := by
    intro d
    obtain ⟨⟨isn, hio⟩, hl⟩ := hdel d
    exact released_dir_records info c.server c.pkts d isn _ (hwr d) hio hl
  have hC := hproj false
  have hS := hproj true
  simp only [TranscriptF.records, Bool.false_eq_true, if_false, if_true] at hC hS
  obtain ⟨⟨r0, d0⟩, ⟨r1, d1⟩, M', hM, hd0, hd1⟩ := hcausal
  simp only at hd0 hd1
  subst hd0 hd1
  rw [hM] at hC hS ⊢
  rw [filter_dir_cons_same, filter_dir_cons_other _ _ _ _ (by decide), List.map_cons] at hC
  rw [filter_dir_cons_other _ _ _ _ (by decide), filter_dir_cons_same, List.map_cons] at hS
  simp only [List.cons.injEq] at hC hS
  obtain ⟨hc1, hC'⟩ := hC
  obtain ⟨hs1, hS'⟩ := hS
  have hr0 : r0 = ⟨t.chRecord, r0.carriers⟩ := by have h : r0.raw = t.chRecord := hc1; rw [← h]
  have hr1 : r1 = ⟨t.shRecord, r1.carriers⟩ := by have h : r1.raw = t.shRecord := hs1; rw [← h]
  have h0 : (Session.St.init : Session.St Dec).srvCC = false ∧ (Session.St.init : Session.St Dec).cliCC = false :=
    ⟨rfl, rfl⟩
  obtain ⟨g1, _, g3⟩ := server_hello_installs H P kl false Session.St.init h0 t.ch hch t.sh hsh t.rvC t.rvS hrc hrs
    r0.carriers r1.carriers .tls13 hneg
  obtain ⟨dd, hinst, hR⟩ := genKeys_installs_rel_13 H P kl t.sh.cipherSuite t.ch.random t.sh.random
    ((t.sh.extensions.getD []).map extPair) hsh.2.2.2.1 ps hres a hargs f fs hfound secrets hsec k hgen
    chk chiv cak caiv shk shiv sak saiv hk cls hcls h1 h2 h3 h4
  rw [hcomp, hinst] at g3
  simp only at g3
  have h13 : cls.is13 = true := by rw [(classOf_spec _ _ _ _ cls hcls).2.2.2]; rfl
  have ht1 : (⟨t.chRecord, r0.carriers⟩ : Session.Rec).typ = some 0x16 := record_typ 22 _ _ _
  have ht2 : (⟨t.shRecord, r1.carriers⟩ : Session.Rec).typ = some 0x16 := record_typ 22 _ _ _
  have htr1 := Props.C13.hello_records_silent (Pipeline.ops H P kl) Session.St.init ⟨t.chRecord, r0.carriers⟩ false ht1
  have htr2 := Props.C13.hello_records_silent (Pipeline.ops H P kl)
    (Session.handleRecord (Pipeline.ops H P kl) false Session.St.init ⟨t.chRecord, r0.carriers⟩ false)
    ⟨t.shRecord, r1.carriers⟩ true ht2
  have hready : Ready cls (KeySchedule.macSuite H a.ks.mac).outLen
      ⟨SDir.init chk chiv cak caiv, SDir.init shk shiv sak saiv⟩
      (Session.handleRecord (Pipeline.ops H P kl) false
        (Session.handleRecord (Pipeline.ops H P kl) false Session.St.init ⟨t.chRecord, r0.carriers⟩ false)
        ⟨t.shRecord, r1.carriers⟩ true) :=
    ⟨⟨g3.1, ⟨.tls13, g1, ⟨fun _ => h13, fun _ => rfl⟩⟩, dd, g3.2, hR⟩,
      hello_pair_bufs _ false Session.St.init h0 t.rvC t.rvS hrc hrs t.ch hch t.sh r0.carriers r1.carriers⟩
  rw [hr0, hr1]
  have hmerge := run_mergeF H P L kl cls h13 _ t.ver hv M'
    ⟨SDir.init chk chiv cak caiv, SDir.init shk shiv sak saiv⟩ _
    (fun d => if d then t.sF else t.cF) (fun _ => []) hready
    (by intro d; cases d; exact plan_of_conform _ hfc; exact plan_of_conform _ hfs)
    (by intro d; cases d; exact hC'; exact hS')
    (by simp only [SDir.init] at hlen ⊢; simpa using hlen)
  intro d
  simp only [Session.run, List.foldl_cons] at hmerge ⊢
  rw [hmerge d, htr2, htr1]
  cases d <;> rfl

theorem tls13_connection_exact_fragmented : tls13_connection_exact_statement := by
  unfold tls13_connection_exact_statement
  exact tls13_connection_exact_fragmented_aux

/-- `hsBuf_invariant` (pure form, `Lemmas/Pipeline.consume` is the loop without the decryptor, `hs13Loop_consume`): whatever
    pieces `frs` the first `n` bytes of a stream of whole messages `msgs` are cut into, feeding them one by one through
    the repaired loop leaves in the buffer exactly the unfinished tail — the first `n` stream bytes minus the messages
    that fit entirely into them (`Lemmas/Capstone2.completed`) -/
theorem hsBuf_invariant (msgs : List HsMsg) (hok : ∀ m ∈ msgs, MsgOk m) (frs : List Bytes) (n : Nat)
    (hcut : frs.flatten = (encMsgs msgs).take n) (hn : n ≤ (encMsgs msgs).length) :
    frs.foldl (fun buf f => (consume (buf ++ f).length (buf ++ f)).2) []
      = ((encMsgs msgs).take n).drop (encMsgs (completed msgs n).1).length :=
  bufAfter_eq msgs hok frs n hcut hn

-- ====================================================================== 4. with `-a`
theorem rl_ne13 (v : Session.Ver) (h : v ≠ .tls13) : Pipeline.rlVersion v ≠ .tls13 := by
  cases v <;> simp_all [Pipeline.rlVersion]

/-- C01 ∧ C13 for a whole SSL 3.0 – TLS 1.2 connection WITH `-a`: the exported conversation reassembles, per direction,
    to the hello record verbatim followed by `metaStream12`: every clear-text handshake and ChangeCipherSpec record
    verbatim, every protected handshake record as its plaintext followed by the record as captured, application data as
    plaintext. Causality here: the first released record is the client's, the second the server's (`Causal13`). -/
theorem tls12_connection_meta_exact (H : Crypto.Prims) (P : Prims) (L : SealLaws P) (kl : List Keylog.Key)
    (info : Nat → Pipeline.Info) (c : Pipeline.Conn) (hmeta : c.opts.metadata = true)
    -- the connection as sent
    (t : Transcript) (hch : t.ch.WellFormed) (hsh : t.sh.WellFormed) (hrc : t.rvC.length = 2) (hrs : t.rvS.length = 2)
    (hv : t.ver.length = 2) (hcomp : t.sh.compressionMethod = 0)
    (v : Session.Ver) (hvne : v ≠ .tls13) (hneg : Negotiated t.rvS t.sh v)
    -- suite table (C14), key log (C09), key schedule (C15), as in `genKeys_installs_rel_legacy`
    (ps : CipherSuite.Params) (hres : CipherSuite.resolve (Bytes.beNat t.sh.cipherSuite) = some ps)
    (a : Pipeline.SuiteArgs) (hargs : Pipeline.suiteArgs ps = some a)
    (f : Keylog.Key) (fs : List Keylog.Key)
    (hfound : (Keylog.findSessionSecrets kl (Pipeline.natsOfBytes t.ch.random)).filter
        (fun k => k.label == Keylog.s_CLIENT_RANDOM || k.label == Keylog.s_RSA) = f :: fs)
    (secrets : List KeySchedule.Secret) (hsec : Pipeline.secretsOf false (f :: fs) = some secrets)
    (k : KeySchedule.Keys6)
    (hgen : KeySchedule.generateKeys H (Pipeline.ksVersion v) a.ks secrets t.ch.random t.sh.random
      = .ok (some (.legacy k)))
    (cls : CipherClass)
    (hcls : classOf a.bulk (Pipeline.rlVersion v)
      (Session.extGet ((t.sh.extensions.getD []).map extPair) [0x00, 0x16]).isSome a.tagLen = some cls)
    (hmac : 0 < (KeySchedule.macSuite H a.ks.mac).outLen)
    (hck : KeyMatOk cls k.clientKey k.clientIv) (hsk : KeyMatOk cls k.serverKey k.serverIv)
    -- what follows the hellos
    (hsc : Script12 t.cEvs) (hss : Script12 t.sEvs)
    (hokc : ∀ e ∈ t.cEvs, EvOk1 cls (KeySchedule.macSuite H a.ks.mac).outLen e)
    (hoks : ∀ e ∈ t.sEvs, EvOk1 cls (KeySchedule.macSuite H a.ks.mac).outLen e)
    (hwr : ∀ d, ∀ r ∈ t.records P L cls (legacySnd k) d, WholeRecord r)
    (hlen : t.cEvs.length + t.sEvs.length ≤ seqLimit)
    -- the capture
    (hdel : DeliveredInOrder info c (t.stream P L cls (legacySnd k)))
    (hcausal : Causal13 (connRecs info c)) :
    ∃ frames, Pipeline.connOut H P info c kl = some (frames.map (Pipeline.addressed c.opts c)) ∧
      Spec.reassemble frames = some
        (t.chRecord ++ metaStream12 P L cls t.ver (legacySnd k).c t.cEvs,
         t.shRecord ++ metaStream12 P L cls t.ver (legacySnd k).s t.sEvs) ∧
      TimesFromCarriers info c frames := by
  apply export_of_dirPlain
  rw [hmeta]
  have hproj : ∀ d, ((connRecs info c).filter fun q => q.2 == d).map (·.1.raw) = t.records P L cls (legacySnd k) d := by
    intro d
    obtain ⟨⟨isn, hio⟩, hl⟩ := hdel d
    exact released_dir_records info c.server c.pkts d isn _ (hwr d) hio hl
  have hC := hproj false
  have hS := hproj true
  simp only [Transcript.records, Bool.false_eq_true, if_false, if_true] at hC hS
  obtain ⟨⟨r0, d0⟩, ⟨r1, d1⟩, M', hM, hd0, hd1⟩ := hcausal
  simp only at hd0 hd1
  subst hd0 hd1
  rw [hM] at hC hS ⊢
  rw [filter_dir_cons_same, filter_dir_cons_other _ _ _ _ (by decide), List.map_cons] at hC
  rw [filter_dir_cons_other _ _ _ _ (by decide), filter_dir_cons_same, List.map_cons] at hS
  simp only [List.cons.injEq] at hC hS
  obtain ⟨hc1, hC'⟩ := hC
  obtain ⟨hs1, hS'⟩ := hS
  have hr0 : r0 = ⟨t.chRecord, r0.carriers⟩ := by have h : r0.raw = t.chRecord := hc1; rw [← h]
  have hr1 : r1 = ⟨t.shRecord, r1.carriers⟩ := by have h : r1.raw = t.shRecord := hs1; rw [← h]
  have h0 : (Session.St.init : Session.St Dec).srvCC = false ∧ (Session.St.init : Session.St Dec).cliCC = false :=
    ⟨rfl, rfl⟩
  obtain ⟨g1, _, g3⟩ := server_hello_installs H P kl true Session.St.init h0 t.ch hch t.sh hsh t.rvC t.rvS hrc hrs
    r0.carriers r1.carriers v hneg
  obtain ⟨dd, hinst, hR⟩ := genKeys_installs_rel_legacy H P L kl v hvne t.sh.cipherSuite t.ch.random t.sh.random
    ((t.sh.extensions.getD []).map extPair) hsh.2.2.2.1 ps hres a hargs f fs hfound secrets hsec k hgen cls hcls hmac hck hsk
  rw [hcomp, hinst] at g3
  simp only at g3
  have hrl : Pipeline.rlVersion v ≠ .tls13 := rl_ne13 v hvne
  have h13 : cls.is13 = false := by
    rw [(classOf_spec _ _ _ _ cls hcls).2.2.2]; simpa using hrl
  have ht1 : (⟨t.chRecord, r0.carriers⟩ : Session.Rec).typ = some 0x16 := record_typ 22 _ _ _
  have ht2 : (⟨t.shRecord, r1.carriers⟩ : Session.Rec).typ = some 0x16 := record_typ 22 _ _ _
  -- flags: the `-a` run and the run without `-a` agree on everything but the traffic (`handleRecord_strip`)
  have hst1 := Session.handleRecord_strip (Pipeline.ops H P kl) Session.St.init ⟨t.chRecord, r0.carriers⟩ false
  have hst2 := Session.handleRecord_strip (Pipeline.ops H P kl)
    (Session.handleRecord (Pipeline.ops H P kl) true Session.St.init ⟨t.chRecord, r0.carriers⟩ false)
    ⟨t.shRecord, r1.carriers⟩ true
  have hi0 : (Session.St.init : Session.St Dec).strip = Session.St.init := rfl
  rw [hi0] at hst1
  rw [hst1] at hst2
  have hf1 := handle_hs_flags (Pipeline.ops H P kl) Session.St.init ⟨t.chRecord, r0.carriers⟩ false ht1 h0
  have hf2 := handle_hs_flags (Pipeline.ops H P kl) _ ⟨t.shRecord, r1.carriers⟩ true ht2 hf1
  have hfl1 : (Session.handleRecord (Pipeline.ops H P kl) true Session.St.init ⟨t.chRecord, r0.carriers⟩ false).srvCC = false ∧
      (Session.handleRecord (Pipeline.ops H P kl) true Session.St.init ⟨t.chRecord, r0.carriers⟩ false).cliCC = false := by
    have a := congrArg Session.St.srvCC hst1
    have b := congrArg Session.St.cliCC hst1
    simp only [Session.strip_srvCC, Session.strip_cliCC] at a b
    exact ⟨a.trans hf1.1, b.trans hf1.2⟩
  have hfl2 : (Session.handleRecord (Pipeline.ops H P kl) true
        (Session.handleRecord (Pipeline.ops H P kl) true Session.St.init ⟨t.chRecord, r0.carriers⟩ false)
        ⟨t.shRecord, r1.carriers⟩ true).srvCC = false ∧
      (Session.handleRecord (Pipeline.ops H P kl) true
        (Session.handleRecord (Pipeline.ops H P kl) true Session.St.init ⟨t.chRecord, r0.carriers⟩ false)
        ⟨t.shRecord, r1.carriers⟩ true).cliCC = false := by
    have a := congrArg Session.St.srvCC hst2
    have b := congrArg Session.St.cliCC hst2
    simp only [Session.strip_srvCC, Session.strip_cliCC] at a b
    exact ⟨a.trans hf2.1, b.trans hf2.2⟩
  -- traffic after the hellos: the two records verbatim
  obtain ⟨_, chrest, hchd⟩ := clientHello_layout t.ch hch
  obtain ⟨shrest, hshd⟩ : ∃ rest, Spec.TlsHello.encodeServerHello t.sh = 2 :: rest :=
    ⟨_, by simp only [Spec.TlsHello.encodeServerHello, Spec.TlsHello.handshake, Lemmas.TlsHello.u8_eq, List.cons_append,
      List.nil_append]; rfl⟩
  have htr1 := handle_hello_meta (Pipeline.ops H P kl) Session.St.init ⟨t.chRecord, r0.carriers⟩ false ht1 h0 1 chrest
    (by rw [Transcript.chRecord, record_body 22 _ _ _ hrc, hchd]) (Or.inl rfl)
  have htr2 := handle_hello_meta (Pipeline.ops H P kl) _ ⟨t.shRecord, r1.carriers⟩ true ht2 hfl1 2 shrest
    (by rw [Transcript.shRecord, record_body 22 _ _ _ hrs, hshd]) (Or.inr rfl)
  have hready : Ready cls (KeySchedule.macSuite H a.ks.mac).outLen (legacySnd k)
      (Session.handleRecord (Pipeline.ops H P kl) true
        (Session.handleRecord (Pipeline.ops H P kl) true Session.St.init ⟨t.chRecord, r0.carriers⟩ false)
        ⟨t.shRecord, r1.carriers⟩ true) :=
    ⟨⟨g3.1, ⟨v, g1, ⟨fun h => absurd h hvne, fun h => by rw [h13] at h; cases h⟩⟩, dd, g3.2, hR⟩,
      hello_pair_bufs _ true Session.St.init h0 t.rvC t.rvS hrc hrs t.ch hch t.sh r0.carriers r1.carriers⟩
  rw [hr0, hr1]
  have hmerge := run_merge12m H P L kl cls h13 _ t.ver hv M' (legacySnd k) _
    (fun d => if d then t.sEvs else t.cEvs) hready
    (by
      intro d
      cases d
      · exact Or.inl ⟨by simp [ccOf, hfl2.2], hsc⟩
      · exact Or.inl ⟨by simp [ccOf, hfl2.1], hss⟩)
    (by intro d e he; cases d; exact hokc e he; exact hoks e he)
    (by intro d; cases d; exact hC'; exact hS')
    (by
      have h1 := length_by_dir M'
      have h2 := congrArg List.length hC'
      have h3 := congrArg List.length hS'
      simp only [List.length_map, sendDir_length] at h2 h3
      simp only [legacySnd, SDir.init]
      omega)
  intro d
  simp only [Session.run, List.foldl_cons] at hmerge ⊢
  rw [hmerge d, htr2, htr1]
  cases d <;> simp [dirPlain, Snd.get, legacySnd, Session.St.init]

/-- C01 ∧ C13 for a whole TLS 1.3 connection WITH `-a`: per direction the hello record verbatim followed by
    `metaStream13` — dummy ChangeCipherSpec records verbatim, protected handshake records (flights, tickets) NOT AT
    ALL, application data as plaintext. -/
theorem tls13_connection_meta_exact (H : Crypto.Prims) (P : Prims) (L : SealLaws P) (kl : List Keylog.Key)
    (info : Nat → Pipeline.Info) (c : Pipeline.Conn) (hmeta : c.opts.metadata = true)
    -- the connection as sent
    (t : Transcript) (hch : t.ch.WellFormed) (hsh : t.sh.WellFormed) (hrc : t.rvC.length = 2) (hrs : t.rvS.length = 2)
    (hv : t.ver.length = 2) (hcomp : t.sh.compressionMethod = 0) (hneg : Negotiated t.rvS t.sh .tls13)
    -- suite table (C14), key log (C09), key schedule (C15), as in `genKeys_installs_rel_13`
    (ps : CipherSuite.Params) (hres : CipherSuite.resolve (Bytes.beNat t.sh.cipherSuite) = some ps)
    (a : Pipeline.SuiteArgs) (hargs : Pipeline.suiteArgs ps = some a)
    (f : Keylog.Key) (fs : List Keylog.Key)
    (hfound : Keylog.findSessionSecrets kl (Pipeline.natsOfBytes t.ch.random) = f :: fs)
    (secrets : List KeySchedule.Secret) (hsec : Pipeline.secretsOf true (f :: fs) = some secrets)
    (k : KeySchedule.Installed13)
    (hgen : KeySchedule.generateKeys H .tls13 a.ks secrets t.ch.random t.sh.random = .ok (some (.tls13 k)))
    (chk chiv cak caiv shk shiv sak saiv : Bytes)
    (hk : k.clientHsKey = some chk ∧ k.clientHsIv = some chiv ∧ k.clientAppKey = some cak ∧ k.clientAppIv = some caiv ∧
      k.serverHsKey = some shk ∧ k.serverHsIv = some shiv ∧ k.serverAppKey = some sak ∧ k.serverAppIv = some saiv)
    (cls : CipherClass)
    (hcls : classOf a.bulk .tls13
      (Session.extGet ((t.sh.extensions.getD []).map extPair) [0x00, 0x16]).isSome a.tagLen = some cls)
    (h1 : KeyMatOk cls chk chiv) (h2 : KeyMatOk cls cak caiv) (h3 : KeyMatOk cls shk shiv) (h4 : KeyMatOk cls sak saiv)
    -- what follows the hellos
    (hsc : Script13 t.cEvs) (hss : Script13 t.sEvs)
    (hokc : ∀ e ∈ t.cEvs, EvOk1 cls (KeySchedule.macSuite H a.ks.mac).outLen e)
    (hoks : ∀ e ∈ t.sEvs, EvOk1 cls (KeySchedule.macSuite H a.ks.mac).outLen e)
    (hwr : ∀ d, ∀ r ∈ t.records P L cls ⟨SDir.init chk chiv cak caiv, SDir.init shk shiv sak saiv⟩ d, WholeRecord r)
    (hlen : budget13 t ≤ seqLimit)
    -- the capture
    (hdel : DeliveredInOrder info c (t.stream P L cls ⟨SDir.init chk chiv cak caiv, SDir.init shk shiv sak saiv⟩))
    (hcausal : Causal13 (connRecs info c)) :
    ∃ frames, Pipeline.connOut H P info c kl = some (frames.map (Pipeline.addressed c.opts c)) ∧
      Spec.reassemble frames = some
        (t.chRecord ++ metaStream13 P L cls t.ver (SDir.init chk chiv cak caiv) t.cEvs,
         t.shRecord ++ metaStream13 P L cls t.ver (SDir.init shk shiv sak saiv) t.sEvs) ∧
      TimesFromCarriers info c frames := by
  apply export_of_dirPlain
  rw [hmeta]
  have hproj : ∀ d, ((connRecs info c).filter fun q => q.2 == d).map (·.1.raw)
      = t.records P L cls ⟨SDir.init chk chiv cak caiv, SDir.init shk shiv sak saiv⟩ d := by
    intro d
    obtain ⟨⟨isn, hio⟩, hl⟩ := hdel d
    exact released_dir_records info c.server c.pkts d isn _ (hwr d) hio hl
  have hC := hproj false
  have hS := hproj true
  simp only [Transcript.records, Bool.false_eq_true, if_false, if_true] at hC hS
  obtain ⟨⟨r0, d0⟩, ⟨r1, d1⟩, M', hM, hd0, hd1⟩ := hcausal
  simp only at hd0 hd1
  subst hd0 hd1
  rw [hM] at hC hS ⊢
  rw [filter_dir_cons_same, filter_dir_cons_other _ _ _ _ (by decide), List.map_cons] at hC
  rw [filter_dir_cons_other _ _ _ _ (by decide), filter_dir_cons_same, List.map_cons] at hS
  simp only [List.cons.injEq] at hC hS
  obtain ⟨hc1, hC'⟩ := hC
  obtain ⟨hs1, hS'⟩ := hS
  have hr0 : r0 = ⟨t.chRecord, r0.carriers⟩ := by have h : r0.raw = t.chRecord := hc1; rw [← h]
  have hr1 : r1 = ⟨t.shRecord, r1.carriers⟩ := by have h : r1.raw = t.shRecord := hs1; rw [← h]
  have h0 : (Session.St.init : Session.St Dec).srvCC = false ∧ (Session.St.init : Session.St Dec).cliCC = false :=
    ⟨rfl, rfl⟩
  obtain ⟨g1, _, g3⟩ := server_hello_installs H P kl true Session.St.init h0 t.ch hch t.sh hsh t.rvC t.rvS hrc hrs
    r0.carriers r1.carriers .tls13 hneg
  obtain ⟨dd, hinst, hR⟩ := genKeys_installs_rel_13 H P kl t.sh.cipherSuite t.ch.random t.sh.random
    ((t.sh.extensions.getD []).map extPair) hsh.2.2.2.1 ps hres a hargs f fs hfound secrets hsec k hgen
    chk chiv cak caiv shk shiv sak saiv hk cls hcls h1 h2 h3 h4
  rw [hcomp, hinst] at g3
  simp only at g3
  have h13 : cls.is13 = true := by rw [(classOf_spec _ _ _ _ cls hcls).2.2.2]; rfl
  have ht1 : (⟨t.chRecord, r0.carriers⟩ : Session.Rec).typ = some 0x16 := record_typ 22 _ _ _
  have ht2 : (⟨t.shRecord, r1.carriers⟩ : Session.Rec).typ = some 0x16 := record_typ 22 _ _ _
  have hst1 := Session.handleRecord_strip (Pipeline.ops H P kl) Session.St.init ⟨t.chRecord, r0.carriers⟩ false
  have hi0 : (Session.St.init : Session.St Dec).strip = Session.St.init := rfl
  rw [hi0] at hst1
  have hf1 := handle_hs_flags (Pipeline.ops H P kl) Session.St.init ⟨t.chRecord, r0.carriers⟩ false ht1 h0
  have hfl1 : (Session.handleRecord (Pipeline.ops H P kl) true Session.St.init ⟨t.chRecord, r0.carriers⟩ false).srvCC = false ∧
      (Session.handleRecord (Pipeline.ops H P kl) true Session.St.init ⟨t.chRecord, r0.carriers⟩ false).cliCC = false := by
    have a := congrArg Session.St.srvCC hst1
    have b := congrArg Session.St.cliCC hst1
    simp only [Session.strip_srvCC, Session.strip_cliCC] at a b
    exact ⟨a.trans hf1.1, b.trans hf1.2⟩
  obtain ⟨_, chrest, hchd⟩ := clientHello_layout t.ch hch
  obtain ⟨shrest, hshd⟩ : ∃ rest, Spec.TlsHello.encodeServerHello t.sh = 2 :: rest :=
    ⟨_, by simp only [Spec.TlsHello.encodeServerHello, Spec.TlsHello.handshake, Lemmas.TlsHello.u8_eq, List.cons_append,
      List.nil_append]; rfl⟩
  have htr1 := handle_hello_meta (Pipeline.ops H P kl) Session.St.init ⟨t.chRecord, r0.carriers⟩ false ht1 h0 1 chrest
    (by rw [Transcript.chRecord, record_body 22 _ _ _ hrc, hchd]) (Or.inl rfl)
  have htr2 := handle_hello_meta (Pipeline.ops H P kl) _ ⟨t.shRecord, r1.carriers⟩ true ht2 hfl1 2 shrest
    (by rw [Transcript.shRecord, record_body 22 _ _ _ hrs, hshd]) (Or.inr rfl)
  have hready : Ready cls (KeySchedule.macSuite H a.ks.mac).outLen
      ⟨SDir.init chk chiv cak caiv, SDir.init shk shiv sak saiv⟩
      (Session.handleRecord (Pipeline.ops H P kl) true
        (Session.handleRecord (Pipeline.ops H P kl) true Session.St.init ⟨t.chRecord, r0.carriers⟩ false)
        ⟨t.shRecord, r1.carriers⟩ true) :=
    ⟨⟨g3.1, ⟨.tls13, g1, ⟨fun _ => h13, fun _ => rfl⟩⟩, dd, g3.2, hR⟩,
      hello_pair_bufs _ true Session.St.init h0 t.rvC t.rvS hrc hrs t.ch hch t.sh r0.carriers r1.carriers⟩
  rw [hr0, hr1]
  have hmerge := run_merge13m H P L kl cls h13 _ t.ver hv M'
    ⟨SDir.init chk chiv cak caiv, SDir.init shk shiv sak saiv⟩ _
    (fun d => if d then t.sEvs else t.cEvs) hready
    (by intro d; cases d; exact hsc; exact hss)
    (by intro d e he; cases d; exact hokc e he; exact hoks e he)
    (by intro d; cases d; exact hC'; exact hS')
    (by simp only [SDir.init, budget13] at hlen ⊢; simpa using hlen)
  intro d
  simp only [Session.run, List.foldl_cons] at hmerge ⊢
  rw [hmerge d, htr2, htr1]
  cases d <;> simp [dirPlain, Snd.get, Session.St.init]

-- ====================================================================== non-vacuity and counterexamples
namespace Ex2
open TLX.Props.C01Pipeline.Ex2 TLX.Props.C01.Ex TLX.Props.C01Capstone.Ex

-- ---------------------------------------------------------------------- 1. packet order ⇒ release order, concretely
/-- the capture `cap0` of `Ex.tls12_instance` has alternating first flights: the ClientHello (two segments), then the
    ServerHello flight (one segment) -/
theorem firstFlights0 : FirstFlights infoCap connCap [rC 0] [rS 0, rS 1] where
  split := ⟨pktsCap.take 2, (pktsCap.drop 2).take 1, pktsCap.drop 3, by decide +kernel, by decide +kernel, by decide +kernel,
    ⟨isnOf false, by
      have hcut : IsCut [rC 0].flatten [(rC 0).take 20, (rC 0).drop 20] := ⟨by decide +kernel, by decide +kernel⟩
      have e : (dirSegs infoCap connCap.server false (pktsCap.take 2)).map Props.C05.wire
          = segsOf (isnOf false) 0 [(rC 0).take 20, (rC 0).drop 20] := by decide +kernel
      unfold InOrder; rw [e]; exact Delivers.cut _ hcut⟩,
    ⟨isnOf true, by
      have hcut : IsCut [rS 0, rS 1].flatten [rS 0 ++ rS 1] := ⟨by decide +kernel, by decide +kernel⟩
      have e : (dirSegs infoCap connCap.server true ((pktsCap.drop 2).take 1)).map Props.C05.wire
          = segsOf (isnOf true) 0 [rS 0 ++ rS 1] := by decide +kernel
      unfold InOrder; rw [e]; exact Delivers.cut _ hcut⟩⟩
  wholeA := by decide +kernel
  wholeB := by decide +kernel
  lenA := by decide +kernel
  lenB := by decide +kernel
  neB := by decide

example : Causal12 (connRecs infoCap connCap) :=
  causal12_of_packet_order infoCap connCap _ _ firstFlights0 (by decide) (by decide +kernel)

-- a WEAKER packet-order condition is not enough: "every byte of the ClientHello is captured before the first server
-- segment" holds here too, and each direction is in order, but the segment that completes the ClientHello also carries
-- the first 3 bytes of the client's next record, so nothing is released until after the ServerHello: all is lost …
example : outOf ([(false, rC 0 ++ (rC 1).take 3, 0), (true, rS 0 ++ rS 1, 0),
    (false, (rC 1).drop 3 ++ rC 2 ++ rC 3, 53)] ++ cap0.drop 4) = some [] := by decide +kernel
-- … whereas with the flight boundary on a segment boundary (`FirstFlights`) everything is exported
example : outOf ([(false, rC 0, 0), (true, rS 0 ++ rS 1, 0), (false, rC 1 ++ rC 2 ++ rC 3, 50)] ++ cap0.drop 4)
    = some [(1003, hi), (1005, k16.take 8), (1007, k16.drop 8)] := by decide +kernel

-- ---------------------------------------------------------------------- 2. a displaced capture
theorem noEarly_of_head (isn : Nat) (segs : List Reassembly.Seg)
    (h : ∀ s, segs.head? = some s → s.seq = isn % 2 ^ 32) : Props.C05.NoEarlyDelivery isn segs := by
  intro pre post hsplit hno
  cases pre with
  | nil => rfl
  | cons s t => exact absurd (h s (by rw [hsplit]; rfl)) (hno s (List.mem_cons_self ..))

/-- `cap0` with the client's False-Start record captured BEFORE the segment that carries ClientKeyExchange / CCS /
    Finished (displacement by one position), and retransmitted later -/
def capD : List (Bool × Bytes × Nat) :=
  [cap0.getD 0 default, cap0.getD 1 default, cap0.getD 2 default, cap0.getD 4 default, cap0.getD 3 default] ++ cap0.drop 5
def infoD := infoOf capD
def connD := connOf capD

theorem deliveredD : DeliveredDisplaced infoD connD (t0.stream Cipher.Toy.prims Cipher.Toy.laws cls0 (legacySnd k0)) := by
  intro d
  cases d
  · refine ⟨⟨1, isnOf false, ?_, noEarly_of_head _ _ (by decide +kernel)⟩, by decide +kernel⟩
    have hcut : IsCut (t0.stream Cipher.Toy.prims Cipher.Toy.laws cls0 (legacySnd k0) false) (chunksOf false) :=
      ⟨by decide +kernel, by decide +kernel⟩
    have h0 := Delivers.cut (k := 1) (isn := isnOf false) (chunksOf false) hcut
    let w := segsOf (isnOf false) 0 (chunksOf false)
    have e0 : segsOf (isnOf false) 0 (chunksOf false)
        = w.take 2 ++ ([w.getD 2 (0, [])] ++ w.getD 3 (0, []) :: w.drop 4) := by decide +kernel
    rw [e0] at h0
    have h1 := Delivers.displace _ _ h0 (Displaced.earlier (w.take 2) [w.getD 2 (0, [])] (w.drop 4) (w.getD 3 (0, [])) (by decide))
    have h2 := Delivers.dup (w.take 2) [w.getD 2 (0, [])] (w.drop 4) (w.getD 3 (0, [])) h1
    have e2 : (dirSegs infoD connD.server false connD.pkts).map Props.C05.wire
        = w.take 2 ++ w.getD 3 (0, []) :: ([w.getD 2 (0, [])] ++ w.getD 3 (0, []) :: w.drop 4) := by decide +kernel
    rw [e2]; exact h2
  · refine ⟨⟨0, isnOf true, ?_, noEarly_of_head _ _ (by decide +kernel)⟩, by decide +kernel⟩
    have hcut : IsCut (t0.stream Cipher.Toy.prims Cipher.Toy.laws cls0 (legacySnd k0) true) (chunksOf true) :=
      ⟨by decide +kernel, by decide +kernel⟩
    have e2 : (dirSegs infoD connD.server true connD.pkts).map Props.C05.wire
        = segsOf (isnOf true) 0 (chunksOf true) := by decide +kernel
    rw [e2]; exact Delivers.cut _ hcut

theorem causalD : Causal12 (connRecs infoD connD) :=
  ⟨(connRecs infoD connD).take 1, (connRecs infoD connD).drop 1, (List.take_append_drop 1 _).symm,
    by decide +kernel, by decide +kernel,
    ((connRecs infoD connD).drop 1).headD (⟨[], []⟩, false), ((connRecs infoD connD).drop 1).tail,
    by decide +kernel, by decide +kernel⟩

/-- every hypothesis of `tls12_connection_exact_displaced` holds for the displaced capture -/
theorem tls12_displaced_instance :
    ∃ frames, Pipeline.connOut hashes Cipher.Toy.prims infoD connD kl0
        = some (frames.map (Pipeline.addressed connD.opts connD)) ∧
      Spec.reassemble frames = some (hi, k16) ∧ TimesFromCarriers infoD connD frames := by
  have hres : CipherSuite.resolve (Bytes.beNat t0.sh.cipherSuite) = some ps0 := by decide +kernel
  have hargs : Pipeline.suiteArgs ps0 = some a0 := some_getD _ _ (by decide +kernel)
  have hfound : (Keylog.findSessionSecrets kl0 (Pipeline.natsOfBytes t0.ch.random)).filter
      (fun k => k.label == Keylog.s_CLIENT_RANDOM || k.label == Keylog.s_RSA) = f0 :: [] := by decide +kernel
  have hsec : Pipeline.secretsOf false (f0 :: []) = some secrets0 := by decide +kernel
  have hgen : KeySchedule.generateKeys hashes (Pipeline.ksVersion .tls12) a0.ks secrets0 t0.ch.random t0.sh.random
      = .ok (some (.legacy k0)) :=
    gen_eq (KeySchedule.generateKeys hashes .tls12 a0.ks secrets0 cr0 sr0) k0 (by decide +kernel)
  have hcls : classOf a0.bulk (Pipeline.rlVersion .tls12)
      (Session.extGet ((t0.sh.extensions.getD []).map extPair) [0x00, 0x16]).isSome a0.tagLen = some cls0 := by
    decide +kernel
  have hmac : 0 < (KeySchedule.macSuite hashes a0.ks.mac).outLen := by decide +kernel
  have hck : KeyMatOk cls0 k0.clientKey k0.clientIv := by decide +kernel
  have hsk : KeyMatOk cls0 k0.serverKey k0.serverIv := by decide +kernel
  have hokc : ∀ e ∈ t0.cEvs, EvOk1 cls0 (KeySchedule.macSuite hashes a0.ks.mac).outLen e := by decide +kernel
  have hoks : ∀ e ∈ t0.sEvs, EvOk1 cls0 (KeySchedule.macSuite hashes a0.ks.mac).outLen e := by decide +kernel
  have hwr : ∀ d, ∀ r ∈ t0.records Cipher.Toy.prims Cipher.Toy.laws cls0 (legacySnd k0) d, WholeRecord r := by
    intro d; cases d <;> decide +kernel
  have hlen : t0.cEvs.length + t0.sEvs.length ≤ seqLimit := by decide +kernel
  have hsc : Script12 t0.cEvs := ⟨[[16, 0, 0, 2, 9, 9]], _, rfl, by decide, by
    intro e he
    simp only [List.mem_cons, List.mem_nil_iff, or_false] at he
    rcases he with rfl | rfl | rfl <;> exact ⟨_, _, _, rfl, by decide⟩⟩
  have hss : Script12 t0.sEvs := ⟨[[11, 0, 0, 3, 1, 2, 3, 14, 0, 0, 0]], _, rfl, by decide, by
    intro e he
    simp only [List.mem_cons, List.mem_nil_iff, or_false] at he
    rcases he with rfl | rfl <;> exact ⟨_, _, _, rfl, by decide⟩⟩
  have h := tls12_connection_exact_displaced hashes Cipher.Toy.prims Cipher.Toy.laws kl0 infoD connD rfl t0
    (by decide) (by decide) rfl rfl rfl rfl .tls12 (by decide) (by unfold Negotiated; decide)
    ps0 hres a0 hargs f0 [] hfound secrets0 hsec k0 hgen cls0 hcls hmac hck hsk hsc hss hokc hoks hwr hlen
    deliveredD causalD
  have e : (Spec.TlsConnection.plainOf t0.cEvs, Spec.TlsConnection.plainOf t0.sEvs) = (hi, k16) := by decide
  rw [e] at h
  exact h

-- ---------------------------------------------------------------------- 4. the `-a` theorems, concretely
theorem causal0m : Causal13 (connRecs infoCap (setMeta connCap true)) :=
  ⟨(connRecs infoCap connCap).headD (⟨[], []⟩, false), ((connRecs infoCap connCap).drop 1).headD (⟨[], []⟩, false),
    (connRecs infoCap connCap).drop 2, by decide +kernel, by decide +kernel, by decide +kernel⟩

/-- every hypothesis of `tls12_connection_meta_exact` holds for the connection of `Ex.tls12_instance` exported with `-a` -/
theorem tls12_meta_instance :
    ∃ frames, Pipeline.connOut hashes Cipher.Toy.prims infoCap (setMeta connCap true) kl0
        = some (frames.map (Pipeline.addressed (setMeta connCap true).opts (setMeta connCap true))) ∧
      Spec.reassemble frames = some
        (t0.chRecord ++ metaStream12 Cipher.Toy.prims Cipher.Toy.laws cls0 t0.ver (legacySnd k0).c t0.cEvs,
         t0.shRecord ++ metaStream12 Cipher.Toy.prims Cipher.Toy.laws cls0 t0.ver (legacySnd k0).s t0.sEvs) ∧
      TimesFromCarriers infoCap (setMeta connCap true) frames := by
  have hres : CipherSuite.resolve (Bytes.beNat t0.sh.cipherSuite) = some ps0 := by decide +kernel
  have hargs : Pipeline.suiteArgs ps0 = some a0 := some_getD _ _ (by decide +kernel)
  have hfound : (Keylog.findSessionSecrets kl0 (Pipeline.natsOfBytes t0.ch.random)).filter
      (fun k => k.label == Keylog.s_CLIENT_RANDOM || k.label == Keylog.s_RSA) = f0 :: [] := by decide +kernel
  have hsec : Pipeline.secretsOf false (f0 :: []) = some secrets0 := by decide +kernel
  have hgen : KeySchedule.generateKeys hashes (Pipeline.ksVersion .tls12) a0.ks secrets0 t0.ch.random t0.sh.random
      = .ok (some (.legacy k0)) :=
    gen_eq (KeySchedule.generateKeys hashes .tls12 a0.ks secrets0 cr0 sr0) k0 (by decide +kernel)
  have hcls : classOf a0.bulk (Pipeline.rlVersion .tls12)
      (Session.extGet ((t0.sh.extensions.getD []).map extPair) [0x00, 0x16]).isSome a0.tagLen = some cls0 := by
    decide +kernel
  have hmac : 0 < (KeySchedule.macSuite hashes a0.ks.mac).outLen := by decide +kernel
  have hck : KeyMatOk cls0 k0.clientKey k0.clientIv := by decide +kernel
  have hsk : KeyMatOk cls0 k0.serverKey k0.serverIv := by decide +kernel
  have hokc : ∀ e ∈ t0.cEvs, EvOk1 cls0 (KeySchedule.macSuite hashes a0.ks.mac).outLen e := by decide +kernel
  have hoks : ∀ e ∈ t0.sEvs, EvOk1 cls0 (KeySchedule.macSuite hashes a0.ks.mac).outLen e := by decide +kernel
  have hwr : ∀ d, ∀ r ∈ t0.records Cipher.Toy.prims Cipher.Toy.laws cls0 (legacySnd k0) d, WholeRecord r := by
    intro d; cases d <;> decide +kernel
  have hlen : t0.cEvs.length + t0.sEvs.length ≤ seqLimit := by decide +kernel
  have hsc : Script12 t0.cEvs := ⟨[[16, 0, 0, 2, 9, 9]], _, rfl, by decide, by
    intro e he
    simp only [List.mem_cons, List.mem_nil_iff, or_false] at he
    rcases he with rfl | rfl | rfl <;> exact ⟨_, _, _, rfl, by decide⟩⟩
  have hss : Script12 t0.sEvs := ⟨[[11, 0, 0, 3, 1, 2, 3, 14, 0, 0, 0]], _, rfl, by decide, by
    intro e he
    simp only [List.mem_cons, List.mem_nil_iff, or_false] at he
    rcases he with rfl | rfl <;> exact ⟨_, _, _, rfl, by decide⟩⟩
  exact tls12_connection_meta_exact hashes Cipher.Toy.prims Cipher.Toy.laws kl0 infoCap (setMeta connCap true) rfl t0
    (by decide) (by decide) rfl rfl rfl rfl .tls12 (by decide) (by unfold Negotiated; decide)
    ps0 hres a0 hargs f0 [] hfound secrets0 hsec k0 hgen cls0 hcls hmac hck hsk hsc hss hokc hoks hwr hlen
    delivered0 causal0m

-- the client's exported stream with `-a`: ClientHello record, ClientKeyExchange record, CCS record, the decrypted
-- Finished followed by its record, "hi", (the empty record contributes nothing)
example : t0.chRecord ++ metaStream12 Cipher.Toy.prims Cipher.Toy.laws cls0 t0.ver (legacySnd k0).c t0.cEvs
    = rC 0 ++ rC 1 ++ rC 2 ++ ((20 :: 0 :: 0 :: 12 :: k16.take 12) ++ rC 3) ++ hi := by decide +kernel

/-- every hypothesis of `tls13_connection_meta_exact` holds for the connection of `Ex.tls13_instance` exported with `-a` -/
theorem tls13_meta_instance :
    ∃ frames, Pipeline.connOut hashes Cipher.Toy.prims info13 (setMeta conn13 true) kl13
        = some (frames.map (Pipeline.addressed (setMeta conn13 true).opts (setMeta conn13 true))) ∧
      Spec.reassemble frames = some
        (t13.chRecord ++ metaStream13 Cipher.Toy.prims Cipher.Toy.laws cls13 t13.ver x13.c t13.cEvs,
         t13.shRecord ++ metaStream13 Cipher.Toy.prims Cipher.Toy.laws cls13 t13.ver x13.s t13.sEvs) ∧
      TimesFromCarriers info13 (setMeta conn13 true) frames := by
  have hres : CipherSuite.resolve (Bytes.beNat t13.sh.cipherSuite) = some ps13 := by decide +kernel
  have hargs : Pipeline.suiteArgs ps13 = some a13 := some_getD _ _ (by decide +kernel)
  have hfound : Keylog.findSessionSecrets kl13 (Pipeline.natsOfBytes t13.ch.random)
      = kl13.headD ⟨[], [], []⟩ :: kl13.tail := by decide +kernel
  have hsec : Pipeline.secretsOf true (kl13.headD ⟨[], [], []⟩ :: kl13.tail) = some secrets13 := by decide +kernel
  have hgen : KeySchedule.generateKeys hashes .tls13 a13.ks secrets13 t13.ch.random t13.sh.random
      = .ok (some (.tls13 k13)) :=
    gen_eq13 (KeySchedule.generateKeys hashes .tls13 a13.ks secrets13 cr0 sr0) k13 (by decide +kernel)
  have hcls : classOf a13.bulk .tls13
      (Session.extGet ((t13.sh.extensions.getD []).map extPair) [0x00, 0x16]).isSome a13.tagLen = some cls13 := by
    decide +kernel
  have hokc : ∀ e ∈ t13.cEvs, EvOk1 cls13 (KeySchedule.macSuite hashes a13.ks.mac).outLen e := by decide +kernel
  have hoks : ∀ e ∈ t13.sEvs, EvOk1 cls13 (KeySchedule.macSuite hashes a13.ks.mac).outLen e := by decide +kernel
  have hwr : ∀ d, ∀ r ∈ t13.records Cipher.Toy.prims Cipher.Toy.laws cls13 x13 d, WholeRecord r := by
    intro d; cases d <;> decide +kernel
  have hlen : budget13 t13 ≤ seqLimit := by decide +kernel
  have hsc : Script13 t13.cEvs := by
    intro e he
    simp only [t13, List.mem_cons, List.mem_nil_iff, or_false] at he
    rcases he with rfl | rfl | rfl
    · exact Or.inl rfl
    · exact Or.inr (Or.inl ⟨_, _, rfl⟩)
    · exact Or.inr (Or.inr ⟨_, _, rfl⟩)
  have hss : Script13 t13.sEvs := by
    intro e he
    simp only [t13, List.mem_cons, List.mem_nil_iff, or_false] at he
    rcases he with rfl | rfl | rfl | rfl
    · exact Or.inl rfl
    · exact Or.inr (Or.inl ⟨_, _, rfl⟩)
    · exact Or.inr (Or.inl ⟨_, _, rfl⟩)
    · exact Or.inr (Or.inr ⟨_, _, rfl⟩)
  exact tls13_connection_meta_exact hashes Cipher.Toy.prims Cipher.Toy.laws kl13 info13 (setMeta conn13 true) rfl t13
    (by decide) (by decide) rfl rfl rfl rfl (by unfold Negotiated; decide)
    ps13 hres a13 hargs _ _ hfound secrets13 hsec k13 hgen
    (k13.clientHsKey.getD []) (k13.clientHsIv.getD []) (k13.clientAppKey.getD []) (k13.clientAppIv.getD [])
    (k13.serverHsKey.getD []) (k13.serverHsIv.getD []) (k13.serverAppKey.getD []) (k13.serverAppIv.getD [])
    (by decide +kernel) cls13 hcls (by decide +kernel) (by decide +kernel) (by decide +kernel) (by decide +kernel)
    hsc hss hokc hoks hwr hlen delivered13 causal13

-- the server's exported stream with `-a`: ServerHello record, the dummy CCS record, 16 bytes — nothing of the flight
-- or the ticket
example : t13.shRecord ++ metaStream13 Cipher.Toy.prims Cipher.Toy.laws cls13 t13.ver x13.s t13.sEvs
    = qS 0 ++ qS 1 ++ k16 := by decide +kernel

-- ---------------------------------------------------------------------- 3. fragmented TLS 1.3 flights
/-- the server's handshake messages: EncryptedExtensions, a Certificate whose body contains 00 ff ff ff, Finished -/
def flightMsgs : List (UInt8 × Bytes) := [(8, [0, 0]), (11, [9, 9, 0, 0xff, 0xff, 0xff, 7, 7]), C01Pipeline.Ex.fin]
example : hsBytes flightMsgs = flightBytes := by decide

/-- The server's flight EncryptedExtensions ‖ Certificate ‖ Finished cut into THREE protected records: after 12 bytes
    (inside the Certificate) and after 18 bytes (at the start of the Finished); then 16 bytes of application data -/
def tFG : TranscriptF :=
  { ch := ch0, sh := sh13, rvC := [3, 1], rvS := [3, 3], ver := [3, 3],
    cF := [.ccs, .frag (encMsgs [C01Pipeline.Ex.fin]) 1 ⟨[], [], [], 0⟩],
    sF := [.ccs, .frag (flightBytes.take 12) 0 ⟨[], [], [], 0⟩, .frag ((flightBytes.drop 12).take 6) 0 ⟨[], [], [], 1⟩,
             .frag (flightBytes.drop 18) 1 ⟨[], [], [], 0⟩, .app k16 ⟨[], [], [], 3⟩] }

def recsFG (d : Bool) : List Bytes := tFG.records Cipher.Toy.prims Cipher.Toy.laws cls13 x13 d
def uCG (i : Nat) : Bytes := (recsFG false).getD i []
def uSG (i : Nat) : Bytes := (recsFG true).getD i []
def capFG : List (Bool × Bytes × Nat) := 
  [(false, uCG 0, 0), (true, uSG 0 ++ uSG 1, 0), (true, uSG 2 ++ uSG 3 ++ uSG 4, (uSG 0).length + (uSG 1).length),
   (false, uCG 1 ++ uCG 2, (uCG 0).length),
   (true, uSG 5, (uSG 0).length + (uSG 1).length + (uSG 2).length + (uSG 3).length + (uSG 4).length)]
def pktsFG : List MainLoop.Pkt := (List.range capFG.length).map fun i =>
  mkPkt (capFG.getD i (false, [], 0)).1 (capFG.getD i (false, [], 0)).2.1 i
def infoFG (tag : Nat) : Pipeline.Info :=
  ⟨(isnOf (capFG.getD tag (false, [], 0)).1 + (capFG.getD tag (false, [], 0)).2.2) % 4294967296, 1000 + tag, [1], [2], false⟩
def connFG : Pipeline.Conn := ⟨⟨[443], false, false, false, true, []⟩, sEp, cEp, [2], [1], false, pktsFG⟩
def chunksFG (d : Bool) : List Bytes := if d then [uSG 0 ++ uSG 1, uSG 2 ++ uSG 3 ++ uSG 4, uSG 5] else [uCG 0, uCG 1 ++ uCG 2]

theorem deliveredFG : DeliveredInOrder infoFG connFG (tFG.stream Cipher.Toy.prims Cipher.Toy.laws cls13 x13) := by
  intro d
  cases d
  · refine ⟨⟨isnOf false, ?_⟩, by decide +kernel⟩
    have hcut : IsCut (tFG.stream Cipher.Toy.prims Cipher.Toy.laws cls13 x13 false) (chunksFG false) :=
      ⟨by decide +kernel, by decide +kernel⟩
    have e2 : (dirSegs infoFG connFG.server false connFG.pkts).map Props.C05.wire
        = segsOf (isnOf false) 0 (chunksFG false) := by decide +kernel
    unfold InOrder
    rw [e2]; exact Delivers.cut _ hcut
  · refine ⟨⟨isnOf true, ?_⟩, by decide +kernel⟩
    have hcut : IsCut (tFG.stream Cipher.Toy.prims Cipher.Toy.laws cls13 x13 true) (chunksFG true) :=
      ⟨by decide +kernel, by decide +kernel⟩
    have e2 : (dirSegs infoFG connFG.server true connFG.pkts).map Props.C05.wire
        = segsOf (isnOf true) 0 (chunksFG true) := by decide +kernel
    unfold InOrder
    rw [e2]; exact Delivers.cut _ hcut

theorem causalFG : Causal13 (connRecs infoFG connFG) :=
  ⟨(connRecs infoFG connFG).headD (⟨[], []⟩, false), ((connRecs infoFG connFG).drop 1).headD (⟨[], []⟩, false),
    (connRecs infoFG connFG).drop 2, by decide +kernel, by decide +kernel, by decide +kernel⟩

theorem conformFG : FragConform tFG.cF ∧ FragConform tFG.sF := by
  constructor
  · refine ⟨[C01Pipeline.Ex.fin], by decide, by decide +kernel, ?_, ?_⟩
    · simp only [tFG, FinsRight]; decide +kernel
    · simp only [tFG, FragsNonEmpty]; decide +kernel
  · refine ⟨flightMsgs, by decide, by decide +kernel, ?_, ?_⟩
    · simp only [tFG, FinsRight]; decide +kernel
    · simp only [tFG, FragsNonEmpty]; decide +kernel

/-- every hypothesis of `tls13_connection_exact_fragmented` holds for this connection, in which the Certificate message
    spans two records and the Finished starts its own record -/
theorem tls13_fragmented_instance :
    ∃ frames, Pipeline.connOut hashes Cipher.Toy.prims infoFG connFG kl13
        = some (frames.map (Pipeline.addressed connFG.opts connFG)) ∧
      Spec.reassemble frames = some ([], k16) ∧ TimesFromCarriers infoFG connFG frames := by
  have hres : CipherSuite.resolve (Bytes.beNat tFG.sh.cipherSuite) = some ps13 := by decide +kernel
  have hargs : Pipeline.suiteArgs ps13 = some a13 := some_getD _ _ (by decide +kernel)
  have hfound : Keylog.findSessionSecrets kl13 (Pipeline.natsOfBytes tFG.ch.random)
      = kl13.headD ⟨[], [], []⟩ :: kl13.tail := by decide +kernel
  have hsec : Pipeline.secretsOf true (kl13.headD ⟨[], [], []⟩ :: kl13.tail) = some secrets13 := by decide +kernel
  have hgen : KeySchedule.generateKeys hashes .tls13 a13.ks secrets13 tFG.ch.random tFG.sh.random
      = .ok (some (.tls13 k13)) :=
    gen_eq13 (KeySchedule.generateKeys hashes .tls13 a13.ks secrets13 cr0 sr0) k13 (by decide +kernel)
  have hcls : classOf a13.bulk .tls13
      (Session.extGet ((tFG.sh.extensions.getD []).map extPair) [0x00, 0x16]).isSome a13.tagLen = some cls13 := by
    decide +kernel
  have hwr : ∀ d, ∀ r ∈ tFG.records Cipher.Toy.prims Cipher.Toy.laws cls13 x13 d, WholeRecord r := by
    intro d; cases d <;> decide +kernel
  have hlen : costF tFG.cF + costF tFG.sF ≤ seqLimit := by decide +kernel
  have h := tls13_connection_exact_fragmented_aux hashes Cipher.Toy.prims Cipher.Toy.laws kl13 infoFG connFG rfl tFG
    (by decide) (by decide) rfl rfl rfl rfl (by unfold Negotiated; decide)
    ps13 hres a13 hargs _ _ hfound secrets13 hsec k13 hgen
    (k13.clientHsKey.getD []) (k13.clientHsIv.getD []) (k13.clientAppKey.getD []) (k13.clientAppIv.getD [])
    (k13.serverHsKey.getD []) (k13.serverHsIv.getD []) (k13.serverAppKey.getD []) (k13.serverAppIv.getD [])
    (by decide +kernel) cls13 hcls (by decide +kernel) (by decide +kernel) (by decide +kernel) (by decide +kernel)
    conformFG.1 conformFG.2 hwr hlen deliveredFG causalFG
  have e : (plainOfF tFG.cF, plainOfF tFG.sF) = (([] : Bytes), k16) := by decide
  rw [e] at h
  exact h


/-- COUNTEREXAMPLE INPUT. The same flight cut into TWO protected records after 12 bytes only: the second record starts
    inside the Certificate (00 ff ff ff 07 07) and continues with the whole Finished; then 16 bytes of application data -/
def tFB : TranscriptF :=
  { ch := ch0, sh := sh13, rvC := [3, 1], rvS := [3, 3], ver := [3, 3],
    cF := [.ccs, .frag (encMsgs [C01Pipeline.Ex.fin]) 1 ⟨[], [], [], 0⟩],
    sF := [.ccs, .frag (flightBytes.take 12) 0 ⟨[], [], [], 0⟩, .frag (flightBytes.drop 12) 1 ⟨[], [], [], 0⟩,
             .app k16 ⟨[], [], [], 3⟩] }

def recsFB (d : Bool) : List Bytes := tFB.records Cipher.Toy.prims Cipher.Toy.laws cls13 x13 d
def uCB (i : Nat) : Bytes := (recsFB false).getD i []
def uSB (i : Nat) : Bytes := (recsFB true).getD i []
def capFB : List (Bool × Bytes × Nat) := 
  [(false, uCB 0, 0), (true, uSB 0 ++ uSB 1, 0), (true, uSB 2 ++ uSB 3, (uSB 0).length + (uSB 1).length),
   (false, uCB 1 ++ uCB 2, (uCB 0).length),
   (true, uSB 4, (uSB 0).length + (uSB 1).length + (uSB 2).length + (uSB 3).length)]
def pktsFB : List MainLoop.Pkt := (List.range capFB.length).map fun i =>
  mkPkt (capFB.getD i (false, [], 0)).1 (capFB.getD i (false, [], 0)).2.1 i
def infoFB (tag : Nat) : Pipeline.Info :=
  ⟨(isnOf (capFB.getD tag (false, [], 0)).1 + (capFB.getD tag (false, [], 0)).2.2) % 4294967296, 1000 + tag, [1], [2], false⟩
def connFB : Pipeline.Conn := ⟨⟨[443], false, false, false, true, []⟩, sEp, cEp, [2], [1], false, pktsFB⟩
def chunksFB (d : Bool) : List Bytes := if d then [uSB 0 ++ uSB 1, uSB 2 ++ uSB 3, uSB 4] else [uCB 0, uCB 1 ++ uCB 2]

theorem deliveredFB : DeliveredInOrder infoFB connFB (tFB.stream Cipher.Toy.prims Cipher.Toy.laws cls13 x13) := by
  intro d
  cases d
  · refine ⟨⟨isnOf false, ?_⟩, by decide +kernel⟩
    have hcut : IsCut (tFB.stream Cipher.Toy.prims Cipher.Toy.laws cls13 x13 false) (chunksFB false) :=
      ⟨by decide +kernel, by decide +kernel⟩
    have e2 : (dirSegs infoFB connFB.server false connFB.pkts).map Props.C05.wire
        = segsOf (isnOf false) 0 (chunksFB false) := by decide +kernel
    unfold InOrder
    rw [e2]; exact Delivers.cut _ hcut
  · refine ⟨⟨isnOf true, ?_⟩, by decide +kernel⟩
    have hcut : IsCut (tFB.stream Cipher.Toy.prims Cipher.Toy.laws cls13 x13 true) (chunksFB true) :=
      ⟨by decide +kernel, by decide +kernel⟩
    have e2 : (dirSegs infoFB connFB.server true connFB.pkts).map Props.C05.wire
        = segsOf (isnOf true) 0 (chunksFB true) := by decide +kernel
    unfold InOrder
    rw [e2]; exact Delivers.cut _ hcut

theorem causalFB : Causal13 (connRecs infoFB connFB) :=
  ⟨(connRecs infoFB connFB).headD (⟨[], []⟩, false), ((connRecs infoFB connFB).drop 1).headD (⟨[], []⟩, false),
    (connRecs infoFB connFB).drop 2, by decide +kernel, by decide +kernel, by decide +kernel⟩

theorem conformFB : FragConform tFB.cF ∧ FragConform tFB.sF := by
  constructor
  · refine ⟨[C01Pipeline.Ex.fin], by decide, by decide +kernel, ?_, ?_⟩
    · simp only [tFB, FinsRight]; decide +kernel
    · simp only [tFB, FragsNonEmpty]; decide +kernel
  · refine ⟨flightMsgs, by decide, by decide +kernel, ?_, ?_⟩
    · simp only [tFB, FinsRight]; decide +kernel
    · simp only [tFB, FragsNonEmpty]; decide +kernel

/-- the input on which the tool failed before the repair (`legacy_tls13_fragmented_counterexample`): every hypothesis of
    `tls13_connection_exact_fragmented` holds for `tFB` — the second record starts inside the Certificate and carries the
    whole Finished — and the server's application data is now exported -/
theorem tls13_fragmented_instance_B :
    ∃ frames, Pipeline.connOut hashes Cipher.Toy.prims infoFB connFB kl13
        = some (frames.map (Pipeline.addressed connFB.opts connFB)) ∧
      Spec.reassemble frames = some ([], k16) ∧ TimesFromCarriers infoFB connFB frames := by
  have hres : CipherSuite.resolve (Bytes.beNat tFB.sh.cipherSuite) = some ps13 := by decide +kernel
  have hargs : Pipeline.suiteArgs ps13 = some a13 := some_getD _ _ (by decide +kernel)
  have hfound : Keylog.findSessionSecrets kl13 (Pipeline.natsOfBytes tFB.ch.random)
      = kl13.headD ⟨[], [], []⟩ :: kl13.tail := by decide +kernel
  have hsec : Pipeline.secretsOf true (kl13.headD ⟨[], [], []⟩ :: kl13.tail) = some secrets13 := by decide +kernel
  have hgen : KeySchedule.generateKeys hashes .tls13 a13.ks secrets13 tFB.ch.random tFB.sh.random
      = .ok (some (.tls13 k13)) :=
    gen_eq13 (KeySchedule.generateKeys hashes .tls13 a13.ks secrets13 cr0 sr0) k13 (by decide +kernel)
  have hcls : classOf a13.bulk .tls13
      (Session.extGet ((tFB.sh.extensions.getD []).map extPair) [0x00, 0x16]).isSome a13.tagLen = some cls13 := by
    decide +kernel
  have hwr : ∀ d, ∀ r ∈ tFB.records Cipher.Toy.prims Cipher.Toy.laws cls13 x13 d, WholeRecord r := by
    intro d; cases d <;> decide +kernel
  have hlen : costF tFB.cF + costF tFB.sF ≤ seqLimit := by decide +kernel
  have h := tls13_connection_exact_fragmented hashes Cipher.Toy.prims Cipher.Toy.laws kl13 infoFB connFB rfl tFB
    (by decide) (by decide) rfl rfl rfl rfl (by unfold Negotiated; decide)
    ps13 hres a13 hargs _ _ hfound secrets13 hsec k13 hgen
    (k13.clientHsKey.getD []) (k13.clientHsIv.getD []) (k13.clientAppKey.getD []) (k13.clientAppIv.getD [])
    (k13.serverHsKey.getD []) (k13.serverHsIv.getD []) (k13.serverAppKey.getD []) (k13.serverAppIv.getD [])
    (by decide +kernel) cls13 hcls (by decide +kernel) (by decide +kernel) (by decide +kernel) (by decide +kernel)
    conformFB.1 conformFB.2 hwr hlen deliveredFB causalFB
  have e : (plainOfF tFB.sF) = k16 := by decide
  have e2 : plainOfF tFB.cF = [] := by decide
  rw [e, e2] at h
  exact h

/-- a decryptor that only counts its `update_keys` calls -/
def counting : Session.Ops Nat := ⟨fun d _ _ => (d, none), fun d _ => (d + 1, true), fun _ _ _ _ _ _ => .noSuite⟩

/-- BEFORE the repair (`Session.Legacy.hs13Loop`: the walk restarts at offset 0 of every record's plaintext): over the
    two records of `tFB`'s server flight `update_keys` is never called although a Finished ends in the second one —
    while the repaired loop calls it exactly once and ends with an empty buffer. Replayed on the real tool: the server's
    application data was lost (0 of 21 bytes exported). -/
theorem legacy_tls13_fragmented_counterexample :
    finCount flightMsgs = 1 ∧
    (Session.Legacy.hs13Loop counting (flightBytes.drop 12) true (flightBytes.drop 12).length 0
      (Session.Legacy.hs13Loop counting (flightBytes.take 12) true 12 0 0).1).1 = 0 ∧
    (let r1 := Session.hs13Loop counting true 12 (flightBytes.take 12) 0
     Session.hs13Loop counting true (r1.2.1 ++ flightBytes.drop 12).length (r1.2.1 ++ flightBytes.drop 12) r1.1)
      = (1, [], true) := by
  decide +kernel

end Ex2

end TLX.Props.C01Capstone
