/-
C06 (TCP half) — every exported TCP conversation opens with a three-way handshake and carries its data in gap-free,
non-overlapping sequence space with consistent acknowledgements, so that a standard reassembler recovers exactly the
exported streams; a record of n bytes carried by k input packets is re-split into at most k segments whose
concatenation is the record.
-/
import TLX.TcpOut
import TLX.Spec.TcpReassemble
namespace TLX.Props.C06
open TLX TLX.TcpOut TLX.Spec

theorem equalParts_length (d : Bytes) (pl m : Nat) : (equalParts d pl m).length = m := by
  induction m with
  | zero => rfl
  | succ m ih => simp [equalParts, ih]

theorem equalParts_flatten (d : Bytes) (pl m : Nat) :
    (equalParts d pl m).flatten = d.take (m * pl) := by
  induction m with
  | zero => simp [equalParts]
  | succ m ih =>
    simp only [equalParts, List.flatten_append, ih, List.flatten_cons, List.flatten_nil, List.append_nil,
      Bytes.slice]
    rw [Nat.succ_mul, List.take_add]
    congr 2
    omega

/-- C06: a record of `n` bytes carried by `k ≥ 1` packets is re-split into parts whose concatenation is the record -/
theorem parts_flatten (d : Bytes) (k : Nat) (ps : List Bytes) (h : parts d k = some ps) : ps.flatten = d := by
  unfold parts at h
  split at h
  · exact absurd h (by simp)
  · rename_i hk
    simp only [Option.some.injEq] at h
    subst h
    have hle : (k - 1) * (d.length / k) ≤ d.length := by
      have h1 : (k - 1) * (d.length / k) ≤ k * (d.length / k) := Nat.mul_le_mul_right _ (by omega)
      have h2 : k * (d.length / k) ≤ d.length := Nat.mul_div_le _ _
      omega
    rw [List.flatten_append, equalParts_flatten]
    split
    · simp [List.take_append_drop]
    · rename_i hlt
      have : (k - 1) * (d.length / k) = d.length := by omega
      simp [this]

/-- … and into at most `k` parts -/
theorem parts_length_le (d : Bytes) (k : Nat) (ps : List Bytes) (h : parts d k = some ps) : ps.length ≤ k := by
  unfold parts at h
  split at h
  · exact absurd h (by simp)
  · simp only [Option.some.injEq] at h
    subst h
    rw [List.length_append, equalParts_length]
    split <;> simp <;> omega

/-- the split fails only for a record without carriers -/
theorem parts_isSome (d : Bytes) (k : Nat) (hk : 0 < k) : (parts d k).isSome := by
  unfold parts; simp [Nat.ne_of_gt hk]

/-- bytes a list of records contributes to one direction -/
def dirBytes (fromServer : Bool) (recs : List Rec) : Bytes :=
  (recs.filter (·.fromServer == fromServer)).flatMap Rec.bytes

theorem step_data_c (c n : Nat) (a b : Bytes) (t : Nat) (p : Bytes) :
    reasmStep (some ⟨c, n, a, b⟩) ⟨t, false, 0x18, c, n, p⟩ = some ⟨c + p.length, n, a ++ p, b⟩ := by
  simp [reasmStep]

theorem step_data_s (c n : Nat) (a b : Bytes) (t : Nat) (p : Bytes) :
    reasmStep (some ⟨c, n, a, b⟩) ⟨t, true, 0x18, n, c, p⟩ = some ⟨c, n + p.length, a, b ++ p⟩ := by
  simp [reasmStep]

theorem step_ack_c (c n : Nat) (a b : Bytes) (t : Nat) :
    reasmStep (some ⟨c, n, a, b⟩) ⟨t, false, 0x10, c, n, []⟩ = some ⟨c, n, a, b⟩ := by
  simp [reasmStep]

theorem step_ack_s (c n : Nat) (a b : Bytes) (t : Nat) :
    reasmStep (some ⟨c, n, a, b⟩) ⟨t, true, 0x10, n, c, []⟩ = some ⟨c, n, a, b⟩ := by
  simp [reasmStep]

/-- the segments of one record's parts, replayed by the spec reassembler from the builder's running sequence
    numbers, are accepted and append exactly the parts to the sender's stream -/
theorem partsFrames_reasm (c n : Nat) (srv : Bool) (ps : List Bytes) (ts : List Nat) (hlen : ps.length ≤ ts.length)
    (a b : Bytes) :
    (partsFrames (c, n) srv ps ts).2.foldl reasmStep (some ⟨c, n, a, b⟩) =
      some ⟨(if srv then c else c + ps.flatten.length), (if srv then n + ps.flatten.length else n),
            (if srv then a else a ++ ps.flatten), (if srv then b ++ ps.flatten else b)⟩ ∧
    (partsFrames (c, n) srv ps ts).1 =
      ((if srv then c else c + ps.flatten.length), (if srv then n + ps.flatten.length else n)) := by
  induction ps generalizing c n ts a b with
  | nil => cases srv <;> simp [partsFrames]
  | cons p ps ih =>
    cases ts with
    | nil => simp at hlen
    | cons t tl =>
      have hlen' : ps.length ≤ tl.length := by simpa using hlen
      cases srv with
      | true =>
        have := ih c (n + p.length) tl hlen' a (b ++ p)
        simp only [partsFrames, partFrames, if_true, List.foldl_append, List.foldl_cons, List.foldl_nil,
          step_data_s, step_ack_c] at this ⊢
        constructor
        · rw [this.1]; simp [Nat.add_assoc]
        · rw [this.2]; simp [Nat.add_assoc]
      | false =>
        have := ih (c + p.length) n tl hlen' (a ++ p) b
        simp only [partsFrames, partFrames, List.foldl_append, List.foldl_cons, List.foldl_nil,
          step_data_c, step_ack_s, Bool.false_eq_true, if_false] at this ⊢
        constructor
        · rw [this.1]; simp [Nat.add_assoc]
        · rw [this.2]; simp [Nat.add_assoc]

theorem recFrames_reasm (c n : Nat) (r : Rec) (q' : Seqs) (fs : List Frame)
    (h : recFrames (c, n) r = some (q', fs)) (a b : Bytes) :
    fs.foldl reasmStep (some ⟨c, n, a, b⟩) =
      some ⟨q'.1, q'.2, (if r.fromServer then a else a ++ r.bytes), (if r.fromServer then b ++ r.bytes else b)⟩ ∧
    q' = ((if r.fromServer then c else c + r.bytes.length), (if r.fromServer then n + r.bytes.length else n)) := by
  unfold recFrames at h
  cases hp : parts r.bytes r.ts.length with
  | none => simp [hp] at h
  | some ps =>
    simp only [hp, Option.map_some, Option.some.injEq] at h
    have hfl := parts_flatten _ _ _ hp
    have hle := parts_length_le _ _ _ hp
    have := partsFrames_reasm c n r.fromServer ps r.ts hle a b
    rw [h] at this
    simp only [hfl] at this
    obtain ⟨h1, h2⟩ := this
    refine ⟨?_, h2⟩
    rw [h1, h2]

/-- every reachable state of the builder: the segments of any record list are accepted by the spec reassembler from the
    builder's running sequence numbers, and append exactly the records' bytes to the two streams -/
theorem bodyFrames_reasm (recs : List Rec) (c n : Nat) (q' : Seqs) (fs : List Frame)
    (h : bodyFrames (c, n) recs = some (q', fs)) (a b : Bytes) :
    fs.foldl reasmStep (some ⟨c, n, a, b⟩) =
      some ⟨q'.1, q'.2, a ++ dirBytes false recs, b ++ dirBytes true recs⟩ := by
  induction recs generalizing c n q' fs a b with
  | nil =>
    simp only [bodyFrames, Option.some.injEq, Prod.mk.injEq] at h
    obtain ⟨rfl, rfl⟩ := h
    simp [dirBytes]
  | cons r rs ih =>
    simp only [bodyFrames, Option.bind_eq_some_iff, Option.map_eq_some_iff] at h
    obtain ⟨⟨q1, f1⟩, h1, ⟨q2, f2⟩, h2, h3⟩ := h
    simp only [Prod.mk.injEq] at h3
    obtain ⟨rfl, rfl⟩ := h3
    obtain ⟨e1, e2⟩ := recFrames_reasm c n r q1 f1 h1 a b
    rw [List.foldl_append, e1]
    have := ih q1.1 q1.2 q2 f2 (by simpa using h2)
      (if r.fromServer then a else a ++ r.bytes) (if r.fromServer then b ++ r.bytes else b)
    rw [this]
    cases hsrv : r.fromServer <;> simp [dirBytes, hsrv, List.append_assoc]

/-- C06: whatever the record list, the conversation `OutputBuilder.build` emits opens with a three-way handshake,
    is gap-free, non-overlapping and consistently acknowledged (the spec reassembler accepts it), and reassembles to
    exactly the exported streams: the concatenation of the client's resp. the server's record bytes, in order. -/
theorem reassemble_build (recs : List Rec) (fs : List Frame) (h : build recs = some fs) :
    reassemble fs = some (dirBytes false recs, dirBytes true recs) := by
  unfold build at h
  cases recs with
  | nil => simp at h; subst h; simp [reassemble, dirBytes]
  | cons r rs =>
    simp only at h
    cases hts : r.ts with
    | nil => simp [hts] at h
    | cons t0 tl =>
      simp only [hts, Option.map_eq_some_iff] at h
      obtain ⟨⟨q', body⟩, hb, rfl⟩ := h
      have := bodyFrames_reasm (r :: rs) 1 1 q' body hb [] []
      simp only [handshake, List.cons_append, List.nil_append, reassemble, handshakeOk]
      simp only [List.isEmpty_nil, Bool.not_false, Bool.and_true, beq_self_eq_true, Nat.zero_add,
        Bool.and_self, if_true, Bool.true_and]
      simp [this]

/-- the builder raises only for a record without carrier packets (`Props.C07` shows reassembly never produces one) -/
theorem build_total (recs : List Rec) (h : ∀ r ∈ recs, r.ts ≠ []) : (build recs).isSome := by
  have hb : ∀ (recs : List Rec) (q : Seqs), (∀ r ∈ recs, r.ts ≠ []) → (bodyFrames q recs).isSome := by
    intro recs
    induction recs with
    | nil => intro q _; simp [bodyFrames]
    | cons r rs ih =>
      intro q h
      have hr : r.ts ≠ [] := h r (by simp)
      have hp := parts_isSome r.bytes r.ts.length (by
        cases hts : r.ts with
        | nil => exact absurd hts hr
        | cons _ _ => simp)
      obtain ⟨ps, hps⟩ := Option.isSome_iff_exists.mp hp
      simp only [bodyFrames, recFrames, hps, Option.map_some, Option.bind_some]
      have := ih (partsFrames q r.fromServer ps r.ts).1 (fun x hx => h x (by simp [hx]))
      obtain ⟨v, hv⟩ := Option.isSome_iff_exists.mp this
      simp [hv]
  unfold build
  cases recs with
  | nil => simp
  | cons r rs =>
    have hr : r.ts ≠ [] := h r (by simp)
    cases hts : r.ts with
    | nil => exact absurd hts hr
    | cons t0 tl =>
      simp only [hts, Option.isSome_map]
      exact hb _ _ h

-- Non-vacuity: a concrete conversation (a 5-byte client record carried by 2 packets, a 3-byte server record)
example : build [⟨some [1, 2, 3, 4, 5], [100, 101], false⟩, ⟨some [9, 8, 7], [102], true⟩] ≠ none := by decide
example : (build [⟨some [1, 2, 3, 4, 5], [100, 101], false⟩, ⟨some [9, 8, 7], [102], true⟩]).bind reassemble
    = some ([1, 2, 3, 4, 5], [9, 8, 7]) := by decide
example : parts [1, 2, 3, 4, 5] 2 = some [[1, 2], [3, 4, 5]] := by decide
example : parts [1] 3 = some [[], [], [1]] := by decide

end TLX.Props.C06
