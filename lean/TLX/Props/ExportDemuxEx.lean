/-
Instances of `Props/ExportDemux.lean`, evaluated by the kernel (Lean hashes, toy ciphers, toy mask): two TLS-port TCP flows
and more (`C04.Ex.capC`) interleaved with two QUIC connections (`C02File2.Ex` and a second client with other CIDs) —
separated, `export_demux` applies, the blocks are those of the solo runs; and the whole-program counterexample
`prefix_cross_routing` (replayed on the real tool: harness/export_demux_replay.py).
-/
import TLX.Props.ExportDemux
import TLX.Props.ExportPropsQuicEx
set_option autoImplicit false
namespace TLX.Props.ExportDemux.Ex
open TLX TLX.MainLoop TLX.Export TLX.Spec.Demux TLX.QuicPipeline TLX.Props.C02File TLX.Props.C02File2 TLX.Lemmas.ExportProps
open TLX.Lemmas.ExportDemux TLX.Lemmas.MainLoop TLX.Props.ExportPropsQuic
open TLX.Spec.QuicSender TLX.Spec.QuicConnection TLX.Spec.QuicPackets TLX.Spec.TlsCapture TLX.Spec.TlsHello
open TLX.Spec.TlsHandshakeFraming TLX.Props.C02Capstone TLX.Props.C02Capstone.ExConf TLX.Quic.Session TLX.Props.C02Capstone3
open TLX.Spec.KeySchedules TLX.Spec.QuicFrames TLX.Cipher
open TLX.Props.C02File.Ex (H Pc L m5 maskFn sel chS shS caS saS w0 w2 usAt keys fl M F)
open TLX.Props.C01File.Ex (cMac sMac)
open TLX.Props.ExportPropsQuic.Ex (info view)

/-- a second QUIC connection: another client (10.0.0.3:50002), other connection IDs, the same handshake and data -/
structure Cids where
  s0 : Bytes
  s : Bytes
  c : Bytes

def qCI (k : Cids) : PkH :=
  ⟨{ level := .initial, srv := false, ts := usAt 1, pn := 0, pnLen := 1, frames := [.crypto ⟨0, w0⟩ w2 M, .padding 30],
     dcid := k.s0, scid := k.c, typeBits := 0, lenW := w2 }, m5⟩
def qSI (k : Cids) : PkH :=
  ⟨{ level := .initial, srv := true, ts := usAt 2, pn := 0, pnLen := 2, frames := [.crypto ⟨0, w0⟩ w2 (encodeServerHello shx)],
     dcid := k.c, scid := k.s, typeBits := 0, lenW := w2, lowBits := 3 }, m5⟩
def qSH (k : Cids) : PkH :=
  ⟨{ level := .handshake, srv := true, ts := usAt 2, pn := 0, pnLen := 1, frames := [.crypto ⟨0, w0⟩ w2 F],
     dcid := k.c, scid := k.s, typeBits := 2, lenW := w2 }, m5⟩
def qCH (k : Cids) : PkH :=
  ⟨{ level := .handshake, srv := false, ts := usAt 4, pn := 0, pnLen := 1,
     frames := [.crypto ⟨0, w0⟩ w0 (handshake 20 [6, 6, 6, 6]), .ping],
     dcid := k.s, scid := k.c, typeBits := 2, lenW := w2 }, m5⟩
def oS (k : Cids) : Dg1 :=
  ⟨{ level := .oneRtt, srv := true, ts := usAt 2, pn := 0, pnLen := 1,
     frames := [.stream false ⟨3, w0⟩ none (some w0) [0x48, 0x49], .padding 3], dcid := k.c, gen := 0 }, m5⟩
def oC (k : Cids) : Dg1 :=
  ⟨{ level := .oneRtt, srv := false, ts := usAt 4, pn := 0, pnLen := 1,
     frames := [.stream true ⟨0, w0⟩ none (some w0) [0x47, 0x45, 0x54], .padding 3], dcid := k.s, gen := 0 }, m5⟩
def b5 (k : Cids) : Dg1 :=
  ⟨{ level := .oneRtt, srv := true, ts := usAt 5, pn := 1, pnLen := 2,
     frames := [.ping, .stream false ⟨3, w0⟩ (some ⟨2, w0⟩) none [0x4f, 0x4b]], dcid := k.c, gen := 1, lowBits := 5 }, m5⟩
def b7 (k : Cids) : Dg1 :=
  ⟨{ level := .oneRtt, srv := false, ts := usAt 7, pn := 1, pnLen := 1,
     frames := [.stream false ⟨4, w0⟩ none (some w0) [0x4d, 0x4f, 0x52, 0x45], .padding 3], dcid := k.s, gen := 1 }, m5⟩
def d0 (k : Cids) : DgM := ⟨false, usAt 1, [qCI k], none⟩
def dS (k : Cids) : DgM := ⟨true, usAt 2, [qSI k, qSH k], some (oS k)⟩
def dC (k : Cids) : DgM := ⟨false, usAt 4, [qCH k], some (oC k)⟩
def wM (k : Cids) : DgM → Bytes := DgM.wire H Pc L (d0 k).dcid sel shS chS saS caS
def w1 : Dg1 → Bytes := wireOf H Pc L sel .v1 (rfcGen (hashOf H sel.hash) sel.keyLen saS caS 0)

/-- the five datagrams of a connection on the flow `f`, tags `t+1, t+2, t+4, t+5, t+7` -/
def conn (f : Flow) (k : Cids) (t : Nat) : List (Item Keylog.Key) :=
  [.frame (dgPkt f false (wM k (d0 k)) (t + 1)), .frame (dgPkt f true (wM k (dS k)) (t + 2)),
   .frame (dgPkt f false (wM k (dC k)) (t + 4)), .frame (dgPkt f true (w1 (b5 k)) (t + 5)),
   .frame (dgPkt f false (w1 (b7 k)) (t + 7))]

def k1 : Cids := ⟨[0x51, 0x51, 0x51, 0x51, 0x51, 0x51, 0x51, 0x51], [0x52, 0x01], [0xc1]⟩
def k2 : Cids := ⟨[0x61, 0x61, 0x61, 0x61, 0x61, 0x61, 0x61, 0x61], [0x62, 0x01], [0xd1]⟩
def fl2 : Flow := ⟨false, [10, 0, 0, 3], 50002, [10, 0, 0, 2], 443⟩
def args0 : Args := ⟨none, none, false, false, false⟩
def o : Opts := (optsOf args0).getD ⟨[], false, false, false, false, []⟩
theorem ho : optsOf args0 = some o := by decide +kernel

theorem solo2 : view (quicFrames maskFn H Pc info o (some keys) (conn fl2 k2 30)) =
    [[(132, [0x48, 0x49]), (134, [0x47, 0x45, 0x54]), (135, [0x4f, 0x4b]), (137, [0x4d, 0x4f, 0x52, 0x45])]] := by
  decide +kernel

/-! ### two TLS and two QUIC connections, interleaved -/
def at' (l : List (Item Keylog.Key)) (i : Nat) : Item Keylog.Key := l.getD i (.dsb [])
def tlsItems : List (Item Keylog.Key) := C04.Ex.capC.map Item.frame
def q1 : List (Item Keylog.Key) := conn fl k1 20
def q2 : List (Item Keylog.Key) := conn fl2 k2 30

/-- `C04.Ex.capC` (four TCP flows with a server port, one without), the connection of `C02File2.Ex` and a second QUIC
    connection of another client, packet by packet -/
def merged : List (Item Keylog.Key) :=
  [at' tlsItems 0, at' q1 0, at' tlsItems 1, at' q2 0, at' tlsItems 2, at' q1 1, at' q2 1, at' tlsItems 3, at' tlsItems 4,
   at' q2 2, at' q1 2, at' tlsItems 5, at' q1 3, at' tlsItems 6, at' q2 3, at' tlsItems 7, at' q1 4, at' tlsItems 8, at' q2 4]

/-- the connection of a datagram: by the client's address -/
def lab (p : Pkt) : Nat :=
  if p.l4 ≠ .udp then 0
  else if p.src.ip = [10, 0, 0, 1] ∨ p.dst.ip = [10, 0, 0, 1] then 1
  else if p.src.ip = [10, 0, 0, 3] ∨ p.dst.ip = [10, 0, 0, 3] then 2 else 0

abbrev QM := quicMachine maskFn H Pc info
def V : List (QIn Keylog.Key) := quicView o ((some keys : Option (List Keylog.Key)).getD []) merged

theorem V_labels : V.map (fun x => (lab x.p, x.p.tag)) =
    [(1, 21), (2, 31), (1, 22), (2, 32), (2, 34), (1, 24), (1, 25), (2, 35), (1, 27), (2, 37)] := by decide +kernel

abbrev labQ : QIn Keylog.Key → Nat := fun x => lab x.p

theorem sep1 : CaptureSeparated QM o (cls labQ 1 V) (rest labQ 1 V) :=
  captureSeparated_of_sepCheck _ _ _ _ (by decide +kernel)
theorem sep2 : CaptureSeparated QM o (cls labQ 2 V) (rest labQ 2 V) :=
  captureSeparated_of_sepCheck _ _ _ _ (by decide +kernel)

/-- the two QUIC connections of the merged capture are separated -/
theorem sepN : CaptureSeparatedN QM o lab V := by
  apply captureSeparatedN_of_check
  have hl : ∀ x ∈ V, lab x.p = 1 ∨ lab x.p = 2 := by decide +kernel
  intro x hx
  rcases hl x hx with h | h <;> rw [h]
  · exact sep1
  · exact sep2

/-- **`export_demux` on the instance**: what `run()` hands to the writer for the merged capture -/
example := export_demux maskFn H Pc info freshState args0 o ho (some keys) merged lab sepN

/-- the QUIC blocks of the merged capture, and of the capture restricted to either connection: the same blocks -/
theorem merged_quic_view :
    view (quicFrames maskFn H Pc info o (some keys) merged) =
      [[(122, [0x48, 0x49]), (124, [0x47, 0x45, 0x54]), (125, [0x4f, 0x4b]), (127, [0x4d, 0x4f, 0x52, 0x45])],
       [(132, [0x48, 0x49]), (134, [0x47, 0x45, 0x54]), (135, [0x4f, 0x4b]), (137, [0x4d, 0x4f, 0x52, 0x45])]] ∧
    view (quicFrames maskFn H Pc info o (some keys) (only (fun p => lab p == 1) merged)) =
      [[(122, [0x48, 0x49]), (124, [0x47, 0x45, 0x54]), (125, [0x4f, 0x4b]), (127, [0x4d, 0x4f, 0x52, 0x45])]] ∧
    view (quicFrames maskFn H Pc info o (some keys) (only (fun p => lab p == 2) merged)) =
      [[(132, [0x48, 0x49]), (134, [0x47, 0x45, 0x54]), (135, [0x4f, 0x4b]), (137, [0x4d, 0x4f, 0x52, 0x45])]] := by
  decide +kernel

/-- the TLS side of the same capture: four conversations (the flow without a server port has none), in order of first
    appearance -/
theorem merged_tls_view :
    (flowHeads o (tcpView o merged)).map (·.tag) = [1, 2, 3, 5] ∧
    (tlsConvs H Pc info o merged).map (fun s => (s.server.port, s.client.port)) = [(443, 5000), (443, 5000), (443, 5001), (443, 5000)] := by
  decide +kernel

/-! ### what is NOT separated: a connection ID of another connection that a short-header datagram happens to start with -/
/-- an unrelated client (10.0.0.9:40000) whose Initial names, as its own connection ID, `c1 X`: the CID `c1` of the first
    connection's client followed by the byte that happens to follow it in the server's datagram `OK` -/
def k3 : Cids := ⟨[0x71, 0x71, 0x71, 0x71, 0x71, 0x71, 0x71, 0x71], [0x72, 0x01], [0xc1, (w1 (b5 k1)).getD 2 0]⟩
def fl3 : Flow := ⟨false, [10, 0, 0, 9], 40000, [10, 0, 0, 2], 443⟩
def intruder : Item Keylog.Key := .frame (dgPkt fl3 false (wM k3 (d0 k3)) 11)
def mergedX : List (Item Keylog.Key) := intruder :: q1
def labX (p : Pkt) : Nat := if p.src.ip = [10, 0, 0, 9] ∨ p.dst.ip = [10, 0, 0, 9] then 3 else 1

def VX : List (QIn Keylog.Key) := quicView o ((some keys : Option (List Keylog.Key)).getD []) mergedX

/-- the two runs, evaluated by the kernel: the intruder's session holds `{c1 5a}` and `{71…}`, the connection's session
    `{c1}` and `{51…, 52 01}` — different 4-tuples, disjoint CID sets, no CID a prefix of another's CONNECTION ID … but `c1 5a`
    is what the server's datagram `OK` (`68 c1 5a fe …`) starts with after its first byte. In the merged run that datagram is
    given to the intruder's session and `OK` (capture time 125) is missing from the connection's export; alone it is there. -/
theorem prefix_cross_routing_view :
    (quicSess maskFn H Pc info o (some keys) mergedX).map (fun s => (s.st.st.clientCids, s.st.st.serverCids)) =
      [([[0xc1, 0x5a]], [[0x71, 0x71, 0x71, 0x71, 0x71, 0x71, 0x71, 0x71]]),
       ([[0xc1]], [[0x51, 0x51, 0x51, 0x51, 0x51, 0x51, 0x51, 0x51], [0x52, 0x01]])] ∧
    (w1 (b5 k1)).take 4 = [0x68, 0xc1, 0x5a, 0xfe] ∧
    view (quicFrames maskFn H Pc info o (some keys) mergedX) =
      [[], [(122, [0x48, 0x49]), (124, [0x47, 0x45, 0x54]), (127, [0x4d, 0x4f, 0x52, 0x45])]] ∧
    view (quicFrames maskFn H Pc info o (some keys) (only (fun p => labX p == 1) mergedX)) =
      [[(122, [0x48, 0x49]), (124, [0x47, 0x45, 0x54]), (125, [0x4f, 0x4b]), (127, [0x4d, 0x4f, 0x52, 0x45])]] := by
  decide +kernel

/-- **whole-program counterexample**: without the `short` clause of `CaptureSeparated` the conclusion of `export_demux`
    fails — the capture `mergedX` is not separated, and the block of connection 1 alone is not among the blocks of the run. -/
theorem prefix_cross_routing : ¬ CaptureSeparatedN QM o labX VX := by
  intro h
  have hm := quic_frames_by_conn maskFn H Pc info o (some keys) mergedX labX h 1
  have hv := Props.ExportInputs.merge_map hm (fun fs : List Pipeline.OutPkt => fs.map fun p => (p.ts, p.payload))
  have hmem := (hv.mem [(122, [0x48, 0x49]), (124, [0x47, 0x45, 0x54]), (125, [0x4f, 0x4b]), (127, [0x4d, 0x4f, 0x52, 0x45])]).mpr
    (.inl (by
      have := prefix_cross_routing_view.2.2.2
      unfold view at this
      rw [this]; exact List.mem_singleton_self _))
  have hC := prefix_cross_routing_view.2.2.1
  unfold view at hC
  rw [hC] at hmem
  revert hmem
  decide
end TLX.Props.ExportDemux.Ex

namespace TLX.Props.ExportDemux.Ex
open TLX TLX.MainLoop TLX.Export TLX.Lemmas.ExportProps TLX.Lemmas.ExportDemux TLX.Props.ExportInputs
open TLX.Props.ExportInputs2.Ex (nano evs3 isVictim X3 IS3 evs3_read evs3_wf)
open TLX.Spec.Containers (encode scale)

/-! ### file to file: the libpcap capture of `ExportInputs2.Ex` (two segments of one TCP flow, a segment of another flow, a
non-IP frame) and the file holding only the packet records of the first flow -/
def keepIt : Container.Item → Bool := fun it => !isVictim it
def keepP : Pkt → Bool := fun p => p.l4 == .tcp && (p.src.port == 50000 || p.dst.port == 50000)

theorem demux_file_instance (mask : Quic.Dissect.MaskFn) (H : Crypto.Prims) (P : Cipher.Prims) (kl : Option Keylog.Str) :
    exportFile mask H P ExportInputs2.Ex.args0 true kl (encode nano evs3) =
      ExportInputs.finish (framesFrom mask H P freshState ExportInputs2.Ex.args0 (fileKeysOf kl) X3 (Ingest.lookup IS3)) ∧
    exportFile mask H P ExportInputs2.Ex.args0 true kl (encode nano (evs3.filter (evKeep nano keepIt))) =
      ExportInputs.finish (framesFrom mask H P freshState ExportInputs2.Ex.args0 (fileKeysOf kl) (only keepP X3)
        (Ingest.lookup IS3)) ∧
    (only keepP X3).length = 2 ∧ X3.length = 4 :=
  ⟨(export_demux_encoded mask H P ExportInputs2.Ex.args0 kl nano evs3 keepIt keepP evs3_wf.1 evs3_wf.2 X3 IS3 evs3_read
      (by decide +kernel) (by decide +kernel)).1,
   (export_demux_encoded mask H P ExportInputs2.Ex.args0 kl nano evs3 keepIt keepP evs3_wf.1 evs3_wf.2 X3 IS3 evs3_read
      (by decide +kernel) (by decide +kernel)).2, by decide +kernel, by decide +kernel⟩
end TLX.Props.ExportDemux.Ex
