import TLX.Props.C02Zr
set_option autoImplicit false
set_option linter.unusedSimpArgs false
set_option linter.unusedVariables false
/-! # C02, 0-RTT, the stronger form: packets of the wrong suite are simply missing, everything else is exact

`Props/C02Zr` shows that ONE 0-RTT packet the tool cannot authenticate is skipped without side effect, for any mask bytes.
Here that is carried through the connection: `quic_connection_exact_0rtt_any` is `C02Capstone4.quic_connection_exact_0rtt` with
datagrams of two kinds — `XDgOkE` (the tool's Early keys are the client's: exported) and `XDgBad` (the tool holds Early keys of
another suite: `RejectedT`, the packets are missing) — and the export is that of the history without the bad packets. -/
namespace TLX.Props.C02Zr
open TLX TLX.Quic TLX.Cipher TLX.Quic.Session TLX.Lemmas.QuicSession TLX.Spec.QuicSender TLX.Spec.QuicFrames
open TLX.Props.C02Session TLX.Spec.QuicConnection TLX.Spec.QuicPackets TLX.QuicPipeline
open TLX.Props.C02Capstone TLX.Props.C02Capstone3 TLX.Props.C02Capstone4 TLX.Spec.KeySchedules TLX.Lemmas.KeySchedule

/-! ### a datagram whose 0-RTT packets the tool cannot authenticate -/
section BadDg
variable (maskFn : Dissect.MaskFn) (H : Crypto.Prims) (Pc : Cipher.Prims)

/-- `Rejected` in the senders' terms: the tool's Early keys are those of the suite `selT` (derived from the same early
    secret `e`), the largest packet number of the client's application space is `largest` -/
def RejectedT (selT : SuiteSel) (e : Bytes) (largest : Nat) (p : Pkt) : Prop :=
  ∀ pnb pn aad, p.pn = some pnb → pnResult largest pnb = .ok pn → assocData p = .ok aad →
    ∃ err, decDecrypt (params H Pc []) (earlyDec H selT e) p.payload pn aad false = .error err

theorem rejected_of_T (kl : List Keylog.Key) (selT : SuiteSel) (e : Bytes) (s : St Tls) (p : Pkt)
    (hh : p.htype = .long) (ht : p.ptype = .rtt0) (hc : p.isServer = false)
    (hek : EarlyKeyed H selT e s) (h : RejectedT H Pc selT e s.pnClient.app p) : Rejected (params H Pc kl) s p := by
  intro d pn aad hd hpn haad
  rw [hek.dec] at hd; cases hd
  have hsp : p.ptype.space = some .app := by rw [ht]; rfl
  have hattr : hasPnAttr p = true := by unfold hasPnAttr; rw [hh, ht]
  unfold getFullPn at hpn
  simp only [hsp, hattr, Bool.not_true, Bool.false_eq_true, if_false] at hpn
  cases hpb : p.pn with
  | none => rw [hpb] at hpn; cases hpn
  | some pnb =>
    rw [hpb] at hpn
    simp only [hc, pnLargest, Bool.false_eq_true, if_false] at hpn
    obtain ⟨err, he⟩ := h pnb pn aad hpb hpn haad
    rw [hc]
    exact ⟨err, he⟩

/-- the 0-RTT packets of a datagram, none of which the session can authenticate: the session stays as it is -/
theorem bad_loop (hl : H.Lawful) (kl : List Keylog.Key) (L : SealLaws Pc) (selR selT : SuiteSel) (csR : Bytes)
    (hselR : selectSuite csR = some selR) (e : Bytes) (ts : Nat) (guessed : Bytes) (s : St Tls)
    (hver : s.tls.ver = s.version) (hek : EarlyKeyed H selT e s) (qs : List PkH) (hts : ∀ q ∈ qs, q.x.ts = ts)
    (hok : ∀ q ∈ qs, ZrShape q.x ∧ 1 ≤ q.x.pnLen ∧ q.x.pnLen ≤ 4 ∧ 5 ≤ q.mask.length ∧
      ∃ m', maskFn (envOf s).chacha (quicHp (hashOf H selT.hash) e selT.keyLen)
          (longOf q.x (protectedPayload L.aeadSeal selR.alg (earlyDec H selR e).client q.x)).sample = some m' ∧
        5 ≤ m'.length ∧
        RejectedT H Pc selT e s.pnClient.app
          ((remask (longOf q.x (protectedPayload L.aeadSeal selR.alg (earlyDec H selR e).client q.x)) q.mask m').toPkt false
            q.x.ts))
    (more : Bytes) :
    (Dissect.dissectLoop maskFn (fun x : LoopSt => envOf x.1) (handleTurn (params H Pc kl)) false guessed ts
        (s, none) ((qs.map (zrWire H Pc L selR e)).flatten ++ more)).1 =
      (Dissect.dissectLoop maskFn (fun x : LoopSt => envOf x.1) (handleTurn (params H Pc kl)) false guessed ts
        (s, none) more).1 := by
  induction qs with
  | nil => simp
  | cons q qs ih =>
    obtain ⟨z1, z2, z3, z4, m', z5, z6, z7⟩ := hok q (List.mem_cons_self ..)
    have hq := hts q (List.mem_cons_self ..)
    have hrej := rejected_of_T H Pc kl selT e s _ rfl
      (by show (remask _ q.mask m').ty.ptype = .rtt0
          have : (remask (longOf q.x (protectedPayload L.aeadSeal selR.alg (earlyDec H selR e).client q.x)) q.mask m').ty =
              .zeroRtt := by simp [remask, longOf, z1.level, ltypeOf]
          rw [this]; rfl)
      rfl hek z7
    have := zr_rejected_turn maskFn H Pc hl kl L selR csR hselR e s q z1 z2 z3 z4 hver _ m' hek.hp z5 z6 hrej guessed
      ((qs.map (zrWire H Pc L selR e)).flatten ++ more)
    rw [hq] at this
    simp only [List.map_cons, List.flatten_cons, List.append_assoc]
    rw [this]
    exact ih (fun q' hq' => hts q' (List.mem_cons_of_mem _ hq')) (fun q' hq' => hok q' (List.mem_cons_of_mem _ hq'))

/-- the datagram without its 0-RTT packets: what a datagram of unauthenticated 0-RTT packets is worth to the tool -/
def noZr (d : DgX) : DgX := { d with zr := [] }

/-- one datagram whose 0-RTT packets reach the tool while it holds Early keys of ANOTHER suite `selT` than the client's
    `selR` (`tool`: the last `set_tls_decryptors` call was for `selT`; each packet: `ZrShape`, and for the mask `m'` the
    tool's header-protection primitive returns under ITS early key the AEAD check fails, `RejectedT`); everything else as
    in `XDgOkE`, with the bookkeeping not moved by the 0-RTT packets -/
structure XDgBad (L : SealLaws Pc) (dcid0 : Bytes) (sel selR : SuiteSel) (sh ch sa ca e : Bytes) (t : Trk)
    (ecs : Option SuiteSel) (d : DgX) : Prop where
  client : d.zr ≠ [] → d.base.srv = false
  dirL : ∀ q ∈ d.base.longs, q.x.srv = d.base.srv ∧ q.x.ts = d.base.ts
  dirZ : ∀ q ∈ d.zr, q.x.ts = d.base.ts
  cid : DcidOk t.cc t.sc d.base.srv d.dcid
  pre : HsPks maskFn H Pc L dcid0 sel sh ch t (d.base.longs.take d.pos)
  tool : d.zr ≠ [] → ∃ selT, ecsFold t.core (insOf (d.base.longs.take d.pos)) ecs = some selT ∧
    ∀ q ∈ d.zr, ZrShape q.x ∧ 1 ≤ q.x.pnLen ∧ q.x.pnLen ≤ 4 ∧ 5 ≤ q.mask.length ∧
      ∃ m', maskFn (chachaOf (DgX.t1 t d).core) (quicHp (hashOf H selT.hash) e selT.keyLen)
          (longOf q.x (protectedPayload L.aeadSeal selR.alg (earlyDec H selR e).client q.x)).sample = some m' ∧
        5 ≤ m'.length ∧
        RejectedT H Pc selT e (DgX.t1 t d).tc.app
          ((remask (longOf q.x (protectedPayload L.aeadSeal selR.alg (earlyDec H selR e).client q.x)) q.mask m').toPkt false
            q.x.ts)
  post : HsPks maskFn H Pc L dcid0 sel sh ch (DgX.t1 t d) (d.base.longs.drop d.pos)
  short : ∀ o, d.base.short = some o → o.x.srv = d.base.srv ∧ o.x.ts = d.base.ts ∧ o.x.dcid = d.dcid ∧
      ((DgX.t1 t d).run (d.base.longs.drop d.pos)).keyed = true ∧ o.x.level = .oneRtt ∧ o.x.gen = 0 ∧
      PnLenOk (if o.x.srv then ((DgX.t1 t d).run (d.base.longs.drop d.pos)).ts.app
        else ((DgX.t1 t d).run (d.base.longs.drop d.pos)).tc.app) o.x.pn o.x.pnLen ∧ WellFormedSeq o.x.frames ∧
      DgOk maskFn Pc L sel.alg (genDir (keyUpdate H sel .v1) (rfcGen (hashOf H sel.hash) sel.keyLen sa ca 0) o.x.srv 0)
        (if o.x.srv then quicHp (hashOf H sel.hash) sa sel.keyLen else quicHp (hashOf H sel.hash) ca sel.keyLen)
        (chachaOf ((DgX.t1 t d).run (d.base.longs.drop d.pos)).core) o

/-- **One datagram with unauthenticated 0-RTT packets** through `handle_packet`: exactly as the datagram without them
    (`noZr d`) — bookkeeping, parser trace, last-call suite, `output_buffer`. -/
theorem y_dg_bad (hl : H.Lawful) (kl : List Keylog.Key) (L : SealLaws Pc) (dcid0 cr csel ch sh ca sa e : Bytes)
    (sel selR : SuiteSel) (csR : Bytes) (hsel : selectSuite csel = some sel) (hselR : selectSuite csR = some selR)
    (hkl : KeylogHas kl cr ch sh ca sa (some e))
    (ho : (hashOf H sel.hash).outLen < 65536)
    (hsa : sa.length = (hashOf H sel.hash).outLen) (hca : ca.length = (hashOf H sel.hash).outLen)
    (t : Trk) (ecs : Option SuiteSel) (d : DgX) (hok : XDgBad maskFn H Pc L dcid0 sel selR sh ch sa ca e t ecs d)
    (rest : List CryptoIn) (s : St Tls)
    (hst : HsSt H dcid0 sel ch sh ca sa t.keyed (feedPre H (params H Pc kl) s d.dcid (sver d.ver)) t.tc t.ts t.cc t.sc
      t.core)
    (hinv : EInv H e ecs (feedPre H (params H Pc kl) s d.dcid (sver d.ver)))
    (htr : PTrace cr csel t.core (insOf d.base.longs ++ rest)) :
    let r := handleDatagram maskFn H (params H Pc kl) s (!d.base.srv) d.dcid (sver d.ver) d.base.ts
      (DgX.wire H Pc L dcid0 sel selR sh ch sa ca e d)
    r.2 = none ∧
    HsSt H dcid0 sel ch sh ca sa (t.dgx (noZr d)).keyed (noOut r.1) (t.dgx (noZr d)).tc (t.dgx (noZr d)).ts
      (t.dgx (noZr d)).cc (t.dgx (noZr d)).sc (t.dgx (noZr d)).core ∧
    PTrace cr csel (t.dgx (noZr d)).core rest ∧ EInv H e (ecsDgx t ecs (noZr d)) r.1 ∧
    expo r.1.out = expo (noZr d).zrOut ++ expo d.base.shortOut := by
  obtain ⟨hclient, hdirL, hdirZ, hcid, hpre, htool, hpost, hshort⟩ := hok
  generalize hs0 : feedPre H (params H Pc kl) s d.dcid (sver d.ver) = s0 at hst hinv
  have hsrv : packetIsServer s0 (!d.base.srv) d.dcid = d.base.srv :=
    packetIsServer_of_dcidOk s0 t.cc t.sc hst.cc hst.sc d.base.srv d.dcid hcid
  have hsplit : insOf d.base.longs = insOf (d.base.longs.take d.pos) ++ insOf (d.base.longs.drop d.pos) := by
    unfold insOf; rw [← List.flatMap_append, List.take_append_drop]
  generalize hWt : ((d.base.longs.drop d.pos).map (pkWire H Pc L dcid0 sel sh ch)).flatten ++
    (d.base.short.map (wireOf H Pc L sel .v1 (rfcGen (hashOf H sel.hash) sel.keyLen sa ca 0))).getD [] = Wt
  obtain ⟨s1, a1, a2, a3, a4⟩ := hs_loop_early maskFn H Pc hl kl L dcid0 cr csel ch sh ca sa e sel hsel hkl d.base.srv
    d.base.ts d.dcid (d.base.longs.take d.pos) (fun q hq => hdirL q (List.mem_of_mem_take hq))
    (insOf (d.base.longs.drop d.pos) ++ rest) ((d.zr.map (zrWire H Pc L selR e)).flatten ++ Wt) t s0 hst hpre
    (by rw [← List.append_assoc, ← hsplit]; exact htr) ecs hinv
  -- the 0-RTT packets: skipped, the session is as before
  have hz : (Dissect.dissectLoop maskFn (fun x : LoopSt => envOf x.1) (handleTurn (params H Pc kl)) d.base.srv d.dcid d.base.ts
        (s1, none) ((d.zr.map (zrWire H Pc L selR e)).flatten ++ Wt)).1 =
      (Dissect.dissectLoop maskFn (fun x : LoopSt => envOf x.1) (handleTurn (params H Pc kl)) d.base.srv d.dcid d.base.ts
        (s1, none) Wt).1 := by
    by_cases hzn : d.zr = []
    · simp [hzn]
    · obtain ⟨selT, hT, hqs⟩ := htool hzn
      have hek : EarlyKeyed H selT e s1 := a3 selT hT
      have hch : (envOf s1).chacha = chachaOf (DgX.t1 t d).core := by
        have h1 : (envOf s1).chacha = chachaOf (coreOf s1.tls) := chachaOf_core s1
        rw [a1.core] at h1
        exact h1
      have hpc : s1.pnClient.app = (DgX.t1 t d).tc.app := congrArg PnTab.app a1.pc
      rw [hclient hzn]
      exact bad_loop maskFn H Pc hl kl L selR selT csR hselR e d.base.ts d.dcid s1 a1.inv.ver hek d.zr hdirZ
        (by rw [hch, hpc]; exact hqs) Wt
  -- the rest of the datagram, on the state without its output buffer
  obtain ⟨s3, e1, e2, e3, e4, J, e5, e6⟩ := tail_loop_early maskFn H Pc hl kl L dcid0 cr csel ch sh ca sa e sel hsel hkl ho hsa
    hca d.base.srv d.base.ts d.dcid (d.base.longs.drop d.pos) d.base.short
    (fun q hq => hdirL q (List.mem_of_mem_drop hq)) rest (DgX.t1 t d) (noOut s1)
    (hsSt_noOut H _ _ _ _ _ _ _ _ _ _ _ _ _ a1) hpost a2
    (ecsFold t.core (insOf (d.base.longs.take d.pos)) ecs) (eInv_noOut H e _ s1 a3) hshort
  rw [hWt] at e1
  have hw := dissectLoop_wo maskFn (params H Pc kl) s1.out d.base.srv d.dcid d.base.ts Wt (noOut s1, none)
  simp only [wo_noOut] at hw
  intro r
  have hr : r = (wo s1.out s3, none) := by
    show handleDatagram _ _ _ _ _ _ _ _ _ = _
    unfold handleDatagram
    simp only [hs0, hsrv]
    unfold DgX.wire
    rw [List.append_assoc, List.append_assoc, hWt, a4, hz, hw, e1]
  have hdx : t.dgx (noZr d) = match d.base.short with
      | none => (DgX.t1 t d).run (d.base.longs.drop d.pos)
      | some o => ((DgX.t1 t d).run (d.base.longs.drop d.pos)).short o.x := rfl
  rw [hr, hdx]
  refine ⟨rfl, ?_, ?_, ?_, ?_⟩
  · rw [noOut_wo]
    cases hso : d.base.short <;> simp only [hso] at e2 ⊢ <;> exact e2
  · cases hso : d.base.short <;> simp only [hso] at e3 ⊢ <;> exact e3
  · show EInv H e (ecsFold (DgX.t1 t d).core (insOf (d.base.longs.drop d.pos))
      (ecsFold t.core (insOf (d.base.longs.take d.pos)) ecs)) _
    exact eInv_wo H e _ _ _ e4
  · show expo (s1.out ++ s3.out) = _
    rw [e6, expo_append, expo_append, expo_none _ a1.inv.out, expo_none J e5]
    simp only [List.nil_append, DgM.shortOut, noZr, DgX.zrOut, List.flatMap_nil, expo]
    split <;> split <;> first | rfl | simp_all

end BadDg
/-! ### the connection: 0-RTT packets of the wrong suite are simply missing -/
section YFeed
variable (maskFn : Dissect.MaskFn) (H : Crypto.Prims) (Pc : Cipher.Prims) (info : Nat → Pipeline.Info)

/-- a datagram of the mixed part, and whether the tool's Early keys fit its 0-RTT packets when they are reached -/
structure DgY where
  x : DgX
  good : Bool

/-- what the datagram is worth to the tool -/
def DgY.eff (d : DgY) : DgX := if d.good then d.x else noZr d.x

def YDgOk (L : SealLaws Pc) (dcid0 : Bytes) (sel selR : SuiteSel) (sh ch sa ca e : Bytes) (t : Trk)
    (ecs : Option SuiteSel) (d : DgY) : Prop :=
  if d.good then XDgOkE maskFn H Pc L dcid0 sel selR sh ch sa ca e t ecs d.x
  else XDgBad maskFn H Pc L dcid0 sel selR sh ch sa ca e t ecs d.x

def YDgs (L : SealLaws Pc) (dcid0 : Bytes) (sel selR : SuiteSel) (sh ch sa ca e : Bytes) :
    Trk → Option SuiteSel → List DgY → Prop
  | _, _, [] => True
  | t, ecs, d :: ds => YDgOk maskFn H Pc L dcid0 sel selR sh ch sa ca e t ecs d ∧
      YDgs L dcid0 sel selR sh ch sa ca e (t.dgx d.eff) (ecsDgx t ecs d.eff) ds

def yFeedAll (QM : MainLoop.QuicMachine Keylog.Key QConn Pipeline.OutPkt) (c : QConn) :
    List (List Keylog.Key × MainLoop.Pkt × DgY) → QConn
  | [] => c
  | (kl, p, d) :: rest => yFeedAll QM (QM.feed c kl p d.x.dcid d.x.ver) rest

theorem y_feed_step (hl : H.Lawful) (kl : List Keylog.Key) (L : SealLaws Pc) (dcid0 cr csel ch sh ca sa e : Bytes)
    (sel selR : SuiteSel) (csR : Bytes) (hsel : selectSuite csel = some sel) (hselR : selectSuite csR = some selR)
    (hkl : KeylogHas kl cr ch sh ca sa (some e))
    (ho : (hashOf H sel.hash).outLen < 65536)
    (hsa : sa.length = (hashOf H sel.hash).outLen) (hca : ca.length = (hashOf H sel.hash).outLen)
    (t : Trk) (ecs : Option SuiteSel) (d : DgY) (hok : YDgOk maskFn H Pc L dcid0 sel selR sh ch sa ca e t ecs d)
    (rest : List CryptoIn) (c : QConn) (hr : c.raised = none)
    (hst : HsSt H dcid0 sel ch sh ca sa t.keyed (feedPre H (params H Pc kl) (noOut c.st) d.x.dcid (sver d.x.ver)) t.tc t.ts
      t.cc t.sc t.core)
    (hinv : EInv H e ecs (feedPre H (params H Pc kl) (noOut c.st) d.x.dcid (sver d.x.ver)))
    (htr : PTrace cr csel t.core (insOf d.x.base.longs ++ rest)) (p : MainLoop.Pkt)
    (hcar : CarriesX info c (DgX.wire H Pc L dcid0 sel selR sh ch sa ca e) p d.x) :
    let c' := (quicMachine maskFn H Pc info).feed c kl p d.x.dcid d.x.ver
    c'.raised = none ∧
    HsSt H dcid0 sel ch sh ca sa (t.dgx d.eff).keyed (noOut c'.st) (t.dgx d.eff).tc (t.dgx d.eff).ts (t.dgx d.eff).cc
      (t.dgx d.eff).sc (t.dgx d.eff).core ∧
    PTrace cr csel (t.dgx d.eff).core rest ∧ EInv H e (ecsDgx t ecs d.eff) (noOut c'.st) ∧
    expo c'.st.out = expo c.st.out ++ (expo d.eff.zrOut ++ expo d.eff.base.shortOut) ∧
    c'.opts = c.opts ∧ c'.server = c.server ∧ c'.client = c.client ∧ c'.serverMac = c.serverMac ∧
    c'.clientMac = c.clientMac ∧ c'.ipv6 = c.ipv6 := by
  obtain ⟨x, good⟩ := d
  cases good with
  | true =>
    have hok' : XDgOkE maskFn H Pc L dcid0 sel selR sh ch sa ca e t ecs x := by simpa [YDgOk] using hok
    exact x_feed_step maskFn H Pc info hl kl L dcid0 cr csel ch sh ca sa e sel selR csR hsel hselR hkl ho hsa hca t ecs x hok'
      rest c hr hst hinv htr p hcar
  | false =>
    have hok' : XDgBad maskFn H Pc L dcid0 sel selR sh ch sa ca e t ecs x := by simpa [YDgOk] using hok
    show let c' := (quicMachine maskFn H Pc info).feed c kl p x.dcid x.ver; _
    simp only [DgY.eff, Bool.false_eq_true, if_false]
    obtain ⟨w1, w2, w3⟩ := hcar
    obtain ⟨a1, a2, a3, a4, a5⟩ := y_dg_bad maskFn H Pc hl kl L dcid0 cr csel ch sh ca sa e sel selR csR hsel hselR hkl ho hsa
      hca t ecs x hok' rest (noOut c.st) hst hinv htr
    generalize hr0 : handleDatagram maskFn H (params H Pc kl) (noOut c.st) (!x.base.srv) x.dcid (sver x.ver) x.base.ts
      (DgX.wire H Pc L dcid0 sel selR sh ch sa ca e x) = r0 at a1 a2 a4 a5
    have hfeed : (quicMachine maskFn H Pc info).feed c kl p x.dcid x.ver =
        { c with st := wo c.st.out r0.1, raised := r0.2 } := by
      simp only [quicMachine, hr]
      rw [w1, w2, w3]
      have hw : handleDatagram maskFn H (params H Pc kl) c.st (!x.base.srv) x.dcid (sver x.ver) x.base.ts
          (DgX.wire H Pc L dcid0 sel selR sh ch sa ca e x) = (wo c.st.out r0.1, r0.2) := by
        conv => lhs; rw [← wo_noOut c.st]
        rw [handleDatagram_wo, hr0]
      rw [hw]
    rw [hfeed]
    refine ⟨a1, ?_, a3, ?_, ?_, rfl, rfl, rfl, rfl, rfl, rfl⟩
    · show HsSt H dcid0 sel ch sh ca sa _ (noOut (wo c.st.out r0.1)) _ _ _ _ _
      rw [noOut_wo]; exact a2
    · show EInv H e _ (noOut (wo c.st.out r0.1))
      rw [noOut_wo]; exact eInv_noOut H e _ _ a4
    · show expo (c.st.out ++ r0.1.out) = _
      rw [expo_append, a5]; rfl

theorem y_feed_rest (hl : H.Lawful) (L : SealLaws Pc) (dcid0 cr csel ch sh ca sa e : Bytes)
    (sel selR : SuiteSel) (csR : Bytes) (hsel : selectSuite csel = some sel) (hselR : selectSuite csR = some selR)
    (ho : (hashOf H sel.hash).outLen < 65536)
    (hsa : sa.length = (hashOf H sel.hash).outLen) (hca : ca.length = (hashOf H sel.hash).outLen)
    (items : List (List Keylog.Key × MainLoop.Pkt × DgY)) (hkl : ∀ x ∈ items, KeylogHas x.1 cr ch sh ca sa (some e))
    (t : Trk) (ecs : Option SuiteSel) (c : QConn) (hr : c.raised = none)
    (hst : HsSt H dcid0 sel ch sh ca sa t.keyed (noOut c.st) t.tc t.ts t.cc t.sc t.core)
    (hinv : EInv H e ecs (noOut c.st))
    (hok : YDgs maskFn H Pc L dcid0 sel selR sh ch sa ca e t ecs (items.map (·.2.2)))
    (htr : PTrace cr csel t.core (allInsM ((items.map (·.2.2)).map (·.x.base))))
    (hcar : ∀ x ∈ items, CarriesX info c (DgX.wire H Pc L dcid0 sel selR sh ch sa ca e) x.2.1 x.2.2.x) :
    let c' := yFeedAll (quicMachine maskFn H Pc info) c items
    let t' := ((items.map (·.2.2)).map DgY.eff).foldl Trk.dgx t
    c'.raised = none ∧ HsSt H dcid0 sel ch sh ca sa t'.keyed (noOut c'.st) t'.tc t'.ts t'.cc t'.sc t'.core ∧
    expo c'.st.out = expo c.st.out ++ expo (((items.map (·.2.2)).map DgY.eff).flatMap fun d => d.zrOut ++ d.base.shortOut) ∧
    c'.opts = c.opts ∧ c'.server = c.server ∧ c'.client = c.client ∧ c'.serverMac = c.serverMac ∧
    c'.clientMac = c.clientMac ∧ c'.ipv6 = c.ipv6 := by
  induction items generalizing t ecs c with
  | nil => exact ⟨hr, hst, by simp [yFeedAll, expo], rfl, rfl, rfl, rfl, rfl, rfl⟩
  | cons it rest ih =>
    obtain ⟨kl, p, d⟩ := it
    obtain ⟨hd, hds⟩ := hok
    have htr' : PTrace cr csel t.core (insOf d.x.base.longs ++ allInsM ((rest.map (·.2.2)).map (·.x.base))) := by
      simpa [allInsM, List.flatMap_cons] using htr
    have hpre : feedPre H (params H Pc kl) (noOut c.st) d.x.dcid (sver d.x.ver) = noOut c.st :=
      feedPre_x H _ dcid0 _ hst.inv d.x
    obtain ⟨b1, b2, b3, b4, b5, b6, b7, b8, b9, b10, b11⟩ := y_feed_step maskFn H Pc info hl kl L dcid0 cr csel ch sh ca sa e sel
      selR csR hsel hselR (hkl (kl, p, d) (List.mem_cons_self ..)) ho hsa hca t ecs d hd _ c hr (by rw [hpre]; exact hst)
      (by rw [hpre]; exact hinv) htr' p (hcar (kl, p, d) (List.mem_cons_self ..))
    obtain ⟨i1, i2, i3, i4, i5, i6, i7, i8, i9⟩ := ih (fun x hx => hkl x (List.mem_cons_of_mem _ hx)) (t.dgx d.eff) _ _ b1 b2 b4 hds b3
      (fun x hx => by
        obtain ⟨u1, u2, u3⟩ := hcar x (List.mem_cons_of_mem _ hx)
        exact ⟨u1, u2, by rw [b8]; exact u3⟩)
    refine ⟨i1, i2, ?_, i4.trans b6, i5.trans b7, i6.trans b8, i7.trans b9, i8.trans b10, i9.trans b11⟩
    show expo (yFeedAll _ _ rest).st.out = _
    rw [i3, b5]
    simp only [List.map_cons, List.flatMap_cons, expo_append, List.append_assoc]

end YFeed

section YFinal
variable (maskFn : Dissect.MaskFn) (H : Crypto.Prims) (Pc : Cipher.Prims) (info : Nat → Pipeline.Info)
open TLX.Quic.UdpOut TLX.Props.C02Out

theorem keys_of_bad (L : SealLaws Pc) (dcid0 : Bytes) (sel selR : SuiteSel) (sh ch sa ca e : Bytes) (t : Trk)
    (ecs : Option SuiteSel) (d : DgX) (h : XDgBad maskFn H Pc L dcid0 sel selR sh ch sa ca e t ecs d) : (noZr d).Keys := by
  refine ⟨?_, ?_⟩
  · intro q hq; cases hq
  · intro o ho
    obtain ⟨o1, o2, _⟩ := h.short o ho
    exact ⟨o2, o1⟩

theorem keys_of_ys (L : SealLaws Pc) (dcid0 : Bytes) (sel selR : SuiteSel) (sh ch sa ca e : Bytes) (t : Trk)
    (ecs : Option SuiteSel) (ds : List DgY) (h : YDgs maskFn H Pc L dcid0 sel selR sh ch sa ca e t ecs ds) :
    ∀ d ∈ ds.map DgY.eff, d.Keys := by
  induction ds generalizing t ecs with
  | nil => intro d hd; cases hd
  | cons a rest ih =>
    intro d hd
    rcases List.mem_cons.mp hd with rfl | hd
    · obtain ⟨x, good⟩ := a
      cases good with
      | true =>
        have : XDgOkE maskFn H Pc L dcid0 sel selR sh ch sa ca e t ecs x := by simpa [YDgOk] using h.1
        simpa [DgY.eff] using keys_of_ok maskFn H Pc L dcid0 sel selR sh ch sa ca e t ecs _ this
      | false =>
        have : XDgBad maskFn H Pc L dcid0 sel selR sh ch sa ca e t ecs x := by simpa [YDgOk] using h.1
        simpa [DgY.eff] using keys_of_bad maskFn H Pc L dcid0 sel selR sh ch sa ca e t ecs _ this
    · exact ih _ _ h.2 d hd

/-- **C02 with 0-RTT, the stronger form: 0-RTT packets that do not satisfy the suite condition are simply missing,
    everything else is exact.** `quic_connection_exact_0rtt` with datagrams of two kinds (`DgY.good`): those whose 0-RTT
    packets reach the tool while its Early keys are the client's (`XDgOkE`, as before), and those whose 0-RTT packets
    reach it while it holds the Early keys of ANOTHER suite (`XDgBad`: before the ServerHello, when the first offered suite
    is not the resumed one). Hypothesis on the primitives for the latter, and the only one: `RejectedT` — the AEAD check
    the tool performs on the packet, with ITS early key and whatever packet-number bytes ITS header-protection mask
    yields, fails. Then nothing raises, and the export is exactly that of the history WITHOUT those packets
    (`DgY.eff`): their data is missing, every other datagram — 0-RTT data of good datagrams, all 1-RTT data — is there,
    with its time and direction. Still outside (open finding `early-data-lost`, D): 0-RTT packets before the ClientHello
    is complete — no Early header-protection key at all, `extract_quic_packet` fails and drops the rest of the datagram. -/
theorem quic_connection_exact_0rtt_any (hl : H.Lawful) (h32 : H.sha256.outLen = 32) (L : SealLaws Pc)
    (cr csel ch sh ca sa e : Bytes) (sel selR : SuiteSel) (csR : Bytes) (hsel : selectSuite csel = some sel)
    (hselR : selectSuite csR = some selR)
    (ho : (hashOf H sel.hash).outLen < 65536)
    (hsa : sa.length = (hashOf H sel.hash).outLen) (hca : ca.length = (hashOf H sel.hash).outLen)
    (kl0 : List Keylog.Key) (p0 : MainLoop.Pkt) (d0 : DgY) (itemsA : List (List Keylog.Key × MainLoop.Pkt × DgY))
    (hkl : ∀ x ∈ (kl0, p0, d0) :: itemsA, KeylogHas x.1 cr ch sh ca sa (some e))
    (c : QConn) (hc : Fresh H Pc c) (hd0 : d0.x.ver = .v1)
    (hok : YDgs maskFn H Pc L d0.x.dcid sel selR sh ch sa ca e trk0 none (d0 :: itemsA.map (·.2.2)))
    (htr : PTrace cr csel {} (allInsM ((d0 :: itemsA.map (·.2.2)).map (·.x.base))))
    (hcar : ∀ x ∈ (kl0, p0, d0) :: itemsA,
      CarriesX info c (DgX.wire H Pc L d0.x.dcid sel selR sh ch sa ca e) x.2.1 x.2.2.x)
    (hkeyed : (((d0 :: itemsA.map (·.2.2)).map DgY.eff).foldl Trk.dgx trk0).keyed = true)
    (itemsB : List (List Keylog.Key × MainLoop.Pkt × Dg1))
    (hcarB : ∀ x ∈ itemsB, Carries info c
      (wireOf H Pc L sel .v1 (rfcGen (hashOf H sel.hash) sel.keyLen sa ca 0)) x.2.1 x.2.2)
    (hsend : Send1 maskFn H Pc L sel .v1 (rfcGen (hashOf H sel.hash) sel.keyLen sa ca 0)
      (quicHp (hashOf H sel.hash) ca sel.keyLen) (quicHp (hashOf H sel.hash) sa sel.keyLen)
      (chachaOf (((d0 :: itemsA.map (·.2.2)).map DgY.eff).foldl Trk.dgx trk0).core) 0 0
      (((d0 :: itemsA.map (·.2.2)).map DgY.eff).foldl Trk.dgx trk0).tc.app
      (((d0 :: itemsA.map (·.2.2)).map DgY.eff).foldl Trk.dgx trk0).ts.app
      (((d0 :: itemsA.map (·.2.2)).map DgY.eff).foldl Trk.dgx trk0).cc
      (((d0 :: itemsA.map (·.2.2)).map DgY.eff).foldl Trk.dgx trk0).sc
      (itemsB.map (·.2.2)))
    (hadj : DistinctAdjacent false (((d0 :: itemsA.map (·.2.2)).map DgY.eff).map inDgX ++
      (itemsB.map (·.2.2)).map fun d => inDg d.x)) :
    let QM := quicMachine maskFn H Pc info
    let c1 := yFeedAll QM c ((kl0, p0, d0) :: itemsA)
    (feedAll QM c1 itemsB).raised = none ∧
    QM.out false (feedAll QM c1 itemsB) =
      expectedOutX c ((d0 :: itemsA.map (·.2.2)).map DgY.eff) (itemsB.map (·.2.2)) := by
  intro QM c1
  obtain ⟨hfresh, hr⟩ := hc
  have hkeys := keys_of_ys maskFn H Pc L d0.x.dcid sel selR sh ch sa ca e trk0 none _ hok
  obtain ⟨hm0, hms⟩ := hok
  have hv0 : sver d0.x.ver = .v1 := by rw [hd0]; rfl
  have hno : noOut c.st = c.st := by rw [hfresh]; rfl
  have hpre : HsSt H d0.x.dcid sel ch sh ca sa trk0.keyed (feedPre H (params H Pc kl0) (noOut c.st) d0.x.dcid (sver d0.x.ver))
      trk0.tc trk0.ts trk0.cc trk0.sc trk0.core := by
    rw [hno, hfresh, hv0]; exact feedPre_fresh H Pc kl0 h32 d0.x.dcid sel ch sh ca sa
  have hinv0 : EInv H e none (feedPre H (params H Pc kl0) (noOut c.st) d0.x.dcid (sver d0.x.ver)) := by
    intro selX hx; cases hx
  have htr' : PTrace cr csel trk0.core (insOf d0.x.base.longs ++ allInsM ((itemsA.map (·.2.2)).map (·.x.base))) := by
    simpa [allInsM, List.flatMap_cons, trk0] using htr
  obtain ⟨b1, b2, b3, b4, b5, b6, b7, b8, b9, b10, b11⟩ := y_feed_step maskFn H Pc info hl kl0 L d0.x.dcid cr csel ch sh ca sa e
    sel selR csR hsel hselR (hkl (kl0, p0, d0) (List.mem_cons_self ..)) ho hsa hca trk0 none d0 hm0 _ c hr hpre hinv0 htr' p0
    (hcar (kl0, p0, d0) (List.mem_cons_self ..))
  obtain ⟨i1, i2, i3, i4, i5, i6, i7, i8, i9⟩ := y_feed_rest maskFn H Pc info hl L d0.x.dcid cr csel ch sh ca sa e sel selR csR hsel
    hselR ho hsa hca itemsA (fun x hx => hkl x (List.mem_cons_of_mem _ hx)) (trk0.dgx d0.eff) _ _ b1 b2 b4 hms b3
    (fun x hx => by
      obtain ⟨u1, u2, u3⟩ := hcar x (List.mem_cons_of_mem _ hx)
      exact ⟨u1, u2, by rw [b8]; exact u3⟩)
  have hc1 : c1 = yFeedAll QM (QM.feed c kl0 p0 d0.x.dcid d0.x.ver) itemsA := rfl
  have ht1 : ((d0 :: itemsA.map (·.2.2)).map DgY.eff).foldl Trk.dgx trk0 =
      ((itemsA.map (·.2.2)).map DgY.eff).foldl Trk.dgx (trk0.dgx d0.eff) := rfl
  rw [ht1] at hkeyed hsend
  rw [← hc1] at i1 i2 i3 i4 i5 i6 i7 i8 i9
  rw [hkeyed] at i2
  have hest := est_of_noOut H Pc [] _ _ _ _ _ _ _ _ _ _ _ _ _
    (est_of_hsSt H Pc [] _ sel ch sh ca sa _ _ _ _ _ _ i2)
  have hk := keysWf_rfc H hl Pc [] csel sel hsel .v1 ho sa ca hsa hca
  have e3 : c1.opts = c.opts := i4.trans b6
  have e4 : c1.server = c.server := i5.trans b7
  have e5 : c1.client = c.client := i6.trans b8
  have e6 : c1.serverMac = c.serverMac := i7.trans b9
  have e7 : c1.clientMac = c.clientMac := i8.trans b10
  have e8 : c1.ipv6 = c.ipv6 := i9.trans b11
  obtain ⟨f1, f2, f3, f4, f5, f6, f7, f8, _⟩ := feedAll_exact maskFn H Pc info [] L sel .v1 _ _ _ _ hk itemsB c1
    0 0 _ _ _ _ i1 hest
    (fun x hx => by
      obtain ⟨u1, u2, u3⟩ := hcarB x hx
      exact ⟨u1, u2, by rw [e5]; exact u3⟩) hsend
  refine ⟨f1, ?_⟩
  have hexpo : expo (feedAll QM c1 itemsB).st.out =
      expo ((((d0 :: itemsA.map (·.2.2)).map DgY.eff).flatMap fun d => d.zrOut ++ d.base.shortOut) ++
        (itemsB.map (·.2.2)).flatMap fun d => expectedOf .rtt1 d.x) := by
    rw [f2, expo_append, i3, b5]
    have hc0 : expo c.st.out = [] := by rw [hfresh]; rfl
    rw [hc0, List.nil_append, expo_append]
    congr 1
    simp only [List.map_cons, List.flatMap_cons, expo_append]
  show connOut false (feedAll QM c1 itemsB) = _
  rw [connOut_eq, addressed_congr c _ (f3.trans e3) (f4.trans e4) (f5.trans e5) (f6.trans e6) (f7.trans e7) (f8.trans e8),
    build_congr _ _ hexpo]
  have hframesA : ∀ ds : List DgX, (∀ d ∈ ds, d.Keys) →
      (ds.flatMap fun d => d.zrOut ++ d.base.shortOut).map frameOf = framesOf (ds.map inDgX) := by
    intro ds
    induction ds with
    | nil => intro _; rfl
    | cons d ds ih =>
      intro hk
      simp only [List.flatMap_cons, List.map_append, List.map_cons, framesOf] at ih ⊢
      rw [← ih (fun x hx => hk x (List.mem_cons_of_mem _ hx)), inDgX_frames d (hk d (List.mem_cons_self ..)), List.map_append]
  have hframesB : ∀ ds : List Dg1, (ds.flatMap fun d => expectedOf .rtt1 d.x).map frameOf =
      framesOf (ds.map fun d => inDg d.x) := by
    intro ds
    induction ds with
    | nil => rfl
    | cons d ds ih =>
      simp only [List.flatMap_cons, List.map_append, List.map_cons, framesOf] at ih ⊢
      rw [ih, inDg_frames]
  have hfr : ((((d0 :: itemsA.map (·.2.2)).map DgY.eff).flatMap fun d => d.zrOut ++ d.base.shortOut) ++
        (itemsB.map (·.2.2)).flatMap fun d => expectedOf .rtt1 d.x).map frameOf =
      framesOf (((d0 :: itemsA.map (·.2.2)).map DgY.eff).map inDgX ++ (itemsB.map (·.2.2)).map fun d => inDg d.x) := by
    rw [List.map_append, hframesA _ hkeys, hframesB]
    simp only [framesOf, List.flatMap_append]
  rw [hfr, build_groups false _ hadj, List.filter_append, List.map_append, List.map_append]
  unfold expectedOutX
  congr 1
  · have : ∀ ds : List DgX, (∀ d ∈ ds, d.Keys) →
        (((ds.map inDgX).filter (hasExported false)).map (outDgram false)).map (addressed c) =
          (ds.filter fun d => !d.data.isEmpty).map fun d => addressed c ⟨d.base.srv, d.base.ts, d.data.flatten⟩ := by
      intro ds
      induction ds with
      | nil => intro _; rfl
      | cons d ds ih =>
        intro hk
        have hd := hk d (List.mem_cons_self ..)
        simp only [List.map_cons, List.filter_cons, hasExported_inDgX d hd]
        split
        · simp only [List.map_cons, outDgram_inDgX d hd, ih (fun x hx => hk x (List.mem_cons_of_mem _ hx))]
        · exact ih (fun x hx => hk x (List.mem_cons_of_mem _ hx))
    exact this _ hkeys
  · exact out_tail c _

end YFinal

end TLX.Props.C02Zr
