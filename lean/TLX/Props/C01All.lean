/-
C01 FROM FILE TO FILE, EVERYTHING COMBINED: `tls13_capture_exact_all`, `tls12_capture_exact_all`.

What the capture may look like (beyond `Props/C01Full`, which already has `-a`/`-c`/`-m`/`-p`, IPv6 extension headers and
RFC-terms hypotheses):
  * TCP DELIVERY of C05's whole domain (`Lemmas.C01All.WiresDelivered`, on the capture's (sequence number, data) pairs): any
    cut points, exact duplicate segments, segments displaced by any number of positions, any initial sequence number incl.
    the sequence space wrapping inside the connection — under `Props.C05.NoEarlyDelivery`. `WiresInOrder` (what
    `Props/C01Full` admits: cuts, duplicates, any ISN, NO displacement) is the special case `wiresDelivered_of_inOrder`.
  * TLS 1.3: handshake messages FRAGMENTED anywhere across protected records, coalesced, interleaved with the other
    direction (`Spec.TlsFragmented13`: `TranscriptF`, `FragConform`); whole messages per record (`Script13`) is a special
    case. With `-a` too (`Lemmas.C01All.run_mergeFm`; `Props/C01Capstone2` has the fragmented case without `-a` only).
  * CAUSALITY FROM THE PACKET ORDER (`Lemmas.C01All.FlightsFirst`): the ClientHello is complete before the server's first
    data segment is captured, the server's first flight ends on a record boundary before the client's next data segment —
    instead of a hypothesis on the release order `connRecs`. (`…_all_of_release` take `Causal13` / `Causal12` on the release
    order: strictly more general, but not a statement about the capture.)
  * OTHER TRAFFIC: anything (`Foreign`: other TLS connections decryptable or not, QUIC, UDP, ARP, garbage dpkt dissects
    without an exception, pure ACKs and retransmitted empty segments of any flow) interleaved anywhere. The connection's block
    in the output is independent of it (`Props.C01File.session_of_items`; `Props.ExportDemux.tls_frames_by_flow` says the same
    for every flow at once). What other traffic CAN do is make the write loop raise (a frame of ANOTHER session that scapy /
    dpkt refuse: truncated file) — `…_all` excludes that by `OthersFitC`, `…_all_or_abort` states the alternative instead
    and needs no hypothesis about the other traffic at all.

EVERY REMAINING HYPOTHESIS, classified (names as in `tls13_capture_exact_all`; the TLS ≤ 1.2 theorem alike):
  RFC-given (what the RFCs / formats say about a conformant sender, capture and key log)
    `hdesc` segments are well-formed Ethernet / IPv4|IPv6(+extension headers) / TCP frames of the flow (`IsSegX`), with `-c`
            valid TCP checksums (`CsumValid`); `hcwf`/`hitems` a well-formed pcap / pcapng file of them; `hne`, `hsp`, `hcp` the
            two endpoints differ, the server port is a server port (`-p` / built in), the client port is not
    `hch hsh hrc hrs hv hneg` hellos per RFC 8446 §4.1; `hfc hfs` `FragConform`; `hwr` records ≤ 2^16 (length field right);
    `hsuite hcls` the suite is what its IANA name denotes, an AEAD; `hl1..4` the key-log FILE has the four NSS lines;
    `ho1..4` and no other secret under the same label and client random (C09's consistency)
    `hwires` TCP delivery as above; `hflights` first flights alternate in the capture
  C01-quantifier (which instances the property speaks about)
    `haccept` the tool supports the code point; `hpm hports` the options parse; `p0 rest hfp` names the flow's packets
  recorded limit (the theorem stops where a known limit / finding starts)
    `NoEarlyDelivery` inside `hwires`: the FIRST data segment of a direction overtaken by segments that are whole records is
            the open C05 finding (`Props.C05.reassembly_exact_counterexample`, `ExportSeg.Ex.overtaken_first_segment_differs`)
    `hcomp` no record compression (not modelled);   `hlen` fewer than 2^64 records per direction
    IPv6 chains that start with a fragment header and end with another kind: dpkt raises (inside `IsSegX`)
    `Foreign` (in `hdesc`): dpkt dissects every other frame without an exception (else the run aborts in the read loop) and,
            with `-c`, the checksum functions do not raise on it (segments ≥ 2^16 bytes over IPv4)
    TLS ≤ 1.2: `Script12` excludes a clear-text handshake record that CONTINUES a fragmented message and starts with 01 / 02
            (the tool takes it for a hello); `hms` 48-byte master secret; `hvalid`; `Causal13` instead of `Causal12` with `-a`
    not claimed: renegotiation, KeyUpdate, 0-RTT / early data, HelloRetryRequest, session resumption with PSK-only key logs
    write loop: `hcport hsport hpmv hbytes hrec` scapy's field widths; `hothers` the same for the other sessions' frames
  primitive law    `hH : H.Lawful` (digest lengths, HKDF-Expand length), `L : SealLaws P` (AEAD / CBC / RC4 open ∘ seal),
            TLS ≤ 1.2 / SSL 3.0: `hsz` MD5 = 16, SHA-1 = 20 bytes
  IEEE-754 time stamp fact    `hnot1` no time stamp evaluates to −1.0, `hus` every capture time is below 2^64 µs
-/
import TLX.Lemmas.C01All
set_option autoImplicit false
set_option linter.unusedSimpArgs false
set_option linter.unusedVariables false
namespace TLX.Props.C01All
open TLX TLX.MainLoop TLX.OutBytes TLX.Export TLX.Props.C01File TLX.Lemmas.BuildBounds TLX.Props.C01File2
open TLX.Lemmas.Pipeline TLX.Props.C01Pipeline
open TLX.Spec.Demux TLX.Lemmas.MainLoop TLX.Dissect TLX.Spec.FrameBuild TLX.Spec.TlsCapture TLX.Props.C12Dissect
open TLX.Cipher TLX.RecordLayer TLX.Spec.TlsSender TLX.Props.C01 TLX.Spec.TlsConnection TLX.Spec.TlsFragmented13
open TLX.Lemmas.Capstone TLX.Lemmas.Capstone2 TLX.Spec.TlsFraming TLX.Props.C01Capstone
open TLX.Spec.RfcSuite TLX.Spec.KeySchedules TLX.Lemmas.C01Rfc TLX.Lemmas.C01Full TLX.Props.C01Rfc TLX.Props.C01Full
open TLX.Lemmas.C01All

/-- the two payload streams of the exported conversation, TLS 1.3 with fragmented handshake messages: without `-a` the
    application data each endpoint sent; with `-a` its hello record, then per record: dummy ChangeCipherSpec records verbatim,
    protected handshake records nothing, application data as plaintext -/
def expectF (m : Bool) (P : Prims) (L : SealLaws P) (cls : CipherClass) (t : TranscriptF) (x : Snd) : Bytes × Bytes :=
  if m then (t.chRecord ++ streamF true P L cls t.ver x.c t.cF, t.shRecord ++ streamF true P L cls t.ver x.s t.sF)
  else (plainOfF t.cF, plainOfF t.sF)

/-! ### one connection -/

/-- **C01 for a whole TLS 1.3 connection**: fragmented handshake messages, displaced segments, `-a` on or off, RFC terms -/
theorem tls13_connection_all (H : Crypto.Prims) (hH : H.Lawful) (P : Prims) (L : SealLaws P)
    (ls : List (C09Found.FLine × Bool)) (hls : ∀ x ∈ ls, x.1.WF)
    (info : Nat → Pipeline.Info) (c : Pipeline.Conn)
    (t : TranscriptF) (hch : t.ch.WellFormed) (hsh : t.sh.WellFormed) (hrc : t.rvC.length = 2) (hrs : t.rvS.length = 2)
    (hv : t.ver.length = 2) (hcomp : t.sh.compressionMethod = 0) (hneg : Negotiated t.rvS t.sh .tls13)
    (haccept : CipherSuite.resolve (Bytes.beNat t.sh.cipherSuite) ≠ none)
    (sp : SuiteSpec) (hsuite : suiteOfCode (Bytes.beNat t.sh.cipherSuite) = some sp)
    (cls : CipherClass) (hcls : cls13 sp = some cls)
    (chts shts cats sats : Bytes)
    (hl1 : HasLine ls labelCHTS (Pipeline.natsOfBytes t.ch.random) (Pipeline.natsOfBytes chts))
    (hl2 : HasLine ls labelSHTS (Pipeline.natsOfBytes t.ch.random) (Pipeline.natsOfBytes shts))
    (hl3 : HasLine ls labelCTS0 (Pipeline.natsOfBytes t.ch.random) (Pipeline.natsOfBytes cats))
    (hl4 : HasLine ls labelSTS0 (Pipeline.natsOfBytes t.ch.random) (Pipeline.natsOfBytes sats))
    (ho1 : OnlySecret ls labelCHTS (Pipeline.natsOfBytes t.ch.random) (Pipeline.natsOfBytes chts))
    (ho2 : OnlySecret ls labelSHTS (Pipeline.natsOfBytes t.ch.random) (Pipeline.natsOfBytes shts))
    (ho3 : OnlySecret ls labelCTS0 (Pipeline.natsOfBytes t.ch.random) (Pipeline.natsOfBytes cats))
    (ho4 : OnlySecret ls labelSTS0 (Pipeline.natsOfBytes t.ch.random) (Pipeline.natsOfBytes sats))
    (hfc : FragConform t.cF) (hfs : FragConform t.sF)
    (hwr : ∀ d, ∀ r ∈ t.records P L cls (snd13 H sp chts shts cats sats) d, WholeRecord r)
    (hlen : costF t.cF + costF t.sF ≤ seqLimit)
    (hdel : DeliveredDisplaced info c (t.stream P L cls (snd13 H sp chts shts cats sats)))
    (hcausal : Causal13 (connRecs info c)) :
    ∃ frames, Pipeline.connOut H P info c ((fileKeysOf (some (C09Found.fileText ls))).getD [])
        = some (frames.map (Pipeline.addressed c.opts c)) ∧
      Spec.reassemble frames = some (expectF c.opts.metadata P L cls t (snd13 H sp chts shts cats sats)) := by
  obtain ⟨ps, sp', hres, hsuite', hwf, hargs, _⟩ := resolve_rfc _ haccept
  rw [hsuite] at hsuite'
  cases hsuite'
  obtain ⟨e1, e2, e3, e4, e5, _⟩ := labelOf_13
  obtain ⟨fk, fks, hfound⟩ := linesFor_ne_nil _ ls _ _ hl1
  have hsec := secretsOf13_lines (Pipeline.natsOfBytes t.ch.random) ls hls
  rw [hfound] at hsec
  have hfound' : Keylog.findSessionSecrets ((fileKeysOf (some (C09Found.fileText ls))).getD [])
      (Pipeline.natsOfBytes t.ch.random) = fk :: fks := by
    rw [C09Found.found13_fileText ls hls]; exact hfound
  have m1 : labelCHTS ∈ Keylog.labels13 := by rw [e5]; simp
  have m2 : labelSHTS ∈ Keylog.labels13 := by rw [e5]; simp
  have m3 : labelCTS0 ∈ Keylog.labels13 := by rw [e5]; simp
  have m4 : labelSTS0 ∈ Keylog.labels13 := by rw [e5]; simp
  have q1 := lastOf_lines _ ls _ m1 chts hl1 ho1
  have q2 := lastOf_lines _ ls _ m2 shts hl2 ho2
  have q3 := lastOf_lines _ ls _ m3 cats hl3 ho3
  have q4 := lastOf_lines _ ls _ m4 sats hl4 ho4
  rw [e1] at q1; rw [e2] at q2; rw [e3] at q3; rw [e4] at q4
  have hkl : sp.keyLen ≤ 32 := keyLen_le sp hwf
  have hnil : ls.filterMap (lineSec (Pipeline.natsOfBytes t.ch.random)) ≠ [] := by
    intro h; rw [h] at q1; cases q1
  have hgen := Props.C15.tls13_installed_eq_rfc H (argsOf sp).ks _ t.ch.random t.sh.random
    (show (argsOf sp).ks.keyLen < 65536 by show sp.keyLen < 65536; omega) hnil chts shts cats sats q1 q2 q3 q4
  simp only [macSuite_argsOf] at hgen
  have hl := hash_lawful H hH sp.hash
  have k1 := tls13_key_lengths _ hl chts sp.keyLen (by omega)
  have k2 := tls13_key_lengths _ hl shts sp.keyLen (by omega)
  have k3 := tls13_key_lengths _ hl cats sp.keyLen (by omega)
  have k4 := tls13_key_lengths _ hl sats sp.keyLen (by omega)
  have hproj := released_displaced info c (t.records P L cls (snd13 H sp chts shts cats sats)) hwr hdel
  cases hm : c.opts.metadata with
  | false =>
    obtain ⟨frames, g1, g2, _⟩ := tls13_fragmented_of_release H P L _ info c hm t hch hsh hrc hrs hv hcomp hneg ps hres
      (argsOf sp) hargs fk fks hfound' _ hsec _ hgen _ _ _ _ _ _ _ _ ⟨rfl, rfl, rfl, rfl, rfl, rfl, rfl, rfl⟩ cls
      (classOf_cls13 _ sp cls hcls)
      (keyMatOk13 sp hwf cls hcls _ _ k1.1 k1.2) (keyMatOk13 sp hwf cls hcls _ _ k3.1 k3.2)
      (keyMatOk13 sp hwf cls hcls _ _ k2.1 k2.2) (keyMatOk13 sp hwf cls hcls _ _ k4.1 k4.2)
      hfc hfs hwr hlen hproj hcausal
    exact ⟨frames, g1, g2⟩
  | true =>
    obtain ⟨frames, g1, g2, _⟩ := tls13_fragmented_meta_of_release H P L _ info c hm t hch hsh hrc hrs hv hcomp hneg ps hres
      (argsOf sp) hargs fk fks hfound' _ hsec _ hgen _ _ _ _ _ _ _ _ ⟨rfl, rfl, rfl, rfl, rfl, rfl, rfl, rfl⟩ cls
      (classOf_cls13 _ sp cls hcls)
      (keyMatOk13 sp hwf cls hcls _ _ k1.1 k1.2) (keyMatOk13 sp hwf cls hcls _ _ k3.1 k3.2)
      (keyMatOk13 sp hwf cls hcls _ _ k2.1 k2.2) (keyMatOk13 sp hwf cls hcls _ _ k4.1 k4.2)
      hfc hfs hwr hlen hproj hcausal
    exact ⟨frames, g1, g2⟩

/-- **C01 for a whole SSL 3.0 – TLS 1.2 connection**: displaced segments, `-a` on or off, RFC terms -/
theorem tls12_connection_all (H : Crypto.Prims) (hH : H.Lawful) (P : Prims) (L : SealLaws P)
    (ls : List (C09Found.FLine × Bool)) (hls : ∀ x ∈ ls, x.1.WF)
    (info : Nat → Pipeline.Info) (c : Pipeline.Conn)
    (t : Transcript) (hch : t.ch.WellFormed) (hsh : t.sh.WellFormed) (hrc : t.rvC.length = 2) (hrs : t.rvS.length = 2)
    (hv : t.ver.length = 2) (hcomp : t.sh.compressionMethod = 0)
    (pv : ProtocolVersion) (hneg : Negotiated t.rvS t.sh (sessVer pv))
    (hsz : pv = .ssl30 → H.md5.outLen = 16 ∧ H.sha1.outLen = 20)
    (haccept : CipherSuite.resolve (Bytes.beNat t.sh.cipherSuite) ≠ none)
    (sp : SuiteSpec) (hsuite : suiteOfCode (Bytes.beNat t.sh.cipherSuite) = some sp) (hvalid : ValidFor sp pv)
    (cls : CipherClass) (hcls : cls12 pv (etmNegotiated t.sh) sp = some cls)
    (ms : Bytes) (hms : ms.length = 48)
    (hl1 : HasLine ls labelClientRandom (Pipeline.natsOfBytes t.ch.random) (Pipeline.natsOfBytes ms))
    (ho1 : OnlySecret ls labelClientRandom (Pipeline.natsOfBytes t.ch.random) (Pipeline.natsOfBytes ms))
    (hsc : Script12 t.cEvs) (hss : Script12 t.sEvs)
    (hokc : ∀ e ∈ t.cEvs, EvOk1 cls (sp.hash.suite H).outLen e)
    (hoks : ∀ e ∈ t.sEvs, EvOk1 cls (sp.hash.suite H).outLen e)
    (hwr : ∀ d, ∀ r ∈ t.records P L cls (snd12 H pv sp ms t.ch.random t.sh.random) d, WholeRecord r)
    (hlen : t.cEvs.length + t.sEvs.length ≤ seqLimit)
    (hdel : DeliveredDisplaced info c (t.stream P L cls (snd12 H pv sp ms t.ch.random t.sh.random)))
    (hc12 : c.opts.metadata = false → Causal12 (connRecs info c))
    (hc13 : c.opts.metadata = true → Causal13 (connRecs info c)) :
    ∃ frames, Pipeline.connOut H P info c ((fileKeysOf (some (C09Found.fileText ls))).getD [])
        = some (frames.map (Pipeline.addressed c.opts c)) ∧
      Spec.reassemble frames = some (expect12 c.opts.metadata P L cls t (snd12 H pv sp ms t.ch.random t.sh.random)) := by
  obtain ⟨ps, sp', hres, hsuite', hwf, hargs, _⟩ := resolve_rfc _ haccept
  rw [hsuite] at hsuite'
  cases hsuite'
  obtain ⟨fk, fks, srest, hfound, hsec⟩ := legacy_lines _ ls hls ms hl1 ho1
  have hfound' : (Keylog.findSessionSecrets ((fileKeysOf (some (C09Found.fileText ls))).getD [])
      (Pipeline.natsOfBytes t.ch.random)).filter
        (fun k => k.label == Keylog.s_CLIENT_RANDOM || k.label == Keylog.s_RSA) = fk :: fks := by
    rw [C09Found.found12_fileText ls hls]; exact hfound
  have haead : sp.bulk.isAead = true → ksVer pv = .tls12 := by
    intro h; have := hvalid (.inl h); subst this; rfl
  have hkl : sp.keyLen ≤ 32 := keyLen_le sp hwf
  obtain ⟨k, hgen, hkeys⟩ := Props.C15.installed_eq_schedule H hH (ksVer pv) pv (specVersion_ksVer pv) (argsOf sp).ks sp.bulk
    (suiteBulk_argsOf sp) haead (fun _ => rfl) ms t.ch.random t.sh.random srest
    (by intro _; rw [hms])
    (by
      intro h30
      have hpv : pv = .ssl30 := by cases pv <;> simp [ksVer] at h30 ⊢
      obtain ⟨z1, z2⟩ := hsz hpv
      have hnot : ¬ (sp.bulk.isAead = true ∨ sp.hash = .sha256 ∨ sp.hash = .sha384) := by
        intro h; have := hvalid h; rw [hpv] at this; cases this
      rw [macSuite_argsOf, z1]
      have hm : (sp.hash.suite H).outLen ≤ 20 := by
        obtain ⟨b, kl, hs, tg⟩ := sp
        cases hs <;> simp [HashName.suite, z1, z2] at hnot ⊢
      have hi : KeySchedule.ivLenLegacy (argsOf sp).ks.cipher ≤ 16 := by
        generalize (argsOf sp).ks.cipher = c
        cases c <;> simp [KeySchedule.ivLenLegacy]
      show 2 * sp.keyLen + _ + _ ≤ _
      omega)
  rw [rfcParams_argsOf] at hkeys
  obtain ⟨_, _, hck, hsk, hivs⟩ := hkeys
  obtain ⟨l1, l2, l3, l4⟩ := connectionKeys_lengths H hH pv (secParams H pv sp) (prfHash_lawful H hH _) ms t.ch.random
    t.sh.random
  -- the RFC sender's states against the installed keys: equal, or equal in everything the class reads
  have hstates : legacySnd k = snd12 H pv sp ms t.ch.random t.sh.random ∨
      (IvFree cls ∧ SameKey (legacySnd k).c (snd12 H pv sp ms t.ch.random t.sh.random).c ∧
        SameKey (legacySnd k).s (snd12 H pv sp ms t.ch.random t.sh.random).s) := by
    by_cases h0 : 0 < recordIvLength pv sp.bulk
    · obtain ⟨hi1, hi2⟩ := hivs h0
      left
      simp only [legacySnd, snd12, hck, hsk, hi1, hi2]
    · exact .inr ⟨ivFree_of_cls12 pv _ sp cls hcls h0, ⟨hck, rfl, rfl⟩, ⟨hsk, rfl, rfl⟩⟩
  have hrecs : ∀ d, t.records P L cls (legacySnd k) d = t.records P L cls (snd12 H pv sp ms t.ch.random t.sh.random) d := by
    rcases hstates with h | ⟨hf, a, b⟩
    · intro d; rw [h]
    · intro d; exact records_ivfree P L cls hf t _ _ a b d
  have hstream : t.stream P L cls (legacySnd k) = t.stream P L cls (snd12 H pv sp ms t.ch.random t.sh.random) := by
    funext d
    simp only [Transcript.stream, hrecs d]
  have hexp : ∀ m, expect12 m P L cls t (legacySnd k) = expect12 m P L cls t (snd12 H pv sp ms t.ch.random t.sh.random) := by
    intro m
    rcases hstates with h | ⟨hf, a, b⟩
    · rw [h]
    · cases m
      · rfl
      · simp only [expect12, if_true]
        rw [metaStream12_ivfree P L cls hf t.ver t.cEvs _ _ a, metaStream12_ivfree P L cls hf t.ver t.sEvs _ _ b]
  have hcls' : classOf (argsOf sp).bulk (Pipeline.rlVersion (sessVer pv))
      (Session.extGet ((t.sh.extensions.getD []).map extPair) [0x00, 0x16]).isSome (argsOf sp).tagLen = some cls := by
    rw [etm_extGet _ (exts_wf t.sh hsh)]
    exact classOf_cls12 pv _ sp cls hcls
  rw [← ksVersion_sessVer] at hgen
  have hmac : 0 < (KeySchedule.macSuite H (argsOf sp).ks.mac).outLen := by
    rw [macSuite_argsOf]; exact (hash_lawful H hH sp.hash).outLen_pos
  have hk1 := keyMatOk12 pv _ sp hwf cls hcls k.clientKey k.clientIv (by rw [hck]; exact l1)
    (fun h0 => by rw [(hivs h0).1]; exact l3)
  have hk2 := keyMatOk12 pv _ sp hwf cls hcls k.serverKey k.serverIv (by rw [hsk]; exact l2)
    (fun h0 => by rw [(hivs h0).2]; exact l4)
  have hwr' : ∀ d, ∀ r ∈ t.records P L cls (legacySnd k) d, WholeRecord r := by
    intro d; rw [hrecs d]; exact hwr d
  have hproj := released_displaced info c (t.records P L cls (legacySnd k)) hwr' (by
    have : (fun d => (t.records P L cls (legacySnd k) d).flatten) = t.stream P L cls (snd12 H pv sp ms t.ch.random t.sh.random) := by
      rw [← hstream]; rfl
    rw [this]; exact hdel)
  cases hm : c.opts.metadata with
  | false =>
    obtain ⟨frames, g1, g2, _⟩ := tls12_connection_exact_of_release H P L _ info c hm t hch hsh hrc hrs hv hcomp (sessVer pv)
      (sessVer_ne13 pv) hneg ps hres (argsOf sp) hargs fk fks hfound' _ hsec k hgen cls hcls' hmac hk1 hk2 hsc hss
      (by rw [macSuite_argsOf]; exact hokc) (by rw [macSuite_argsOf]; exact hoks) hwr' hlen hproj (hc12 hm)
    exact ⟨frames, g1, g2⟩
  | true =>
    obtain ⟨frames, g1, g2, _⟩ := tls12_meta_of_release H P L _ info c hm t hch hsh hrc hrs hv hcomp (sessVer pv)
      (sessVer_ne13 pv) hneg ps hres (argsOf sp) hargs fk fks hfound' _ hsec k hgen cls hcls' hmac hk1 hk2 hsc hss
      (by rw [macSuite_argsOf]; exact hokc) (by rw [macSuite_argsOf]; exact hoks) hwr' hlen hproj (hc13 hm)
    refine ⟨frames, g1, ?_⟩
    rw [g2, ← hexp true]
    rfl

/-! ### from the described capture to the output file -/

/-- `Props.C01Full.capture_exact_glue` WITH the abort alternative and therefore without any hypothesis about the write loop
    or about what the other traffic of the capture exports: the run gets past the options and the read loop, and either the
    write loop raises (scapy / dpkt refuse some frame of some session: a truncated file) or the file is written and `Exact`ly
    contains the conversation. -/
theorem capture_exact_glue_or_abort (mask : Quic.Dissect.MaskFn) (H : Crypto.Prims) (P : Prims)
    (fl : Flow) (hne : clientEp fl ≠ serverEp fl) (evs : List CEv) (args : Args)
    (hdesc : DescribedX fl args.checksumTest evs)
    (hnot1 : ∀ e ∈ evs.map CEv.cap, Ingest.isMinusOne e.t = false)
    (cv : Spec.Containers.Variant) (cevs : List Spec.Containers.Ev) (hcwf : cv.WF cevs)
    (hitems : cevs.filterMap (Spec.Containers.scale cv) = (evs.map CEv.cap).map CapEv.item)
    (keyFile : Option Keylog.Str)
    (pm : List (Int × Int)) (ports : List Int)
    (hpm : Options.getPortMap Options.Src.bare args.mArg = .ok pm)
    (hports : Options.serverPorts Options.Src.builtin Options.Src.pDefault args.pArg = .ok ports)
    (hsp : ports.contains (fl.serverPort : Int) = true) (hcp : ports.contains (fl.clientPort : Int) = false)
    (p0 : Pkt) (rest : List Pkt) (hfp : flowPkts fl 0 evs = p0 :: rest)
    (pc psv : Bytes)
    (hconn : ∃ frames, Pipeline.connOut H P (capInfo (evs.map CEv.cap))
        (sessionOf (evs.map CEv.cap) (optsOf args ports pm) p0 rest) ((fileKeysOf keyFile).getD [])
          = some (frames.map (Pipeline.addressed (optsOf args ports pm) (sessionOf (evs.map CEv.cap) (optsOf args ports pm) p0 rest))) ∧
        Spec.reassemble frames = some (pc, psv)) :
    (∃ e, exportFile mask H P args cv.isLegacy keyFile (Spec.Containers.encode cv cevs) = .abort (.write e)) ∨
    ∃ f, exportFile mask H P args cv.isLegacy keyFile (Spec.Containers.encode cv cevs) = .file f ∧
      Exact f (sessionOf (evs.map CEv.cap) (optsOf args ports pm) p0 rest) pc psv := by
  have hread : Container.read cv.isLegacy (Spec.Containers.encode cv cevs) = .ok ((evs.map CEv.cap).map CapEv.item) := by
    rw [Props.C12.reader_roundtrip cv cevs hcwf, hitems]
  have hok := capOkC_of_describedX fl args.checksumTest evs hdesc hnot1
  have hing := ingest_of_capture_c Keylog.srcHexClass args.checksumTest cv.isLegacy _ (evs.map CEv.cap) hread hok
  obtain ⟨hF, hcand, _, _, _⟩ := described_session_x fl hne evs (optsOf args ports pm) hdesc hsp hcp p0 rest hfp
  obtain ⟨frames, hc, hre⟩ := hconn
  have hopt := optionsBad_false args pm ports hpm hports
  obtain ⟨pre, post, hout⟩ := session_of_items mask H P (capInfo (evs.map CEv.cap)) (optsOf args ports pm)
    ((fileKeysOf keyFile).getD []) (itemsFromC args.checksumTest 0 (evs.map CEv.cap)) (refPkt fl) p0 rest hF hcand
  have hTM : (Pipeline.tlsMachine H P (capInfo (evs.map CEv.cap))).out
      { (Pipeline.tlsMachine H P (capInfo (evs.map CEv.cap))).new (optsOf args ports pm) p0 with pkts := p0 :: rest }
      ((fileKeysOf keyFile).getD [] ++ dsbKeys (optsOf args ports pm) (itemsFromC args.checksumTest 0 (evs.map CEv.cap)))
        = frames.map (Pipeline.addressed (optsOf args ports pm) (sessionOf (evs.map CEv.cap) (optsOf args ports pm) p0 rest)) := by
    show (Pipeline.connOut H P (capInfo (evs.map CEv.cap)) (sessionOf (evs.map CEv.cap) (optsOf args ports pm) p0 rest) _).getD [] = _
    rw [dsbKeys_itemsFromC, List.append_nil, hc]; rfl
  rw [hTM] at hout
  have hfr := framesFrom_eq mask H P args (fileKeysOf keyFile) (itemsFromC args.checksumTest 0 (evs.map CEv.cap))
    (capInfo (evs.map CEv.cap)) pm ports hpm hports
  rw [hout] at hfr
  rcases Props.Export.exportFrom_stages mask H P freshState args cv.isLegacy keyFile _ hopt with
    ⟨e, hi, _⟩ | ⟨xs', is', out, hi, hf, hw⟩
  · rw [hing] at hi; cases hi
  rw [hing] at hi
  cases hi
  have hfr' : framesFrom mask H P freshState args (fileKeysOf keyFile) (itemsFromC args.checksumTest 0 (evs.map CEv.cap))
      (Ingest.lookup (infosFrom 0 (evs.map CEv.cap))) = _ := hfr
  rw [hfr'] at hf
  cases hf
  rcases hw with ⟨e, _, he⟩ | ⟨f, hw, he⟩
  · exact .inl ⟨e, he⟩
  · refine .inr ⟨f, he, frames, ?_, hre⟩
    have hwf := Lemmas.Export.framesFrom_wf mask H P freshState args _ _ _ _
      (Lemmas.Export.itemsWith_good _ _ _ _ _ _ hing) hfr'
    obtain ⟨A, C, B, _, _, hB, hr, hg⟩ := file_of_frames pre _ post f hwf hw
    exact ⟨A, C, B, hB, hr, hg⟩

/-! ### TLS 1.3 -/

/-- **C01, TLS 1.3, everything combined, from the release order** (`Causal13` on `connRecs`: the ClientHello is released
    first, the ServerHello second). -/
theorem tls13_capture_exact_all_of_release (mask : Quic.Dissect.MaskFn) (H : Crypto.Prims) (hH : H.Lawful) (P : Prims)
    (L : SealLaws P)
    -- the capture file: bytes written by the independent encoder in ANY container variant, holding the described packets:
    -- the connection's segments (IPv4 / IPv6 with extension headers; with `-c` valid TCP checksums) and ANYTHING else
    (fl : Flow) (hne : clientEp fl ≠ serverEp fl) (evs : List CEv) (args : Args)
    (hdesc : DescribedX fl args.checksumTest evs)
    (hnot1 : ∀ e ∈ evs.map CEv.cap, Ingest.isMinusOne e.t = false)
    (cv : Spec.Containers.Variant) (cevs : List Spec.Containers.Ev) (hcwf : cv.WF cevs)
    (hitems : cevs.filterMap (Spec.Containers.scale cv) = (evs.map CEv.cap).map CapEv.item)
    -- the options: ANY `-a`, `-c`, `-m`, `-p`; the server port is a server port, the client port is not
    (ls : List (C09Found.FLine × Bool)) (hls : ∀ x ∈ ls, x.1.WF)
    (pm : List (Int × Int)) (ports : List Int)
    (hpm : Options.getPortMap Options.Src.bare args.mArg = .ok pm)
    (hports : Options.serverPorts Options.Src.builtin Options.Src.pDefault args.pArg = .ok ports)
    (hsp : ports.contains (fl.serverPort : Int) = true) (hcp : ports.contains (fl.clientPort : Int) = false)
    (p0 : Pkt) (rest : List Pkt) (hfp : flowPkts fl 0 evs = p0 :: rest)
    -- the connection as sent: hellos per RFC 8446 §4.1; handshake messages fragmented anywhere
    (t : TranscriptF) (hch : t.ch.WellFormed) (hsh : t.sh.WellFormed) (hrc : t.rvC.length = 2) (hrs : t.rvS.length = 2)
    (hv : t.ver.length = 2) (hcomp : t.sh.compressionMethod = 0) (hneg : Negotiated t.rvS t.sh .tls13)
    (haccept : CipherSuite.resolve (Bytes.beNat t.sh.cipherSuite) ≠ none)
    (sp : SuiteSpec) (hsuite : suiteOfCode (Bytes.beNat t.sh.cipherSuite) = some sp)
    (cls : CipherClass) (hcls : cls13 sp = some cls)
    (chts shts cats sats : Bytes)
    (hl1 : HasLine ls labelCHTS (Pipeline.natsOfBytes t.ch.random) (Pipeline.natsOfBytes chts))
    (hl2 : HasLine ls labelSHTS (Pipeline.natsOfBytes t.ch.random) (Pipeline.natsOfBytes shts))
    (hl3 : HasLine ls labelCTS0 (Pipeline.natsOfBytes t.ch.random) (Pipeline.natsOfBytes cats))
    (hl4 : HasLine ls labelSTS0 (Pipeline.natsOfBytes t.ch.random) (Pipeline.natsOfBytes sats))
    (ho1 : OnlySecret ls labelCHTS (Pipeline.natsOfBytes t.ch.random) (Pipeline.natsOfBytes chts))
    (ho2 : OnlySecret ls labelSHTS (Pipeline.natsOfBytes t.ch.random) (Pipeline.natsOfBytes shts))
    (ho3 : OnlySecret ls labelCTS0 (Pipeline.natsOfBytes t.ch.random) (Pipeline.natsOfBytes cats))
    (ho4 : OnlySecret ls labelSTS0 (Pipeline.natsOfBytes t.ch.random) (Pipeline.natsOfBytes sats))
    (hfc : FragConform t.cF) (hfs : FragConform t.sF)
    (hwr : ∀ d, ∀ r ∈ t.records P L cls (snd13 H sp chts shts cats sats) d, WholeRecord r)
    (hlen : costF t.cF + costF t.sF ≤ seqLimit)
    -- TCP delivery: any cuts, duplicates, displaced segments, any ISN (C05's domain)
    (hwires : WiresDelivered evs (t.stream P L cls (snd13 H sp chts shts cats sats)))
    (hcausal : Causal13 (connRecs (capInfo (evs.map CEv.cap)) (sessionOf (evs.map CEv.cap) (optsOf args ports pm) p0 rest)))
    -- what the write loop needs (each CAN fail on the real tool: see the header of `Props/C01File2`)
    (hcport : fl.clientPort < 65536) (hsport : fl.serverPort < 65536) (hpmv : ∀ kv ∈ pm, kv.2.toNat < 65536)
    (hbytes : (expectF args.metadata P L cls t (snd13 H sp chts shts cats sats)).1.length + (expectF args.metadata P L cls t (snd13 H sp chts shts cats sats)).2.length + 1 < 2 ^ 32)
    (hrec : RecordsFit H P (capInfo (evs.map CEv.cap)) (sessionOf (evs.map CEv.cap) (optsOf args ports pm) p0 rest)
      ((fileKeysOf (some (C09Found.fileText ls))).getD []))
    (hus : ∀ e ∈ evs.map CEv.cap, e.us < 2 ^ 64)
    (hothers : ∀ blk, Pipeline.connOut H P (capInfo (evs.map CEv.cap))
        (sessionOf (evs.map CEv.cap) (optsOf args ports pm) p0 rest) ((fileKeysOf (some (C09Found.fileText ls))).getD []) = some blk →
      OthersFitC mask H P args (some (C09Found.fileText ls)) (evs.map CEv.cap) blk) :
    ∃ f, exportFile mask H P args cv.isLegacy (some (C09Found.fileText ls)) (Spec.Containers.encode cv cevs) = .file f ∧
      Exact f (sessionOf (evs.map CEv.cap) (optsOf args ports pm) p0 rest) (expectF args.metadata P L cls t (snd13 H sp chts shts cats sats)).1 (expectF args.metadata P L cls t (snd13 H sp chts shts cats sats)).2 := by
  have hconn := tls13_connection_all H hH P L ls hls (capInfo (evs.map CEv.cap))
    (sessionOf (evs.map CEv.cap) (optsOf args ports pm) p0 rest) t hch hsh hrc hrs hv hcomp hneg haccept sp hsuite cls hcls
    chts shts cats sats hl1 hl2 hl3 hl4 ho1 ho2 ho3 ho4 hfc hfs hwr hlen
    (delivered_of_wires fl hne evs (optsOf args ports pm) hdesc hsp hcp p0 rest hfp _ hwires) hcausal
  exact capture_exact_glue mask H P fl hne evs args hdesc hnot1 cv cevs hcwf hitems (some (C09Found.fileText ls)) pm ports
    hpm hports hsp hcp p0 rest hfp _ _ hconn hcport hsport hpmv hbytes hrec hus hothers

/-- **C01, TLS 1.3, EVERYTHING COMBINED** (see the header for the classification of every hypothesis): ANY options
    (`-a -c -m -p`), IPv4 / IPv6 with extension headers, handshake messages fragmented anywhere, TCP delivery with any cuts,
    duplicates, displaced segments and any ISN, causality from the packet order, any other traffic in the capture, hypotheses
    in RFC terms ⇒ the run writes a file that `Exact`ly contains the conversation (`expectF args.metadata …`). -/
theorem tls13_capture_exact_all (mask : Quic.Dissect.MaskFn) (H : Crypto.Prims) (hH : H.Lawful) (P : Prims) (L : SealLaws P)
    -- the capture file: bytes written by the independent encoder in ANY container variant, holding the described packets:
    -- the connection's segments (IPv4 / IPv6 with extension headers; with `-c` valid TCP checksums) and ANYTHING else
    (fl : Flow) (hne : clientEp fl ≠ serverEp fl) (evs : List CEv) (args : Args)
    (hdesc : DescribedX fl args.checksumTest evs)
    (hnot1 : ∀ e ∈ evs.map CEv.cap, Ingest.isMinusOne e.t = false)
    (cv : Spec.Containers.Variant) (cevs : List Spec.Containers.Ev) (hcwf : cv.WF cevs)
    (hitems : cevs.filterMap (Spec.Containers.scale cv) = (evs.map CEv.cap).map CapEv.item)
    -- the options: ANY `-a`, `-c`, `-m`, `-p`; the server port is a server port, the client port is not
    (ls : List (C09Found.FLine × Bool)) (hls : ∀ x ∈ ls, x.1.WF)
    (pm : List (Int × Int)) (ports : List Int)
    (hpm : Options.getPortMap Options.Src.bare args.mArg = .ok pm)
    (hports : Options.serverPorts Options.Src.builtin Options.Src.pDefault args.pArg = .ok ports)
    (hsp : ports.contains (fl.serverPort : Int) = true) (hcp : ports.contains (fl.clientPort : Int) = false)
    (p0 : Pkt) (rest : List Pkt) (hfp : flowPkts fl 0 evs = p0 :: rest)
    -- the connection as sent: hellos per RFC 8446 §4.1; handshake messages fragmented anywhere
    (t : TranscriptF) (hch : t.ch.WellFormed) (hsh : t.sh.WellFormed) (hrc : t.rvC.length = 2) (hrs : t.rvS.length = 2)
    (hv : t.ver.length = 2) (hcomp : t.sh.compressionMethod = 0) (hneg : Negotiated t.rvS t.sh .tls13)
    (haccept : CipherSuite.resolve (Bytes.beNat t.sh.cipherSuite) ≠ none)
    (sp : SuiteSpec) (hsuite : suiteOfCode (Bytes.beNat t.sh.cipherSuite) = some sp)
    (cls : CipherClass) (hcls : cls13 sp = some cls)
    (chts shts cats sats : Bytes)
    (hl1 : HasLine ls labelCHTS (Pipeline.natsOfBytes t.ch.random) (Pipeline.natsOfBytes chts))
    (hl2 : HasLine ls labelSHTS (Pipeline.natsOfBytes t.ch.random) (Pipeline.natsOfBytes shts))
    (hl3 : HasLine ls labelCTS0 (Pipeline.natsOfBytes t.ch.random) (Pipeline.natsOfBytes cats))
    (hl4 : HasLine ls labelSTS0 (Pipeline.natsOfBytes t.ch.random) (Pipeline.natsOfBytes sats))
    (ho1 : OnlySecret ls labelCHTS (Pipeline.natsOfBytes t.ch.random) (Pipeline.natsOfBytes chts))
    (ho2 : OnlySecret ls labelSHTS (Pipeline.natsOfBytes t.ch.random) (Pipeline.natsOfBytes shts))
    (ho3 : OnlySecret ls labelCTS0 (Pipeline.natsOfBytes t.ch.random) (Pipeline.natsOfBytes cats))
    (ho4 : OnlySecret ls labelSTS0 (Pipeline.natsOfBytes t.ch.random) (Pipeline.natsOfBytes sats))
    (hfc : FragConform t.cF) (hfs : FragConform t.sF)
    (hwr : ∀ d, ∀ r ∈ t.records P L cls (snd13 H sp chts shts cats sats) d, WholeRecord r)
    (hlen : costF t.cF + costF t.sF ≤ seqLimit)
    -- TCP delivery: any cuts, duplicates, displaced segments, any ISN (C05's domain)
    (hwires : WiresDelivered evs (t.stream P L cls (snd13 H sp chts shts cats sats)))
    -- causality from the PACKET ORDER: the ClientHello complete before the server's first data segment, …
    (recsB : List Bytes) (hflights : FlightsFirst evs t.chRecord recsB)
    -- what the write loop needs (each CAN fail on the real tool: see the header of `Props/C01File2`)
    (hcport : fl.clientPort < 65536) (hsport : fl.serverPort < 65536) (hpmv : ∀ kv ∈ pm, kv.2.toNat < 65536)
    (hbytes : (expectF args.metadata P L cls t (snd13 H sp chts shts cats sats)).1.length + (expectF args.metadata P L cls t (snd13 H sp chts shts cats sats)).2.length + 1 < 2 ^ 32)
    (hrec : RecordsFit H P (capInfo (evs.map CEv.cap)) (sessionOf (evs.map CEv.cap) (optsOf args ports pm) p0 rest)
      ((fileKeysOf (some (C09Found.fileText ls))).getD []))
    (hus : ∀ e ∈ evs.map CEv.cap, e.us < 2 ^ 64)
    (hothers : ∀ blk, Pipeline.connOut H P (capInfo (evs.map CEv.cap))
        (sessionOf (evs.map CEv.cap) (optsOf args ports pm) p0 rest) ((fileKeysOf (some (C09Found.fileText ls))).getD []) = some blk →
      OthersFitC mask H P args (some (C09Found.fileText ls)) (evs.map CEv.cap) blk) :
    ∃ f, exportFile mask H P args cv.isLegacy (some (C09Found.fileText ls)) (Spec.Containers.encode cv cevs) = .file f ∧
      Exact f (sessionOf (evs.map CEv.cap) (optsOf args ports pm) p0 rest) (expectF args.metadata P L cls t (snd13 H sp chts shts cats sats)).1 (expectF args.metadata P L cls t (snd13 H sp chts shts cats sats)).2 := by
  have hcausal := causal13_of_packet_order _ _ t.chRecord recsB
    (firstFlights_of_capture fl hne evs (optsOf args ports pm) hdesc hsp hcp p0 rest hfp _ _ hflights)
  exact tls13_capture_exact_all_of_release mask H hH P L fl hne evs args hdesc hnot1 cv cevs hcwf hitems ls hls pm ports hpm
    hports hsp hcp p0 rest hfp t hch hsh hrc hrs hv hcomp hneg haccept sp hsuite cls hcls chts shts cats sats hl1 hl2 hl3 hl4
    ho1 ho2 ho3 ho4 hfc hfs hwr hlen hwires hcausal hcport hsport hpmv hbytes hrec hus hothers

/-- **… with the abort alternative and NO hypothesis about the write loop or the other traffic**: whatever else the capture
    holds, either the write loop raises or the output file `Exact`ly contains the conversation. -/
theorem tls13_capture_exact_all_or_abort (mask : Quic.Dissect.MaskFn) (H : Crypto.Prims) (hH : H.Lawful) (P : Prims)
    (L : SealLaws P)
    -- the capture file: bytes written by the independent encoder in ANY container variant, holding the described packets:
    -- the connection's segments (IPv4 / IPv6 with extension headers; with `-c` valid TCP checksums) and ANYTHING else
    (fl : Flow) (hne : clientEp fl ≠ serverEp fl) (evs : List CEv) (args : Args)
    (hdesc : DescribedX fl args.checksumTest evs)
    (hnot1 : ∀ e ∈ evs.map CEv.cap, Ingest.isMinusOne e.t = false)
    (cv : Spec.Containers.Variant) (cevs : List Spec.Containers.Ev) (hcwf : cv.WF cevs)
    (hitems : cevs.filterMap (Spec.Containers.scale cv) = (evs.map CEv.cap).map CapEv.item)
    -- the options: ANY `-a`, `-c`, `-m`, `-p`; the server port is a server port, the client port is not
    (ls : List (C09Found.FLine × Bool)) (hls : ∀ x ∈ ls, x.1.WF)
    (pm : List (Int × Int)) (ports : List Int)
    (hpm : Options.getPortMap Options.Src.bare args.mArg = .ok pm)
    (hports : Options.serverPorts Options.Src.builtin Options.Src.pDefault args.pArg = .ok ports)
    (hsp : ports.contains (fl.serverPort : Int) = true) (hcp : ports.contains (fl.clientPort : Int) = false)
    (p0 : Pkt) (rest : List Pkt) (hfp : flowPkts fl 0 evs = p0 :: rest)
    -- the connection as sent: hellos per RFC 8446 §4.1; handshake messages fragmented anywhere
    (t : TranscriptF) (hch : t.ch.WellFormed) (hsh : t.sh.WellFormed) (hrc : t.rvC.length = 2) (hrs : t.rvS.length = 2)
    (hv : t.ver.length = 2) (hcomp : t.sh.compressionMethod = 0) (hneg : Negotiated t.rvS t.sh .tls13)
    (haccept : CipherSuite.resolve (Bytes.beNat t.sh.cipherSuite) ≠ none)
    (sp : SuiteSpec) (hsuite : suiteOfCode (Bytes.beNat t.sh.cipherSuite) = some sp)
    (cls : CipherClass) (hcls : cls13 sp = some cls)
    (chts shts cats sats : Bytes)
    (hl1 : HasLine ls labelCHTS (Pipeline.natsOfBytes t.ch.random) (Pipeline.natsOfBytes chts))
    (hl2 : HasLine ls labelSHTS (Pipeline.natsOfBytes t.ch.random) (Pipeline.natsOfBytes shts))
    (hl3 : HasLine ls labelCTS0 (Pipeline.natsOfBytes t.ch.random) (Pipeline.natsOfBytes cats))
    (hl4 : HasLine ls labelSTS0 (Pipeline.natsOfBytes t.ch.random) (Pipeline.natsOfBytes sats))
    (ho1 : OnlySecret ls labelCHTS (Pipeline.natsOfBytes t.ch.random) (Pipeline.natsOfBytes chts))
    (ho2 : OnlySecret ls labelSHTS (Pipeline.natsOfBytes t.ch.random) (Pipeline.natsOfBytes shts))
    (ho3 : OnlySecret ls labelCTS0 (Pipeline.natsOfBytes t.ch.random) (Pipeline.natsOfBytes cats))
    (ho4 : OnlySecret ls labelSTS0 (Pipeline.natsOfBytes t.ch.random) (Pipeline.natsOfBytes sats))
    (hfc : FragConform t.cF) (hfs : FragConform t.sF)
    (hwr : ∀ d, ∀ r ∈ t.records P L cls (snd13 H sp chts shts cats sats) d, WholeRecord r)
    (hlen : costF t.cF + costF t.sF ≤ seqLimit)
    -- TCP delivery: any cuts, duplicates, displaced segments, any ISN (C05's domain)
    (hwires : WiresDelivered evs (t.stream P L cls (snd13 H sp chts shts cats sats)))
    -- causality from the PACKET ORDER: the ClientHello complete before the server's first data segment, …
    (recsB : List Bytes) (hflights : FlightsFirst evs t.chRecord recsB) :
    (∃ e, exportFile mask H P args cv.isLegacy (some (C09Found.fileText ls)) (Spec.Containers.encode cv cevs) = .abort (.write e)) ∨
    ∃ f, exportFile mask H P args cv.isLegacy (some (C09Found.fileText ls)) (Spec.Containers.encode cv cevs) = .file f ∧
      Exact f (sessionOf (evs.map CEv.cap) (optsOf args ports pm) p0 rest) (expectF args.metadata P L cls t (snd13 H sp chts shts cats sats)).1 (expectF args.metadata P L cls t (snd13 H sp chts shts cats sats)).2 := by
  have hcausal := causal13_of_packet_order _ _ t.chRecord recsB
    (firstFlights_of_capture fl hne evs (optsOf args ports pm) hdesc hsp hcp p0 rest hfp _ _ hflights)
  have hconn := tls13_connection_all H hH P L ls hls (capInfo (evs.map CEv.cap))
    (sessionOf (evs.map CEv.cap) (optsOf args ports pm) p0 rest) t hch hsh hrc hrs hv hcomp hneg haccept sp hsuite cls hcls
    chts shts cats sats hl1 hl2 hl3 hl4 ho1 ho2 ho3 ho4 hfc hfs hwr hlen
    (delivered_of_wires fl hne evs (optsOf args ports pm) hdesc hsp hcp p0 rest hfp _ hwires) hcausal
  exact capture_exact_glue_or_abort mask H P fl hne evs args hdesc hnot1 cv cevs hcwf hitems (some (C09Found.fileText ls))
    pm ports hpm hports hsp hcp p0 rest hfp _ _ hconn

/-! ### SSL 3.0 – TLS 1.2 -/

/-- **C01, SSL 3.0 – TLS 1.2, everything combined, from the release order** -/
theorem tls12_capture_exact_all_of_release (mask : Quic.Dissect.MaskFn) (H : Crypto.Prims) (hH : H.Lawful) (P : Prims)
    (L : SealLaws P)
    -- the capture file: bytes written by the independent encoder in ANY container variant, holding the described packets:
    -- the connection's segments (IPv4 / IPv6 with extension headers; with `-c` valid TCP checksums) and ANYTHING else
    (fl : Flow) (hne : clientEp fl ≠ serverEp fl) (evs : List CEv) (args : Args)
    (hdesc : DescribedX fl args.checksumTest evs)
    (hnot1 : ∀ e ∈ evs.map CEv.cap, Ingest.isMinusOne e.t = false)
    (cv : Spec.Containers.Variant) (cevs : List Spec.Containers.Ev) (hcwf : cv.WF cevs)
    (hitems : cevs.filterMap (Spec.Containers.scale cv) = (evs.map CEv.cap).map CapEv.item)
    -- the options: ANY `-a`, `-c`, `-m`, `-p`; the server port is a server port, the client port is not
    (ls : List (C09Found.FLine × Bool)) (hls : ∀ x ∈ ls, x.1.WF)
    (pm : List (Int × Int)) (ports : List Int)
    (hpm : Options.getPortMap Options.Src.bare args.mArg = .ok pm)
    (hports : Options.serverPorts Options.Src.builtin Options.Src.pDefault args.pArg = .ok ports)
    (hsp : ports.contains (fl.serverPort : Int) = true) (hcp : ports.contains (fl.clientPort : Int) = false)
    (p0 : Pkt) (rest : List Pkt) (hfp : flowPkts fl 0 evs = p0 :: rest)
    -- the connection as sent: hellos per RFC; the negotiated version
    (t : Transcript) (hch : t.ch.WellFormed) (hsh : t.sh.WellFormed) (hrc : t.rvC.length = 2) (hrs : t.rvS.length = 2)
    (hv : t.ver.length = 2) (hcomp : t.sh.compressionMethod = 0)
    (pv : ProtocolVersion) (hneg : Negotiated t.rvS t.sh (sessVer pv))
    (hsz : pv = .ssl30 → H.md5.outLen = 16 ∧ H.sha1.outLen = 20)
    (haccept : CipherSuite.resolve (Bytes.beNat t.sh.cipherSuite) ≠ none)
    (sp : SuiteSpec) (hsuite : suiteOfCode (Bytes.beNat t.sh.cipherSuite) = some sp) (hvalid : ValidFor sp pv)
    (cls : CipherClass) (hcls : cls12 pv (etmNegotiated t.sh) sp = some cls)
    (ms : Bytes) (hms : ms.length = 48)
    (hl1 : HasLine ls labelClientRandom (Pipeline.natsOfBytes t.ch.random) (Pipeline.natsOfBytes ms))
    (ho1 : OnlySecret ls labelClientRandom (Pipeline.natsOfBytes t.ch.random) (Pipeline.natsOfBytes ms))
    (hsc : Script12 t.cEvs) (hss : Script12 t.sEvs)
    (hokc : ∀ e ∈ t.cEvs, EvOk1 cls (sp.hash.suite H).outLen e)
    (hoks : ∀ e ∈ t.sEvs, EvOk1 cls (sp.hash.suite H).outLen e)
    (hwr : ∀ d, ∀ r ∈ t.records P L cls (snd12 H pv sp ms t.ch.random t.sh.random) d, WholeRecord r)
    (hlen : t.cEvs.length + t.sEvs.length ≤ seqLimit)
    -- TCP delivery: any cuts, duplicates, displaced segments, any ISN (C05's domain)
    (hwires : WiresDelivered evs (t.stream P L cls (snd12 H pv sp ms t.ch.random t.sh.random)))
    (hc12 : args.metadata = false → Causal12 (connRecs (capInfo (evs.map CEv.cap)) (sessionOf (evs.map CEv.cap) (optsOf args ports pm) p0 rest)))
    (hc13 : args.metadata = true → Causal13 (connRecs (capInfo (evs.map CEv.cap)) (sessionOf (evs.map CEv.cap) (optsOf args ports pm) p0 rest)))
    -- what the write loop needs (each CAN fail on the real tool: see the header of `Props/C01File2`)
    (hcport : fl.clientPort < 65536) (hsport : fl.serverPort < 65536) (hpmv : ∀ kv ∈ pm, kv.2.toNat < 65536)
    (hbytes : (expect12 args.metadata P L cls t (snd12 H pv sp ms t.ch.random t.sh.random)).1.length + (expect12 args.metadata P L cls t (snd12 H pv sp ms t.ch.random t.sh.random)).2.length + 1 < 2 ^ 32)
    (hrec : RecordsFit H P (capInfo (evs.map CEv.cap)) (sessionOf (evs.map CEv.cap) (optsOf args ports pm) p0 rest)
      ((fileKeysOf (some (C09Found.fileText ls))).getD []))
    (hus : ∀ e ∈ evs.map CEv.cap, e.us < 2 ^ 64)
    (hothers : ∀ blk, Pipeline.connOut H P (capInfo (evs.map CEv.cap))
        (sessionOf (evs.map CEv.cap) (optsOf args ports pm) p0 rest) ((fileKeysOf (some (C09Found.fileText ls))).getD []) = some blk →
      OthersFitC mask H P args (some (C09Found.fileText ls)) (evs.map CEv.cap) blk) :
    ∃ f, exportFile mask H P args cv.isLegacy (some (C09Found.fileText ls)) (Spec.Containers.encode cv cevs) = .file f ∧
      Exact f (sessionOf (evs.map CEv.cap) (optsOf args ports pm) p0 rest) (expect12 args.metadata P L cls t (snd12 H pv sp ms t.ch.random t.sh.random)).1 (expect12 args.metadata P L cls t (snd12 H pv sp ms t.ch.random t.sh.random)).2 := by
  have hconn := tls12_connection_all H hH P L ls hls (capInfo (evs.map CEv.cap))
    (sessionOf (evs.map CEv.cap) (optsOf args ports pm) p0 rest) t hch hsh hrc hrs hv hcomp pv hneg hsz haccept sp hsuite
    hvalid cls hcls ms hms hl1 ho1 hsc hss hokc hoks hwr hlen
    (delivered_of_wires fl hne evs (optsOf args ports pm) hdesc hsp hcp p0 rest hfp _ hwires) hc12 hc13
  exact capture_exact_glue mask H P fl hne evs args hdesc hnot1 cv cevs hcwf hitems (some (C09Found.fileText ls)) pm ports
    hpm hports hsp hcp p0 rest hfp _ _ hconn hcport hsport hpmv hbytes hrec hus hothers

/-- **C01, SSL 3.0 – TLS 1.2, EVERYTHING COMBINED**: as `tls13_capture_exact_all` (there is no handshake fragmentation
    clause: clear-text handshake records may group messages in any way, `Script12`). -/
theorem tls12_capture_exact_all (mask : Quic.Dissect.MaskFn) (H : Crypto.Prims) (hH : H.Lawful) (P : Prims) (L : SealLaws P)
    -- the capture file: bytes written by the independent encoder in ANY container variant, holding the described packets:
    -- the connection's segments (IPv4 / IPv6 with extension headers; with `-c` valid TCP checksums) and ANYTHING else
    (fl : Flow) (hne : clientEp fl ≠ serverEp fl) (evs : List CEv) (args : Args)
    (hdesc : DescribedX fl args.checksumTest evs)
    (hnot1 : ∀ e ∈ evs.map CEv.cap, Ingest.isMinusOne e.t = false)
    (cv : Spec.Containers.Variant) (cevs : List Spec.Containers.Ev) (hcwf : cv.WF cevs)
    (hitems : cevs.filterMap (Spec.Containers.scale cv) = (evs.map CEv.cap).map CapEv.item)
    -- the options: ANY `-a`, `-c`, `-m`, `-p`; the server port is a server port, the client port is not
    (ls : List (C09Found.FLine × Bool)) (hls : ∀ x ∈ ls, x.1.WF)
    (pm : List (Int × Int)) (ports : List Int)
    (hpm : Options.getPortMap Options.Src.bare args.mArg = .ok pm)
    (hports : Options.serverPorts Options.Src.builtin Options.Src.pDefault args.pArg = .ok ports)
    (hsp : ports.contains (fl.serverPort : Int) = true) (hcp : ports.contains (fl.clientPort : Int) = false)
    (p0 : Pkt) (rest : List Pkt) (hfp : flowPkts fl 0 evs = p0 :: rest)
    -- the connection as sent: hellos per RFC; the negotiated version
    (t : Transcript) (hch : t.ch.WellFormed) (hsh : t.sh.WellFormed) (hrc : t.rvC.length = 2) (hrs : t.rvS.length = 2)
    (hv : t.ver.length = 2) (hcomp : t.sh.compressionMethod = 0)
    (pv : ProtocolVersion) (hneg : Negotiated t.rvS t.sh (sessVer pv))
    (hsz : pv = .ssl30 → H.md5.outLen = 16 ∧ H.sha1.outLen = 20)
    (haccept : CipherSuite.resolve (Bytes.beNat t.sh.cipherSuite) ≠ none)
    (sp : SuiteSpec) (hsuite : suiteOfCode (Bytes.beNat t.sh.cipherSuite) = some sp) (hvalid : ValidFor sp pv)
    (cls : CipherClass) (hcls : cls12 pv (etmNegotiated t.sh) sp = some cls)
    (ms : Bytes) (hms : ms.length = 48)
    (hl1 : HasLine ls labelClientRandom (Pipeline.natsOfBytes t.ch.random) (Pipeline.natsOfBytes ms))
    (ho1 : OnlySecret ls labelClientRandom (Pipeline.natsOfBytes t.ch.random) (Pipeline.natsOfBytes ms))
    (hsc : Script12 t.cEvs) (hss : Script12 t.sEvs)
    (hokc : ∀ e ∈ t.cEvs, EvOk1 cls (sp.hash.suite H).outLen e)
    (hoks : ∀ e ∈ t.sEvs, EvOk1 cls (sp.hash.suite H).outLen e)
    (hwr : ∀ d, ∀ r ∈ t.records P L cls (snd12 H pv sp ms t.ch.random t.sh.random) d, WholeRecord r)
    (hlen : t.cEvs.length + t.sEvs.length ≤ seqLimit)
    -- TCP delivery: any cuts, duplicates, displaced segments, any ISN (C05's domain)
    (hwires : WiresDelivered evs (t.stream P L cls (snd12 H pv sp ms t.ch.random t.sh.random)))
    -- causality from the PACKET ORDER: the ClientHello complete before the server's first data segment, …
    (recsB : List Bytes) (hflights : FlightsFirst evs t.chRecord recsB)
    -- what the write loop needs (each CAN fail on the real tool: see the header of `Props/C01File2`)
    (hcport : fl.clientPort < 65536) (hsport : fl.serverPort < 65536) (hpmv : ∀ kv ∈ pm, kv.2.toNat < 65536)
    (hbytes : (expect12 args.metadata P L cls t (snd12 H pv sp ms t.ch.random t.sh.random)).1.length + (expect12 args.metadata P L cls t (snd12 H pv sp ms t.ch.random t.sh.random)).2.length + 1 < 2 ^ 32)
    (hrec : RecordsFit H P (capInfo (evs.map CEv.cap)) (sessionOf (evs.map CEv.cap) (optsOf args ports pm) p0 rest)
      ((fileKeysOf (some (C09Found.fileText ls))).getD []))
    (hus : ∀ e ∈ evs.map CEv.cap, e.us < 2 ^ 64)
    (hothers : ∀ blk, Pipeline.connOut H P (capInfo (evs.map CEv.cap))
        (sessionOf (evs.map CEv.cap) (optsOf args ports pm) p0 rest) ((fileKeysOf (some (C09Found.fileText ls))).getD []) = some blk →
      OthersFitC mask H P args (some (C09Found.fileText ls)) (evs.map CEv.cap) blk) :
    ∃ f, exportFile mask H P args cv.isLegacy (some (C09Found.fileText ls)) (Spec.Containers.encode cv cevs) = .file f ∧
      Exact f (sessionOf (evs.map CEv.cap) (optsOf args ports pm) p0 rest) (expect12 args.metadata P L cls t (snd12 H pv sp ms t.ch.random t.sh.random)).1 (expect12 args.metadata P L cls t (snd12 H pv sp ms t.ch.random t.sh.random)).2 := by
  have hff := firstFlights_of_capture fl hne evs (optsOf args ports pm) hdesc hsp hcp p0 rest hfp _ _ hflights
  have hc13 : args.metadata = true → Causal13 _ := fun _ => causal13_of_packet_order _ _ t.chRecord recsB hff
  have hc12 : args.metadata = false → Causal12 _ := fun _ => causal12_of_packet_order _ _ [t.chRecord] recsB hff
    (by simp) (by
      intro r hr
      simp only [List.mem_singleton] at hr
      subst hr
      simp [Transcript.chRecord, record])
  exact tls12_capture_exact_all_of_release mask H hH P L fl hne evs args hdesc hnot1 cv cevs hcwf hitems ls hls pm ports hpm
    hports hsp hcp p0 rest hfp t hch hsh hrc hrs hv hcomp pv hneg hsz haccept sp hsuite hvalid cls hcls ms hms hl1 ho1 hsc hss
    hokc hoks hwr hlen hwires hc12 hc13 hcport hsport hpmv hbytes hrec hus hothers

/-- **… with the abort alternative** -/
theorem tls12_capture_exact_all_or_abort (mask : Quic.Dissect.MaskFn) (H : Crypto.Prims) (hH : H.Lawful) (P : Prims)
    (L : SealLaws P)
    -- the capture file: bytes written by the independent encoder in ANY container variant, holding the described packets:
    -- the connection's segments (IPv4 / IPv6 with extension headers; with `-c` valid TCP checksums) and ANYTHING else
    (fl : Flow) (hne : clientEp fl ≠ serverEp fl) (evs : List CEv) (args : Args)
    (hdesc : DescribedX fl args.checksumTest evs)
    (hnot1 : ∀ e ∈ evs.map CEv.cap, Ingest.isMinusOne e.t = false)
    (cv : Spec.Containers.Variant) (cevs : List Spec.Containers.Ev) (hcwf : cv.WF cevs)
    (hitems : cevs.filterMap (Spec.Containers.scale cv) = (evs.map CEv.cap).map CapEv.item)
    -- the options: ANY `-a`, `-c`, `-m`, `-p`; the server port is a server port, the client port is not
    (ls : List (C09Found.FLine × Bool)) (hls : ∀ x ∈ ls, x.1.WF)
    (pm : List (Int × Int)) (ports : List Int)
    (hpm : Options.getPortMap Options.Src.bare args.mArg = .ok pm)
    (hports : Options.serverPorts Options.Src.builtin Options.Src.pDefault args.pArg = .ok ports)
    (hsp : ports.contains (fl.serverPort : Int) = true) (hcp : ports.contains (fl.clientPort : Int) = false)
    (p0 : Pkt) (rest : List Pkt) (hfp : flowPkts fl 0 evs = p0 :: rest)
    -- the connection as sent: hellos per RFC; the negotiated version
    (t : Transcript) (hch : t.ch.WellFormed) (hsh : t.sh.WellFormed) (hrc : t.rvC.length = 2) (hrs : t.rvS.length = 2)
    (hv : t.ver.length = 2) (hcomp : t.sh.compressionMethod = 0)
    (pv : ProtocolVersion) (hneg : Negotiated t.rvS t.sh (sessVer pv))
    (hsz : pv = .ssl30 → H.md5.outLen = 16 ∧ H.sha1.outLen = 20)
    (haccept : CipherSuite.resolve (Bytes.beNat t.sh.cipherSuite) ≠ none)
    (sp : SuiteSpec) (hsuite : suiteOfCode (Bytes.beNat t.sh.cipherSuite) = some sp) (hvalid : ValidFor sp pv)
    (cls : CipherClass) (hcls : cls12 pv (etmNegotiated t.sh) sp = some cls)
    (ms : Bytes) (hms : ms.length = 48)
    (hl1 : HasLine ls labelClientRandom (Pipeline.natsOfBytes t.ch.random) (Pipeline.natsOfBytes ms))
    (ho1 : OnlySecret ls labelClientRandom (Pipeline.natsOfBytes t.ch.random) (Pipeline.natsOfBytes ms))
    (hsc : Script12 t.cEvs) (hss : Script12 t.sEvs)
    (hokc : ∀ e ∈ t.cEvs, EvOk1 cls (sp.hash.suite H).outLen e)
    (hoks : ∀ e ∈ t.sEvs, EvOk1 cls (sp.hash.suite H).outLen e)
    (hwr : ∀ d, ∀ r ∈ t.records P L cls (snd12 H pv sp ms t.ch.random t.sh.random) d, WholeRecord r)
    (hlen : t.cEvs.length + t.sEvs.length ≤ seqLimit)
    -- TCP delivery: any cuts, duplicates, displaced segments, any ISN (C05's domain)
    (hwires : WiresDelivered evs (t.stream P L cls (snd12 H pv sp ms t.ch.random t.sh.random)))
    -- causality from the PACKET ORDER: the ClientHello complete before the server's first data segment, …
    (recsB : List Bytes) (hflights : FlightsFirst evs t.chRecord recsB) :
    (∃ e, exportFile mask H P args cv.isLegacy (some (C09Found.fileText ls)) (Spec.Containers.encode cv cevs) = .abort (.write e)) ∨
    ∃ f, exportFile mask H P args cv.isLegacy (some (C09Found.fileText ls)) (Spec.Containers.encode cv cevs) = .file f ∧
      Exact f (sessionOf (evs.map CEv.cap) (optsOf args ports pm) p0 rest) (expect12 args.metadata P L cls t (snd12 H pv sp ms t.ch.random t.sh.random)).1 (expect12 args.metadata P L cls t (snd12 H pv sp ms t.ch.random t.sh.random)).2 := by
  have hff := firstFlights_of_capture fl hne evs (optsOf args ports pm) hdesc hsp hcp p0 rest hfp _ _ hflights
  have hc13 : args.metadata = true → Causal13 _ := fun _ => causal13_of_packet_order _ _ t.chRecord recsB hff
  have hc12 : args.metadata = false → Causal12 _ := fun _ => causal12_of_packet_order _ _ [t.chRecord] recsB hff
    (by simp) (by
      intro r hr
      simp only [List.mem_singleton] at hr
      subst hr
      simp [Transcript.chRecord, record])
  have hconn := tls12_connection_all H hH P L ls hls (capInfo (evs.map CEv.cap))
    (sessionOf (evs.map CEv.cap) (optsOf args ports pm) p0 rest) t hch hsh hrc hrs hv hcomp pv hneg hsz haccept sp hsuite
    hvalid cls hcls ms hms hl1 ho1 hsc hss hokc hoks hwr hlen
    (delivered_of_wires fl hne evs (optsOf args ports pm) hdesc hsp hcp p0 rest hfp _ hwires) hc12 hc13
  exact capture_exact_glue_or_abort mask H P fl hne evs args hdesc hnot1 cv cevs hcwf hitems (some (C09Found.fileText ls))
    pm ports hpm hports hsp hcp p0 rest hfp _ _ hconn

end TLX.Props.C01All
