/-
C07 (TCP builder part) — every exported data segment carries the direction of the record whose plaintext it contains
and the capture time of one of the input packets that carried that record (part j ↦ carrier j); the synthetic
handshake carries the time of the first exported record's first carrier.
(Which packets are a record's carriers is `TLX.Props.C05.metadata_is_overlap`; addresses follow from the direction
flag and are compared byte-for-byte against scapy's output by the harness.)
-/
import TLX.Lemmas.TcpOutData
namespace TLX.Props.C07
open TLX TLX.TcpOut

/-- every data segment of the built conversation belongs to some record: same direction, its time is the time of one
    of that record's carrier packets (the j-th part has the j-th carrier's time), its payload is the j-th part -/
theorem out_ts_from_carrier (recs : List Rec) (fs : List Frame) (h : build recs = some fs)
    (d : Bool) (t : Nat) (p : Bytes) (hm : (d, t, p) ∈ dataFrames fs) :
    ∃ r ∈ recs, ∃ ps : List Bytes, parts r.bytes r.ts.length = some ps ∧ ∃ j : Nat, ps[j]? = some p ∧ r.ts[j]? = some t ∧
      r.fromServer = d := by
  rw [build_data recs fs h, List.mem_flatMap] at hm
  obtain ⟨r, hr, hmem⟩ := hm
  refine ⟨r, hr, ?_⟩
  unfold recData at hmem
  cases hp : parts r.bytes r.ts.length with
  | none => simp [hp] at hmem
  | some ps =>
    refine ⟨ps, rfl, ?_⟩
    simp only [hp, List.mem_map, Prod.mk.injEq] at hmem
    obtain ⟨⟨p', t'⟩, hz, h1, h2, h3⟩ := hmem
    subst h1 h2 h3
    obtain ⟨j, hj⟩ := List.getElem?_of_mem hz
    rw [List.getElem?_zip_eq_some] at hj
    exact ⟨j, hj.1, hj.2, rfl⟩

/-- the synthetic three-way handshake carries the time of the first exported record's first carrier -/
theorem handshake_ts_first (r : Rec) (rs : List Rec) (t0 : Nat) (tl : List Nat) (hts : r.ts = t0 :: tl)
    (fs : List Frame) (h : build (r :: rs) = some fs) : fs.take 3 = handshake t0 := by
  simp only [build, hts, Option.map_eq_some_iff] at h
  obtain ⟨⟨q', body⟩, _, rfl⟩ := h
  simp [handshake]

/-- nothing is invented: the data segments are exactly the parts of the records, in record order -/
theorem data_is_records (recs : List Rec) (fs : List Frame) (h : build recs = some fs) :
    dataFrames fs = recs.flatMap recData := build_data recs fs h

-- Non-vacuity
example : (build [⟨some [1, 2, 3, 4, 5], [100, 101], false⟩, ⟨some [9], [102], true⟩]).map dataFrames
    = some [(false, 100, [1, 2]), (false, 101, [3, 4, 5]), (true, 102, [9])] := by decide

end TLX.Props.C07
