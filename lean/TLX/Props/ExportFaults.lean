/-
C03 FOR THE WHOLE PROGRAM: a damaged, undecryptable or foreign flow never aborts the run and never disturbs the others.
Theorems about `TLX.Export.framesFrom` / `exportFile`, for every hash suite, cipher primitives, mask, options, key log.

1. BYSTANDERS, TLS and QUIC   `export_bystander_unaffected_quic` (items), `export_bystander_unaffected_quic_file` (two
   capture files, either container). The victim: any choice of frames with arbitrary content. The capture without the
   victim keeps every secrets block. Exclusions, each real: a TCP flow shared with a bystander (`hflow`); a QUIC routing
   collision, either way (`hBV`, `hVB`: `CaptureSeparated` of `ExportDemux` — same 4-tuple, or a datagram carrying / starting
   with a connection ID the other side's sessions hold; `ExportDemuxEx.Ex.prefix_cross_routing`); a frame on which the
   reader or dpkt raises (the read loop dies: `Export.export_abort_ingest_iff`); key lines brought in a secrets block of the
   victim's own (`ExportInputs.export_bystander_unaffected`, `hk`).
2. NEVER ABORTS   `sessions_never_raise`, `payloads_never_abort`: once the read loop is through (nothing there looks inside
   a TCP / UDP payload) the run writes its file, or the writer raises on a FIELD range (`Writable`); no payload content,
   no key-log text, no session can abort it. Robustness observations outside the model's inputs (replayed on the real
   tool): a `-s` file that is not valid UTF-8 (a latin-1 comment) → UnicodeDecodeError before anything is written; the
   six dpkt exception classes of `Dissect.DErr`; a non-ASCII secrets block.
3. PREFIX CLAUSE   `tls_prefix_of_view`, `export_victim_cut_tls` (frame-by-frame prefix per conversation ⇒ byte prefix per
   direction, `dirBytes_prefix`), `export_victim_cut_quic` (`CutRel` per session). The fault kinds of harness/c03.py
   `make_faults`:
     cut-after                      sections 1 + 3 (TLS and QUIC victims)                                      theorem
     whole capture cut              `ExportProps.export_cut_prefix_tls*`, `ExportPropsQuic.export_cut_prefix_quic*`  theorem
     bitflip, overwrite, shorten, unknown-suite, http-on-443, udp-noise, wrong-keys, drop-keys, no-keys
                                    never-abort: section 2 (the rebuilt frames dissect); bystanders: section 1
                                    (for a QUIC victim as long as the damaged datagram stays separated);
                                    what the VICTIM then exports: oracle only
     delete (one packet missing), cut-before (capture starts mid-connection)
                                    never-abort + bystanders as above; the victim's prefix (TLS: the reassembler stalls
                                    at the hole; QUIC: the remaining datagrams are a subsequence): oracle only — needs a
                                    "hole ⇒ nothing released behind it" theorem about `Reassembly`, resp. per-datagram
                                    independence of `Quic.Session`, neither proved.
Instances: `Props/ExportFaultsEx.lean`.
-/
import TLX.Props.ExportDemux
set_option linter.unusedSimpArgs false
set_option linter.unusedVariables false
namespace TLX.Props.ExportFaults
open TLX TLX.MainLoop TLX.Export TLX.Spec.Demux TLX.Lemmas.MainLoop TLX.Lemmas.ExportProps TLX.Lemmas.ExportDemux
open TLX.Props.ExportPropsQuic TLX.QuicPipeline TLX.Props.ExportDemux
open TLX.Props.ExportInputs (export_bystander_unaffected merge_map exportFile_stages finish)

variable (mask : Quic.Dissect.MaskFn) (H : Crypto.Prims) (P : Cipher.Prims) (info : Nat → Pipeline.Info)

-- ====================================================================== 1. bystanders, TLS and QUIC
section Bystanders

/-- the victim's packets are class 1, everything else class 0 -/
def vlab (victim : Pkt → Bool) (p : Pkt) : Nat := if victim p then 1 else 0

theorem vlab_zero (victim : Pkt → Bool) (p : Pkt) : (vlab victim p == 0) = !victim p := by
  unfold vlab; cases victim p <;> rfl

theorem vlab_one (victim : Pkt → Bool) (p : Pkt) : (vlab victim p == 1) = victim p := by
  unfold vlab; cases victim p <;> rfl

/-- the victim's frames alone (no secrets block) -/
def victimFrames (victim : Pkt → Bool) (C : List (Item Keylog.Key)) : List (Item Keylog.Key) :=
  C.filter fun
    | .dsb _ => false
    | .frame p => victim p

theorem merge_only_victim (victim : Pkt → Bool) (C : List (Item Keylog.Key)) :
    Merge (only (fun p => !victim p) C) (victimFrames victim C) C := by
  induction C with
  | nil => exact .nil
  | cons it C ih =>
    cases it with
    | dsb k => simpa [only, victimFrames] using Merge.left (Item.dsb k) ih
    | frame p =>
      cases hv : victim p with
      | true => simpa [only, victimFrames, hv] using Merge.right (Item.frame p) ih
      | false => simpa [only, victimFrames, hv] using Merge.left (Item.frame p) ih

theorem dsbOnly_victimFrames (victim : Pkt → Bool) (C : List (Item Keylog.Key)) : dsbOnly (victimFrames victim C) = [] := by
  induction C with
  | nil => rfl
  | cons it C ih =>
    cases it with
    | dsb k => simpa [victimFrames] using ih
    | frame p =>
      cases hv : victim p with
      | true => simpa [victimFrames, hv, dsbOnly] using ih
      | false => simpa [victimFrames, hv] using ih

/-- **C03, whole program: the bystanders, TLS and QUIC.** `C`: any capture; `victim`: any choice of its frames — the
    victim flow(s), TLS or QUIC, with ARBITRARY content: damaged payloads, wrong versions, truncated datagrams, garbage after
    a valid handshake, foreign protocols. The capture without the victim is `only (¬victim) C`: the victim's PACKETS are
    removed, the secrets blocks stay. What the victim may NOT do, and nothing else:
    * share a TCP flow with a bystander (`hflow`: a "victim" that is some packets of a bystander's own connection is not a
      bystander's neighbour but a fault of that connection);
    * collide with a bystander's QUIC routing (`hBV`, `hVB`: `CaptureSeparated` both ways — the same 4-tuple, a datagram
      that carries as DCID / starts with a connection ID the other side's sessions hold; `ExportDemuxEx.Ex.prefix_cross_routing`
      is what happens otherwise: the bystander LOSES a datagram to the victim's session);
    * (outside this statement, which is about items the read loop delivered:) make the reader or dpkt raise — then the whole
      run dies (`Export.export_abort_ingest_iff`, the six exception classes of `Dissect.DErr`) —, or bring key-log lines in a
      secrets block of its own (`ExportInputs.export_bystander_unaffected`, hypothesis `hk`: secrets are global).
    Then: the TLS blocks and the QUIC blocks of the run WITHOUT the victim stand, intact and in order, among the blocks of the
    full run, the other blocks are the victim's; both outputs are their blocks concatenated, TLS first. -/
theorem export_bystander_unaffected_quic (prior : Prior) (args : Args) (o : Opts) (ho : optsOf args = some o)
    (fk : Option (List Keylog.Key)) (C : List (Item Keylog.Key)) (victim : Pkt → Bool)
    (hflow : ∀ a ∈ tcpView o (only (fun p => !victim p) C), ∀ b ∈ tcpView o (victimFrames victim C), sameFlow a b = false)
    (hBV : CaptureSeparated (quicMachine mask H P info) o
      (cls (fun x : QIn Keylog.Key => vlab victim x.p) 0 (quicView o (fk.getD []) C))
      (rest (fun x : QIn Keylog.Key => vlab victim x.p) 0 (quicView o (fk.getD []) C)))
    (hVB : CaptureSeparated (quicMachine mask H P info) o
      (cls (fun x : QIn Keylog.Key => vlab victim x.p) 1 (quicView o (fk.getD []) C))
      (rest (fun x : QIn Keylog.Key => vlab victim x.p) 1 (quicView o (fk.getD []) C))) :
    framesFrom mask H P prior args fk C info =
      .ok ((tlsFrames H P info o fk C).flatten ++ (quicFrames mask H P info o fk C).flatten) ∧
    framesFrom mask H P prior args fk (only (fun p => !victim p) C) info =
      .ok ((tlsFrames H P info o fk (only (fun p => !victim p) C)).flatten ++
           (quicFrames mask H P info o fk (only (fun p => !victim p) C)).flatten) ∧
    Merge (tlsFrames H P info o fk (only (fun p => !victim p) C))
      ((tlsConvs H P info o (victimFrames victim C)).map (convFrames H P info (keysOf fk C))) (tlsFrames H P info o fk C) ∧
    Merge (quicFrames mask H P info o fk (only (fun p => !victim p) C))
      (quicFrames mask H P info o fk (only victim C)) (quicFrames mask H P info o fk C) := by
  refine ⟨framesFrom_ok_quic mask H P info prior args fk C o ho, framesFrom_ok_quic mask H P info prior args fk _ o ho,
    export_bystander_unaffected H P info o fk (merge_only_victim victim C) hflow (dsbOnly_victimFrames victim C), ?_⟩
  have hsep : CaptureSeparatedN (quicMachine mask H P info) o (vlab victim) (quicView o (fk.getD []) C) := by
    apply captureSeparatedN_of_check
    intro x _
    cases hv : victim x.p with
    | true => have : vlab victim x.p = 1 := by simp [vlab, hv]
              rw [this]; exact hVB
    | false => have : vlab victim x.p = 0 := by simp [vlab, hv]
               rw [this]; exact hBV
  have := quic_frames_by_conn mask H P info o fk C (vlab victim) hsep 0
  simp only [vlab_zero, Bool.not_not] at this
  exact this

section File
open TLX.Ingest

/-- **… file to file.** `capC`: a capture the run reads to the end (`hC`); `capB`: a capture file, either container, whose
    reader delivers the same items without the victim's packet blocks (`hsel`: `keepIt` keeps every secrets block and
    exactly the packet blocks of the frames that are not the victim's). Then `capB` is read to the end too, the run on `capB`
    hands the writer its TLS blocks followed by its QUIC blocks, and these blocks stand intact and in order among the blocks
    of the run on `capC`: every bystander conversation, TLS or QUIC, exports the same frames from both files. -/
theorem export_bystander_unaffected_quic_file (prior : Prior) (args : Args) (o : Opts) (ho : optsOf args = some o)
    (legacy legacy' : Bool) (kl : Option Keylog.Str) (capC capB : Bytes) (its : List Container.Item)
    (keepIt : Container.Item → Bool) (victim : Pkt → Bool)
    (hrC : Container.readPrefix legacy capC = .ok (its, none))
    (hrB : Container.readPrefix legacy' capB = .ok (its.filter keepIt, none))
    (X : List (Item Keylog.Key)) (IS : List (Nat × Pipeline.Info))
    (hC : go Keylog.srcHexClass args.checksumTest 0 its = .ok (X, IS))
    (hsel : ∀ ix ∈ its.zip X, keepIt ix.1 = itemKeep (fun p => !victim p) ix.2)
    (hflow : ∀ a ∈ tcpView o (only (fun p => !victim p) X), ∀ b ∈ tcpView o (victimFrames victim X), sameFlow a b = false)
    (hBV : CaptureSeparated (quicMachine mask H P (Ingest.lookup IS)) o
      (cls (fun x : QIn Keylog.Key => vlab victim x.p) 0 (quicView o ((fileKeysOf kl).getD []) X))
      (rest (fun x : QIn Keylog.Key => vlab victim x.p) 0 (quicView o ((fileKeysOf kl).getD []) X)))
    (hVB : CaptureSeparated (quicMachine mask H P (Ingest.lookup IS)) o
      (cls (fun x : QIn Keylog.Key => vlab victim x.p) 1 (quicView o ((fileKeysOf kl).getD []) X))
      (rest (fun x : QIn Keylog.Key => vlab victim x.p) 1 (quicView o ((fileKeysOf kl).getD []) X))) :
    ∃ XB ISB tlsB quicB,
      Ingest.itemsWith Keylog.srcHexClass args.checksumTest legacy capC = .ok (X, IS) ∧
      Ingest.itemsWith Keylog.srcHexClass args.checksumTest legacy' capB = .ok (XB, ISB) ∧
      framesFrom mask H P prior args (fileKeysOf kl) XB (Ingest.lookup ISB) = .ok (tlsB.flatten ++ quicB.flatten) ∧
      framesFrom mask H P prior args (fileKeysOf kl) X (Ingest.lookup IS) =
        .ok ((tlsFrames H P (Ingest.lookup IS) o (fileKeysOf kl) X).flatten ++
             (quicFrames mask H P (Ingest.lookup IS) o (fileKeysOf kl) X).flatten) ∧
      Merge tlsB ((tlsConvs H P (Ingest.lookup IS) o (victimFrames victim X)).map
          (convFrames H P (Ingest.lookup IS) (keysOf (fileKeysOf kl) X))) (tlsFrames H P (Ingest.lookup IS) o (fileKeysOf kl) X) ∧
      Merge quicB (quicFrames mask H P (Ingest.lookup IS) o (fileKeysOf kl) (only victim X))
        (quicFrames mask H P (Ingest.lookup IS) o (fileKeysOf kl) X) := by
  obtain ⟨XB, ISB, h1, h2, h3⟩ := export_demux_file mask H P prior args legacy legacy' kl capC capB its keepIt
    (fun p => !victim p) hrC hrB X IS hC hsel
  obtain ⟨b1, b2, b3, b4⟩ := export_bystander_unaffected_quic mask H P (Ingest.lookup IS) prior args o ho (fileKeysOf kl) X
    victim hflow hBV hVB
  exact ⟨XB, ISB, _, _, h1, h2, h3.trans b2, b1, b3, b4⟩

end File

end Bystanders

-- ====================================================================== 2. no payload aborts the run
section NeverAborts
open TLX.OutBytes TLX.Lemmas.OutBytes

/-- every field of the frame holds its value and the time stamp fits 64 bits of microseconds: what the writer needs -/
def Writable (q : Pipeline.OutPkt) : Prop := Fits (Frame.ofOutPkt q) ∧ (Frame.ofOutPkt q).ts < 2 ^ 64

/-- **No exception escapes a session, whatever it is fed.** For every capture item list, key log, options: every TLS
    conversation's `Session.decrypt()` returns (the state machine catches what it raises: `C03.run_never_raises`; the builder
    never divides by zero: every released record has a carrier), and no QUIC session has raised. -/
theorem sessions_never_raise (o : Opts) (fk : Option (List Keylog.Key)) (X : List (Item Keylog.Key)) :
    (∀ s ∈ tlsConvs H P info o X, (Pipeline.connOut H P info s.st (keysOf fk X)).isSome) ∧
    (∀ s ∈ quicSess mask H P info o fk X, s.st.raised = none) := by
  refine ⟨fun s _ => (C01Pipeline.connOut_never_raises H P info s.st _).2.2, ?_⟩
  have h3 := (runItems_proj (Pipeline.tlsMachine H P info) (quicMachine mask H P info) o X
    (⟨fk.getD [], [], []⟩ : State Keylog.Key Pipeline.Conn QConn)).2.2
  intro s hs
  unfold quicSess at hs
  simp only at h3
  rw [← h3] at hs
  exact C02Pipeline.quic_machine_never_raises mask H P info (Pipeline.tlsMachine H P info) o X _ (by simp) s hs

/-- **C03, whole program: no payload aborts the run.** ANY capture file the read loop gets through (`hread`: the reader
    accepts the container, every secrets block is ASCII, dpkt dissects every frame, no `-c` length overflows — nothing here
    looks INSIDE a TCP / UDP payload), ANY key-log text (`getKeysFromString` is total: lines that are not secret lines are
    skipped, malformed hex is skipped by the pattern), any options that parse (`hopt`). Whatever the TCP and UDP payloads
    contain — bit flips, truncation inside records, swapped or repeated records, garbage, HTTP on port 443, QUIC-looking
    noise, wrong versions, undecryptable data — the run ends in one of two ways:
    * it writes the output file `f`: exactly when every frame it built is `Writable`;
    * or the WRITER raises on a frame that is not: a port ≥ 2^16 (only through `-m 443:70000`), a sequence / acknowledgement
      number ≥ 2^32 (a direction exporting ≥ 4 GiB), an IP length above 65535 (a reassembled record exported in one segment
      that is longer than any IPv4 packet: needs a captured segment > 64 KiB, i.e. `ip.len = 0` offload captures), a time
      stamp ≥ 2^64 µs. These are ranges of FIELDS; no byte of payload content is among them.
    It never dies in a session (`sessions_never_raise`) and never with a message about options. -/
theorem payloads_never_abort (args : Args) (legacy : Bool) (kl : Option Keylog.Str) (capture : Bytes)
    (hopt : optionsBad (freshState : Prior) args = false)
    (X : List (Item Keylog.Key)) (IS : List (Nat × Pipeline.Info))
    (hread : Ingest.itemsWith Keylog.srcHexClass args.checksumTest legacy capture = .ok (X, IS)) :
    ∃ out, framesFrom mask H P freshState args (fileKeysOf kl) X (Ingest.lookup IS) = .ok out ∧
      ((∃ f, exportFile mask H P args legacy kl capture = .file f) ∨
       (∃ e, exportFile mask H P args legacy kl capture = .abort (.write e))) ∧
      ((∃ f, exportFile mask H P args legacy kl capture = .file f) ↔ ∀ q ∈ out, Writable q) := by
  unfold exportFile
  rcases Export.exportFrom_stages mask H P freshState args legacy kl capture hopt with
    ⟨e, hi, _⟩ | ⟨xs, is, out, hi, hf, hw⟩
  · rw [hread] at hi; cases hi
  rw [hread] at hi
  simp only [Except.ok.injEq, Prod.mk.injEq] at hi
  obtain ⟨rfl, rfl⟩ := hi
  have hwf : ∀ fr ∈ out.map Frame.ofOutPkt, fr.WF := by
    intro fr hfr
    obtain ⟨q, hq, rfl⟩ := List.mem_map.mp hfr
    exact Lemmas.Export.framesFrom_wf mask H P freshState args _ X _ out
      (Lemmas.Export.itemsWith_good _ _ _ _ _ _ hread) hf q hq
  have hiff := C06Bytes.fileOf_ok_iff (out.map Frame.ofOutPkt) hwf
  have hfits : (∀ fr ∈ out.map Frame.ofOutPkt, (∃ b, serializeFrame fr = .ok b) ∧ fr.ts < 2 ^ 64) ↔
      ∀ q ∈ out, Writable q := by
    constructor
    · intro h q hq
      obtain ⟨⟨b, hb⟩, ht⟩ := h _ (List.mem_map.mpr ⟨q, hq, rfl⟩)
      refine ⟨?_, ht⟩
      rcases serialize_cases (Frame.ofOutPkt q) with ⟨hF, _⟩ | ⟨_, e, he⟩
      · exact hF
      · rw [he] at hb; cases hb
    · intro h fr hfr
      obtain ⟨q, hq, rfl⟩ := List.mem_map.mp hfr
      obtain ⟨hF, ht⟩ := h q hq
      rcases serialize_cases (Frame.ofOutPkt q) with ⟨_, he⟩ | ⟨hn, _⟩
      · exact ⟨⟨_, he⟩, ht⟩
      · exact absurd hF hn
  refine ⟨out, hf, ?_, ?_⟩
  · rcases hw with ⟨e, _, he⟩ | ⟨f, _, he⟩
    · exact .inr ⟨e, he⟩
    · exact .inl ⟨f, he⟩
  · rw [← hfits, ← hiff]
    constructor
    · rintro ⟨f, hfile⟩
      rcases hw with ⟨e, _, he⟩ | ⟨f', hw', _⟩
      · rw [he] at hfile; cases hfile
      · exact ⟨f', hw'⟩
    · rintro ⟨f, hw'⟩
      rcases hw with ⟨e, hwe, _⟩ | ⟨f', _, he⟩
      · have : fileOf out = .ok f := hw'
        rw [hwe] at this; cases this
      · exact ⟨f', he⟩

end NeverAborts

-- ====================================================================== 3. information-removing faults: the victim exports a prefix
section Prefix
open TLX.Props.C01Pipeline

/-- TLS: if the TLS-relevant TCP packets of `xs'` are the first ones of `xs` and both runs end with the same key log, then
    conversation by conversation (creation order) the frames of `xs'` are a frame-by-frame prefix of those of `xs`;
    conversations that start later are absent. (`ExportProps.export_cut_prefix_tls_items` is the case `xs' = xs.take n`.) -/
theorem tls_prefix_of_view (o : Opts) (fk fk' : Option (List Keylog.Key)) (xs' xs : List (Item Keylog.Key))
    (hv : tcpView o xs' <+: tcpView o xs) (hk : keysOf fk' xs' = keysOf fk xs) :
    ListExt (fun fa fb : List Pipeline.OutPkt => fa <+: fb) (tlsFrames H P info o fk' xs') (tlsFrames H P info o fk xs) := by
  have h := tlsRun_prefix_ext (Pipeline.tlsMachine H P info) o [] hv
  have hc : ListExt ConnCut (tlsConvs H P info o xs') (tlsConvs H P info o xs) := by
    have : ∀ {x y : List (TlsSess Pipeline.Conn)}, ListExt (SessExt (Pipeline.tlsMachine H P info)) x y →
        ListExt ConnCut x y := by
      intro x y hxy
      induction hxy with
      | nil t => exact .nil _
      | cons r _ ih => exact .cons (connCut_of_ext H P info r) ih
    exact this h
  unfold tlsFrames
  rw [hk]
  refine ListExt.map _ _ ?_ hc
  intro a b ⟨_, _, k, hk'⟩
  obtain ⟨fa, fb, h1, h2, h3⟩ := connOut_take_prefix H P info b.st (keysOf fk xs) k
  simp only [convFrames, hk', h1, h2, Option.getD_some]
  exact h3

/-- the fault `cut-after` of harness/c03.py: from position `n` of the capture on, the victim's packets are missing (the
    capture of the victim flow ends mid-connection); everything else — other flows, secrets blocks — stays -/
def cutVictim (victim : Pkt → Bool) (n : Nat) (C : List (Item Keylog.Key)) : List (Item Keylog.Key) :=
  C.take n ++ only (fun p => !victim p) (C.drop n)

theorem only_append {κ : Type} (keep : Pkt → Bool) (a b : List (Item κ)) : only keep (a ++ b) = only keep a ++ only keep b := by
  simp [only]

theorem only_only {κ : Type} (k₁ k₂ : Pkt → Bool) (xs : List (Item κ)) :
    only k₁ (only k₂ xs) = only (fun p => k₁ p && k₂ p) xs := by
  unfold only
  rw [List.filter_filter]
  congr 1
  funext it
  cases it <;> simp [Bool.and_comm]

/-- the bystanders' capture is untouched by the fault -/
theorem cutVictim_bystanders (victim : Pkt → Bool) (n : Nat) (C : List (Item Keylog.Key)) :
    only (fun p => !victim p) (cutVictim victim n C) = only (fun p => !victim p) C := by
  unfold cutVictim
  rw [only_append, only_only]
  have : (fun p => (!victim p) && !victim p) = fun p => !victim p := by funext p; cases victim p <;> rfl
  rw [this, ← only_append, List.take_append_drop]

theorem dsbOnly_cutVictim (victim : Pkt → Bool) (n : Nat) (C : List (Item Keylog.Key)) :
    dsbOnly (cutVictim victim n C) = dsbOnly C := by
  unfold cutVictim
  have h1 : dsbOnly (C.take n ++ only (fun p => !victim p) (C.drop n)) =
      dsbOnly (C.take n) ++ dsbOnly (only (fun p => !victim p) (C.drop n)) := by simp [dsbOnly]
  have h2 : dsbOnly C = dsbOnly (C.take n) ++ dsbOnly (C.drop n) := by
    rw [← ExportInputs.dsbOnly_append, List.take_append_drop]
  rw [h1, dsbOnly_only, ← h2]

/-- **C03, prefix clause, TLS victim, `cut-after`.** The victim: any set of frames (one TCP flow, or several); from
    position `n` of the capture on its packets are missing. Then
    * the capture restricted to the bystanders is THE SAME list of items as before (so is everything they export:
      `export_bystander_unaffected_quic`, `ExportDemux.tls_frames_by_flow`),
    * and, restricted to the victim, conversation by conversation the frames exported under the fault are a frame-by-frame
      PREFIX of the frames exported without it — hence per direction a byte prefix of the exported plaintext
      (`dirBytes_prefix`). The secrets blocks behind the cut are still read: no key-material hypothesis. -/
theorem export_victim_cut_tls (o : Opts) (fk : Option (List Keylog.Key)) (C : List (Item Keylog.Key))
    (victim : Pkt → Bool) (n : Nat) :
    only (fun p => !victim p) (cutVictim victim n C) = only (fun p => !victim p) C ∧
    ListExt (fun fa fb : List Pipeline.OutPkt => fa <+: fb)
      (tlsFrames H P info o fk (only victim (cutVictim victim n C))) (tlsFrames H P info o fk (only victim C)) := by
  refine ⟨cutVictim_bystanders victim n C, tls_prefix_of_view H P info o fk fk _ _ ?_ ?_⟩
  · rw [tcpView_only, tcpView_only]
    unfold cutVictim
    have happ : ∀ a b : List (Item Keylog.Key), tcpView o (a ++ b) = tcpView o a ++ tcpView o b := by
      intro a b; simp [tcpView]
    have hC : tcpView o C = tcpView o (C.take n) ++ tcpView o (C.drop n) := by
      rw [← happ, List.take_append_drop]
    have hC' : tcpView o (C.take n ++ only (fun p => !victim p) (C.drop n)) =
        tcpView o (C.take n) ++ (tcpView o (C.drop n)).filter (fun p => !victim p) := by
      rw [← tcpView_only, happ]
    rw [hC, hC', List.filter_append, List.filter_append, List.filter_filter]
    have : (tcpView o (C.drop n)).filter (fun p => victim p && !victim p) = [] := by
      rw [List.filter_eq_nil_iff]; intro p _; cases victim p <;> simp
    rw [this, List.append_nil]
    exact List.prefix_append _ _
  · simp only [keysOf, dsbOnly_only, dsbOnly_cutVictim]

/-- the bytes a frame list carries in one direction (`fromSrc`: the frames whose source endpoint is `e`) -/
def dirBytes (e : Endpoint) (fs : List Pipeline.OutPkt) : Bytes := (fs.filter fun f => f.src == e).flatMap (·.payload)

theorem dirBytes_prefix (e : Endpoint) {fa fb : List Pipeline.OutPkt} (h : fa <+: fb) : dirBytes e fa <+: dirBytes e fb := by
  obtain ⟨t, rfl⟩ := h
  simp only [dirBytes, List.filter_append, List.flatMap_append]
  exact List.prefix_append _ _

theorem filter_take {α : Type} (f : α → Bool) (l : List α) (k : Nat) :
    (l.take k).filter f = (l.filter f).take ((l.take k).filter f).length := by
  induction l generalizing k with
  | nil => simp
  | cons a l ih =>
    cases k with
    | zero => simp
    | succ k =>
      simp only [List.take_succ_cons, List.filter_cons]
      cases f a with
      | false => simpa using ih k
      | true => simp only [if_true, List.length_cons, List.take_succ_cons, List.cons.injEq, true_and]; exact ih k

/-- secrets blocks behind the last datagram change nothing for QUIC: a session reads the key log when a datagram arrives -/
theorem quicView_append_dsbs (o : Opts) (A D : List (Item Keylog.Key)) (hD : ∀ it ∈ D, ∃ k, it = Item.dsb k) :
    ∀ kl, quicView o kl (A ++ D) = quicView o kl A := by
  induction A with
  | nil =>
    intro kl
    simp only [List.nil_append]
    induction D generalizing kl with
    | nil => rfl
    | cons it D ih =>
      obtain ⟨k, rfl⟩ := hD it (by simp)
      simp only [quicView, classify]
      exact ih (fun x hx => hD x (by simp [hx])) _
  | cons it A ih =>
    intro kl
    simp only [List.cons_append, quicView]
    cases classify o it with
    | keys ks => exact ih _
    | tls p => exact ih _
    | ignore w => exact ih _
    | quic p b0 r => simp only [ih]

/-- **C03, prefix clause, QUIC victim, `cut-after`.** From position `n` of the capture on the victim's datagrams are
    missing. Restricted to the victim, session by session in creation order, the frames exported under the fault stand in
    `CutRel` to the frames exported without it: all frames but the last unchanged, the last one at its place with the same
    time and addresses and a payload PREFIX (a plain frame prefix when the last exported frame before the cut and the first
    one after it differ in (capture time, direction): `ExportPropsQuic.export_cut_prefix_quic_items_split`); sessions that
    start later are absent. The bystanders' capture is untouched (`export_victim_cut_tls`, first clause). -/
theorem export_victim_cut_quic (o : Opts) (fk : Option (List Keylog.Key)) (C : List (Item Keylog.Key))
    (victim : Pkt → Bool) (n : Nat) :
    ListExt CutRel (quicFrames mask H P info o fk (only victim (cutVictim victim n C)))
      (quicFrames mask H P info o fk (only victim C)) := by
  have hshape : only victim (cutVictim victim n C) =
      (only victim C).take ((only victim (C.take n)).length) ++ only (fun _ => false) (C.drop n) := by
    unfold cutVictim
    rw [only_append, only_only]
    have hf : (fun p => victim p && !victim p) = fun _ => false := by funext p; cases victim p <;> rfl
    rw [hf]
    congr 1
    exact filter_take _ C n
  have hD : ∀ it ∈ only (fun _ : Pkt => false) (C.drop n), ∃ k, it = Item.dsb k := by
    intro it hit
    simp only [only, List.mem_filter] at hit
    cases it with
    | dsb k => exact ⟨k, rfl⟩
    | frame p => simp at hit
  have hq : quicFrames mask H P info o fk (only victim (cutVictim victim n C)) =
      quicFrames mask H P info o fk ((only victim C).take ((only victim (C.take n)).length)) := by
    unfold quicFrames quicSess
    rw [hshape, quicView_append_dsbs o _ _ hD]
  rw [hq]
  exact export_cut_prefix_quic_items mask H P info o fk (only victim C) _

end Prefix

end TLX.Props.ExportFaults
