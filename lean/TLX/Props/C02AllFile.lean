import TLX.Props.C02AllRfc
import TLX.Props.C02File2
import TLX.Props.ExportDemux
set_option autoImplicit false
set_option linter.unusedSimpArgs false
set_option linter.unusedVariables false
/-! # C02, all together — 3. from the capture to the connection's session

`QEv3`: the events of a described capture (first Initial + Retry, interleaved part with 0-RTT packets, 1-RTT-only part, packets
of other QUIC connections, anything else); `quicView3`: its QUIC view is the connection's calls and the others', interleaved;
`xHeader_wire` / `retry_wire_header`: what the main loop parses off the first bytes; `quicRun_y`, `own_run_tail`: the loop on
the connection's datagrams keeps ONE session, whose export is `expectedOutX`. Used by `Props/C02All.lean`. Core Lean only. -/
namespace TLX.Props.C02All
open TLX TLX.MainLoop TLX.Spec.Demux TLX.Lemmas.MainLoop TLX.Dissect TLX.OutBytes
open TLX.Container (Item)
open TLX.Props.C01File TLX.Spec.FrameBuild TLX.Spec.TlsCapture TLX.Spec.QuicCapture TLX.Props.C12Dissect
open TLX.Spec.QuicSender TLX.Spec.QuicConnection TLX.Spec.QuicPackets TLX.QuicPipeline TLX.Props.C02Capstone
open TLX.Props.C02File TLX.Props.C02Capstone3 TLX.Props.C02File2 TLX.Props.C02Zr

/-! ### the described capture -/

/-- one event of the capture, described from the senders' side -/
inductive QEv3
  /-- the client's first Initial datagram, answered by a Retry -/
  | pre (t : Container.Time) (fr : Spec.FrameBuild.Frame) (u : Udp) (d : DgH)
  /-- the server's Retry datagram -/
  | retry (t : Container.Time) (fr : Spec.FrameBuild.Frame) (u : Udp) (r : Retry)
  /-- a datagram of the interleaved part: coalesced long-header packets, 0-RTT packets, optionally a closing 1-RTT packet -/
  | mix (t : Container.Time) (fr : Spec.FrameBuild.Frame) (u : Udp) (d : DgY)
  /-- a datagram of the 1-RTT-only part -/
  | one (t : Container.Time) (fr : Spec.FrameBuild.Frame) (u : Udp) (d : Dg1)
  /-- a packet the main loop takes for QUIC that belongs to ANOTHER connection -/
  | other (e : CapEv)
  /-- a packet the main loop does not take for QUIC (TLS over TCP, ARP, DNS …) -/
  | foreign (e : CapEv)

def QEv3.cap : QEv3 → CapEv
  | .pre t fr _ _ => ⟨t, fr.encode, viewOf fr⟩
  | .retry t fr _ _ => ⟨t, fr.encode, viewOf fr⟩
  | .mix t fr _ _ => ⟨t, fr.encode, viewOf fr⟩
  | .one t fr _ _ => ⟨t, fr.encode, viewOf fr⟩
  | .other e => e
  | .foreign e => e

/-- the header the main loop parses off a datagram of the interleaved part -/
def hdrX (d : DgX) : Hdr := if d.base.longs = [] ∧ d.zr = [] then .short else .long d.dcid .v1

/-- direction, UDP datagram and parsed header of an event of the connection -/
def QEv3.own : QEv3 → Option (Bool × Udp × Hdr)
  | .pre _ _ u d => some (d.srv, u, .long (dgDcid d) .v1)
  | .retry _ _ u r => some (true, u, .long r.dcid .v1)
  | .mix _ _ u d => some (d.x.base.srv, u, hdrX d.x)
  | .one _ _ u d => some (d.x.srv, u, .short)
  | _ => none

def QEv3.frame : QEv3 → Option Spec.FrameBuild.Frame
  | .pre _ fr _ _ | .retry _ fr _ _ | .mix _ fr _ _ | .one _ fr _ _ => some fr
  | _ => none

/-- what the generic view lemma needs of an event -/
def EvBase (fl : Flow) (o : Opts) (ev : QEv3) : Prop :=
  match ev.own, ev.frame with
  | some (srv, u, h), some fr => IsDg fl srv fr u ∧ ∃ b0 rest, u.payload = b0 :: rest ∧ (b0.toNat &&& 0x40) >>> 6 = 1 ∧
      parseHeader1 b0 rest = h
  | _, _ => match ev with
    | .other e => dissect e.buf = .ok e.d
    | .foreign e => dissect e.buf = .ok e.d ∧ ∀ tag, NotQuic o (pktOf tag e.d)
    | _ => True

/-- the main loop's calls for the connection's own datagrams (tag = position in the capture) -/
def ownIn (fl : Flow) (kl : List Keylog.Key) : Nat → List QEv3 → List (QIn Keylog.Key)
  | _, [] => []
  | n, ev :: rest =>
    match ev.own with
    | some (srv, u, h) => ⟨kl, h, dgPkt fl srv u.payload n⟩ :: ownIn fl kl (n + 1) rest
    | none => ownIn fl kl (n + 1) rest

/-- … and for the packets of the OTHER QUIC connections -/
def othIn (o : Opts) (kl : List Keylog.Key) : Nat → List QEv3 → List (QIn Keylog.Key)
  | _, [] => []
  | n, .other e :: rest => quicView o kl [.frame (pktOf n e.d)] ++ othIn o kl (n + 1) rest
  | n, _ :: rest => othIn o kl (n + 1) rest

theorem capOk3 (fl : Flow) (o : Opts) (evs : List QEv3) (h : ∀ ev ∈ evs, EvBase fl o ev)
    (ht : ∀ e ∈ evs.map QEv3.cap, Ingest.isMinusOne e.t = false) : CapOk (evs.map QEv3.cap) := by
  intro e he
  refine ⟨?_, ht e he⟩
  obtain ⟨ev, hev, rfl⟩ := List.mem_map.mp he
  have := h ev hev
  cases ev with
  | pre t fr u d => exact dissect_dg fl d.srv fr u this.1
  | retry t fr u r => exact dissect_dg fl true fr u this.1
  | mix t fr u d => exact dissect_dg fl d.x.base.srv fr u this.1
  | one t fr u d => exact dissect_dg fl d.x.srv fr u this.1
  | other e => exact this
  | foreign e => exact this.1

/-- **the QUIC view of a described capture**: the connection's datagrams and the other connections' packets, interleaved -/
theorem quicView3 (fl : Flow) (o : Opts) (hc : o.checksumTest = false) (kl : List Keylog.Key) (evs : List QEv3)
    (hd : ∀ ev ∈ evs, EvBase fl o ev) (n : Nat) :
    Merge (ownIn fl kl n evs) (othIn o kl n evs) (quicView o kl (itemsFrom n (evs.map QEv3.cap))) := by
  induction evs generalizing n with
  | nil => exact Merge.nil
  | cons ev rest ih =>
    have hrest := ih (fun e he => hd e (List.mem_cons_of_mem _ he)) (n + 1)
    have hev := hd ev (List.mem_cons_self ..)
    rw [List.map_cons, itemsFrom, quicView_cons]
    have own_case : ∀ (t : Container.Time) (fr : Spec.FrameBuild.Frame) (srv : Bool) (u : Udp) (h : Hdr),
        IsDg fl srv fr u → (∃ b0 r, u.payload = b0 :: r ∧ (b0.toNat &&& 0x40) >>> 6 = 1 ∧ parseHeader1 b0 r = h) →
        Merge ((⟨kl, h, dgPkt fl srv u.payload n⟩ : QIn Keylog.Key) :: ownIn fl kl (n + 1) rest) (othIn o kl (n + 1) rest)
          (quicView o kl [.frame (pktOf n (viewOf fr))] ++ quicView o kl (itemsFrom (n + 1) (rest.map QEv3.cap))) := by
      intro t fr srv u h hdg ⟨b0, r, hw, hfix, hparse⟩
      rw [pktOf_dg fl srv fr u hdg n, quicView_dgram o hc _ rfl b0 r (by show u.payload = _; exact hw) hfix kl, hparse]
      exact Merge.left _ hrest
    cases ev with
    | pre t fr u d => exact own_case t fr d.srv u _ hev.1 hev.2
    | retry t fr u r => exact own_case t fr true u _ hev.1 hev.2
    | mix t fr u d => exact own_case t fr d.x.base.srv u _ hev.1 hev.2
    | one t fr u d => exact own_case t fr d.x.srv u _ hev.1 hev.2
    | foreign e =>
      simp only [QEv3.cap, ownIn, othIn, QEv3.own]
      rw [quicView_notQuic o hc _ (hev.2 n) kl]; exact hrest
    | other e =>
      simp only [QEv3.cap, ownIn, othIn, QEv3.own]
      exact merge_right_append _ hrest

theorem ownIn_append (fl : Flow) (kl : List Keylog.Key) (a b : List QEv3) (n : Nat) :
    ownIn fl kl n (a ++ b) = ownIn fl kl n a ++ ownIn fl kl (n + a.length) b := by
  induction a generalizing n with
  | nil => simp [ownIn]
  | cons e rest ih =>
    have hn : n + 1 + rest.length = n + (rest.length + 1) := by omega
    simp only [List.cons_append, ownIn, ih (n + 1), hn, List.length_cons]
    cases e.own <;> simp

/-! ### what the main loop reads off the first bytes -/
section Headers3
open TLX.Quic.Session TLX.Cipher TLX.Spec.KeySchedules
variable (H : Crypto.Prims) (Pc : Cipher.Prims)

/-- the first packet on the wire of a datagram of the interleaved part carries what the main loop routes by -/
def HdrOkX (d : DgX) : Prop :=
  (∃ q qs, d.base.longs.take d.pos = q :: qs ∧ LongShape q.x ∧ 1 ≤ q.x.pnLen ∧ q.x.pnLen ≤ 4) ∨
  (d.base.longs.take d.pos = [] ∧ ∃ q qs, d.zr = q :: qs ∧ ZrShape q.x ∧ 1 ≤ q.x.pnLen ∧ q.x.pnLen ≤ 4) ∨
  (d.base.longs.take d.pos = [] ∧ d.zr = [] ∧ HdrOkM d.base)

theorem take_nil_drop {α : Type} (l : List α) (n : Nat) (h : l.take n = []) : l.drop n = l := by
  cases n with
  | zero => rfl
  | succ k => cases l with
    | nil => rfl
    | cons a as => simp at h

theorem xHeader_wire (L : SealLaws Pc) (dcid0 : Bytes) (sel selR : SuiteSel) (sh ch sa ca e : Bytes) (d : DgX)
    (hd : HdrOkX d) :
    ∃ b0 rest, DgX.wire H Pc L dcid0 sel selR sh ch sa ca e d = b0 :: rest ∧ (b0.toNat &&& 0x40) >>> 6 = 1 ∧
      parseHeader1 b0 rest = hdrX d := by
  rcases hd with ⟨q, qs, hp, hshape, h1, h4⟩ | ⟨ht, q, qs, hz, hshape, h1, h4⟩ | ⟨ht, hz, hm⟩
  · have hl : ∃ l', d.base.longs = q :: l' := by
      cases hlg : d.base.longs with
      | nil => rw [hlg] at hp; simp at hp
      | cons a l' =>
        rw [hlg] at hp
        cases hpos : d.pos with
        | zero => rw [hpos] at hp; simp at hp
        | succ k => rw [hpos] at hp; simp only [List.take_succ_cons, List.cons.injEq] at hp; exact ⟨l', by rw [hp.1]⟩
    obtain ⟨l', hl'⟩ := hl
    have hw : DgX.wire H Pc L dcid0 sel selR sh ch sa ca e d =
        (longOf q.x (protectedPayload L.aeadSeal (lvlDec H dcid0 sel sh ch q.x.level).alg
          (lvlKey H dcid0 sel sh ch q.x.level q.x.srv) q.x)).protect q.mask ++
        ((qs.map (pkWire H Pc L dcid0 sel sh ch)).flatten ++ ((d.zr.map (zrWire H Pc L selR e)).flatten ++
          (((d.base.longs.drop d.pos).map (pkWire H Pc L dcid0 sel sh ch)).flatten ++
          (d.base.short.map (wireOf H Pc L sel .v1 (rfcGen (hashOf H sel.hash) sel.keyLen sa ca 0))).getD []))) := by
      unfold DgX.wire; rw [hp]; simp [pkWire, PkH.wire, List.append_assoc]
    have hdc : d.dcid = q.x.dcid := by unfold DgX.dcid; rw [hp]; simp [DgM.dcid, hl']
    have hh : hdrX d = .long q.x.dcid .v1 := by unfold hdrX; rw [hl', hdc]; simp
    rw [hw, hh]
    exact long_wire_header _ (by show q.x.lowBits % 4 < 4; omega)
      (by show 1 ≤ (pnBytes q.x.pnLen q.x.pn).length; rw [C02Capstone.pnBytes_length]; exact h1)
      (by show (pnBytes q.x.pnLen q.x.pn).length ≤ 4; rw [C02Capstone.pnBytes_length]; exact h4)
      hshape.version hshape.dcid (by have := hshape.scid; show q.x.scid.length ≤ 63; omega) _ _
  · have hw : DgX.wire H Pc L dcid0 sel selR sh ch sa ca e d =
        (longOf q.x (protectedPayload L.aeadSeal selR.alg (earlyDec H selR e).client q.x)).protect q.mask ++
        ((qs.map (zrWire H Pc L selR e)).flatten ++
          (((d.base.longs.drop d.pos).map (pkWire H Pc L dcid0 sel sh ch)).flatten ++
          (d.base.short.map (wireOf H Pc L sel .v1 (rfcGen (hashOf H sel.hash) sel.keyLen sa ca 0))).getD [])) := by
      unfold DgX.wire; rw [ht, hz]; simp [zrWire, PkH.wire, List.append_assoc]
    have hdc : d.dcid = q.x.dcid := by unfold DgX.dcid; rw [ht, hz]
    have hh : hdrX d = .long q.x.dcid .v1 := by unfold hdrX; rw [hz, hdc]; simp
    rw [hw, hh]
    exact long_wire_header _ (by show q.x.lowBits % 4 < 4; omega)
      (by show 1 ≤ (pnBytes q.x.pnLen q.x.pn).length; rw [C02Capstone.pnBytes_length]; exact h1)
      (by show (pnBytes q.x.pnLen q.x.pn).length ≤ 4; rw [C02Capstone.pnBytes_length]; exact h4)
      hshape.version hshape.dcid (by have := hshape.scid; show q.x.scid.length ≤ 63; omega) _ _
  · have hw : DgX.wire H Pc L dcid0 sel selR sh ch sa ca e d = DgM.wire H Pc L dcid0 sel sh ch sa ca d.base := by
      unfold DgX.wire DgM.wire; rw [ht, hz, take_nil_drop _ _ ht]; simp
    have hdc : d.dcid = d.base.dcid := by unfold DgX.dcid; rw [ht, hz]
    have hh : hdrX d = hdrM d.base := by unfold hdrX hdrM; rw [hz, hdc]; simp
    rw [hw, hh]
    exact mixHeader_wire H Pc L dcid0 sel sh ch sa ca d.base hm

/-- a Retry datagram: QUIC, long header, its DCID, version 1 -/
theorem retry_wire_header (r : Retry) (hv : r.version = [0, 0, 0, 1]) (hu : r.unused < 16) (hd : r.dcid.length ≤ 255)
    (hs63 : r.scid.length ≤ 63) :
    ∃ b0 rest, r.encode = b0 :: rest ∧ (b0.toNat &&& 0x40) >>> 6 = 1 ∧ parseHeader1 b0 rest = .long r.dcid .v1 := by
  have hbits : ∀ n : Fin 16, ((UInt8.ofNat (0xF0 + n.val)).toNat >>> 7) &&& 1 = 1 ∧
      ((UInt8.ofNat (0xF0 + n.val)).toNat &&& 0x40) >>> 6 = 1 := by decide
  obtain ⟨b7, b6⟩ := hbits ⟨r.unused, hu⟩
  have hfe : r.first = UInt8.ofNat (0xF0 + r.unused) := rfl
  rw [← hfe] at b7 b6
  refine ⟨r.first, r.version ++ [UInt8.ofNat r.dcid.length] ++ r.dcid ++ [UInt8.ofNat r.scid.length] ++ r.scid ++
      r.token ++ r.tag, rfl, b6, ?_⟩
  have hshape : r.first :: (r.version ++ [UInt8.ofNat r.dcid.length] ++ r.dcid ++ [UInt8.ofNat r.scid.length] ++ r.scid ++
      r.token ++ r.tag) =
      r.first :: (r.version ++ (UInt8.ofNat r.dcid.length :: (r.dcid ++ (UInt8.ofNat r.scid.length :: (r.scid ++
        (r.token ++ r.tag)))))) := by simp [List.append_assoc]
  obtain ⟨_, f1, f2, _, f4, _⟩ := Lemmas.QuicDissect.header_facts r.first r.version r.dcid r.scid _ _ (by rw [hv]; rfl)
    hs63 hshape
  unfold parseHeader1
  rw [if_pos b7]
  have hlen : ¬ (r.first :: (r.version ++ [UInt8.ofNat r.dcid.length] ++ r.dcid ++ [UInt8.ofNat r.scid.length] ++ r.scid ++
      r.token ++ r.tag)).length < 6 := by
    simp only [List.length_cons, List.length_append, hv, List.length_nil]; omega
  simp only [hlen, if_false, f2]
  have hdl : (UInt8.ofNat r.dcid.length).toNat = r.dcid.length := by simp; omega
  rw [hdl, f4, f1, hv, show versionOf (Bytes.beNat [0, 0, 0, 1]) = .v1 by decide]

end Headers3

/-! ### the loop on the connection's own datagrams -/
section Runs3
open TLX.Quic.Session TLX.Cipher TLX.Props.C02Session TLX.Spec.KeySchedules TLX.Props.C02Capstone4
variable (maskFn : Quic.Dissect.MaskFn) (H : Crypto.Prims) (Pc : Cipher.Prims) (info : Nat → Pipeline.Info)

/-- routing of the interleaved part: a datagram that BEGINS with a 1-RTT packet is found by the loop's connection-ID search
    (`C02File.RouteOk`, for the CIDs its receiver has issued so far); long-header datagrams carry their DCID -/
def RoutesY (w : DgX → Bytes) : Trk → List DgY → Prop
  | _, [] => True
  | t, d :: ds => (d.x.base.longs = [] ∧ d.x.zr = [] → RouteOk (if d.x.base.srv then t.cc else t.sc) (w d.x) d.x.dcid) ∧
      RoutesY w (t.dgx d.eff) ds

theorem quicRun_y (o : Opts) (hl : H.Lawful) (L : SealLaws Pc) (dcid0 cr csel ch sh ca sa e : Bytes)
    (sel selR : SuiteSel) (csR : Bytes) (hsel : selectSuite csel = some sel) (hselR : selectSuite csR = some selR)
    (ho : (hashOf H sel.hash).outLen < 65536)
    (hsa : sa.length = (hashOf H sel.hash).outLen) (hca : ca.length = (hashOf H sel.hash).outLen)
    (items : List (List Keylog.Key × MainLoop.Pkt × DgY)) (hkl : ∀ x ∈ items, KeylogHas x.1 cr ch sh ca sa (some e))
    (t : Trk) (ecs : Option SuiteSel) (s : QuicSess QConn) (hcl : s.client = s.st.client) (hr : s.st.raised = none)
    (hst : HsSt H dcid0 sel ch sh ca sa t.keyed (noOut s.st.st) t.tc t.ts t.cc t.sc t.core)
    (hinv : EInv H e ecs (noOut s.st.st))
    (hm : ∀ x ∈ items, s.matches x.2.1 = true)
    (hok : YDgs maskFn H Pc L dcid0 sel selR sh ch sa ca e t ecs (items.map (·.2.2)))
    (htr : PTrace cr csel t.core (allInsM ((items.map (·.2.2)).map (·.x.base))))
    (hcar : ∀ x ∈ items, CarriesX info s.st (DgX.wire H Pc L dcid0 sel selR sh ch sa ca e) x.2.1 x.2.2.x)
    (hroute : RoutesY (DgX.wire H Pc L dcid0 sel selR sh ch sa ca e) t (items.map (·.2.2))) :
    quicRun (quicMachine maskFn H Pc info) o [s]
        (items.map fun x => (⟨x.1, hdrX x.2.2.x, x.2.1⟩ : QIn Keylog.Key)) =
      [{ s with st := yFeedAll (quicMachine maskFn H Pc info) s.st items }] := by
  induction items generalizing t ecs s with
  | nil => simp [quicRun, yFeedAll]
  | cons x rest ih =>
    obtain ⟨kl, p, d⟩ := x
    obtain ⟨hd, hds⟩ := hok
    obtain ⟨r1, r2⟩ := hroute
    have hmp := hm (kl, p, d) (List.mem_cons_self ..)
    have hc0 := hcar (kl, p, d) (List.mem_cons_self ..)
    have htr' : PTrace cr csel t.core (insOf d.x.base.longs ++ allInsM ((rest.map (·.2.2)).map (·.x.base))) := by
      simpa [allInsM, List.flatMap_cons] using htr
    have hpre : feedPre H (params H Pc kl) (noOut s.st.st) d.x.dcid (sver d.x.ver) = noOut s.st.st :=
      feedPre_x H _ dcid0 _ hst.inv d.x
    obtain ⟨b1, b2, b3, b4, _, _, _, b8, _, _, _⟩ := y_feed_step maskFn H Pc info hl kl L dcid0 cr csel ch sh ca sa e
      sel selR csR hsel hselR (hkl (kl, p, d) (List.mem_cons_self ..)) ho hsa hca t ecs d hd _ s.st hr
      (by rw [hpre]; exact hst) (by rw [hpre]; exact hinv) htr' p hc0
    have hstep : quicHandleH (quicMachine maskFn H Pc info) o kl (hdrX d.x) [s] p =
        [{ s with st := (quicMachine maskFn H Pc info).feed s.st kl p d.x.dcid d.x.ver }] := by
      by_cases hlg : d.x.base.longs = [] ∧ d.x.zr = []
      · have hh : hdrX d.x = .short := by unfold hdrX; rw [if_pos hlg]
        have hv : d.x.ver = .unknown := by unfold DgX.ver; rw [if_pos hlg]
        have hside : shortCandidates ((quicMachine maskFn H Pc info).clientCids s.st)
            ((quicMachine maskFn H Pc info).serverCids s.st) (s.side p) = (if d.x.base.srv then t.cc else t.sc) := by
          have e1 : (quicMachine maskFn H Pc info).clientCids s.st = t.cc := hst.cc
          have e2 : (quicMachine maskFn H Pc info).serverCids s.st = t.sc := hst.sc
          rw [e1, e2]
          unfold Sess.side
          rw [hmp, hcl]
          simp only [if_true]
          have : (p.src == s.st.client) = !d.x.base.srv := hc0.dir
          cases hs : d.x.base.srv <;> simp [hs] at this <;> simp [this, shortCandidates, hs]
        rw [hh, hv]
        exact quicHandle_short _ o kl p s hmp d.x.dcid (by rw [hside, hc0.payload]; exact r1 hlg)
      · have hh : hdrX d.x = .long d.x.dcid .v1 := by unfold hdrX; rw [if_neg hlg]
        have hv : d.x.ver = .v1 := by unfold DgX.ver; rw [if_neg hlg]
        rw [hh, hv]
        exact quicHandle_long _ o kl _ _ p s hmp
    simp only [List.map_cons, quicRun, List.foldl_cons, yFeedAll]
    rw [hstep]
    exact ih (fun y hy => hkl y (List.mem_cons_of_mem _ hy)) (t.dgx d.eff) _ _
      (by show s.client = _; rw [b8]; exact hcl) b1 b2 b4
      (fun y hy => hm y (List.mem_cons_of_mem _ hy)) hds b3
      (fun y hy => by
        obtain ⟨u1, u2, u3⟩ := hcar y (List.mem_cons_of_mem _ hy)
        exact ⟨u1, u2, by rw [b8]; exact u3⟩) r2

end Runs3

/-! ### the connection's session: run and export, from the first datagram of the interleaved part on -/
section Tail3
open TLX.Quic.Session TLX.Cipher TLX.Props.C02Session TLX.Spec.KeySchedules TLX.Props.C02Capstone4
variable (maskFn : Quic.Dissect.MaskFn) (H : Crypto.Prims) (Pc : Cipher.Prims) (info : Nat → Pipeline.Info)

/-- the session `s` has just been fed the first datagram `d0` of the interleaved part (by `quicNew` on a fresh session, or
    after a Retry): the loop on the remaining datagrams of the connection — interleaved part, then 1-RTT-only part — keeps
    it the ONE session, and its export is `expectedOutX` (`quic_connection_exact_from`) -/
theorem own_run_tail (o : Opts) (hl : H.Lawful) (L : SealLaws Pc)
    (dcid0 cr csel ch sh ca sa e : Bytes) (sel selR : SuiteSel) (csR : Bytes) (hsel : selectSuite csel = some sel)
    (hselR : selectSuite csR = some selR)
    (ho : (hashOf H sel.hash).outLen < 65536)
    (hsa : sa.length = (hashOf H sel.hash).outLen) (hca : ca.length = (hashOf H sel.hash).outLen)
    (t0 : Trk) (ecs0 : Option SuiteSel)
    (kl0 : List Keylog.Key) (p0 : MainLoop.Pkt) (d0 : DgY) (itemsA : List (List Keylog.Key × MainLoop.Pkt × DgY))
    (hkl : ∀ x ∈ (kl0, p0, d0) :: itemsA, KeylogHas x.1 cr ch sh ca sa (some e))
    (c : QConn) (hr : c.raised = none) (hout0 : expo c.st.out = [])
    (hpre : HsSt H dcid0 sel ch sh ca sa t0.keyed (feedPre H (params H Pc kl0) (noOut c.st) d0.x.dcid (sver d0.x.ver))
      t0.tc t0.ts t0.cc t0.sc t0.core)
    (hinv0 : EInv H e ecs0 (feedPre H (params H Pc kl0) (noOut c.st) d0.x.dcid (sver d0.x.ver)))
    (hok : YDgs maskFn H Pc L dcid0 sel selR sh ch sa ca e t0 ecs0 (d0 :: itemsA.map (·.2.2)))
    (htr : PTrace cr csel t0.core (allInsM ((d0 :: itemsA.map (·.2.2)).map (·.x.base))))
    (hcar : ∀ x ∈ (kl0, p0, d0) :: itemsA,
      CarriesX info c (DgX.wire H Pc L dcid0 sel selR sh ch sa ca e) x.2.1 x.2.2.x)
    (hkeyed : (((d0 :: itemsA.map (·.2.2)).map DgY.eff).foldl Trk.dgx t0).keyed = true)
    (hrouteA : RoutesY (DgX.wire H Pc L dcid0 sel selR sh ch sa ca e) (t0.dgx d0.eff) (itemsA.map (·.2.2)))
    (keys : List Keylog.Key) (itemsB : List (MainLoop.Pkt × Dg1))
    (hcarB : ∀ x ∈ itemsB, Carries info c
      (wireOf H Pc L sel .v1 (rfcGen (hashOf H sel.hash) sel.keyLen sa ca 0)) x.1 x.2)
    (hsend : Send1 maskFn H Pc L sel .v1 (rfcGen (hashOf H sel.hash) sel.keyLen sa ca 0)
      (quicHp (hashOf H sel.hash) ca sel.keyLen) (quicHp (hashOf H sel.hash) sa sel.keyLen)
      (chachaOf (((d0 :: itemsA.map (·.2.2)).map DgY.eff).foldl Trk.dgx t0).core) 0 0
      (((d0 :: itemsA.map (·.2.2)).map DgY.eff).foldl Trk.dgx t0).tc.app
      (((d0 :: itemsA.map (·.2.2)).map DgY.eff).foldl Trk.dgx t0).ts.app
      (((d0 :: itemsA.map (·.2.2)).map DgY.eff).foldl Trk.dgx t0).cc
      (((d0 :: itemsA.map (·.2.2)).map DgY.eff).foldl Trk.dgx t0).sc
      (itemsB.map (·.2)))
    (hrouteB : Routes1 (wireOf H Pc L sel .v1 (rfcGen (hashOf H sel.hash) sel.keyLen sa ca 0))
      (((d0 :: itemsA.map (·.2.2)).map DgY.eff).foldl Trk.dgx t0).cc
      (((d0 :: itemsA.map (·.2.2)).map DgY.eff).foldl Trk.dgx t0).sc (itemsB.map (·.2)))
    (hadj : C02Out.DistinctAdjacent false (((d0 :: itemsA.map (·.2.2)).map DgY.eff).map inDgX ++
      (itemsB.map (·.2)).map fun d => inDg d.x))
    (s : QuicSess QConn) (hsst : s.st = (quicMachine maskFn H Pc info).feed c kl0 p0 d0.x.dcid d0.x.ver)
    (hcl : s.client = c.client)
    (hmA : ∀ x ∈ itemsA, s.matches x.2.1 = true) (hmB : ∀ x ∈ itemsB, s.matches x.1 = true) :
    let QM := quicMachine maskFn H Pc info
    let F := C02Capstone.feedAll QM (yFeedAll QM c ((kl0, p0, d0) :: itemsA)) (itemsB.map fun x => (keys, x.1, x.2))
    quicRun QM o [s] ((itemsA.map fun x => (⟨x.1, hdrX x.2.2.x, x.2.1⟩ : QIn Keylog.Key)) ++
        itemsB.map fun x => (⟨keys, .short, x.1⟩ : QIn Keylog.Key)) = [{ s with st := F }] ∧
    QM.out false F = expectedOutX c ((d0 :: itemsA.map (·.2.2)).map DgY.eff) (itemsB.map (·.2)) := by
  intro QM F
  have hmap : (itemsB.map fun x => (keys, x.1, x.2)).map (·.2.2) = itemsB.map (·.2) := by simp [List.map_map]
  obtain ⟨_, r2, r3, r4, r5⟩ := quic_connection_exact_from maskFn H Pc info hl L dcid0 cr csel ch sh ca sa e sel selR csR hsel
    hselR ho hsa hca t0 ecs0 kl0 p0 d0 itemsA hkl c hr hout0 hpre hinv0 hok htr hcar hkeyed
    (itemsB.map fun x => (keys, x.1, x.2))
    (by
      intro x hx
      obtain ⟨y, hy, rfl⟩ := List.mem_map.mp hx
      exact hcarB y hy)
    (by rw [hmap]; exact hsend) (by rw [hmap]; exact hadj)
  rw [hmap] at r2
  refine ⟨?_, r2⟩
  -- the first datagram has been fed: the facts about the session's state
  obtain ⟨hm0, hms⟩ := hok
  have htr' : PTrace cr csel t0.core (insOf d0.x.base.longs ++ allInsM ((itemsA.map (·.2.2)).map (·.x.base))) := by
    simpa [allInsM, List.flatMap_cons] using htr
  obtain ⟨b1, b2, b3, b4, _, _, _, b8, _, _, _⟩ := y_feed_step maskFn H Pc info hl kl0 L dcid0 cr csel ch sh ca sa e
    sel selR csR hsel hselR (hkl (kl0, p0, d0) (List.mem_cons_self ..)) ho hsa hca t0 ecs0 d0 hm0 _ c hr hpre hinv0 htr' p0
    (hcar (kl0, p0, d0) (List.mem_cons_self ..))
  rw [← hsst] at b1 b2 b4 b8
  have hrunA := quicRun_y maskFn H Pc info o hl L dcid0 cr csel ch sh ca sa e sel selR csR hsel hselR ho hsa hca itemsA
    (fun x hx => hkl x (List.mem_cons_of_mem _ hx)) (t0.dgx d0.eff) _ s (by rw [hcl, b8]) b1 b2 b4 hmA hms b3
    (fun x hx => by
      obtain ⟨u1, u2, u3⟩ := hcar x (List.mem_cons_of_mem _ hx)
      exact ⟨u1, u2, by rw [b8]; exact u3⟩) hrouteA
  have hc1 : yFeedAll QM c ((kl0, p0, d0) :: itemsA) = yFeedAll QM s.st itemsA := by rw [hsst]; rfl
  have ht1 : ((d0 :: itemsA.map (·.2.2)).map DgY.eff).foldl Trk.dgx t0 =
      ((itemsA.map (·.2.2)).map DgY.eff).foldl Trk.dgx (t0.dgx d0.eff) := rfl
  have hest := est_of_noOut H Pc keys _ _ _ _ _ _ _ _ _ _ _ _ _ (est_of_hsSt H Pc keys _ sel ch sh ca sa _ _ _ _ _ _ r5)
  have hk := keysWf_rfc H hl Pc keys csel sel hsel .v1 ho sa ca hsa hca
  have hrunO := quicRun_one maskFn H Pc info o keys L sel .v1 _ _ _ _ hk itemsB
    { s with st := yFeedAll QM c ((kl0, p0, d0) :: itemsA) } 0 0 _ _ _ _
    (by show s.client = (yFeedAll QM c ((kl0, p0, d0) :: itemsA)).client; rw [r4, hcl]) r3 hest
    (fun x hx => hmB x hx)
    (fun x hx => by
      obtain ⟨u1, u2, u3⟩ := hcarB x hx
      exact ⟨u1, u2, by show (x.1.src == (yFeedAll QM c ((kl0, p0, d0) :: itemsA)).client) = _; rw [r4]; exact u3⟩)
    hsend hrouteB
  rw [quicRun_append, hrunA, ← hc1]
  exact hrunO

end Tail3

end TLX.Props.C02All
