/-
Non-vacuity of `Props/C01Rfc.lean`: every hypothesis of `tls12_capture_exact_rfc` and of `tls13_capture_exact_rfc` holds for
a concrete capture file, key-log file and option vector (toy primitives, toy hashes with the real digest sizes, the
regenerated suite table) — except, as in `C01File2.Ex`, the one IEEE-754 fact about the packet times (`hus`).

  `tls12_rfc_instance`   TLS 1.2, TLS_RSA_WITH_AES_128_GCM_SHA256 (0x009C): the capture file of `C01File.Ex`, the key-log file
                         of `C01File2.Ex` (a comment, the CLIENT_RANDOM line in upper-case hex with CRLF, another tool's line)
  `tls13_rfc_instance`   TLS 1.3, TLS_AES_128_GCM_SHA256 (0x1301): the connection of `C01Capstone.Ex` (`t13`: a server flight
                         that crosses a segment boundary, a NewSessionTicket, padding) as a nanosecond-libpcap file behind an
                         ARP request; the key-log file has the four lines in another order than the tool's label list,
                         mixed line ends, an EXPORTER_SECRET line and a comment
and, for the other record-protection families, that the suite description and the class exist (`decide +kernel` over the
registry copy and `Spec.denote`): RC4, CBC with implicit and explicit IV, with and without encrypt-then-MAC, CCM_8,
ChaCha20-Poly1305 in TLS 1.2 and 1.3.
-/
import TLX.Props.C01Rfc
set_option autoImplicit false
set_option linter.unusedSimpArgs false
set_option linter.unusedVariables false
namespace TLX.Props.C01Rfc.Ex
open TLX TLX.MainLoop TLX.Spec.Demux TLX.Dissect TLX.Export TLX.Props.C01File TLX.Props.C01File.Ex
open TLX.Spec.FrameBuild TLX.Spec.TlsCapture TLX.Spec.NssKeylog
open TLX.Cipher TLX.RecordLayer TLX.Spec.TlsSender TLX.Props.C01 TLX.Lemmas.Pipeline TLX.Spec.TlsConnection
open TLX.Lemmas.Capstone TLX.Props.C01Pipeline TLX.Spec.TlsFraming TLX.Props.C01Capstone TLX.Props.C01Capstone.Ex
open TLX.Props.C01Pipeline.Ex2 TLX.Props.C01.Ex TLX.Props.C01File2 TLX.Props.C01File2.Ex
open TLX.Spec.KeySchedules TLX.Lemmas.C01Rfc TLX.Props.C09Found
open TLX.Spec.RfcSuite (SuiteSpec suiteOfCode cls12 snd12 snd13 ValidFor etmNegotiated labelClientRandom labelCHTS labelSHTS
  labelCTS0 labelSTS0)

/-! ### the other families: the suite and its record protection exist -/

-- RC4 (0x0005), 3DES (0x000A), AES-CBC-SHA (0x002F), AES-CBC-SHA256 (0x003C), Camellia (0x0041), IDEA (0x0007)
example : suiteOfCode 0x0005 = some ⟨.rc4_128, 16, .sha1, 16⟩ ∧ suiteOfCode 0x000A = some ⟨.tripleDesEdeCbc, 24, .sha1, 16⟩ ∧
    suiteOfCode 0x002F = some ⟨.aesCbc, 16, .sha1, 16⟩ ∧ suiteOfCode 0x003C = some ⟨.aesCbc, 16, .sha256, 16⟩ ∧
    suiteOfCode 0x0041 = some ⟨.camelliaCbc, 16, .sha1, 16⟩ ∧ suiteOfCode 0x0007 = some ⟨.ideaCbc, 16, .sha1, 16⟩ := by
  decide +kernel
-- AES-256-GCM-SHA384 (0x009D), CCM_8 (0xC0A0), ChaCha20-Poly1305 (0xCCA8), TLS 1.3: 0x1302, 0x1303, 0x1304, 0x1305
example : suiteOfCode 0x009D = some ⟨.aesGcm, 32, .sha384, 16⟩ ∧ suiteOfCode 0xC0A0 = some ⟨.aesCcm, 16, .sha256, 8⟩ ∧
    suiteOfCode 0xCCA8 = some ⟨.chacha20Poly1305, 32, .sha256, 16⟩ ∧ suiteOfCode 0x1302 = some ⟨.aesGcm, 32, .sha384, 16⟩ ∧
    suiteOfCode 0x1303 = some ⟨.chacha20Poly1305, 32, .sha256, 16⟩ ∧ suiteOfCode 0x1304 = some ⟨.aesCcm, 16, .sha256, 16⟩ ∧
    suiteOfCode 0x1305 = some ⟨.aesCcm, 16, .sha256, 8⟩ := by
  decide +kernel
-- all of them are accepted by the tool's table
example : ∀ cs ∈ [0x0005, 0x000A, 0x002F, 0x003C, 0x0041, 0x0007, 0x009D, 0xC0A0, 0xCCA8, 0x1302, 0x1303, 0x1304, 0x1305],
    CipherSuite.resolve cs ≠ none := by decide +kernel
-- the record protections: SSL 3.0 / TLS 1.0 chained IV, TLS 1.1 / 1.2 explicit IV, encrypt-then-MAC, stream, AEAD
example : cls12 .ssl30 false ⟨.aesCbc, 16, .sha1, 16⟩ = some (.cbcImplicit .aes false) ∧
    cls12 .tls10 true ⟨.tripleDesEdeCbc, 24, .sha1, 16⟩ = some (.cbcImplicit .tdes true) ∧
    cls12 .tls11 false ⟨.camelliaCbc, 16, .sha1, 16⟩ = some (.cbcExplicit .camellia false) ∧
    cls12 .tls12 true ⟨.aesCbc, 16, .sha256, 16⟩ = some (.cbcExplicit .aes true) ∧
    cls12 .tls10 false ⟨.rc4_128, 16, .sha1, 16⟩ = some .stream ∧
    cls12 .tls12 false ⟨.aesCcm, 16, .sha256, 8⟩ = some (.aead12 .aesccm 8) ∧
    cls12 .tls12 false ⟨.chacha20Poly1305, 32, .sha256, 16⟩ = some .chacha12 ∧
    Spec.RfcSuite.cls13 ⟨.chacha20Poly1305, 32, .sha256, 16⟩ = some .chacha13 ∧
    Spec.RfcSuite.cls13 ⟨.aesCcm, 16, .sha256, 8⟩ = some (.aead13 .aesccm 8) := by decide
-- validity: an AEAD suite is not a TLS 1.0 suite, a SHA-1 CBC suite is valid everywhere
example : ¬ ValidFor ⟨.aesGcm, 16, .sha256, 16⟩ .tls10 ∧ ValidFor ⟨.aesGcm, 16, .sha256, 16⟩ .tls12 ∧
    (∀ pv, ValidFor ⟨.aesCbc, 16, .sha1, 16⟩ pv) := by
  refine ⟨by decide, by decide, fun pv => ?_⟩
  cases pv <;> decide
-- the RFC key block really depends on the version and the suite: TLS 1.0 AES-128-CBC-SHA takes 16-byte IVs from it, TLS 1.2
-- none; the keys of the two differ
example : (snd12 hashes .tls10 ⟨.aesCbc, 16, .sha1, 16⟩ (List.replicate 48 5) cr0 sr0).c.iv.length = 16 ∧
    (snd12 hashes .tls12 ⟨.aesCbc, 16, .sha1, 16⟩ (List.replicate 48 5) cr0 sr0).c.iv.length = 0 ∧
    (snd12 hashes .tls10 ⟨.aesCbc, 16, .sha1, 16⟩ (List.replicate 48 5) cr0 sr0).c.key ≠
      (snd12 hashes .tls12 ⟨.aesCbc, 16, .sha1, 16⟩ (List.replicate 48 5) cr0 sr0).c.key := by decide +kernel

theorem hashes_lawful : hashes.Lawful :=
  ⟨Crypto.toy_lawful 16 (by decide), Crypto.toy_lawful 20 (by decide), Crypto.toy_lawful 32 (by decide),
   Crypto.toy_lawful 48 (by decide)⟩

/-! ### TLS 1.2 -/

def sp0 : SuiteSpec := ⟨.aesGcm, 16, .sha256, 16⟩
def ms0 : Bytes := List.replicate 48 5

/-- the RFC sender's write states (RFC 5246 §6.3 key block of `ms0`) are the ones the capture of `C01File.Ex` was made with -/
theorem snd12_0 : snd12 hashes .tls12 sp0 ms0 t0.ch.random t0.sh.random = legacySnd k0 := by decide +kernel

theorem ignored_of_arp (l : List (Bool × Bytes × Nat)) (e : CapEv) (he : CEv.foreign e ∈ CEv.foreign arp :: segEvs 1 l) :
    Ignored (optsOf args0 ports0 []) e := by
  simp only [List.mem_cons] at he
  rcases he with he | he
  · cases he; exact arp_ignored
  · exfalso
    have : ∀ (l : List (Bool × Bytes × Nat)) (n : Nat), CEv.foreign e ∉ segEvs n l := by
      intro l
      induction l with
      | nil => intro n h; cases h
      | cons x xs ih =>
        obtain ⟨d, pl, off⟩ := x
        intro n h
        simp only [segEvs, List.mem_cons] at h
        rcases h with h | h
        · cases h
        · exact ih (n + 1) h
    exact this _ _ he

/-- **Non-vacuity of `tls12_capture_exact_rfc`.** -/
theorem tls12_rfc_instance (hus : ∀ e ∈ evs0.map CEv.cap, e.us < 2 ^ 64) :
    ∃ f, exportFile (fun _ _ _ => none) hashes Cipher.Toy.prims args0 cv0.isLegacy (some (C09Found.fileText ls0))
        (Spec.Containers.encode cv0 cevs0) = .file f ∧ Exact f sess0 hi k16 := by
  have htr : tr0 = ⟨labelClientRandom, Pipeline.natsOfBytes t0.ch.random, Pipeline.natsOfBytes ms0⟩ := by decide +kernel
  have hl1 : HasLine ls0 labelClientRandom (Pipeline.natsOfBytes t0.ch.random) (Pipeline.natsOfBytes ms0) :=
    ⟨hcU, Keylog.hexOf (List.replicate 48 5), true, by rw [← htr]; simp [ls0]⟩
  have ho1 : OnlySecret ls0 labelClientRandom (Pipeline.natsOfBytes t0.ch.random) (Pipeline.natsOfBytes ms0) := by
    intro tr hc hv crlf hm _ _
    simp only [ls0, List.mem_cons, List.mem_nil_iff, or_false, Prod.mk.injEq] at hm
    rcases hm with ⟨h, _⟩ | ⟨h, _⟩ | ⟨h, _⟩
    · cases h
    · cases h; decide +kernel
    · cases h
  have hsc : Script12 t0.cEvs := ⟨[[16, 0, 0, 2, 9, 9]], _, rfl, by decide, by
    intro e he
    simp only [List.mem_cons, List.mem_nil_iff, or_false] at he
    rcases he with rfl | rfl | rfl <;> exact ⟨_, _, _, rfl, by decide⟩⟩
  have hss : Script12 t0.sEvs := ⟨[[11, 0, 0, 3, 1, 2, 3, 14, 0, 0, 0]], _, rfl, by decide, by
    intro e he
    simp only [List.mem_cons, List.mem_nil_iff, or_false] at he
    rcases he with rfl | rfl <;> exact ⟨_, _, _, rfl, by decide⟩⟩
  have hokc : ∀ e ∈ t0.cEvs, EvOk1 cls0 (sp0.hash.suite hashes).outLen e := by decide +kernel
  have hoks : ∀ e ∈ t0.sEvs, EvOk1 cls0 (sp0.hash.suite hashes).outLen e := by decide +kernel
  have hwr : ∀ d, ∀ r ∈ t0.records Cipher.Toy.prims Cipher.Toy.laws cls0
      (snd12 hashes .tls12 sp0 ms0 t0.ch.random t0.sh.random) d, WholeRecord r := by
    rw [snd12_0]; intro d; cases d <;> decide +kernel
  have e1 : Spec.TlsConnection.plainOf t0.cEvs = hi := by decide +kernel
  have e2 : Spec.TlsConnection.plainOf t0.sEvs = k16 := by decide +kernel
  obtain ⟨hF, hcand, _, _, hdelv⟩ := described_session fl0 (by decide) evs0 described0 (optsOf args0 ports0 []) rfl
    (by decide +kernel) (by decide +kernel) p00 TLX.Props.C01File.Ex.pkts0.tail fp0
  have hrec : RecordsFit hashes Cipher.Toy.prims (capInfo (evs0.map CEv.cap)) sess0
      ((fileKeysOf (some (C09Found.fileText ls0))).getD []) := by
    unfold RecordsFit sessTraffic; decide +kernel
  have h := tls12_capture_exact_rfc (fun _ _ _ => none) hashes hashes_lawful Cipher.Toy.prims Cipher.Toy.laws
    fl0 (by decide) evs0 described0 times0 cv0 cevs0 cwf0 items0
    args0 ls0 ls0_wf rfl rfl [] ports0 rfl rfl (by decide +kernel) (by decide +kernel) p00 TLX.Props.C01File.Ex.pkts0.tail fp0
    t0 (by decide) (by decide) rfl rfl rfl rfl .tls12 (by unfold Negotiated sessVer; decide)
    (fun _ => ⟨rfl, rfl⟩) (by decide +kernel) sp0 (by decide +kernel) (by decide) cls0 (by decide +kernel)
    ms0 rfl hl1 ho1 hsc hss hokc hoks hwr (by decide +kernel) (by rw [snd12_0]; exact wires0) causal0'
    (by decide) (by decide) (by intro kv hkv; cases hkv) (by rw [e1, e2]; decide) hrec hus
    (fun blk hblk => othersFit_of_ignored _ _ _ args0 _ fl0 evs0 described0 rfl [] ports0 rfl rfl
      (fun e he => ignored_of_arp cap0 e he) p00 TLX.Props.C01File.Ex.pkts0.tail fp0 hcand blk hblk)
  rw [e1, e2] at h
  exact h

/-! ### TLS 1.3 -/

def sp13 : SuiteSpec := ⟨.aesGcm, 16, .sha256, 16⟩
def chts : Bytes := List.replicate 32 1
def shts : Bytes := List.replicate 32 2
def cats : Bytes := List.replicate 32 3
def sats : Bytes := List.replicate 32 4

/-- the RFC sender's write states (RFC 8446 §7.3) are the ones the records of `C01Capstone.Ex.t13` were protected with -/
theorem snd13_0 : snd13 hashes sp13 chts shts cats sats = x13 := by decide +kernel

/-- the capture: the ARP request, then the six segments of `C01Capstone.Ex.cap13` -/
def evs13 : List CEv := .foreign arp :: segEvs 1 cap13

theorem described13 : Described fl0 evs13 := by
  intro ev hev
  simp only [evs13, List.mem_cons] at hev
  rcases hev with rfl | hev
  · exact arp_foreign
  · exact segEvs_described cap13 (by decide +kernel) 1 ev hev

theorem times13 : ∀ e ∈ evs13.map CEv.cap, Ingest.isMinusOne e.t = false := by
  intro e he
  simp only [evs13, List.map_cons, List.mem_cons] at he
  rcases he with rfl | he
  · exact notMinusOne 0
  · exact segEvs_times cap13 1 e he

def cevs13 : List Spec.Containers.Ev := (evs13.map CEv.cap).map cevOf

theorem evs13_bounds (c : CEv) (hc : c ∈ evs13) : ∃ k, k < 100 ∧ (CEv.cap c).t = timeAt k ∧ (CEv.cap c).buf.length < 70000 := by
  simp only [evs13, List.mem_cons] at hc
  rcases hc with rfl | hc
  · exact ⟨0, by decide, rfl, by decide⟩
  · obtain ⟨k, hk, h1, h2⟩ := segEvs_bounds cap13 (by decide +kernel) 1 _ (List.mem_map.mpr ⟨c, hc, rfl⟩)
    exact ⟨k, by have : cap13.length = 6 := rfl; omega, h1, h2⟩

theorem cwf13 : cv0.WF cevs13 := by
  refine ⟨by decide, by decide, by decide, by decide, by decide, legacy_wf _ _ rfl ?_ 0⟩
  intro ev hev
  simp only [cevs13, List.mem_map] at hev
  obtain ⟨e, ⟨c, hc, rfl⟩, rfl⟩ := hev
  obtain ⟨k, hk, ht, hl⟩ := evs13_bounds c hc
  refine ⟨_, _, rfl, ?_, by omega⟩
  rw [ht]
  simp only [timeAt, Spec.Containers.LegacyVariant.unitsPerSecond, if_true]
  have : ((1700000000 : Int).toNat * 10 ^ 9 + (1000 + k)) / 10 ^ 9 = 1700000000 := by
    have : (1700000000 : Int).toNat = 1700000000 := rfl
    rw [this]; omega
  rw [this]; decide

theorem items13 : cevs13.filterMap (Spec.Containers.scale cv0) = (evs13.map CEv.cap).map CapEv.item := by
  unfold cevs13
  apply filterMap_map_some
  intro e he
  simp only [List.mem_map] at he
  obtain ⟨c, hc, rfl⟩ := he
  obtain ⟨k, hk, ht, _⟩ := evs13_bounds c hc
  exact scale_cev _ k hk ht

def pkts13f : List Pkt := flowPkts fl0 0 evs13
def p13 : Pkt := ⟨.tcp, ⟨[10, 0, 0, 1], 5555⟩, ⟨[10, 0, 0, 2], 443⟩, qC 0, true, 1⟩
theorem fp13 : flowPkts fl0 0 evs13 = p13 :: pkts13f.tail := by decide +kernel

theorem wires13 : WiresInOrder evs13 (t13.stream Cipher.Toy.prims Cipher.Toy.laws C01Capstone.Ex.cls13 x13) := by
  intro d
  cases d
  · refine ⟨⟨isnOf false, ?_⟩, by decide +kernel⟩
    have hcut : IsCut (t13.stream Cipher.Toy.prims Cipher.Toy.laws C01Capstone.Ex.cls13 x13 false) (chunks13 false) :=
      ⟨by decide +kernel, by decide +kernel⟩
    have e2 : dirWires false evs13 = segsOf (isnOf false) 0 (chunks13 false) := by decide +kernel
    unfold InOrder
    rw [e2]; exact Delivers.cut _ hcut
  · refine ⟨⟨isnOf true, ?_⟩, by decide +kernel⟩
    have hcut : IsCut (t13.stream Cipher.Toy.prims Cipher.Toy.laws C01Capstone.Ex.cls13 x13 true) (chunks13 true) :=
      ⟨by decide +kernel, by decide +kernel⟩
    have e2 : dirWires true evs13 = segsOf (isnOf true) 0 (chunks13 true) := by decide +kernel
    unfold InOrder
    rw [e2]; exact Delivers.cut _ hcut

def sess13 : Pipeline.Conn := sessionOf (evs13.map CEv.cap) (optsOf args0 ports0 []) p13 pkts13f.tail

theorem causal13' : Causal13 (connRecs (capInfo (evs13.map CEv.cap)) sess13) :=
  ⟨(connRecs (capInfo (evs13.map CEv.cap)) sess13).headD (⟨[], []⟩, false),
    ((connRecs (capInfo (evs13.map CEv.cap)) sess13).drop 1).headD (⟨[], []⟩, false),
    (connRecs (capInfo (evs13.map CEv.cap)) sess13).drop 2, by decide +kernel, by decide +kernel, by decide +kernel⟩

/-- the key-log FILE: a comment; SERVER_TRAFFIC_SECRET_0 first (CRLF); an EXPORTER_SECRET line; the two handshake secrets
    (client random in upper-case hex); CLIENT_TRAFFIC_SECRET_0 last -/
def crN : List Nat := Pipeline.natsOfBytes cr0
def trOf (label : List Nat) (b : Nat) : Triple := ⟨label, crN, List.replicate 32 b⟩
def lineOf (label : List Nat) (b : Nat) (upper crlf : Bool) : FLine × Bool :=
  (.key (trOf label b) (if upper then hcU else Keylog.hexOf crN) (Keylog.hexOf (List.replicate 32 b)), crlf)
def labelExporter : List Nat := Spec.RfcSuite.ascii "EXPORTER_SECRET"
def ls13 : List (FLine × Bool) :=
  [(.other [35, 32, 107, 101, 121, 115], false), lineOf labelSTS0 4 false true, lineOf labelExporter 9 false false,
   lineOf labelCHTS 1 true false, lineOf labelSHTS 2 true true, lineOf labelCTS0 3 false false]

theorem lineOf_wf (label : List Nat) (b : Nat) (upper crlf : Bool) (hl : label ∈ nssLabels) (hb : b < 256)
    (hb0 : b = 1 ∨ b = 2 ∨ b = 3 ∨ b = 4 ∨ b = 9) : (lineOf label b upper crlf).1.WF := by
  show DenotesVia _ (trOf label b) _ _
  refine ⟨rfl, hl, ?_, (by decide : crN.length = 32), ?_, ?_⟩
  · cases upper
    · show IsHexOf (Keylog.hexOf crN) crN; decide +kernel
    · show IsHexOf hcU crN; decide +kernel
  · show IsHexOf (Keylog.hexOf (List.replicate 32 b)) (List.replicate 32 b)
    rcases hb0 with rfl | rfl | rfl | rfl | rfl <;> decide +kernel
  · show List.replicate 32 b ≠ []
    simp

theorem ls13_wf : ∀ x ∈ ls13, x.1.WF := by
  intro x hx
  simp only [ls13, List.mem_cons, List.mem_nil_iff, or_false] at hx
  rcases hx with rfl | rfl | rfl | rfl | rfl | rfl
  · exact ⟨by decide, by decide, Lemmas.Keylog.not_looks_of_first 35 _ (by decide)⟩
  · exact lineOf_wf _ _ _ _ (by decide) (by decide) (by decide)
  · exact lineOf_wf _ _ _ _ (by decide) (by decide) (by decide)
  · exact lineOf_wf _ _ _ _ (by decide) (by decide) (by decide)
  · exact lineOf_wf _ _ _ _ (by decide) (by decide) (by decide)
  · exact lineOf_wf _ _ _ _ (by decide) (by decide) (by decide)

theorem hasLine13 (label : List Nat) (b : Nat) (upper crlf : Bool) (hm : lineOf label b upper crlf ∈ ls13)
    (sec : Bytes) (hs : Pipeline.natsOfBytes sec = List.replicate 32 b) :
    HasLine ls13 label (Pipeline.natsOfBytes t13.ch.random) (Pipeline.natsOfBytes sec) := by
  refine ⟨if upper then hcU else Keylog.hexOf crN, Keylog.hexOf (List.replicate 32 b), crlf, ?_⟩
  rw [hs]
  exact hm

theorem onlySecret13 (label : List Nat) (b : Nat) (sec : Bytes) (hs : Pipeline.natsOfBytes sec = List.replicate 32 b)
    (h : ∀ x ∈ ls13, ∀ tr hc hv, x.1 = .key tr hc hv → tr.label = label → tr.secret = List.replicate 32 b) :
    OnlySecret ls13 label (Pipeline.natsOfBytes t13.ch.random) (Pipeline.natsOfBytes sec) := by
  intro tr hc hv crlf hm hl _
  rw [hs]
  exact h _ hm tr hc hv rfl hl

theorem only_aux (label : List Nat) (b : Nat)
    (hd : ∀ p ∈ [(labelSTS0, 4), (labelExporter, 9), (labelCHTS, 1), (labelSHTS, 2), (labelCTS0, 3)],
      p.1 = label → p.2 = b) :
    ∀ x ∈ ls13, ∀ tr hc hv, x.1 = .key tr hc hv → tr.label = label → tr.secret = List.replicate 32 b := by
  intro x hx tr hc hv he hl
  simp only [ls13, List.mem_cons, List.mem_nil_iff, or_false] at hx
  rcases hx with rfl | rfl | rfl | rfl | rfl | rfl
  · cases he
  all_goals
    simp only [lineOf] at he
    cases he
    simp only [trOf] at hl ⊢
    first
      | (have := hd (labelSTS0, 4) (by simp) hl; simp only at this; rw [this])
      | (have := hd (labelExporter, 9) (by simp) hl; simp only at this; rw [this])
      | (have := hd (labelCHTS, 1) (by simp) hl; simp only at this; rw [this])
      | (have := hd (labelSHTS, 2) (by simp) hl; simp only at this; rw [this])
      | (have := hd (labelCTS0, 3) (by simp) hl; simp only at this; rw [this])

/-- **Non-vacuity of `tls13_capture_exact_rfc`.** -/
theorem tls13_rfc_instance (hus : ∀ e ∈ evs13.map CEv.cap, e.us < 2 ^ 64) :
    ∃ f, exportFile (fun _ _ _ => none) hashes Cipher.Toy.prims args0 cv0.isLegacy (some (C09Found.fileText ls13))
        (Spec.Containers.encode cv0 cevs13) = .file f ∧ Exact f sess13 hi k16 := by
  have hl1 := hasLine13 labelCHTS 1 true false (by simp [ls13]) chts (by decide)
  have hl2 := hasLine13 labelSHTS 2 true true (by simp [ls13]) shts (by decide)
  have hl3 := hasLine13 labelCTS0 3 false false (by simp [ls13]) cats (by decide)
  have hl4 := hasLine13 labelSTS0 4 false true (by simp [ls13]) sats (by decide)
  have ho1 := onlySecret13 labelCHTS 1 chts (by decide) (only_aux _ _ (by decide))
  have ho2 := onlySecret13 labelSHTS 2 shts (by decide) (only_aux _ _ (by decide))
  have ho3 := onlySecret13 labelCTS0 3 cats (by decide) (only_aux _ _ (by decide))
  have ho4 := onlySecret13 labelSTS0 4 sats (by decide) (only_aux _ _ (by decide))
  have hokc : ∀ e ∈ t13.cEvs, EvOk1 C01Capstone.Ex.cls13 (sp13.hash.suite hashes).outLen e := by decide +kernel
  have hoks : ∀ e ∈ t13.sEvs, EvOk1 C01Capstone.Ex.cls13 (sp13.hash.suite hashes).outLen e := by decide +kernel
  have hwr : ∀ d, ∀ r ∈ t13.records Cipher.Toy.prims Cipher.Toy.laws C01Capstone.Ex.cls13
      (snd13 hashes sp13 chts shts cats sats) d, WholeRecord r := by
    rw [snd13_0]; intro d; cases d <;> decide +kernel
  have hsc : Script13 t13.cEvs := by
    intro e he
    simp only [t13, List.mem_cons, List.mem_nil_iff, or_false] at he
    rcases he with rfl | rfl | rfl
    · exact Or.inl rfl
    · exact Or.inr (Or.inl ⟨_, _, rfl⟩)
    · exact Or.inr (Or.inr ⟨_, _, rfl⟩)
  have hss : Script13 t13.sEvs := by
    intro e he
    simp only [t13, List.mem_cons, List.mem_nil_iff, or_false] at he
    rcases he with rfl | rfl | rfl | rfl
    · exact Or.inl rfl
    · exact Or.inr (Or.inl ⟨_, _, rfl⟩)
    · exact Or.inr (Or.inl ⟨_, _, rfl⟩)
    · exact Or.inr (Or.inr ⟨_, _, rfl⟩)
  have e : (Spec.TlsConnection.plainOf t13.cEvs, Spec.TlsConnection.plainOf t13.sEvs) = (hi, k16) := by decide
  obtain ⟨e1, e2⟩ := Prod.mk.inj e
  obtain ⟨hF, hcand, _, _, hdelv⟩ := described_session fl0 (by decide) evs13 described13 (optsOf args0 ports0 []) rfl
    (by decide +kernel) (by decide +kernel) p13 pkts13f.tail fp13
  have hrec : RecordsFit hashes Cipher.Toy.prims (capInfo (evs13.map CEv.cap)) sess13
      ((fileKeysOf (some (C09Found.fileText ls13))).getD []) := by
    unfold RecordsFit sessTraffic; decide +kernel
  have h := tls13_capture_exact_rfc (fun _ _ _ => none) hashes hashes_lawful Cipher.Toy.prims Cipher.Toy.laws
    fl0 (by decide) evs13 described13 times13 cv0 cevs13 cwf13 items13
    args0 ls13 ls13_wf rfl rfl [] ports0 rfl rfl (by decide +kernel) (by decide +kernel) p13 pkts13f.tail fp13
    t13 (by decide) (by decide) rfl rfl rfl rfl (by unfold Negotiated; decide)
    (by decide +kernel) sp13 (by decide +kernel) C01Capstone.Ex.cls13 (by decide +kernel)
    chts shts cats sats hl1 hl2 hl3 hl4 ho1 ho2 ho3 ho4 hsc hss hokc hoks hwr (by decide +kernel)
    (by rw [snd13_0]; exact wires13) causal13'
    (by decide) (by decide) (by intro kv hkv; cases hkv) (by rw [e1, e2]; decide) hrec hus
    (fun blk hblk => othersFit_of_ignored _ _ _ args0 _ fl0 evs13 described13 rfl [] ports0 rfl rfl
      (fun e he => ignored_of_arp cap13 e he) p13 pkts13f.tail fp13 hcand blk hblk)
  rw [e1, e2] at h
  exact h

/-! ### why `OnlySecret` is a hypothesis: a second, different secret under the same label and client random

The key-log file CONTAINS the connection's line(s) in all four cases; which of two contradicting lines the tool uses depends on
the protocol version (replayed on the real tool: `harness/c01_rfc_replay.py`). -/

/-- `CLIENT_RANDOM <cr0> 06…06`: not the master secret of the connection -/
def wrongLine : FLine × Bool :=
  (.key ⟨Keylog.s_CLIENT_RANDOM, crN, List.replicate 48 6⟩ (Keylog.hexOf crN) (Keylog.hexOf (List.replicate 48 6)), false)

def payloads (o : Option (List Pipeline.OutPkt)) : Option (List Bytes) := o.map fun l => l.map (·.payload)

/-- SSL 3.0 – TLS 1.2: the FIRST `CLIENT_RANDOM` line wins. With the wrong line in front nothing is exported although the
    right line is in the file; with the wrong line behind the conversation is exported. -/
theorem first_line_wins_12 :
    HasLine (wrongLine :: ls0) labelClientRandom (Pipeline.natsOfBytes t0.ch.random) (Pipeline.natsOfBytes ms0) ∧
    ¬ OnlySecret (wrongLine :: ls0) labelClientRandom (Pipeline.natsOfBytes t0.ch.random) (Pipeline.natsOfBytes ms0) ∧
    Pipeline.connOut hashes Cipher.Toy.prims (capInfo (evs0.map CEv.cap)) sess0
      ((fileKeysOf (some (C09Found.fileText (wrongLine :: ls0)))).getD []) = some [] ∧
    payloads (Pipeline.connOut hashes Cipher.Toy.prims (capInfo (evs0.map CEv.cap)) sess0
      ((fileKeysOf (some (C09Found.fileText (ls0 ++ [wrongLine])))).getD [])) =
        some [[], [], [], hi, [], k16.take 8, [], k16.drop 8, []] := by
  have htr : tr0 = ⟨labelClientRandom, Pipeline.natsOfBytes t0.ch.random, Pipeline.natsOfBytes ms0⟩ := by decide +kernel
  refine ⟨⟨hcU, Keylog.hexOf (List.replicate 48 5), true, by rw [← htr]; simp [ls0]⟩, ?_, by decide +kernel, by decide +kernel⟩
  intro h
  have := h _ _ _ _ (List.mem_cons_self : wrongLine ∈ wrongLine :: ls0) (by decide) (by decide)
  revert this
  decide

/-- TLS 1.3: the LAST line per label wins. With a wrong SERVER_TRAFFIC_SECRET_0 line behind the right one the server's
    application data is not exported although the right line is in the file; with the wrong line in front it is. -/
theorem last_line_wins_13 :
    HasLine (ls13 ++ [lineOf labelSTS0 9 false false]) labelSTS0 (Pipeline.natsOfBytes t13.ch.random)
      (Pipeline.natsOfBytes sats) ∧
    ¬ OnlySecret (ls13 ++ [lineOf labelSTS0 9 false false]) labelSTS0 (Pipeline.natsOfBytes t13.ch.random)
      (Pipeline.natsOfBytes sats) ∧
    payloads (Pipeline.connOut hashes Cipher.Toy.prims (capInfo (evs13.map CEv.cap)) sess13
      ((fileKeysOf (some (C09Found.fileText (ls13 ++ [lineOf labelSTS0 9 false false])))).getD [])) =
        some [[], [], [], hi, []] ∧
    payloads (Pipeline.connOut hashes Cipher.Toy.prims (capInfo (evs13.map CEv.cap)) sess13
      ((fileKeysOf (some (C09Found.fileText (lineOf labelSTS0 9 false false :: ls13)))).getD [])) =
        some [[], [], [], hi, [], k16, []] := by
  refine ⟨?_, ?_, by decide +kernel, by decide +kernel⟩
  · obtain ⟨hc, hv, crlf, hm⟩ := hasLine13 labelSTS0 4 false true (by simp [ls13]) sats (by decide)
    exact ⟨hc, hv, crlf, List.mem_append_left _ hm⟩
  · intro h
    have := h (trOf labelSTS0 9) _ _ false (List.mem_append_right _ (List.mem_singleton.mpr rfl)) rfl rfl
    revert this
    decide

end TLX.Props.C01Rfc.Ex
