/-
C02 / C03 — packet-level part: the state machine of `QuicSession` (quic_session.py) + `QuicDecryptor`.

Model:  `TLX/Quic/Session.lean` (input: dissected packets `TLX.Quic.Pkt`; cryptography, key derivations and the TLS
        handshake parser are parameters `Params σ`). Toy instance for non-vacuity: `TLX/Quic/SessionToy.lean`.
Spec:   `TLX/Spec/QuicSender.lean` (RFC 9000 §17 headers and packet-number truncation, RFC 9001 §5.3 nonce / AAD,
        §6 key phase and key-update generations, conformance of key-update histories).
Reused: `Props/C16` (packet-number window theorem), `Props/C17` (`frames_roundtrip`), `Cipher.SealLaws`
        (`open (seal p) = p`, a hypothesis; inhabited by `Toy.laws`).
Property theorems only; helper lemmas in `TLX/Lemmas/QuicSession*.lean`. Every statement is for all inputs.

C03  `session_total`, `session_total_run` (no exception leaves `handle_packet` for packets the class constructors
     can build; `session_total_counterexample`: without that, a `ShortQuicPacket` typed VERSION_NEG does — an object
     the dissector never creates), `wrong_keys_export_nothing`.
     Repair "only an authenticated QUIC packet moves the largest packet number of its space" (45c871e):
     `failed_packet_leaves_pn_table` (∀ s p: not authenticated ⇒ both tables unchanged, only `check_key_epoch`'s fields can
     differ, an exception was swallowed), `unauthenticated_step_leaves_pn_table`, `wrong_keys_leave_pn_tables`,
     `damaged_packet_leaves_pn_table`; witness on the code before (`Session.Legacy`): `legacy_pn_poisoned`, and the same
     two packets on the repaired code: `fixed_pn_not_poisoned` (both kernel-evaluated over the toy instance).
C02  `key_epoch_tracks_sender`, `one_rtt_exact`, `handshake_levels_exact`, `cid_learning_*`, `direction_by_cid`,
     `new_connection_id_direction`, `retry_resets`.
-/
import TLX.Lemmas.QuicSessionExact
import TLX.Quic.SessionToy
set_option linter.unusedSimpArgs false
set_option linter.unusedVariables false
namespace TLX.Props.C02Session
open TLX TLX.Quic TLX.Cipher TLX.Quic.Session TLX.Lemmas.QuicSession TLX.Spec.QuicSender TLX.Spec.QuicFrames

variable {σ : Type} (P : Params σ)

/-! ### C03: nothing escapes `handle_packet` -/

/-- the full statement, for ALL dissected-packet values -/
def session_total_statement : Prop :=
  ∀ (σ : Type) (P : Params σ) (s : St σ) (d : Dgram), (handlePacket P s d).2.2 = none

/-- C03 for one datagram: whatever the session state, the keys, the AEAD's behaviour and the packets' contents
    (damaged, undecryptable, `None` fields, unknown types), `handle_packet` returns normally — every raise site of
    `decrypt_packet`, `check_key_epoch`, `get_full_packet_number`, `QuicDecryptor.decrypt`, `parse_frames`,
    `handle_frame`, `set_tls_decryptors` and the TLS parser lies inside the `try/except Exception`.
    Hypothesis: `Pkt.classOk` — a short-header object is typed RTT_1 (the only way the dissector builds one). -/
theorem session_total (s : St σ) (d : Dgram) (h : ∀ p ∈ d.pkts, Pkt.classOk p) : (handlePacket P s d).2.2 = none := by
  unfold handlePacket
  rw [handleQuicPackets_esc]
  apply escapes_none
  intro q hq
  obtain ⟨p, hp, rfl⟩ := List.mem_map.mp hq
  exact h p hp

/-- C03 for a whole flow: the run over any datagram sequence ends without an escaping exception. -/
theorem session_total_run (s : St σ) (ds : List Dgram) (h : ∀ d ∈ ds, ∀ p ∈ d.pkts, Pkt.classOk p) :
    (run P s ds).2 = none := by
  induction ds generalizing s with
  | nil => rfl
  | cons d ds ih =>
    unfold run
    have h1 := session_total P s d (h d (List.mem_cons_self ..))
    split
    · rename_i heq; rw [heq] at h1; simp at h1
    · exact ih _ (fun d' hd' => h d' (List.mem_cons_of_mem _ hd'))

/-- the object that makes the real code raise out of `handle_quic_packet`: a `ShortQuicPacket` whose `packet_type`
    is VERSION_NEG (`quic_packet.supported_version` → AttributeError outside the try/except). -/
def shortVersionNeg : Pkt := { htype := .short, ptype := .versionNeg, isServer := false, ts := 0, firstByte := [0x40] }

theorem short_version_neg_escapes (s : St σ) (fc : Bool) (dcid : Bytes) (v : Version) :
    (handlePacket P s ⟨fc, dcid, v, [shortVersionNeg]⟩).2.2 = some .attr := by
  simp [handlePacket, handleQuicPackets, stepPkt, afterDecrypt, shortVersionNeg]

theorem session_total_counterexample : ¬ session_total_statement := by
  intro h
  have := h _ (SessionToy.params [] true) (St.init (SessionToy.params [] true)) ⟨true, [], .v1, [shortVersionNeg]⟩
  rw [short_version_neg_escapes] at this
  simp at this

/-! ### C03: wrong keys export nothing -/

/-- `s'.out` is `s.out` followed by VERSION_NEG pseudo frames only (those are appended without any decryption) -/
def OnlyVN (s s' : St σ) : Prop := ∃ extra, s'.out = s.out ++ extra ∧ ∀ o ∈ extra, o.frame = .versionNeg

theorem OnlyVN.refl (s : St σ) : OnlyVN s s := ⟨[], by simp, by simp⟩

theorem OnlyVN.of_eq {s a : St σ} (h : a.out = s.out) : OnlyVN s a := ⟨[], by simp [h], by simp⟩

theorem OnlyVN.trans {s a b : St σ} (h1 : OnlyVN s a) (h2 : OnlyVN a b) : OnlyVN s b := by
  obtain ⟨e1, h1, g1⟩ := h1
  obtain ⟨e2, h2, g2⟩ := h2
  refine ⟨e1 ++ e2, by rw [h2, h1, List.append_assoc], ?_⟩
  intro o ho
  rcases List.mem_append.mp ho with h | h
  · exact g1 o h
  · exact g2 o h

/-- the AEAD rejects everything (wrong keys, wrong key log, damaged packets) -/
def AeadRejectsAll : Prop := ∀ a k n ad tl ct, ∃ e, P.prims.aeadOpen a k n ad tl ct = .error e

theorem decDecrypt_rejected (hbad : AeadRejectsAll P) (d : Dec) (pl : Option Bytes) (pn aad : Bytes) (srv : Bool)
    (pt : Bytes) : decDecrypt P d pl pn aad srv ≠ .ok pt := by
  intro h
  unfold decDecrypt at h
  cases hk : (if srv = true then d.server else some d.client) with
  | none => simp [hk] at h
  | some k =>
    cases pl with
    | none => simp [hk] at h
    | some ct =>
      simp only [hk] at h
      obtain ⟨e, he⟩ := hbad d.alg k.key (nonceOf k.iv pn) aad 16 ct
      rw [he] at h
      simp at h

/-! #### only an authenticated packet moves the largest packet number (repair 45c871e) -/

/-- after the decryptor lookup: the number was reconstructed, the AAD assembled, the decryptor bound and the AEAD
    accepted the packet -/
def PassesAead (s : St σ) (p : Pkt) (d? : Option Dec) : Prop :=
  ∃ pn aad d pt, getFullPn s p = .ok pn ∧ assocData p = .ok aad ∧ d? = some d ∧
    decDecrypt P d p.payload pn aad p.isServer = .ok pt

/-- `decrypt_packet` got past `decryptor.decrypt(…)` -/
def Authenticated (s : St σ) (p : Pkt) : Prop :=
  ∃ s1 d?, selectDecryptor P s p = (s1, .ok d?) ∧ PassesAead P s1 p d?

/-- every failure up to and including the AEAD check leaves the state after the decryptor lookup exactly as it was -/
theorem decryptRest_failed (s : St σ) (p : Pkt) (d? : Option Dec) (h : ¬ PassesAead P s p d?) :
    ∃ e, decryptRest P s p d? = (s, some e) := by
  unfold decryptRest
  cases hg : getFullPn s p with
  | error e => exact ⟨e, rfl⟩
  | ok pn =>
    cases ha : assocData p with
    | error e => exact ⟨e, rfl⟩
    | ok aad =>
      cases d? with
      | none => exact ⟨.unbound, rfl⟩
      | some d =>
        cases hd : decDecrypt P d p.payload pn aad p.isServer with
        | error e => exact ⟨e, by simp only [hd]⟩
        | ok pt => exact absurd ⟨pn, aad, d, pt, hg, ha, rfl, hd⟩ h

/-- ∀ state, ∀ packet: if `decrypt_packet` raises before the store — no decryptor, packet number / AAD not buildable,
    AEAD check failed (wrong keys, damaged packet, garbage after header-protection removal with wrong keys) — then an
    exception was swallowed and `packet_number_client` / `packet_number_server` are exactly what they were; the only
    state that can have changed is what `check_key_epoch` touches (`FrameSel`), in particular nothing is exported. -/
theorem failed_packet_leaves_pn_table (s : St σ) (p : Pkt) (h : ¬ Authenticated P s p) :
    (decryptPacket P s p).1.pnClient = s.pnClient ∧ (decryptPacket P s p).1.pnServer = s.pnServer ∧
    (decryptPacket P s p).1.out = s.out ∧ FrameSel s (decryptPacket P s p).1 ∧ (decryptPacket P s p).2 ≠ none := by
  have key : FrameSel s (decryptPacket P s p).1 ∧ (decryptPacket P s p).2 ≠ none := by
    unfold decryptPacket
    have h1 := selectDecryptor_frame P s p
    cases hs : selectDecryptor P s p with
    | mk s1 r =>
      rw [hs] at h1
      cases r with
      | error e => exact ⟨h1, by simp⟩
      | ok d? =>
        obtain ⟨e, he⟩ := decryptRest_failed P s1 p d? (fun hp => h ⟨s1, d?, hs, hp⟩)
        simp only [he]
        exact ⟨h1, by simp⟩
  obtain ⟨k1, k2⟩ := key
  have := k1
  obtain ⟨_, _, _, _, _, heq⟩ := this
  exact ⟨by rw [heq], by rw [heq], by rw [heq], k1, k2⟩

theorem not_authenticated_of_rejects (hbad : AeadRejectsAll P) (s : St σ) (p : Pkt) : ¬ Authenticated P s p := by
  rintro ⟨s1, d?, _, pn, aad, d, pt, _, _, _, hd⟩
  exact decDecrypt_rejected P hbad _ _ _ _ _ _ hd

theorem decryptPacket_out_rejected (hbad : AeadRejectsAll P) (s : St σ) (p : Pkt) :
    (decryptPacket P s p).1.out = s.out :=
  (failed_packet_leaves_pn_table P s p (not_authenticated_of_rejects P hbad s p)).2.2.1

theorem afterDecrypt_onlyVN (s : St σ) (c : Option PyErr) (p : Pkt) : OnlyVN s (afterDecrypt P s c p).st := by
  unfold afterDecrypt
  repeat' split
  all_goals first
    | exact OnlyVN.refl _
    | exact ⟨[_], rfl, by simp⟩
    | exact OnlyVN.of_eq rfl
    | (unfold learnCids; split <;> exact OnlyVN.of_eq rfl)

theorem stepPkt_onlyVN (hbad : AeadRejectsAll P) (s : St σ) (p : Pkt) : OnlyVN s (stepPkt P s p).st := by
  unfold stepPkt
  split
  · exact (OnlyVN.of_eq (decryptPacket_out_rejected P hbad s p)).trans (afterDecrypt_onlyVN P _ _ p)
  · exact afterDecrypt_onlyVN P s none p

theorem runPkts_onlyVN (hbad : AeadRejectsAll P) (s : St σ) (ps : List Pkt) : OnlyVN s (runPkts P s ps) := by
  induction ps generalizing s with
  | nil => exact OnlyVN.refl s
  | cons p ps ih =>
    unfold runPkts
    split
    · exact stepPkt_onlyVN P hbad s p
    · exact (stepPkt_onlyVN P hbad s p).trans (ih _)

theorem handlePacketPre_out (s : St σ) (dcid : Bytes) (v : Version) : (handlePacketPre P s dcid v).out = s.out := by
  unfold handlePacketPre setInitialDecryptor latchVersion
  repeat' split
  all_goals rfl

/-- C03, second clause: if the AEAD accepts nothing — wrong key log, keys of another connection, every packet
    damaged — then, for every datagram sequence and every starting state, nothing is exported: `output_buffer`
    only ever receives VERSION_NEG pseudo frames (which carry no stream data and need no key). -/
theorem wrong_keys_export_nothing (hbad : AeadRejectsAll P) (s : St σ) (ds : List Dgram) :
    OnlyVN s (run P s ds).1 := by
  induction ds generalizing s with
  | nil => exact OnlyVN.refl s
  | cons d ds ih =>
    unfold run
    have h1 : OnlyVN s (handlePacket P s d).1 := by
      unfold handlePacket
      rw [handleQuicPackets_st]
      exact (OnlyVN.of_eq (handlePacketPre_out P s d.dcid d.version)).trans (runPkts_onlyVN P hbad _ _)
    split <;> (rename_i heq; rw [heq] at h1)
    · exact h1
    · exact h1.trans (ih _)

/-- … in particular with no Version Negotiation packet in the flow the buffer stays exactly as it was (empty for a
    fresh session). -/
theorem wrong_keys_export_nothing_fresh (hbad : AeadRejectsAll P) (ds : List Dgram)
    (hvn : ∀ o ∈ (run P (St.init P) ds).1.out, o.frame ≠ .versionNeg) : (run P (St.init P) ds).1.out = [] := by
  obtain ⟨extra, h, g⟩ := wrong_keys_export_nothing P hbad (St.init P) ds
  cases extra with
  | nil => simpa [St.init] using h
  | cons o r =>
    exfalso
    exact hvn o (by rw [h]; simp) (g o (by simp))

/-! ### C02: CID learning and direction -/

theorem run_cids (s : St σ) (ds : List Dgram) : CidsMono s (run P s ds).1 := by
  induction ds generalizing s with
  | nil => exact CidsMono.refl s
  | cons d ds ih =>
    unfold run
    have h1 : CidsMono s (handlePacket P s d).1 := by
      unfold handlePacket
      rw [handleQuicPackets_st]
      exact (handlePacketPre_cids P s d.dcid d.version).trans (runPkts_cids P _ _)
    split <;> (rename_i heq; rw [heq] at h1)
    · exact h1
    · exact h1.trans (ih _)

/-- After a client Initial (DCID `D`, SCID `S`) — whether or not it could be decrypted — `server_cids ∋ D` and
    `client_cids ∋ S`. -/
theorem cid_learning_client_initial (s : St σ) (p : Pkt) (hl : p.htype = .long) (hi : p.ptype = .initial)
    (hc : p.isServer = false) (S : Bytes) (hs : p.scid = some S) :
    p.dcid ∈ (stepPkt P s p).st.serverCids ∧ S ∈ (stepPkt P s p).st.clientCids := by
  simp only [stepPkt, afterDecrypt, hi, hl, learnCids, hc, hs, optAdd]
  simp [mem_setAdd_self]

/-- After a server Initial (DCID `D` = a client CID, SCID `S`): `client_cids ∋ D` and `server_cids ∋ S`. -/
theorem cid_learning_server_initial (s : St σ) (p : Pkt) (hl : p.htype = .long) (hi : p.ptype = .initial)
    (hc : p.isServer = true) (S : Bytes) (hs : p.scid = some S) :
    p.dcid ∈ (stepPkt P s p).st.clientCids ∧ S ∈ (stepPkt P s p).st.serverCids := by
  simp only [stepPkt, afterDecrypt, hi, hl, learnCids, hc, hs, optAdd]
  simp [mem_setAdd_self]

/-- `packet_isserver` for every LATER datagram (any number of datagrams of any content in between, Retry included):
    a non-empty DCID that is a learned server CID (and not also a client CID) means "sent by the client"; a learned
    client CID (not also a server CID) means "sent by the server"; a CID both endpoints chose, like an empty DCID,
    decides nothing and the addresses do (repair of the same-CID defect, /repo fix "a connection ID that both
    endpoints chose…"). -/
theorem direction_by_cid (s : St σ) (ds : List Dgram) (D : Bytes) (hne : D ≠ []) (fc : Bool) :
    (D ∈ s.serverCids → D ∉ (run P s ds).1.clientCids → packetIsServer (run P s ds).1 fc D = false) ∧
    (D ∈ s.clientCids → D ∉ (run P s ds).1.serverCids → packetIsServer (run P s ds).1 fc D = true) ∧
    (D ∈ s.clientCids → D ∈ s.serverCids → packetIsServer (run P s ds).1 fc D = !fc) ∧
    (∀ t : St σ, packetIsServer t fc [] = !fc) := by
  have hm := run_cids P s ds
  have hlen : D.length > 0 := by cases D <;> simp_all
  refine ⟨fun h hn => ?_, fun h hn => ?_, fun hc hs => ?_, fun t => ?_⟩
  · simp [packetIsServer, hlen, hm.2 D h, hn]
  · simp [packetIsServer, hlen, hm.1 D h, hn]
  · cases fc <;> simp [packetIsServer, hm.1 D hc, hm.2 D hs]
  · cases fc <;> simp [packetIsServer]

/-- the rule as it was before the repair: a CID in both sets always read as "sent by the client" -/
def Legacy.packetIsServer (s : St σ) (fromClientAddr : Bool) (dcid : Bytes) : Bool :=
  if dcid.length > 0 ∧ dcid ∈ s.serverCids then false
  else if dcid.length > 0 ∧ dcid ∈ s.clientCids then true
  else if fromClientAddr then false
  else true

/-- witness: both endpoints chose the CID `07`; a datagram from the SERVER's address addressed to `07` was attributed
    to the client by the old rule and is attributed to the server now -/
theorem legacy_same_cid_misdirects (s : St σ) (hc : [7] ∈ s.clientCids) (hs : [7] ∈ s.serverCids) :
    Legacy.packetIsServer s false [7] = false ∧ packetIsServer s false [7] = true := by
  simp [Legacy.packetIsServer, packetIsServer, hc, hs]

theorem handleFrames_ncid (s s' : St σ) (p : Pkt) (fs : List Frame.Parsed) (h : handleFrames P s p fs = (s', none))
    (l sq r cl : Nat) (cid tok : Bytes) (hf : Frame.Parsed.newConnectionId l sq r cl cid tok ∈ fs) :
    if p.isServer then cid ∈ s'.serverCids else cid ∈ s'.clientCids := by
  induction fs generalizing s with
  | nil => simp at hf
  | cons f fs ih =>
    unfold handleFrames at h
    split at h
    · simp at h
    · rename_i s1 heq
      rcases List.mem_cons.mp hf with rfl | hin
      · have hm := handleFrames_cids P s1 p fs
        rw [h] at hm
        simp only [handleFrame] at heq
        split at heq
        · have h1 := congrArg Prod.fst heq
          simp only at h1
          subst h1
          rename_i hsrv; simp only [hsrv, if_true]
          exact hm.2 _ (mem_setAdd_self _ _)
        · have h1 := congrArg Prod.fst heq
          simp only at h1
          subst h1
          rename_i hsrv; simp only [hsrv]
          exact hm.1 _ (mem_setAdd_self _ _)
      · exact ih s1 h hin

/-- NEW_CONNECTION_ID: once a packet's frames have been handled, a connection ID it issued is in the SENDER's set,
    so that every later datagram addressed to that (non-empty) CID — after any further traffic — is attributed to
    the peer: frames from the server ⇒ packets to the new CID come from the client, and vice versa. -/
theorem new_connection_id_direction (s s' : St σ) (p : Pkt) (fs : List Frame.Parsed)
    (h : handleFrames P s p fs = (s', none)) (l sq r cl : Nat) (cid tok : Bytes)
    (hf : Frame.Parsed.newConnectionId l sq r cl cid tok ∈ fs) (hne : cid ≠ []) (ds : List Dgram) (fc : Bool) :
    (p.isServer = true → cid ∉ (run P s' ds).1.clientCids → packetIsServer (run P s' ds).1 fc cid = false) ∧
    (p.isServer = false → cid ∉ (run P s' ds).1.serverCids → packetIsServer (run P s' ds).1 fc cid = true) := by
  have hin := handleFrames_ncid P s s' p fs h l sq r cl cid tok hf
  obtain ⟨d1, d2, _⟩ := direction_by_cid P s' ds cid hne fc
  constructor
  · intro hs hn; rw [hs] at hin; exact d1 hin hn
  · intro hs hn; rw [hs] at hin; exact d2 hin hn

/-! ### C02: Retry -/

/-- A Retry packet (never decrypted, no exception) discards the TLS parser state, every decryptor and the key
    dictionary; the next datagram then re-creates the Initial keys from ITS routing DCID — the new DCID the client
    uses after the Retry — under the latched version, and the TLS parser is the fresh one. -/
theorem retry_resets (s : St σ) (p : Pkt) (hp : p.ptype = .retry) (dcid : Bytes) (v : Version) :
    (stepPkt P s p).caught = none ∧ (stepPkt P s p).escaped = none ∧
    (stepPkt P s p).st.tls = P.tlsInit ∧ (stepPkt P s p).st.decInitial = none ∧
    (stepPkt P s p).st.decHandshake = none ∧ (stepPkt P s p).st.decEarly = none ∧
    (stepPkt P s p).st.decApp = none ∧ (stepPkt P s p).st.out = s.out ∧
    (handlePacketPre P (stepPkt P s p).st dcid v).tls = P.tlsInit ∧
    (handlePacketPre P (stepPkt P s p).st dcid v).decInitial =
      (P.devInitialKeys (handlePacketPre P (stepPkt P s p).st dcid v).version dcid).map
        (fun k => { alg := .aesgcm, server := some k.1, client := k.2 }) := by
  have e : (stepPkt P s p).st = retryReset P s ∧ (stepPkt P s p).caught = none ∧ (stepPkt P s p).escaped = none := by
    simp [stepPkt, afterDecrypt, hp]
  obtain ⟨e1, e2, e3⟩ := e
  rw [e1]
  refine ⟨e2, e3, rfl, rfl, rfl, rfl, rfl, rfl, ?_, ?_⟩
  · unfold handlePacketPre setInitialDecryptor latchVersion
    repeat' split
    all_goals rfl
  · unfold handlePacketPre
    have hn : (latchVersion (retryReset P s) v).decInitial = none := by
      unfold latchVersion; split <;> rfl
    simp only [hn, Option.isNone_none, if_true, setInitialDecryptor]
    split <;> (rename_i heq; simp [heq])

/-! ### C02: key epochs follow the sender through any conformant key-update history -/

/-- along the run, the decryptor the model picks for each packet is the sender's generation of that packet
    (`selectDecryptor` returning `.ok` also says: no KeyError, no IndexError on the "Application" list) -/
def Tracks (sel : SuiteSel) (v : Version) (k0 : AppKeys) : St σ → List (Pkt × Nat) → Prop
  | _, [] => True
  | s, (p, g) :: rest =>
    (selectDecryptor P s p).2 = .ok (some (genDec P sel v k0 g)) ∧ Tracks sel v k0 (stepPkt P s p).st rest

/-- the (direction, generation) sequence of a packet list -/
def history (l : List (Pkt × Nat)) : List (Bool × Nat) := l.map fun x => (x.1.isServer, x.2)

/-- the generation each direction has shown at the end -/
def finalGens : Nat → Nat → List (Bool × Nat) → Nat × Nat
  | gc, gs, [] => (gc, gs)
  | gc, gs, (srv, g) :: rest => finalGens (if srv then gc else g) (if srv then g else gs) rest

theorem step_short_rtt1 (s : St σ) (p : Pkt) (ht : p.ptype = .rtt1) :
    (stepPkt P s p).st = (decryptPacket P s p).1 ∧ (stepPkt P s p).caught = (decryptPacket P s p).2 ∧
    (stepPkt P s p).escaped = none := by
  simp [stepPkt, afterDecrypt, ht]

/-- For EVERY conformant 1-RTT history — any number of key updates, initiated by either side, the two directions
    interleaved in any way, whatever the packets contain otherwise (they may even be undecryptable) — the decryptor
    the session selects for each packet is the sender's key generation of that packet, the "Application" list always
    has the entry (no IndexError), and the epoch relation holds again at the end.
    `TlsQuiet`: post-handshake CRYPTO data in 1-RTT packets does not make the TLS parser signal new handshake data
    (otherwise `set_tls_decryptors` would reset the generation list). -/
theorem key_epoch_tracks_sender (sel : SuiteSel) (v : Version) (k0 : AppKeys) (hq : TlsQuiet P .rtt1)
    (l : List (Pkt × Nat))
    (hshape : ∀ x ∈ l, x.1.htype = .short ∧ x.1.ptype = .rtt1 ∧ x.1.keyPhase = some (x.2 % 2))
    (s : St σ) (gc gs : Nat) (hinv : EpochInv P sel v k0 s gc gs) (hflag : P.tlsNewData s.tls = false)
    (hconf : KeyUpdateConformant gc gs (history l)) :
    Tracks P sel v k0 s l ∧ escapes P s (l.map Prod.fst) = none ∧
    EpochInv P sel v k0 (runPkts P s (l.map Prod.fst)) (finalGens gc gs (history l)).1 (finalGens gc gs (history l)).2 := by
  induction l generalizing s gc gs with
  | nil => exact ⟨trivial, rfl, hinv⟩
  | cons x l ih =>
    obtain ⟨p, g⟩ := x
    obtain ⟨hh, ht, hk⟩ := hshape (p, g) (List.mem_cons_self ..)
    simp only [history, List.map_cons, KeyUpdateConformant] at hconf
    obtain ⟨hlo, hhi, hrest⟩ := hconf
    obtain ⟨s', h1, h2, h3⟩ := selectDecryptor_tracks P sel v k0 s gc gs hinv p g hh ht hk hlo hhi
    obtain ⟨e1, _, e3⟩ := step_short_rtt1 P s p ht
    have hflag' : P.tlsNewData s'.tls = false := by obtain ⟨_, _, _, _, _, rfl⟩ := h3; exact hflag
    have hdp : (decryptPacket P s p).1 = (decryptRest P s' p (some (genDec P sel v k0 g))).1 := by
      simp [decryptPacket, h1]
    obtain ⟨s1, f1, f2⟩ := decryptRest_quiet P p (by rw [ht]; exact hq) s' (some (genDec P sel v k0 g)) hflag'
    have hinv' := (h2.of_framePn P f1).of_frameQ P f2
    have hfl' := f2.flag
    rw [← hdp, ← e1] at hinv' hfl'
    obtain ⟨i1, i2, i3⟩ := ih (fun y hy => hshape y (List.mem_cons_of_mem _ hy)) _ _ _ hinv' hfl' hrest
    refine ⟨⟨by rw [h1], i1⟩, ?_, ?_⟩
    · simp only [List.map_cons, escapes, e3]; exact i2
    · simp only [List.map_cons, runPkts, e3, history, finalGens]; exact i3

/-! ### C02: 1-RTT packets are exported exactly -/

/-- the sender's generation-`g` key of each direction is one the AEAD accepts, with an IV of at least 8 bytes
    (RFC 9001: 12) -/
def KeysWf (sel : SuiteSel) (v : Version) (k0 : AppKeys) : Prop :=
  ∀ srv g, AeadOk sel.alg (genDir (P.keyUpdate sel v) k0 srv g).key.length
      (genDir (P.keyUpdate sel v) k0 srv g).iv.length 16 ∧ 8 ≤ (genDir (P.keyUpdate sel v) k0 srv g).iv.length

/-- the refinement relation for the 1-RTT phase: key epochs (`EpochInv`), the largest packet number captured per
    direction in the application space, and a TLS parser with no pending new data -/
structure Rel1 (sel : SuiteSel) (v : Version) (k0 : AppKeys) (s : St σ) (gc gs lc ls : Nat) : Prop where
  inv : EpochInv P sel v k0 s gc gs
  flag : P.tlsNewData s.tls = false
  pc : s.pnClient.app = lc
  ps : s.pnServer.app = ls

/-- what RFC 9000/9001 demand of a sequence of 1-RTT packets in capture order: key generations conformant
    (`KeyUpdateConformant`, inlined), each packet number truncated within the window of the largest number captured
    so far in its direction (any gaps, any of the lengths 1–4 the window allows), frames well-formed -/
def SendOk1 : (gc gs lc ls : Nat) → List SPkt → Prop
  | _, _, _, _, [] => True
  | gc, gs, lc, ls, x :: rest =>
    x.level = .oneRtt ∧ (if x.srv then gs else gc) ≤ x.gen ∧ x.gen ≤ (if x.srv then gs else gc) + 1 ∧
    PnLenOk (if x.srv then ls else lc) x.pn x.pnLen ∧ WellFormedSeq x.frames ∧
    SendOk1 (if x.srv then gc else x.gen) (if x.srv then x.gen else gs)
      (if x.srv then lc else max lc x.pn) (if x.srv then max ls x.pn else ls) rest

/-- the 1-RTT packet as captured: protected with the sender's key of its direction and generation -/
def emit1 (L : SealLaws P.prims) (sel : SuiteSel) (v : Version) (k0 : AppKeys) (x : SPkt) : Pkt :=
  emit L.aeadSeal sel.alg (genDir (P.keyUpdate sel v) k0 x.srv x.gen) x

/-- what has to be in `output_buffer` for one packet: its STREAM and CRYPTO frames in order, each with the capture
    time and direction of the packet -/
def expectedOf (pt : PType) (x : SPkt) : List Out :=
  (exported x.frames).map fun f => ⟨.parsed f.toParsed, x.ts, x.srv, pt⟩

theorem step_one_rtt (L : SealLaws P.prims) (sel : SuiteSel) (v : Version) (k0 : AppKeys)
    (hq : TlsQuiet P .rtt1) (hn : TlsNoRaise P .rtt1) (hk : KeysWf P sel v k0)
    (x : SPkt) (s : St σ) (gc gs lc ls : Nat) (hrel : Rel1 P sel v k0 s gc gs lc ls)
    (hlv : x.level = .oneRtt) (hlo : (if x.srv then gs else gc) ≤ x.gen) (hhi : x.gen ≤ (if x.srv then gs else gc) + 1)
    (hpn : PnLenOk (if x.srv then ls else lc) x.pn x.pnLen) (hwf : WellFormedSeq x.frames) :
    (stepPkt P s (emit1 P L sel v k0 x)).caught = none ∧ (stepPkt P s (emit1 P L sel v k0 x)).escaped = none ∧
    (stepPkt P s (emit1 P L sel v k0 x)).st.out = s.out ++ expectedOf .rtt1 x ∧
    Rel1 P sel v k0 (stepPkt P s (emit1 P L sel v k0 x)).st (if x.srv then gc else x.gen) (if x.srv then x.gen else gs)
      (if x.srv then lc else max lc x.pn) (if x.srv then max ls x.pn else ls) := by
  obtain ⟨hinv, hflag, hpc, hps⟩ := hrel
  generalize hp : emit1 P L sel v k0 x = p
  have hh : p.htype = .short := by subst hp; simp [emit1, emit, hlv]
  have ht : p.ptype = .rtt1 := by subst hp; simp [emit1, emit, hlv]
  have hkp : p.keyPhase = some (x.gen % 2) := by subst hp; simp [emit1, emit, hlv]
  have hsrv : p.isServer = x.srv := by subst hp; simp [emit1, emit, hlv]
  have hts : p.ts = x.ts := by subst hp; simp [emit1, emit, hlv]
  have hpnb : p.pn = some (pnBytes x.pnLen x.pn) := by subst hp; simp [emit1, emit, hlv]
  have hpl : p.payload = some (L.aeadSeal sel.alg (genDir (P.keyUpdate sel v) k0 x.srv x.gen).key
      (nonce (genDir (P.keyUpdate sel v) k0 x.srv x.gen).iv x.pn) (header x) 16 (encodeAll x.frames)) := by
    subst hp; simp [emit1, emit, hlv, protectedPayload]
  have haad : assocData p = .ok (header x) := by subst hp; exact assocData_emit _ _ _ _
  obtain ⟨s', h1, h2, h3⟩ := selectDecryptor_tracks P sel v k0 s gc gs hinv p x.gen hh ht hkp
    (by rw [hsrv]; exact hlo) (by rw [hsrv]; exact hhi)
  obtain ⟨e1, e2, e3⟩ := step_short_rtt1 P s p ht
  have hdp : decryptPacket P s p = decryptRest P s' p (some (genDec P sel v k0 x.gen)) := by
    simp [decryptPacket, h1]
  have hs' : s'.tls = s.tls ∧ s'.pnClient = s.pnClient ∧ s'.pnServer = s.pnServer ∧ s'.out = s.out := by
    obtain ⟨_, _, _, _, _, rfl⟩ := h3; exact ⟨rfl, rfl, rfl, rfl⟩
  obtain ⟨t1, t2, t3, t4⟩ := hs'
  have hdir : (if p.isServer then (genDec P sel v k0 x.gen).server else some (genDec P sel v k0 x.gen).client)
      = some (genDir (P.keyUpdate sel v) k0 x.srv x.gen) := by
    rw [hsrv]; cases x.srv <;> simp [genDec, AppKeys.toDec, genDir]
  have hlarge : pnLargest s' p.isServer .app = (if x.srv then ls else lc) := by
    rw [hsrv]; cases x.srv <;> simp [pnLargest, PnTab.get, t2, t3, hpc, hps]
  have hrest := decryptRest_emitted P L s' p (genDec P sel v k0 x.gen) (genDir (P.keyUpdate sel v) k0 x.srv x.gen)
    .app _ x.pn x.pnLen (header x) x.frames hdir (by rw [ht]; rfl) (by simp [hasPnAttr, hh]) hlarge hpnb hpn haad
    (by rw [hpl]; rfl) hwf (hk x.srv x.gen).1 (hk x.srv x.gen).2
  rw [hdp, hrest] at e1 e2
  generalize hs2 : pnStore s' p.isServer Space.app (max (if x.srv then ls else lc) x.pn) = s2 at e1 e2
  have f2 : FramePn s' s2 := by subst hs2; unfold pnStore; split <;> exact ⟨_, _, rfl⟩
  have hfl2 : P.tlsNewData s2.tls = false := by obtain ⟨_, _, rfl⟩ := f2; rw [t1]; exact hflag
  have hout2 : s2.out = s.out := by obtain ⟨_, _, rfl⟩ := f2; exact t4
  obtain ⟨q1, q2⟩ := handleFrames_quiet P p (by rw [ht]; exact hq) ((normalize x.frames).map QFrame.toParsed) s2 hfl2
  obtain ⟨q3, q4⟩ := q2 (by rw [ht]; exact hn)
  refine ⟨by rw [e2]; exact q3, e3, ?_, ?_⟩
  · rw [e1, q4, hout2, filterMap_export]
    simp [expectedOf, exported_eq, mkOut, hts, hsrv, ht]
  · rw [e1]
    have hinvF := (h2.of_framePn P f2).of_frameQ P q1
    rw [hsrv] at hinvF
    obtain ⟨cc, sc, t, o, heq, hflagF⟩ := q1
    refine ⟨hinvF, by rw [heq]; exact hflagF, ?_, ?_⟩
    · rw [heq]; subst hs2
      rw [hsrv]; cases x.srv <;> simp [pnStore, PnTab.set, t2, hpc]
    · rw [heq]; subst hs2
      rw [hsrv]; cases x.srv <;> simp [pnStore, PnTab.set, t3, hps]

/-- With application keys installed (`Rel1`), for EVERY sequence of 1-RTT packets an RFC-conformant pair of
    endpoints can produce — any key-update history by either side, any interleaving of the directions, packet
    numbers with any gaps truncated to any length the RFC window allows, any well-formed frame lists — no packet
    raises, and the frames appended to `output_buffer` are exactly the senders' STREAM and CRYPTO frames, in capture
    order, each with its packet's timestamp and direction. Composition of the epoch theorem, C16's window theorem,
    the AEAD law and C17's `frames_roundtrip`. -/
theorem one_rtt_exact (L : SealLaws P.prims) (sel : SuiteSel) (v : Version) (k0 : AppKeys)
    (hq : TlsQuiet P .rtt1) (hn : TlsNoRaise P .rtt1) (hk : KeysWf P sel v k0)
    (xs : List SPkt) (s : St σ) (gc gs lc ls : Nat) (hrel : Rel1 P sel v k0 s gc gs lc ls)
    (hok : SendOk1 gc gs lc ls xs) :
    (runPkts P s (xs.map (emit1 P L sel v k0))).out = s.out ++ xs.flatMap (expectedOf .rtt1) ∧
    caughtList P s (xs.map (emit1 P L sel v k0)) = xs.map (fun _ => none) ∧
    escapes P s (xs.map (emit1 P L sel v k0)) = none := by
  induction xs generalizing s gc gs lc ls with
  | nil => simp [runPkts, caughtList, escapes]
  | cons x xs ih =>
    obtain ⟨hlv, hlo, hhi, hpn, hwf, hrest⟩ := hok
    obtain ⟨a1, a2, a3, a4⟩ := step_one_rtt P L sel v k0 hq hn hk x s gc gs lc ls hrel hlv hlo hhi hpn hwf
    obtain ⟨i1, i2, i3⟩ := ih _ _ _ _ _ a4 hrest
    simp only [List.map_cons, runPkts, caughtList, escapes, a1, a2, List.flatMap_cons]
    exact ⟨by rw [i1, a3, List.append_assoc], by rw [i2], i3⟩

/-! ### C02: Initial, Handshake and 0-RTT packets are exported exactly -/

/-- packet-number space of a level (RFC 9000 §12.3: 0-RTT and 1-RTT share the application space) -/
def spaceOf : Level → Space
  | .initial => .initial | .handshake => .handshake | .zeroRtt => .app | .oneRtt => .app

/-- one captured long-header packet: the sender's decisions `x`, the decryptor object `d` that holds the keys of
    its level, and the key `k` of its direction inside `d` -/
structure HPkt where
  x : SPkt
  d : Dec
  k : DirKeys

def emitH (L : SealLaws P.prims) (h : HPkt) : Pkt := emit L.aeadSeal h.d.alg h.k h.x

def bump (t : PnTab) (sp : Space) (pn : Nat) : PnTab := t.set sp (max (t.get sp) pn)

/-- what the RFCs demand of a sequence of Initial / Handshake / 0-RTT packets in capture order, relative to the
    decryptors `want` of the connection: the level's decryptor holds the sender's key of that direction (a 0-RTT
    decryptor has no server key: server-direction 0-RTT does not satisfy this), the key is one the AEAD accepts,
    packet numbers are truncated within the window of the largest number captured in their space and direction,
    frames are well-formed -/
def SendOkH (want : Level → Option Dec) : (tc ts : PnTab) → List HPkt → Prop
  | _, _, [] => True
  | tc, ts, h :: rest =>
    h.x.level ≠ .oneRtt ∧ want h.x.level = some h.d ∧
    (if h.x.srv then h.d.server else some h.d.client) = some h.k ∧
    AeadOk h.d.alg h.k.key.length h.k.iv.length 16 ∧ 8 ≤ h.k.iv.length ∧
    PnLenOk ((if h.x.srv then ts else tc).get (spaceOf h.x.level)) h.x.pn h.x.pnLen ∧ WellFormedSeq h.x.frames ∧
    SendOkH want (if h.x.srv then tc else bump tc (spaceOf h.x.level) h.x.pn)
      (if h.x.srv then bump ts (spaceOf h.x.level) h.x.pn else ts) rest

/-- the refinement relation for the handshake phase -/
structure RelH (v : Version) (want : Level → Option Dec) (s : St σ) (tc ts : PnTab) : Prop where
  lv : LevelInv v want s
  pc : s.pnClient = tc
  ps : s.pnServer = ts

theorem step_level (L : SealLaws P.prims) (v : Version) (sel : SuiteSel) (kg : KeyGroups)
    (want : Level → Option Dec) (hst : TlsStable P v sel kg) (hw : WantOk sel kg want)
    (h : HPkt) (s : St σ) (tc ts : PnTab) (hrel : RelH v want s tc ts)
    (hne : h.x.level ≠ .oneRtt) (hwant : want h.x.level = some h.d)
    (hdir : (if h.x.srv then h.d.server else some h.d.client) = some h.k)
    (hk : AeadOk h.d.alg h.k.key.length h.k.iv.length 16) (hiv : 8 ≤ h.k.iv.length)
    (hpn : PnLenOk ((if h.x.srv then ts else tc).get (spaceOf h.x.level)) h.x.pn h.x.pnLen)
    (hwf : WellFormedSeq h.x.frames) :
    (stepPkt P s (emitH P L h)).caught = none ∧ (stepPkt P s (emitH P L h)).escaped = none ∧
    (stepPkt P s (emitH P L h)).st.out = s.out ++ expectedOf h.x.level.ptype h.x ∧
    RelH v want (stepPkt P s (emitH P L h)).st (if h.x.srv then tc else bump tc (spaceOf h.x.level) h.x.pn)
      (if h.x.srv then bump ts (spaceOf h.x.level) h.x.pn else ts) := by
  obtain ⟨hlv, hpc, hps⟩ := hrel
  obtain ⟨x, d, k⟩ := h
  simp only at hne hwant hdir hk hiv hpn hwf ⊢
  generalize hp : emitH P L ⟨x, d, k⟩ = p
  have hh : p.htype = .long := by subst hp; simp [emitH, emit, hne]
  have ht : p.ptype = x.level.ptype := by subst hp; simp [emitH, emit, hne]
  have hsrv : p.isServer = x.srv := by subst hp; simp [emitH, emit, hne]
  have hts : p.ts = x.ts := by subst hp; simp [emitH, emit, hne]
  have hpnb : p.pn = some (pnBytes x.pnLen x.pn) := by subst hp; simp [emitH, emit, hne]
  have hpl : p.payload = some (L.aeadSeal d.alg k.key (nonce k.iv x.pn) (header x) 16 (encodeAll x.frames)) := by
    subst hp; simp [emitH, emit, hne, protectedPayload]
  have haad : assocData p = .ok (header x) := by subst hp; exact assocData_emit _ _ _ _
  have hsp : p.ptype.space = some (spaceOf x.level) := by
    rw [ht]; cases hl : x.level <;> simp_all [Level.ptype, PType.space, spaceOf]
  have hattr : hasPnAttr p = true := by
    unfold hasPnAttr; rw [hh, ht]; cases hl : x.level <;> simp_all [Level.ptype]
  have hnr : p.ptype ≠ .retry := by rw [ht]; cases hl : x.level <;> simp [Level.ptype]
  have hnv : p.ptype ≠ .versionNeg := by rw [ht]; cases hl : x.level <;> simp [Level.ptype]
  have hsel : selectDecryptor P s p = (s, .ok (some d)) := by
    have hi := hlv.dec x.level d hwant
    simp only [selectDecryptor, hh, ht]
    cases hl : x.level <;> simp_all [Level.ptype, longDecryptor, installedDec]
  have hdp : decryptPacket P s p = decryptRest P s p (some d) := by simp [decryptPacket, hsel]
  have hlarge : pnLargest s p.isServer (spaceOf x.level) = (if x.srv then ts else tc).get (spaceOf x.level) := by
    rw [hsrv]; cases x.srv <;> simp [pnLargest, hpc, hps]
  have hrest := decryptRest_emitted P L s p d k (spaceOf x.level) _ x.pn x.pnLen (header x) x.frames
    (by rw [hsrv]; exact hdir) hsp hattr hlarge hpnb hpn haad hpl hwf hk hiv
  generalize hs2 : pnStore s p.isServer (spaceOf x.level)
    (max ((if x.srv then ts else tc).get (spaceOf x.level)) x.pn) = s2 at hrest
  have hlv2 : LevelInv v want s2 := by
    subst hs2; unfold pnStore; split <;> exact hlv.transfer rfl rfl rfl rfl
  have hout2 : s2.out = s.out := by subst hs2; unfold pnStore; split <;> rfl
  have hpn2 : s2.pnClient = (if x.srv then tc else bump tc (spaceOf x.level) x.pn) ∧
      s2.pnServer = (if x.srv then bump ts (spaceOf x.level) x.pn else ts) := by
    subst hs2; rw [hsrv]; cases x.srv <;> simp [pnStore, bump, hpc, hps]
  obtain ⟨q1, q2, q3⟩ := handleFrames_stable P hst hw p ((normalize x.frames).map QFrame.toParsed) s2 hlv2
  have qf := handleFrames_frame P s2 p ((normalize x.frames).map QFrame.toParsed)
  rw [← hrest, ← hdp] at q1 q2 q3 qf
  generalize hs3 : (decryptPacket P s p).1 = s3 at q2 q3 qf
  have hpn3 : s3.pnClient = s2.pnClient ∧ s3.pnServer = s2.pnServer := by
    obtain ⟨_, _, _, _, _, _, _, _, _, _, _, _, _, rfl⟩ := qf; exact ⟨rfl, rfl⟩
  have hstep : (stepPkt P s p).caught = none ∧ (stepPkt P s p).escaped = none ∧
      ((stepPkt P s p).st = s3 ∨ (stepPkt P s p).st = learnCids s3 p) := by
    simp only [stepPkt, hnr, hnv, ne_eq, not_false_eq_true, and_self, if_true, afterDecrypt, if_false, hs3, q1, hh]
    split <;> simp
  obtain ⟨c1, c2, c3⟩ := hstep
  have hout : ∀ a, (a = s3 ∨ a = learnCids s3 p) → a.out = s3.out ∧ a.pnClient = s3.pnClient ∧
      a.pnServer = s3.pnServer ∧ LevelInv v want a := by
    intro a ha
    rcases ha with rfl | rfl
    · exact ⟨rfl, rfl, rfl, q3⟩
    · unfold learnCids; split <;> exact ⟨rfl, rfl, rfl, q3.transfer rfl rfl rfl rfl⟩
  obtain ⟨o1, o2, o3, o4⟩ := hout _ c3
  refine ⟨c1, c2, ?_, ⟨o4, ?_, ?_⟩⟩
  · rw [o1, q2, hout2, filterMap_export]
    simp [expectedOf, exported_eq, mkOut, hts, hsrv, ht]
  · rw [o2, hpn3.1, hpn2.1]
  · rw [o3, hpn3.2, hpn2.2]

/-- With the decryptors of the levels in use installed (`RelH`: Initial from the first datagram's DCID, Handshake /
    Early from the key log), for EVERY sequence of Initial, Handshake and 0-RTT packets conformant senders can
    produce — any interleaving, packet-number gaps and truncations inside the RFC window per space and direction,
    any well-formed frames — no packet raises and `output_buffer` receives exactly the senders' CRYPTO and STREAM
    frames in capture order with each packet's timestamp, direction and type; Initial packets additionally teach
    the CIDs (`cid_learning_*`). `TlsStable`: the TLS parser does not raise and every (re-)keying it triggers while
    these packets are handled resolves to this connection's suite and key groups, so `set_tls_decryptors`
    re-installs the same Handshake / Early decryptors. -/
theorem handshake_levels_exact (L : SealLaws P.prims) (v : Version) (sel : SuiteSel) (kg : KeyGroups)
    (want : Level → Option Dec) (hst : TlsStable P v sel kg) (hw : WantOk sel kg want)
    (hs : List HPkt) (s : St σ) (tc ts : PnTab) (hrel : RelH v want s tc ts) (hok : SendOkH want tc ts hs) :
    (runPkts P s (hs.map (emitH P L))).out = s.out ++ hs.flatMap (fun h => expectedOf h.x.level.ptype h.x) ∧
    caughtList P s (hs.map (emitH P L)) = hs.map (fun _ => none) ∧
    escapes P s (hs.map (emitH P L)) = none := by
  induction hs generalizing s tc ts with
  | nil => simp [runPkts, caughtList, escapes]
  | cons h hs ih =>
    obtain ⟨hne, hwant, hdir, hk, hiv, hpn, hwf, hrest⟩ := hok
    obtain ⟨a1, a2, a3, a4⟩ := step_level P L v sel kg want hst hw h s tc ts hrel hne hwant hdir hk hiv hpn hwf
    obtain ⟨i1, i2, i3⟩ := ih _ _ _ a4 hrest
    simp only [List.map_cons, runPkts, caughtList, escapes, a1, a2, List.flatMap_cons]
    exact ⟨by rw [i1, a3, List.append_assoc], by rw [i2], i3⟩

/-! ### a quirk the model mirrors (not RFC behaviour) -/

/-- `check_key_epoch` runs BEFORE the AEAD check: a damaged or forged client 1-RTT packet whose key-phase value
    differs from the last one seen advances `epoch_client` for good although it is rejected and exports nothing
    (RFC 9001 §6.3 lets a receiver update its keys only after the packet was successfully unprotected). Every later
    genuine packet of that direction is then tried with the wrong generation. Replayed on the real code by
    `harness/q2b_session.py` (`flipped key phase on corrupted packets`). -/
theorem damaged_key_phase_advances_epoch (hbad : AeadRejectsAll P) (s : St σ) (p : Pkt) (hh : p.htype = .short)
    (ht : p.ptype = .rtt1) (hc : p.isServer = false) (hk : s.lastPhaseClient ≠ p.keyPhase) :
    (stepPkt P s p).st.epochClient = s.epochClient + 1 ∧ (stepPkt P s p).st.lastPhaseClient = p.keyPhase ∧
    (stepPkt P s p).st.out = s.out := by
  obtain ⟨e1, _, _⟩ := step_short_rtt1 P s p ht
  rw [e1]
  have hf : flipEpoch s p.keyPhase false =
      { s with epochClient := s.epochClient + 1, lastPhaseClient := p.keyPhase } := by simp [flipEpoch, hk]
  have hfe : (flipEpoch s p.keyPhase false).epochClient = s.epochClient + 1 ∧
      (flipEpoch s p.keyPhase false).lastPhaseClient = p.keyPhase := by rw [hf]; exact ⟨rfl, rfl⟩
  generalize hsf : flipEpoch s p.keyPhase false = sf at hfe
  obtain ⟨app, hx⟩ := extendGens_decApp_only P sf
  have hsel : ∃ r, selectDecryptor P s p = ((extendGens P sf).1, r) := by
    simp only [selectDecryptor, hh, ht, if_true, checkKeyEpoch, hc, hsf]
    cases hcase : extendGens P sf with
    | mk a e => cases e <;> exact ⟨_, rfl⟩
  obtain ⟨r, hr⟩ := hsel
  have hgoal : (decryptPacket P s p).1.epochClient = sf.epochClient ∧
      (decryptPacket P s p).1.lastPhaseClient = sf.lastPhaseClient := by
    have hX1 : (extendGens P sf).1.epochClient = sf.epochClient := by rw [hx]
    have hX2 : (extendGens P sf).1.lastPhaseClient = sf.lastPhaseClient := by rw [hx]
    unfold decryptPacket
    rw [hr]
    cases r with
    | error e => exact ⟨hX1, hX2⟩
    | ok d? =>
      obtain ⟨s1, f1, f2⟩ := decryptRest_frame P (extendGens P sf).1 p d?
      obtain ⟨_, _, rfl⟩ := f1
      obtain ⟨_, _, _, _, _, _, _, _, _, _, _, _, _, h2⟩ := f2
      exact ⟨by rw [h2]; exact hX1, by rw [h2]; exact hX2⟩
  exact ⟨by rw [hgoal.1, hfe.1], by rw [hgoal.2, hfe.2], decryptPacket_out_rejected P hbad s p⟩

/-! ### non-vacuity: the hypotheses of the theorems above are satisfiable by concrete, non-trivial inputs -/

namespace Ex
open TLX.Quic.SessionToy

def sel : SuiteSel := ⟨.sha256, .aesgcm, 16⟩

def k0 : AppKeys := ⟨dirKeys sel .v1 [3], dirKeys sel .v1 [4], [3], [4]⟩

def kg : KeyGroups :=
  { hs := some (dirKeys sel .v1 [1], dirKeys sel .v1 [2]), app := some k0, early := some (dirKeys sel .v1 [5]) }

/-- toy AEAD + toy derivations, and a TLS parser that reports new data on a `01…` message outside 1-RTT packets,
    never raises, and always names client random `07` / suite 0x1301 -/
def params : Params Bool where
  prims := Toy.prims
  devInitialKeys := SessionToy.devInitialKeys
  devQuicKeys := fun _ _ _ => .ok kg
  keyUpdate := SessionToy.keyUpdate
  tlsInit := false
  tlsUpdate := fun t c => (if c.ptype = .rtt1 then t else match c.data with | 0x01 :: _ => true | _ => t, none)
  tlsClientRandom := fun _ => some [7]
  tlsCiphersuite := fun _ => some [0x13, 0x01]
  tlsNewData := id
  tlsClearNewData := fun _ => false

theorem quiet : TlsQuiet params .rtt1 := by
  intro t c hc ht
  simp [params, hc] at ht ⊢
  exact ht

theorem noRaise : TlsNoRaise params .rtt1 := fun _ _ _ => rfl

theorem stable : TlsStable params .v1 sel kg := by
  refine ⟨fun _ _ => rfl, fun t c cr cs _ h1 h2 => ?_⟩
  simp only [params, Option.some.injEq] at h1 h2
  subst h1 h2
  exact ⟨rfl, rfl⟩

theorem toyBytes_length (tag : Nat) (parts : List Bytes) (n : Nat) : (toyBytes tag parts n).length = n := by
  simp [toyBytes]

theorem keysWf : KeysWf params sel .v1 k0 := by
  intro srv g
  have key : ∀ sec, (dirKeys sel .v1 sec).key.length = 16 ∧ (dirKeys sel .v1 sec).iv.length = 12 :=
    fun sec => ⟨toyBytes_length _ _ _, toyBytes_length _ _ _⟩
  have : (genDir (params.keyUpdate sel .v1) k0 srv g).key.length = 16 ∧
      (genDir (params.keyUpdate sel .v1) k0 srv g).iv.length = 12 := by
    cases g <;> cases srv <;> simp [genDir, genKeys, k0, params, SessionToy.keyUpdate, key]
  rw [this.1, this.2]
  decide

/-- the session right after `set_tls_decryptors` installed generation 0 -/
def s0 : St Bool :=
  { St.init params with version := .v1, suite := some sel, decApp := some [k0.toDec sel.alg] }

theorem rel0 : Rel1 params sel .v1 k0 s0 0 0 0 0 :=
  ⟨⟨rfl, rfl, rfl, rfl, rfl, rfl, rfl⟩, rfl, rfl, rfl⟩

def w1 : VW := ⟨0, by omega⟩

def frames1 : List QFrame := [.ping, .stream true ⟨4, w1⟩ none (some w1) [0x68, 0x69], .padding 3]
def frames2 : List QFrame := [.newConnectionId ⟨1, w1⟩ ⟨0, w1⟩ [0xaa, 0xbb] (List.replicate 16 7),
  .crypto ⟨0, w1⟩ w1 [4, 0, 0, 0], .stream false ⟨0, w1⟩ (some ⟨70000, ⟨2, by omega⟩⟩) none [1, 2, 3]]

/-- client generation 0, server follows an update the client initiates, packet-number gap 0 → 300 on two bytes,
    then the server initiates the next update -/
def history1 : List SPkt :=
  [{ level := .oneRtt, srv := false, ts := 10, pn := 0, pnLen := 1, frames := frames1, dcid := [0x51], gen := 0 },
   { level := .oneRtt, srv := false, ts := 11, pn := 300, pnLen := 2, frames := frames2, dcid := [0x51], gen := 1 },
   { level := .oneRtt, srv := true, ts := 12, pn := 7, pnLen := 4, frames := frames1, dcid := [], gen := 1 },
   { level := .oneRtt, srv := true, ts := 13, pn := 8, pnLen := 1, frames := frames2, dcid := [], gen := 2 }]

theorem wf1 : WellFormedSeq frames1 := by
  simp [frames1, WellFormedSeq, QFrame.wf, QFrame.greedy, optOk, optFits]; decide

theorem wf2 : WellFormedSeq frames2 := by
  simp [frames2, WellFormedSeq, QFrame.wf, QFrame.greedy, optOk, optFits]; decide

theorem sendOk1 : SendOk1 0 0 0 0 history1 := by
  simp only [history1, SendOk1, wf1, wf2, PnLenOk]
  decide

example : (exported frames2).length = 2 ∧ (exported frames1).length = 1 := by decide

-- `one_rtt_exact` applies: 1 + 2 + 1 + 2 = 6 exported frames, in order
example : (runPkts params s0 (history1.map (emit1 params Toy.laws sel .v1 k0))).out.length = 6 := by
  rw [(one_rtt_exact params Toy.laws sel .v1 k0 quiet noRaise keysWf history1 s0 0 0 0 0 rel0 sendOk1).1]
  decide

-- `key_epoch_tracks_sender`: a history with updates by both sides; its hypotheses hold for the emitted packets
example : KeyUpdateConformant 0 0 [(false, 0), (false, 1), (true, 1), (true, 2), (false, 2), (false, 3)] := by
  simp [KeyUpdateConformant]

example : RfcInitiation 0 0 [(false, 0), (false, 1), (true, 1), (true, 2), (false, 2), (false, 3)] := by
  simp [RfcInitiation]

example : EpochInv params sel .v1 k0 s0 0 0 := rel0.inv

-- handshake levels: Initial from the toy Initial derivation, Handshake / Early as `set_tls_decryptors` builds them
def want : Level → Option Dec
  | .initial => (SessionToy.devInitialKeys .v1 [0xd0, 0xd1]).map fun k => { alg := .aesgcm, server := some k.1, client := k.2 }
  | .handshake => some { alg := sel.alg, server := some (dirKeys sel .v1 [1]), client := dirKeys sel .v1 [2] }
  | .zeroRtt => some { alg := sel.alg, server := none, client := dirKeys sel .v1 [5] }
  | .oneRtt => none

theorem wantOk : WantOk sel kg want := by
  refine ⟨fun d a b h1 h2 => ?_, fun d ek h1 h2 => ?_, rfl⟩
  · simp only [want, Option.some.injEq] at h1
    simp only [kg, Option.some.injEq, Prod.mk.injEq] at h2
    rw [← h1, ← h2.1, ← h2.2]
  · simp only [want, Option.some.injEq] at h1
    simp only [kg, Option.some.injEq] at h2
    rw [← h1, ← h2]

def sH : St Bool :=
  { St.init params with version := .v1, decInitial := want .initial, decHandshake := want .handshake,
                        decEarly := want .zeroRtt }

theorem relH : RelH .v1 want sH {} {} := by
  refine ⟨⟨rfl, fun lv d h => ?_⟩, rfl, rfl⟩
  cases lv <;> simp_all [installedDec, sH, want]

/-- client Initial carrying the toy ClientHello (`01…`: the parser reports new data and the session re-keys),
    a 0-RTT packet with stream data, a server Handshake packet -/
def historyH : List HPkt :=
  [{ x := { level := .initial, srv := false, ts := 1, pn := 0, pnLen := 1, dcid := [0xd0, 0xd1], scid := [0xc1],
            frames := [.crypto ⟨0, w1⟩ w1 [1, 0x13, 1, 7], .padding 5] },
     d := { alg := .aesgcm, server := some ⟨toyBytes 11 [[1], [0xd0, 0xd1]] 16, toyBytes 12 [[1], [0xd0, 0xd1]] 12⟩,
            client := ⟨toyBytes 13 [[1], [0xd0, 0xd1]] 16, toyBytes 14 [[1], [0xd0, 0xd1]] 12⟩ },
     k := ⟨toyBytes 13 [[1], [0xd0, 0xd1]] 16, toyBytes 14 [[1], [0xd0, 0xd1]] 12⟩ },
   { x := { level := .zeroRtt, srv := false, ts := 2, pn := 3, pnLen := 2, dcid := [0xd0, 0xd1], scid := [0xc1],
            typeBits := 1, frames := frames1 },
     d := { alg := sel.alg, server := none, client := dirKeys sel .v1 [5] }, k := dirKeys sel .v1 [5] },
   { x := { level := .handshake, srv := true, ts := 3, pn := 1, pnLen := 1, dcid := [0xc1], scid := [0x51],
            typeBits := 2, frames := [.crypto ⟨0, w1⟩ w1 [8, 0, 0, 0]] },
     d := { alg := sel.alg, server := some (dirKeys sel .v1 [1]), client := dirKeys sel .v1 [2] },
     k := dirKeys sel .v1 [1] }]

theorem sendOkH : SendOkH want {} {} historyH := by
  have key : ∀ sec, (dirKeys sel .v1 sec).key.length = 16 ∧ (dirKeys sel .v1 sec).iv.length = 12 :=
    fun sec => ⟨toyBytes_length _ _ _, toyBytes_length _ _ _⟩
  simp only [historyH, SendOkH, wf1, PnLenOk, toyBytes_length, key, sel]
  refine ⟨by decide, rfl, rfl, by decide, by decide, by decide, ?_, by decide, rfl, rfl, by decide, by decide, by decide,
    trivial, by decide, rfl, rfl, by decide, by decide, by decide, ?_, trivial⟩
  · simp [WellFormedSeq, QFrame.wf, QFrame.greedy]; decide
  · simp [WellFormedSeq, QFrame.wf]; decide

example : (runPkts params sH (historyH.map (emitH params Toy.laws))).out.length = 3 := by
  rw [(handshake_levels_exact params Toy.laws .v1 sel kg want stable wantOk historyH sH {} {} relH sendOkH).1]
  decide

-- C03: a datagram of packets the class constructors can build; and the AEAD that rejects everything exists
example : ∀ p ∈ (history1.map (emit1 params Toy.laws sel .v1 k0)), Pkt.classOk p := by
  intro p hp
  simp only [history1, List.map_cons, List.map_nil, List.mem_cons, List.not_mem_nil, or_false] at hp
  rcases hp with rfl | rfl | rfl | rfl <;> simp [Pkt.classOk, emit1, emit]

example : AeadRejectsAll { params with prims := { Toy.prims with aeadOpen := fun _ _ _ _ _ _ => .error .invalidTag } } :=
  fun _ _ _ _ _ _ => ⟨_, rfl⟩

end Ex

/-! ### the pn-store repair: witness on the old code, and what the new code guarantees instead -/

/-- the three statements after the decryption attempt never touch the packet-number tables -/
theorem afterDecrypt_pn (s : St σ) (c : Option PyErr) (p : Pkt) :
    (afterDecrypt P s c p).st.pnClient = s.pnClient ∧ (afterDecrypt P s c p).st.pnServer = s.pnServer := by
  unfold afterDecrypt retryReset learnCids
  repeat' split
  all_goals exact ⟨rfl, rfl⟩

/-- one loop turn of `handle_quic_packet` on ANY packet that is not authenticated (any type, any damage): both
    packet-number tables are what they were. -/
theorem unauthenticated_step_leaves_pn_table (s : St σ) (p : Pkt) (h : ¬ Authenticated P s p) :
    (stepPkt P s p).st.pnClient = s.pnClient ∧ (stepPkt P s p).st.pnServer = s.pnServer := by
  unfold stepPkt
  split
  · obtain ⟨a, b, _⟩ := failed_packet_leaves_pn_table P s p h
    obtain ⟨c, d⟩ := afterDecrypt_pn P (decryptPacket P s p).1 (decryptPacket P s p).2 p
    exact ⟨c.trans a, d.trans b⟩
  · exact afterDecrypt_pn P s none p

theorem runPkts_pn_rejected (hbad : AeadRejectsAll P) (s : St σ) (ps : List Pkt) :
    (runPkts P s ps).pnClient = s.pnClient ∧ (runPkts P s ps).pnServer = s.pnServer := by
  induction ps generalizing s with
  | nil => exact ⟨rfl, rfl⟩
  | cons p ps ih =>
    obtain ⟨a, b⟩ := unauthenticated_step_leaves_pn_table P s p (not_authenticated_of_rejects P hbad s p)
    unfold runPkts
    split
    · exact ⟨a, b⟩
    · obtain ⟨c, d⟩ := ih (stepPkt P s p).st
      exact ⟨c.trans a, d.trans b⟩

theorem handlePacketPre_pn (s : St σ) (dcid : Bytes) (v : Version) :
    (handlePacketPre P s dcid v).pnClient = s.pnClient ∧ (handlePacketPre P s dcid v).pnServer = s.pnServer := by
  unfold handlePacketPre setInitialDecryptor latchVersion
  repeat' split
  all_goals exact ⟨rfl, rfl⟩

/-- `wrong_keys_export_nothing`, strengthened by the repair: if the AEAD accepts nothing, then over any datagram
    sequence not only is nothing exported — the largest-packet-number tables never move either (before the repair every
    rejected packet stored its garbage number). -/
theorem wrong_keys_leave_pn_tables (hbad : AeadRejectsAll P) (s : St σ) (ds : List Dgram) :
    (run P s ds).1.pnClient = s.pnClient ∧ (run P s ds).1.pnServer = s.pnServer := by
  induction ds generalizing s with
  | nil => exact ⟨rfl, rfl⟩
  | cons d ds ih =>
    unfold run
    have h1 : (handlePacket P s d).1.pnClient = s.pnClient ∧ (handlePacket P s d).1.pnServer = s.pnServer := by
      unfold handlePacket
      rw [handleQuicPackets_st]
      obtain ⟨a, b⟩ := runPkts_pn_rejected P hbad (handlePacketPre P s d.dcid d.version)
        (d.pkts.map fun p => { p with isServer := packetIsServer (handlePacketPre P s d.dcid d.version) d.fromClientAddr d.dcid })
      obtain ⟨c, e⟩ := handlePacketPre_pn P s d.dcid d.version
      exact ⟨a.trans c, b.trans e⟩
    split <;> (rename_i heq; rw [heq] at h1)
    · exact h1
    · obtain ⟨c, d⟩ := ih _
      exact ⟨c.trans h1.1, d.trans h1.2⟩

/-- `damaged_key_phase_advances_epoch`, strengthened by the repair: the damaged packet still advances the epoch of its
    direction (that quirk is untouched) but no longer leaves a packet number behind. -/
theorem damaged_packet_leaves_pn_table (hbad : AeadRejectsAll P) (s : St σ) (p : Pkt) :
    (stepPkt P s p).st.pnClient = s.pnClient ∧ (stepPkt P s p).st.pnServer = s.pnServer :=
  unauthenticated_step_leaves_pn_table P s p (not_authenticated_of_rejects P hbad s p)

namespace ExPn
open Ex

/-- a client 1-RTT packet that does not authenticate (damaged, or garbage left by removing header protection with
    wrong keys) and whose four packet-number bytes decode far away from anything sent: 0xfffffff0 -/
def garbage : Pkt :=
  { htype := .short, ptype := .rtt1, isServer := false, ts := 20, firstByte := [0x43], dcid := [0x51],
    pn := some [0xff, 0xff, 0xff, 0xf0], payload := some (List.replicate 24 0xaa), keyPhase := some 0 }

/-- the conformant packet that follows: the client's first 1-RTT packet, number 0 on one byte, one STREAM frame -/
def lateX : SPkt :=
  { level := .oneRtt, srv := false, ts := 21, pn := 0, pnLen := 1, frames := frames1, dcid := [0x51], gen := 0 }

def late : Pkt := emit1 params Toy.laws sel .v1 k0 lateX

theorem late_conformant : SendOk1 0 0 0 0 [lateX] := by
  simp only [lateX, SendOk1, wf1, PnLenOk]
  decide

end ExPn

set_option maxRecDepth 100000 in
/-- Witness against the code BEFORE the repair (`Session.Legacy`, kernel-evaluated over the toy instance): the packet
    that fails authentication stores its far-away number 0xfffffff0 as the largest of the client's application space,
    and the conformant packet that follows — correctly protected, inside the RFC window of everything genuinely sent —
    is then reconstructed next to that garbage, fails the AEAD check and exports nothing. -/
theorem legacy_pn_poisoned :
    (Legacy.decryptPacket Ex.params Ex.s0 ExPn.garbage).2 = some .invalidTag ∧
    (Legacy.decryptPacket Ex.params Ex.s0 ExPn.garbage).1.pnClient.app = 0xfffffff0 ∧
    SendOk1 0 0 0 0 [ExPn.lateX] ∧
    (Legacy.decryptPacket Ex.params (Legacy.decryptPacket Ex.params Ex.s0 ExPn.garbage).1 ExPn.late).2 = some .invalidTag ∧
    (Legacy.decryptPacket Ex.params (Legacy.decryptPacket Ex.params Ex.s0 ExPn.garbage).1 ExPn.late).1.out = [] :=
  ⟨by decide +kernel, by decide +kernel, ExPn.late_conformant, by decide +kernel, by decide +kernel⟩

set_option maxRecDepth 100000 in
/-- The same two packets on the repaired code: the first still fails, the table is untouched
    (`failed_packet_leaves_pn_table`), the second is decrypted and its STREAM frame exported. -/
theorem fixed_pn_not_poisoned :
    (decryptPacket Ex.params Ex.s0 ExPn.garbage).2 = some .invalidTag ∧
    (decryptPacket Ex.params Ex.s0 ExPn.garbage).1.pnClient = Ex.s0.pnClient ∧
    (decryptPacket Ex.params (decryptPacket Ex.params Ex.s0 ExPn.garbage).1 ExPn.late).2 = none ∧
    (decryptPacket Ex.params (decryptPacket Ex.params Ex.s0 ExPn.garbage).1 ExPn.late).1.out = expectedOf .rtt1 ExPn.lateX :=
  ⟨by decide +kernel, by decide +kernel, by decide +kernel, by decide +kernel⟩

end TLX.Props.C02Session
