/-
C01 WITH HYPOTHESES IN RFC TERMS ONLY.

`Props/C01File2.tls12_capture_exact_text` / `tls13_capture_exact_text` still take tool-side facts as hypotheses: what the
tool's suite table resolves the code point to (`hres`, `hargs`), what its key-log lookup returns and hands to the key
schedule (`hfound`, `hsec`), what its key schedule computes (`hgen`, `hk`), which decrypt routine it dispatches to (`hcls`),
and that the keys fit the primitives (`KeyMatOk`) — and the sender is then DEFINED to use those keys.  Here these facts
are DERIVED, and the sender is the RFCs' sender:

  C14  `resolve_sound_complete` + `Lemmas/C01RfcTable.table_rfc_ok` (kernel evaluation over the REGENERATED table): a code
       point the table accepts resolves to what its IANA name (`Spec.Iana`) denotes (`Spec.denote`), and `generate_keys`
       reads exactly that suite (`Spec.RfcSuite.SuiteSpec`: bulk cipher, key length, hash, tag length) from it
  C15  `tls13_installed_eq_rfc`, `installed_eq_schedule`: what `generate_keys` installs = the RFC schedules of
       `Spec.KeySchedules` (HKDF-Expand-Label "key"/"iv" with the suite's hash; the key block of the version's PRF,
       partitioned per RFC 5246 §6.3)
  C09  `C09Found`: the TEXT of the key-log file ⇒ what `find_session_secrets` returns

  `tls13_capture_exact_rfc`   every code point the table accepts whose IANA name denotes an AEAD suite (RFC 8446 B.4);
      sender keys/IVs = RFC 8446 §7.3 from the four traffic secrets (`Spec.RfcSuite.snd13`); the key-log FILE has the four
      NSS lines for the connection's client random (anywhere, any hex case, LF / CRLF, between any other lines)
  `tls12_capture_exact_rfc`   SSL 3.0, TLS 1.0, 1.1, 1.2 and every code point the table accepts, valid for the version
      (`ValidFor`: AEAD and SHA-2-MAC suites in TLS 1.2 only), every cipher class incl. encrypt-then-MAC (RFC 7366);
      sender keys/IVs = the RFC key block of the 48-byte master secret (`Spec.RfcSuite.snd12`); the key-log FILE has the
      `CLIENT_RANDOM <client random> <master secret>` line

No hypothesis mentions `CipherSuite.resolve`'s RESULT, `Pipeline.suiteArgs`, `secretsOf`, `KeySchedule.generateKeys`,
`classOf` or `KeyMatOk`.  What remains about the suite: `CipherSuite.resolve cs ≠ none` (the tool supports the code point —
C14 shows this is membership in its table), and `suiteOfCode cs = some sp` (naming the suite's parameters; it always has a
solution then: `suite_exists`).  What remains about the hashes: `H.Lawful` (output lengths; HKDF-Expand returns the length
asked for) and, for SSL 3.0 only, MD5 = 16 and SHA-1 = 20 bytes (the tool knows ten salts 'A' … 'JJJJJJJJJJ').
What remains about the key log (`OnlySecret`): the file does not hold a DIFFERENT secret under the same label and client
random — the tool takes the last such line for TLS 1.3 and the first for TLS ≤ 1.2, so with two different secrets one of the
two conventions decrypts and the other does not; NSS writes each secret once.
The `RSA <…> <premaster>` variant: an NSS `RSA` line carries the first 8 bytes of the ENCRYPTED premaster secret, not the
client random, so no such line is a secret line of `C09Found` for the connection (`Lemmas.Keylog.rsa_not_nss`); the tool's
`RSA` branch (C15 `installed_eq_schedule_premaster`) is reachable only through a line `RSA <client random> <premaster>`, which
no TLS library writes.  Not stated here.
-/
import TLX.Lemmas.C01Rfc
set_option autoImplicit false
set_option linter.unusedSimpArgs false
set_option linter.unusedVariables false
namespace TLX.Props.C01Rfc
open TLX TLX.MainLoop TLX.OutBytes TLX.Export TLX.Props.C01File TLX.Lemmas.BuildBounds TLX.Props.C01File2
open TLX.Lemmas.Pipeline TLX.Props.C01Pipeline
open TLX.Spec.Demux TLX.Lemmas.MainLoop TLX.Dissect TLX.Spec.FrameBuild TLX.Spec.TlsCapture TLX.Props.C12Dissect
open TLX.Cipher TLX.RecordLayer TLX.Spec.TlsSender TLX.Props.C01 TLX.Spec.TlsConnection
open TLX.Lemmas.Capstone TLX.Spec.TlsFraming TLX.Props.C01Capstone
open TLX.Spec.RfcSuite TLX.Spec.KeySchedules TLX.Lemmas.C01Rfc

/-- a code point the tool's table accepts names a suite (C14: the parameters are what the IANA name denotes) -/
theorem suite_exists (cs : Nat) (h : CipherSuite.resolve cs ≠ none) : ∃ sp, suiteOfCode cs = some sp := by
  obtain ⟨_, sp, _, h2, _, _, _⟩ := resolve_rfc cs h
  exact ⟨sp, h2⟩

/-- a TLS 1.3 code point (0x13xx) the table accepts names an AEAD suite: `hcls` of `tls13_capture_exact_rfc` has a solution -/
theorem suite13_class (cs : Nat) (h : CipherSuite.resolve cs ≠ none) (h13 : cs / 256 = 0x13) (sp : SuiteSpec)
    (hs : suiteOfCode cs = some sp) : ∃ cls, cls13 sp = some cls := by
  obtain ⟨_, sp', _, h2, _, _, h3⟩ := resolve_rfc cs h
  rw [hs] at h2; cases h2
  exact h3 h13

/-- a code point the table accepts, valid for the version (below TLS 1.3), has a record protection: `hcls` of
    `tls12_capture_exact_rfc` has a solution, with and without encrypt-then-MAC -/
theorem suite12_class (cs : Nat) (h : CipherSuite.resolve cs ≠ none) (sp : SuiteSpec) (hs : suiteOfCode cs = some sp)
    (pv : ProtocolVersion) (hv : ValidFor sp pv) (etm : Bool) : ∃ cls, cls12 pv etm sp = some cls := by
  obtain ⟨_, sp', _, h2, hwf, _, _⟩ := resolve_rfc cs h
  rw [hs] at h2; cases h2
  exact cls12_exists pv etm sp hwf hv

theorem exts_wf (sh : Spec.TlsHello.ServerHello) (h : sh.WellFormed) : ∀ e ∈ sh.extensions.getD [], e.ty < 65536 := by
  obtain ⟨_, _, _, _, hx, _⟩ := h
  cases he : sh.extensions with
  | none => intro e h; cases h
  | some es =>
    rw [he] at hx
    intro e hm
    exact (hx.1 e hm).1

/-- **C01, TLS 1.3, from file to file, hypotheses in RFC terms.**  For every code point `cs` the tool's table accepts whose
    IANA name denotes an AEAD suite `sp` (C14), for all four traffic secrets, hash primitives (`H.Lawful`) and cipher
    primitives (`SealLaws`): a sender that encodes its hellos per RFC 8446 §4.1, derives its handshake and application
    traffic keys and IVs per §7.3 with the suite's hash (`snd13`) and protects its records per §5 (`t.records` / `t.stream`),
    captured into a pcap/pcapng file, and a key-log file whose text has the four NSS lines for the connection's client random
    ⇒ the run writes a file that `Exact`ly contains the conversation. -/
theorem tls13_capture_exact_rfc (mask : Quic.Dissect.MaskFn) (H : Crypto.Prims) (hH : H.Lawful) (P : Prims) (L : SealLaws P)
    -- the capture file: bytes written by the independent encoder in ANY container variant, holding the described packets
    (fl : Flow) (hne : clientEp fl ≠ serverEp fl) (evs : List CEv) (hdesc : Described fl evs)
    (hnot1 : ∀ e ∈ evs.map CEv.cap, Ingest.isMinusOne e.t = false)
    (cv : Spec.Containers.Variant) (cevs : List Spec.Containers.Ev) (hcwf : cv.WF cevs)
    (hitems : cevs.filterMap (Spec.Containers.scale cv) = (evs.map CEv.cap).map CapEv.item)
    -- the options: no `-c`, no `-a`; the server port is a server port, the client port is not
    (args : Args) (ls : List (C09Found.FLine × Bool)) (hls : ∀ x ∈ ls, x.1.WF)
    (hnoc : args.checksumTest = false) (hmeta : args.metadata = false)
    (pm : List (Int × Int)) (ports : List Int)
    (hpm : Options.getPortMap Options.Src.bare args.mArg = .ok pm)
    (hports : Options.serverPorts Options.Src.builtin Options.Src.pDefault args.pArg = .ok ports)
    (hsp : ports.contains (fl.serverPort : Int) = true) (hcp : ports.contains (fl.clientPort : Int) = false)
    (p0 : Pkt) (rest : List Pkt) (hfp : flowPkts fl 0 evs = p0 :: rest)
    -- the connection as sent: hellos per RFC 8446 §4.1
    (t : Transcript) (hch : t.ch.WellFormed) (hsh : t.sh.WellFormed) (hrc : t.rvC.length = 2) (hrs : t.rvS.length = 2)
    (hv : t.ver.length = 2) (hcomp : t.sh.compressionMethod = 0) (hneg : Negotiated t.rvS t.sh .tls13)
    -- the negotiated suite: a code point the tool supports; `sp` is what its IANA name denotes; an AEAD suite
    (haccept : CipherSuite.resolve (Bytes.beNat t.sh.cipherSuite) ≠ none)
    (sp : SuiteSpec) (hsuite : suiteOfCode (Bytes.beNat t.sh.cipherSuite) = some sp)
    (cls : CipherClass) (hcls : cls13 sp = some cls)
    -- the four traffic secrets of the connection, and their lines in the key-log file
    (chts shts cats sats : Bytes)
    (hl1 : HasLine ls labelCHTS (Pipeline.natsOfBytes t.ch.random) (Pipeline.natsOfBytes chts))
    (hl2 : HasLine ls labelSHTS (Pipeline.natsOfBytes t.ch.random) (Pipeline.natsOfBytes shts))
    (hl3 : HasLine ls labelCTS0 (Pipeline.natsOfBytes t.ch.random) (Pipeline.natsOfBytes cats))
    (hl4 : HasLine ls labelSTS0 (Pipeline.natsOfBytes t.ch.random) (Pipeline.natsOfBytes sats))
    (ho1 : OnlySecret ls labelCHTS (Pipeline.natsOfBytes t.ch.random) (Pipeline.natsOfBytes chts))
    (ho2 : OnlySecret ls labelSHTS (Pipeline.natsOfBytes t.ch.random) (Pipeline.natsOfBytes shts))
    (ho3 : OnlySecret ls labelCTS0 (Pipeline.natsOfBytes t.ch.random) (Pipeline.natsOfBytes cats))
    (ho4 : OnlySecret ls labelSTS0 (Pipeline.natsOfBytes t.ch.random) (Pipeline.natsOfBytes sats))
    -- what follows the hellos: RFC 8446 records, protected with the keys of §7.3
    (hsc : Script13 t.cEvs) (hss : Script13 t.sEvs)
    (hokc : ∀ e ∈ t.cEvs, EvOk1 cls (sp.hash.suite H).outLen e)
    (hoks : ∀ e ∈ t.sEvs, EvOk1 cls (sp.hash.suite H).outLen e)
    (hwr : ∀ d, ∀ r ∈ t.records P L cls (snd13 H sp chts shts cats sats) d, WholeRecord r)
    (hlen : budget13 t ≤ seqLimit)
    -- the capture of the connection, sender side; causality on the released records as in the connection capstone
    (hwires : WiresInOrder evs (t.stream P L cls (snd13 H sp chts shts cats sats)))
    (hcausal : Causal13 (connRecs (capInfo (evs.map CEv.cap)) (sessionOf (evs.map CEv.cap) (optsOf args ports pm) p0 rest)))
    -- what the write loop needs (each CAN fail on the real tool: see the header of `Props/C01File2`)
    (hcport : fl.clientPort < 65536) (hsport : fl.serverPort < 65536) (hpmv : ∀ kv ∈ pm, kv.2.toNat < 65536)
    (hbytes : (Spec.TlsConnection.plainOf t.cEvs).length + (Spec.TlsConnection.plainOf t.sEvs).length + 1 < 2 ^ 32)
    (hrec : RecordsFit H P (capInfo (evs.map CEv.cap)) (sessionOf (evs.map CEv.cap) (optsOf args ports pm) p0 rest)
      ((fileKeysOf (some (C09Found.fileText ls))).getD []))
    (hus : ∀ e ∈ evs.map CEv.cap, e.us < 2 ^ 64)
    (hothers : ∀ blk, Pipeline.connOut H P (capInfo (evs.map CEv.cap))
        (sessionOf (evs.map CEv.cap) (optsOf args ports pm) p0 rest) ((fileKeysOf (some (C09Found.fileText ls))).getD []) = some blk →
      OthersFit mask H P args (some (C09Found.fileText ls)) (evs.map CEv.cap) blk) :
    ∃ f, exportFile mask H P args cv.isLegacy (some (C09Found.fileText ls)) (Spec.Containers.encode cv cevs) = .file f ∧
      Exact f (sessionOf (evs.map CEv.cap) (optsOf args ports pm) p0 rest)
        (Spec.TlsConnection.plainOf t.cEvs) (Spec.TlsConnection.plainOf t.sEvs) := by
  obtain ⟨ps, sp', hres, hsuite', hwf, hargs, _⟩ := resolve_rfc _ haccept
  rw [hsuite] at hsuite'
  cases hsuite'
  have hlabs := labelOf_13
  obtain ⟨e1, e2, e3, e4, e5, _⟩ := hlabs
  obtain ⟨fk, fks, hfound⟩ := linesFor_ne_nil _ ls _ _ hl1
  have hsec := secretsOf13_lines (Pipeline.natsOfBytes t.ch.random) ls hls
  rw [hfound] at hsec
  have m1 : labelCHTS ∈ Keylog.labels13 := by rw [e5]; simp
  have m2 : labelSHTS ∈ Keylog.labels13 := by rw [e5]; simp
  have m3 : labelCTS0 ∈ Keylog.labels13 := by rw [e5]; simp
  have m4 : labelSTS0 ∈ Keylog.labels13 := by rw [e5]; simp
  have q1 := lastOf_lines _ ls _ m1 chts hl1 ho1
  have q2 := lastOf_lines _ ls _ m2 shts hl2 ho2
  have q3 := lastOf_lines _ ls _ m3 cats hl3 ho3
  have q4 := lastOf_lines _ ls _ m4 sats hl4 ho4
  rw [e1] at q1; rw [e2] at q2; rw [e3] at q3; rw [e4] at q4
  have hkl : sp.keyLen ≤ 32 := keyLen_le sp hwf
  have hnil : ls.filterMap (lineSec (Pipeline.natsOfBytes t.ch.random)) ≠ [] := by
    intro h; rw [h] at q1; cases q1
  have hgen := Props.C15.tls13_installed_eq_rfc H (argsOf sp).ks _ t.ch.random t.sh.random
    (show (argsOf sp).ks.keyLen < 65536 by show sp.keyLen < 65536; omega) hnil chts shts cats sats q1 q2 q3 q4
  simp only [macSuite_argsOf] at hgen
  have hl := hash_lawful H hH sp.hash
  have k1 := tls13_key_lengths _ hl chts sp.keyLen (by omega)
  have k2 := tls13_key_lengths _ hl shts sp.keyLen (by omega)
  have k3 := tls13_key_lengths _ hl cats sp.keyLen (by omega)
  have k4 := tls13_key_lengths _ hl sats sp.keyLen (by omega)
  exact tls13_capture_exact_text mask H P L fl hne evs hdesc hnot1 cv cevs hcwf hitems args ls hls hnoc hmeta pm ports hpm
    hports hsp hcp p0 rest hfp t hch hsh hrc hrs hv hcomp hneg ps hres (argsOf sp) hargs fk fks hfound _ hsec _ hgen
    _ _ _ _ _ _ _ _ ⟨rfl, rfl, rfl, rfl, rfl, rfl, rfl, rfl⟩ cls (classOf_cls13 _ sp cls hcls)
    (keyMatOk13 sp hwf cls hcls _ _ k1.1 k1.2) (keyMatOk13 sp hwf cls hcls _ _ k3.1 k3.2)
    (keyMatOk13 sp hwf cls hcls _ _ k2.1 k2.2) (keyMatOk13 sp hwf cls hcls _ _ k4.1 k4.2)
    hsc hss (by rw [macSuite_argsOf]; exact hokc) (by rw [macSuite_argsOf]; exact hoks) hwr hlen hwires hcausal
    hcport hsport hpmv hbytes hrec hus hothers

/-- **C01, SSL 3.0 – TLS 1.2, from file to file, hypotheses in RFC terms.**  For every protocol version `pv` below TLS 1.3,
    every code point `cs` the tool's table accepts whose suite `sp` (what its IANA name denotes, C14) is valid for the
    version, with or without encrypt-then-MAC (RFC 7366), for every 48-byte master secret, hash primitives (`H.Lawful`) and
    cipher primitives (`SealLaws`): a sender that encodes its hellos per RFC, takes its write keys and IVs from the version's
    key block — RFC 6101 §6.2.2 / RFC 2246 §6.3 / RFC 5246 §6.3 — partitioned into MAC keys, keys and IVs of the suite's
    lengths (`snd12`), and protects its records per RFC (`t.records` / `t.stream`), captured into a pcap/pcapng file, and a
    key-log file whose text has the line `CLIENT_RANDOM <client random> <master secret>`
    ⇒ the run writes a file that `Exact`ly contains the conversation. -/
theorem tls12_capture_exact_rfc (mask : Quic.Dissect.MaskFn) (H : Crypto.Prims) (hH : H.Lawful) (P : Prims) (L : SealLaws P)
    -- the capture file: bytes written by the independent encoder in ANY container variant, holding the described packets
    (fl : Flow) (hne : clientEp fl ≠ serverEp fl) (evs : List CEv) (hdesc : Described fl evs)
    (hnot1 : ∀ e ∈ evs.map CEv.cap, Ingest.isMinusOne e.t = false)
    (cv : Spec.Containers.Variant) (cevs : List Spec.Containers.Ev) (hcwf : cv.WF cevs)
    (hitems : cevs.filterMap (Spec.Containers.scale cv) = (evs.map CEv.cap).map CapEv.item)
    -- the options: no `-c`, no `-a`; the server port is a server port, the client port is not
    (args : Args) (ls : List (C09Found.FLine × Bool)) (hls : ∀ x ∈ ls, x.1.WF)
    (hnoc : args.checksumTest = false) (hmeta : args.metadata = false)
    (pm : List (Int × Int)) (ports : List Int)
    (hpm : Options.getPortMap Options.Src.bare args.mArg = .ok pm)
    (hports : Options.serverPorts Options.Src.builtin Options.Src.pDefault args.pArg = .ok ports)
    (hsp : ports.contains (fl.serverPort : Int) = true) (hcp : ports.contains (fl.clientPort : Int) = false)
    (p0 : Pkt) (rest : List Pkt) (hfp : flowPkts fl 0 evs = p0 :: rest)
    -- the connection as sent: hellos per RFC; the negotiated version
    (t : Transcript) (hch : t.ch.WellFormed) (hsh : t.sh.WellFormed) (hrc : t.rvC.length = 2) (hrs : t.rvS.length = 2)
    (hv : t.ver.length = 2) (hcomp : t.sh.compressionMethod = 0)
    (pv : ProtocolVersion) (hneg : Negotiated t.rvS t.sh (sessVer pv))
    -- SSL 3.0 only: the real digest sizes of MD5 and SHA-1 (the tool knows ten of RFC 6101's salts)
    (hsz : pv = .ssl30 → H.md5.outLen = 16 ∧ H.sha1.outLen = 20)
    -- the negotiated suite: a code point the tool supports; `sp` is what its IANA name denotes; valid for the version
    (haccept : CipherSuite.resolve (Bytes.beNat t.sh.cipherSuite) ≠ none)
    (sp : SuiteSpec) (hsuite : suiteOfCode (Bytes.beNat t.sh.cipherSuite) = some sp) (hvalid : ValidFor sp pv)
    (cls : CipherClass) (hcls : cls12 pv (etmNegotiated t.sh) sp = some cls)
    -- the master secret of the connection, and its line in the key-log file
    (ms : Bytes) (hms : ms.length = 48)
    (hl1 : HasLine ls labelClientRandom (Pipeline.natsOfBytes t.ch.random) (Pipeline.natsOfBytes ms))
    (ho1 : OnlySecret ls labelClientRandom (Pipeline.natsOfBytes t.ch.random) (Pipeline.natsOfBytes ms))
    -- what follows the hellos: clear handshake records, ChangeCipherSpec, records protected with the keys of the key block
    (hsc : Script12 t.cEvs) (hss : Script12 t.sEvs)
    (hokc : ∀ e ∈ t.cEvs, EvOk1 cls (sp.hash.suite H).outLen e)
    (hoks : ∀ e ∈ t.sEvs, EvOk1 cls (sp.hash.suite H).outLen e)
    (hwr : ∀ d, ∀ r ∈ t.records P L cls (snd12 H pv sp ms t.ch.random t.sh.random) d, WholeRecord r)
    (hlen : t.cEvs.length + t.sEvs.length ≤ seqLimit)
    -- the capture of the connection, sender side; causality on the released records as in the connection capstone
    (hwires : WiresInOrder evs (t.stream P L cls (snd12 H pv sp ms t.ch.random t.sh.random)))
    (hcausal : Causal12 (connRecs (capInfo (evs.map CEv.cap)) (sessionOf (evs.map CEv.cap) (optsOf args ports pm) p0 rest)))
    -- what the write loop needs (each CAN fail on the real tool: see the header of `Props/C01File2`)
    (hcport : fl.clientPort < 65536) (hsport : fl.serverPort < 65536) (hpmv : ∀ kv ∈ pm, kv.2.toNat < 65536)
    (hbytes : (Spec.TlsConnection.plainOf t.cEvs).length + (Spec.TlsConnection.plainOf t.sEvs).length + 1 < 2 ^ 32)
    (hrec : RecordsFit H P (capInfo (evs.map CEv.cap)) (sessionOf (evs.map CEv.cap) (optsOf args ports pm) p0 rest)
      ((fileKeysOf (some (C09Found.fileText ls))).getD []))
    (hus : ∀ e ∈ evs.map CEv.cap, e.us < 2 ^ 64)
    (hothers : ∀ blk, Pipeline.connOut H P (capInfo (evs.map CEv.cap))
        (sessionOf (evs.map CEv.cap) (optsOf args ports pm) p0 rest) ((fileKeysOf (some (C09Found.fileText ls))).getD []) = some blk →
      OthersFit mask H P args (some (C09Found.fileText ls)) (evs.map CEv.cap) blk) :
    ∃ f, exportFile mask H P args cv.isLegacy (some (C09Found.fileText ls)) (Spec.Containers.encode cv cevs) = .file f ∧
      Exact f (sessionOf (evs.map CEv.cap) (optsOf args ports pm) p0 rest)
        (Spec.TlsConnection.plainOf t.cEvs) (Spec.TlsConnection.plainOf t.sEvs) := by
  obtain ⟨ps, sp', hres, hsuite', hwf, hargs, _⟩ := resolve_rfc _ haccept
  rw [hsuite] at hsuite'
  cases hsuite'
  obtain ⟨fk, fks, srest, hfound, hsec⟩ := legacy_lines _ ls hls ms hl1 ho1
  -- C15: what `generate_keys` installs is the RFC key block
  have haead : sp.bulk.isAead = true → ksVer pv = .tls12 := by
    intro h; have := hvalid (.inl h); subst this; rfl
  have hkl : sp.keyLen ≤ 32 := keyLen_le sp hwf
  obtain ⟨k, hgen, hkeys⟩ := Props.C15.installed_eq_schedule H hH (ksVer pv) pv (specVersion_ksVer pv) (argsOf sp).ks sp.bulk
    (suiteBulk_argsOf sp) haead (fun _ => rfl) ms t.ch.random t.sh.random srest
    (by intro _; rw [hms])
    (by
      intro h30
      have hpv : pv = .ssl30 := by cases pv <;> simp [ksVer] at h30 ⊢
      obtain ⟨z1, z2⟩ := hsz hpv
      have hnot : ¬ (sp.bulk.isAead = true ∨ sp.hash = .sha256 ∨ sp.hash = .sha384) := by
        intro h; have := hvalid h; rw [hpv] at this; cases this
      rw [macSuite_argsOf, z1]
      have hm : (sp.hash.suite H).outLen ≤ 20 := by
        obtain ⟨b, kl, hs, tg⟩ := sp
        cases hs <;> simp [HashName.suite, z1, z2] at hnot ⊢
      have hi : KeySchedule.ivLenLegacy (argsOf sp).ks.cipher ≤ 16 := by
        generalize (argsOf sp).ks.cipher = c
        cases c <;> simp [KeySchedule.ivLenLegacy]
      show 2 * sp.keyLen + _ + _ ≤ _
      omega)
  rw [rfcParams_argsOf] at hkeys
  obtain ⟨_, _, hck, hsk, hivs⟩ := hkeys
  -- lengths of the RFC's keys and IVs
  obtain ⟨l1, l2, l3, l4⟩ := connectionKeys_lengths H hH pv (secParams H pv sp) (prfHash_lawful H hH _) ms t.ch.random
    t.sh.random
  -- the records of the RFC sender are the records sent with the installed keys
  have hrecs : ∀ d, t.records P L cls (legacySnd k) d = t.records P L cls (snd12 H pv sp ms t.ch.random t.sh.random) d := by
    by_cases h0 : 0 < recordIvLength pv sp.bulk
    · obtain ⟨hi1, hi2⟩ := hivs h0
      intro d
      simp only [legacySnd, snd12, hck, hsk, hi1, hi2]
    · have hfree := ivFree_of_cls12 pv _ sp cls hcls h0
      intro d
      exact records_ivfree P L cls hfree t (legacySnd k) (snd12 H pv sp ms t.ch.random t.sh.random)
        ⟨hck, rfl, rfl⟩ ⟨hsk, rfl, rfl⟩ d
  have hstream : t.stream P L cls (legacySnd k) = t.stream P L cls (snd12 H pv sp ms t.ch.random t.sh.random) := by
    funext d
    simp only [Transcript.stream, hrecs d]
  have hcls' : classOf (argsOf sp).bulk (Pipeline.rlVersion (sessVer pv))
      (Session.extGet ((t.sh.extensions.getD []).map extPair) [0x00, 0x16]).isSome (argsOf sp).tagLen = some cls := by
    rw [etm_extGet _ (exts_wf t.sh hsh)]
    exact classOf_cls12 pv _ sp cls hcls
  rw [← ksVersion_sessVer] at hgen
  exact tls12_capture_exact_text mask H P L fl hne evs hdesc hnot1 cv cevs hcwf hitems args ls hls hnoc hmeta pm ports hpm
    hports hsp hcp p0 rest hfp t hch hsh hrc hrs hv hcomp (sessVer pv) (sessVer_ne13 pv) hneg ps hres (argsOf sp) hargs fk fks
    hfound _ hsec k hgen cls hcls'
    (by rw [macSuite_argsOf]; exact (hash_lawful H hH sp.hash).outLen_pos)
    (keyMatOk12 pv _ sp hwf cls hcls _ _ (by rw [hck]; exact l1) (fun h0 => by rw [(hivs h0).1]; exact l3))
    (keyMatOk12 pv _ sp hwf cls hcls _ _ (by rw [hsk]; exact l2) (fun h0 => by rw [(hivs h0).2]; exact l4))
    hsc hss (by rw [macSuite_argsOf]; exact hokc) (by rw [macSuite_argsOf]; exact hoks)
    (by intro d; rw [hrecs d]; exact hwr d) hlen (by rw [hstream]; exact hwires) hcausal
    hcport hsport hpmv hbytes hrec hus hothers

end TLX.Props.C01Rfc
