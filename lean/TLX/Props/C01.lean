/-
C01 — record-layer part: `Decryptor.decrypt` undoes RFC record protection, record after record, for every cipher
class, every plaintext, every fresh randomness and every history.

Model: `TLX/RecordLayer.lean` (decryptor.py). Independent spec: `TLX/Spec/TlsSender.lean` (RFC protect direction).
Primitives are a parameter `P : Prims` with the law structure `L : SealLaws P` as a hypothesis; `Toy.laws` inhabits it.

Covered (version × class → routine), see `CfgOk`:
  SSL 3.0, TLS 1.0, 1.1, 1.2 × RC4                                  decrypt_generic_stream_cipher
  SSL 3.0, TLS 1.0 × AES / 3DES / Camellia / IDEA-CBC × MtE / EtM   decrypt_last_block_iv_cbc
  TLS 1.1, 1.2     × AES / 3DES / Camellia / IDEA-CBC × MtE / EtM   decrypt_tls12_block_cipher
  every version but 1.3 × AES-GCM / AES-CCM / AES-CCM_8             decrypt_tls12_aead
  TLS 1.2 × ChaCha20-Poly1305                                       decrypt_tls12_chacha20
  TLS 1.3 × AES-GCM / AES-CCM / AES-CCM_8                           decrypt_tls13_aead
  TLS 1.3 × ChaCha20-Poly1305                                       decrypt_tls13_stream_cipher
plus `update_keys` (TLS 1.3 handshake → application epoch, with and without handshake secrets) and `__init__`.

Theorems: `unprotect_protect_<class>` (one record, all seven classes; `unprotect_protect` = all in one),
`updateKeys_switch`, `step_exact`, `stream_exact` (any history), `stream_exact_after_switch` (TLS 1.3 without
handshake secrets), `init_rel_pre13`, `init_rel_13`, `init_rel_13_fallback` (construction establishes the relation),
`classOf_spec` (constructor arguments → class). What is returned in TLS 1.3 is the TLSInnerPlaintext
`content ‖ type ‖ zeros`, not the content (`tls13_returns_inner_plaintext`); `stream_mac0_returns_empty`,
`chacha_before_tls12_raises`, `failed_record_keeps_state` state what happens outside the hypotheses.
Hypotheses that are genuinely needed: sequence numbers below 2^64 (`to_bytes(8)` raises beyond), TLS 1.2 AEAD
plaintext shorter than 2^16 (`to_bytes(2)`), MAC length > 0 for RC4 / CBC (`x[:-0]` is empty), a 2-byte version field.
-/
import TLX.RecordLayer
import TLX.Spec.TlsSender
import TLX.Crypto.Toy
import TLX.Lemmas.RecLayer
set_option linter.unusedSimpArgs false
namespace TLX.Props.C01
open TLX TLX.Cipher TLX.RecordLayer TLX.Spec.TlsSender TLX.Lemmas.RecLayer

/-- Sequence numbers are uint64 and must not wrap (RFC 5246 §6.1, RFC 8446 §5.3); `int(seq).to_bytes(8, 'big')`
    raises OverflowError beyond. -/
def seqLimit : Nat := 256 ^ 8

/-- Static agreement of the Decryptor's construction-time constants with the cipher class in use. These are the
    (version × class) combinations covered; `decrypt` dispatches each to the routine named in the comment. -/
def CfgOk (cls : CipherClass) (macLen : Nat) (cfg : Cfg) : Prop :=
  match cls with
  | .stream =>                 -- SSL 3.0 … TLS 1.2, RC4          → decrypt_generic_stream_cipher
    cfg.bulk = .arc4 ∧ cfg.ctype = .stream ∧ cfg.version ≠ .tls13 ∧ cfg.macLen = macLen ∧ 0 < macLen
  | .cbcImplicit a etm =>      -- SSL 3.0 / TLS 1.0, AES/3DES/Camellia/IDEA → decrypt_last_block_iv_cbc
    cfg.bulk = a ∧ a.isBlock = true ∧ cfg.ctype = .block ∧ (cfg.version = .tls10 ∨ cfg.version = .ssl30) ∧
    cfg.etm = etm ∧ cfg.macLen = macLen ∧ 0 < macLen ∧ cfg.blockLen / 8 = a.blk
  | .cbcExplicit a etm =>      -- TLS 1.1 / 1.2                   → decrypt_tls12_block_cipher
    cfg.bulk = a ∧ a.isBlock = true ∧ cfg.ctype = .block ∧ (cfg.version = .tls12 ∨ cfg.version = .tls11) ∧
    cfg.etm = etm ∧ cfg.macLen = macLen ∧ 0 < macLen
  | .aead12 a tl =>            -- any version but 1.3, GCM/CCM/CCM_8 → decrypt_tls12_aead
    cfg.bulk = a ∧ (a = .aesgcm ∨ a = .aesccm) ∧ cfg.ctype = .aead ∧ cfg.version ≠ .tls13 ∧ cfg.tagLen = tl
  | .chacha12 =>               -- TLS 1.2                         → decrypt_tls12_chacha20
    cfg.bulk = .chachaPoly ∧ cfg.version = .tls12
  | .aead13 a tl =>            -- TLS 1.3 GCM/CCM/CCM_8           → decrypt_tls13_aead
    cfg.bulk = a ∧ (a = .aesgcm ∨ a = .aesccm) ∧ cfg.ctype = .aead ∧ cfg.version = .tls13 ∧ cfg.tagLen = tl ∧
    cfg.has13 = true
  | .chacha13 =>               -- TLS 1.3, anything that is not GCM/CCM → decrypt_tls13_stream_cipher
    cfg.version = .tls13 ∧ cfg.ctype ≠ .aead ∧ cfg.has13 = true

/-- The TLS 1.3 part of the relation that makes the handshake→application switch possible: the receiver holds the
    sender's application traffic key/IV and its `*_handshake_*` attributes are not `None`. -/
def AppRel (a : Alg) (tl : Nat) (sd : SDir) (rd : DirSt) : Prop :=
  rd.appKey = some sd.appKey ∧ rd.appIv = some sd.appIv ∧ rd.hsKey ≠ none ∧ rd.hsIv ≠ none ∧
  AeadOk a sd.appKey.length sd.appIv.length tl ∧ 8 ≤ sd.appIv.length

/-- The refinement relation between one direction of the sender and the same direction of the Decryptor: same
    key epoch (current key and IV), equal sequence numbers (where the receiver uses one), receiver's last block =
    sender's last ciphertext block, equal RC4 keystream positions — plus well-formedness of the sender's key
    material for the class (lengths the primitives accept). -/
def RelDir (cls : CipherClass) (sd : SDir) (rd : DirSt) : Prop :=
  match cls with
  | .stream => rd.rc4 = some (sd.key, sd.off)
  | .cbcImplicit a _ => rd.key = some sd.key ∧ rd.last = some sd.last ∧ CbcOk a sd.key.length sd.last.length
  | .cbcExplicit a _ => rd.key = some sd.key ∧ CbcOk a sd.key.length a.blk
  | .aead12 a tl =>
    rd.key = some sd.key ∧ rd.iv = some sd.iv ∧ rd.seq = sd.seq ∧ AeadOk a sd.key.length (sd.iv.length + 8) tl
  | .chacha12 =>
    rd.key = some sd.key ∧ rd.iv = some sd.iv ∧ rd.seq = sd.seq ∧ AeadOk .chachaPoly sd.key.length sd.iv.length 16
  | .aead13 a tl =>
    rd.key = some sd.key ∧ rd.iv = some sd.iv ∧ rd.seq = sd.seq ∧ AeadOk a sd.key.length sd.iv.length tl ∧
    8 ≤ sd.iv.length ∧ AppRel a tl sd rd
  | .chacha13 =>
    rd.key = some sd.key ∧ rd.iv = some sd.iv ∧ rd.seq = sd.seq ∧ AeadOk .chachaPoly sd.key.length sd.iv.length 16 ∧
    AppRel .chachaPoly 16 sd rd

/-- What the RFCs require of one outgoing record (everything else about `Fresh` is arbitrary). -/
def SendOk (cls : CipherClass) (macLen : Nat) (pt : Bytes) (f : Fresh) : Prop :=
  match cls with
  | .stream => f.mac.length = macLen
  | .cbcImplicit a etm =>
    f.mac.length = macLen ∧ f.padding.length < 256 ∧ ((if etm then pt else pt ++ f.mac) ++ padBlock f).length % a.blk = 0
  | .cbcExplicit a etm =>
    f.mac.length = macLen ∧ f.padding.length < 256 ∧ ((if etm then pt else pt ++ f.mac) ++ padBlock f).length % a.blk = 0 ∧
    f.explicit.length = a.blk
  | .aead12 _ _ => f.explicit.length = 8 ∧ pt.length < 65536
  | .chacha12 => pt.length < 65536
  | .aead13 _ _ => True
  | .chacha13 => True

/-- The sequence number has not reached 2^64 (only the AEAD classes use it on the receiving side). -/
def SeqOk (cls : CipherClass) (sd : SDir) : Prop :=
  match cls with
  | .stream | .cbcImplicit _ _ | .cbcExplicit _ _ => True
  | _ => sd.seq < seqLimit

/-- The statement shape shared by all seven classes: the protected record parses, `decrypt` returns exactly what
    the record layer has to deliver, nothing but this direction's state changes, and the relation is re-established. -/
def Roundtrip (P : Prims) (L : SealLaws P) (cls : CipherClass) (ver : Bytes) (d : Dec) (srv : Bool) (sd : SDir)
    (typ : UInt8) (pt : Bytes) (f : Fresh) : Prop :=
  ∃ r d', Rec.ofRaw (protect P L cls ver sd typ pt f).2 = .ok r ∧
    d.decrypt P r srv = .ok (some (delivered cls typ pt f)) d' ∧
    d'.cfg = d.cfg ∧ d'.get (!srv) = d.get (!srv) ∧
    RelDir cls (protect P L cls ver sd typ pt f).1 (d'.get srv)

/-- RC4 (SSL 3.0 … TLS 1.2): keystream position chaining, MAC stripped. -/
theorem unprotect_protect_stream (P : Prims) (L : SealLaws P) (macLen : Nat) (ver : Bytes) (hv : ver.length = 2)
    (d : Dec) (srv : Bool) (sd : SDir) (typ : UInt8) (pt : Bytes) (f : Fresh)
    (hc : CfgOk .stream macLen d.cfg) (hr : RelDir .stream sd (d.get srv)) (hs : SendOk .stream macLen pt f) :
    Roundtrip P L .stream ver d srv sd typ pt f := by
  obtain ⟨hb, ht, hv13, hm, hm0⟩ := hc
  simp only [RelDir] at hr
  simp only [SendOk] at hs
  unfold Roundtrip
  refine ⟨_, d.set srv { d.get srv with rc4 := some (sd.key, sd.off + (pt ++ f.mac).length) },
    ofRaw_record typ ver _ hv, ?_, ?_, ?_, ?_⟩
  · rw [dispatch_generic_stream P _ srv d ht hv13 (by rw [hb]; decide)]
    simp only [genericStream, hr, protect, L.rc4_invol, L.rc4_len, hm, lift, bind, Except.bind, pure, Except.pure,
      delivered]
    rw [cutEnd_append pt f.mac macLen hs hm0]
  · exact cfg_set _ _ _
  · exact get_set_other _ _ _
  · simp only [RelDir, get_set, protect, L.rc4_len]

/-- CBC with explicit IV (TLS 1.1 / 1.2), MAC-then-encrypt and encrypt-then-MAC (RFC 7366); any padding length and
    content, any MAC bytes, any explicit IV. No receiver state is involved. -/
theorem unprotect_protect_cbcExplicit (P : Prims) (L : SealLaws P) (a : Alg) (etm : Bool) (macLen : Nat)
    (ver : Bytes) (hv : ver.length = 2) (d : Dec) (srv : Bool) (sd : SDir) (typ : UInt8) (pt : Bytes) (f : Fresh)
    (hc : CfgOk (.cbcExplicit a etm) macLen d.cfg) (hr : RelDir (.cbcExplicit a etm) sd (d.get srv))
    (hs : SendOk (.cbcExplicit a etm) macLen pt f) :
    Roundtrip P L (.cbcExplicit a etm) ver d srv sd typ pt f := by
  obtain ⟨hb, hblk, ht, hver, hetm, hm, hm0⟩ := hc
  obtain ⟨hk, hok⟩ := hr
  obtain ⟨hmac, hpad, hal, hex⟩ := hs
  have hcp : d.cfg.bulk ≠ .chachaPoly := by rw [hb]; intro h; rw [h] at hblk; cases hblk
  have hok' : CbcOk a sd.key.length f.explicit.length := by rw [hex]; exact hok
  unfold Roundtrip
  refine ⟨_, d, ofRaw_record typ ver _ hv, ?_, rfl, rfl, ?_⟩
  · rw [dispatch_tls12_block P _ srv d ht hver hcp]
    have hde := L.dec_enc a sd.key f.explicit _ hok' hal
    have hpost := cbc_post (if etm then pt else pt ++ f.mac) f hpad
    cases etm
    · simp only [tls12Block, hb, hblk, hk, hetm, hm, protect, lift, bind, Except.bind, pure, Except.pure, delivered,
        Bool.not_true, Bool.false_eq_true, if_false, Bool.not_false, if_true, ← hex, List.take_left', List.drop_left',
        List.take_left, List.drop_left] at hde hpost ⊢
      rw [hde]
      simp only [hpost.1, hpost.2, cutEnd_append pt f.mac macLen hmac hm0]
    · simp only [tls12Block, hb, hblk, hk, hetm, hm, protect, lift, bind, Except.bind, pure, Except.pure, delivered,
        Bool.not_true, Bool.false_eq_true, if_false, Bool.not_false, if_true, ← hex, List.take_left', List.drop_left',
        List.take_left, List.drop_left] at hde hpost ⊢
      rw [cutEnd_append _ f.mac macLen hmac hm0, hde]
      simp only [hpost.1, hpost.2]
  · simp only [RelDir, protect]
    exact ⟨hk, hok⟩

/-- CBC with implicit IV (SSL 3.0 / TLS 1.0): the receiver's `last_block_*` is the sender's last ciphertext block
    before and after the record; MAC-then-encrypt and encrypt-then-MAC; any padding content (SSL 3.0: arbitrary). -/
theorem unprotect_protect_cbcImplicit (P : Prims) (L : SealLaws P) (a : Alg) (etm : Bool) (macLen : Nat)
    (ver : Bytes) (hv : ver.length = 2) (d : Dec) (srv : Bool) (sd : SDir) (typ : UInt8) (pt : Bytes) (f : Fresh)
    (hc : CfgOk (.cbcImplicit a etm) macLen d.cfg) (hr : RelDir (.cbcImplicit a etm) sd (d.get srv))
    (hs : SendOk (.cbcImplicit a etm) macLen pt f) :
    Roundtrip P L (.cbcImplicit a etm) ver d srv sd typ pt f := by
  obtain ⟨hb, hblk, ht, hver, hetm, hm, hm0, hbl⟩ := hc
  obtain ⟨hk, hl, hok⟩ := hr
  obtain ⟨hmac, hpad, hal⟩ := hs
  have hpos := blk_pos a hblk
  have hne : a.blk ≠ 0 := by omega
  unfold Roundtrip
  let ct := L.cbcEnc a sd.key sd.last ((if etm then pt else pt ++ f.mac) ++ padBlock f)
  refine ⟨_, d.set srv { d.get srv with last := some (ct.drop (ct.length - a.blk)) },
    ofRaw_record typ ver _ hv, ?_, cfg_set _ _ _, get_set_other _ _ _, ?_⟩
  · rw [dispatch_last_block P _ srv d ht hver]
    have hde := L.dec_enc a sd.key sd.last _ hok hal
    have hpost := cbc_post (if etm then pt else pt ++ f.mac) f hpad
    cases etm
    · simp only [lastBlockCbc, hexOf, hb, hk, hl, hetm, hm, hbl, protect, lift, bind, Except.bind, pure, Except.pure,
        delivered, lastN, hne, Bool.not_true, Bool.false_eq_true, if_false, Bool.not_false, if_true, ct]
        at hde hpost ⊢
      rw [hde]
      simp only [hpost.1, hpost.2, cutEnd_append pt f.mac macLen hmac hm0]
    · simp only [lastBlockCbc, hexOf, hb, hk, hl, hetm, hm, hbl, protect, lift, bind, Except.bind, pure, Except.pure,
        delivered, lastN, hne, Bool.not_true, Bool.false_eq_true, if_false, Bool.not_false, if_true, ct]
        at hde hpost ⊢
      rw [cutEnd_append _ f.mac macLen hmac hm0, hde]
      simp only [hpost.1, hpost.2]
  · simp only [RelDir, protect, get_set]
    refine ⟨hk, rfl, hok.1, hok.2.1, hok.2.2.1, ?_⟩
    have hlen : (L.cbcEnc a sd.key sd.last ((if etm then pt else pt ++ f.mac) ++ padBlock f)).length
        = ((if etm then pt else pt ++ f.mac) ++ padBlock f).length := L.enc_len _ _ _ _
    have hge : a.blk ≤ ((if etm then pt else pt ++ f.mac) ++ padBlock f).length := by
      have h1 : 0 < ((if etm then pt else pt ++ f.mac) ++ padBlock f).length := by
        simp only [padBlock, List.length_append, List.length_cons, List.length_nil]; omega
      false_or_by_contra
      rename_i hc
      rw [Nat.mod_eq_of_lt (by omega)] at hal
      omega
    simp only [List.length_drop, ct]
    omega

private theorem toBE_seq (n : Nat) (h : n < seqLimit) : toBE 8 (n : Int) = .ok (u64 n) := toBE_nat 8 n h

/-- TLS 1.2 AEAD with explicit nonce (AES-GCM, AES-CCM, AES-CCM_8): nonce = write IV ‖ explicit part, additional
    data = seq ‖ type ‖ version ‖ plaintext length; the sequence number advances on both sides. -/
theorem unprotect_protect_aead12 (P : Prims) (L : SealLaws P) (a : Alg) (tl : Nat) (macLen : Nat)
    (ver : Bytes) (hv : ver.length = 2) (d : Dec) (srv : Bool) (sd : SDir) (typ : UInt8) (pt : Bytes) (f : Fresh)
    (hc : CfgOk (.aead12 a tl) macLen d.cfg) (hr : RelDir (.aead12 a tl) sd (d.get srv))
    (hs : SendOk (.aead12 a tl) macLen pt f) (hq : SeqOk (.aead12 a tl) sd) :
    Roundtrip P L (.aead12 a tl) ver d srv sd typ pt f := by
  obtain ⟨hb, ha, ht, hver, htl⟩ := hc
  obtain ⟨hk, hiv, hseq, hok⟩ := hr
  obtain ⟨hex, hlen⟩ := hs
  simp only [SeqOk] at hq
  have hcp : d.cfg.bulk ≠ .chachaPoly := by rw [hb]; rcases ha with rfl | rfl <;> decide
  have hok' : AeadOk a sd.key.length (sd.iv ++ f.explicit).length tl := by
    rw [List.length_append, hex]; exact hok
  have hsl := L.seal_len a sd.key (sd.iv ++ f.explicit) (aad12 sd.seq typ ver pt.length) tl pt hok'
  have hop := L.open_seal a sd.key (sd.iv ++ f.explicit) (aad12 sd.seq typ ver pt.length) tl pt hok'
  have h16 : a = .aesgcm → tl = 16 := by
    intro h; have := hok.2.2.2; rw [h] at this; simpa using this
  unfold Roundtrip
  refine ⟨_, bumpSeq d srv, ofRaw_record typ ver _ hv, ?_, cfg_set _ _ _, get_set_other _ _ _, ?_⟩
  · rw [dispatch_tls12_aead P _ srv d ht hver hcp]
    have hcl := toBE_len8 (f.explicit ++ L.aeadSeal a sd.key (sd.iv ++ f.explicit) (aad12 sd.seq typ ver pt.length) tl pt).length
      tl pt.length (by rw [List.length_append, hsl, hex]; omega) hlen
    simp only [tls12Aead, hexOf, hk, hiv, hseq, toBE_seq _ hq, htl, protect, hcl, record_take3 typ ver _ hv, lift, bind,
      Except.bind, pure, Except.pure, delivered, List.take_left' hex, List.drop_left' hex]
    have haad : u64 sd.seq ++ ([typ] ++ ver) ++ u16 pt.length = aad12 sd.seq typ ver pt.length := by
      simp only [aad12, List.append_assoc]
    rw [haad]
    rcases ha with rfl | rfl
    · have := h16 rfl
      subst this
      simp only [aeadByBulk, hb, hop]
    · simp only [aeadByBulk, hb, htl, hop]
  · simp only [RelDir, protect, bumpSeq, get_set]
    exact ⟨hk, hiv, by rw [hseq], hok⟩

/-- TLS 1.2 ChaCha20-Poly1305 (RFC 7905): nonce = write IV XOR left-padded sequence number, no explicit part. -/
theorem unprotect_protect_chacha12 (P : Prims) (L : SealLaws P) (macLen : Nat)
    (ver : Bytes) (hv : ver.length = 2) (d : Dec) (srv : Bool) (sd : SDir) (typ : UInt8) (pt : Bytes) (f : Fresh)
    (hc : CfgOk .chacha12 macLen d.cfg) (hr : RelDir .chacha12 sd (d.get srv))
    (hs : SendOk .chacha12 macLen pt f) (hq : SeqOk .chacha12 sd) :
    Roundtrip P L .chacha12 ver d srv sd typ pt f := by
  obtain ⟨hb, hver⟩ := hc
  obtain ⟨hk, hiv, hseq, hok⟩ := hr
  simp only [SendOk] at hs
  simp only [SeqOk] at hq
  have h12 := chacha_iv12 hok
  have hnl : (nonceXor sd.iv sd.seq).length = sd.iv.length := nonceXor_length _ _ (by omega)
  have hok' : AeadOk .chachaPoly sd.key.length (nonceXor sd.iv sd.seq).length 16 := by rw [hnl]; exact hok
  have hsl := L.seal_len .chachaPoly sd.key (nonceXor sd.iv sd.seq) (aad12 sd.seq typ ver pt.length) 16 pt hok'
  have hop := L.open_seal .chachaPoly sd.key (nonceXor sd.iv sd.seq) (aad12 sd.seq typ ver pt.length) 16 pt hok'
  unfold Roundtrip
  refine ⟨_, bumpSeq d srv, ofRaw_record typ ver _ hv, ?_, cfg_set _ _ _, get_set_other _ _ _, ?_⟩
  · rw [dispatch_tls12_chacha P _ srv d hver hb]
    have hcl := toBE_len16 (L.aeadSeal .chachaPoly sd.key (nonceXor sd.iv sd.seq) (aad12 sd.seq typ ver pt.length) 16 pt).length
      pt.length hsl hs
    have hbx : byteXor sd.iv (u64 sd.seq) = .ok (nonceXor sd.iv sd.seq) := byteXor_nonce _ _ (by omega)
    simp only [tls12Chacha, hexOf, hk, hiv, hseq, toBE_seq _ hq, protect, hcl, hbx, lift, bind,
      Except.bind, pure, Except.pure, delivered]
    have haad : u64 sd.seq ++ [typ] ++ ver ++ u16 pt.length = aad12 sd.seq typ ver pt.length := rfl
    rw [haad, hop]
  · simp only [RelDir, protect, bumpSeq, get_set]
    exact ⟨hk, hiv, by rw [hseq], hok⟩

private theorem appRel_bump {a : Alg} {tl : Nat} {sd : SDir} {rd : DirSt} (h : AppRel a tl sd rd) :
    AppRel a tl { sd with seq := sd.seq + 1 } { rd with seq := rd.seq + 1 } := h

/-- TLS 1.3 AES-GCM / AES-CCM / AES-CCM_8: nonce = IV XOR left-padded sequence number, additional data = the record
    header. `decrypt` returns the TLSInnerPlaintext `content ‖ type ‖ zeros` UNSTRIPPED (removing the padding and the
    type byte is Session's job). -/
theorem unprotect_protect_aead13 (P : Prims) (L : SealLaws P) (a : Alg) (tl : Nat) (macLen : Nat)
    (ver : Bytes) (d : Dec) (srv : Bool) (sd : SDir) (typ : UInt8) (pt : Bytes) (f : Fresh)
    (hc : CfgOk (.aead13 a tl) macLen d.cfg) (hr : RelDir (.aead13 a tl) sd (d.get srv))
    (hq : SeqOk (.aead13 a tl) sd) :
    Roundtrip P L (.aead13 a tl) ver d srv sd typ pt f := by
  obtain ⟨hb, ha, ht, hver, htl, -⟩ := hc
  obtain ⟨hk, hiv, hseq, hok, h8, happ⟩ := hr
  simp only [SeqOk] at hq
  have hnl : (nonceXor sd.iv sd.seq).length = sd.iv.length := nonceXor_length _ _ h8
  have hok' : AeadOk a sd.key.length (nonceXor sd.iv sd.seq).length tl := by rw [hnl]; exact hok
  have hop := L.open_seal a sd.key (nonceXor sd.iv sd.seq) (hdr13 ((inner13 typ pt f).length + tl)) tl
    (inner13 typ pt f) hok'
  have h16 : a = .aesgcm → tl = 16 := by
    intro h; have := hok.2.2.2; rw [h] at this; simpa using this
  unfold Roundtrip
  refine ⟨_, bumpSeq d srv, ofRaw_hdr13 _ _, ?_, cfg_set _ _ _, get_set_other _ _ _, ?_⟩
  · rw [dispatch_tls13_aead P _ srv d ht hver]
    have hbx : byteXor sd.iv (u64 sd.seq) = .ok (nonceXor sd.iv sd.seq) := byteXor_nonce _ _ h8
    have haad : [(23 : UInt8)] ++ [3, 3] ++ u16 ((inner13 typ pt f).length + tl)
        = hdr13 ((inner13 typ pt f).length + tl) := rfl
    simp only [tls13Aead, hexOf, hk, hiv, hseq, toBE_seq _ hq, protect, hbx, haad, lift, bind,
      Except.bind, pure, Except.pure, delivered]
    rcases ha with rfl | rfl
    · have := h16 rfl
      subst this
      simp only [aeadByBulk, hb, hop]
    · simp only [aeadByBulk, hb, htl, hop]
  · simp only [RelDir, protect, bumpSeq, get_set]
    exact ⟨hk, hiv, by rw [hseq], hok, h8, appRel_bump happ⟩

/-- TLS 1.3 ChaCha20-Poly1305 (`decrypt_tls13_stream_cipher`); returns the unstripped TLSInnerPlaintext. -/
theorem unprotect_protect_chacha13 (P : Prims) (L : SealLaws P) (macLen : Nat)
    (ver : Bytes) (d : Dec) (srv : Bool) (sd : SDir) (typ : UInt8) (pt : Bytes) (f : Fresh)
    (hc : CfgOk .chacha13 macLen d.cfg) (hr : RelDir .chacha13 sd (d.get srv))
    (hq : SeqOk .chacha13 sd) :
    Roundtrip P L .chacha13 ver d srv sd typ pt f := by
  obtain ⟨hver, ht, -⟩ := hc
  obtain ⟨hk, hiv, hseq, hok, happ⟩ := hr
  simp only [SeqOk] at hq
  have h12 := chacha_iv12 hok
  have hnl : (nonceXor sd.iv sd.seq).length = sd.iv.length := nonceXor_length _ _ (by omega)
  have hok' : AeadOk .chachaPoly sd.key.length (nonceXor sd.iv sd.seq).length 16 := by rw [hnl]; exact hok
  have hop := L.open_seal .chachaPoly sd.key (nonceXor sd.iv sd.seq) (hdr13 ((inner13 typ pt f).length + 16)) 16
    (inner13 typ pt f) hok'
  unfold Roundtrip
  refine ⟨_, bumpSeq d srv, ofRaw_hdr13 _ _, ?_, cfg_set _ _ _, get_set_other _ _ _, ?_⟩
  · rw [dispatch_tls13_stream P _ srv d ht hver]
    have hbx : byteXor sd.iv (u64 sd.seq) = .ok (nonceXor sd.iv sd.seq) := byteXor_nonce _ _ (by omega)
    have haad : [(23 : UInt8)] ++ [3, 3] ++ u16 ((inner13 typ pt f).length + 16)
        = hdr13 ((inner13 typ pt f).length + 16) := rfl
    simp only [tls13Stream, hexOf, hk, hiv, hseq, toBE_seq _ hq, protect, hbx, haad, hop, lift, bind,
      Except.bind, pure, Except.pure, delivered]
  · simp only [RelDir, protect, bumpSeq, get_set]
    exact ⟨hk, hiv, by rw [hseq], hok, appRel_bump happ⟩

/-- All seven classes in one statement. -/
theorem unprotect_protect (P : Prims) (L : SealLaws P) (cls : CipherClass) (macLen : Nat)
    (ver : Bytes) (hv : ver.length = 2) (d : Dec) (srv : Bool) (sd : SDir) (typ : UInt8) (pt : Bytes) (f : Fresh)
    (hc : CfgOk cls macLen d.cfg) (hr : RelDir cls sd (d.get srv)) (hs : SendOk cls macLen pt f) (hq : SeqOk cls sd) :
    Roundtrip P L cls ver d srv sd typ pt f := by
  cases cls with
  | stream => exact unprotect_protect_stream P L macLen ver hv d srv sd typ pt f hc hr hs
  | cbcImplicit a etm => exact unprotect_protect_cbcImplicit P L a etm macLen ver hv d srv sd typ pt f hc hr hs
  | cbcExplicit a etm => exact unprotect_protect_cbcExplicit P L a etm macLen ver hv d srv sd typ pt f hc hr hs
  | aead12 a tl => exact unprotect_protect_aead12 P L a tl macLen ver hv d srv sd typ pt f hc hr hs hq
  | chacha12 => exact unprotect_protect_chacha12 P L macLen ver hv d srv sd typ pt f hc hr hs hq
  | aead13 a tl => exact unprotect_protect_aead13 P L a tl macLen ver d srv sd typ pt f hc hr hq
  | chacha13 => exact unprotect_protect_chacha13 P L macLen ver d srv sd typ pt f hc hr hq

-- ------------------------------------------------------------------ TLS 1.3 handshake → application switch
/-- The application-epoch part of the relation, per class (`True` outside TLS 1.3). -/
def AppRelOf (cls : CipherClass) (sd : SDir) (rd : DirSt) : Prop :=
  match cls with
  | .aead13 a tl => AppRel a tl sd rd
  | .chacha13 => AppRel .chachaPoly 16 sd rd
  | _ => True

/-- `update_keys(isserver)` when the sender of that direction moves to its application traffic keys: it succeeds,
    touches only that direction, installs the application key/IV and resets the sequence number — so the relation
    holds afterwards WHATEVER the handshake-epoch state was (in particular when the key log had no handshake secrets
    and `parse_keys` fell back to the application keys, and when handshake records could not be decrypted). -/
theorem updateKeys_switch (cls : CipherClass) (h13 : cls.is13 = true) (macLen : Nat) (d : Dec) (srv : Bool)
    (sd : SDir) (hc : CfgOk cls macLen d.cfg) (happ : AppRelOf cls sd (d.get srv)) :
    ∃ d', d.updateKeys srv = .ok () d' ∧ d'.cfg = d.cfg ∧ d'.get (!srv) = d.get (!srv) ∧
      RelDir cls (switchToApp sd) (d'.get srv) := by
  cases cls with
  | aead13 a tl =>
    obtain ⟨-, -, -, -, -, h13c⟩ := hc
    obtain ⟨hak, haiv, hhk, hhiv, hok, h8⟩ := happ
    obtain ⟨hk, hhk'⟩ := Option.ne_none_iff_exists'.mp hhk
    obtain ⟨hi, hhiv'⟩ := Option.ne_none_iff_exists'.mp hhiv
    refine ⟨d.set srv { d.get srv with key := some sd.appKey, iv := some sd.appIv, seq := 0 }, ?_, cfg_set _ _ _,
      get_set_other _ _ _, ?_⟩
    · simp only [Dec.updateKeys, h13c, hhk', hhiv', hak, haiv, Bool.not_true, Bool.false_eq_true, if_false]
    · simp only [RelDir, switchToApp, get_set, true_and]
      exact ⟨hok, h8, hak, haiv, hhk, hhiv, hok, h8⟩
  | chacha13 =>
    obtain ⟨-, -, h13c⟩ := hc
    obtain ⟨hak, haiv, hhk, hhiv, hok, h8⟩ := happ
    obtain ⟨hk, hhk'⟩ := Option.ne_none_iff_exists'.mp hhk
    obtain ⟨hi, hhiv'⟩ := Option.ne_none_iff_exists'.mp hhiv
    refine ⟨d.set srv { d.get srv with key := some sd.appKey, iv := some sd.appIv, seq := 0 }, ?_, cfg_set _ _ _,
      get_set_other _ _ _, ?_⟩
    · simp only [Dec.updateKeys, h13c, hhk', hhiv', hak, haiv, Bool.not_true, Bool.false_eq_true, if_false]
    · simp only [RelDir, switchToApp, get_set, true_and]
      exact ⟨hok, hak, haiv, hhk, hhiv, hok, h8⟩
  | stream => cases h13
  | cbcImplicit _ _ => cases h13
  | cbcExplicit _ _ => cases h13
  | aead12 _ _ => cases h13
  | chacha12 => cases h13

theorem relDir_appRel (cls : CipherClass) (sd : SDir) (rd : DirSt) (h : RelDir cls sd rd) : AppRelOf cls sd rd := by
  cases cls <;> simp only [AppRelOf]
  · exact h.2.2.2.2.2
  · exact h.2.2.2.2

-- ------------------------------------------------------------------ whole histories
/-- What the receiving side observes for one wire item. -/
inductive Out
  | data (pt : Option Bytes)      -- the value `decrypt` returned (`none` = Python `None`)
  | switched                      -- `update_keys` returned
  | failed (e : PyErr)            -- `TlsRecord(...)`, `decrypt` or `update_keys` raised
  deriving DecidableEq, Repr

/-- One wire item through the real call sequence: `TlsRecord(raw)`, `decrypt(record, isserver)` — or
    `update_keys(isserver)` when the peer switches epoch. -/
def recvStep (P : Prims) (d : Dec) : Wire → Dec × Out
  | .record srv raw =>
    match Rec.ofRaw raw with
    | .error e => (d, .failed e)
    | .ok r =>
      match d.decrypt P r srv with
      | .ok x d' => (d', .data x)
      | .err e d' => (d', .failed e)
  | .switch srv =>
    match d.updateKeys srv with
    | .ok _ d' => (d', .switched)
    | .err e d' => (d', .failed e)

def recvAll (P : Prims) : Dec → List Wire → List Out
  | _, [] => []
  | d, w :: ws =>
    let o := recvStep P d w
    o.2 :: recvAll P o.1 ws

/-- What the record layer has to deliver for an event of the sender. -/
def expected (cls : CipherClass) : Ev → Out
  | .send _ typ pt f => .data (some (delivered cls typ pt f))
  | .switch _ => .switched

/-- Events the sender may produce: RFC-conformant records; epoch switches only in TLS 1.3. -/
def EvOk (cls : CipherClass) (macLen : Nat) : Ev → Prop
  | .send _ _ pt f => SendOk cls macLen pt f
  | .switch _ => cls.is13 = true

/-- The refinement relation between the two-directional sender state and the Decryptor. -/
def Rel (cls : CipherClass) (macLen : Nat) (x : Snd) (d : Dec) : Prop :=
  CfgOk cls macLen d.cfg ∧ ∀ srv, RelDir cls (x.get srv) (d.get srv)

private theorem seqOk_of_lt (cls : CipherClass) (sd : SDir) (h : sd.seq < seqLimit) : SeqOk cls sd := by
  cases cls <;> simp only [SeqOk] <;> exact h

/-- One event: the receiver observes exactly what the sender meant, and the relation is re-established. -/
theorem step_exact (P : Prims) (L : SealLaws P) (cls : CipherClass) (macLen : Nat) (ver : Bytes) (hv : ver.length = 2)
    (x : Snd) (d : Dec) (hR : Rel cls macLen x d) (e : Ev) (he : EvOk cls macLen e)
    (hq : x.c.seq < seqLimit ∧ x.s.seq < seqLimit) :
    (recvStep P d (step P L cls ver x e).2).2 = expected cls e ∧
    Rel cls macLen (step P L cls ver x e).1 (recvStep P d (step P L cls ver x e).2).1 ∧
    (step P L cls ver x e).1.c.seq ≤ max x.c.seq x.s.seq + 1 ∧
    (step P L cls ver x e).1.s.seq ≤ max x.c.seq x.s.seq + 1 := by
  obtain ⟨hc, hr⟩ := hR
  cases e with
  | send srv typ pt f =>
    have hlt : (x.get srv).seq < seqLimit := by cases srv <;> simp [Snd.get, hq.1, hq.2]
    obtain ⟨r, d', h1, h2, h3, h4, h5⟩ :=
      unprotect_protect P L cls macLen ver hv d srv (x.get srv) typ pt f hc (hr srv) he (seqOk_of_lt _ _ hlt)
    have hseq := protect_seq P L cls ver (x.get srv) typ pt f
    have hle : (x.get srv).seq ≤ max x.c.seq x.s.seq := by cases srv <;> simp [Snd.get] <;> omega
    refine ⟨?_, ⟨?_, ?_⟩, ?_⟩
    · simp only [step, recvStep, h1, h2, expected]
    · simp only [step, recvStep, h1, h2, h3]; exact hc
    · intro b
      simp only [step, recvStep, h1, h2]
      rcases bool_cases srv b with rfl | rfl
      · rw [sget_set]; exact h5
      · rw [sget_set_other, h4]; exact hr _
    · simp only [step]
      exact snd_seq_set x srv _ _ (by omega) (by omega) (by omega)
  | switch srv =>
    obtain ⟨d', h1, h3, h4, h5⟩ :=
      updateKeys_switch cls he macLen d srv (x.get srv) hc (relDir_appRel _ _ _ (hr srv))
    refine ⟨?_, ⟨?_, ?_⟩, ?_⟩
    · simp only [step, recvStep, h1, expected]
    · simp only [step, recvStep, h1, h3]; exact hc
    · intro b
      simp only [step, recvStep, h1]
      rcases bool_cases srv b with rfl | rfl
      · rw [sget_set]; exact h5
      · rw [sget_set_other, h4]; exact hr _
    · simp only [step]
      exact snd_seq_set x srv _ _ (by simp [switchToApp]) (by omega) (by omega)

/-- C01 at the record layer: for ANY history of records in any direction order (and, in TLS 1.3, epoch switches at
    any points), of any length below the 2^64 sequence-number limit, the sequence of values the Decryptor returns is
    exactly the sequence the sender protected — nothing lost, added, duplicated, reordered or left encrypted. -/
theorem stream_exact (P : Prims) (L : SealLaws P) (cls : CipherClass) (macLen : Nat) (ver : Bytes) (hv : ver.length = 2)
    (evs : List Ev) (x : Snd) (d : Dec) (hR : Rel cls macLen x d) (hev : ∀ e ∈ evs, EvOk cls macLen e)
    (hq : max x.c.seq x.s.seq + evs.length ≤ seqLimit) :
    recvAll P d (run P L cls ver x evs) = evs.map (expected cls) := by
  induction evs generalizing x d with
  | nil => rfl
  | cons e es ih =>
    simp only [List.length_cons] at hq
    have hq' : x.c.seq < seqLimit ∧ x.s.seq < seqLimit := by omega
    obtain ⟨h1, h2, h3, h4⟩ := step_exact P L cls macLen ver hv x d hR e (hev e (List.mem_cons_self ..)) hq'
    simp only [run, recvAll, List.map_cons, h1]
    rw [ih _ _ h2 (fun e' he' => hev e' (List.mem_cons_of_mem _ he')) (by omega)]

-- ------------------------------------------------------------------ construction establishes the relation
/-- The constructor arguments Session passes for a cipher class. -/
def bulkOf : CipherClass → Alg
  | .stream => .arc4
  | .cbcImplicit a _ | .cbcExplicit a _ | .aead12 a _ | .aead13 a _ => a
  | .chacha12 | .chacha13 => .chachaPoly

def etmOf : CipherClass → Bool
  | .cbcImplicit _ e | .cbcExplicit _ e => e
  | _ => false

def tagOf : CipherClass → Nat
  | .aead12 _ t | .aead13 _ t => t
  | _ => 16

/-- The two remaining constructor arguments as far as the class constrains them: the encrypt-then-MAC flag (extension
    0x0016 seen) for the CBC classes, the tag length (`None` ⇒ 16) for the AES AEAD classes. -/
def ParamOk : CipherClass → Option Nat → Bool → Prop
  | .cbcImplicit _ e, _, etm => etm = e
  | .cbcExplicit _ e, _, etm => etm = e
  | .aead12 _ tl, tagLen, _ => tagLen.getD 16 = tl
  | .aead13 _ tl, tagLen, _ => tagLen.getD 16 = tl
  | _, _, _ => True

/-- Protocol versions a class is used with (what `decrypt` dispatches on). -/
def VersionOk : CipherClass → Version → Prop
  | .stream, v => v = .ssl30 ∨ v = .tls10 ∨ v = .tls11 ∨ v = .tls12
  | .cbcImplicit _ _, v => v = .ssl30 ∨ v = .tls10
  | .cbcExplicit _ _, v => v = .tls11 ∨ v = .tls12
  | .aead12 _ _, v => v ≠ .tls13
  | .chacha12, v => v = .tls12
  | .aead13 _ _, v => v = .tls13
  | .chacha13, v => v = .tls13

/-- `block_length` (bits) is only read by the implicit-IV CBC routine: `int(self.block_length / 8)`. -/
def BlockLenOk : CipherClass → Nat → Prop
  | .cbcImplicit a _, n => n / 8 = a.blk
  | _, _ => True

/-- Key material of one direction as the key schedule has to deliver it for the class (C15's obligation). -/
def KeyMatOk : CipherClass → Bytes → Bytes → Prop
  | .stream, k, _ => Alg.arc4.keyOk k.length = true
  | .cbcImplicit a _, k, iv => CbcOk a k.length iv.length
  | .cbcExplicit a _, k, _ => CbcOk a k.length a.blk
  | .aead12 a tl, k, iv => (a = .aesgcm ∨ a = .aesccm) ∧ AeadOk a k.length (iv.length + 8) tl
  | .chacha12, k, iv => AeadOk .chachaPoly k.length iv.length 16
  | .aead13 a tl, k, iv => (a = .aesgcm ∨ a = .aesccm) ∧ AeadOk a k.length iv.length tl ∧ 8 ≤ iv.length
  | .chacha13, k, iv => AeadOk .chachaPoly k.length iv.length 16 ∧ 8 ≤ iv.length

/-- `__init__` for SSL 3.0 – TLS 1.2 written out: configuration and one direction. -/
def initCfg (bulk : Alg) (v : Version) (macLen : Nat) (tagLen : Option Nat) (blockLen : Nat) (etm : Bool) : Cfg :=
  { version := v, bulk := bulk, ctype := cipherType bulk, macLen := macLen, tagLen := tagLen.getD 16,
    blockLen := blockLen, etm := etm, has13 := decide (v = .tls13) }

def initDir (v : Version) (key iv : Bytes) (ctx : Option (Bytes × Nat)) : DirSt :=
  { key := some key, iv := some iv, seq := 0, last := if v = .tls10 ∨ v = .ssl30 then some iv else none, rc4 := ctx,
    hsKey := none, hsIv := none, appKey := none, appIv := none }

theorem init_pre13_noctx (P : Prims) (bulk : Alg) (v : Version) (macLen : Nat) (tagLen : Option Nat) (blockLen : Nat)
    (etm : Bool) (ck sk civ siv : Bytes) (hv : v ≠ .tls13) (hs : ¬ (cipherType bulk = .stream ∧ bulk ≠ .chachaPoly)) :
    Dec.init P bulk v macLen tagLen blockLen etm { cKey := some ck, sKey := some sk, cIv := some civ, sIv := some siv }
      = .ok { cfg := initCfg bulk v macLen tagLen blockLen etm, c := initDir v ck civ none, s := initDir v sk siv none } := by
  simp [Dec.init, hv, hs, initCfg, initDir, bind, Except.bind, pure, Except.pure]

theorem init_pre13_rc4 (P : Prims) (v : Version) (macLen : Nat) (tagLen : Option Nat) (blockLen : Nat)
    (etm : Bool) (ck sk civ siv : Bytes) (hv : v ≠ .tls13) (h1 : P.rc4Init ck = .ok ()) (h2 : P.rc4Init sk = .ok ()) :
    Dec.init P .arc4 v macLen tagLen blockLen etm { cKey := some ck, sKey := some sk, cIv := some civ, sIv := some siv }
      = .ok { cfg := initCfg .arc4 v macLen tagLen blockLen etm, c := initDir v ck civ (some (ck, 0)),
              s := initDir v sk siv (some (sk, 0)) } := by
  simp [Dec.init, hv, cipherType, streamCtx, h1, h2, initCfg, initDir, bind, Except.bind, pure, Except.pure, Except.map]

/-- SSL 3.0 – TLS 1.2: `Decryptor(...)` with the four key-block entries succeeds and is related to the sender's
    initial state (sequence numbers 0, last block = key-block IV, RC4 position 0). -/
theorem init_rel_pre13 (P : Prims) (L : SealLaws P) (cls : CipherClass) (h13 : cls.is13 = false) (v : Version)
    (hver : VersionOk cls v) (macLen : Nat) (hm : 0 < macLen) (blockLen : Nat) (hbl : BlockLenOk cls blockLen)
    (tagLen : Option Nat) (etm : Bool) (hp : ParamOk cls tagLen etm)
    (ck sk civ siv : Bytes) (hck : KeyMatOk cls ck civ) (hsk : KeyMatOk cls sk siv) :
    ∃ d, Dec.init P (bulkOf cls) v macLen tagLen blockLen etm
          { cKey := some ck, sKey := some sk, cIv := some civ, sIv := some siv } = .ok d ∧
      Rel cls macLen ⟨SDir.init ck civ [] [], SDir.init sk siv [] []⟩ d := by
  cases cls with
  | stream =>
    have hv : v ≠ .tls13 := by rcases hver with rfl | rfl | rfl | rfl <;> decide
    refine ⟨_, init_pre13_rc4 P v macLen _ blockLen _ ck sk civ siv hv (L.rc4_init ck hck) (L.rc4_init sk hsk), ?_⟩
    exact ⟨⟨rfl, rfl, hv, rfl, hm⟩, fun b => by cases b <;> rfl⟩
  | cbcImplicit a e =>
    simp only [ParamOk] at hp
    subst hp
    have hb : a.isBlock = true := hck.1
    have hty : cipherType a = .block := by cases a <;> simp_all [Alg.isBlock, cipherType]
    have hv : v ≠ .tls13 := by rcases hver with rfl | rfl <;> decide
    have hl : (if v = .tls10 ∨ v = .ssl30 then some civ else none) = some civ ∧
        (if v = .tls10 ∨ v = .ssl30 then some siv else none) = some siv := by
      rcases hver with rfl | rfl <;> simp
    refine ⟨_, init_pre13_noctx P a v macLen _ blockLen etm ck sk civ siv hv (by rw [hty]; simp), ?_⟩
    refine ⟨⟨rfl, hb, hty, ?_, rfl, rfl, hm, hbl⟩, fun b => ?_⟩
    · rcases hver with rfl | rfl <;> simp [initCfg]
    · cases b
      · exact ⟨rfl, hl.1, hck⟩
      · exact ⟨rfl, hl.2, hsk⟩
  | cbcExplicit a e =>
    simp only [ParamOk] at hp
    subst hp
    have hb : a.isBlock = true := hck.1
    have hty : cipherType a = .block := by cases a <;> simp_all [Alg.isBlock, cipherType]
    have hv : v ≠ .tls13 := by rcases hver with rfl | rfl <;> decide
    refine ⟨_, init_pre13_noctx P a v macLen _ blockLen etm ck sk civ siv hv (by rw [hty]; simp), ?_⟩
    refine ⟨⟨rfl, hb, hty, ?_, rfl, rfl, hm⟩, fun b => ?_⟩
    · rcases hver with rfl | rfl <;> simp [initCfg]
    · cases b
      · exact ⟨rfl, hck⟩
      · exact ⟨rfl, hsk⟩
  | aead12 a tl =>
    simp only [ParamOk] at hp
    subst hp
    obtain ⟨ha, hck'⟩ := hck
    obtain ⟨-, hsk'⟩ := hsk
    have hty : cipherType a = .aead := by rcases ha with rfl | rfl <;> rfl
    refine ⟨_, init_pre13_noctx P a v macLen _ blockLen etm ck sk civ siv hver (by rw [hty]; simp), ?_⟩
    refine ⟨⟨rfl, ha, hty, hver, rfl⟩, fun b => ?_⟩
    cases b
    · exact ⟨rfl, rfl, rfl, hck'⟩
    · exact ⟨rfl, rfl, rfl, hsk'⟩
  | chacha12 =>
    have hv : v ≠ .tls13 := by rw [hver]; decide
    refine ⟨_, init_pre13_noctx P .chachaPoly v macLen _ blockLen etm ck sk civ siv hv (by simp), ?_⟩
    refine ⟨⟨rfl, hver⟩, fun b => ?_⟩
    cases b
    · exact ⟨rfl, rfl, rfl, hck⟩
    · exact ⟨rfl, rfl, rfl, hsk⟩
  | aead13 _ _ => cases h13
  | chacha13 => cases h13

/-- `__init__` for TLS 1.3, one direction, after the `parse_keys` fallback. -/
def initDir13 (hsKey hsIv appKey appIv : Option Bytes) : DirSt :=
  let fall := hsKey.isNone || hsIv.isNone
  let hk := if fall then appKey else hsKey
  let hi := if fall then appIv else hsIv
  { key := hk, iv := hi, seq := 0, last := none, rc4 := none, hsKey := hk, hsIv := hi, appKey := appKey, appIv := appIv }

theorem init_13_noctx (P : Prims) (bulk : Alg) (macLen : Nat) (tagLen : Option Nat) (blockLen : Nat) (etm : Bool)
    (k : Keys) (hs : ¬ (cipherType bulk = .stream ∧ bulk ≠ .chachaPoly)) :
    Dec.init P bulk .tls13 macLen tagLen blockLen etm k
      = .ok { cfg := initCfg bulk .tls13 macLen tagLen blockLen etm,
              c := initDir13 k.cHsKey k.cHsIv k.cAppKey k.cAppIv, s := initDir13 k.sHsKey k.sHsIv k.sAppKey k.sAppIv } := by
  simp [Dec.init, hs, initCfg, initDir13, bind, Except.bind, pure, Except.pure]

private def AesAead13 : CipherClass → Prop
  | .aead13 a _ => a = .aesgcm ∨ a = .aesccm
  | _ => True

private theorem cfgOk_13 (cls : CipherClass) (h13 : cls.is13 = true) (macLen blockLen : Nat)
    (tagLen : Option Nat) (etm : Bool) (hp : ParamOk cls tagLen etm) (hcls : AesAead13 cls) :
    CfgOk cls macLen (initCfg (bulkOf cls) .tls13 macLen tagLen blockLen etm) ∧
    ¬ (cipherType (bulkOf cls) = .stream ∧ bulkOf cls ≠ .chachaPoly) := by
  cases cls with
  | aead13 a tl =>
    have hty : cipherType a = .aead := by rcases hcls with rfl | rfl <;> rfl
    exact ⟨⟨rfl, hcls, hty, rfl, hp, rfl⟩, by simp [bulkOf, hty]⟩
  | chacha13 => exact ⟨⟨rfl, by simp [initCfg, bulkOf, cipherType], rfl⟩, by simp [bulkOf]⟩
  | stream => cases h13
  | cbcImplicit _ _ => cases h13
  | cbcExplicit _ _ => cases h13
  | aead12 _ _ => cases h13
  | chacha12 => cases h13

private theorem relDir_13 (cls : CipherClass) (h13 : cls.is13 = true) (hk hi ak ai : Bytes)
    (h1 : KeyMatOk cls hk hi) (h2 : KeyMatOk cls ak ai) :
    RelDir cls (SDir.init hk hi ak ai) (initDir13 (some hk) (some hi) (some ak) (some ai)) := by
  cases cls with
  | aead13 a tl =>
    exact ⟨rfl, rfl, rfl, h1.2.1, h1.2.2, rfl, rfl, by simp [initDir13], by simp [initDir13], h2.2.1, h2.2.2⟩
  | chacha13 =>
    exact ⟨rfl, rfl, rfl, h1.1, rfl, rfl, by simp [initDir13], by simp [initDir13], h2.1, h2.2⟩
  | stream => cases h13
  | cbcImplicit _ _ => cases h13
  | cbcExplicit _ _ => cases h13
  | aead12 _ _ => cases h13
  | chacha12 => cases h13

/-- TLS 1.3 with all four traffic secrets in the key log: the Decryptor starts in the handshake epoch, related to the
    sender's initial state. -/
theorem init_rel_13 (P : Prims) (cls : CipherClass) (h13 : cls.is13 = true) (macLen blockLen : Nat)
    (tagLen : Option Nat) (etm : Bool) (hp : ParamOk cls tagLen etm)
    (chk chiv cak caiv shk shiv sak saiv : Bytes)
    (h1 : KeyMatOk cls chk chiv) (h2 : KeyMatOk cls cak caiv) (h3 : KeyMatOk cls shk shiv) (h4 : KeyMatOk cls sak saiv) :
    ∃ d, Dec.init P (bulkOf cls) .tls13 macLen tagLen blockLen etm
          { cHsKey := some chk, sHsKey := some shk, cAppKey := some cak, sAppKey := some sak,
            cHsIv := some chiv, sHsIv := some shiv, cAppIv := some caiv, sAppIv := some saiv } = .ok d ∧
      Rel cls macLen ⟨SDir.init chk chiv cak caiv, SDir.init shk shiv sak saiv⟩ d := by
  have hcls : AesAead13 cls := by
    cases cls <;> first | trivial | exact h1.1
  obtain ⟨hc, hs⟩ := cfgOk_13 cls h13 macLen blockLen tagLen etm hp hcls
  refine ⟨_, init_13_noctx P _ macLen _ blockLen etm _ hs, hc, fun b => ?_⟩
  cases b
  · exact relDir_13 cls h13 chk chiv cak caiv h1 h2
  · exact relDir_13 cls h13 shk shiv sak saiv h3 h4

/-- TLS 1.3 WITHOUT handshake secrets in the key log (`parse_keys` fallback, decryptor.py 97-107): construction
    succeeds, the handshake-epoch slots hold the application keys, and the application part of the relation holds for
    both directions with any sender whose application traffic keys are the logged ones — which is all
    `updateKeys_switch` needs. -/
theorem init_rel_13_fallback (P : Prims) (cls : CipherClass) (h13 : cls.is13 = true) (macLen blockLen : Nat)
    (tagLen : Option Nat) (etm : Bool) (hp : ParamOk cls tagLen etm)
    (cak caiv sak saiv : Bytes) (h2 : KeyMatOk cls cak caiv) (h4 : KeyMatOk cls sak saiv)
    (x : Snd) (hxc : x.c.appKey = cak ∧ x.c.appIv = caiv) (hxs : x.s.appKey = sak ∧ x.s.appIv = saiv) :
    ∃ d, Dec.init P (bulkOf cls) .tls13 macLen tagLen blockLen etm
          { cAppKey := some cak, sAppKey := some sak, cAppIv := some caiv, sAppIv := some saiv } = .ok d ∧
      CfgOk cls macLen d.cfg ∧ (∀ srv, AppRelOf cls (x.get srv) (d.get srv)) ∧
      d.c.key = some cak ∧ d.s.key = some sak := by
  have hcls : AesAead13 cls := by
    cases cls <;> first | trivial | exact h2.1
  obtain ⟨hc, hs⟩ := cfgOk_13 cls h13 macLen blockLen tagLen etm hp hcls
  refine ⟨_, init_13_noctx P _ macLen _ blockLen etm _ hs, hc, fun b => ?_, rfl, rfl⟩
  obtain ⟨xc, xs⟩ := x
  obtain ⟨rfl, rfl⟩ := hxc
  obtain ⟨rfl, rfl⟩ := hxs
  have n1 : ∀ (a b : Bytes), (initDir13 none none (some a) (some b)).hsKey ≠ none := by intro a b; simp [initDir13]
  have n2 : ∀ (a b : Bytes), (initDir13 none none (some a) (some b)).hsIv ≠ none := by intro a b; simp [initDir13]
  cases cls with
  | aead13 a tl =>
    cases b
    · exact ⟨rfl, rfl, n1 _ _, n2 _ _, h2.2.1, h2.2.2⟩
    · exact ⟨rfl, rfl, n1 _ _, n2 _ _, h4.2.1, h4.2.2⟩
  | chacha13 =>
    cases b
    · exact ⟨rfl, rfl, n1 _ _, n2 _ _, h2.1, h2.2⟩
    · exact ⟨rfl, rfl, n1 _ _, n2 _ _, h4.1, h4.2⟩
  | stream => cases h13
  | cbcImplicit _ _ => cases h13
  | cbcExplicit _ _ => cases h13
  | aead12 _ _ => cases h13
  | chacha12 => cases h13

/-- TLS 1.3 without handshake secrets, whole histories: once both sides have switched to their application traffic
    keys (`update_keys` for each direction — whatever happened to the handshake-epoch records before), every further
    history is decrypted exactly. Only the application part of the relation is assumed. -/
theorem stream_exact_after_switch (P : Prims) (L : SealLaws P) (cls : CipherClass) (h13 : cls.is13 = true)
    (macLen : Nat) (ver : Bytes) (hv : ver.length = 2) (evs : List Ev) (x : Snd) (d : Dec)
    (hc : CfgOk cls macLen d.cfg) (happ : ∀ srv, AppRelOf cls (x.get srv) (d.get srv))
    (hev : ∀ e ∈ evs, EvOk cls macLen e) (hq : evs.length ≤ seqLimit) :
    recvAll P d (run P L cls ver x (.switch false :: .switch true :: evs))
      = .switched :: .switched :: evs.map (expected cls) := by
  obtain ⟨d1, a1, a2, a3, a4⟩ := updateKeys_switch cls h13 macLen d false (x.get false) hc (happ false)
  have hc1 : CfgOk cls macLen d1.cfg := by rw [a2]; exact hc
  have happ1 : AppRelOf cls ((x.set false (switchToApp (x.get false))).get true) (d1.get true) := by
    have := happ true
    simp only [Bool.not_false] at a3
    rw [a3]
    exact this
  obtain ⟨d2, b1, b2, b3, b4⟩ := updateKeys_switch cls h13 macLen d1 true
    ((x.set false (switchToApp (x.get false))).get true) hc1 happ1
  have hR : Rel cls macLen ((x.set false (switchToApp (x.get false))).set true
      (switchToApp ((x.set false (switchToApp (x.get false))).get true))) d2 := by
    refine ⟨by rw [b2]; exact hc1, fun b => ?_⟩
    cases b
    · simp only [Bool.not_true] at b3
      rw [b3]
      exact a4
    · exact b4
  have hz : max ((x.set false (switchToApp (x.get false))).set true
      (switchToApp ((x.set false (switchToApp (x.get false))).get true))).c.seq
      ((x.set false (switchToApp (x.get false))).set true
      (switchToApp ((x.set false (switchToApp (x.get false))).get true))).s.seq = 0 := by
    simp [Snd.set, Snd.get, switchToApp]
  simp only [run, step, recvAll, recvStep, a1, b1, List.map_cons]
  rw [stream_exact P L cls macLen ver hv evs _ d2 hR hev (by rw [hz]; omega)]

/-- The cipher class that the constructor arguments put the Decryptor in — the bridge from the resolved suite
    (C14: `bulk_alg`, tag length), the negotiated version and the encrypt-then-MAC extension to the theorems above.
    `none`: combinations that no table suite × valid version produces and that `decrypt` cannot serve
    (ChaCha20-Poly1305 before TLS 1.2 has no cipher context; RC4 / CBC algorithms in TLS 1.3 would be opened as
    ChaCha20-Poly1305; `bulk_alg` None; version UNDEFINED). -/
def classOf (bulk : Alg) (v : Version) (etm : Bool) (tagLen : Option Nat) : Option CipherClass :=
  match v with
  | .undefined => none
  | .tls13 =>
    match bulk with
    | .aesgcm => some (.aead13 .aesgcm (tagLen.getD 16))
    | .aesccm => some (.aead13 .aesccm (tagLen.getD 16))
    | .chachaPoly => some .chacha13
    | _ => none
  | v =>
    match bulk with
    | .arc4 => some .stream
    | .aes | .tdes | .camellia | .idea =>
      if v = .ssl30 ∨ v = .tls10 then some (.cbcImplicit bulk etm) else some (.cbcExplicit bulk etm)
    | .aesgcm | .aesccm => some (.aead12 bulk (tagLen.getD 16))
    | .chachaPoly => if v = .tls12 then some .chacha12 else none
    | _ => none

/-- `classOf` delivers exactly the side conditions the construction lemmas ask for. -/
theorem classOf_spec (bulk : Alg) (v : Version) (etm : Bool) (tagLen : Option Nat) (cls : CipherClass)
    (h : classOf bulk v etm tagLen = some cls) :
    bulkOf cls = bulk ∧ VersionOk cls v ∧ ParamOk cls tagLen etm ∧ cls.is13 = decide (v = .tls13) := by
  cases v <;> cases bulk <;> simp [classOf] at h <;> subst h <;>
    simp [bulkOf, VersionOk, ParamOk, CipherClass.is13]

-- ------------------------------------------------------------------ what is NOT true, stated exactly
/-- A record that raises leaves the whole cipher state untouched (restated from the model file): the next record of
    either direction is decrypted as if the bad one had never been seen. -/
theorem failed_record_keeps_state (P : Prims) (r : Rec) (srv : Bool) (d d' : Dec) (e : PyErr)
    (h : d.decrypt P r srv = .err e d') : d' = d := Dec.decrypt_err_state P r srv d d' e h

/-- TLS 1.3: what `decrypt` returns is never the bare content — it is `content ‖ type ‖ zeros`, at least one byte
    longer. Stripping the zeros and the type byte is left to the caller (`Session.handle_tls_13_application_record`,
    which today looks only at the LAST byte — with padding that is a zero: a Session defect outside this module). -/
theorem tls13_returns_inner_plaintext (a : Alg) (tl : Nat) (typ : UInt8) (pt : Bytes) (f : Fresh) :
    delivered (.aead13 a tl) typ pt f = pt ++ [typ] ++ List.replicate f.pad13 0 ∧
    delivered .chacha13 typ pt f = pt ++ [typ] ++ List.replicate f.pad13 0 ∧
    delivered (.aead13 a tl) typ pt f ≠ pt := by
  refine ⟨rfl, rfl, ?_⟩
  intro h
  have := congrArg List.length h
  simp [delivered, inner13] at this

/-- The `[:-mac_length]` trap: with `mac_length = 0` the stream routine returns the EMPTY string for every record
    (`decrypted[0:-0]`). No suite of the table has a zero MAC length, hence `0 < macLen` in `CfgOk`. -/
theorem stream_mac0_returns_empty (P : Prims) (r : Rec) (srv : Bool) (d : Dec) (k : Bytes) (off : Nat)
    (ht : d.cfg.ctype = .stream) (hv : d.cfg.version ≠ .tls13) (hb : d.cfg.bulk ≠ .chachaPoly)
    (hm : d.cfg.macLen = 0) (hc : (d.get srv).rc4 = some (k, off)) :
    ∃ d', d.decrypt P r srv = .ok (some []) d' := by
  rw [dispatch_generic_stream P r srv d ht hv hb]
  simp [genericStream, hc, hm, Bytes.cutEnd, lift, bind, Except.bind, pure, Except.pure]

/-- Outside the covered combinations, e.g. ChaCha20-Poly1305 negotiated below TLS 1.2 (no table suite is valid
    there): `__init__` creates no cipher context for it and `decrypt` falls into the generic stream routine, which
    raises AttributeError on every record. -/
theorem chacha_before_tls12_raises (P : Prims) (r : Rec) (srv : Bool) (d : Dec)
    (ht : d.cfg.ctype = .stream) (hv13 : d.cfg.version ≠ .tls13) (hv12 : d.cfg.version ≠ .tls12)
    (hc : (d.get srv).rc4 = none) : d.decrypt P r srv = .err .attr d := by
  simp [Dec.decrypt, ht, hv13, hv12, genericStream, hc, lift, bind, Except.bind, throw, throwThe, MonadExceptOf.throw]

-- ------------------------------------------------------------------ non-vacuity: the toy instance, concrete records
instance (cls : CipherClass) (k iv : Bytes) : Decidable (KeyMatOk cls k iv) := by
  cases cls <;> unfold KeyMatOk <;> infer_instance
instance (cls : CipherClass) (m : Nat) (pt : Bytes) (f : Fresh) : Decidable (SendOk cls m pt f) := by
  cases cls <;> unfold SendOk <;> infer_instance

namespace Ex
def k16 : Bytes := [1, 2, 3, 4, 5, 6, 7, 8, 9, 10, 11, 12, 13, 14, 15, 16]
def k16' : Bytes := [16, 15, 14, 13, 12, 11, 10, 9, 8, 7, 6, 5, 4, 3, 2, 1]
def k24 : Bytes := k16 ++ [17, 18, 19, 20, 21, 22, 23, 24]
def k32 : Bytes := k16 ++ k16'
def iv4 : Bytes := [9, 8, 7, 6]
def iv8 : Bytes := [1, 1, 2, 3, 5, 8, 13, 21]
def iv12 : Bytes := [0, 1, 2, 3, 4, 5, 6, 7, 8, 9, 10, 11]
def iv16 : Bytes := k16'
def mac20 : Bytes := List.replicate 20 0xAB
def hi : Bytes := [104, 105]

/-- Run a history through the toy sender and the model constructed by `Dec.init` over the toy primitives. -/
def roundtrip (cls : CipherClass) (v : Version) (macLen blockLen : Nat) (k : Keys) (x : Snd) (evs : List Ev) : Bool :=
  match Dec.init Toy.prims (bulkOf cls) v macLen (some (tagOf cls)) blockLen (etmOf cls) k with
  | .ok d => recvAll Toy.prims d (run Toy.prims Toy.laws cls [3, 3] x evs) == evs.map (expected cls)
  | .error _ => false

def keys4 (ck sk civ siv : Bytes) : Keys := { cKey := some ck, sKey := some sk, cIv := some civ, sIv := some siv }

-- the hypotheses of the theorems are satisfiable for every class (toy laws + concrete key material) …
example : ∃ d, Rel .stream 20 ⟨SDir.init k16 [] [] [], SDir.init k16' [] [] []⟩ d :=
  let ⟨d, _, h⟩ := init_rel_pre13 Toy.prims Toy.laws .stream rfl .ssl30 (Or.inl rfl) 20 (by decide) 0 trivial none true trivial
    k16 k16' [] [] (by decide) (by decide)
  ⟨d, h⟩
example : ∃ d, Rel (.cbcImplicit .tdes false) 20 ⟨SDir.init k24 iv8 [] [], SDir.init k24 iv8 [] []⟩ d :=
  let ⟨d, _, h⟩ := init_rel_pre13 Toy.prims Toy.laws (.cbcImplicit .tdes false) rfl .tls10 (Or.inr rfl) 20 (by decide) 64 rfl (some 16) false rfl
    k24 k24 iv8 iv8 (by decide) (by decide)
  ⟨d, h⟩
example : ∃ d, Rel (.cbcExplicit .aes true) 20 ⟨SDir.init k32 [] [] [], SDir.init k16 [] [] []⟩ d :=
  let ⟨d, _, h⟩ := init_rel_pre13 Toy.prims Toy.laws (.cbcExplicit .aes true) rfl .tls12 (Or.inr rfl) 20 (by decide) 128 trivial none true rfl
    k32 k16 [] [] (by decide) (by decide)
  ⟨d, h⟩
example : ∃ d, Rel (.aead12 .aesccm 8) 32 ⟨SDir.init k16 iv4 [] [], SDir.init k16' iv4 [] []⟩ d :=
  let ⟨d, _, h⟩ := init_rel_pre13 Toy.prims Toy.laws (.aead12 .aesccm 8) rfl .tls12 (by intro h; cases h) 32 (by decide) 128 trivial (some 8) false rfl
    k16 k16' iv4 iv4 (by decide) (by decide)
  ⟨d, h⟩
example : ∃ d, Rel .chacha12 32 ⟨SDir.init k32 iv12 [] [], SDir.init k32 iv12 [] []⟩ d :=
  let ⟨d, _, h⟩ := init_rel_pre13 Toy.prims Toy.laws .chacha12 rfl .tls12 rfl 32 (by decide) 0 trivial (some 16) true trivial
    k32 k32 iv12 iv12 (by decide) (by decide)
  ⟨d, h⟩
example : ∃ d, Rel (.aead13 .aesgcm 16) 32 ⟨SDir.init k16 iv12 k16' iv12, SDir.init k16' iv12 k16 iv12⟩ d :=
  let ⟨d, _, h⟩ := init_rel_13 Toy.prims (.aead13 .aesgcm 16) rfl 32 128 none false rfl k16 iv12 k16' iv12 k16' iv12 k16 iv12
    (by decide) (by decide) (by decide) (by decide)
  ⟨d, h⟩
example : ∃ d, Rel .chacha13 32 ⟨SDir.init k32 iv12 k32 iv12, SDir.init k32 iv12 k32 iv12⟩ d :=
  let ⟨d, _, h⟩ := init_rel_13 Toy.prims .chacha13 rfl 32 0 (some 16) false trivial k32 iv12 k32 iv12 k32 iv12 k32 iv12
    (by decide) (by decide) (by decide) (by decide)
  ⟨d, h⟩
-- … and so are the per-record side conditions (two-block padding with arbitrary content; empty plaintext)
example : SendOk (.cbcExplicit .aes false) 20 hi
    { explicit := iv16, mac := mac20, padding := List.replicate 25 7, pad13 := 0 } := by decide
example : SendOk (.cbcImplicit .tdes true) 20 [] { explicit := [], mac := mac20, padding := [1, 2, 3, 4, 5, 6, 7], pad13 := 0 } := by
  decide

-- concrete histories evaluated by the kernel: both directions interleaved, empty and multi-block records,
-- state carried from record to record (RC4 position, CBC residue, sequence numbers, epoch switch)
example : roundtrip .stream .ssl30 20 0 (keys4 k16 k16' [] []) ⟨SDir.init k16 [] [] [], SDir.init k16' [] [] []⟩
    [.send false 23 hi ⟨[], mac20, [], 0⟩, .send true 23 [] ⟨[], mac20, [], 0⟩, .send false 23 k32 ⟨[], mac20, [], 0⟩,
     .send false 22 [7] ⟨[], mac20, [], 0⟩, .send true 23 hi ⟨[], mac20, [], 0⟩] = true := by decide +kernel
example : roundtrip (.cbcImplicit .tdes false) .tls10 20 64 (keys4 k24 k24 iv8 iv8)
    ⟨SDir.init k24 iv8 [] [], SDir.init k24 iv8 [] []⟩
    [.send false 23 hi ⟨[], mac20, [9], 0⟩, .send false 23 [] ⟨[], mac20, [3, 3, 3], 0⟩,
     .send true 23 k16 ⟨[], mac20, [1, 2, 3], 0⟩, .send false 23 [1, 2, 3, 4] ⟨[], mac20, List.replicate 15 0, 0⟩]
    = true := by decide +kernel
example : roundtrip (.cbcImplicit .aes true) .ssl30 20 128 (keys4 k16 k16' iv16 iv16)
    ⟨SDir.init k16 iv16 [] [], SDir.init k16' iv16 [] []⟩
    [.send true 23 hi ⟨[], mac20, List.replicate 13 5, 0⟩, .send true 23 k16 ⟨[], mac20, List.replicate 15 0, 0⟩,
     .send false 23 [] ⟨[], mac20, List.replicate 31 1, 0⟩] = true := by decide +kernel
example : roundtrip (.cbcExplicit .camellia false) .tls11 20 128 (keys4 k32 k32 [] [])
    ⟨SDir.init k32 [] [] [], SDir.init k32 [] [] []⟩
    [.send false 23 hi ⟨iv16, mac20, List.replicate 9 9, 0⟩, .send true 23 [] ⟨k16, mac20, List.replicate 27 27, 0⟩]
    = true := by decide +kernel
example : roundtrip (.cbcExplicit .idea true) .tls12 20 64 (keys4 k16 k16 [] [])
    ⟨SDir.init k16 [] [] [], SDir.init k16 [] [] []⟩
    [.send false 23 hi ⟨iv8, mac20, List.replicate 5 5, 0⟩, .send false 23 k16 ⟨iv8, mac20, List.replicate 7 0, 0⟩]
    = true := by decide +kernel
example : roundtrip (.aead12 .aesgcm 16) .tls12 32 128 (keys4 k16 k16' iv4 iv4)
    ⟨SDir.init k16 iv4 [] [], SDir.init k16' iv4 [] []⟩
    [.send false 23 hi ⟨iv8, [], [], 0⟩, .send true 23 [] ⟨iv8, [], [], 0⟩, .send false 23 k32 ⟨iv8, [], [], 0⟩]
    = true := by decide +kernel
example : roundtrip (.aead12 .aesccm 8) .tls12 32 128 (keys4 k32 k32 iv4 iv4)
    ⟨SDir.init k32 iv4 [] [], SDir.init k32 iv4 [] []⟩
    [.send true 23 hi ⟨iv8, [], [], 0⟩, .send true 23 k16 ⟨k16.take 8, [], [], 0⟩] = true := by decide +kernel
example : roundtrip .chacha12 .tls12 32 0 (keys4 k32 k32 iv12 iv12)
    ⟨SDir.init k32 iv12 [] [], SDir.init k32 iv12 [] []⟩
    [.send false 23 hi ⟨[], [], [], 0⟩, .send false 23 [] ⟨[], [], [], 0⟩, .send true 21 [2, 40] ⟨[], [], [], 0⟩]
    = true := by decide +kernel
example : roundtrip (.aead13 .aesgcm 16) .tls13 32 128
    { cHsKey := some k16, sHsKey := some k16', cAppKey := some k16', sAppKey := some k16,
      cHsIv := some iv12, sHsIv := some iv12, cAppIv := some iv12, sAppIv := some iv12 }
    ⟨SDir.init k16 iv12 k16' iv12, SDir.init k16' iv12 k16 iv12⟩
    [.send true 22 hi ⟨[], [], [], 3⟩, .switch true, .send false 22 [20, 0, 0, 0] ⟨[], [], [], 0⟩, .switch false,
     .send false 23 hi ⟨[], [], [], 5⟩, .send true 23 [] ⟨[], [], [], 0⟩, .send false 23 k16 ⟨[], [], [], 1⟩]
    = true := by decide +kernel
example : roundtrip .chacha13 .tls13 32 0
    { cHsKey := some k32, sHsKey := some k32, cAppKey := some k32, sAppKey := some k32,
      cHsIv := some iv12, sHsIv := some iv12, cAppIv := some iv12, sAppIv := some iv12 }
    ⟨SDir.init k32 iv12 k32 iv12, SDir.init k32 iv12 k32 iv12⟩
    [.send true 22 hi ⟨[], [], [], 0⟩, .switch true, .switch false, .send false 23 hi ⟨[], [], [], 2⟩]
    = true := by decide +kernel
-- TLS 1.3 without handshake secrets: handshake-epoch records fail (InvalidTag), after the switch everything is exact
example :
    (match Dec.init Toy.prims .aesgcm .tls13 32 (some 16) 128 false
        { cAppKey := some k16', sAppKey := some k16, cAppIv := some iv12, sAppIv := some iv12 } with
     | .ok d => recvAll Toy.prims d (run Toy.prims Toy.laws (.aead13 .aesgcm 16) [3, 3]
         ⟨SDir.init k16 iv12 k16' iv12, SDir.init k16' iv12 k16 iv12⟩
         [.send true 22 hi ⟨[], [], [], 0⟩, .switch true, .switch false, .send true 23 hi ⟨[], [], [], 4⟩,
          .send false 23 k16 ⟨[], [], [], 0⟩])
     | .error _ => [])
    = [.failed .invalidTag, .switched, .switched, .data (some (hi ++ [23, 0, 0, 0, 0])), .data (some (k16 ++ [23]))] := by
  decide +kernel
-- the traps, concretely: a zero MAC length empties every RC4 record; an empty CBC body raises IndexError
example :
    (match Dec.init Toy.prims .arc4 .tls10 0 (some 16) 0 false (keys4 k16 k16' [] []) with
     | .ok d => recvAll Toy.prims d [.record false ([23, 3, 1, 0, 2] ++ hi)]
     | .error _ => []) = [.data (some [])] := by decide +kernel
example :
    (match Dec.init Toy.prims .aes .tls12 20 (some 16) 128 false (keys4 k16 k16' [] []) with
     | .ok d => recvAll Toy.prims d [.record false ([23, 3, 3, 0, 16] ++ k16), .record true [23, 3, 3, 0, 0]]
     | .error _ => []) = [.failed .index, .failed .value] := by decide +kernel
end Ex

end TLX.Props.C01
