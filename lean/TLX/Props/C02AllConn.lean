import TLX.Props.C02Zr2
set_option autoImplicit false
set_option linter.unusedSimpArgs false
set_option linter.unusedVariables false
/-! # C02, all together — 1. the connection

`quic_connection_exact_from`: `C02Zr.quic_connection_exact_0rtt_any` (one interleaved history: coalesced packets of all
levels, 0-RTT packets anywhere, good or of the wrong suite, then the 1-RTT-only part) started in ANY state of the handshake
invariant; `quic_connection_exact_retry_any`: … behind the client's first Initial and the server's Retry. Used by
`Props/C02All.lean`. Core Lean only. -/
namespace TLX.Props.C02All
open TLX TLX.Quic TLX.Cipher TLX.Quic.Session TLX.Lemmas.QuicSession TLX.Spec.QuicSender TLX.Spec.QuicFrames
open TLX.Props.C02Session TLX.Spec.QuicConnection TLX.Spec.QuicPackets TLX.QuicPipeline
open TLX.Props.C02Capstone TLX.Props.C02Capstone3 TLX.Props.C02Capstone4 TLX.Props.C02Zr TLX.Spec.KeySchedules
open TLX.Lemmas.KeySchedule

/-! ### the connection from ANY handshake state -/
section From
variable (maskFn : Dissect.MaskFn) (H : Crypto.Prims) (Pc : Cipher.Prims) (info : Nat → Pipeline.Info)
open TLX.Quic.UdpOut TLX.Props.C02Out

/-- `C02Zr.quic_connection_exact_0rtt_any` started in ANY state of the handshake invariant (`HsSt` for the bookkeeping `t0`,
    `EInv` for the last-call suite `ecs0`, nothing exportable in `output_buffer`) instead of a fresh session: the form the
    history after a Retry needs. -/
theorem quic_connection_exact_from (hl : H.Lawful) (L : SealLaws Pc)
    (dcid0 cr csel ch sh ca sa e : Bytes) (sel selR : SuiteSel) (csR : Bytes) (hsel : selectSuite csel = some sel)
    (hselR : selectSuite csR = some selR)
    (ho : (hashOf H sel.hash).outLen < 65536)
    (hsa : sa.length = (hashOf H sel.hash).outLen) (hca : ca.length = (hashOf H sel.hash).outLen)
    (t0 : Trk) (ecs0 : Option SuiteSel)
    (kl0 : List Keylog.Key) (p0 : MainLoop.Pkt) (d0 : DgY) (itemsA : List (List Keylog.Key × MainLoop.Pkt × DgY))
    (hkl : ∀ x ∈ (kl0, p0, d0) :: itemsA, KeylogHas x.1 cr ch sh ca sa (some e))
    (c : QConn) (hr : c.raised = none) (hout0 : expo c.st.out = [])
    (hpre : HsSt H dcid0 sel ch sh ca sa t0.keyed (feedPre H (params H Pc kl0) (noOut c.st) d0.x.dcid (sver d0.x.ver))
      t0.tc t0.ts t0.cc t0.sc t0.core)
    (hinv0 : EInv H e ecs0 (feedPre H (params H Pc kl0) (noOut c.st) d0.x.dcid (sver d0.x.ver)))
    (hok : YDgs maskFn H Pc L dcid0 sel selR sh ch sa ca e t0 ecs0 (d0 :: itemsA.map (·.2.2)))
    (htr : PTrace cr csel t0.core (allInsM ((d0 :: itemsA.map (·.2.2)).map (·.x.base))))
    (hcar : ∀ x ∈ (kl0, p0, d0) :: itemsA,
      CarriesX info c (DgX.wire H Pc L dcid0 sel selR sh ch sa ca e) x.2.1 x.2.2.x)
    (hkeyed : (((d0 :: itemsA.map (·.2.2)).map DgY.eff).foldl Trk.dgx t0).keyed = true)
    (itemsB : List (List Keylog.Key × MainLoop.Pkt × Dg1))
    (hcarB : ∀ x ∈ itemsB, Carries info c
      (wireOf H Pc L sel .v1 (rfcGen (hashOf H sel.hash) sel.keyLen sa ca 0)) x.2.1 x.2.2)
    (hsend : Send1 maskFn H Pc L sel .v1 (rfcGen (hashOf H sel.hash) sel.keyLen sa ca 0)
      (quicHp (hashOf H sel.hash) ca sel.keyLen) (quicHp (hashOf H sel.hash) sa sel.keyLen)
      (chachaOf (((d0 :: itemsA.map (·.2.2)).map DgY.eff).foldl Trk.dgx t0).core) 0 0
      (((d0 :: itemsA.map (·.2.2)).map DgY.eff).foldl Trk.dgx t0).tc.app
      (((d0 :: itemsA.map (·.2.2)).map DgY.eff).foldl Trk.dgx t0).ts.app
      (((d0 :: itemsA.map (·.2.2)).map DgY.eff).foldl Trk.dgx t0).cc
      (((d0 :: itemsA.map (·.2.2)).map DgY.eff).foldl Trk.dgx t0).sc
      (itemsB.map (·.2.2)))
    (hadj : DistinctAdjacent false (((d0 :: itemsA.map (·.2.2)).map DgY.eff).map inDgX ++
      (itemsB.map (·.2.2)).map fun d => inDg d.x)) :
    let QM := quicMachine maskFn H Pc info
    let c1 := yFeedAll QM c ((kl0, p0, d0) :: itemsA)
    (feedAll QM c1 itemsB).raised = none ∧
    QM.out false (feedAll QM c1 itemsB) =
      expectedOutX c ((d0 :: itemsA.map (·.2.2)).map DgY.eff) (itemsB.map (·.2.2)) ∧
    c1.raised = none ∧ c1.client = c.client ∧
    HsSt H dcid0 sel ch sh ca sa true (noOut c1.st)
      (((d0 :: itemsA.map (·.2.2)).map DgY.eff).foldl Trk.dgx t0).tc
      (((d0 :: itemsA.map (·.2.2)).map DgY.eff).foldl Trk.dgx t0).ts
      (((d0 :: itemsA.map (·.2.2)).map DgY.eff).foldl Trk.dgx t0).cc
      (((d0 :: itemsA.map (·.2.2)).map DgY.eff).foldl Trk.dgx t0).sc
      (((d0 :: itemsA.map (·.2.2)).map DgY.eff).foldl Trk.dgx t0).core := by
  intro QM c1
  have hkeys := keys_of_ys maskFn H Pc L dcid0 sel selR sh ch sa ca e t0 ecs0 _ hok
  obtain ⟨hm0, hms⟩ := hok
  have htr' : PTrace cr csel t0.core (insOf d0.x.base.longs ++ allInsM ((itemsA.map (·.2.2)).map (·.x.base))) := by
    simpa [allInsM, List.flatMap_cons] using htr
  obtain ⟨b1, b2, b3, b4, b5, b6, b7, b8, b9, b10, b11⟩ := y_feed_step maskFn H Pc info hl kl0 L dcid0 cr csel ch sh ca sa e
    sel selR csR hsel hselR (hkl (kl0, p0, d0) (List.mem_cons_self ..)) ho hsa hca t0 ecs0 d0 hm0 _ c hr hpre hinv0 htr' p0
    (hcar (kl0, p0, d0) (List.mem_cons_self ..))
  obtain ⟨i1, i2, i3, i4, i5, i6, i7, i8, i9⟩ := y_feed_rest maskFn H Pc info hl L dcid0 cr csel ch sh ca sa e sel selR csR hsel
    hselR ho hsa hca itemsA (fun x hx => hkl x (List.mem_cons_of_mem _ hx)) (t0.dgx d0.eff) _ _ b1 b2 b4 hms b3
    (fun x hx => by
      obtain ⟨u1, u2, u3⟩ := hcar x (List.mem_cons_of_mem _ hx)
      exact ⟨u1, u2, by rw [b8]; exact u3⟩)
  have hc1 : c1 = yFeedAll QM (QM.feed c kl0 p0 d0.x.dcid d0.x.ver) itemsA := rfl
  have ht1 : ((d0 :: itemsA.map (·.2.2)).map DgY.eff).foldl Trk.dgx t0 =
      ((itemsA.map (·.2.2)).map DgY.eff).foldl Trk.dgx (t0.dgx d0.eff) := rfl
  rw [ht1] at hkeyed hsend ⊢
  rw [← hc1] at i1 i2 i3 i4 i5 i6 i7 i8 i9
  rw [hkeyed] at i2
  have hest := est_of_noOut H Pc [] _ _ _ _ _ _ _ _ _ _ _ _ _
    (est_of_hsSt H Pc [] _ sel ch sh ca sa _ _ _ _ _ _ i2)
  have hk := keysWf_rfc H hl Pc [] csel sel hsel .v1 ho sa ca hsa hca
  have e3 : c1.opts = c.opts := i4.trans b6
  have e4 : c1.server = c.server := i5.trans b7
  have e5 : c1.client = c.client := i6.trans b8
  have e6 : c1.serverMac = c.serverMac := i7.trans b9
  have e7 : c1.clientMac = c.clientMac := i8.trans b10
  have e8 : c1.ipv6 = c.ipv6 := i9.trans b11
  obtain ⟨f1, f2, f3, f4, f5, f6, f7, f8, _⟩ := feedAll_exact maskFn H Pc info [] L sel .v1 _ _ _ _ hk itemsB c1
    0 0 _ _ _ _ i1 hest
    (fun x hx => by
      obtain ⟨u1, u2, u3⟩ := hcarB x hx
      exact ⟨u1, u2, by rw [e5]; exact u3⟩) hsend
  refine ⟨f1, ?_, i1, e5, i2⟩
  have hexpo : expo (feedAll QM c1 itemsB).st.out =
      expo ((((d0 :: itemsA.map (·.2.2)).map DgY.eff).flatMap fun d => d.zrOut ++ d.base.shortOut) ++
        (itemsB.map (·.2.2)).flatMap fun d => expectedOf .rtt1 d.x) := by
    rw [f2, expo_append, i3, b5, hout0, List.nil_append, expo_append]
    congr 1
    simp only [List.map_cons, List.flatMap_cons, expo_append]
  show connOut false (feedAll QM c1 itemsB) = _
  rw [connOut_eq, addressed_congr c _ (f3.trans e3) (f4.trans e4) (f5.trans e5) (f6.trans e6) (f7.trans e7) (f8.trans e8),
    build_congr _ _ hexpo]
  have hframesA : ∀ ds : List DgX, (∀ d ∈ ds, d.Keys) →
      (ds.flatMap fun d => d.zrOut ++ d.base.shortOut).map frameOf = framesOf (ds.map inDgX) := by
    intro ds
    induction ds with
    | nil => intro _; rfl
    | cons d ds ih =>
      intro hk
      simp only [List.flatMap_cons, List.map_append, List.map_cons, framesOf] at ih ⊢
      rw [← ih (fun x hx => hk x (List.mem_cons_of_mem _ hx)), inDgX_frames d (hk d (List.mem_cons_self ..)), List.map_append]
  have hframesB : ∀ ds : List Dg1, (ds.flatMap fun d => expectedOf .rtt1 d.x).map frameOf =
      framesOf (ds.map fun d => inDg d.x) := by
    intro ds
    induction ds with
    | nil => rfl
    | cons d ds ih =>
      simp only [List.flatMap_cons, List.map_append, List.map_cons, framesOf] at ih ⊢
      rw [ih, inDg_frames]
  have hfr : ((((d0 :: itemsA.map (·.2.2)).map DgY.eff).flatMap fun d => d.zrOut ++ d.base.shortOut) ++
        (itemsB.map (·.2.2)).flatMap fun d => expectedOf .rtt1 d.x).map frameOf =
      framesOf (((d0 :: itemsA.map (·.2.2)).map DgY.eff).map inDgX ++ (itemsB.map (·.2.2)).map fun d => inDg d.x) := by
    rw [List.map_append, hframesA _ hkeys, hframesB]
    simp only [framesOf, List.flatMap_append]
  rw [hfr, build_groups false _ hadj, List.filter_append, List.map_append, List.map_append]
  unfold expectedOutX
  congr 1
  · have : ∀ ds : List DgX, (∀ d ∈ ds, d.Keys) →
        (((ds.map inDgX).filter (hasExported false)).map (outDgram false)).map (addressed c) =
          (ds.filter fun d => !d.data.isEmpty).map fun d => addressed c ⟨d.base.srv, d.base.ts, d.data.flatten⟩ := by
      intro ds
      induction ds with
      | nil => intro _; rfl
      | cons d ds ih =>
        intro hk
        have hd := hk d (List.mem_cons_self ..)
        simp only [List.map_cons, List.filter_cons, hasExported_inDgX d hd]
        split
        · simp only [List.map_cons, outDgram_inDgX d hd, ih (fun x hx => hk x (List.mem_cons_of_mem _ hx))]
        · exact ih (fun x hx => hk x (List.mem_cons_of_mem _ hx))
    exact this _ hkeys
  · exact out_tail c _

end From
/-! ### … after a Retry -/
section Retry
variable (maskFn : Dissect.MaskFn) (H : Crypto.Prims) (Pc : Cipher.Prims) (info : Nat → Pipeline.Info)
open TLX.Quic.UdpOut TLX.Props.C02Out

theorem ptrace_prefix (cr csel : Bytes) (t : Tls) (a b : List CryptoIn) (h : PTrace cr csel t (a ++ b)) :
    PTrace cr csel t a := by
  induction a generalizing t with
  | nil => trivial
  | cons c a ih => exact ⟨h.1, h.2.1, ih _ h.2.2⟩

theorem noOut_retry (P : Params Tls) (s : St Tls) : noOut (stampVer (retryReset P s)) = stampVer (retryReset P (noOut s)) := rfl

/-- **the connection with a Retry, 0-RTT packets and one interleaved history.** The client's first Initial datagram `dA`, the
    server's Retry, then `quic_connection_exact_from` for the second attempt: datagrams of coalesced packets of all levels
    with 0-RTT packets (good or of the wrong suite) anywhere, then the 1-RTT-only part. The bookkeeping of the first attempt
    stays (`Trk.afterRetry`); no Early keys survive the Retry (`retryReset`), so the last-call suite starts at `none`. -/
theorem quic_connection_exact_retry_any (hl : H.Lawful) (h32 : H.sha256.outLen = 32) (L : SealLaws Pc)
    (cr csel ch sh ca sa e : Bytes) (sel selR : SuiteSel) (csR : Bytes) (hsel : selectSuite csel = some sel)
    (hselR : selectSuite csR = some selR)
    (ho : (hashOf H sel.hash).outLen < 65536)
    (hsa : sa.length = (hashOf H sel.hash).outLen) (hca : ca.length = (hashOf H sel.hash).outLen)
    -- first attempt
    (klA : List Keylog.Key) (pA : MainLoop.Pkt) (dA : DgH)
    (hklA : KeylogHas klA cr ch sh ca sa (some e))
    (c : QConn) (hc : Fresh H Pc c)
    (hokA : HsDgOk maskFn H Pc L (dgDcid dA) sel sh ch trk0 dA)
    (htrA : PTrace cr csel {} (insOf dA.pkts))
    (hcarA : CarriesH info c (dgWire H Pc L (dgDcid dA) sel sh ch) pA dA)
    -- the Retry
    (klR : List Keylog.Key) (pR : MainLoop.Pkt) (r : Retry) (dcidR : Bytes) (hrwf : r.wf)
    (hrver : r.version ≠ [0, 0, 0, 0]) (hrscid : r.scid.length ≤ 63) (hpR : pR.payload = r.encode)
    -- second attempt
    (kl0 : List Keylog.Key) (p0 : MainLoop.Pkt) (d0 : DgY) (itemsA : List (List Keylog.Key × MainLoop.Pkt × DgY))
    (hkl : ∀ x ∈ (kl0, p0, d0) :: itemsA, KeylogHas x.1 cr ch sh ca sa (some e))
    (hd0 : d0.x.ver = .v1)
    (hok : YDgs maskFn H Pc L d0.x.dcid sel selR sh ch sa ca e (trk0.run dA.pkts).afterRetry none (d0 :: itemsA.map (·.2.2)))
    (htr : PTrace cr csel {} (allInsM ((d0 :: itemsA.map (·.2.2)).map (·.x.base))))
    (hcar : ∀ x ∈ (kl0, p0, d0) :: itemsA,
      CarriesX info c (DgX.wire H Pc L d0.x.dcid sel selR sh ch sa ca e) x.2.1 x.2.2.x)
    (hkeyed : (((d0 :: itemsA.map (·.2.2)).map DgY.eff).foldl Trk.dgx (trk0.run dA.pkts).afterRetry).keyed = true)
    (itemsB : List (List Keylog.Key × MainLoop.Pkt × Dg1))
    (hcarB : ∀ x ∈ itemsB, Carries info c
      (wireOf H Pc L sel .v1 (rfcGen (hashOf H sel.hash) sel.keyLen sa ca 0)) x.2.1 x.2.2)
    (hsend : Send1 maskFn H Pc L sel .v1 (rfcGen (hashOf H sel.hash) sel.keyLen sa ca 0)
      (quicHp (hashOf H sel.hash) ca sel.keyLen) (quicHp (hashOf H sel.hash) sa sel.keyLen)
      (chachaOf (((d0 :: itemsA.map (·.2.2)).map DgY.eff).foldl Trk.dgx (trk0.run dA.pkts).afterRetry).core) 0 0
      (((d0 :: itemsA.map (·.2.2)).map DgY.eff).foldl Trk.dgx (trk0.run dA.pkts).afterRetry).tc.app
      (((d0 :: itemsA.map (·.2.2)).map DgY.eff).foldl Trk.dgx (trk0.run dA.pkts).afterRetry).ts.app
      (((d0 :: itemsA.map (·.2.2)).map DgY.eff).foldl Trk.dgx (trk0.run dA.pkts).afterRetry).cc
      (((d0 :: itemsA.map (·.2.2)).map DgY.eff).foldl Trk.dgx (trk0.run dA.pkts).afterRetry).sc
      (itemsB.map (·.2.2)))
    (hadj : DistinctAdjacent false (((d0 :: itemsA.map (·.2.2)).map DgY.eff).map inDgX ++
      (itemsB.map (·.2.2)).map fun d => inDg d.x)) :
    let QM := quicMachine maskFn H Pc info
    let c1 := QM.feed c klA pA (dgDcid dA) .v1
    let c2 := QM.feed c1 klR pR dcidR .v1
    let c3 := yFeedAll QM c2 ((kl0, p0, d0) :: itemsA)
    (feedAll QM c3 itemsB).raised = none ∧
    QM.out false (feedAll QM c3 itemsB) =
      expectedOutX c ((d0 :: itemsA.map (·.2.2)).map DgY.eff) (itemsB.map (·.2.2)) := by
  intro QM c1 c2 c3
  obtain ⟨hfresh, hr⟩ := hc
  have hpreA : HsSt H (dgDcid dA) sel ch sh ca sa trk0.keyed (feedPre H (params H Pc klA) c.st (dgDcid dA) .v1)
      trk0.tc trk0.ts trk0.cc trk0.sc trk0.core := by
    rw [hfresh]; exact feedPre_fresh H Pc klA h32 (dgDcid dA) sel ch sh ca sa
  obtain ⟨a1, a2, _, a4, a5, a6, a7, a8, a9⟩ := hs_feed_step maskFn H Pc info hl klA L (dgDcid dA) cr csel ch sh ca sa
    (some e) sel hsel hklA trk0 dA hokA [] c hr hpreA (by rw [List.append_nil]; exact htrA) pA hcarA
  have hc2 : c2 = { c1 with st := stampVer (retryReset (params H Pc klR) c1.st), raised := none } :=
    retry_feed maskFn H Pc info klR (dgDcid dA) r hrwf hrver hrscid c1 a1 a2.inv pR hpR dcidR
  have hv0 : sver d0.x.ver = .v1 := by rw [hd0]; rfl
  have hpre2 : HsSt H d0.x.dcid sel ch sh ca sa (trk0.run dA.pkts).afterRetry.keyed
      (feedPre H (params H Pc kl0) (noOut c2.st) d0.x.dcid (sver d0.x.ver)) (trk0.run dA.pkts).afterRetry.tc
      (trk0.run dA.pkts).afterRetry.ts (trk0.run dA.pkts).afterRetry.cc (trk0.run dA.pkts).afterRetry.sc
      (trk0.run dA.pkts).afterRetry.core := by
    rw [hc2, hv0]
    show HsSt H _ sel ch sh ca sa _ (feedPre H _ (noOut (stampVer (retryReset (params H Pc klR) c1.st))) _ _) _ _ _ _ _
    rw [noOut_retry]
    exact after_retry_pre H Pc klR kl0 h32 (dgDcid dA) d0.x.dcid sel ch sh ca sa _ (noOut c1.st) _ _ _ _ _
      (hsSt_noOut H _ _ _ _ _ _ _ _ _ _ _ _ _ a2)
  have hout2 : expo c2.st.out = [] := by
    rw [hc2]
    show expo c1.st.out = []
    exact expo_none _ a2.inv.out
  have hcl2 : c2.client = c.client := by rw [hc2]; exact a6
  obtain ⟨r1, r2, _⟩ := quic_connection_exact_from maskFn H Pc info hl L d0.x.dcid cr csel ch sh ca sa e sel selR csR hsel hselR ho
    hsa hca (trk0.run dA.pkts).afterRetry none kl0 p0 d0 itemsA hkl c2 (by rw [hc2]) hout2 hpre2
    (by intro selX hx; cases hx) hok htr
    (fun x hx => by
      obtain ⟨u1, u2, u3⟩ := hcar x hx
      exact ⟨u1, u2, by rw [hcl2]; exact u3⟩)
    hkeyed itemsB
    (fun x hx => by
      obtain ⟨u1, u2, u3⟩ := hcarB x hx
      exact ⟨u1, u2, by rw [hcl2]; exact u3⟩)
    hsend hadj
  refine ⟨r1, ?_⟩
  rw [r2]
  unfold expectedOutX expectedOut
  rw [addressed_congr c c2 (by rw [hc2]; exact a4) (by rw [hc2]; exact a5) hcl2 (by rw [hc2]; exact a7)
    (by rw [hc2]; exact a8) (by rw [hc2]; exact a9)]

end Retry

end TLX.Props.C02All
