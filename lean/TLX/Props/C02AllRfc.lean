import TLX.Props.C02AllConn
import TLX.Props.C02Rfc
set_option autoImplicit false
set_option linter.unusedSimpArgs false
set_option linter.unusedVariables false
/-! # C02, all together — 2. hypotheses in the senders' terms

`EarlyAt` / `ecs_of_early`: for WHICH suite the tool holds Early keys when a 0-RTT packet arrives, as a predicate on the OFFER
(before the ServerHello, once every fragment of the ClientHello has been delivered: the FIRST suite of the client's list;
after the ServerHello: the selected one) — derived from the parser (`C02Rfc.phase_run`: `steps_quiet`, `steps_hello`,
`ecs_hello`, `ecs_keep`). `YDgR` / `YDgsR`: the datagrams of the interleaved history with 0-RTT packets relative to the
senders' own bookkeeping (`C02Rfc.RTrk`); `ydg_of_rfc` / `ydgs_of_rfc` derive the tool-side `C02Zr.YDgOk` / `YDgs`.
Core Lean only. -/
namespace TLX.Props.C02All
open TLX TLX.Quic TLX.Cipher TLX.Quic.Session TLX.Lemmas.QuicSession TLX.Spec.QuicSender TLX.Spec.QuicFrames
open TLX.Props.C02Session TLX.Spec.QuicConnection TLX.Spec.QuicPackets TLX.QuicPipeline
open TLX.Props.C02Capstone TLX.Props.C02Capstone3 TLX.Props.C02Capstone4 TLX.Props.C02Zr TLX.Props.C02Rfc
open TLX.Props.C02Pipeline TLX.Quic.CryptoStream TLX.Lemmas.CryptoStream TLX.Spec.TlsHandshakeFraming
open TLX.Spec.TlsHello TLX.Lemmas.TlsHello TLX.Spec.RfcQuic

/-! ### which suite the tool's Early keys are for, by the OFFER order -/
section Offer

/-- the CRYPTO inputs `a` deliver every fragment of the ClientHello at least once -/
def ChComplete (h : ConfHs) (a : List CryptoIn) : Prop :=
  ∃ dups : List Wire, (a.map wireIn).Perm (framesOf 0 h.chFrs ++ dups) ∧ ∀ d ∈ dups, d ∈ framesOf 0 h.chFrs

/-- along `Steps` that hand over nothing, nothing happens -/
theorem steps_quiet (t : Tls) (ins : List CryptoIn) (news : List (List Bytes)) (hs : Steps t ins news)
    (hq : news.flatten = []) (hnd : t.msgs.newData = false) (e : Option SuiteSel) :
    ecsFold t ins e = e ∧ (pfold t ins).msgs = t.msgs := by
  induction ins generalizing t news with
  | nil => cases news with
    | nil => exact ⟨rfl, rfl⟩
    | cons _ _ => cases hs
  | cons c cs ih =>
    cases news with
    | nil => cases hs
    | cons n ns =>
      obtain ⟨h1, h2, h3⟩ := hs
      have hn : n = [] := by
        have := congrArg List.length hq
        simp only [List.flatten_cons, List.length_append, List.length_nil] at this
        exact List.eq_nil_of_length_eq_zero (by omega)
      have hns : ns.flatten = [] := by rw [hn] at hq; simpa using hq
      subst hn
      have hm : (tlsUpdate t c).1.msgs = t.msgs := by rw [h2]; simp [feedRecords]
      have hcl : (clearND (tlsUpdate t c).1).msgs = t.msgs := by
        show { (tlsUpdate t c).1.msgs with newData := false } = _
        rw [hm]; exact clear_id _ hnd
      obtain ⟨i1, i2⟩ := ih (clearND (tlsUpdate t c).1) ns h3 hns (by rw [hcl]; exact hnd)
      refine ⟨?_, ?_⟩
      · simp only [ecsFold, hm, hnd, Bool.false_eq_true, if_false]; exact i1
      · show (pfold (clearND (tlsUpdate t c).1) cs).msgs = _
        rw [i2, hcl]

/-- along `Steps` that hand over exactly the ClientHello: one `set_tls_decryptors` call, with the FIRST OFFERED suite -/
theorem steps_hello (ch : ClientHello) (hwf : ch.WellFormed) (t : Tls) (ins : List CryptoIn) (news : List (List Bytes))
    (hs : Steps t ins news) (hq : news.flatten = [encodeClientHello ch]) (hnd : t.msgs.newData = false)
    (e : Option SuiteSel) :
    ecsFold t ins e = (match ch.cipherSuites.head?.bind selectSuite with | some x => some x | none => e) ∧
    (pfold t ins).msgs.ciphersuite = ch.cipherSuites.head? ∧ (pfold t ins).msgs.newData = false := by
  induction ins generalizing t news with
  | nil => cases news with
    | nil => simp at hq
    | cons _ _ => cases hs
  | cons c cs ih =>
    cases news with
    | nil => cases hs
    | cons n ns =>
      obtain ⟨h1, h2, h3⟩ := hs
      cases n with
      | nil =>
        have hm : (tlsUpdate t c).1.msgs = t.msgs := by rw [h2]; simp [feedRecords]
        have hcl : (clearND (tlsUpdate t c).1).msgs = t.msgs := by
          show { (tlsUpdate t c).1.msgs with newData := false } = _
          rw [hm]; exact clear_id _ hnd
        obtain ⟨i1, i2, i3⟩ := ih (clearND (tlsUpdate t c).1) ns h3 (by simpa using hq) (by rw [hcl]; exact hnd)
        refine ⟨?_, i2, i3⟩
        simp only [ecsFold, hm, hnd, Bool.false_eq_true, if_false]; exact i1
      | cons m n' =>
        have hmm : m = encodeClientHello ch ∧ n' = [] ∧ ns.flatten = [] := by
          simp only [List.flatten_cons, List.cons_append, List.cons.injEq, List.append_eq_nil_iff] at hq
          exact ⟨hq.1, hq.2.1, hq.2.2⟩
        obtain ⟨rfl, rfl, hns⟩ := hmm
        obtain ⟨s', e1, c1, c2, _, _, c6, _⟩ := C02Hello.client_hello_parsed ch hwf t.msgs
        have hf : feedRecords t.msgs [encodeClientHello ch] = s' := by
          unfold encodeClientHello at e1 ⊢; rw [feed_one 1 (by decide), e1]
        rw [hf] at h2
        obtain ⟨i1, i2⟩ := steps_quiet (clearND (tlsUpdate t c).1) cs ns h3 hns (by rfl)
          (match ch.cipherSuites.head?.bind selectSuite with | some x => some x | none => e)
        refine ⟨?_, ?_, ?_⟩
        · simp only [ecsFold, h2, c6, if_true, c2]; exact i1
        · show (pfold (clearND (tlsUpdate t c).1) cs).msgs.ciphersuite = _
          rw [i2]; show (tlsUpdate t c).1.msgs.ciphersuite = _; rw [h2, c2]
        · show (pfold (clearND (tlsUpdate t c).1) cs).msgs.newData = _
          rw [i2]; rfl

theorem chIns_complete (h : ConfHs) (hok : h.Ok) : ChComplete h (chIns h) :=
  ⟨h.chDups, by unfold chIns; rw [wireIn_inOf]; exact hok.chPerm, hok.chDupsOk⟩

/-- **before the ServerHello**: once the CRYPTO inputs have delivered every fragment of the ClientHello (any order, any
    duplicates), `set_tls_decryptors` has been called exactly once — with the FIRST suite of the client's offer; the parser's
    `ciphersuite` is that suite -/
theorem ecs_hello (h : ConfHs) (hok : h.Ok) (a : List CryptoIn) (ha : a <+: chIns h) (hc : ChComplete h a) :
    ecsFold {} a none = h.ch.cipherSuites.head?.bind selectSuite ∧
    (pfold {} a).msgs.ciphersuite = h.ch.cipherSuites.head? ∧ (pfold {} a).msgs.newData = false := by
  obtain ⟨cb1, cb2⟩ := ch_body h.ch hok.ch
  have hM1 : implFrame h.chFrs.flatten = [encodeClientHello h.ch] := by
    rw [hok.chCut.2]
    have := single_msgs 1 h.ch.body cb1 cb2
    simp only [List.flatten_cons, List.flatten_nil, List.append_nil] at this
    exact this
  have r1 : recordRaises (encodeClientHello h.ch) = false := by
    unfold encodeClientHello
    rw [raises_one 1 (by decide)]
    obtain ⟨s', e, _⟩ := C02Hello.client_hello_parsed h.ch hok.ch {}
    unfold encodeClientHello at e; rw [e]; rfl
  have hall := phase_inputs_ok false .initial h.chFrs h.chDl (by
    intro w hw
    rcases List.mem_append.mp (hok.chPerm.mem_iff.mp hw) with hh | hh
    · exact hh
    · exact hok.chDupsOk w hh)
  obtain ⟨news, D, cum, st, c1, _, _, i1, _, idok, _, w1⟩ :=
    phase_run false .initial .initial rfl h.chFrs hok.chCut.1
      (by rw [hM1]; intro m hm; simp only [List.mem_singleton] at hm; subst hm; exact r1)
      a (fun c hc' => hall c (ha.subset hc'))
      {} [] [] allDrained_init (inv_init _) (by intro g hg; cases hg) (by intro x hx; cases hx)
  obtain ⟨dups, hp, hd⟩ := hc
  have hdel : C02Crypto.Delivery h.chFrs D := ⟨⟨dups, by rw [w1]; simpa using hp, hd⟩, idok⟩
  have hcum := inv_complete _ _ _ _ i1 hdel
  rw [hM1, c1, List.nil_append] at hcum
  obtain ⟨e1, e2, e3⟩ := steps_hello h.ch hok.ch {} a news st hcum rfl none
  refine ⟨?_, e2, e3⟩
  rw [e1]; cases h.ch.cipherSuites.head?.bind selectSuite <;> rfl

/-- the last-call suite does not move while every parser state names the suite `cs` -/
theorem ecs_keep (cs : Bytes) (sel : SuiteSel) (hsel : selectSuite cs = some sel) (t : Tls) (ins : List CryptoIn)
    (h : ∀ b, b <+: ins → b ≠ [] → (pfold t b).msgs.ciphersuite = some cs) :
    ecsFold t ins (some sel) = some sel := by
  induction ins generalizing t with
  | nil => rfl
  | cons c cs' ih =>
    have h1 : (tlsUpdate t c).1.msgs.ciphersuite = some cs := by
      have := h [c] (by simp) (by simp)
      simpa [pfold, clearND] using this
    rw [ecsFold, h1]
    simp only [Option.bind_some, hsel, ite_self]
    refine ih _ ?_
    intro b hb hne
    have := h (c :: b) (List.cons_prefix_cons.mpr ⟨rfl, hb⟩) (by simp)
    simpa [pfold] using this

/-- when the tool's Early keys are derived, and for which suite — by the OFFER: after the ServerHello for the selected
    suite; before it, once the ClientHello is complete, for the FIRST suite of the client's list (if the tool knows it) -/
def EarlyAt (h : ConfHs) (sel : SuiteSel) (a : List CryptoIn) (selT : SuiteSel) : Prop :=
  (a.any (·.isServer) = true ∧ selT = sel) ∨
  (a.any (·.isServer) = false ∧ ChComplete h a ∧ h.ch.cipherSuites.head?.bind selectSuite = some selT)

theorem ecs_of_early (h : ConfHs) (hok : h.Ok) (sel : SuiteSel) (hsel : selectSuite h.sh.cipherSuite = some sel)
    (a : List CryptoIn) (ha : a <+: h.ins) (selT : SuiteSel) (hE : EarlyAt h sel a selT) :
    ecsFold {} a none = some selT ∧ chachaOf (pfold {} a) = hpChacha selT := by
  rcases hE with ⟨hany, rfl⟩ | ⟨hany, hc, hf⟩
  · refine ⟨?_, chacha_sync h hok selT hsel a ha hany⟩
    rcases prefix_cases h a ha with ⟨_, hn⟩ | ⟨b, rfl, hb, _⟩
    · rw [hn] at hany; cases hany
    · have hsplit : chIns h ++ shIn h :: b = chIns h ++ ([shIn h] ++ b) := by simp
      rw [hsplit, ecsFold_append, ecsFold_append]
      obtain ⟨p2, p1⟩ := parser_facts h hok
      have hnd : (tlsUpdate (pfold {} (chIns h)) (shIn h)).1.msgs.newData = true := by
        simpa [pfired] using p2
      have hcs : (tlsUpdate (pfold {} (chIns h)) (shIn h)).1.msgs.ciphersuite = some h.sh.cipherSuite := by
        have := p1 [] (List.nil_prefix)
        simpa [pfold, clearND, List.foldl_append] using this
      have hat : ecsFold (pfold {} (chIns h)) [shIn h] (ecsFold {} (chIns h) none) = some selT := by
        simp only [ecsFold, hnd, if_true, hcs, Option.bind_some, hsel]
      rw [hat]
      refine ecs_keep h.sh.cipherSuite selT hsel _ b ?_
      intro b' hb' _
      have := p1 b' (hb'.trans hb)
      rw [show chIns h ++ shIn h :: b' = chIns h ++ ([shIn h] ++ b') by simp, pfold_app, pfold_app] at this
      exact this
  · rcases prefix_cases h a ha with ⟨hpre, _⟩ | ⟨_, _, _, hy⟩
    · obtain ⟨e1, e2, _⟩ := ecs_hello h hok a hpre hc
      refine ⟨by rw [e1, hf], ?_⟩
      unfold chachaOf
      rw [e2]
      cases hh : h.ch.cipherSuites.head? with
      | none => rw [hh] at hf; cases hf
      | some c =>
        rw [hh] at hf
        rw [← chacha_of_sel c selT hf]; simp
    · rw [hy] at hany; cases hany

end Offer
/-! ### the senders' bookkeeping along the interleaved history with 0-RTT packets -/
section SenderY
variable (maskFn : Dissect.MaskFn) (H : Crypto.Prims) (Pc : Cipher.Prims)
open TLX.Spec.KeySchedules

def _root_.TLX.Props.C02Rfc.RTrk.zr (r : RTrk) (x : SPkt) : RTrk :=
  { r with tc := { r.tc with app := max r.tc.app x.pn }, cc := issue r.cc (newCids x.frames) }

def _root_.TLX.Props.C02Rfc.RTrk.short (r : RTrk) (x : SPkt) : RTrk :=
  { r with tc := if x.srv then r.tc else { r.tc with app := max r.tc.app x.pn },
           ts := if x.srv then { r.ts with app := max r.ts.app x.pn } else r.ts,
           cc := if x.srv then r.cc else issue r.cc (newCids x.frames),
           sc := if x.srv then issue r.sc (newCids x.frames) else r.sc }

def _root_.TLX.Props.C02Rfc.RTrk.dgx (r : RTrk) (d : DgX) : RTrk :=
  let r1 := (d.zr.foldl (fun r q => r.zr q.x) (r.run (d.base.longs.take d.pos))).run (d.base.longs.drop d.pos)
  match d.base.short with
  | none => r1
  | some o => r1.short o.x

theorem sync_zr (a : List CryptoIn) (t : Trk) (r : RTrk) (h : Sync a t r) (qs : List PkH) :
    Sync a (qs.foldl (fun t q => t.zr q.x) t) (qs.foldl (fun r q => r.zr q.x) r) := by
  induction qs generalizing t r with
  | nil => exact h
  | cons q qs ih =>
    refine ih _ _ ?_
    obtain ⟨s1, s2, s3, s4, s5, s6, s7⟩ := h
    exact ⟨s1, s2, s3, by simp only [Trk.zr, RTrk.zr, s4], s5, by simp only [Trk.zr, RTrk.zr, s6], s7⟩

theorem sync_short (a : List CryptoIn) (t : Trk) (r : RTrk) (h : Sync a t r) (x : SPkt) :
    Sync a (t.short x) (r.short x) := by
  obtain ⟨s1, s2, s3, s4, s5, s6, s7⟩ := h
  exact ⟨s1, s2, s3, by simp only [Trk.short, RTrk.short, s4], by simp only [Trk.short, RTrk.short, s5],
    by simp only [Trk.short, RTrk.short, s6], by simp only [Trk.short, RTrk.short, s7]⟩

/-- the closing 1-RTT packet of a datagram, in the senders' terms -/
def ShortR (L : SealLaws Pc) (sel : SuiteSel) (sa ca : Bytes) (r : RTrk) (srv : Bool) (ts : Nat) (dcid : Bytes) (o : Dg1) :
    Prop :=
  o.x.srv = srv ∧ o.x.ts = ts ∧ o.x.dcid = dcid ∧ r.shSent = true ∧ o.x.level = .oneRtt ∧ o.x.gen = 0 ∧
  PnLenOk (if o.x.srv then r.ts.app else r.tc.app) o.x.pn o.x.pnLen ∧ WellFormedSeq o.x.frames ∧
  DgOk maskFn Pc L sel.alg (genDir (keyUpdate H sel .v1) (rfcGen (hashOf H sel.hash) sel.keyLen sa ca 0) o.x.srv 0)
    (if o.x.srv then quicHp (hashOf H sel.hash) sa sel.keyLen else quicHp (hashOf H sel.hash) ca sel.keyLen)
    (hpChacha sel) o

/-- **one datagram of the connection in the senders' terms** (`a`: the CRYPTO inputs sent before it, `r`: the senders'
    bookkeeping). Long-header packets `HsPksR`; the 0-RTT packets stand behind the first `pos` of them, protected for the
    resumed suite `selR`; `early` says for WHICH suite `selT` the tool holds Early keys at that point — `EarlyAt`, a
    predicate on the offer — and `d.good` must say whether that is the client's: if so the packets are as RFC 9001 has them
    (header protection of `selR`), if not the tool's AEAD check on them fails (`RejectedT`); the closing 1-RTT packet
    `ShortR`. -/
structure YDgR (L : SealLaws Pc) (dcid0 : Bytes) (sel selR : SuiteSel) (sh ch sa ca e : Bytes) (h : ConfHs)
    (a : List CryptoIn) (r : RTrk) (d : DgY) : Prop where
  client : d.x.zr ≠ [] → d.x.base.srv = false
  dirL : ∀ q ∈ d.x.base.longs, q.x.srv = d.x.base.srv ∧ q.x.ts = d.x.base.ts
  dirZ : ∀ q ∈ d.x.zr, q.x.ts = d.x.base.ts
  cid : DcidOk r.cc r.sc d.x.base.srv d.x.dcid
  pre : HsPksR maskFn H Pc L dcid0 sel sh ch r (d.x.base.longs.take d.x.pos)
  early : d.x.zr ≠ [] → ∃ selT, EarlyAt h sel (a ++ insOf (d.x.base.longs.take d.x.pos)) selT ∧
    (if d.good then
      selT = selR ∧ ∀ (i : Nat) (q : PkH), d.x.zr[i]? = some q → ZrShape q.x ∧ (∀ f ∈ q.x.frames, isCryptoQ f = false) ∧
        WellFormedSeq q.x.frames ∧
        PnLenOk ((d.x.zr.take i).foldl (fun r q => r.zr q.x) (r.run (d.x.base.longs.take d.x.pos))).tc.app q.x.pn q.x.pnLen ∧
        maskFn (hpChacha selR) (quicHp (hashOf H selR.hash) e selR.keyLen)
          (longOf q.x (protectedPayload L.aeadSeal selR.alg (earlyDec H selR e).client q.x)).sample = some q.mask ∧
        5 ≤ q.mask.length
     else
      ∀ q ∈ d.x.zr, ZrShape q.x ∧ 1 ≤ q.x.pnLen ∧ q.x.pnLen ≤ 4 ∧ 5 ≤ q.mask.length ∧
        ∃ m', maskFn (hpChacha selT) (quicHp (hashOf H selT.hash) e selT.keyLen)
            (longOf q.x (protectedPayload L.aeadSeal selR.alg (earlyDec H selR e).client q.x)).sample = some m' ∧
          5 ≤ m'.length ∧
          RejectedT H Pc selT e (r.run (d.x.base.longs.take d.x.pos)).tc.app
            ((remask (longOf q.x (protectedPayload L.aeadSeal selR.alg (earlyDec H selR e).client q.x)) q.mask m').toPkt
              false q.x.ts))
  post : HsPksR maskFn H Pc L dcid0 sel sh ch
    (d.eff.zr.foldl (fun r q => r.zr q.x) (r.run (d.x.base.longs.take d.x.pos))) (d.x.base.longs.drop d.x.pos)
  short : ∀ o, d.x.base.short = some o → ShortR maskFn H Pc L sel sa ca
    ((d.eff.zr.foldl (fun r q => r.zr q.x) (r.run (d.x.base.longs.take d.x.pos))).run (d.x.base.longs.drop d.x.pos))
    d.x.base.srv d.x.base.ts d.x.dcid o

def YDgsR (L : SealLaws Pc) (dcid0 : Bytes) (sel selR : SuiteSel) (sh ch sa ca e : Bytes) (h : ConfHs) :
    List CryptoIn → RTrk → List DgY → Prop
  | _, _, [] => True
  | a, r, d :: ds => YDgR maskFn H Pc L dcid0 sel selR sh ch sa ca e h a r d ∧
      YDgsR L dcid0 sel selR sh ch sa ca e h (a ++ insOf d.x.base.longs) (r.dgx d.eff) ds

variable {maskFn H Pc}

theorem eff_base (d : DgY) : d.eff.base = d.x.base ∧ d.eff.pos = d.x.pos := by
  obtain ⟨x, g⟩ := d; cases g <;> exact ⟨rfl, rfl⟩

theorem dgx_eff (t : Trk) (d : DgY) : t.dgx d.eff = match d.x.base.short with
    | none => (d.eff.zr.foldl (fun t q => t.zr q.x) (t.run (d.x.base.longs.take d.x.pos))).run (d.x.base.longs.drop d.x.pos)
    | some o => ((d.eff.zr.foldl (fun t q => t.zr q.x) (t.run (d.x.base.longs.take d.x.pos))).run (d.x.base.longs.drop d.x.pos)).short o.x := by
  obtain ⟨x, g⟩ := d; cases g <;> rfl

theorem rdgx_eff (r : RTrk) (d : DgY) : r.dgx d.eff = match d.x.base.short with
    | none => (d.eff.zr.foldl (fun r q => r.zr q.x) (r.run (d.x.base.longs.take d.x.pos))).run (d.x.base.longs.drop d.x.pos)
    | some o => ((d.eff.zr.foldl (fun r q => r.zr q.x) (r.run (d.x.base.longs.take d.x.pos))).run (d.x.base.longs.drop d.x.pos)).short o.x := by
  obtain ⟨x, g⟩ := d; cases g <;> rfl

/-- every tool-side hypothesis of one datagram (`YDgOk`: the observer's bookkeeping, the last-call suite `ecsFold`, the
    parser's `ciphersuite`) from the senders' (`YDgR`) along a conformant handshake -/
theorem ydg_of_rfc (h : ConfHs) (hok : h.Ok) (L : SealLaws Pc) (dcid0 : Bytes) (sel selR : SuiteSel) (sh ch sa ca e : Bytes)
    (hsel : selectSuite h.sh.cipherSuite = some sel) (d : DgY) (a rest : List CryptoIn)
    (hins : h.ins = a ++ insOf d.x.base.longs ++ rest) (t : Trk) (r : RTrk) (hs : Sync a t r)
    (ecs : Option SuiteSel) (hecs : ecs = ecsFold {} a none)
    (hd : YDgR maskFn H Pc L dcid0 sel selR sh ch sa ca e h a r d) :
    YDgOk maskFn H Pc L dcid0 sel selR sh ch sa ca e t ecs d ∧
    Sync (a ++ insOf d.x.base.longs) (t.dgx d.eff) (r.dgx d.eff) ∧
    ecsDgx t ecs d.eff = ecsFold {} (a ++ insOf d.x.base.longs) none := by
  obtain ⟨hclient, hdirL, hdirZ, hcid, hpre, hearly, hpost, hshort⟩ := hd
  have hsplit : insOf d.x.base.longs = insOf (d.x.base.longs.take d.x.pos) ++ insOf (d.x.base.longs.drop d.x.pos) := by
    unfold insOf; rw [← List.flatMap_append, List.take_append_drop]
  have hins1 : h.ins = a ++ insOf (d.x.base.longs.take d.x.pos) ++ (insOf (d.x.base.longs.drop d.x.pos) ++ rest) := by
    rw [hins, hsplit]; simp [List.append_assoc]
  obtain ⟨p1, s1⟩ := pks_of_rfc h hok L dcid0 sel sh ch hsel _ a _ hins1 t r hs hpre
  have hpre1 : a ++ insOf (d.x.base.longs.take d.x.pos) <+: h.ins := ⟨_, hins1.symm⟩
  -- the 0-RTT packets do not move the parser
  have sz := sync_zr _ _ _ s1 d.eff.zr
  have hins2 : h.ins = (a ++ insOf (d.x.base.longs.take d.x.pos)) ++ insOf (d.x.base.longs.drop d.x.pos) ++ rest := by
    rw [hins1]; simp [List.append_assoc]
  obtain ⟨p2, s2⟩ := pks_of_rfc h hok L dcid0 sel sh ch hsel _ _ _ hins2 _ _ sz hpost
  have hafter : a ++ insOf (d.x.base.longs.take d.x.pos) ++ insOf (d.x.base.longs.drop d.x.pos) =
      a ++ insOf d.x.base.longs := by rw [hsplit, List.append_assoc]
  rw [hafter] at s2
  have hpre2 : a ++ insOf d.x.base.longs <+: h.ins := ⟨rest, hins.symm⟩
  -- the closing 1-RTT packet
  have hshortT : ∀ o, d.x.base.short = some o → o.x.srv = d.x.base.srv ∧ o.x.ts = d.x.base.ts ∧ o.x.dcid = d.x.dcid ∧
      ((d.eff.zr.foldl (fun t q => t.zr q.x) (t.run (d.x.base.longs.take d.x.pos))).run (d.x.base.longs.drop d.x.pos)).keyed = true ∧
      o.x.level = .oneRtt ∧ o.x.gen = 0 ∧
      PnLenOk (if o.x.srv then ((d.eff.zr.foldl (fun t q => t.zr q.x) (t.run (d.x.base.longs.take d.x.pos))).run (d.x.base.longs.drop d.x.pos)).ts.app
        else ((d.eff.zr.foldl (fun t q => t.zr q.x) (t.run (d.x.base.longs.take d.x.pos))).run (d.x.base.longs.drop d.x.pos)).tc.app) o.x.pn o.x.pnLen ∧
      WellFormedSeq o.x.frames ∧
      DgOk maskFn Pc L sel.alg (genDir (keyUpdate H sel .v1) (rfcGen (hashOf H sel.hash) sel.keyLen sa ca 0) o.x.srv 0)
        (if o.x.srv then quicHp (hashOf H sel.hash) sa sel.keyLen else quicHp (hashOf H sel.hash) ca sel.keyLen)
        (chachaOf ((d.eff.zr.foldl (fun t q => t.zr q.x) (t.run (d.x.base.longs.take d.x.pos))).run (d.x.base.longs.drop d.x.pos)).core) o := by
    intro o ho
    obtain ⟨o1, o2, o3, o4, o5, o6, o7, o8, o9⟩ := hshort o ho
    have hk : (a ++ insOf d.x.base.longs).any (·.isServer) = true := by rw [← s2.sent]; exact o4
    refine ⟨o1, o2, o3, by rw [s2.keyed]; exact o4, o5, o6, by rw [s2.ts, s2.tc]; exact o7, o8, ?_⟩
    rw [s2.core, chacha_sync h hok sel hsel _ hpre2 hk]
    exact o9
  -- the last-call suite
  have hecs1 : ecsFold t.core (insOf (d.x.base.longs.take d.x.pos)) ecs =
      ecsFold {} (a ++ insOf (d.x.base.longs.take d.x.pos)) none := by
    rw [hecs, hs.core, ← ecsFold_append]
  have hecs2 : ecsDgx t ecs d.eff = ecsFold {} (a ++ insOf d.x.base.longs) none := by
    unfold ecsDgx DgX.tz DgX.t1
    rw [(eff_base d).1, (eff_base d).2, (zr_core _ d.eff.zr).1, hecs1, s1.core, ← ecsFold_append, hafter]
  have hdgx := dgx_eff t d
  have hrdgx := rdgx_eff r d
  have hsync : Sync (a ++ insOf d.x.base.longs) (t.dgx d.eff) (r.dgx d.eff) := by
    rw [hdgx, hrdgx]
    cases d.x.base.short with
    | none => exact s2
    | some o => exact sync_short _ _ _ s2 o.x
  refine ⟨?_, hsync, hecs2⟩
  obtain ⟨x, good⟩ := d
  cases good with
  | true =>
    show XDgOkE maskFn H Pc L dcid0 sel selR sh ch sa ca e t ecs x
    have hz : ∀ hzn : x.zr ≠ [], ecsFold t.core (insOf (x.base.longs.take x.pos)) ecs = some selR ∧
        chachaOf (DgX.t1 t x).core = hpChacha selR := by
      intro hzn
      obtain ⟨selT, hE, hg⟩ := hearly hzn
      simp only [if_true] at hg
      obtain ⟨e1, e2⟩ := ecs_of_early h hok sel hsel _ hpre1 selT hE
      rw [hg.1] at e1 e2
      exact ⟨by rw [hecs1]; exact e1, by unfold DgX.t1; rw [s1.core]; exact e2⟩
    refine ⟨hclient, hdirL, hdirZ, by rw [hs.cc, hs.sc]; exact hcid, p1, fun hzn => (hz hzn).1, ?_, p2, hshortT⟩
    intro i q hi
    have hzn : x.zr ≠ [] := by intro h0; rw [h0] at hi; simp at hi
    obtain ⟨selT, hE, hg⟩ := hearly hzn
    simp only [if_true] at hg
    obtain ⟨z1, z2, z3, z4, z5, z6⟩ := hg.2 i q hi
    refine ⟨z1, z2, z3, ?_, by rw [(hz hzn).2]; exact z5, z6⟩
    have := (sync_zr _ _ _ s1 (x.zr.take i)).tc
    unfold DgX.t1
    rw [this]; exact z4
  | false =>
    show XDgBad maskFn H Pc L dcid0 sel selR sh ch sa ca e t ecs x
    refine ⟨hclient, hdirL, hdirZ, by rw [hs.cc, hs.sc]; exact hcid, p1, ?_, p2, hshortT⟩
    intro hzn
    obtain ⟨selT, hE, hg⟩ := hearly hzn
    simp only [Bool.false_eq_true, if_false] at hg
    obtain ⟨e1, e2⟩ := ecs_of_early h hok sel hsel _ hpre1 selT hE
    refine ⟨selT, by rw [hecs1]; exact e1, ?_⟩
    intro q hq
    obtain ⟨z1, z2, z3, z4, m', z5, z6, z7⟩ := hg q hq
    refine ⟨z1, z2, z3, z4, m', ?_, z6, ?_⟩
    · unfold DgX.t1; rw [s1.core, e2]; exact z5
    · unfold DgX.t1; rw [s1.tc]; exact z7

theorem ydgs_of_rfc (h : ConfHs) (hok : h.Ok) (L : SealLaws Pc) (dcid0 : Bytes) (sel selR : SuiteSel) (sh ch sa ca e : Bytes)
    (hsel : selectSuite h.sh.cipherSuite = some sel) (ds : List DgY) (a rest : List CryptoIn)
    (hins : h.ins = a ++ allInsM (ds.map (·.x.base)) ++ rest) (t : Trk) (r : RTrk) (hs : Sync a t r)
    (ecs : Option SuiteSel) (hecs : ecs = ecsFold {} a none)
    (hd : YDgsR maskFn H Pc L dcid0 sel selR sh ch sa ca e h a r ds) :
    YDgs maskFn H Pc L dcid0 sel selR sh ch sa ca e t ecs ds ∧
    Sync (a ++ allInsM (ds.map (·.x.base))) ((ds.map DgY.eff).foldl Trk.dgx t) ((ds.map DgY.eff).foldl RTrk.dgx r) := by
  induction ds generalizing a t r ecs with
  | nil => exact ⟨trivial, by simpa [allInsM] using hs⟩
  | cons d ds ih =>
    obtain ⟨hd1, hd2⟩ := hd
    have hins' : h.ins = a ++ insOf d.x.base.longs ++ (allInsM (ds.map (·.x.base)) ++ rest) := by
      rw [hins]; simp [allInsM, List.flatMap_cons, List.append_assoc]
    obtain ⟨y1, y2, y3⟩ := ydg_of_rfc h hok L dcid0 sel selR sh ch sa ca e hsel d a _ hins' t r hs ecs hecs hd1
    obtain ⟨i1, i2⟩ := ih (a ++ insOf d.x.base.longs)
      (by rw [hins']; simp [List.append_assoc]) (t.dgx d.eff) (r.dgx d.eff) y2 _ y3 hd2
    refine ⟨⟨y1, i1⟩, ?_⟩
    have : a ++ allInsM ((d :: ds).map (·.x.base)) = a ++ insOf d.x.base.longs ++ allInsM (ds.map (·.x.base)) := by
      simp [allInsM, List.flatMap_cons, List.append_assoc]
    rw [this]
    exact i2

end SenderY

end TLX.Props.C02All
