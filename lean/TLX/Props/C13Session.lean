/-
C13 (TLS session part, composed with the builder) — metadata export only adds packets.

For EVERY decryptor behaviour and EVERY record sequence: running the session with `exp_meta` on and off leads to the
same decryptor / handshake state, and the traffic list without `-a` is exactly the traffic list with `-a` minus the
metadata entries (`session_meta_only_adds`). Composed with the TCP builder (`tls_meta_export_sublist`): the
payload-carrying segments exported without `-a` are a subsequence — same direction, capture time and payload, same
order — of those exported with `-a`. `hello_records_verbatim`: with `-a` every handshake-type record (ClientHello,
ServerHello, …) is appended verbatim as an entry of its own, carried by its own packets.
-/
import TLX.Lemmas.Session
import TLX.Props.C13
namespace TLX.Props.C13
open TLX TLX.Session

variable {δ : Type}

/-- the session's traffic entries as the builder sees them -/
def toRec (e : Entry) : TcpOut.Rec := ⟨e.data, e.record.carriers, e.fromServer⟩

/-- same handshake/decryptor state with and without `-a`; the traffic differs exactly by the metadata entries -/
theorem session_meta_only_adds (O : Ops δ) (rs : List (Rec × Bool)) :
    (run O false St.init rs).traffic = (run O true St.init rs).traffic.filter (·.isApp) ∧
    (run O false St.init rs).core = (run O true St.init rs).core := by
  have h := run_strip O (St.init : St δ) rs
  have h0 : (St.init : St δ).strip = St.init := rfl
  rw [h0] at h
  rw [← h]
  exact ⟨rfl, rfl⟩

/-- builder: a sub-list of records yields a sub-sequence of data segments -/
theorem build_sublist (off on : List TcpOut.Rec) (hs : off.Sublist on) (fsOn fsOff : List TcpOut.Frame)
    (hon : TcpOut.build on = some fsOn) (hoff : TcpOut.build off = some fsOff) :
    (TcpOut.dataFrames fsOff).Sublist (TcpOut.dataFrames fsOn) := by
  rw [TcpOut.build_data _ _ hon, TcpOut.build_data _ _ hoff]
  exact sublist_flatMap TcpOut.recData hs

/-- C13 for TLS, session and builder composed: the data segments without `-a` are a subsequence of those with `-a` -/
theorem tls_meta_export_sublist (O : Ops δ) (rs : List (Rec × Bool)) (fsOn fsOff : List TcpOut.Frame)
    (hon : TcpOut.build ((run O true St.init rs).traffic.map toRec) = some fsOn)
    (hoff : TcpOut.build ((run O false St.init rs).traffic.map toRec) = some fsOff) :
    (TcpOut.dataFrames fsOff).Sublist (TcpOut.dataFrames fsOn) := by
  apply build_sublist _ _ _ fsOn fsOff hon hoff
  rw [(session_meta_only_adds O rs).1]
  exact List.Sublist.map _ List.filter_sublist

/-- with `-a` a handshake-type record is exported verbatim as an entry of its own (after whatever its decryption
    contributed), attributed to the packets that carried it -/
theorem hello_records_verbatim (O : Ops δ) (s : St δ) (r : Rec) (srv : Bool) (h : r.typ = some 0x16) :
    (handleRecord O true s r srv).traffic.getLast? = some ⟨some r.raw, r, srv, false⟩ := by
  unfold handleRecord handleRecordRaw
  rw [h]
  simp only [if_true]
  have ho := handshakeRecord_isOk O true s r srv
  cases hr : handshakeRecord O true s r srv with
  | raised s1 => rw [hr] at ho; cases ho
  | ok s1 => simp [Out.st, pushMeta, St.push]

/-- … and without `-a` a handshake-type record contributes nothing -/
theorem hello_records_silent (O : Ops δ) (s : St δ) (r : Rec) (srv : Bool) (h : r.typ = some 0x16) :
    (handleRecord O false s r srv).traffic = s.traffic := by
  unfold handleRecord handleRecordRaw
  rw [h]
  simp only [if_true]
  have ho := handshakeRecord_isOk O false s r srv
  have hnp : (handshakeRecord O false s r srv).st.traffic = s.traffic := by
    unfold handshakeRecord
    have hfin : (handshakeFinished O false s r srv).st.traffic = s.traffic := by
      unfold handshakeFinished
      cases s.dec with
      | none => rfl
      | some d =>
        simp only
        split
        · rcases hdec : O.decrypt d r srv with ⟨d', _ | pt⟩ <;> rfl
        · rfl
    split
    · rw [tryExcept_id_st]; exact hfin
    · split
      · rfl
      · split
        · rfl
        · split
          · have := serverHello_traffic O s r
            cases hsh : serverHello O s r with
            | ok s' => rw [hsh] at this; exact this
            | raised s' => rw [hsh] at this; exact this
          · rw [tryExcept_id_st]; exact hfin
  cases hr : handshakeRecord O false s r srv with
  | raised s1 => rw [hr] at ho; cases ho
  | ok s1 =>
    rw [hr] at hnp
    simpa [Out.st, pushMeta] using hnp

-- Non-vacuity: a session whose decryptor returns the record body; ClientHello, CCS, application record
def echo : Ops Unit := ⟨fun d r _ => (d, some (some r.body)), fun d _ => (d, true), fun _ _ _ _ _ _ => .installed ()⟩

example :
    ((run echo true St.init [(⟨[0x16, 3, 3, 0, 1, 1], [7]⟩, false), (⟨[0x17, 3, 3, 0, 1, 5], [8]⟩, false)]).traffic.map
      (·.isApp)) = [false] := by decide

end TLX.Props.C13
