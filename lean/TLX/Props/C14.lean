/-
C14 — every cipher-suite code point resolves to the parameters its IANA name denotes.
The table (`TLX.Gen`) is regenerated from /repo on every run, so `table_ok` is re-checked by the
kernel against what the source says now.
-/
import TLX.CipherSuite
import TLX.Spec.IanaRegistry
import TLX.Spec.Denote
namespace TLX.Props.C14
open TLX.CipherSuite

/-- one table entry is right: its code point is the IANA code point of its name, and the model of
    `split_cipher_suite` returns what the name denotes -/
def entryOk (e : Nat × List Nat) : Bool :=
  e.1 < 65536 && Spec.Iana.lookup e.1 == some e.2 &&
    Spec.denote e.2 == some (splitName Gen.cipherSuiteParts e.2)

/-- kernel evaluation over the whole generated table (no axioms) -/
theorem table_ok : Gen.cipherSuites.all entryOk = true := by decide +kernel

theorem lookupName_none {t : List (Nat × List Nat)} {c : Nat} (h : lookupName t c = none) :
    ∀ n, (c, n) ∉ t := by
  intro n hmem
  simp only [lookupName, Option.map_eq_none_iff, List.find?_eq_none] at h
  have := h (c, n) hmem
  simp at this

theorem lookupName_some {t : List (Nat × List Nat)} {c : Nat} {n : List Nat}
    (h : lookupName t c = some n) : (c, n) ∈ t := by
  simp only [lookupName, Option.map_eq_some_iff] at h
  obtain ⟨e, he, rfl⟩ := h
  have hm := List.mem_of_find?_eq_some he
  have hp := List.find?_some he
  simp only [beq_iff_eq] at hp
  cases e; simp_all

/-- C14: for **every** code point `c`: either it is not in TLExport's table and is reported as
    unsupported (`none`), or it is in the table under the name the IANA registry gives that very
    code point, and the resolved parameters are exactly what that name denotes. -/
theorem resolve_sound_complete (c : Nat) :
    match resolve c with
    | none => ∀ n, (c, n) ∉ Gen.cipherSuites
    | some p => ∃ n, (c, n) ∈ Gen.cipherSuites ∧ c < 65536 ∧
        Spec.Iana.lookup c = some n ∧ Spec.denote n = some p := by
  unfold resolve resolveWith
  cases h : lookupName Gen.cipherSuites c with
  | none => simpa using lookupName_none h
  | some n =>
    have hmem := lookupName_some h
    have hok := List.all_eq_true.mp table_ok _ hmem
    simp only [entryOk, Bool.and_eq_true, decide_eq_true_eq, beq_iff_eq] at hok
    exact ⟨n, hmem, hok.1.1, hok.1.2, hok.2⟩

/-- the registry copy itself has one name per code point -/
theorem registry_codes_nodup : (Spec.Iana.registry.map (·.1)).Nodup := by decide +kernel

-- Non-vacuity: accepted and rejected code points exist, and the spec parser really distinguishes
example : (resolve 0x1301).isSome = true ∧ (resolve 0xC0A3).isSome = true := by decide +kernel
example : resolve 0x0000 = none ∧ resolve 0x1306 = none := by decide +kernel
example : Spec.denote (Gen.cipherSuites.head!.2) ≠ none := by decide +kernel

end TLX.Props.C14
