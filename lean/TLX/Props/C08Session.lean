/-
C08 (TLS session part, composed with the builder) — cutting the capture only removes a suffix of the export.

`session_prefix_monotone`: for EVERY decryptor behaviour, the traffic list after the first `n` records is a prefix
of the traffic list after all records (the session only ever appends). `tls_export_prefix`: hence the conversation
built from the cut is a prefix, frame by frame, of the conversation built from everything. Reassembly is an online
machine as well (`TLX.Props.C05.two_pass_eq_fused`, `TLX.Props.C08.stage_prefix_monotone`): a cut capture delivers a
prefix of the records.
-/
import TLX.Lemmas.Session
import TLX.Props.C08
import TLX.Props.C13Session
namespace TLX.Props.C08
open TLX TLX.Session

variable {δ : Type}

theorem session_prefix_monotone (O : Ops δ) (m : Bool) (s : St δ) (rs : List (Rec × Bool)) (n : Nat) :
    (run O m s (rs.take n)).traffic <+: (run O m s rs).traffic := by
  conv => rhs; rw [← List.take_append_drop n rs, run_append]
  exact run_traffic_prefix O m _ _

/-- builder: a prefix of the records yields a prefix of the conversation -/
theorem build_prefix (a b : List TcpOut.Rec) (h : a <+: b) (fa fb : List TcpOut.Frame)
    (ha : TcpOut.build a = some fa) (hb : TcpOut.build b = some fb) : fa <+: fb := by
  have : a = b.take a.length := by
    obtain ⟨t, rfl⟩ := h
    simp
  rw [this] at ha
  exact build_take_prefix b a.length fa fb ha hb

/-- C08 for TLS, session and builder composed -/
theorem tls_export_prefix (O : Ops δ) (m : Bool) (rs : List (Rec × Bool)) (n : Nat) (fa fb : List TcpOut.Frame)
    (ha : TcpOut.build ((run O m St.init (rs.take n)).traffic.map C13.toRec) = some fa)
    (hb : TcpOut.build ((run O m St.init rs).traffic.map C13.toRec) = some fb) : fa <+: fb := by
  apply build_prefix _ _ _ fa fb ha hb
  obtain ⟨t, ht⟩ := session_prefix_monotone O m St.init rs n
  exact ⟨t.map C13.toRec, by rw [← List.map_append, ht]⟩

end TLX.Props.C08
