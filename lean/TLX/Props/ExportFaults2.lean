/-
C03, prefix clause: the fault kinds `Props/ExportFaults.lean` left to the oracle.

1. TLS, MISSING SEGMENTS (`delete`, a `shorten`ed / truncated tail, several holes)
   `sub_delivery_releases_prefix`, `delete_releases_prefix` (one direction of `Reassembly`): whatever copies of the stream's
   segments the capture shows — some missing, some retransmitted (a retransmission of a missing segment fills the hole),
   duplicates, any order — the records handed on are the first `n` records of the stream (from `Lemmas.ReasmInv.fold_inv`).
   `conv_direction_run`: a conversation's direction hands the session what `Reassembly.run` releases for that direction.
   `erased_prefix_exports_prefix` (`Lemmas/CarrierMap`: the session never looks at carrier lists): if the records released
   under the fault are, bytes and directions, the first ones released without it, every direction exports a byte PREFIX.
   `export_victim_delete_tls`: that holds when everything behind the fault runs in ONE direction (a transfer; the
   receiver's pure ACKs never reach the session); `tlsConvs_single_flow` links the conversation object to the main loop.
   NOT covered: a hole in one direction while the OTHER direction goes on releasing records — then the combined record list
   is not a list prefix, and a per-direction prefix would need the independence of the two directions inside `Session.run`
   (false in general: a missing ClientHello silences the server side too); oracle only.
2. TLS, CAPTURE STARTS MID-CONNECTION (`cut-before`), lost handshake records
   `headless_run` (no record taken for a ClientHello), `no_serverHello_run` (none taken for a ServerHello), for every
   decryptor: `Keyless` — no decryptor, no application entry, only verbatim metadata entries; `export_victim_headless_tls`:
   the conversation exports no plaintext, and without `-a` nothing at all. (A released record whose first body byte happens to
   be 1 / 2 and whose type is 22 IS taken for a hello while no ChangeCipherSpec was seen — the hypothesis is on what the
   reassembler releases, not on what the sender meant.)
3. QUIC, LOST DATAGRAMS in the established 1-RTT phase (`delete`, a missing stretch, `cut-before` behind the handshake)
   `quic_loss_subsequence`: the thinned history is conformant from the session's point of view (`Send1`: packet-number
   windows `PnLenOk` = `C16.pn_decode_window`, key phase at most one generation ahead, DCID issued in a captured frame) ⇒ the
   export is exactly the remaining STREAM datagrams, a subsequence of the complete export. Losses INSIDE the handshake (the
   ServerHello datagram, a CRYPTO fragment of the ClientHello): no keys are installed and nothing is exported on the real
   tool (oracle); the session-level facts are `Quic.Session`'s (`C02Crypto.rechunked_retransmission_stalls`), not lifted here.

`make_faults` kind                       victim's own clause
  cut-after                              ExportFaults.export_victim_cut_tls / _quic
  delete, shorten (TLS)                  sub_delivery_releases_prefix (records), export_victim_delete_tls (bytes, one-direction
                                         tail); other direction active behind the hole: oracle
  cut-before (TLS)                       export_victim_headless_tls (no plaintext)
  unknown-suite, no-keys, drop-keys      `C03.keyless_exports_no_app` at session level (`NeverInstalls`); whole program: oracle
  delete, cut-before (QUIC, 1-RTT)       quic_loss_subsequence
  delete, cut-before (QUIC, handshake)   oracle
  bitflip, overwrite, wrong-keys         oracle (what a damaged record decrypts to is the AEAD's business)
-/
import TLX.Props.ExportFaults
import TLX.Lemmas.CarrierMap
import TLX.Lemmas.Capstone
import TLX.Props.C03
import TLX.Props.C02Capstone
set_option linter.unusedSimpArgs false
set_option linter.unusedVariables false
namespace TLX.Props.ExportFaults2
open TLX TLX.MainLoop

-- ====================================================================== 1. TLS: missing segments
section Reasm
open TLX.Reassembly TLX.Spec.TlsFraming TLX.Lemmas.ModSeq TLX.Lemmas.ReasmSort TLX.Lemmas.ReasmInv TLX.Lemmas.Framing
open TLX.Lemmas.Delivery TLX.Props.C05

/-- **A hole releases nothing behind it — more generally: whatever is missing, what is released is a prefix.** One
    direction of a connection: `str` the byte stream sent (whole records), `chunks` any cut of it into segments. The
    capture shows ANY list of copies of these segments — some missing (lost, deleted from the capture), some repeated
    (retransmissions: a retransmitted copy of a missing segment fills the hole), in any order —, with the one condition of
    `C05.reassembly_exact_partial`: nothing is handed on before the segment that starts the stream has been captured. Then
    the records handed on are the first `n` records of the stream, for some `n`: never a record behind a hole, never a
    record twice, never in another order. (The reassembler as repaired tracks the next expected sequence number.) -/
theorem sub_delivery_releases_prefix (isn : Nat) (str : Bytes) (chunks : List Bytes) (segs : List Seg)
    (hcut : IsCut str chunks) (hw : WholeRecords str) (hlen : str.length ≤ 2 ^ 31)
    (hcopy : ∀ p ∈ segs, wire p ∈ segsOf isn 0 chunks) (hearly : NoEarlyDelivery isn segs) :
    ∃ n, (run segs).map (·.1) = (frame str).take n := by
  have S : Setup (2 ^ 32) chunks (frame str) :=
    { hW := by decide
      hne := hcut.1
      hwf := frame_wf str
      hstr := by rw [hcut.2]; exact hw.symm
      hL := by rw [hcut.2]; omega }
  have hcopy' : ∀ p ∈ segs, p.data ≠ [] ∧ ∃ o, (o, p.data) ∈ offs 0 chunks ∧ p.seq = sq (2 ^ 32) isn o := by
    intro p hp
    have hm := hcopy p hp
    rw [segsOf_eq_offs] at hm
    obtain ⟨x, hx, hxe⟩ := List.mem_map.mp hm
    simp only [wire, Prod.mk.injEq] at hxe
    have hb := offs_bounds _ _ _ hx
    refine ⟨?_, x.1, ?_, hxe.1.symm⟩
    · rw [← hxe.2]; exact hcut.1 _ hb.2.2
    · rw [← hxe.2]; exact hx
  obtain ⟨done, rest, k, pend, I, _⟩ := fold_inv (isn := isn) S segs hcopy'
    (by
      intro pre post hsplit hno
      apply hearly pre post hsplit
      intro s hs
      have := hno s hs
      simpa [sq] using this) segs.length (Nat.le_refl _)
  rw [List.take_length] at I
  exact ⟨k, I.recs⟩

/-- … in the delivery domain of `C05.reassembly_exact_partial`: `segs` any delivery of the stream (cuts, duplicates,
    displacement), `segs'` what is left of it after removing ANY packets (the fault `delete`, a truncated tail, several
    holes), provided the first captured packet is still the one that starts the stream. The unfaulted capture releases
    all records (`C05.reassembly_exact_first_in_place`), the faulted one a prefix of them. -/
theorem delete_releases_prefix (k isn : Nat) (str : Bytes) (segs segs' : List Seg)
    (hd : Delivers k isn str (segs.map wire)) (hsub : ∀ p ∈ segs', p ∈ segs) (hw : WholeRecords str)
    (hlen : str.length ≤ 2 ^ 31) (hfirst : ∀ s, segs'.head? = some s → s.seq = isn % 2 ^ 32) :
    ∃ n, (run segs').map (·.1) = (frame str).take n := by
  obtain ⟨chunks, hcut, hmem⟩ := delivers_mem hd
  apply sub_delivery_releases_prefix isn str chunks segs' hcut hw hlen
  · intro p hp
    exact (hmem (wire p)).mp (List.mem_map_of_mem (hsub p hp))
  · intro pre post hsplit hno
    cases pre with
    | nil => rfl
    | cons s t =>
      exfalso
      exact hno s (List.mem_cons_self ..) (hfirst s (by rw [hsplit]; rfl))

end Reasm

section Conv
open TLX.Lemmas.Pipeline TLX.Lemmas.Capstone TLX.Props.C01Pipeline TLX.Lemmas.CarrierMap

variable (H : Crypto.Prims) (P : Cipher.Prims) (info : Nat → Pipeline.Info)

/-- a released record as far as the session's decisions go: its bytes and its direction -/
def erase (r : Session.Rec × Bool) : Bytes × Bool := (r.1.raw, r.2)

/-- the raw records of direction `d` among the released records, in order -/
def dirRaw (d : Bool) (recs : List (Session.Rec × Bool)) : List Bytes := (recs.filter fun r => r.2 == d).map (·.1.raw)

/-- the records a conversation's direction `d` hands to the session are what `Reassembly.run` releases for the TCP segments
    of that direction -/
theorem conv_direction_run (c : Pipeline.Conn) (d : Bool) (hne : ∀ p ∈ c.pkts, p.payload ≠ []) :
    dirRaw d (connRecs info c) = (Reassembly.run (dirSegs info c.server d c.pkts)).map (·.1) := by
  have h := released_filter info c.server (Reassembly.St.init, Reassembly.St.init) c.pkts d
  have hi : (if d then (Reassembly.St.init, Reassembly.St.init).2 else (Reassembly.St.init, Reassembly.St.init).1) =
      Reassembly.St.init := by cases d <;> rfl
  rw [hi] at h
  rw [run_eq_outs _ (by
    intro p hp
    simp only [dirSegs, List.mem_map, List.mem_filter] at hp
    obtain ⟨q, ⟨hq, _⟩, rfl⟩ := hp
    exact hne q hq), ← h]
  simp only [dirRaw, connRecs, List.map_map, Function.comp_def]

/-- the streams the exported conversation reassembles to: per direction, the concatenation of what the session put into
    `application_traffic` (`C06.reassemble_build`) -/
def convStreams (c : Pipeline.Conn) (kl : List Keylog.Key) : Bytes × Bytes :=
  let recs := (Session.run (Pipeline.ops H P kl) c.opts.metadata Session.St.init (connRecs info c)).traffic.map
    (toRec fun id => (info id).ts)
  (Props.C06.dirBytes false recs, Props.C06.dirBytes true recs)

theorem convStreams_spec (c : Pipeline.Conn) (kl : List Keylog.Key) :
    ∃ fs, Pipeline.connOut H P info c kl = some (fs.map (Pipeline.addressed c.opts c)) ∧
      TLX.Spec.reassemble fs = some (convStreams H P info c kl) := by
  have hsome := (connOut_never_raises H P info c kl).2.2
  rw [connOut_eq, Option.isSome_map] at hsome
  obtain ⟨fs, hfs⟩ := Option.isSome_iff_exists.mp hsome
  refine ⟨fs, by rw [connOut_eq, hfs]; rfl, ?_⟩
  exact Props.C06.reassemble_build _ fs hfs

theorem dirBytes_entry_map (g : List Nat → List Nat) (ts ts' : Nat → Nat) (d : Bool) (tr : List Session.Entry) :
    Props.C06.dirBytes d ((tr.map (Lemmas.CarrierMap.Sess.entry g)).map (toRec ts')) = Props.C06.dirBytes d (tr.map (toRec ts)) := by
  induction tr with
  | nil => rfl
  | cons e tr ih =>
    simp only [Props.C06.dirBytes, List.map_cons, List.filter_cons] at ih ⊢
    have h1 : (toRec ts' (Lemmas.CarrierMap.Sess.entry g e)).fromServer = (toRec ts e).fromServer := rfl
    have h2 : (toRec ts' (Lemmas.CarrierMap.Sess.entry g e)).bytes = (toRec ts e).bytes := rfl
    rw [h1]
    split
    · simp only [List.flatMap_cons, h2, ih]
    · exact ih

theorem dirBytes_prefix' (d : Bool) {a b : List TcpOut.Rec} (h : a <+: b) :
    Props.C06.dirBytes d a <+: Props.C06.dirBytes d b := by
  obtain ⟨t, rfl⟩ := h
  simp only [Props.C06.dirBytes, List.filter_append, List.flatMap_append]
  exact List.prefix_append _ _

/-- the released records with their carrier lists emptied -/
def bare (recs : List (Session.Rec × Bool)) : List (Session.Rec × Bool) :=
  recs.map fun x => (Lemmas.CarrierMap.Sess.rec (fun _ => []) x.1, x.2)

theorem bare_of_erase (recs : List (Session.Rec × Bool)) :
    bare recs = (recs.map erase).map fun x => ((⟨x.1, []⟩ : Session.Rec), x.2) := by
  simp only [bare, List.map_map, Function.comp_def, erase, Lemmas.CarrierMap.Sess.rec]

/-- **What a conversation exports depends on the bytes and directions of the released records only, monotonically.** Two
    conversation objects (same `-a` flag) such that the records released for `c'` are, bytes and directions, the first
    ones released for `c`: per direction the stream `c'` exports is a byte PREFIX of the stream `c` exports. -/
theorem erased_prefix_exports_prefix (c c' : Pipeline.Conn) (kl : List Keylog.Key)
    (hm : c'.opts.metadata = c.opts.metadata)
    (hrel : (connRecs info c').map erase <+: (connRecs info c).map erase) :
    (convStreams H P info c' kl).1 <+: (convStreams H P info c kl).1 ∧
    (convStreams H P info c' kl).2 <+: (convStreams H P info c kl).2 := by
  have key : ∀ d, Props.C06.dirBytes d
        ((Session.run (Pipeline.ops H P kl) c'.opts.metadata Session.St.init (connRecs info c')).traffic.map
          (toRec fun id => (info id).ts)) <+:
      Props.C06.dirBytes d
        ((Session.run (Pipeline.ops H P kl) c.opts.metadata Session.St.init (connRecs info c)).traffic.map
          (toRec fun id => (info id).ts)) := by
    intro d
    have hn : ∀ (R : List (Session.Rec × Bool)) (m : Bool),
        Props.C06.dirBytes d ((Session.run (Pipeline.ops H P kl) m Session.St.init R).traffic.map (toRec fun id => (info id).ts)) =
        Props.C06.dirBytes d ((Session.run (Pipeline.ops H P kl) m Session.St.init (bare R)).traffic.map (toRec fun id => (info id).ts)) := by
      intro R m
      have := Lemmas.CarrierMap.Sess.run_nat (fun _ => []) (Pipeline.ops H P kl) (fun _ _ _ => rfl) m Session.St.init R
      have hinit : Lemmas.CarrierMap.Sess.st (fun _ => []) (Session.St.init : Session.St RecordLayer.Dec) = Session.St.init := rfl
      rw [hinit] at this
      unfold bare
      rw [this]
      exact (dirBytes_entry_map (fun _ => []) _ _ d _).symm
    rw [hn (connRecs info c') c'.opts.metadata, hn (connRecs info c) c.opts.metadata, hm]
    apply dirBytes_prefix'
    have hb : bare (connRecs info c') <+: bare (connRecs info c) := by
      rw [bare_of_erase, bare_of_erase]
      exact List.IsPrefix.map _ hrel
    obtain ⟨t, ht⟩ := hb
    have htake : bare (connRecs info c') = (bare (connRecs info c)).take (bare (connRecs info c')).length := by
      rw [← ht]; simp
    rw [htake]
    exact List.IsPrefix.map _ (Props.C08.session_prefix_monotone _ _ _ _ _)
  exact ⟨key false, key true⟩

/-- every record released while packets of one direction are processed is a record of that direction -/
theorem released_all_dir (server : Endpoint) (d : Bool) (T : List Pkt) (hT : ∀ p ∈ T, (p.src == server) = d) :
    ∀ R, ∀ r ∈ released info server R T, r.2 = d := by
  induction T with
  | nil => intro R r hr; simp [released] at hr
  | cons p T ih =>
    intro R r hr
    simp only [released, List.mem_append] at hr
    rcases hr with hr | hr
    · simp only [reasmPkt, List.mem_map] at hr
      obtain ⟨q, _, rfl⟩ := hr
      exact hT p (by simp)
    · exact ih (fun q hq => hT q (by simp [hq])) _ r hr

theorem dirRaw_append (d : Bool) (a b : List (Session.Rec × Bool)) : dirRaw d (a ++ b) = dirRaw d a ++ dirRaw d b := by
  simp [dirRaw]

theorem dirRaw_all (d : Bool) (l : List (Session.Rec × Bool)) (h : ∀ r ∈ l, r.2 = d) : dirRaw d l = l.map (·.1.raw) := by
  unfold dirRaw
  rw [List.filter_eq_self.mpr (fun r hr => by simp [h r hr])]

theorem erase_all (d : Bool) (l : List (Session.Rec × Bool)) (h : ∀ r ∈ l, r.2 = d) :
    l.map erase = (l.map (·.1.raw)).map fun b => (b, d) := by
  rw [List.map_map]
  apply List.map_congr_left
  intro r hr
  simp [erase, h r hr]

/-- **C03, prefix clause, TLS victim, missing segments in the tail (`delete`, `shorten` of the last segments).** The
    victim's conversation `c` holds the packets `A ++ T`; under the fault it holds `A ++ T'` (the same object otherwise).
    `T` and `T'` are packets of ONE direction `d` (a transfer in one direction: the other side's pure ACKs carry no payload
    and never reach the session). `hfull` / `hsub`: what direction `d`'s reassembler releases without and with the fault —
    all records `rs`, resp. the first `n` of them (`delete_releases_prefix`: any packets of `T` missing in `T'`,
    retransmissions included). Then per direction the stream the faulted conversation exports is a byte PREFIX of the
    stream the unfaulted one exports (`convStreams_spec`: what the exported frames reassemble to). -/
theorem export_victim_delete_tls (c : Pipeline.Conn) (A T T' : List Pkt) (kl : List Keylog.Key) (d : Bool)
    (rs : List Bytes) (n : Nat) (hc : c.pkts = A ++ T)
    (hT : ∀ p ∈ T, (p.src == c.server) = d) (hT' : ∀ p ∈ T', (p.src == c.server) = d)
    (hne : ∀ p ∈ A ++ T, p.payload ≠ []) (hne' : ∀ p ∈ A ++ T', p.payload ≠ [])
    (hfull : (Reassembly.run (dirSegs info c.server d (A ++ T))).map (·.1) = rs)
    (hsub : (Reassembly.run (dirSegs info c.server d (A ++ T'))).map (·.1) = rs.take n) :
    (convStreams H P info { c with pkts := A ++ T' } kl).1 <+: (convStreams H P info c kl).1 ∧
    (convStreams H P info { c with pkts := A ++ T' } kl).2 <+: (convStreams H P info c kl).2 := by
  obtain ⟨opts, server, client, sm, cm, v6, pkts⟩ := c
  simp only at hc hT hT' hfull hsub
  subst hc
  apply erased_prefix_exports_prefix H P info ⟨opts, server, client, sm, cm, v6, A ++ T⟩
    ⟨opts, server, client, sm, cm, v6, A ++ T'⟩ kl rfl
  have e1 := conv_direction_run info ⟨opts, server, client, sm, cm, v6, A ++ T⟩ d hne
  have e2 := conv_direction_run info ⟨opts, server, client, sm, cm, v6, A ++ T'⟩ d hne'
  simp only [hfull, hsub, connRecs] at e1 e2
  simp only [connRecs]
  rw [released_append] at e1 e2 ⊢
  rw [released_append]
  simp only [List.map_append]
  rw [List.prefix_append_right_inj]
  have hd := released_all_dir info server d T hT
    (reasmFinal info server (Reassembly.St.init, Reassembly.St.init) A)
  have hd' := released_all_dir info server d T' hT'
    (reasmFinal info server (Reassembly.St.init, Reassembly.St.init) A)
  rw [dirRaw_append, dirRaw_all d _ hd] at e1
  rw [dirRaw_append, dirRaw_all d _ hd'] at e2
  rw [erase_all d _ hd, erase_all d _ hd']
  apply List.IsPrefix.map
  have : dirRaw d (released info server (Reassembly.St.init, Reassembly.St.init) A) ++
        (released info server (reasmFinal info server (Reassembly.St.init, Reassembly.St.init) A) T').map (·.1.raw) <+:
      dirRaw d (released info server (Reassembly.St.init, Reassembly.St.init) A) ++
        (released info server (reasmFinal info server (Reassembly.St.init, Reassembly.St.init) A) T).map (·.1.raw) := by
    rw [e1, e2]; exact List.take_prefix _ _
  exact (List.prefix_append_right_inj _).mp this

end Conv

-- ====================================================================== 2. TLS: the capture starts mid-connection
section Headless
open TLX.Session TLX.Props.C03

variable {δ : Type}

/-- a record `handle_tls_handshake_record` takes for a hello of type `t` (1 = ClientHello, 2 = ServerHello) when no
    ChangeCipherSpec has been seen: content type 22 and first body byte `t` -/
def LooksHello (t : UInt8) (r : Rec) : Prop := r.typ = some 0x16 ∧ r.body.head? = some t

/-- what holds of a session that has no decryptor: nothing decrypted, every entry of `application_traffic` is a metadata
    entry carrying the record verbatim -/
def Keyless (s : St δ) : Prop :=
  s.dec = none ∧ ∀ e ∈ s.traffic, e.isApp = false ∧ e.data = some e.record.raw

theorem keyless_pushMeta (m : Bool) (s : St δ) (r : Rec) (srv : Bool) (h : Keyless s) : Keyless (pushMeta m s r srv) := by
  unfold pushMeta
  split
  · refine ⟨h.1, ?_⟩
    intro e he
    simp only [St.push, List.mem_append, List.mem_singleton] at he
    rcases he with he | rfl
    · exact h.2 e he
    · exact ⟨rfl, rfl⟩
  · exact h

theorem keyless_of_eq {a b : St δ} (hd : a.dec = b.dec) (ht : a.traffic = b.traffic) (h : Keyless b) : Keyless a :=
  ⟨hd.trans h.1, by rw [ht]; exact h.2⟩

theorem handshakeFinished_keyless (O : Ops δ) (m : Bool) (s : St δ) (r : Rec) (srv : Bool) (h : Keyless s) :
    Keyless (handshakeFinished O m s r srv).st := by
  unfold handshakeFinished
  rw [h.1]
  exact h

/-- `handle_tls_server_hello` on a session that never saw a ClientHello: `self.client_random` raises, no decryptor -/
theorem serverHello_headless (O : Ops δ) (s : St δ) (r : Rec) (hc : s.cr = none) (h : Keyless s) :
    Keyless (serverHello O s r).st ∧ (serverHello O s r).st.cr = none := by
  have hl : Keyless (latch s) ∧ (latch s).cr = none := by
    unfold latch; split
    · exact ⟨keyless_of_eq rfl rfl h, hc⟩
    · exact ⟨h, hc⟩
  unfold serverHello
  simp only
  split
  · exact hl
  · split
    · exact hl
    · have hv : ∀ a b c, Keyless (chooseVersion (latch s) a b c) ∧ (chooseVersion (latch s) a b c).cr = none := by
        intro a b c
        unfold chooseVersion
        repeat' split
        all_goals exact ⟨keyless_of_eq rfl rfl hl.1, hl.2⟩
      unfold serverHelloKeys
      rw [(hv _ _ _).2]
      exact hv _ _ _

/-- one record through a session without decryptor and without `client_random`, when the record is no ClientHello -/
theorem handleRecord_headless (O : Ops δ) (m : Bool) (s : St δ) (r : Rec) (srv : Bool)
    (hc : s.cr = none) (h : Keyless s) (hr : ¬ LooksHello 0x01 r) :
    Keyless (handleRecord O m s r srv) ∧ (handleRecord O m s r srv).cr = none := by
  unfold handleRecord handleRecordRaw
  cases ht : r.typ with
  | none => exact ⟨h, hc⟩
  | some t =>
    simp only
    split
    · rename_i h16
      have hh : Keyless (handshakeRecord O m s r srv).st ∧ (handshakeRecord O m s r srv).st.cr = none := by
        unfold handshakeRecord
        split
        · rw [tryExcept_id_st]
          refine ⟨handshakeFinished_keyless O m s r srv h, ?_⟩
          unfold handshakeFinished; rw [h.1]; exact hc
        · cases hb : r.body with
          | nil => exact ⟨h, hc⟩
          | cons b0 rest =>
            simp only
            split
            · rename_i hb1
              exact absurd ⟨by rw [ht, h16], by rw [hb, hb1]; rfl⟩ hr
            · split
              · have := serverHello_headless O s r hc h
                cases hsh : serverHello O s r with
                | ok s' => rw [hsh] at this; exact this
                | raised s' =>
                  rw [hsh] at this
                  simp only [tryExcept, Out.st] at this ⊢
                  exact ⟨keyless_of_eq rfl rfl this.1, this.2⟩
              · rw [tryExcept_id_st]
                refine ⟨handshakeFinished_keyless O m s r srv h, ?_⟩
                unfold handshakeFinished; rw [h.1]; exact hc
      cases hrr : handshakeRecord O m s r srv with
      | ok s1 =>
        rw [hrr] at hh
        simp only [Out.st] at hh ⊢
        refine ⟨keyless_pushMeta m s1 r srv hh.1, ?_⟩
        unfold pushMeta; split <;> exact hh.2
      | raised s1 => rw [hrr] at hh; exact hh
    · split
      · have : (s.canDecrypt && s.dec.isSome) = false := by simp [h.1]
        simp only [this]
        exact ⟨h, hc⟩
      · split
        · simp only [Out.st]
          have ha : ∀ lvl, Keyless (alert s lvl) ∧ (alert s lvl).cr = none := by
            intro lvl; unfold alert; split
            · exact ⟨h, hc⟩
            · exact ⟨keyless_of_eq rfl rfl h, hc⟩
          cases r.body with
          | nil => exact ⟨keyless_pushMeta m s r srv h, by unfold pushMeta; split <;> exact hc⟩
          | cons lvl _ =>
            exact ⟨keyless_pushMeta m _ r srv (ha lvl).1, by unfold pushMeta; split <;> exact (ha lvl).2⟩
        · split
          · simp only [Out.st]
            cases srv
            · exact ⟨keyless_pushMeta m _ r false (keyless_of_eq rfl rfl h), by unfold pushMeta; split <;> exact hc⟩
            · exact ⟨keyless_pushMeta m _ r true (keyless_of_eq rfl rfl h), by unfold pushMeta; split <;> exact hc⟩
          · exact ⟨h, hc⟩

/-- **A session that never sees a ClientHello exports no plaintext.** Whatever records it is handed — as long as none of
    them is taken for a ClientHello —, for every decryptor behaviour: no decryptor is ever installed (`generate_keys` reads
    `self.client_random`, which does not exist), no application entry is ever made, and `application_traffic` holds only
    metadata entries that carry their record verbatim (with `-a`; without it, nothing). -/
theorem headless_run (O : Ops δ) (m : Bool) (rs : List (Rec × Bool)) (hr : ∀ x ∈ rs, ¬ LooksHello 0x01 x.1) :
    Keyless (run O m St.init rs) := by
  suffices ∀ s : St δ, s.cr = none → Keyless s → Keyless (run O m s rs) from this St.init rfl ⟨rfl, by simp [St.init]⟩
  induction rs with
  | nil => intro s _ h; exact h
  | cons x rest ih =>
    intro s hc h
    simp only [run, List.foldl_cons]
    obtain ⟨h1, h2⟩ := handleRecord_headless O m s x.1 x.2 hc h (hr x (by simp))
    exact ih (fun y hy => hr y (by simp [hy])) _ h2 h1

/-- one record through a session without decryptor, when the record is no ServerHello: still no decryptor -/
theorem handleRecord_no_sh (O : Ops δ) (m : Bool) (s : St δ) (r : Rec) (srv : Bool)
    (h : Keyless s) (hr : ¬ LooksHello 0x02 r) : Keyless (handleRecord O m s r srv) := by
  unfold handleRecord handleRecordRaw
  cases ht : r.typ with
  | none => exact h
  | some t =>
    simp only
    split
    · rename_i h16
      have hh : Keyless (handshakeRecord O m s r srv).st := by
        unfold handshakeRecord
        split
        · rw [tryExcept_id_st]; exact handshakeFinished_keyless O m s r srv h
        · cases hb : r.body with
          | nil => exact h
          | cons b0 rest =>
            simp only
            split
            · exact keyless_of_eq rfl rfl h
            · split
              · rename_i _ hb2
                exact absurd ⟨by rw [ht, h16], by rw [hb, hb2]; rfl⟩ hr
              · rw [tryExcept_id_st]; exact handshakeFinished_keyless O m s r srv h
      cases hrr : handshakeRecord O m s r srv with
      | ok s1 => rw [hrr] at hh; exact keyless_pushMeta m s1 r srv hh
      | raised s1 => rw [hrr] at hh; exact hh
    · split
      · have : (s.canDecrypt && s.dec.isSome) = false := by simp [h.1]
        simp only [this]
        exact h
      · split
        · simp only [Out.st]
          have ha : ∀ lvl, Keyless (alert s lvl) := by
            intro lvl; unfold alert; split
            · exact h
            · exact keyless_of_eq rfl rfl h
          cases r.body with
          | nil => exact keyless_pushMeta m s r srv h
          | cons lvl _ => exact keyless_pushMeta m _ r srv (ha lvl)
        · split
          · simp only [Out.st]
            cases srv
            · exact keyless_pushMeta m _ r false (keyless_of_eq rfl rfl h)
            · exact keyless_pushMeta m _ r true (keyless_of_eq rfl rfl h)
          · exact h

/-- **… and so does a session that sees the ClientHello but never a ServerHello** (the cut removed it, or it is damaged
    beyond recognition): the decryptor is made in `handle_tls_server_hello` and nowhere else. -/
theorem no_serverHello_run (O : Ops δ) (m : Bool) (rs : List (Rec × Bool)) (hr : ∀ x ∈ rs, ¬ LooksHello 0x02 x.1) :
    Keyless (run O m St.init rs) := by
  suffices ∀ s : St δ, Keyless s → Keyless (run O m s rs) from this St.init ⟨rfl, by simp [St.init]⟩
  induction rs with
  | nil => intro s h; exact h
  | cons x rest ih =>
    intro s h
    simp only [run, List.foldl_cons]
    exact ih (fun y hy => hr y (by simp [hy])) _ (handleRecord_no_sh O m s x.1 x.2 h (hr x (by simp)))

theorem keyless_appOf {s : St δ} (h : Keyless s) : appOf s = [] := by
  unfold appOf
  rw [List.filter_eq_nil_iff]
  intro e he
  simp [(h.2 e he).1]

end Headless

section HeadlessConv
open TLX.Session TLX.Props.C03 TLX.Props.C01Pipeline TLX.Lemmas.Pipeline

variable (H : Crypto.Prims) (P : Cipher.Prims) (info : Nat → Pipeline.Info)

/-- **C03, TLS victim, `cut-before` (the capture starts mid-connection) and handshake records lost.** A conversation for
    which the reassemblers release no record that is taken for a ClientHello — the capture starts behind it — or none that
    is taken for a ServerHello: whatever else it carries, whatever the key log,
    * its session installs no decryptor and makes no application entry: NO plaintext and no ciphertext-as-plaintext is
      exported;
    * what `application_traffic` holds (only with `-a`) are the released records verbatim;
    * without `-a` the conversation exports nothing at all: `Session.decrypt()` returns the empty list. -/
theorem export_victim_headless_tls (c : Pipeline.Conn) (kl : List Keylog.Key)
    (hr : (∀ x ∈ connRecs info c, ¬ LooksHello 0x01 x.1) ∨ (∀ x ∈ connRecs info c, ¬ LooksHello 0x02 x.1)) :
    Keyless (Session.run (Pipeline.ops H P kl) c.opts.metadata Session.St.init (connRecs info c)) ∧
    appOf (Session.run (Pipeline.ops H P kl) c.opts.metadata Session.St.init (connRecs info c)) = [] ∧
    (c.opts.metadata = false → Pipeline.connOut H P info c kl = some []) := by
  have hk : ∀ m, Keyless (Session.run (Pipeline.ops H P kl) m Session.St.init (connRecs info c)) := by
    intro m
    rcases hr with hr | hr
    · exact headless_run _ m _ hr
    · exact no_serverHello_run _ m _ hr
  refine ⟨hk _, keyless_appOf (hk _), ?_⟩
  intro hm
  rw [connOut_eq, hm]
  have h2 := Session.run_strip (Pipeline.ops H P kl) (Session.St.init : Session.St RecordLayer.Dec) (connRecs info c)
  have : (Session.run (Pipeline.ops H P kl) false Session.St.init (connRecs info c)).traffic = [] := by
    have h3 : (Session.St.init : Session.St RecordLayer.Dec).strip = Session.St.init := rfl
    rw [h3] at h2
    rw [← h2]
    exact keyless_appOf (hk true)
  rw [this]
  rfl

/-- the link to the main loop: a capture whose TLS-relevant TCP packets are one flow `p0 :: rest` (first packet with a
    server port at one end) yields one conversation — the object made from `p0`, holding `p0 :: rest` -/
theorem tlsConvs_single_flow (o : Opts) (xs : List (Item Keylog.Key)) (p0 : Pkt) (rest : List Pkt)
    (hv : Spec.Demux.tcpView o xs = p0 :: rest) (hflow : ∀ x ∈ rest, Spec.Demux.sameFlow p0 x = true)
    (hc : candidate o p0 = true) :
    Lemmas.ExportProps.tlsConvs H P info o xs =
      [⟨(rolesOf o.ports p0).1, (rolesOf o.ports p0).2,
        { (Pipeline.tlsMachine H P info).new o p0 with pkts := p0 :: rest }⟩] := by
  unfold Lemmas.ExportProps.tlsConvs
  rw [hv, Props.C04.tls_alone_is_run _ o p0 (p0 :: rest) (by
    intro x hx
    simp only [List.mem_cons] at hx
    rcases hx with rfl | hx
    · simp [Spec.Demux.sameFlow]
    · exact hflow x hx)]
  simp only [Spec.Demux.alone, hc, if_true, Option.toList_some, List.cons.injEq, and_true]
  have hfeed : ∀ (s : TlsSess Pipeline.Conn) (l : List Pkt),
      Spec.Demux.feedAll (Pipeline.tlsMachine H P info) s l = { s with st := { s.st with pkts := s.st.pkts ++ l } } := by
    intro s l
    induction l generalizing s with
    | nil => simp [Spec.Demux.feedAll]
    | cons q l ih =>
      simp only [Spec.Demux.feedAll, List.foldl_cons] at ih ⊢
      rw [ih]
      simp [Pipeline.tlsMachine]
  rw [hfeed]
  rfl

end HeadlessConv

-- ====================================================================== 3. QUIC: lost datagrams in the 1-RTT phase
section QuicLoss
open TLX.Quic TLX.Quic.Session TLX.QuicPipeline TLX.Props.C02Capstone TLX.Props.C02Session TLX.Spec.QuicSender TLX.Cipher

variable (maskFn : Dissect.MaskFn) (H : Crypto.Prims) (Pc : Cipher.Prims) (info : Nat → Pipeline.Info)

theorem expectedOut_sublist (c : QConn) {ds' ds : List Spec.QuicConnection.Dg1} (h : ds'.Sublist ds) :
    (expectedOut c ds').Sublist (expectedOut c ds) := by
  unfold expectedOut
  exact (h.filter _).map _

/-- **C03 / C02, QUIC victim, datagrams lost in the established 1-RTT phase (`delete`, a missing stretch).** An
    established connection `c` (`Est`: both 1-RTT key chains installed) and a conformant history `items` of 1-RTT datagrams
    (`Send1`, distinct capture times per direction). `items'`: what is left when ANY of the datagrams are missing from the
    capture. The one condition (`hsend'`): the thinned history is again a history the sender's rules allow from the
    session's point of view — for every remaining packet, its truncated packet number still decodes against the largest
    number CAPTURED so far (`PnLenOk` = the window of RFC 9000 A.3, exactly the hypotheses of `C16.pn_decode_window`), its
    key phase is at most one generation ahead of what was captured, and its DCID was issued in a captured
    NEW_CONNECTION_ID frame. Then the session exports exactly the remaining datagrams that carry STREAM data — each
    unchanged (payload, time, addressing), in order: a SUBSEQUENCE of what it exports from the complete capture. -/
theorem quic_loss_subsequence (kl : List Keylog.Key) (L : SealLaws Pc) (sel : SuiteSel) (v : Quic.Session.Version)
    (k0 : AppKeys) (hpC hpS : Bytes) (chacha : Bool) (hk : KeysWf (params H Pc kl) sel v k0)
    (items items' : List (List Keylog.Key × MainLoop.Pkt × Spec.QuicConnection.Dg1)) (c : QConn) (gc gs lc ls : Nat) (cc sc : List Bytes)
    (hr : c.raised = none)
    (hest : Est H Pc kl sel v k0 hpC hpS chacha c.st gc gs lc ls cc sc)
    (hprev : ∀ o ∈ c.st.out, UdpOut.exported false (frameOf o) = none)
    (hcar : ∀ x ∈ items, Carries info c (wireOf H Pc L sel v k0) x.2.1 x.2.2)
    (hsend : Send1 maskFn H Pc L sel v k0 hpC hpS chacha gc gs lc ls cc sc (items.map (·.2.2)))
    (htimes : ((items.map (·.2.2)).map fun d => (d.x.ts, d.x.srv)).Pairwise (· ≠ ·))
    (hsub : items'.Sublist items)
    (hsend' : Send1 maskFn H Pc L sel v k0 hpC hpS chacha gc gs lc ls cc sc (items'.map (·.2.2))) :
    let QM := quicMachine maskFn H Pc info
    (feedAll QM c items').raised = none ∧
    QM.out false (feedAll QM c items') = expectedOut c (items'.map (·.2.2)) ∧
    (QM.out false (feedAll QM c items')).Sublist (QM.out false (feedAll QM c items)) := by
  intro QM
  have hsubd : (items'.map (·.2.2)).Sublist (items.map (·.2.2)) := hsub.map _
  have htimes' : ((items'.map (·.2.2)).map fun d => (d.x.ts, d.x.srv)).Pairwise (· ≠ ·) :=
    htimes.sublist (hsubd.map _)
  have full := quic_one_rtt_connection_exact maskFn H Pc info kl L sel v k0 hpC hpS chacha hk items c gc gs lc ls cc sc
    hr hest hprev hcar hsend htimes
  have thin := quic_one_rtt_connection_exact maskFn H Pc info kl L sel v k0 hpC hpS chacha hk items' c gc gs lc ls cc sc
    hr hest hprev (fun x hx => hcar x (hsub.subset hx)) hsend' htimes'
  refine ⟨thin.1, thin.2, ?_⟩
  show (QM.out false (feedAll QM c items')).Sublist (QM.out false (feedAll QM c items))
  rw [thin.2, full.2]
  exact expectedOut_sublist c hsubd

end QuicLoss

-- ====================================================================== non-vacuity
namespace Ex
open TLX.Reassembly TLX.Spec.TlsFraming TLX.Props.C05 TLX.Session

/-- three records (handshake, application data, alert) sent as three segments from sequence number 100; the capture
    misses the second one -/
def full3 : List Seg := [⟨1, 100, r1⟩, ⟨2, 105, r2⟩, ⟨3, 111, r3⟩]
def holed : List Seg := [⟨1, 100, r1⟩, ⟨3, 111, r3⟩]

/-- every hypothesis of `delete_releases_prefix` holds; the theorem's conclusion, evaluated: the unfaulted capture releases
    the three records, the holed one the first record only — nothing behind the hole -/
theorem delete_instance :
    Delivers 0 100 (r1 ++ r2 ++ r3) (full3.map wire) ∧ (∀ p ∈ holed, p ∈ full3) ∧ WholeRecords (r1 ++ r2 ++ r3) ∧
    (run full3).map (·.1) = [r1, r2, r3] ∧ (run holed).map (·.1) = [r1] := by
  refine ⟨?_, by decide, whole_r123, by decide +kernel, by decide +kernel⟩
  exact Delivers.cut [r1, r2, r3] ⟨by decide, by decide⟩

/-- … and a retransmission of the missing segment at the end fills the hole: all three records, in order -/
theorem retransmission_fills_hole :
    (run (holed ++ [(⟨4, 105, r2⟩ : Seg)])).map (·.1) = [r1, r2, r3] := by decide +kernel

/-- a capture that starts behind the ClientHello: a ServerHello-looking record, a ChangeCipherSpec and application data —
    none of them is taken for a ClientHello, so `headless_run` applies: no plaintext -/
def headlessRecs : List (Session.Rec × Bool) :=
  [(⟨[0x16, 3, 3, 0, 4, 2, 0, 0, 0], [7]⟩, true), (⟨[0x14, 3, 3, 0, 1, 1], [8]⟩, true), (⟨[0x17, 3, 3, 0, 2, 9, 9], [9]⟩, true)]

theorem headless_instance : ∀ x ∈ headlessRecs, ¬ LooksHello 0x01 x.1 := by
  intro x hx
  simp only [headlessRecs, List.mem_cons, List.mem_nil_iff, or_false] at hx
  rcases hx with rfl | rfl | rfl <;> simp [LooksHello, Session.Rec.typ, Session.Rec.body]

end Ex

end TLX.Props.ExportFaults2
