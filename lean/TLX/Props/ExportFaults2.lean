/-
C03, prefix clause, the fault kinds `Props/ExportFaults.lean` left to the oracle.
-/
import TLX.Props.ExportFaults
import TLX.Lemmas.CarrierMap
import TLX.Lemmas.Capstone
import TLX.Props.C03
set_option linter.unusedSimpArgs false
set_option linter.unusedVariables false
namespace TLX.Props.ExportFaults2
open TLX TLX.MainLoop

-- ====================================================================== 1. TLS: missing segments
section Reasm
open TLX.Reassembly TLX.Spec.TlsFraming TLX.Lemmas.ModSeq TLX.Lemmas.ReasmSort TLX.Lemmas.ReasmInv TLX.Lemmas.Framing
open TLX.Lemmas.Delivery TLX.Props.C05

/-- **A hole releases nothing behind it — more generally: whatever is missing, what is released is a prefix.** One
    direction of a connection: `str` the byte stream sent (whole records), `chunks` any cut of it into segments. The
    capture shows ANY list of copies of these segments — some missing (lost, deleted from the capture), some repeated
    (retransmissions: a retransmitted copy of a missing segment fills the hole), in any order —, with the one condition of
    `C05.reassembly_exact_partial`: nothing is handed on before the segment that starts the stream has been captured. Then
    the records handed on are the first `n` records of the stream, for some `n`: never a record behind a hole, never a
    record twice, never in another order. (The reassembler as repaired tracks the next expected sequence number.) -/
theorem sub_delivery_releases_prefix (isn : Nat) (str : Bytes) (chunks : List Bytes) (segs : List Seg)
    (hcut : IsCut str chunks) (hw : WholeRecords str) (hlen : str.length ≤ 2 ^ 31)
    (hcopy : ∀ p ∈ segs, wire p ∈ segsOf isn 0 chunks) (hearly : NoEarlyDelivery isn segs) :
    ∃ n, (run segs).map (·.1) = (frame str).take n := by
  have S : Setup (2 ^ 32) chunks (frame str) :=
    { hW := by decide
      hne := hcut.1
      hwf := frame_wf str
      hstr := by rw [hcut.2]; exact hw.symm
      hL := by rw [hcut.2]; omega }
  have hcopy' : ∀ p ∈ segs, p.data ≠ [] ∧ ∃ o, (o, p.data) ∈ offs 0 chunks ∧ p.seq = sq (2 ^ 32) isn o := by
    intro p hp
    have hm := hcopy p hp
    rw [segsOf_eq_offs] at hm
    obtain ⟨x, hx, hxe⟩ := List.mem_map.mp hm
    simp only [wire, Prod.mk.injEq] at hxe
    have hb := offs_bounds _ _ _ hx
    refine ⟨?_, x.1, ?_, hxe.1.symm⟩
    · rw [← hxe.2]; exact hcut.1 _ hb.2.2
    · rw [← hxe.2]; exact hx
  obtain ⟨done, rest, k, pend, I, _⟩ := fold_inv (isn := isn) S segs hcopy'
    (by
      intro pre post hsplit hno
      apply hearly pre post hsplit
      intro s hs
      have := hno s hs
      simpa [sq] using this) segs.length (Nat.le_refl _)
  rw [List.take_length] at I
  exact ⟨k, I.recs⟩

/-- … in the delivery domain of `C05.reassembly_exact_partial`: `segs` any delivery of the stream (cuts, duplicates,
    displacement), `segs'` what is left of it after removing ANY packets (the fault `delete`, a truncated tail, several
    holes), provided the first captured packet is still the one that starts the stream. The unfaulted capture releases
    all records (`C05.reassembly_exact_first_in_place`), the faulted one a prefix of them. -/
theorem delete_releases_prefix (k isn : Nat) (str : Bytes) (segs segs' : List Seg)
    (hd : Delivers k isn str (segs.map wire)) (hsub : ∀ p ∈ segs', p ∈ segs) (hw : WholeRecords str)
    (hlen : str.length ≤ 2 ^ 31) (hfirst : ∀ s, segs'.head? = some s → s.seq = isn % 2 ^ 32) :
    ∃ n, (run segs').map (·.1) = (frame str).take n := by
  obtain ⟨chunks, hcut, hmem⟩ := delivers_mem hd
  apply sub_delivery_releases_prefix isn str chunks segs' hcut hw hlen
  · intro p hp
    exact (hmem (wire p)).mp (List.mem_map_of_mem (hsub p hp))
  · intro pre post hsplit hno
    cases pre with
    | nil => rfl
    | cons s t =>
      exfalso
      exact hno s (List.mem_cons_self ..) (hfirst s (by rw [hsplit]; rfl))

end Reasm

end TLX.Props.ExportFaults2
