/-
C02 with 0-RTT: `quic_connection_exact_0rtt` — `C02Capstone3.quic_connection_exact_interleaved` with 0-RTT packets anywhere in
the mixed part of the history (own datagrams or coalesced behind Initial packets; `C02Capstone3.DgX`).

THE CONDITION (`XDgOkE.suite`), in terms of what the tool does: the Early decryptor and the early header-protection key are
(re)derived by every `set_tls_decryptors` call, with the suite of THAT call; `ecsFold` follows the calls along the CRYPTO
inputs of the history (a call happens when an input leaves `new_data` set: ClientHello complete → the FIRST OFFERED suite;
ServerHello / EncryptedExtensions → the selected suite; a call with a suite the tool does not know derives nothing). A 0-RTT
packet is decrypted iff the suite of the last call is the suite `selR` the client protects 0-RTT with and the key log has
CLIENT_EARLY_TRAFFIC_SECRET. (`C02Capstone3.ZrPkOk.suite` states this with the parser's `ciphersuite` field of the moment;
the two agree whenever the parser changes `ciphersuite` only together with `new_data` — true of `Quic/TlsMsgs` on conformant
hellos, not proved in general, so `C02Capstone3.quic_connection_exact_0rtt_statement` stays a `def`; THIS file's theorem is
the proved form.)

Proof: the Early keys are carried next to the handshake invariant `HsSt` of the capstone — `EInv` —, one layer at a time:
`handleCrypto_early` (from `afterTls_early`, `afterTls_unknown`, `afterTls_quiet`), `handleFrames_early`, `hs_packet_early`,
`hs_turn_x` (`hs_turn` with the post-state named), `hs_loop_early`; `zr_loop` / `hsSt_after_zr` (a 0-RTT packet advances the
client's application packet-number space and may issue connection IDs, nothing else); `tail_loop_early`; `x_dg_step` (one
datagram: long-header packets, 0-RTT packets, more long-header packets, the closing 1-RTT packet — the output buffer is
write-only, so the later parts are analysed on the state without it); `x_feed_step`, `x_feed_rest`; the builder's view
`inDgX` (`inDgX_data`: the datagram's exported data = the 0-RTT packets' STREAM data, then the 1-RTT packet's).
NOT covered (lost by the tool, open finding `early-data-lost`): 0-RTT packets reached before the ClientHello is complete or
while the last call used another suite (`C02Capstone3.ExZr`, `C02Capstone4Ex.zero_rtt_not_first_offered_lost`); the stronger
form "such packets are simply missing and everything else is exact" is not proved (it needs the dissector on a packet
unprotected with a wrong key). Instances: `Props/C02Capstone4Ex.lean`. Core Lean only.
-/
import TLX.Props.C02Capstone3
set_option linter.unusedSimpArgs false
set_option linter.unusedVariables false
set_option autoImplicit false
namespace TLX.Props.C02Capstone4
open TLX TLX.Quic TLX.Cipher TLX.Quic.Session TLX.Lemmas.QuicSession TLX.Spec.QuicSender TLX.Spec.QuicFrames
open TLX.Props.C02Session TLX.Spec.QuicConnection TLX.Spec.QuicPackets TLX.QuicPipeline
open TLX.Spec.KeySchedules TLX.Lemmas.KeySchedule TLX.Props.C02Capstone TLX.Props.C02Capstone3

/-! ### the suite of the last `set_tls_decryptors` call, and the Early keys along the handshake -/
section Early
variable (H : Crypto.Prims) (Pc : Cipher.Prims)

/-- the known suite `set_tls_decryptors` was last called with, after the CRYPTO inputs `cs` went through the parser (state
    `core`, `new_data` cleared between them): a call happens when an input leaves `new_data` set, with the parser's
    `ciphersuite` of that moment; a call with an unknown suite returns before it derives anything -/
def ecsFold : Tls → List CryptoIn → Option SuiteSel → Option SuiteSel
  | _, [], e => e
  | core, c :: cs, e =>
    ecsFold (clearND (tlsUpdate core c).1) cs
      (if (tlsUpdate core c).1.msgs.newData then
        (match (tlsUpdate core c).1.msgs.ciphersuite.bind selectSuite with | some x => some x | none => e)
       else e)

theorem ecsFold_append (core : Tls) (a b : List CryptoIn) (e : Option SuiteSel) :
    ecsFold core (a ++ b) e = ecsFold (pfold core a) b (ecsFold core a e) := by
  induction a generalizing core e with
  | nil => rfl
  | cons c a ih => simp only [List.cons_append, ecsFold, pfold, List.foldl_cons]; exact ih _ _

/-- the session holds the Early keys of the suite `ecs`, if any -/
def EInv (e : Bytes) (ecs : Option SuiteSel) (s : St Tls) : Prop := ∀ selX, ecs = some selX → EarlyKeyed H selX e s

theorem afterTls_quiet (P : Params Tls) (s : St Tls) (h : P.tlsNewData s.tls = false) : afterTls P s = (s, none) := by
  unfold afterTls; simp [h]

theorem afterTls_unknown (kl : List Keylog.Key) (s : St Tls) (cr cs : Bytes)
    (hn : s.tls.msgs.newData = true) (hcr : s.tls.msgs.clientRandom = some cr) (hcs : s.tls.msgs.ciphersuite = some cs)
    (hsel : selectSuite cs = none) :
    (afterTls (params H Pc kl) s).1.decEarly = s.decEarly ∧
    (afterTls (params H Pc kl) s).1.tls.hp = s.tls.hp := by
  have e1 : (params H Pc kl).tlsNewData s.tls = true := hn
  have e2 : (params H Pc kl).tlsClientRandom s.tls = some cr := hcr
  have e3 : (params H Pc kl).tlsCiphersuite s.tls = some cs := hcs
  unfold afterTls
  simp only [e1, if_true, e2, e3, setTlsDecryptors, hsel]
  simp [params, tlsClearNewData, hcr, hcs, hsel]

/-- one CRYPTO frame during the handshake: the Early keys follow the suite of the last `set_tls_decryptors` call -/
theorem handleCrypto_early (kl : List Keylog.Key) (dcid0 cr csel ch sh ca sa e : Bytes) (sel : SuiteSel)
    (hkl : KeylogHas kl cr ch sh ca sa (some e))
    (keyed : Bool) (s : St Tls) (tc ts : PnTab) (cc sc : List Bytes) (core : Tls)
    (hst : HsSt H dcid0 sel ch sh ca sa keyed s tc ts cc sc core) (p : Pkt) (f : Frame.Parsed)
    (c : CryptoIn) (rest : List CryptoIn) (htr : PTrace cr csel core (c :: rest))
    (ecs : Option SuiteSel) (hinv : EInv H e ecs s) :
    EInv H e (ecsFold core [c] ecs) (handleCrypto (params H Pc kl) s p f c).1 := by
  obtain ⟨t1, t2, _⟩ := htr
  have hup := tlsUpdate_core s.tls c
  rw [hst.core] at hup
  have hP : (params H Pc kl).tlsUpdate = tlsUpdate := rfl
  unfold handleCrypto
  rw [hP, hup, t1]
  simp only
  generalize hs1 : ({ s with tls := { (tlsUpdate core c).1 with ver := s.tls.ver, hp := s.tls.hp } } : St Tls) = s1
  have hv1 : s1.version = .v1 := by rw [← hs1]; exact hst.inv.version
  have hv : s1.tls.ver = s1.version := by rw [← hs1]; exact hst.inv.ver
  have hmsgs : s1.tls.msgs = (tlsUpdate core c).1.msgs := by rw [← hs1]
  have hde : s1.decEarly = s.decEarly := by rw [← hs1]
  have hhp : s1.tls.hp = s.tls.hp := by rw [← hs1]
  simp only [ecsFold]
  by_cases hn : (tlsUpdate core c).1.msgs.newData = true
  · obtain ⟨hcr, cs, hcs, _⟩ := t2 hn
    simp only [hn, if_true, hcs, Option.bind_some]
    have hn1 : s1.tls.msgs.newData = true := by rw [hmsgs]; exact hn
    have hcr1 : s1.tls.msgs.clientRandom = some cr := by rw [hmsgs]; exact hcr
    have hcs1 : s1.tls.msgs.ciphersuite = some cs := by rw [hmsgs]; exact hcs
    obtain ⟨a1, _⟩ := afterTls_hs H Pc kl s1 cr cs ch sh ca sa (some e) hv1 hv hn1 hcr1 hcs1 hkl
    cases hsx : selectSuite cs with
    | none =>
      obtain ⟨u1, u2⟩ := afterTls_unknown H Pc kl s1 cr cs hn1 hcr1 hcs1 hsx
      generalize hr : afterTls (params H Pc kl) s1 = r at a1 u1 u2
      obtain ⟨s2, e2⟩ := r
      simp only at a1 u1 u2
      subst a1
      intro selX hx
      obtain ⟨k1, k2⟩ := hinv selX hx
      exact ⟨by show s2.decEarly = _; rw [u1, hde]; exact k1, by show s2.tls.hp.clientEarly = _; rw [u2, hhp]; exact k2⟩
    | some selY =>
      have hk := afterTls_early H Pc kl s1 cr cs ch sh ca sa e selY hv1 hv hn1 hcr1 hcs1 hsx hkl
      generalize hr : afterTls (params H Pc kl) s1 = r at a1 hk
      obtain ⟨s2, e2⟩ := r
      simp only at a1 hk
      subst a1
      intro selX hx
      cases hx
      exact ⟨hk.dec, hk.hp⟩
  · have hn' : (tlsUpdate core c).1.msgs.newData = false := by simpa using hn
    simp only [hn', Bool.false_eq_true, if_false]
    have hq : afterTls (params H Pc kl) s1 = (s1, none) := afterTls_quiet _ s1 (by show s1.tls.msgs.newData = false; rw [hmsgs]; exact hn')
    rw [hq]
    intro selX hx
    obtain ⟨k1, k2⟩ := hinv selX hx
    exact ⟨by show s1.decEarly = _; rw [hde]; exact k1, by show s1.tls.hp.clientEarly = _; rw [hhp]; exact k2⟩


theorem handleFrames_early (kl : List Keylog.Key) (dcid0 cr csel ch sh ca sa e : Bytes) (sel : SuiteSel)
    (hsel : selectSuite csel = some sel) (hkl : KeylogHas kl cr ch sh ca sa (some e))
    (keyed : Bool) (p : Pkt) (fs : List Frame.Parsed)
    (hcl : keyed = true → ¬ (p.isServer = false ∧ p.ptype = .initial) ∨ cryptoInsP p fs = [])
    (hok : ∀ f ∈ fs, hsFrameP f = true) (rest : List CryptoIn)
    (s : St Tls) (tc ts : PnTab) (cc sc : List Bytes) (core : Tls)
    (hst : HsSt H dcid0 sel ch sh ca sa keyed s tc ts cc sc core)
    (htr : PTrace cr csel core (cryptoInsP p fs ++ rest)) (ecs : Option SuiteSel) (hinv : EInv H e ecs s) :
    EInv H e (ecsFold core (cryptoInsP p fs) ecs) (handleFrames (params H Pc kl) s p fs).1 := by
  induction fs generalizing s core ecs with
  | nil => exact hinv
  | cons f fs ih =>
    have hf := hok f (List.mem_cons_self ..)
    have hrest := fun g hg => hok g (List.mem_cons_of_mem _ hg)
    by_cases hc : isCryptoP f = true
    · cases f <;> simp [isCryptoP] at hc
      rename_i l off len data
      have hins : cryptoInsP p (.crypto l off len data :: fs) = cryptoIn p off len data :: cryptoInsP p fs := by
        simp [cryptoInsP]
      have hni' : keyed = true → ¬ (p.isServer = false ∧ p.ptype = .initial) :=
        fun hk => (hcl hk).resolve_right (by rw [hins]; simp)
      rw [hins] at htr ⊢
      obtain ⟨b1, b2, _, b4⟩ := handleCrypto_hs H Pc kl dcid0 cr csel ch sh ca sa (some e) sel hsel hkl keyed s tc ts cc sc
        core hst p (.crypto l off len data) rfl (cryptoIn p off len data) (cryptoInsP p fs ++ rest) htr
        (by simpa [cryptoIn] using hni')
      have b5 := handleCrypto_early H Pc kl dcid0 cr csel ch sh ca sa e sel hkl keyed s tc ts cc sc core hst p
        (.crypto l off len data) (cryptoIn p off len data) (cryptoInsP p fs ++ rest) htr ecs hinv
      have hstep : handleFrame (params H Pc kl) s p (.crypto l off len data) =
          handleCrypto (params H Pc kl) s p (.crypto l off len data) (cryptoIn p off len data) := rfl
      unfold handleFrames
      rw [hstep]
      generalize hr : handleCrypto (params H Pc kl) s p (.crypto l off len data) (cryptoIn p off len data) = r at b1 b2 b5
      obtain ⟨s1, e1⟩ := r
      simp only at b1 b2 b5 ⊢
      subst b1
      simp only
      have := ih (fun hk => Or.inl (hni' hk)) hrest s1 _ b2 b4 _ b5
      simpa [ecsFold] using this
    · have hins : cryptoInsP p (f :: fs) = cryptoInsP p fs := by
        cases f <;> simp [isCryptoP] at hc <;> simp [cryptoInsP]
      have hstep : handleFrame (params H Pc kl) s p f = (s, none) := by
        cases f <;> simp [isCryptoP] at hc <;> simp [hsFrameP] at hf <;> rfl
      rw [hins] at htr hcl ⊢
      unfold handleFrames
      rw [hstep]
      exact ih hcl hrest s core hst htr ecs hinv


theorem hs_packet_early (hl : H.Lawful) (kl : List Keylog.Key) (L : SealLaws Pc) (dcid0 cr csel ch sh ca sa e : Bytes)
    (sel : SuiteSel) (hsel : selectSuite csel = some sel) (hkl : KeylogHas kl cr ch sh ca sa (some e))
    (keyed : Bool) (x : SPkt) (hlv : x.level = .initial ∨ (x.level = .handshake ∧ keyed = true))
    (hcl : keyed = true → ¬ (x.srv = false ∧ x.level = .initial) ∨ cryptoIns x = [])
    (hfr : ∀ f ∈ x.frames, hsFrameQ f = true) (hwf : WellFormedSeq x.frames) (rest : List CryptoIn)
    (s : St Tls) (tc ts : PnTab) (cc sc : List Bytes) (core : Tls)
    (hst : HsSt H dcid0 sel ch sh ca sa keyed s tc ts cc sc core)
    (hpn : PnLenOk ((if x.srv then ts else tc).get (spaceOf x.level)) x.pn x.pnLen)
    (htr : PTrace cr csel core (cryptoIns x ++ rest)) (ecs : Option SuiteSel) (hinv : EInv H e ecs s) :
    EInv H e (ecsFold core (cryptoIns x) ecs)
      (stepPkt (params H Pc kl) s
        (emit L.aeadSeal (lvlDec H dcid0 sel sh ch x.level).alg (lvlKey H dcid0 sel sh ch x.level x.srv) x)).st := by
  generalize hp : emit L.aeadSeal (lvlDec H dcid0 sel sh ch x.level).alg (lvlKey H dcid0 sel sh ch x.level x.srv) x = p
  have hne : x.level ≠ .oneRtt := by rcases hlv with h | ⟨h, _⟩ <;> simp [h]
  have hlaw256 : H.sha256.Lawful := hl.sha256
  have hlawS : (hashOf H sel.hash).Lawful := by cases sel.hash <;> simp [hashOf, hl.sha256, hl.sha384]
  have hcases : (sel.alg = .aesgcm ∧ sel.keyLen = 16) ∨ (sel.alg = .aesgcm ∧ sel.keyLen = 32) ∨
      (sel.alg = .chachaPoly ∧ sel.keyLen = 32) ∨ (sel.alg = .aesccm ∧ sel.keyLen = 16) := by
    unfold selectSuite at hsel
    repeat' split at hsel
    all_goals first
      | (cases hsel; simp)
      | (simp at hsel)
  have hk255 : sel.keyLen ≤ 255 := by rcases hcases with h | h | h | h <;> omega
  have hdec : longDecryptor s x.level.ptype = .ok (some (lvlDec H dcid0 sel sh ch x.level)) := by
    rcases hlv with h | ⟨h, hk⟩
    · simp [h, Level.ptype, longDecryptor, hst.inv.init, lvlDec]
    · simp [h, Level.ptype, longDecryptor, (hst.keyed hk).hs, lvlDec]
  have hdir : (if x.srv then (lvlDec H dcid0 sel sh ch x.level).server else some (lvlDec H dcid0 sel sh ch x.level).client) =
      some (lvlKey H dcid0 sel sh ch x.level x.srv) := by
    unfold lvlKey lvlDec
    rcases hlv with h | ⟨h, _⟩ <;> cases x.srv <;> simp [h, initDec, hsDec]
  have haead : AeadOk (lvlDec H dcid0 sel sh ch x.level).alg (lvlKey H dcid0 sel sh ch x.level x.srv).key.length
      (lvlKey H dcid0 sel sh ch x.level x.srv).iv.length 16 ∧ 8 ≤ (lvlKey H dcid0 sel sh ch x.level x.srv).iv.length := by
    unfold lvlKey lvlDec
    rcases hlv with h | ⟨h, _⟩
    · cases x.srv <;>
        simp [h, initDec, quicInitialServerKeys, quicInitialClientKeys, quicPacketKeys, quicKey_length _ hlaw256,
          quicIv_length _ hlaw256] <;> decide
    · cases x.srv <;> simp [h, hsDec, quicKey_length _ hlawS _ _ hk255, quicIv_length _ hlawS] <;>
        (rcases hcases with ⟨a, b⟩ | ⟨a, b⟩ | ⟨a, b⟩ | ⟨a, b⟩ <;> rw [a, b] <;> decide)
  have hlarge : pnLargest s x.srv (spaceOf x.level) = (if x.srv then ts else tc).get (spaceOf x.level) := by
    cases x.srv <;> simp [pnLargest, hst.pc, hst.ps]
  have hstep := step_long_eq (params H Pc kl) L x _ _ s hne hdec hdir haead.1 haead.2 (by rw [hlarge]; exact hpn) hwf
  simp only at hstep
  rw [hlarge, hp] at hstep
  generalize hs2 : pnStore s x.srv (spaceOf x.level) (max ((if x.srv then ts else tc).get (spaceOf x.level)) x.pn) = s2 at hstep
  have hst2 : HsSt H dcid0 sel ch sh ca sa keyed s2 (if x.srv then tc else bump tc (spaceOf x.level) x.pn)
      (if x.srv then bump ts (spaceOf x.level) x.pn else ts) cc sc core := by
    subst hs2
    obtain ⟨i, nd, co, pc, ps, c1, c2, ky⟩ := hst
    cases hsrv : x.srv <;> simp only [pnStore, hsrv, Bool.false_eq_true, if_false, if_true]
    · exact ⟨⟨i.version, i.ver, i.init, i.hpSI, i.hpCI, i.ec, i.es, i.lpc, i.lps, i.out⟩, nd, co, by simp [bump, pc], ps, c1, c2,
        fun hk => let q := ky hk; ⟨q.suite, q.hs, q.app, q.hpSH, q.hpCH, q.hpSA, q.hpCA⟩⟩
    · exact ⟨⟨i.version, i.ver, i.init, i.hpSI, i.hpCI, i.ec, i.es, i.lpc, i.lps, i.out⟩, nd, co, pc, by simp [bump, ps], c1, c2,
        fun hk => let q := ky hk; ⟨q.suite, q.hs, q.app, q.hpSH, q.hpCH, q.hpSA, q.hpCA⟩⟩
  have hinv2 : EInv H e ecs s2 := by
    subst hs2
    intro selX hx
    obtain ⟨k1, k2⟩ := hinv selX hx
    unfold pnStore
    split <;> exact ⟨k1, k2⟩
  have hins := cryptoIns_eq L.aeadSeal (lvlDec H dcid0 sel sh ch x.level).alg (lvlKey H dcid0 sel sh ch x.level x.srv) x hne
  rw [hp] at hins
  have hpsrv : p.isServer = x.srv := by subst hp; simp [emit, hne]
  have hppt : p.ptype = x.level.ptype := by subst hp; simp [emit, hne]
  have hci : (p.isServer = false ∧ p.ptype = .initial) ↔ (x.srv = false ∧ x.level = .initial) := by
    rw [hpsrv, hppt]
    rcases hlv with h | ⟨h, _⟩ <;> simp [h, Level.ptype]
  have hF := handleFrames_early H Pc kl dcid0 cr csel ch sh ca sa e sel hsel hkl keyed p
    ((normalize x.frames).map QFrame.toParsed)
    (by intro hk; rcases hcl hk with h | h
        · exact Or.inl (by rw [hci]; exact h)
        · exact Or.inr (by rw [hins]; exact h))
    (by intro g hg
        obtain ⟨f, hf, rfl⟩ := List.mem_map.mp hg
        rw [hsFrameP_toParsed]; exact normalize_hsFrame _ hfr f hf)
    rest s2 _ _ cc sc core hst2 (by rw [hins]; exact htr) ecs hinv2
  rw [hins] at hF
  rw [hstep]
  simp only
  intro selX hx
  obtain ⟨k1, k2⟩ := hF selX hx
  unfold postLevel
  split
  · unfold learnCids; split <;> exact ⟨k1, k2⟩
  · exact ⟨k1, k2⟩

end Early

section TurnX
variable (maskFn : Dissect.MaskFn) (H : Crypto.Prims) (Pc : Cipher.Prims)

/-- `C02Capstone.hs_turn` with the state after the packet named -/
theorem hs_turn_x (hl : H.Lawful) (kl : List Keylog.Key) (L : SealLaws Pc) (dcid0 cr csel ch sh ca sa : Bytes)
    (early : Option Bytes) (sel : SuiteSel) (hsel : selectSuite csel = some sel) (hkl : KeylogHas kl cr ch sh ca sa early)
    (t : Trk) (q : PkH) (hok : HsPkOk maskFn H Pc L dcid0 sel sh ch t q) (rest : List CryptoIn)
    (s : St Tls) (hst : HsSt H dcid0 sel ch sh ca sa t.keyed s t.tc t.ts t.cc t.sc t.core)
    (htr : PTrace cr csel t.core (cryptoIns q.x ++ rest)) (guessed more : Bytes) :
    HsSt H dcid0 sel ch sh ca sa (t.step q.x).keyed (stepPkt (params H Pc kl) s (emit L.aeadSeal (lvlDec H dcid0 sel sh ch q.x.level).alg
      (lvlKey H dcid0 sel sh ch q.x.level q.x.srv) q.x)).st (t.step q.x).tc (t.step q.x).ts (t.step q.x).cc
        (t.step q.x).sc (t.step q.x).core ∧
      PTrace cr csel (t.step q.x).core rest ∧
      (Dissect.dissectLoop maskFn (fun x : LoopSt => envOf x.1) (handleTurn (params H Pc kl)) q.x.srv guessed q.x.ts
        (s, none) (pkWire H Pc L dcid0 sel sh ch q ++ more)).1 =
      (Dissect.dissectLoop maskFn (fun x : LoopSt => envOf x.1) (handleTurn (params H Pc kl)) q.x.srv guessed q.x.ts
        ((stepPkt (params H Pc kl) s (emit L.aeadSeal (lvlDec H dcid0 sel sh ch q.x.level).alg
      (lvlKey H dcid0 sel sh ch q.x.level q.x.srv) q.x)).st, none) more).1 := by
  obtain ⟨hshape, hkeys, hlate, hframes, hwf, hpn, hmask, hm5⟩ := hok
  have hpn0 := hpn
  obtain ⟨⟨hn1, hn4⟩, _⟩ := hpn
  have hlv : q.x.level = .initial ∨ (q.x.level = .handshake ∧ t.keyed = true) := by
    rcases hshape.level with h | h
    · exact Or.inl h
    · exact Or.inr ⟨h, hkeys h⟩
  obtain ⟨p1, p2, p3, p4, p5⟩ := hs_packet_step H Pc hl kl L dcid0 cr csel ch sh ca sa early sel hsel hkl t.keyed q.x hlv
    hlate hframes hwf rest s t.tc t.ts t.cc t.sc t.core hst hpn0 htr
  -- AEAD output length
  have hlawS : (hashOf H sel.hash).Lawful := by cases sel.hash <;> simp [hashOf, hl.sha256, hl.sha384]
  have hcases : (sel.alg = .aesgcm ∧ sel.keyLen = 16) ∨ (sel.alg = .aesgcm ∧ sel.keyLen = 32) ∨
      (sel.alg = .chachaPoly ∧ sel.keyLen = 32) ∨ (sel.alg = .aesccm ∧ sel.keyLen = 16) := by
    unfold selectSuite at hsel
    repeat' split at hsel
    all_goals first
      | (cases hsel; simp)
      | (simp at hsel)
  have hk255 : sel.keyLen ≤ 255 := by rcases hcases with h | h | h | h <;> omega
  have haead : AeadOk (lvlDec H dcid0 sel sh ch q.x.level).alg (lvlKey H dcid0 sel sh ch q.x.level q.x.srv).key.length
      (lvlKey H dcid0 sel sh ch q.x.level q.x.srv).iv.length 16 := by
    unfold lvlKey lvlDec
    rcases hshape.level with h | h
    · cases q.x.srv <;>
        simp [h, initDec, quicInitialServerKeys, quicInitialClientKeys, quicPacketKeys, quicKey_length _ hl.sha256,
          quicIv_length _ hl.sha256] <;> decide
    · cases q.x.srv <;> simp [h, hsDec, quicKey_length _ hlawS _ _ hk255, quicIv_length _ hlawS] <;>
        (rcases hcases with ⟨a, b⟩ | ⟨a, b⟩ | ⟨a, b⟩ | ⟨a, b⟩ <;> rw [a, b] <;> decide)
  generalize hkd : lvlKey H dcid0 sel sh ch q.x.level q.x.srv = kd at *
  generalize had : (lvlDec H dcid0 sel sh ch q.x.level).alg = ad at *
  have hlen : (protectedPayload L.aeadSeal ad kd q.x).length = (encodeAll q.x.frames).length + 16 := by
    unfold protectedPayload
    have hnl : (nonce kd.iv q.x.pn).length = kd.iv.length := by simp [nonce, Lemmas.QuicVarint.ofNatBE_length]
    exact L.seal_len _ _ _ _ _ _ (by rw [hnl]; exact haead)
  -- the dissector returns the sender's packet
  have hkey : (envOf s).keys (senderKey (ltypeOf q.x.level) q.x.srv) = some (lvlHp H dcid0 sel sh ch q.x.level q.x.srv) := by
    unfold lvlHp
    rcases hshape.level with h | h
    · cases hs : q.x.srv <;> simp [h, ltypeOf, senderKey, envOf, HpKeys.get, hst.inv.hpSI, hst.inv.hpCI]
    · have hk := hst.keyed (hkeys h)
      cases hs : q.x.srv <;> simp [h, ltypeOf, senderKey, envOf, HpKeys.get, hk.hpSH, hk.hpCH]
  have hextract : Dissect.extract maskFn (envOf s) q.x.srv guessed q.x.ts (pkWire H Pc L dcid0 sel sh ch q ++ more) =
      { pkts := [emit L.aeadSeal ad kd q.x], rest := more } := by
    have := C02Dissect.dissect_encode_long maskFn (envOf s) q.x.srv guessed q.x.ts
      (longOf q.x (protectedPayload L.aeadSeal ad kd q.x)) (longOf_wf _ _ hshape hn1 hn4 hlen)
      (by show q.x.version ≠ _; rw [hshape.version]; decide)
      (by show q.x.scid.length ≤ 63; have := hshape.scid; omega)
      (by show 20 ≤ (pnBytes q.x.pnLen q.x.pn).length + (protectedPayload L.aeadSeal ad kd q.x).length
          rw [C02Capstone.pnBytes_length, hlen]; have := hshape.padded; omega)
      _ q.mask hkey
      (by rw [chachaOf_core, hst.core]; exact hmask) hm5 more
    rw [longOf_toPkt _ _ _ _ hshape hn1 hn4 hlen] at this
    unfold pkWire PkH.wire
    rw [hkd, had]
    exact this
  have hne : pkWire H Pc L dcid0 sel sh ch q ++ more ≠ [] := by
    unfold pkWire PkH.wire Long.protect applyMask; simp
  have p3' : HsSt H dcid0 sel ch sh ca sa (t.step q.x).keyed (stepPkt (params H Pc kl) s (emit L.aeadSeal ad kd q.x)).st
      (t.step q.x).tc (t.step q.x).ts (t.step q.x).cc (t.step q.x).sc (t.step q.x).core := by
    refine ⟨p3.inv, p3.nd, p3.core, p3.pc, p3.ps, p3.cc, p3.sc, ?_⟩
    intro hk
    simp only [Trk.step, Bool.or_eq_true, Bool.and_eq_true] at hk
    rcases hk with hk | ⟨hf, hni⟩
    · exact p3.keyed hk
    · exact p4 hf (by intro ⟨a, b⟩; simp [a, b] at hni)
  refine ⟨p3', p5, ?_⟩
  rw [Lemmas.QuicDissect.dissectLoop_cons _ _ _ _ _ _ _ _ hne]
  simp only [hextract]
  have hturn : handleTurn (params H Pc kl) (s, none) [emit L.aeadSeal ad kd q.x] =
      ((stepPkt (params H Pc kl) s (emit L.aeadSeal ad kd q.x)).st, none) := by
    unfold handleTurn
    simp only [handleQuicPackets, p1]
    congr 1
    exact stampVer_id _ p3.inv.ver
  rw [hturn]


end TurnX
section Loops
variable (maskFn : Dissect.MaskFn) (H : Crypto.Prims) (Pc : Cipher.Prims)

/-- `hs_loop_more` with the Early keys -/
theorem hs_loop_early (hl : H.Lawful) (kl : List Keylog.Key) (L : SealLaws Pc) (dcid0 cr csel ch sh ca sa e : Bytes)
    (sel : SuiteSel) (hsel : selectSuite csel = some sel) (hkl : KeylogHas kl cr ch sh ca sa (some e))
    (srv : Bool) (ts : Nat) (guessed : Bytes) (qs : List PkH) (hdir : ∀ q ∈ qs, q.x.srv = srv ∧ q.x.ts = ts)
    (rest : List CryptoIn) (more : Bytes) (t : Trk) (s : St Tls)
    (hst : HsSt H dcid0 sel ch sh ca sa t.keyed s t.tc t.ts t.cc t.sc t.core)
    (hok : HsPks maskFn H Pc L dcid0 sel sh ch t qs) (htr : PTrace cr csel t.core (insOf qs ++ rest))
    (ecs : Option SuiteSel) (hinv : EInv H e ecs s) :
    ∃ s', HsSt H dcid0 sel ch sh ca sa (t.run qs).keyed s' (t.run qs).tc (t.run qs).ts (t.run qs).cc (t.run qs).sc
        (t.run qs).core ∧
      PTrace cr csel (t.run qs).core rest ∧ EInv H e (ecsFold t.core (insOf qs) ecs) s' ∧
      (Dissect.dissectLoop maskFn (fun x : LoopSt => envOf x.1) (handleTurn (params H Pc kl)) srv guessed ts
        (s, none) ((qs.map (pkWire H Pc L dcid0 sel sh ch)).flatten ++ more)).1 =
      (Dissect.dissectLoop maskFn (fun x : LoopSt => envOf x.1) (handleTurn (params H Pc kl)) srv guessed ts
        (s', none) more).1 := by
  induction qs generalizing t s ecs with
  | nil => exact ⟨s, hst, htr, hinv, by simp⟩
  | cons q qs ih =>
    obtain ⟨hq, hqs⟩ := hok
    obtain ⟨hsv, hts⟩ := hdir q (List.mem_cons_self ..)
    have htr' : PTrace cr csel t.core (cryptoIns q.x ++ (insOf qs ++ rest)) := by
      simpa [insOf, List.flatMap_cons, List.append_assoc] using htr
    obtain ⟨a1, a2, a3⟩ := hs_turn_x maskFn H Pc hl kl L dcid0 cr csel ch sh ca sa (some e) sel hsel hkl t q hq _ s hst htr'
      guessed ((qs.map (pkWire H Pc L dcid0 sel sh ch)).flatten ++ more)
    have hlv : q.x.level = .initial ∨ (q.x.level = .handshake ∧ t.keyed = true) := by
      rcases hq.shape.level with h | h
      · exact Or.inl h
      · exact Or.inr ⟨h, hq.keys h⟩
    have a4 := hs_packet_early H Pc hl kl L dcid0 cr csel ch sh ca sa e sel hsel hkl t.keyed q.x hlv hq.late hq.frames hq.wf
      (insOf qs ++ rest) s t.tc t.ts t.cc t.sc t.core hst hq.pn htr' ecs hinv
    have a3' : (Dissect.dissectLoop maskFn (fun x : LoopSt => envOf x.1) (handleTurn (params H Pc kl)) srv guessed ts
        (s, none) (pkWire H Pc L dcid0 sel sh ch q ++ ((qs.map (pkWire H Pc L dcid0 sel sh ch)).flatten ++ more))).1 =
      (Dissect.dissectLoop maskFn (fun x : LoopSt => envOf x.1) (handleTurn (params H Pc kl)) srv guessed ts
        ((stepPkt (params H Pc kl) s (emit L.aeadSeal (lvlDec H dcid0 sel sh ch q.x.level).alg
          (lvlKey H dcid0 sel sh ch q.x.level q.x.srv) q.x)).st, none) ((qs.map (pkWire H Pc L dcid0 sel sh ch)).flatten ++ more)).1 := by
      rw [← hsv, ← hts]; exact a3
    obtain ⟨s2, b1, b2, b3, b4⟩ := ih (fun q' hq' => hdir q' (List.mem_cons_of_mem _ hq')) (t.step q.x) _ a1 hqs a2 _ a4
    refine ⟨s2, b1, b2, ?_, ?_⟩
    · have : insOf (q :: qs) = cryptoIns q.x ++ insOf qs := by simp [insOf]
      rw [this, ecsFold_append]
      exact b3
    · simp only [List.map_cons, List.flatten_cons, List.append_assoc]
      rw [a3', b4]


/-- the handshake invariant (on the state without its output buffer) after a 0-RTT packet was handled -/
theorem hsSt_after_zr (dcid0 : Bytes) (sel : SuiteSel) (ch sh ca sa : Bytes) (t : Trk) (s : St Tls)
    (hst : HsSt H dcid0 sel ch sh ca sa t.keyed (noOut s) t.tc t.ts t.cc t.sc t.core) (x : SPkt) (p : Pkt)
    (hsrv : p.isServer = false) :
    HsSt H dcid0 sel ch sh ca sa (t.zr x).keyed
      (noOut (afterFrames (pnStore s false .app (max s.pnClient.app x.pn)) p ((normalize x.frames).map QFrame.toParsed)))
      (t.zr x).tc (t.zr x).ts (t.zr x).cc (t.zr x).sc (t.zr x).core := by
  obtain ⟨⟨a1, a2, a3, a4, a5, a6, a7, a8, a9, _⟩, b1, b2, b3, b4, b5, b6, b7⟩ := hst
  refine ⟨⟨a1, a2, a3, a4, a5, a6, a7, a8, a9, ?_⟩, b1, b2, ?_, b4, ?_, ?_, ?_⟩
  · intro o ho; cases ho
  · show (pnStore s false .app (max s.pnClient.app x.pn)).pnClient = _
    have hb3 : s.pnClient = t.tc := b3
    simp [pnStore, PnTab.set, Trk.zr, hb3]
  · show (afterFrames (pnStore s false .app (max s.pnClient.app x.pn)) p _).clientCids = _
    have hb5 : s.clientCids = t.cc := b5
    simp only [afterFrames, hsrv, Bool.false_eq_true, if_false, pnStore, Trk.zr, hb5]
    have := newCids_eq x.frames
    unfold ncids at this
    rw [this, issue_eq]
  · show (afterFrames (pnStore s false .app (max s.pnClient.app x.pn)) p _).serverCids = _
    have hb6 : s.serverCids = t.sc := b6
    simp only [afterFrames, hsrv, Bool.false_eq_true, if_false, pnStore, Trk.zr, hb6]
  · intro hk
    obtain ⟨k1, k2, k3, k4, k5, k6, k7⟩ := b7 hk
    exact ⟨k1, k2, k3, k4, k5, k6, k7⟩

/-- the 0-RTT packets of a datagram, one after the other, in a session that holds the client's Early keys -/
theorem zr_loop (hl : H.Lawful) (kl : List Keylog.Key) (L : SealLaws Pc) (dcid0 : Bytes) (sel selR : SuiteSel) (csR : Bytes)
    (hselR : selectSuite csR = some selR) (ch sh ca sa e : Bytes) (ts : Nat) (guessed : Bytes) (qs : List PkH)
    (hts : ∀ q ∈ qs, q.x.ts = ts) (more : Bytes) (t : Trk) (s : St Tls)
    (hst : HsSt H dcid0 sel ch sh ca sa t.keyed (noOut s) t.tc t.ts t.cc t.sc t.core)
    (hek : EarlyKeyed H selR e s)
    (hok : ∀ (i : Nat) (q : PkH), qs[i]? = some q → ZrShape q.x ∧ (∀ f ∈ q.x.frames, isCryptoQ f = false) ∧
      WellFormedSeq q.x.frames ∧ PnLenOk ((qs.take i).foldl (fun t q => t.zr q.x) t).tc.app q.x.pn q.x.pnLen ∧
      maskFn (chachaOf t.core) (quicHp (hashOf H selR.hash) e selR.keyLen)
        (longOf q.x (protectedPayload L.aeadSeal selR.alg (earlyDec H selR e).client q.x)).sample = some q.mask ∧
      5 ≤ q.mask.length) :
    ∃ s', HsSt H dcid0 sel ch sh ca sa (qs.foldl (fun t q => t.zr q.x) t).keyed (noOut s')
        (qs.foldl (fun t q => t.zr q.x) t).tc (qs.foldl (fun t q => t.zr q.x) t).ts (qs.foldl (fun t q => t.zr q.x) t).cc
        (qs.foldl (fun t q => t.zr q.x) t).sc (qs.foldl (fun t q => t.zr q.x) t).core ∧
      EarlyKeyed H selR e s' ∧ s'.out = s.out ++ qs.flatMap (fun q => expectedOf .rtt0 q.x) ∧
      (Dissect.dissectLoop maskFn (fun x : LoopSt => envOf x.1) (handleTurn (params H Pc kl)) false guessed ts
        (s, none) ((qs.map (zrWire H Pc L selR e)).flatten ++ more)).1 =
      (Dissect.dissectLoop maskFn (fun x : LoopSt => envOf x.1) (handleTurn (params H Pc kl)) false guessed ts
        (s', none) more).1 := by
  induction qs generalizing t s with
  | nil => exact ⟨s, hst, hek, by simp, by simp⟩
  | cons q qs ih =>
    obtain ⟨z1, z2, z3, z4, z5, z6⟩ := hok 0 q rfl
    simp only [List.take_zero, List.foldl_nil] at z4
    have hch : (envOf s).chacha = chachaOf t.core := by
      have h1 : (envOf (noOut s)).chacha = chachaOf (coreOf (noOut s).tls) := chachaOf_core (noOut s)
      rw [hst.core] at h1
      exact h1
    have hpc : s.pnClient.app = t.tc.app := by
      have : (noOut s).pnClient = t.tc := hst.pc
      exact congrArg PnTab.app this
    obtain ⟨y1, y2⟩ := zr_turn maskFn H Pc hl kl L selR csR hselR e s q z1 hek hst.inv.ver z2 z3 (by rw [hpc]; exact z4)
      (by rw [hch]; exact z5) z6 guessed ((qs.map (zrWire H Pc L selR e)).flatten ++ more)
    have hq := hts q (List.mem_cons_self ..)
    rw [hq] at y1
    generalize hs1 : afterFrames (pnStore s false .app (max s.pnClient.app q.x.pn))
      (emit L.aeadSeal selR.alg (earlyDec H selR e).client q.x) ((normalize q.x.frames).map QFrame.toParsed) = s1 at y1 y2
    have hp0 : (emit L.aeadSeal selR.alg (earlyDec H selR e).client q.x).isServer = false := by
      have hne : q.x.level ≠ .oneRtt := by rw [z1.level]; decide
      simp [emit, hne, z1.client]
    have hst1 := hsSt_after_zr H dcid0 sel ch sh ca sa t s hst q.x _ hp0
    rw [hs1] at hst1
    have hek1 : EarlyKeyed H selR e s1 := by
      subst hs1
      obtain ⟨k1, k2⟩ := hek
      exact ⟨by simp only [afterFrames, pnStore]; exact k1, by simp only [afterFrames, pnStore]; exact k2⟩
    obtain ⟨s2, b1, b2, b3, b4⟩ := ih (fun q' hq' => hts q' (List.mem_cons_of_mem _ hq')) (t.zr q.x) s1 hst1 hek1
      (by
        intro i q' hi
        obtain ⟨w1, w2, w3, w4, w5, w6⟩ := hok (i + 1) q' (by simpa using hi)
        refine ⟨w1, w2, w3, ?_, w5, w6⟩
        simpa [List.take_succ_cons, List.foldl_cons] using w4)
    refine ⟨s2, b1, b2, ?_, ?_⟩
    · rw [b3, y2]; simp [List.flatMap_cons, List.append_assoc]
    · simp only [List.map_cons, List.flatten_cons, List.append_assoc, List.foldl_cons]
      rw [y1, b4]

end Loops
section Tail
variable (maskFn : Dissect.MaskFn) (H : Crypto.Prims) (Pc : Cipher.Prims)

theorem eInv_noOut (e : Bytes) (ecs : Option SuiteSel) (s : St Tls) (h : EInv H e ecs s) : EInv H e ecs (noOut s) :=
  fun selX hx => ⟨(h selX hx).dec, (h selX hx).hp⟩

theorem eInv_wo (e : Bytes) (ecs : Option SuiteSel) (o : List Out) (s : St Tls) (h : EInv H e ecs s) : EInv H e ecs (wo o s) :=
  fun selX hx => ⟨(h selX hx).dec, (h selX hx).hp⟩

/-- the rest of a datagram — long-header packets, then optionally the closing 1-RTT packet — from a state in the handshake
    invariant, with the Early keys carried along -/
theorem tail_loop_early (hl : H.Lawful) (kl : List Keylog.Key) (L : SealLaws Pc) (dcid0 cr csel ch sh ca sa e : Bytes)
    (sel : SuiteSel) (hsel : selectSuite csel = some sel) (hkl : KeylogHas kl cr ch sh ca sa (some e))
    (ho : (hashOf H sel.hash).outLen < 65536)
    (hsa : sa.length = (hashOf H sel.hash).outLen) (hca : ca.length = (hashOf H sel.hash).outLen)
    (srv : Bool) (ts : Nat) (dcid : Bytes) (qs : List PkH) (so : Option Dg1)
    (hdir : ∀ q ∈ qs, q.x.srv = srv ∧ q.x.ts = ts) (rest : List CryptoIn) (t : Trk) (s : St Tls)
    (hst : HsSt H dcid0 sel ch sh ca sa t.keyed s t.tc t.ts t.cc t.sc t.core)
    (hok : HsPks maskFn H Pc L dcid0 sel sh ch t qs) (htr : PTrace cr csel t.core (insOf qs ++ rest))
    (ecs : Option SuiteSel) (hinv : EInv H e ecs s)
    (hshort : ∀ o, so = some o → o.x.srv = srv ∧ o.x.ts = ts ∧ o.x.dcid = dcid ∧ (t.run qs).keyed = true ∧
      o.x.level = .oneRtt ∧ o.x.gen = 0 ∧
      PnLenOk (if o.x.srv then (t.run qs).ts.app else (t.run qs).tc.app) o.x.pn o.x.pnLen ∧ WellFormedSeq o.x.frames ∧
      DgOk maskFn Pc L sel.alg (genDir (keyUpdate H sel .v1) (rfcGen (hashOf H sel.hash) sel.keyLen sa ca 0) o.x.srv 0)
        (if o.x.srv then quicHp (hashOf H sel.hash) sa sel.keyLen else quicHp (hashOf H sel.hash) ca sel.keyLen)
        (chachaOf (t.run qs).core) o) :
    let tE := match so with | none => t.run qs | some o => (t.run qs).short o.x
    ∃ s', (Dissect.dissectLoop maskFn (fun x : LoopSt => envOf x.1) (handleTurn (params H Pc kl)) srv dcid ts (s, none)
        ((qs.map (pkWire H Pc L dcid0 sel sh ch)).flatten ++
          (so.map (wireOf H Pc L sel .v1 (rfcGen (hashOf H sel.hash) sel.keyLen sa ca 0))).getD [])).1 = (s', none) ∧
      HsSt H dcid0 sel ch sh ca sa tE.keyed (noOut s') tE.tc tE.ts tE.cc tE.sc tE.core ∧
      PTrace cr csel tE.core rest ∧ EInv H e (ecsFold t.core (insOf qs) ecs) s' ∧
      ∃ J, (∀ o ∈ J, UdpOut.exported false (frameOf o) = none) ∧
        s'.out = J ++ (match so with | none => [] | some o => expectedOf .rtt1 o.x) := by
  cases so with
  | none =>
    obtain ⟨s1, a1, a2, a3, a4⟩ := hs_loop_early maskFn H Pc hl kl L dcid0 cr csel ch sh ca sa e sel hsel hkl srv ts dcid qs
      hdir rest [] t s hst hok htr ecs hinv
    refine ⟨s1, ?_, ?_, ?_, a3, s1.out, a1.inv.out, by simp⟩
    · simp only [Option.map_none, Option.getD_none]
      rw [a4]; simp [Lemmas.QuicDissect.dissectLoop_nil]
    · exact hsSt_noOut H _ _ _ _ _ _ _ _ _ _ _ _ _ a1
    · exact a2
  | some o =>
    obtain ⟨s1, a1, a2, a3, a4⟩ := hs_loop_early maskFn H Pc hl kl L dcid0 cr csel ch sh ca sa e sel hsel hkl srv ts dcid qs
      hdir rest (wireOf H Pc L sel .v1 (rfcGen (hashOf H sel.hash) sel.keyLen sa ca 0) o) t s hst hok htr ecs hinv
    obtain ⟨o1, o2, o3, o4, o5, o6, o7, o8, o9⟩ := hshort o rfl
    have hk := keysWf_rfc H hl Pc kl csel sel hsel .v1 ho sa ca hsa hca
    have hst1 : HsSt H dcid0 sel ch sh ca sa true s1 (t.run qs).tc (t.run qs).ts (t.run qs).cc
        (t.run qs).sc (t.run qs).core := by rw [← o4]; exact a1
    have hest := est_of_hsSt H Pc kl dcid0 sel ch sh ca sa s1 _ _ _ _ _ hst1
    have hlo : (if o.x.srv then 0 else 0) ≤ o.x.gen := by rw [o6]; split <;> exact Nat.le_refl _
    have hhi : o.x.gen ≤ (if o.x.srv then 0 else 0) + 1 := by rw [o6]; split <;> omega
    have hdg : DgOk maskFn Pc L sel.alg
        (genDir (keyUpdate H sel .v1) (rfcGen (hashOf H sel.hash) sel.keyLen sa ca 0) o.x.srv o.x.gen)
        (if o.x.srv then quicHp (hashOf H sel.hash) sa sel.keyLen else quicHp (hashOf H sel.hash) ca sel.keyLen)
        (chachaOf (t.run qs).core) o := by rw [o6]; exact o9
    have hturn := one_turn maskFn H Pc kl L sel .v1 _ _ _ _ hk s1 0 0 _ _ _ _ hest o o5 hlo hhi o7 o8 hdg
    have hnc : ∀ f ∈ o.x.frames, isCryptoQ f = false := by
      intro f hf
      have := o9.noCrypto
      unfold hasCrypto at this
      rw [List.any_eq_false] at this
      have := this f hf
      cases f <;> first | rfl | (simp at this)
    obtain ⟨b1, b2⟩ := hsSt_after_short H Pc hl kl L dcid0 sel ch sh ca sa hk (t.run qs) s1 o4 a1 o.x o5 o6 o7 o8 hnc
    obtain ⟨_, _, _, _, c5, _, _, _⟩ := step_one_rtt_nc (params H Pc kl) L sel .v1 _ hk o.x s1 0 0 _ _ hest.rel o5 hlo hhi o7 o8 hnc
    obtain ⟨_, k2, _, _, _, _⟩ := step_one_rtt_keep (params H Pc kl) L sel .v1 _ hk o.x s1 0 0 _ _ hest.rel o5 hlo hhi o7 o8 hnc
    refine ⟨(stepPkt (params H Pc kl) s1 (emit1 (params H Pc kl) L sel .v1
      (rfcGen (hashOf H sel.hash) sel.keyLen sa ca 0) o.x)).st, ?_, ?_, ?_, ?_, s1.out, a1.inv.out, ?_⟩
    · simp only [Option.map_some, Option.getD_some]
      rw [a4, ← o1, ← o2, ← o3]; exact hturn
    · exact b1
    · exact a2
    · intro selX hx
      obtain ⟨q1, q2⟩ := a3 selX hx
      exact ⟨by rw [k2]; exact q1, by rw [c5]; exact q2⟩
    · rw [b2]

end Tail
section XDg
variable (maskFn : Dissect.MaskFn) (H : Crypto.Prims) (Pc : Cipher.Prims)

/-- the bookkeeping after the first `pos` long-header packets of the datagram, and after its 0-RTT packets -/
def DgX.t1 (t : Trk) (d : DgX) : Trk := t.run (d.base.longs.take d.pos)
def DgX.tz (t : Trk) (d : DgX) : Trk := d.zr.foldl (fun t q => t.zr q.x) (DgX.t1 t d)

/-- the suite of the last `set_tls_decryptors` call after the datagram -/
def ecsDgx (t : Trk) (ecs : Option SuiteSel) (d : DgX) : Option SuiteSel :=
  ecsFold (DgX.tz t d).core (insOf (d.base.longs.drop d.pos)) (ecsFold t.core (insOf (d.base.longs.take d.pos)) ecs)

/-- one datagram with 0-RTT packets, relative to the bookkeeping `t` and the suite `ecs` of the last `set_tls_decryptors`
    call before it. `suite` is THE condition: when the 0-RTT packets are reached, the keys the tool holds were derived for
    the suite `selR` the client protects 0-RTT with (after the ClientHello: the first offered suite; after the ServerHello:
    the selected one). -/
structure XDgOkE (L : SealLaws Pc) (dcid0 : Bytes) (sel selR : SuiteSel) (sh ch sa ca e : Bytes) (t : Trk)
    (ecs : Option SuiteSel) (d : DgX) : Prop where
  client : d.zr ≠ [] → d.base.srv = false
  dirL : ∀ q ∈ d.base.longs, q.x.srv = d.base.srv ∧ q.x.ts = d.base.ts
  dirZ : ∀ q ∈ d.zr, q.x.ts = d.base.ts
  cid : DcidOk t.cc t.sc d.base.srv d.dcid
  pre : HsPks maskFn H Pc L dcid0 sel sh ch t (d.base.longs.take d.pos)
  suite : d.zr ≠ [] → ecsFold t.core (insOf (d.base.longs.take d.pos)) ecs = some selR
  zr : ∀ (i : Nat) (q : PkH), d.zr[i]? = some q → ZrShape q.x ∧ (∀ f ∈ q.x.frames, isCryptoQ f = false) ∧
      WellFormedSeq q.x.frames ∧
      PnLenOk ((d.zr.take i).foldl (fun t q => t.zr q.x) (DgX.t1 t d)).tc.app q.x.pn q.x.pnLen ∧
      maskFn (chachaOf (DgX.t1 t d).core) (quicHp (hashOf H selR.hash) e selR.keyLen)
        (longOf q.x (protectedPayload L.aeadSeal selR.alg (earlyDec H selR e).client q.x)).sample = some q.mask ∧
      5 ≤ q.mask.length
  post : HsPks maskFn H Pc L dcid0 sel sh ch (DgX.tz t d) (d.base.longs.drop d.pos)
  short : ∀ o, d.base.short = some o → o.x.srv = d.base.srv ∧ o.x.ts = d.base.ts ∧ o.x.dcid = d.dcid ∧
      ((DgX.tz t d).run (d.base.longs.drop d.pos)).keyed = true ∧ o.x.level = .oneRtt ∧ o.x.gen = 0 ∧
      PnLenOk (if o.x.srv then ((DgX.tz t d).run (d.base.longs.drop d.pos)).ts.app
        else ((DgX.tz t d).run (d.base.longs.drop d.pos)).tc.app) o.x.pn o.x.pnLen ∧ WellFormedSeq o.x.frames ∧
      DgOk maskFn Pc L sel.alg (genDir (keyUpdate H sel .v1) (rfcGen (hashOf H sel.hash) sel.keyLen sa ca 0) o.x.srv 0)
        (if o.x.srv then quicHp (hashOf H sel.hash) sa sel.keyLen else quicHp (hashOf H sel.hash) ca sel.keyLen)
        (chachaOf ((DgX.tz t d).run (d.base.longs.drop d.pos)).core) o

theorem zr_core (t : Trk) (qs : List PkH) : (qs.foldl (fun t q => t.zr q.x) t).core = t.core ∧
    (qs.foldl (fun t q => t.zr q.x) t).keyed = t.keyed := by
  induction qs generalizing t with
  | nil => exact ⟨rfl, rfl⟩
  | cons q qs ih => simp only [List.foldl_cons]; exact ⟨(ih _).1, (ih _).2⟩

theorem dgx_eq (t : Trk) (d : DgX) :
    t.dgx d = match d.base.short with
      | none => (DgX.tz t d).run (d.base.longs.drop d.pos)
      | some o => ((DgX.tz t d).run (d.base.longs.drop d.pos)).short o.x := rfl


/-- what the 0-RTT packets of a datagram put into `output_buffer` -/
def _root_.TLX.Props.C02Capstone3.DgX.zrOut (d : DgX) : List Out := d.zr.flatMap fun q => expectedOf .rtt0 q.x

/-- **One datagram with 0-RTT packets** through `handle_packet`, for a state in the handshake invariant. -/
theorem x_dg_step (hl : H.Lawful) (kl : List Keylog.Key) (L : SealLaws Pc) (dcid0 cr csel ch sh ca sa e : Bytes)
    (sel selR : SuiteSel) (csR : Bytes) (hsel : selectSuite csel = some sel) (hselR : selectSuite csR = some selR)
    (hkl : KeylogHas kl cr ch sh ca sa (some e))
    (ho : (hashOf H sel.hash).outLen < 65536)
    (hsa : sa.length = (hashOf H sel.hash).outLen) (hca : ca.length = (hashOf H sel.hash).outLen)
    (t : Trk) (ecs : Option SuiteSel) (d : DgX) (hok : XDgOkE maskFn H Pc L dcid0 sel selR sh ch sa ca e t ecs d)
    (rest : List CryptoIn) (s : St Tls)
    (hst : HsSt H dcid0 sel ch sh ca sa t.keyed (feedPre H (params H Pc kl) s d.dcid (sver d.ver)) t.tc t.ts t.cc t.sc
      t.core)
    (hinv : EInv H e ecs (feedPre H (params H Pc kl) s d.dcid (sver d.ver)))
    (htr : PTrace cr csel t.core (insOf d.base.longs ++ rest)) :
    let r := handleDatagram maskFn H (params H Pc kl) s (!d.base.srv) d.dcid (sver d.ver) d.base.ts
      (DgX.wire H Pc L dcid0 sel selR sh ch sa ca e d)
    r.2 = none ∧
    HsSt H dcid0 sel ch sh ca sa (t.dgx d).keyed (noOut r.1) (t.dgx d).tc (t.dgx d).ts (t.dgx d).cc (t.dgx d).sc
      (t.dgx d).core ∧
    PTrace cr csel (t.dgx d).core rest ∧ EInv H e (ecsDgx t ecs d) r.1 ∧
    expo r.1.out = expo d.zrOut ++ expo d.base.shortOut := by
  obtain ⟨hclient, hdirL, hdirZ, hcid, hpre, hsuite, hzr, hpost, hshort⟩ := hok
  generalize hs0 : feedPre H (params H Pc kl) s d.dcid (sver d.ver) = s0 at hst hinv
  have hsrv : packetIsServer s0 (!d.base.srv) d.dcid = d.base.srv :=
    packetIsServer_of_dcidOk s0 t.cc t.sc hst.cc hst.sc d.base.srv d.dcid hcid
  have hsplit : insOf d.base.longs = insOf (d.base.longs.take d.pos) ++ insOf (d.base.longs.drop d.pos) := by
    unfold insOf; rw [← List.flatMap_append, List.take_append_drop]
  -- the long-header packets before the 0-RTT packets
  generalize hWt : ((d.base.longs.drop d.pos).map (pkWire H Pc L dcid0 sel sh ch)).flatten ++
    (d.base.short.map (wireOf H Pc L sel .v1 (rfcGen (hashOf H sel.hash) sel.keyLen sa ca 0))).getD [] = Wt
  obtain ⟨s1, a1, a2, a3, a4⟩ := hs_loop_early maskFn H Pc hl kl L dcid0 cr csel ch sh ca sa e sel hsel hkl d.base.srv
    d.base.ts d.dcid (d.base.longs.take d.pos) (fun q hq => hdirL q (List.mem_of_mem_take hq))
    (insOf (d.base.longs.drop d.pos) ++ rest) ((d.zr.map (zrWire H Pc L selR e)).flatten ++ Wt) t s0 hst hpre
    (by rw [← List.append_assoc, ← hsplit]; exact htr) ecs hinv
  -- the 0-RTT packets
  have hz : ∃ s2, HsSt H dcid0 sel ch sh ca sa (DgX.tz t d).keyed (noOut s2) (DgX.tz t d).tc (DgX.tz t d).ts
      (DgX.tz t d).cc (DgX.tz t d).sc (DgX.tz t d).core ∧
      EInv H e (ecsFold t.core (insOf (d.base.longs.take d.pos)) ecs) s2 ∧ s2.out = s1.out ++ d.zrOut ∧
      (Dissect.dissectLoop maskFn (fun x : LoopSt => envOf x.1) (handleTurn (params H Pc kl)) d.base.srv d.dcid d.base.ts
        (s1, none) ((d.zr.map (zrWire H Pc L selR e)).flatten ++ Wt)).1 =
      (Dissect.dissectLoop maskFn (fun x : LoopSt => envOf x.1) (handleTurn (params H Pc kl)) d.base.srv d.dcid d.base.ts
        (s2, none) Wt).1 := by
    by_cases hzn : d.zr = []
    · refine ⟨s1, ?_, a3, by simp [DgX.zrOut, hzn], by simp [hzn]⟩
      simp only [DgX.tz, hzn, List.foldl_nil]
      exact hsSt_noOut H _ _ _ _ _ _ _ _ _ _ _ _ _ a1
    · have hek : EarlyKeyed H selR e s1 := a3 selR (hsuite hzn)
      obtain ⟨s2, b1, b2, b3, b4⟩ := zr_loop maskFn H Pc hl kl L dcid0 sel selR csR hselR ch sh ca sa e d.base.ts d.dcid d.zr
        hdirZ Wt (DgX.t1 t d) s1 (hsSt_noOut H _ _ _ _ _ _ _ _ _ _ _ _ _ a1) hek hzr
      refine ⟨s2, b1, ?_, b3, ?_⟩
      · intro selX hx
        rw [hsuite hzn] at hx
        cases hx
        exact b2
      · rw [hclient hzn]; exact b4
  obtain ⟨s2, c1, c2, c3, c4⟩ := hz
  -- the rest of the datagram, on the state without its output buffer
  have htzc : (DgX.tz t d).core = (DgX.t1 t d).core := (zr_core _ d.zr).1
  have a2' : PTrace cr csel (DgX.tz t d).core (insOf (d.base.longs.drop d.pos) ++ rest) := by rw [htzc]; exact a2
  obtain ⟨s3, e1, e2, e3, e4, J, e5, e6⟩ := tail_loop_early maskFn H Pc hl kl L dcid0 cr csel ch sh ca sa e sel hsel hkl ho hsa
    hca d.base.srv d.base.ts d.dcid (d.base.longs.drop d.pos) d.base.short
    (fun q hq => hdirL q (List.mem_of_mem_drop hq)) rest (DgX.tz t d) (noOut s2) c1 hpost a2'
    (ecsFold t.core (insOf (d.base.longs.take d.pos)) ecs) (eInv_noOut H e _ s2 c2) hshort
  rw [hWt] at e1
  have hw := dissectLoop_wo maskFn (params H Pc kl) s2.out d.base.srv d.dcid d.base.ts Wt (noOut s2, none)
  simp only [wo_noOut] at hw
  intro r
  have hr : r = (wo s2.out s3, none) := by
    show handleDatagram _ _ _ _ _ _ _ _ _ = _
    unfold handleDatagram
    simp only [hs0, hsrv]
    unfold DgX.wire
    rw [List.append_assoc, List.append_assoc, hWt, a4, c4, hw, e1]
  rw [hr, dgx_eq]
  refine ⟨rfl, ?_, ?_, ?_, ?_⟩
  · rw [noOut_wo]
    cases hso : d.base.short <;> simp only [hso] at e2 ⊢ <;> exact e2
  · cases hso : d.base.short <;> simp only [hso] at e3 ⊢ <;> exact e3
  · unfold ecsDgx
    exact eInv_wo H e _ _ _ e4
  · show expo (s2.out ++ s3.out) = _
    rw [c3, e6, expo_append, expo_append, expo_append, expo_none _ a1.inv.out, expo_none J e5]
    simp only [List.nil_append, DgM.shortOut]
    congr 2
    split <;> split <;> first | rfl | simp_all

end XDg
section XFeed
variable (maskFn : Dissect.MaskFn) (H : Crypto.Prims) (Pc : Cipher.Prims) (info : Nat → Pipeline.Info)

/-- the captured frame `p` carries the datagram `d` -/
structure CarriesX (c : QConn) (w : DgX → Bytes) (p : MainLoop.Pkt) (d : DgX) : Prop where
  payload : p.payload = w d
  ts : (info p.tag).ts = d.base.ts
  dir : (p.src == c.client) = !d.base.srv

theorem x_feed_step (hl : H.Lawful) (kl : List Keylog.Key) (L : SealLaws Pc) (dcid0 cr csel ch sh ca sa e : Bytes)
    (sel selR : SuiteSel) (csR : Bytes) (hsel : selectSuite csel = some sel) (hselR : selectSuite csR = some selR)
    (hkl : KeylogHas kl cr ch sh ca sa (some e))
    (ho : (hashOf H sel.hash).outLen < 65536)
    (hsa : sa.length = (hashOf H sel.hash).outLen) (hca : ca.length = (hashOf H sel.hash).outLen)
    (t : Trk) (ecs : Option SuiteSel) (d : DgX) (hok : XDgOkE maskFn H Pc L dcid0 sel selR sh ch sa ca e t ecs d)
    (rest : List CryptoIn) (c : QConn) (hr : c.raised = none)
    (hst : HsSt H dcid0 sel ch sh ca sa t.keyed (feedPre H (params H Pc kl) (noOut c.st) d.dcid (sver d.ver)) t.tc t.ts
      t.cc t.sc t.core)
    (hinv : EInv H e ecs (feedPre H (params H Pc kl) (noOut c.st) d.dcid (sver d.ver)))
    (htr : PTrace cr csel t.core (insOf d.base.longs ++ rest)) (p : MainLoop.Pkt)
    (hcar : CarriesX info c (DgX.wire H Pc L dcid0 sel selR sh ch sa ca e) p d) :
    let c' := (quicMachine maskFn H Pc info).feed c kl p d.dcid d.ver
    c'.raised = none ∧
    HsSt H dcid0 sel ch sh ca sa (t.dgx d).keyed (noOut c'.st) (t.dgx d).tc (t.dgx d).ts (t.dgx d).cc (t.dgx d).sc
      (t.dgx d).core ∧
    PTrace cr csel (t.dgx d).core rest ∧ EInv H e (ecsDgx t ecs d) (noOut c'.st) ∧
    expo c'.st.out = expo c.st.out ++ (expo d.zrOut ++ expo d.base.shortOut) ∧
    c'.opts = c.opts ∧ c'.server = c.server ∧ c'.client = c.client ∧ c'.serverMac = c.serverMac ∧
    c'.clientMac = c.clientMac ∧ c'.ipv6 = c.ipv6 := by
  obtain ⟨w1, w2, w3⟩ := hcar
  obtain ⟨a1, a2, a3, a4, a5⟩ := x_dg_step maskFn H Pc hl kl L dcid0 cr csel ch sh ca sa e sel selR csR hsel hselR hkl ho hsa
    hca t ecs d hok rest (noOut c.st) hst hinv htr
  generalize hr0 : handleDatagram maskFn H (params H Pc kl) (noOut c.st) (!d.base.srv) d.dcid (sver d.ver) d.base.ts
    (DgX.wire H Pc L dcid0 sel selR sh ch sa ca e d) = r0 at a1 a2 a4 a5
  have hfeed : (quicMachine maskFn H Pc info).feed c kl p d.dcid d.ver =
      { c with st := wo c.st.out r0.1, raised := r0.2 } := by
    simp only [quicMachine, hr]
    rw [w1, w2, w3]
    have hw : handleDatagram maskFn H (params H Pc kl) c.st (!d.base.srv) d.dcid (sver d.ver) d.base.ts
        (DgX.wire H Pc L dcid0 sel selR sh ch sa ca e d) = (wo c.st.out r0.1, r0.2) := by
      conv => lhs; rw [← wo_noOut c.st]
      rw [handleDatagram_wo, hr0]
    rw [hw]
  intro c'
  have hc' : c' = { c with st := wo c.st.out r0.1, raised := r0.2 } := hfeed
  rw [hc']
  refine ⟨a1, ?_, a3, ?_, ?_, rfl, rfl, rfl, rfl, rfl, rfl⟩
  · show HsSt H dcid0 sel ch sh ca sa _ (noOut (wo c.st.out r0.1)) _ _ _ _ _
    rw [noOut_wo]; exact a2
  · show EInv H e _ (noOut (wo c.st.out r0.1))
    rw [noOut_wo]; exact eInv_noOut H e _ _ a4
  · show expo (c.st.out ++ r0.1.out) = _
    rw [expo_append, a5]

/-- every datagram against the bookkeeping and the last-call suite after the previous ones -/
def XDgsE (L : SealLaws Pc) (dcid0 : Bytes) (sel selR : SuiteSel) (sh ch sa ca e : Bytes) :
    Trk → Option SuiteSel → List DgX → Prop
  | _, _, [] => True
  | t, ecs, d :: ds => XDgOkE maskFn H Pc L dcid0 sel selR sh ch sa ca e t ecs d ∧
      XDgsE L dcid0 sel selR sh ch sa ca e (t.dgx d) (ecsDgx t ecs d) ds

theorem feedPre_x (P : Params Tls) (dcid0 : Bytes) (s : St Tls) (hi : HsInv H dcid0 s) (d : DgX) :
    feedPre H P s d.dcid (sver d.ver) = s := by
  unfold DgX.ver
  split
  · exact feedPre_est H _ s _ (by rw [hi.init]; rfl) hi.ver
  · exact feedPre_hs H _ dcid0 _ s hi

theorem x_feed_rest (hl : H.Lawful) (L : SealLaws Pc) (dcid0 cr csel ch sh ca sa e : Bytes)
    (sel selR : SuiteSel) (csR : Bytes) (hsel : selectSuite csel = some sel) (hselR : selectSuite csR = some selR)
    (ho : (hashOf H sel.hash).outLen < 65536)
    (hsa : sa.length = (hashOf H sel.hash).outLen) (hca : ca.length = (hashOf H sel.hash).outLen)
    (items : List (List Keylog.Key × MainLoop.Pkt × DgX)) (hkl : ∀ x ∈ items, KeylogHas x.1 cr ch sh ca sa (some e))
    (t : Trk) (ecs : Option SuiteSel) (c : QConn) (hr : c.raised = none)
    (hst : HsSt H dcid0 sel ch sh ca sa t.keyed (noOut c.st) t.tc t.ts t.cc t.sc t.core)
    (hinv : EInv H e ecs (noOut c.st))
    (hok : XDgsE maskFn H Pc L dcid0 sel selR sh ch sa ca e t ecs (items.map (·.2.2)))
    (htr : PTrace cr csel t.core (allInsM ((items.map (·.2.2)).map (·.base))))
    (hcar : ∀ x ∈ items, CarriesX info c (DgX.wire H Pc L dcid0 sel selR sh ch sa ca e) x.2.1 x.2.2) :
    let c' := xFeedAll (quicMachine maskFn H Pc info) c items
    let t' := (items.map (·.2.2)).foldl Trk.dgx t
    c'.raised = none ∧ HsSt H dcid0 sel ch sh ca sa t'.keyed (noOut c'.st) t'.tc t'.ts t'.cc t'.sc t'.core ∧
    expo c'.st.out = expo c.st.out ++ expo ((items.map (·.2.2)).flatMap fun d => d.zrOut ++ d.base.shortOut) ∧
    c'.opts = c.opts ∧ c'.server = c.server ∧ c'.client = c.client ∧ c'.serverMac = c.serverMac ∧
    c'.clientMac = c.clientMac ∧ c'.ipv6 = c.ipv6 := by
  induction items generalizing t ecs c with
  | nil => exact ⟨hr, hst, by simp [xFeedAll, expo], rfl, rfl, rfl, rfl, rfl, rfl⟩
  | cons it rest ih =>
    obtain ⟨kl, p, d⟩ := it
    obtain ⟨hd, hds⟩ := hok
    have htr' : PTrace cr csel t.core (insOf d.base.longs ++ allInsM ((rest.map (·.2.2)).map (·.base))) := by
      simpa [allInsM, List.flatMap_cons] using htr
    have hpre : feedPre H (params H Pc kl) (noOut c.st) d.dcid (sver d.ver) = noOut c.st :=
      feedPre_x H _ dcid0 _ hst.inv d
    obtain ⟨b1, b2, b3, b4, b5, b6, b7, b8, b9, b10, b11⟩ := x_feed_step maskFn H Pc info hl kl L dcid0 cr csel ch sh ca sa e sel
      selR csR hsel hselR (hkl (kl, p, d) (List.mem_cons_self ..)) ho hsa hca t ecs d hd _ c hr (by rw [hpre]; exact hst)
      (by rw [hpre]; exact hinv) htr' p (hcar (kl, p, d) (List.mem_cons_self ..))
    obtain ⟨i1, i2, i3, i4, i5, i6, i7, i8, i9⟩ := ih (fun x hx => hkl x (List.mem_cons_of_mem _ hx)) (t.dgx d) _ _ b1 b2 b4 hds b3
      (fun x hx => by
        obtain ⟨u1, u2, u3⟩ := hcar x (List.mem_cons_of_mem _ hx)
        exact ⟨u1, u2, by rw [b8]; exact u3⟩)
    refine ⟨i1, i2, ?_, i4.trans b6, i5.trans b7, i6.trans b8, i7.trans b9, i8.trans b10, i9.trans b11⟩
    show expo (xFeedAll _ _ rest).st.out = _
    rw [i3, b5]
    simp only [List.map_cons, List.flatMap_cons, expo_append, List.append_assoc]

end XFeed
section XOut
open TLX.Quic.UdpOut TLX.Props.C02Out

/-- the datagram as the output builder sees it: time, direction, the frames of its 0-RTT packets and of its 1-RTT packet -/
def inDgX (d : DgX) : InDgram :=
  ⟨d.base.ts, d.base.srv, ((d.zrOut ++ d.base.shortOut).map frameOf).map fun f => (f.ftype, f.data)⟩

/-- the packets of the datagram carry its time and direction -/
def _root_.TLX.Props.C02Capstone3.DgX.Keys (d : DgX) : Prop :=
  (∀ q ∈ d.zr, q.x.ts = d.base.ts ∧ q.x.srv = d.base.srv) ∧ ∀ o, d.base.short = some o → o.x.ts = d.base.ts ∧ o.x.srv = d.base.srv

theorem expectedOf_pt (pt : PType) (x : SPkt) : (expectedOf pt x).map frameOf = (expectedOf .rtt1 x).map frameOf := by
  unfold expectedOf
  simp only [List.map_map]
  apply List.map_congr_left
  intro f _
  simp only [Function.comp, frameOf]

theorem zrOut_frames (d : DgX) : d.zrOut.map frameOf = d.zr.flatMap fun q => (expectedOf .rtt1 q.x).map frameOf := by
  unfold DgX.zrOut
  induction d.zr with
  | nil => rfl
  | cons q qs ih => simp only [List.flatMap_cons, List.map_append, ih, expectedOf_pt]

theorem shortOut_frames (d : DgM) : d.shortOut.map frameOf = (d.short.map fun o => (expectedOf .rtt1 o.x).map frameOf).getD [] := by
  unfold DgM.shortOut
  cases d.short <;> rfl

theorem inDgX_frames (d : DgX) (hk : d.Keys) : (inDgX d).frames = (d.zrOut ++ d.base.shortOut).map frameOf := by
  unfold inDgX InDgram.frames
  simp only [List.map_map]
  have hall : ∀ o ∈ d.zrOut ++ d.base.shortOut, o.ts = d.base.ts ∧ o.isServer = d.base.srv := by
    intro o ho
    rcases List.mem_append.mp ho with h | h
    · simp only [DgX.zrOut, List.mem_flatMap] at h
      obtain ⟨q, hq, hoq⟩ := h
      simp only [expectedOf, List.mem_map] at hoq
      obtain ⟨f, _, rfl⟩ := hoq
      exact hk.1 q hq
    · unfold DgM.shortOut at h
      cases hs : d.base.short with
      | none => rw [hs] at h; cases h
      | some o' =>
        rw [hs] at h
        simp only [expectedOf, List.mem_map] at h
        obtain ⟨f, _, rfl⟩ := h
        exact hk.2 o' hs
  conv => rhs; rw [← List.map_id' ((d.zrOut ++ d.base.shortOut).map frameOf)]
  rw [List.map_map]
  apply List.map_congr_left
  intro o ho
  obtain ⟨h1, h2⟩ := frameOf_ts o
  obtain ⟨h3, h4⟩ := hall o ho
  simp only [Function.comp, id]
  generalize frameOf o = fr at h1 h2
  obtain ⟨a, b, c, dd⟩ := fr
  simp only at h1 h2
  rw [← h3, ← h4, h1, h2]

theorem inDgX_data (d : DgX) (hk : d.Keys) : (inDgX d).frames.filterMap (exported false) = d.data := by
  rw [inDgX_frames d hk, List.map_append, List.filterMap_append, zrOut_frames, shortOut_frames]
  unfold DgX.data
  congr 1
  · induction d.zr with
    | nil => rfl
    | cons q qs ih => simp only [List.flatMap_cons, List.filterMap_append, ih, exported_stream_data]
  · cases d.base.short with
    | none => rfl
    | some o => simp only [Option.map_some, Option.getD_some, exported_stream_data]

theorem hasExported_inDgX (d : DgX) (hk : d.Keys) : hasExported false (inDgX d) = !d.data.isEmpty := by
  unfold hasExported
  rw [any_isSome_filterMap, inDgX_data d hk]

theorem outDgram_inDgX (d : DgX) (hk : d.Keys) : outDgram false (inDgX d) = ⟨d.base.srv, d.base.ts, d.data.flatten⟩ := by
  unfold outDgram
  rw [inDgX_data d hk]
  rfl

end XOut

section ZeroRttFinal
variable (maskFn : Dissect.MaskFn) (H : Crypto.Prims) (Pc : Cipher.Prims) (info : Nat → Pipeline.Info)
open TLX.Quic.UdpOut TLX.Props.C02Out

theorem keys_of_ok (L : SealLaws Pc) (dcid0 : Bytes) (sel selR : SuiteSel) (sh ch sa ca e : Bytes) (t : Trk)
    (ecs : Option SuiteSel) (d : DgX) (h : XDgOkE maskFn H Pc L dcid0 sel selR sh ch sa ca e t ecs d) : d.Keys := by
  refine ⟨?_, ?_⟩
  · intro q hq
    have hne : d.zr ≠ [] := List.ne_nil_of_mem hq
    obtain ⟨i, hi⟩ := List.getElem?_of_mem hq
    obtain ⟨z1, _⟩ := h.zr i q hi
    exact ⟨h.dirZ q hq, by rw [z1.client, h.client hne]⟩
  · intro o ho
    obtain ⟨o1, o2, _⟩ := h.short o ho
    exact ⟨o2, o1⟩

theorem keys_of_oks (L : SealLaws Pc) (dcid0 : Bytes) (sel selR : SuiteSel) (sh ch sa ca e : Bytes) (t : Trk)
    (ecs : Option SuiteSel) (ds : List DgX) (h : XDgsE maskFn H Pc L dcid0 sel selR sh ch sa ca e t ecs ds) :
    ∀ d ∈ ds, d.Keys := by
  induction ds generalizing t ecs with
  | nil => intro d hd; cases hd
  | cons a rest ih =>
    intro d hd
    rcases List.mem_cons.mp hd with rfl | hd
    · exact keys_of_ok maskFn H Pc L dcid0 sel selR sh ch sa ca e t ecs _ h.1
    · exact ih _ _ h.2 d hd

/-- **C02 with 0-RTT** (`quic_connection_exact_interleaved` with 0-RTT packets anywhere in the mixed part). Every datagram of
    the mixed part is a `DgX`: long-header packets, 0-RTT packets of the client after the first `pos` of them, more
    long-header packets, optionally the closing 1-RTT packet. THE condition on a 0-RTT packet (`XDgOkE.suite`): when it is
    reached, the suite `set_tls_decryptors` was LAST CALLED with (`ecsFold`: after the ClientHello the first offered suite —
    if the tool knows it —, after the ServerHello / EncryptedExtensions the selected one) is the suite `selR` the client
    protects 0-RTT with; the key log has CLIENT_EARLY_TRAFFIC_SECRET (`KeylogHas … (some e)`). Then nothing raises and the
    export without `-a` is exactly one UDP frame per datagram that carried STREAM data in a 0-RTT or 1-RTT packet — payload:
    the 0-RTT packets' data, then the 1-RTT packet's —, in capture order, then the 1-RTT-only part (`expectedOutX`).
    NOT covered (and lost by the tool: `ExZr.…_counterexample`, open finding `early-data-lost`): 0-RTT packets before the
    ClientHello is complete, or while the last call used another suite than the client's. -/
theorem quic_connection_exact_0rtt (hl : H.Lawful) (h32 : H.sha256.outLen = 32) (L : SealLaws Pc)
    (cr csel ch sh ca sa e : Bytes) (sel selR : SuiteSel) (csR : Bytes) (hsel : selectSuite csel = some sel)
    (hselR : selectSuite csR = some selR)
    (ho : (hashOf H sel.hash).outLen < 65536)
    (hsa : sa.length = (hashOf H sel.hash).outLen) (hca : ca.length = (hashOf H sel.hash).outLen)
    (kl0 : List Keylog.Key) (p0 : MainLoop.Pkt) (d0 : DgX) (itemsA : List (List Keylog.Key × MainLoop.Pkt × DgX))
    (hkl : ∀ x ∈ (kl0, p0, d0) :: itemsA, KeylogHas x.1 cr ch sh ca sa (some e))
    (c : QConn) (hc : Fresh H Pc c) (hd0 : d0.ver = .v1)
    (hok : XDgsE maskFn H Pc L d0.dcid sel selR sh ch sa ca e trk0 none (d0 :: itemsA.map (·.2.2)))
    (htr : PTrace cr csel {} (allInsM ((d0 :: itemsA.map (·.2.2)).map (·.base))))
    (hcar : ∀ x ∈ (kl0, p0, d0) :: itemsA, CarriesX info c (DgX.wire H Pc L d0.dcid sel selR sh ch sa ca e) x.2.1 x.2.2)
    (hkeyed : ((d0 :: itemsA.map (·.2.2)).foldl Trk.dgx trk0).keyed = true)
    (itemsB : List (List Keylog.Key × MainLoop.Pkt × Dg1))
    (hcarB : ∀ x ∈ itemsB, Carries info c
      (wireOf H Pc L sel .v1 (rfcGen (hashOf H sel.hash) sel.keyLen sa ca 0)) x.2.1 x.2.2)
    (hsend : Send1 maskFn H Pc L sel .v1 (rfcGen (hashOf H sel.hash) sel.keyLen sa ca 0)
      (quicHp (hashOf H sel.hash) ca sel.keyLen) (quicHp (hashOf H sel.hash) sa sel.keyLen)
      (chachaOf ((d0 :: itemsA.map (·.2.2)).foldl Trk.dgx trk0).core) 0 0
      ((d0 :: itemsA.map (·.2.2)).foldl Trk.dgx trk0).tc.app ((d0 :: itemsA.map (·.2.2)).foldl Trk.dgx trk0).ts.app
      ((d0 :: itemsA.map (·.2.2)).foldl Trk.dgx trk0).cc ((d0 :: itemsA.map (·.2.2)).foldl Trk.dgx trk0).sc
      (itemsB.map (·.2.2)))
    (hadj : DistinctAdjacent false ((d0 :: itemsA.map (·.2.2)).map inDgX ++ (itemsB.map (·.2.2)).map fun d => inDg d.x)) :
    let QM := quicMachine maskFn H Pc info
    let c1 := xFeedAll QM c ((kl0, p0, d0) :: itemsA)
    (feedAll QM c1 itemsB).raised = none ∧
    QM.out false (feedAll QM c1 itemsB) = expectedOutX c (d0 :: itemsA.map (·.2.2)) (itemsB.map (·.2.2)) := by
  intro QM c1
  obtain ⟨hfresh, hr⟩ := hc
  have hkeys := keys_of_oks maskFn H Pc L d0.dcid sel selR sh ch sa ca e trk0 none _ hok
  obtain ⟨hm0, hms⟩ := hok
  have hv0 : sver d0.ver = .v1 := by rw [hd0]; rfl
  have hno : noOut c.st = c.st := by rw [hfresh]; rfl
  have hpre : HsSt H d0.dcid sel ch sh ca sa trk0.keyed (feedPre H (params H Pc kl0) (noOut c.st) d0.dcid (sver d0.ver))
      trk0.tc trk0.ts trk0.cc trk0.sc trk0.core := by
    rw [hno, hfresh, hv0]; exact feedPre_fresh H Pc kl0 h32 d0.dcid sel ch sh ca sa
  have hinv0 : EInv H e none (feedPre H (params H Pc kl0) (noOut c.st) d0.dcid (sver d0.ver)) := by
    intro selX hx; cases hx
  have htr' : PTrace cr csel trk0.core (insOf d0.base.longs ++ allInsM ((itemsA.map (·.2.2)).map (·.base))) := by
    simpa [allInsM, List.flatMap_cons, trk0] using htr
  obtain ⟨b1, b2, b3, b4, b5, b6, b7, b8, b9, b10, b11⟩ := x_feed_step maskFn H Pc info hl kl0 L d0.dcid cr csel ch sh ca sa e
    sel selR csR hsel hselR (hkl (kl0, p0, d0) (List.mem_cons_self ..)) ho hsa hca trk0 none d0 hm0 _ c hr hpre hinv0 htr' p0
    (hcar (kl0, p0, d0) (List.mem_cons_self ..))
  obtain ⟨i1, i2, i3, i4, i5, i6, i7, i8, i9⟩ := x_feed_rest maskFn H Pc info hl L d0.dcid cr csel ch sh ca sa e sel selR csR hsel
    hselR ho hsa hca itemsA (fun x hx => hkl x (List.mem_cons_of_mem _ hx)) (trk0.dgx d0) _ _ b1 b2 b4 hms b3
    (fun x hx => by
      obtain ⟨u1, u2, u3⟩ := hcar x (List.mem_cons_of_mem _ hx)
      exact ⟨u1, u2, by rw [b8]; exact u3⟩)
  have hc1 : c1 = xFeedAll QM (QM.feed c kl0 p0 d0.dcid d0.ver) itemsA := rfl
  have ht1 : (d0 :: itemsA.map (·.2.2)).foldl Trk.dgx trk0 = (itemsA.map (·.2.2)).foldl Trk.dgx (trk0.dgx d0) := rfl
  rw [ht1] at hkeyed hsend
  rw [← hc1] at i1 i2 i3 i4 i5 i6 i7 i8 i9
  rw [hkeyed] at i2
  have hest := est_of_noOut H Pc [] _ _ _ _ _ _ _ _ _ _ _ _ _
    (est_of_hsSt H Pc [] _ sel ch sh ca sa _ _ _ _ _ _ i2)
  have hk := keysWf_rfc H hl Pc [] csel sel hsel .v1 ho sa ca hsa hca
  have e3 : c1.opts = c.opts := i4.trans b6
  have e4 : c1.server = c.server := i5.trans b7
  have e5 : c1.client = c.client := i6.trans b8
  have e6 : c1.serverMac = c.serverMac := i7.trans b9
  have e7 : c1.clientMac = c.clientMac := i8.trans b10
  have e8 : c1.ipv6 = c.ipv6 := i9.trans b11
  obtain ⟨f1, f2, f3, f4, f5, f6, f7, f8, _⟩ := feedAll_exact maskFn H Pc info [] L sel .v1 _ _ _ _ hk itemsB c1
    0 0 _ _ _ _ i1 hest
    (fun x hx => by
      obtain ⟨u1, u2, u3⟩ := hcarB x hx
      exact ⟨u1, u2, by rw [e5]; exact u3⟩) hsend
  refine ⟨f1, ?_⟩
  have hexpo : expo (feedAll QM c1 itemsB).st.out =
      expo (((d0 :: itemsA.map (·.2.2)).flatMap fun d => d.zrOut ++ d.base.shortOut) ++
        (itemsB.map (·.2.2)).flatMap fun d => expectedOf .rtt1 d.x) := by
    rw [f2, expo_append, i3, b5]
    have hc0 : expo c.st.out = [] := by rw [hfresh]; rfl
    rw [hc0, List.nil_append, expo_append]
    congr 1
    simp only [List.flatMap_cons, expo_append]
  show connOut false (feedAll QM c1 itemsB) = _
  rw [connOut_eq, addressed_congr c _ (f3.trans e3) (f4.trans e4) (f5.trans e5) (f6.trans e6) (f7.trans e7) (f8.trans e8),
    build_congr _ _ hexpo]
  have hframesA : ∀ ds : List DgX, (∀ d ∈ ds, d.Keys) →
      (ds.flatMap fun d => d.zrOut ++ d.base.shortOut).map frameOf = framesOf (ds.map inDgX) := by
    intro ds
    induction ds with
    | nil => intro _; rfl
    | cons d ds ih =>
      intro hk
      simp only [List.flatMap_cons, List.map_append, List.map_cons, framesOf] at ih ⊢
      rw [← ih (fun x hx => hk x (List.mem_cons_of_mem _ hx)), inDgX_frames d (hk d (List.mem_cons_self ..)), List.map_append]
  have hframesB : ∀ ds : List Dg1, (ds.flatMap fun d => expectedOf .rtt1 d.x).map frameOf =
      framesOf (ds.map fun d => inDg d.x) := by
    intro ds
    induction ds with
    | nil => rfl
    | cons d ds ih =>
      simp only [List.flatMap_cons, List.map_append, List.map_cons, framesOf] at ih ⊢
      rw [ih, inDg_frames]
  have hfr : (((d0 :: itemsA.map (·.2.2)).flatMap fun d => d.zrOut ++ d.base.shortOut) ++
        (itemsB.map (·.2.2)).flatMap fun d => expectedOf .rtt1 d.x).map frameOf =
      framesOf ((d0 :: itemsA.map (·.2.2)).map inDgX ++ (itemsB.map (·.2.2)).map fun d => inDg d.x) := by
    rw [List.map_append, hframesA _ hkeys, hframesB]
    simp only [framesOf, List.flatMap_append]
  rw [hfr, build_groups false _ hadj, List.filter_append, List.map_append, List.map_append]
  unfold expectedOutX
  congr 1
  · -- the mixed part
    have : ∀ ds : List DgX, (∀ d ∈ ds, d.Keys) →
        (((ds.map inDgX).filter (hasExported false)).map (outDgram false)).map (addressed c) =
          (ds.filter fun d => !d.data.isEmpty).map fun d => addressed c ⟨d.base.srv, d.base.ts, d.data.flatten⟩ := by
      intro ds
      induction ds with
      | nil => intro _; rfl
      | cons d ds ih =>
        intro hk
        have hd := hk d (List.mem_cons_self ..)
        simp only [List.map_cons, List.filter_cons, hasExported_inDgX d hd]
        split
        · simp only [List.map_cons, outDgram_inDgX d hd, ih (fun x hx => hk x (List.mem_cons_of_mem _ hx))]
        · exact ih (fun x hx => hk x (List.mem_cons_of_mem _ hx))
    exact this _ hkeys
  · exact out_tail c _

end ZeroRttFinal
end TLX.Props.C02Capstone4
