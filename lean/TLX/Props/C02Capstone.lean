/-
C02 CAPSTONE — "QUIC v1 STREAM data is exported exactly, datagram by datagram" as ONE theorem about the composed model
`QuicPipeline.quicMachine` (UDP datagrams in → addressed UDP frames out), by composing what is proved per component.

Spec      `Spec/QuicConnection.lean` (1-RTT datagrams: `Dg1`, `Dg1.wire` = RFC 9000 §17.3.1 packet, RFC 9001 §5.3 packet
          protection, §5.4 header protection with the sender's mask; `DcidOk`/`CidsOk`: RFC 9000 §5.1; `streamData`),
          `Spec/QuicSender.lean` (`SPkt`, `PnLenOk`, key generations), `Spec/QuicFrames.lean`.
Main      `quic_one_rtt_connection_exact`
            ASSUMES  the session state after the handshake satisfies `Est` (= `C02Session.Rel1` + Initial decryptor present +
                     the two application header-protection keys in `self.keys` + mask algorithm flag + version stamp +
                     the CID sets), `KeysWf` (every generation's key fits the AEAD), AEAD `SealLaws`, ANY mask primitive,
                     nothing exported yet (`hprev`: the handshake left only CRYPTO frames in `output_buffer`);
            FOR EVERY 1-RTT datagram history `Send1`: both directions interleaved in any way; packet numbers with any
                     gaps, truncated to any of 1–4 bytes within the RFC 9000 §17.1 window (`PnLenOk`); any number of key
                     updates by either side (generation +0/+1 per packet of a direction); any well-formed frame mix WITHOUT
                     CRYPTO frames (see below) around any number of STREAM frames; spin / reserved bits arbitrary;
                     NEW_CONNECTION_ID issuance and switches (`DcidOk`: a packet is never addressed to a CID only its own
                     sender issued; the same bytes chosen by both sides are allowed); the sender padded for the
                     header-protection sample; datagrams pairwise different in (capture time, direction); the key log
                     handed to each `handle_packet` call arbitrary (`est_keylog_irrelevant`: it is read no more);
            PROVES   no exception; `quicMachine.out false` = exactly one UDP frame per datagram that carried a STREAM frame,
                     in capture order, payload = that datagram's STREAM data concatenated, time = the datagram's, addressed
                     by its direction (`QuicPipeline.addressed`; `C02Pipeline.quic_out_addressed`).
          Composition: `C02Dissect.dissect_encode_short` (the packet) ∘ `assocData_emit` (AAD = header) ∘
          `selectDecryptor_tracks` (key epochs) ∘ `decryptRest_emitted` (C16 window, AEAD law, C17 `frames_roundtrip`) ∘
          `handleFrames_nc` ∘ `C02Out.build_groups` (grouping) — `datagram_step`, `feedAll_exact`.
RFC keys  `genKeys_eq_rfc` (the model's `key_update` chain from the RFC's generation 0 IS RFC 9001 §6.1's, via C15),
          `keysWf_rfc` (`KeysWf` for the four suites and lawful hashes), `devQuic_rfc` (C15 `quic_keys_eq_rfc` through the
          key-log adapter), `first_initial_rfc` (C15 `quic_initial_eq_rfc`: Initial keys from the first DCID),
          `hello_establishes(_rfc)`: the `set_tls_decryptors` call triggered by the last hello message establishes `Est`
          with exactly the RFC keys (adapter soundness `C02Pipeline.after_tls_hp_exact` included).
Partial   `quic_connection_exact_partial`: all hypotheses in RFC terms except `Est` of the post-handshake state.
Handshake `quic_handshake_establishes`, `quic_connection_exact` (= handshake, then the 1-RTT theorem; `hprev` discharged).
          Spec: `Spec/QuicConnection.lean` (`DgH`: datagrams of coalesced Initial / Handshake packets, `longOf`, `LongShape`),
          `HsPkOk` / `HsDgOk` / `HsDgs` here (they name the keys of each level). Exactness of the Initial / Handshake levels is
          re-proved with hypotheses LOCAL to the history instead of `C02Session.TlsStable` (false for the concrete parser):
            `step_long_eq`    any `Params`: an emitted long-header packet's `decrypt_packet` IS `handle_frame` over its frames;
            `afterTls_hs`     `set_tls_decryptors` with the connection's key-log lines: never raises, idempotent — same suite
                              ⇒ the same RFC keys (`Keyed`), whatever was installed before (ClientHello: first offered suite);
            `PTrace`          the local hypothesis: on this history's CRYPTO inputs the concrete `QuicTlsSession` never raises,
                              and whenever it leaves `new_data` set the client random is the connection's and the suite the
                              selected one (except after a client Initial: first offered suite).
                              DISCHARGED for conformant handshakes by `ptrace_of_conformant` (`ConfHs`: ClientHello of the
                              RFC 8446 encoder in ANY cut / order / duplicates over the client Initials, ServerHello, the
                              server's flight EE ‖ Certificate ‖ CertificateVerify ‖ Finished over any in-order cut, the
                              client's Finished) — `ptrace_phase` (one space at a time: `Lemmas.CryptoStream.Inv`,
                              `update_own_space`, `update_keeps_drained`) + `C02Hello.client_hello_parsed /
                              server_hello_parsed / encrypted_extensions_parsed`; `quic_connection_exact_conformant`.
            `hs_packet_step`, `hs_turn`, `hs_loop`, `hs_feed_step`, `hs_feed_rest`: packet, coalescing loop, datagram, history.
          Further hypotheses: the key-log lines of this client random at EVERY handshake `handle_packet` call (not only from
          the ServerHello on: a ClientHello processed without them makes `dev_quic_keys` raise inside `handle_crypto_frame`,
          `new_data` stays set and the rest of that packet's frames is skipped — not modelled in the proof); Handshake packets
          only after a server CRYPTO frame completed a hello (`HsPkOk.keys`, stated through the bookkeeping `Trk.keyed`;
          `keyed_of_handshake`: `hkeyed` follows once the history has a Handshake packet); no 0-RTT.
Retry     `quic_connection_exact_retry`: first Initial, Retry (`retry_feed` = `retry_resets` in the composed machine), new
          Initial with the Retry SCID as DCID and a token (`after_retry_pre`: Initial keys of the NEW DCID, CID sets and
          packet numbers of the first attempt kept), handshake (`quic_handshake_establishes_from`), 1-RTT.
CRYPTO in 1-RTT: excluded (`DgOk.noCrypto`). Without the restriction the statement is FALSE for the code as it is: a 1-RTT
          CRYPTO frame carrying an EncryptedExtensions- or ServerHello-typed message makes `set_tls_decryptors` run again
          and resets the Application generations (replayed on the real tool: data after a key update is lost).
          NewSessionTicket (what RFC 9001 allows there) is harmless (`C02Pipeline.one_rtt_crypto_keeps_keys`) but needs a
          hypothesis on the parser's reassembly state; not composed here.
Non-vacuity: namespace `Ex` (toy hashes, toy AEAD, constant mask): four datagrams, two key updates, a packet-number jump on two
          bytes, a NEW_CONNECTION_ID switch, one datagram without STREAM data — three exported frames.
-/
import TLX.Props.C02Session
import TLX.Props.C02Pipeline
import TLX.Spec.QuicConnection
import TLX.Props.C02Dissect
import TLX.Props.C02Out
import TLX.Props.C15
import TLX.Crypto.Toy
import TLX.Props.C02Crypto
import TLX.Props.C02Hello
set_option linter.unusedSimpArgs false
set_option linter.unusedVariables false
namespace TLX.Props.C02Capstone
open TLX TLX.Quic TLX.Cipher TLX.Quic.Session TLX.Lemmas.QuicSession TLX.Spec.QuicSender TLX.Spec.QuicFrames
open TLX.Props.C02Session TLX.Spec.QuicConnection TLX.Spec.QuicPackets TLX.QuicPipeline
open TLX.Spec.KeySchedules TLX.Lemmas.KeySchedule

variable {σ : Type} (P : Params σ)

/-- connection IDs issued in the NEW_CONNECTION_ID frames of a parsed frame list -/
def ncidsP (fs : List Frame.Parsed) : List Bytes :=
  fs.filterMap fun f => match f with | .newConnectionId _ _ _ _ cid _ => some cid | _ => none

def isCryptoP (f : Frame.Parsed) : Bool := match f with | .crypto .. => true | _ => false

/-- the state after `handle_frame` ran over frames none of which is a CRYPTO frame -/
def afterFrames (s : St σ) (p : Pkt) (fs : List Frame.Parsed) : St σ :=
  { s with clientCids := if p.isServer then s.clientCids else (ncidsP fs).foldl setAdd s.clientCids,
           serverCids := if p.isServer then (ncidsP fs).foldl setAdd s.serverCids else s.serverCids,
           out := s.out ++ fs.filterMap (exportOf p) }

theorem afterFrames_nil (s : St σ) (p : Pkt) : afterFrames s p [] = s := by
  cases s; simp [afterFrames, ncidsP]

theorem handleFrames_nc (s : St σ) (p : Pkt) (fs : List Frame.Parsed) (h : ∀ f ∈ fs, isCryptoP f = false) :
    handleFrames P s p fs = (afterFrames s p fs, none) := by
  induction fs generalizing s with
  | nil => simp [handleFrames, afterFrames_nil]
  | cons f fs ih =>
    have hf := h f (List.mem_cons_self ..)
    have hrest := fun g hg => h g (List.mem_cons_of_mem _ hg)
    unfold handleFrames
    cases f <;> simp [isCryptoP] at hf <;>
      simp [handleFrame, ih _ hrest, afterFrames, ncidsP, exportOf, List.filterMap_cons] <;>
      (cases p.isServer <;> simp)

def isCryptoQ (f : QFrame) : Bool := match f with | .crypto .. => true | _ => false

theorem toParsed_isCrypto (f : QFrame) : isCryptoP f.toParsed = isCryptoQ f := by
  cases f <;> rfl

theorem normalize_noCrypto (fs : List QFrame) (h : ∀ f ∈ fs, isCryptoQ f = false) :
    ∀ f ∈ normalize fs, isCryptoQ f = false := by
  induction fs with
  | nil => simp [normalize]
  | cons a rest ih =>
    have ih' := ih (fun g hg => h g (List.mem_cons_of_mem _ hg))
    have ha := h a (List.mem_cons_self ..)
    cases a <;> simp only [normalize] <;> try (intro f hf; rcases List.mem_cons.mp hf with rfl | hf; exact ha; exact ih' f hf)
    -- padding
    split
    · rename_i b r heq
      rw [heq] at ih'
      intro f hf
      rcases List.mem_cons.mp hf with rfl | hf
      · rfl
      · exact ih' f (List.mem_cons_of_mem _ hf)
    · intro f hf
      rcases List.mem_cons.mp hf with rfl | hf
      · rfl
      · exact ih' f hf


/-- connection IDs issued in the NEW_CONNECTION_ID frames of a packet -/
def ncids (fs : List QFrame) : List Bytes := ncidsP ((normalize fs).map QFrame.toParsed)

/-- One 1-RTT packet of a conformant sender that carries no CRYPTO frame, for ANY TLS-parser parameters (the parser is
    not consulted): as `C02Session.step_one_rtt`, without its `TlsQuiet` / `TlsNoRaise` hypotheses, and with the exact
    effect on the parser state (none), the Initial decryptor (none) and the CID sets (the NEW_CONNECTION_ID frames). -/
theorem step_one_rtt_nc (L : SealLaws P.prims) (sel : SuiteSel) (v : Version) (k0 : AppKeys)
    (hk : KeysWf P sel v k0)
    (x : SPkt) (s : St σ) (gc gs lc ls : Nat) (hrel : Rel1 P sel v k0 s gc gs lc ls)
    (hlv : x.level = .oneRtt) (hlo : (if x.srv then gs else gc) ≤ x.gen) (hhi : x.gen ≤ (if x.srv then gs else gc) + 1)
    (hpn : PnLenOk (if x.srv then ls else lc) x.pn x.pnLen) (hwf : WellFormedSeq x.frames)
    (hnc : ∀ f ∈ x.frames, isCryptoQ f = false) :
    (stepPkt P s (emit1 P L sel v k0 x)).caught = none ∧ (stepPkt P s (emit1 P L sel v k0 x)).escaped = none ∧
    (stepPkt P s (emit1 P L sel v k0 x)).st.out = s.out ++ expectedOf .rtt1 x ∧
    Rel1 P sel v k0 (stepPkt P s (emit1 P L sel v k0 x)).st (if x.srv then gc else x.gen) (if x.srv then x.gen else gs)
      (if x.srv then lc else max lc x.pn) (if x.srv then max ls x.pn else ls) ∧
    (stepPkt P s (emit1 P L sel v k0 x)).st.tls = s.tls ∧
    (stepPkt P s (emit1 P L sel v k0 x)).st.decInitial = s.decInitial ∧
    (stepPkt P s (emit1 P L sel v k0 x)).st.clientCids =
      (if x.srv then s.clientCids else (ncids x.frames).foldl setAdd s.clientCids) ∧
    (stepPkt P s (emit1 P L sel v k0 x)).st.serverCids =
      (if x.srv then (ncids x.frames).foldl setAdd s.serverCids else s.serverCids) := by
  obtain ⟨hinv, hflag, hpc, hps⟩ := hrel
  generalize hp : emit1 P L sel v k0 x = p
  have hh : p.htype = .short := by subst hp; simp [emit1, emit, hlv]
  have ht : p.ptype = .rtt1 := by subst hp; simp [emit1, emit, hlv]
  have hkp : p.keyPhase = some (x.gen % 2) := by subst hp; simp [emit1, emit, hlv]
  have hsrv : p.isServer = x.srv := by subst hp; simp [emit1, emit, hlv]
  have hts : p.ts = x.ts := by subst hp; simp [emit1, emit, hlv]
  have hpnb : p.pn = some (pnBytes x.pnLen x.pn) := by subst hp; simp [emit1, emit, hlv]
  have hpl : p.payload = some (L.aeadSeal sel.alg (genDir (P.keyUpdate sel v) k0 x.srv x.gen).key
      (nonce (genDir (P.keyUpdate sel v) k0 x.srv x.gen).iv x.pn) (header x) 16 (encodeAll x.frames)) := by
    subst hp; simp [emit1, emit, hlv, protectedPayload]
  have haad : assocData p = .ok (header x) := by subst hp; exact assocData_emit _ _ _ _
  obtain ⟨s', h1, h2, h3⟩ := selectDecryptor_tracks P sel v k0 s gc gs hinv p x.gen hh ht hkp
    (by rw [hsrv]; exact hlo) (by rw [hsrv]; exact hhi)
  obtain ⟨e1, e2, e3⟩ := step_short_rtt1 P s p ht
  have hdp : decryptPacket P s p = decryptRest P s' p (some (genDec P sel v k0 x.gen)) := by
    simp [decryptPacket, h1]
  have hs' : s'.tls = s.tls ∧ s'.pnClient = s.pnClient ∧ s'.pnServer = s.pnServer ∧ s'.out = s.out ∧
      s'.decInitial = s.decInitial ∧ s'.clientCids = s.clientCids ∧ s'.serverCids = s.serverCids := by
    obtain ⟨_, _, _, _, _, rfl⟩ := h3; exact ⟨rfl, rfl, rfl, rfl, rfl, rfl, rfl⟩
  obtain ⟨t1, t2, t3, t4, t5, t6, t7⟩ := hs'
  have hdir : (if p.isServer then (genDec P sel v k0 x.gen).server else some (genDec P sel v k0 x.gen).client)
      = some (genDir (P.keyUpdate sel v) k0 x.srv x.gen) := by
    rw [hsrv]; cases x.srv <;> simp [genDec, AppKeys.toDec, genDir]
  have hlarge : pnLargest s' p.isServer .app = (if x.srv then ls else lc) := by
    rw [hsrv]; cases x.srv <;> simp [pnLargest, PnTab.get, t2, t3, hpc, hps]
  have hrest := decryptRest_emitted P L s' p (genDec P sel v k0 x.gen) (genDir (P.keyUpdate sel v) k0 x.srv x.gen)
    .app _ x.pn x.pnLen (header x) x.frames hdir (by rw [ht]; rfl) (by simp [hasPnAttr, hh]) hlarge hpnb hpn haad
    (by rw [hpl]; rfl) hwf (hk x.srv x.gen).1 (hk x.srv x.gen).2
  have hncP : ∀ g ∈ (normalize x.frames).map QFrame.toParsed, isCryptoP g = false := by
    intro g hg
    obtain ⟨f, hf, rfl⟩ := List.mem_map.mp hg
    rw [toParsed_isCrypto]; exact normalize_noCrypto _ hnc f hf
  rw [hdp, hrest, handleFrames_nc P _ p _ hncP] at e1 e2
  generalize hs2 : pnStore s' p.isServer Space.app (max (if x.srv then ls else lc) x.pn) = s2 at e1 e2
  have f2 : FramePn s' s2 := by subst hs2; unfold pnStore; split <;> exact ⟨_, _, rfl⟩
  have hinv2 := h2.of_framePn P f2
  rw [hsrv] at hinv2
  have hs2' : s2.tls = s.tls ∧ s2.out = s.out ∧ s2.decInitial = s.decInitial ∧ s2.clientCids = s.clientCids ∧
      s2.serverCids = s.serverCids := by
    obtain ⟨_, _, rfl⟩ := f2; exact ⟨t1, t4, t5, t6, t7⟩
  obtain ⟨u1, u2, u3, u4, u5⟩ := hs2'
  refine ⟨e2, e3, ?_, ⟨?_, ?_, ?_, ?_⟩, ?_, ?_, ?_, ?_⟩
  · rw [e1]; simp only [afterFrames, u2, filterMap_export]
    simp [expectedOf, exported_eq, mkOut, hts, hsrv, ht]
  · rw [e1]; exact hinv2.transfer P rfl rfl rfl rfl rfl rfl rfl
  · rw [e1]; simp only [afterFrames, u1]; exact hflag
  · rw [e1]; subst hs2
    rw [hsrv]; cases x.srv <;> simp [afterFrames, pnStore, PnTab.set, t2, hpc]
  · rw [e1]; subst hs2
    rw [hsrv]; cases x.srv <;> simp [afterFrames, pnStore, PnTab.set, t3, hps]
  · rw [e1]; exact u1
  · rw [e1]; exact u3
  · rw [e1]; simp only [afterFrames, hsrv, u4, ncids]
  · rw [e1]; simp only [afterFrames, hsrv, u5, ncids]


/-! ### the sender's 1-RTT packet on the wire is the packet the session theorems speak about -/

theorem pnBytes_length (n pn : Nat) : (pnBytes n pn).length = n := Lemmas.QuicVarint.ofNatBE_length _ _

theorem shortOf_wf (x : SPkt) (pl : Bytes) (h1 : 1 ≤ x.pnLen) (h4 : x.pnLen ≤ 4) : (shortOf x pl).wf := by
  refine ⟨?_, ?_, ?_⟩
  · show x.lowBits % 4 < 4; omega
  · show 1 ≤ (pnBytes x.pnLen x.pn).length; rw [pnBytes_length]; exact h1
  · show (pnBytes x.pnLen x.pn).length ≤ 4; rw [pnBytes_length]; exact h4

theorem shortOf_first (x : SPkt) (pl : Bytes) (h1 : 1 ≤ x.pnLen) (h4 : x.pnLen ≤ 4) :
    (shortOf x pl).first = firstByteShort x := by
  unfold Short.first firstByteShort shortOf
  simp only [pnBytes_length]
  congr 1
  by_cases a : 4 ≤ x.lowBits % 8 <;> by_cases b : x.gen % 2 = 1 <;> simp [a, b] <;> omega

theorem shortOf_toPkt (sealFn : Seal) (alg : Alg) (k : DirKeys) (x : SPkt) (hlv : x.level = .oneRtt)
    (h1 : 1 ≤ x.pnLen) (h4 : x.pnLen ≤ 4) :
    (shortOf x (protectedPayload sealFn alg k x)).toPkt x.srv x.ts = emit sealFn alg k x := by
  unfold Short.toPkt emit
  rw [shortOf_first x _ h1 h4]
  simp only [hlv, if_true, shortOf]
  congr 2
  by_cases b : x.gen % 2 = 1 <;> simp [b]; omega


/-! ### one 1-RTT datagram through `handle_packet` (dissector ∘ session), composed model -/

section Composed
variable (maskFn : Dissect.MaskFn) (H : Crypto.Prims) (Pc : Cipher.Prims)

/-- The state of a `QuicSession` in which the handshake is over, as the composition needs it:
    `rel`     `C02Session.Rel1`: the Application decryptors are the generations `0 … max gc gs` of the sender's key chain,
              epochs and key phases follow the two directions, largest captured packet numbers `lc` / `ls`, no pending
              handshake data;
    `init`    the Initial decryptor exists (`handle_packet` does not derive it again);
    `hpc/hps` `self.keys` holds the two application header-protection keys (`Props.C02Pipeline.after_tls_hp_exact`);
    `suite`   `tls_session.ciphersuite == b"\x13\x03"` is `chacha` (selects the mask primitive);
    `ver`     the adapter's version stamp;
    `cc/sc`   `client_cids` / `server_cids`. -/
structure Est (kl : List Keylog.Key) (sel : SuiteSel) (v : Version) (k0 : AppKeys) (hpC hpS : Bytes) (chacha : Bool)
    (s : St Tls) (gc gs lc ls : Nat) (cc sc : List Bytes) : Prop where
  rel : Rel1 (params H Pc kl) sel v k0 s gc gs lc ls
  init : s.decInitial.isSome = true
  hpc : s.tls.hp.clientApplication = some hpC
  hps : s.tls.hp.serverApplication = some hpS
  suite : (s.tls.msgs.ciphersuite == some [0x13, 0x03]) = chacha
  ver : s.tls.ver = s.version
  cc : s.clientCids = cc
  sc : s.serverCids = sc

theorem latch_unknown (s : St Tls) : latchVersion s .unknown = s := by
  unfold latchVersion
  split
  · rename_i h; cases s; simp_all
  · rfl

theorem stampVer_id (s : St Tls) (h : s.tls.ver = s.version) : stampVer s = s := by
  unfold stampVer
  obtain ⟨_⟩ := s
  rename_i tls
  obtain ⟨_⟩ := tls
  simp_all

theorem feedPre_est (P : Params Tls) (s : St Tls) (dcid : Bytes) (hi : s.decInitial.isSome = true)
    (hv : s.tls.ver = s.version) : feedPre H P s dcid .unknown = s := by
  have hn : s.decInitial.isNone = false := by cases h : s.decInitial <;> simp_all
  unfold feedPre handlePacketPre
  simp only [latch_unknown, hn, Bool.false_eq_true, if_false]
  exact stampVer_id s hv

theorem issue_eq (l cids : List Bytes) : issue l cids = cids.foldl setAdd l := rfl

theorem newCids_eq (fs : List QFrame) : ncids fs = newCids fs := by
  unfold ncids
  induction fs with
  | nil => rfl
  | cons f rest ih =>
    by_cases hp : f.isPadding = true
    · cases f <;> simp [QFrame.isPadding] at hp
      rename_i a
      rcases Lemmas.QuicFrameSeq.normalize_pad_cases a rest with ⟨h0, h1⟩ | ⟨b, r, h0, h1⟩ | ⟨g, r, h0, _, h1⟩
      · rw [h1]; rw [h0] at ih; simp [ncidsP, newCids, QFrame.toParsed] at ih ⊢; exact ih
      · rw [h1]; rw [h0] at ih; simp [ncidsP, newCids, QFrame.toParsed] at ih ⊢; exact ih
      · rw [h1]; rw [h0] at ih; simp [ncidsP, newCids, QFrame.toParsed] at ih ⊢; exact ih
    · rw [Lemmas.QuicFrameSeq.normalize_nonpad f rest (by simpa using hp)]
      cases f <;> simp [ncidsP, newCids, QFrame.toParsed, List.filterMap_cons] at ih ⊢ <;> exact ih

/-- what the sender of a 1-RTT datagram does beyond `SendOk1`: no CRYPTO frame in the packet (see
    `tls_quiet_rtt1_counterexample` for why this cannot simply be dropped), the packet padded so that the 16-byte
    header-protection sample exists (RFC 9001 §5.4.2), the mask computed from ITS header-protection key -/
structure DgOk (L : SealLaws Pc) (alg : Alg) (k : DirKeys) (hp : Bytes) (chacha : Bool) (d : Dg1) : Prop where
  noCrypto : hasCrypto d.x.frames = false
  padded : 4 ≤ d.x.pnLen + (encodeAll d.x.frames).length
  mask : maskFn chacha hp (shortOf d.x (protectedPayload L.aeadSeal alg k d.x)).sample = some d.mask
  mask5 : 5 ≤ d.mask.length

theorem datagram_step (kl : List Keylog.Key) (L : SealLaws Pc) (sel : SuiteSel) (v : Version) (k0 : AppKeys)
    (hpC hpS : Bytes) (chacha : Bool) (hk : KeysWf (params H Pc kl) sel v k0)
    (s : St Tls) (gc gs lc ls : Nat) (cc sc : List Bytes)
    (hest : Est H Pc kl sel v k0 hpC hpS chacha s gc gs lc ls cc sc) (d : Dg1)
    (hlv : d.x.level = .oneRtt) (hlo : (if d.x.srv then gs else gc) ≤ d.x.gen)
    (hhi : d.x.gen ≤ (if d.x.srv then gs else gc) + 1)
    (hpn : PnLenOk (if d.x.srv then ls else lc) d.x.pn d.x.pnLen) (hwf : WellFormedSeq d.x.frames)
    (hdg : DgOk maskFn Pc L sel.alg (genDir (keyUpdate H sel v) k0 d.x.srv d.x.gen) (if d.x.srv then hpS else hpC)
      chacha d)
    (hcid : DcidOk cc sc d.x.srv d.x.dcid) :
    let r := handleDatagram maskFn H (params H Pc kl) s (!d.x.srv) d.x.dcid .unknown d.x.ts
      (d.wire L.aeadSeal sel.alg (genDir (keyUpdate H sel v) k0 d.x.srv d.x.gen))
    r.2 = none ∧ r.1.out = s.out ++ expectedOf .rtt1 d.x ∧
    Est H Pc kl sel v k0 hpC hpS chacha r.1 (if d.x.srv then gc else d.x.gen) (if d.x.srv then d.x.gen else gs)
      (if d.x.srv then lc else max lc d.x.pn) (if d.x.srv then max ls d.x.pn else ls)
      (if d.x.srv then cc else issue cc (newCids d.x.frames))
      (if d.x.srv then issue sc (newCids d.x.frames) else sc) := by
  generalize hkd : genDir (keyUpdate H sel v) k0 d.x.srv d.x.gen = kd at hdg ⊢
  intro r
  obtain ⟨hrel, hinit, hhpc, hhps, hsuite, hver, hcc, hsc⟩ := hest
  have hP : (params H Pc kl).keyUpdate = keyUpdate H := rfl
  -- the pre-loop part changes nothing
  have hpre : feedPre H (params H Pc kl) s d.x.dcid .unknown = s := feedPre_est H _ s _ hinit hver
  -- direction
  have hdir : packetIsServer s (!d.x.srv) d.x.dcid = d.x.srv := by
    unfold packetIsServer
    unfold DcidOk at hcid
    rw [hcc, hsc]
    have hl : d.x.dcid.length > 0 ↔ d.x.dcid ≠ [] := List.length_pos_iff
    cases hs : d.x.srv <;> simp only [hs, Bool.false_eq_true, if_false, if_true] at hcid ⊢
    · by_cases h1 : d.x.dcid.length > 0 ∧ d.x.dcid ∈ sc ∧ d.x.dcid ∉ cc
      · simp [h1]
      · have h2 : ¬ (d.x.dcid.length > 0 ∧ d.x.dcid ∈ cc ∧ d.x.dcid ∉ sc) := by rw [hl]; exact hcid
        simp [h1, h2]
    · have h1 : ¬ (d.x.dcid.length > 0 ∧ d.x.dcid ∈ sc ∧ d.x.dcid ∉ cc) := by rw [hl]; exact hcid
      by_cases h2 : d.x.dcid.length > 0 ∧ d.x.dcid ∈ cc ∧ d.x.dcid ∉ sc <;> simp [h1, h2]
  -- the dissector returns the sender's packet
  obtain ⟨⟨hn1, hn4⟩, _⟩ := hpn
  have hkwf := hk d.x.srv d.x.gen
  rw [hP, hkd] at hkwf
  have hlen : (protectedPayload L.aeadSeal sel.alg kd d.x).length = (encodeAll d.x.frames).length + 16 := by
    unfold protectedPayload
    have hnl : (nonce kd.iv d.x.pn).length = kd.iv.length := by
      simp [nonce, Lemmas.QuicVarint.ofNatBE_length]
    exact L.seal_len _ _ _ _ _ _ (by rw [hnl]; exact hkwf.1)
  have hextract : Dissect.extract maskFn (envOf s) d.x.srv d.x.dcid d.x.ts (d.wire L.aeadSeal sel.alg kd) =
      { pkts := [emit1 (params H Pc kl) L sel v k0 d.x], rest := [] } := by
    have := C02Dissect.dissect_encode_short maskFn (envOf s) d.x.srv d.x.ts
      (shortOf d.x (protectedPayload L.aeadSeal sel.alg kd d.x)) (shortOf_wf _ _ hn1 hn4)
      (by show 20 ≤ (pnBytes d.x.pnLen d.x.pn).length + (protectedPayload L.aeadSeal sel.alg kd d.x).length
          rw [pnBytes_length, hlen]; have := hdg.padded; omega)
      (if d.x.srv then hpS else hpC) d.mask
      (by cases hs : d.x.srv <;> simp [envOf, HpKeys.get, hhpc, hhps])
      (by show maskFn (s.tls.msgs.ciphersuite == some [0x13, 0x03]) _ _ = _; rw [hsuite]; exact hdg.mask)
      hdg.mask5
    rw [shortOf_toPkt _ _ _ _ hlv hn1 hn4] at this
    unfold emit1
    rw [hP, hkd]
    exact this
  have hne : d.wire L.aeadSeal sel.alg kd ≠ [] := Lemmas.QuicDissect.protect_short_ne_nil _ _
  -- the session handles it
  obtain ⟨c1, c2, c3, c4, c5, c6, c7, c8⟩ := step_one_rtt_nc (params H Pc kl) L sel v k0 hk d.x s gc gs lc ls hrel hlv
    hlo hhi ⟨⟨hn1, hn4⟩, ‹_›⟩ hwf (by
      intro f hf
      have := hdg.noCrypto
      unfold hasCrypto at this
      rw [List.any_eq_false] at this
      have := this f hf
      cases f <;> first | rfl | (simp at this))
  have hturn : handleTurn (params H Pc kl) (s, none) [emit1 (params H Pc kl) L sel v k0 d.x] =
      ((stepPkt (params H Pc kl) s (emit1 (params H Pc kl) L sel v k0 d.x)).st, none) := by
    unfold handleTurn
    simp only [handleQuicPackets, c2]
    congr 1
    apply stampVer_id
    rw [c5, hver, c4.inv.version, hrel.inv.version]
  have hr : r = ((stepPkt (params H Pc kl) s (emit1 (params H Pc kl) L sel v k0 d.x)).st, none) := by
    show handleDatagram _ _ _ _ _ _ _ _ _ = _
    unfold handleDatagram
    simp only [hpre, hdir]
    rw [Lemmas.QuicDissect.dissectLoop_cons _ _ _ _ _ _ _ _ hne]
    simp only [hextract, hturn, Lemmas.QuicDissect.dissectLoop_nil]
  rw [hr]
  refine ⟨rfl, c3, ⟨c4, by rw [c6]; exact hinit, by rw [c5]; exact hhpc, by rw [c5]; exact hhps,
    by rw [c5]; exact hsuite, by rw [c5, hver, c4.inv.version, hrel.inv.version], ?_, ?_⟩⟩
  · simp only [c7, hcc, newCids_eq, issue_eq]
  · simp only [c8, hsc, newCids_eq, issue_eq]

end Composed

/-! ### a whole 1-RTT history -/

/-- neither `Est` nor `KeysWf` depends on the key log: after the handshake the session reads it no more -/
theorem est_keylog_irrelevant (H : Crypto.Prims) (Pc : Cipher.Prims) (kl kl' : List Keylog.Key) (sel : SuiteSel) (v : Version)
    (k0 : AppKeys) (hpC hpS : Bytes) (chacha : Bool) (s : St Tls) (gc gs lc ls : Nat) (cc sc : List Bytes)
    (h : Est H Pc kl sel v k0 hpC hpS chacha s gc gs lc ls cc sc) :
    Est H Pc kl' sel v k0 hpC hpS chacha s gc gs lc ls cc sc :=
  ⟨⟨⟨h.rel.inv.suite, h.rel.inv.version, h.rel.inv.gens, h.rel.inv.ec, h.rel.inv.es, h.rel.inv.lc, h.rel.inv.ls⟩,
    h.rel.flag, h.rel.pc, h.rel.ps⟩, h.init, h.hpc, h.hps, h.suite, h.ver, h.cc, h.sc⟩

theorem keysWf_keylog_irrelevant (H : Crypto.Prims) (Pc : Cipher.Prims) (kl kl' : List Keylog.Key) (sel : SuiteSel)
    (v : Version) (k0 : AppKeys) (h : KeysWf (params H Pc kl) sel v k0) : KeysWf (params H Pc kl') sel v k0 := h

section History
variable (maskFn : Dissect.MaskFn) (H : Crypto.Prims) (Pc : Cipher.Prims) (info : Nat → Pipeline.Info)

/-- the UDP payload of a 1-RTT datagram of this connection: protected under the key of its direction and generation -/
def wireOf (L : SealLaws Pc) (sel : SuiteSel) (v : Version) (k0 : AppKeys) (d : Dg1) : Bytes :=
  d.wire L.aeadSeal sel.alg (genDir (keyUpdate H sel v) k0 d.x.srv d.x.gen)

/-- the captured frame `p` carries the datagram `d`: its UDP payload, its capture time, and its source is the client
    endpoint iff the client sent it (no address migration) -/
structure Carries (c : QConn) (w : Dg1 → Bytes) (p : MainLoop.Pkt) (d : Dg1) : Prop where
  payload : p.payload = w d
  ts : (info p.tag).ts = d.x.ts
  dir : (p.src == c.client) = !d.x.srv

/-- what both endpoints do in the 1-RTT phase, datagram by datagram (`gc gs`: generations shown, `lc ls`: largest packet
    numbers captured, `cc sc`: connection IDs issued so far) -/
def Send1 (L : SealLaws Pc) (sel : SuiteSel) (v : Version) (k0 : AppKeys) (hpC hpS : Bytes) (chacha : Bool) :
    (gc gs lc ls : Nat) → (cc sc : List Bytes) → List Dg1 → Prop
  | _, _, _, _, _, _, [] => True
  | gc, gs, lc, ls, cc, sc, d :: rest =>
    d.x.level = .oneRtt ∧ (if d.x.srv then gs else gc) ≤ d.x.gen ∧ d.x.gen ≤ (if d.x.srv then gs else gc) + 1 ∧
    PnLenOk (if d.x.srv then ls else lc) d.x.pn d.x.pnLen ∧ WellFormedSeq d.x.frames ∧
    DgOk maskFn Pc L sel.alg (genDir (keyUpdate H sel v) k0 d.x.srv d.x.gen) (if d.x.srv then hpS else hpC) chacha d ∧
    DcidOk cc sc d.x.srv d.x.dcid ∧
    Send1 L sel v k0 hpC hpS chacha (if d.x.srv then gc else d.x.gen) (if d.x.srv then d.x.gen else gs)
      (if d.x.srv then lc else max lc d.x.pn) (if d.x.srv then max ls d.x.pn else ls)
      (if d.x.srv then cc else issue cc (newCids d.x.frames))
      (if d.x.srv then issue sc (newCids d.x.frames) else sc) rest

/-- the main loop hands the datagrams to the session one by one (`handle_packet(packet, dcid, UNKNOWN)` with the key log as
    it is at that moment — it may grow through decryption-secrets blocks; the routing DCID is the packet's: `Props/C04`) -/
def feedAll (QM : MainLoop.QuicMachine Keylog.Key QConn Pipeline.OutPkt) (c : QConn) :
    List (List Keylog.Key × MainLoop.Pkt × Dg1) → QConn
  | [] => c
  | (kl, p, d) :: rest => feedAll QM (QM.feed c kl p d.x.dcid .unknown) rest

theorem feedAll_exact (kl : List Keylog.Key) (L : SealLaws Pc) (sel : SuiteSel) (v : Version) (k0 : AppKeys)
    (hpC hpS : Bytes) (chacha : Bool) (hk : KeysWf (params H Pc kl) sel v k0)
    (items : List (List Keylog.Key × MainLoop.Pkt × Dg1)) (c : QConn) (gc gs lc ls : Nat) (cc sc : List Bytes)
    (hr : c.raised = none)
    (hest : Est H Pc kl sel v k0 hpC hpS chacha c.st gc gs lc ls cc sc)
    (hcar : ∀ x ∈ items, Carries info c (wireOf H Pc L sel v k0) x.2.1 x.2.2)
    (hsend : Send1 maskFn H Pc L sel v k0 hpC hpS chacha gc gs lc ls cc sc (items.map (·.2.2))) :
    let c' := feedAll (quicMachine maskFn H Pc info) c items
    c'.raised = none ∧ c'.st.out = c.st.out ++ (items.map (·.2.2)).flatMap (fun d => expectedOf .rtt1 d.x) ∧
    c'.opts = c.opts ∧ c'.server = c.server ∧ c'.client = c.client ∧ c'.serverMac = c.serverMac ∧
    c'.clientMac = c.clientMac ∧ c'.ipv6 = c.ipv6 ∧
    ∃ gc' gs' lc' ls', Est H Pc kl sel v k0 hpC hpS chacha c'.st gc' gs' lc' ls'
      (finalCids cc sc (items.map (·.2.2))).1 (finalCids cc sc (items.map (·.2.2))).2 := by
  induction items generalizing c gc gs lc ls cc sc with
  | nil => exact ⟨hr, by simp [feedAll], rfl, rfl, rfl, rfl, rfl, rfl, gc, gs, lc, ls, hest⟩
  | cons it rest ih =>
    obtain ⟨kl1, p, d⟩ := it
    obtain ⟨h1, h2, h3, h4, h5, h6, h7, h8⟩ := hsend
    obtain ⟨w1, w2, w3⟩ := hcar (kl1, p, d) (List.mem_cons_self ..)
    obtain ⟨s1, s2, s3⟩ := datagram_step maskFn H Pc kl1 L sel v k0 hpC hpS chacha hk c.st gc gs lc ls cc sc
      (est_keylog_irrelevant H Pc kl kl1 _ _ _ _ _ _ _ _ _ _ _ _ _ hest) d h1 h2 h3 h4 h5 h6 h7
    have s3 := est_keylog_irrelevant H Pc kl1 kl _ _ _ _ _ _ _ _ _ _ _ _ _ s3
    have hfeed : (quicMachine maskFn H Pc info).feed c kl1 p d.x.dcid .unknown =
        { c with st := (handleDatagram maskFn H (params H Pc kl1) c.st (!d.x.srv) d.x.dcid .unknown d.x.ts
                          (wireOf H Pc L sel v k0 d)).1, raised := none } := by
      simp only [quicMachine, hr, sver]
      rw [w1, w2, w3]
      unfold wireOf
      rw [s1]
    simp only [feedAll, List.map_cons, List.flatMap_cons, finalCids]
    rw [hfeed]
    obtain ⟨i1, i2, i3, i4, i5, i6, i7, i8, i9⟩ := ih
      { c with st := (handleDatagram maskFn H (params H Pc kl1) c.st (!d.x.srv) d.x.dcid .unknown d.x.ts
                          (wireOf H Pc L sel v k0 d)).1, raised := none } _ _ _ _ _ _ rfl s3
      (fun x hx => by
        obtain ⟨a, b, cdir⟩ := hcar x (List.mem_cons_of_mem _ hx)
        exact ⟨a, b, cdir⟩) h8
    refine ⟨i1, ?_, i3, i4, i5, i6, i7, i8, i9⟩
    rw [i2]
    show (handleDatagram _ _ _ _ _ _ _ _ _).1.out ++ _ = _
    rw [show (handleDatagram maskFn H (params H Pc kl1) c.st (!d.x.srv) d.x.dcid .unknown d.x.ts
                  (wireOf H Pc L sel v k0 d)).1.out = c.st.out ++ expectedOf .rtt1 d.x from s2, List.append_assoc]

end History

/-! ### the output builder on the frames of a 1-RTT history -/

section Output
open TLX.Quic.UdpOut TLX.Props.C02Out

theorem frameOf_ts (o : Out) : (frameOf o).ts = o.ts ∧ (frameOf o).isServer = o.isServer := by
  unfold frameOf; repeat' split
  all_goals exact ⟨rfl, rfl⟩

/-- the input datagram of `Props/C02Out` that a 1-RTT packet becomes in `output_buffer` -/
def inDg (x : SPkt) : InDgram :=
  ⟨x.ts, x.srv, ((expectedOf .rtt1 x).map frameOf).map fun f => (f.ftype, f.data)⟩

theorem inDg_frames (x : SPkt) : (inDg x).frames = (expectedOf .rtt1 x).map frameOf := by
  unfold inDg InDgram.frames expectedOf
  simp only [List.map_map]
  apply List.map_congr_left
  intro f _
  obtain ⟨h1, h2⟩ := frameOf_ts ⟨.parsed f.toParsed, x.ts, x.srv, .rtt1⟩
  simp only [Function.comp]
  generalize frameOf ⟨.parsed f.toParsed, x.ts, x.srv, .rtt1⟩ = fr at h1 h2
  obtain ⟨a, b, c, d⟩ := fr
  simp only at h1 h2
  rw [h1, h2]

theorem streamType_isStream (a b c : Bool) : isStream (streamType a b c) = true := by
  cases a <;> cases b <;> cases c <;> decide

theorem normalize_streamData (fs : List QFrame) : streamData (normalize fs) = streamData fs := by
  induction fs with
  | nil => rfl
  | cons f rest ih =>
    by_cases hp : f.isPadding = true
    · cases f <;> simp [QFrame.isPadding] at hp
      rename_i a
      rcases Lemmas.QuicFrameSeq.normalize_pad_cases a rest with ⟨h0, h1⟩ | ⟨b, r, h0, h1⟩ | ⟨g, r, h0, _, h1⟩
      · rw [h1]; rw [h0] at ih; simp [streamData] at ih ⊢; exact ih
      · rw [h1]; rw [h0] at ih; simp [streamData] at ih ⊢; exact ih
      · rw [h1]; rw [h0] at ih; simp [streamData] at ih ⊢; exact ih
    · rw [Lemmas.QuicFrameSeq.normalize_nonpad f rest (by simpa using hp)]
      cases f <;> simp [streamData, List.filterMap_cons] at ih ⊢ <;> exact ih

theorem filterMap_map_filter {α β γ : Type} (p : α → Bool) (g : α → β) (e : β → Option γ) (h : α → Option γ)
    (hh : ∀ a, (if p a then e (g a) else none) = h a) (l : List α) :
    ((l.filter p).map g).filterMap e = l.filterMap h := by
  induction l with
  | nil => rfl
  | cons a l ih =>
    have := hh a
    by_cases hp : p a = true
    · simp only [hp, if_true] at this
      simp [List.filter_cons, hp, List.filterMap_cons, this, ih]
    · simp only [hp, Bool.false_eq_true, if_false] at this
      simp [List.filter_cons, hp, List.filterMap_cons, ← this, ih]

theorem exported_one (f : QFrame) (ts : Nat) (srv : Bool) :
    (if Lemmas.QuicSession.isExp f then UdpOut.exported false (frameOf ⟨.parsed f.toParsed, ts, srv, .rtt1⟩) else none) =
      (match f with | .stream _ _ _ _ data => some data | _ => none) := by
  cases f with
  | stream fin sid off lenW data =>
    have := streamType_isStream fin lenW.isSome off.isSome
    simp [Lemmas.QuicSession.isExp, frameOf, QFrame.toParsed, UdpOut.exported, this]
  | _ => simp [Lemmas.QuicSession.isExp, frameOf, QFrame.toParsed, UdpOut.exported, isStream]

theorem exported_stream_data (x : SPkt) :
    ((expectedOf .rtt1 x).map frameOf).filterMap (UdpOut.exported false) = streamData x.frames := by
  rw [← normalize_streamData]
  unfold expectedOf
  rw [Lemmas.QuicSession.exported_eq, List.map_map]
  exact filterMap_map_filter _ _ _ _ (fun f => exported_one f x.ts x.srv) _


theorem any_isSome_filterMap {α β : Type} (e : α → Option β) (l : List α) :
    l.any (fun a => (e a).isSome) = !(l.filterMap e).isEmpty := by
  induction l with
  | nil => rfl
  | cons a l ih => cases h : e a <;> simp [List.filterMap_cons, h, ih]

theorem hasStream_iff (fs : List QFrame) : hasStream fs = !(streamData fs).isEmpty := by
  unfold hasStream streamData
  induction fs with
  | nil => rfl
  | cons f fs ih => cases f <;> simp [List.filterMap_cons, ih]

theorem hasExported_inDg (x : SPkt) : hasExported false (inDg x) = hasStream x.frames := by
  unfold hasExported
  rw [any_isSome_filterMap, inDg_frames, exported_stream_data, hasStream_iff]

theorem outDgram_inDg (x : SPkt) : outDgram false (inDg x) = ⟨x.srv, x.ts, (streamData x.frames).flatten⟩ := by
  unfold outDgram
  rw [inDg_frames, exported_stream_data]
  rfl

theorem build_skip_prefix (old new : List Frame) (h : ∀ f ∈ old, UdpOut.exported false f = none) :
    build false (old ++ new) = build false new := by
  rw [build_eq_runs, build_eq_runs, List.filter_append]
  have : old.filter (fun f => (UdpOut.exported false f).isSome) = [] := by
    rw [List.filter_eq_nil_iff]; intro f hf; simp [h f hf]
  rw [this, List.nil_append]

theorem connOut_eq (md : Bool) (c : QConn) :
    connOut md c = (build md (c.st.out.map frameOf)).map (addressed c) := by
  unfold connOut
  split
  · rename_i h
    have : c.st.out = [] := by simpa using h
    rw [this]; rfl
  · rfl

theorem addressed_congr (c c' : QConn) (h1 : c'.opts = c.opts) (h2 : c'.server = c.server) (h3 : c'.client = c.client)
    (h4 : c'.serverMac = c.serverMac) (h5 : c'.clientMac = c.clientMac) (h6 : c'.ipv6 = c.ipv6) :
    addressed c' = addressed c := by
  funext d; unfold addressed; rw [h1, h2, h3, h4, h5, h6]
end Output

/-! ### C02 for the 1-RTT phase of a connection, end to end in the composed model -/

section Capstone
variable (maskFn : Dissect.MaskFn) (H : Crypto.Prims) (Pc : Cipher.Prims) (info : Nat → Pipeline.Info)
open TLX.Quic.UdpOut TLX.Props.C02Out

/-- what C02 demands: one UDP frame per datagram that carried a STREAM frame, in capture order, its payload the
    concatenation of that datagram's STREAM data, with the datagram's capture time, addressed by its direction
    (`C02Pipeline.quic_out_addressed` says what `addressed` puts around it) -/
def expectedOut (c : QConn) (ds : List Dg1) : List Pipeline.OutPkt :=
  (ds.filter fun d => hasStream d.x.frames).map fun d =>
    addressed c ⟨d.x.srv, d.x.ts, (streamData d.x.frames).flatten⟩

theorem out_tail (c : QConn) (ds : List Dg1) :
    (((ds.map fun d => inDg d.x).filter (hasExported false)).map (outDgram false)).map (addressed c) =
      expectedOut c ds := by
  unfold expectedOut
  induction ds with
  | nil => rfl
  | cons d ds ih =>
    simp only [List.map_cons, List.filter_cons, hasExported_inDg]
    split
    · simp only [List.map_cons, outDgram_inDg, ih]
    · exact ih

theorem quic_one_rtt_connection_exact (kl : List Keylog.Key) (L : SealLaws Pc) (sel : SuiteSel) (v : Version)
    (k0 : AppKeys) (hpC hpS : Bytes) (chacha : Bool) (hk : KeysWf (params H Pc kl) sel v k0)
    (items : List (List Keylog.Key × MainLoop.Pkt × Dg1)) (c : QConn) (gc gs lc ls : Nat) (cc sc : List Bytes)
    (hr : c.raised = none)
    (hest : Est H Pc kl sel v k0 hpC hpS chacha c.st gc gs lc ls cc sc)
    (hprev : ∀ o ∈ c.st.out, UdpOut.exported false (frameOf o) = none)
    (hcar : ∀ x ∈ items, Carries info c (wireOf H Pc L sel v k0) x.2.1 x.2.2)
    (hsend : Send1 maskFn H Pc L sel v k0 hpC hpS chacha gc gs lc ls cc sc (items.map (·.2.2)))
    (htimes : ((items.map (·.2.2)).map fun d => (d.x.ts, d.x.srv)).Pairwise (· ≠ ·)) :
    let QM := quicMachine maskFn H Pc info
    (feedAll QM c items).raised = none ∧
    QM.out false (feedAll QM c items) = expectedOut c (items.map (·.2.2)) := by
  intro QM
  obtain ⟨e1, e2, e3, e4, e5, e6, e7, e8, _⟩ := feedAll_exact maskFn H Pc info kl L sel v k0 hpC hpS chacha hk items c
    gc gs lc ls cc sc hr hest hcar hsend
  refine ⟨e1, ?_⟩
  show connOut false (feedAll QM c items) = _
  rw [connOut_eq, addressed_congr c _ e3 e4 e5 e6 e7 e8, e2, List.map_append,
    build_skip_prefix _ _ (by
      intro f hf
      obtain ⟨o, ho, rfl⟩ := List.mem_map.mp hf
      exact hprev o ho)]
  have hframes : ∀ ds : List Dg1, (ds.flatMap fun d => expectedOf .rtt1 d.x).map frameOf =
      framesOf (ds.map fun d => inDg d.x) := by
    intro ds
    induction ds with
    | nil => rfl
    | cons d ds ih =>
      simp only [List.flatMap_cons, List.map_append, List.map_cons, framesOf] at ih ⊢
      rw [ih, inDg_frames]
  have hdist : DistinctKeys ((items.map (·.2.2)).map fun d => inDg d.x) := by
    unfold DistinctKeys
    rw [List.map_map]
    exact htimes
  rw [hframes _, build_groups false _ (hdist.adjacent false)]
  exact out_tail c _

end Capstone

section RfcKeys
variable (H : Crypto.Prims)

/-- RFC 9001 §5.1 / §6.1: the 1-RTT packet protection keys of key-update generation `g`, from the two TLS traffic
    secrets `sa` (SERVER_TRAFFIC_SECRET_0) and `ca` (CLIENT_TRAFFIC_SECRET_0) -/
def rfcGen (h : Crypto.HashSuite) (keyLen : Nat) (sa ca : Bytes) (g : Nat) : AppKeys :=
  ⟨⟨quicKey h (quicGeneration h sa g) keyLen, quicIv h (quicGeneration h sa g)⟩,
   ⟨quicKey h (quicGeneration h ca g) keyLen, quicIv h (quicGeneration h ca g)⟩,
   quicGeneration h sa g, quicGeneration h ca g⟩

/-- The key chain the composed model's `key_update` produces from the RFC's generation 0 is the RFC's (C15's
    `quic_key_update_eq_rfc` through the adapter `QuicPipeline.keyUpdate`). -/
theorem genKeys_eq_rfc (hl : H.Lawful) (sel : SuiteSel) (v : Version) (hk : sel.keyLen < 65536)
    (ho : (hashOf H sel.hash).outLen < 65536) (sa ca : Bytes)
    (hs : sa.length = (hashOf H sel.hash).outLen) (hc : ca.length = (hashOf H sel.hash).outLen) (g : Nat) :
    genKeys (keyUpdate H sel v) (rfcGen (hashOf H sel.hash) sel.keyLen sa ca 0) g =
      rfcGen (hashOf H sel.hash) sel.keyLen sa ca g := by
  have hlaw : (hashOf H sel.hash).Lawful := by cases sel.hash <;> simp [hashOf, hl.sha256, hl.sha384]
  induction g with
  | zero => rfl
  | succ g ih =>
    simp only [genKeys, ih]
    unfold QuicPipeline.keyUpdate rfcGen
    simp only
    rw [keyUpdate_eq (hashOf H sel.hash) sel.keyLen hk ho _ (quicGeneration _ sa g) (quicGeneration _ ca g) rfl rfl
      (quicGeneration_length _ hlaw sa hs g) (quicGeneration_length _ hlaw ca hc g)]
    rfl


theorem quicKey_length (h : Crypto.HashSuite) (hl : h.Lawful) (s : Bytes) (n : Nat) (hn : n ≤ 255) :
    (quicKey h s n).length = n := by
  unfold quicKey hkdfExpandLabel
  exact hl.expand_len _ _ _ (by have := hl.outLen_pos; omega)

theorem quicIv_length (h : Crypto.HashSuite) (hl : h.Lawful) (s : Bytes) : (quicIv h s).length = 12 := by
  unfold quicIv hkdfExpandLabel
  exact hl.expand_len _ _ _ (by have := hl.outLen_pos; omega)

/-- `KeysWf` — every generation's key is one the AEAD of the suite takes, with a 12-byte IV — holds for the RFC key
    chain of each of the four QUIC v1 suites, for all lawful hash functions and both traffic secrets of hash length. -/
theorem keysWf_rfc (hl : H.Lawful) (Pc : Cipher.Prims) (kl : List Keylog.Key) (cs : Bytes) (sel : SuiteSel)
    (hsel : selectSuite cs = some sel) (v : Version) (ho : (hashOf H sel.hash).outLen < 65536) (sa ca : Bytes)
    (hs : sa.length = (hashOf H sel.hash).outLen) (hc : ca.length = (hashOf H sel.hash).outLen) :
    KeysWf (params H Pc kl) sel v (rfcGen (hashOf H sel.hash) sel.keyLen sa ca 0) := by
  have hlaw : (hashOf H sel.hash).Lawful := by cases sel.hash <;> simp [hashOf, hl.sha256, hl.sha384]
  have hcases : (sel.alg = .aesgcm ∧ sel.keyLen = 16) ∨ (sel.alg = .aesgcm ∧ sel.keyLen = 32) ∨
      (sel.alg = .chachaPoly ∧ sel.keyLen = 32) ∨ (sel.alg = .aesccm ∧ sel.keyLen = 16) := by
    unfold selectSuite at hsel
    repeat' split at hsel
    all_goals first
      | (cases hsel; simp)
      | (simp at hsel)
  have hk : sel.keyLen < 65536 := by rcases hcases with h | h | h | h <;> omega
  have hk255 : sel.keyLen ≤ 255 := by rcases hcases with h | h | h | h <;> omega
  intro srv g
  have hP : (params H Pc kl).keyUpdate = keyUpdate H := rfl
  rw [hP]
  unfold genDir
  rw [genKeys_eq_rfc H hl sel v hk ho sa ca hs hc g]
  cases srv <;> simp only [rfcGen, Bool.false_eq_true, if_false, if_true, quicKey_length _ hlaw _ _ hk255,
    quicIv_length _ hlaw]
  all_goals
    rcases hcases with ⟨a, b⟩ | ⟨a, b⟩ | ⟨a, b⟩ | ⟨a, b⟩ <;> rw [a, b] <;> decide

end RfcKeys

/-! ### non-vacuity: a concrete established connection and a concrete 1-RTT history satisfy every hypothesis -/

namespace Ex
open TLX.Crypto TLX.Props.C02Session.Ex

def H : Crypto.Prims := Crypto.toyPrims
def Pc : Cipher.Prims := Cipher.Toy.prims
def L : SealLaws Pc := Cipher.Toy.laws
def sel : SuiteSel := ⟨.sha256, .aesgcm, 16⟩
def sa : Bytes := [1, 2, 3, 4]
def ca : Bytes := [5, 6, 7, 8]
def k0 : AppKeys := rfcGen (hashOf H sel.hash) sel.keyLen sa ca 0
def hpC : Bytes := quicHp (hashOf H sel.hash) ca 16
def hpS : Bytes := quicHp (hashOf H sel.hash) sa 16
/-- any primitive: here a constant mask -/
def maskFn : Dissect.MaskFn := fun _ _ _ => some [0xa5, 0x5a, 0xff, 0x00, 0x11]
def info : Nat → Pipeline.Info := fun tag => ⟨0, 100 + tag, [2, 0, 0, 0, 0, 1], [2, 0, 0, 0, 0, 2], false⟩

def s0 : St Tls :=
  { tls := { hp := { clientApplication := some hpC, serverApplication := some hpS }, ver := .v1,
             msgs := { ciphersuite := some [0x13, 0x01] } },
    version := .v1, suite := some sel, decApp := some [k0.toDec sel.alg],
    decInitial := some { alg := .aesgcm, server := none, client := ⟨[], []⟩ },
    clientCids := [[0xc1]], serverCids := [[0x51], [0x52]] }

def c0 : QConn :=
  { opts := ⟨[443], false, false, false, false, []⟩, server := ⟨[10, 0, 0, 2], 443⟩, client := ⟨[10, 0, 0, 1], 50000⟩,
    serverMac := [2, 0, 0, 0, 0, 2], clientMac := [2, 0, 0, 0, 0, 1], ipv6 := false, st := s0 }

def framesB : List QFrame :=
  [.newConnectionId ⟨1, w1⟩ ⟨0, w1⟩ [0xaa, 0xbb] (List.replicate 16 7),
   .stream false ⟨0, w1⟩ (some ⟨70000, ⟨2, by omega⟩⟩) none [1, 2, 3]]

def m5 : Bytes := [0xa5, 0x5a, 0xff, 0x00, 0x11]

/-- client generation 0; the client initiates a key update and jumps to packet number 300 on two bytes; the server (which
    has issued a connection ID) follows the update, then initiates the next one; one datagram carries no STREAM frame -/
def d0 : Dg1 := ⟨{ level := .oneRtt, srv := false, ts := 100, pn := 0, pnLen := 1, frames := frames1, dcid := [0x51], gen := 0 }, m5⟩
def d1 : Dg1 := ⟨{ level := .oneRtt, srv := false, ts := 101, pn := 300, pnLen := 2, frames := framesB, dcid := [0x51], gen := 1,
                   lowBits := 5 }, m5⟩
def d2 : Dg1 := ⟨{ level := .oneRtt, srv := true, ts := 102, pn := 7, pnLen := 4, frames := [.ping, .padding 20], dcid := [0xc1],
                   gen := 1 }, m5⟩
def d3 : Dg1 := ⟨{ level := .oneRtt, srv := true, ts := 103, pn := 8, pnLen := 1, frames := framesB, dcid := [0xaa, 0xbb],
                   gen := 2 }, m5⟩
def ds : List Dg1 := [d0, d1, d2, d3]

def pktOf (i : Nat) (d : Dg1) : MainLoop.Pkt :=
  ⟨.udp, if d.x.srv then c0.server else c0.client, if d.x.srv then c0.client else c0.server,
    wireOf H Pc L sel .v1 k0 d, true, i⟩

/-- the key log grows while the connection runs (a decryption-secrets block of another connection) -/
def items : List (List Keylog.Key × MainLoop.Pkt × Dg1) :=
  [([], pktOf 0 d0, d0), ([], pktOf 1 d1, d1), ([⟨Keylog.s_CTS0, [48, 49], [50, 51]⟩], pktOf 2 d2, d2),
   ([⟨Keylog.s_CTS0, [48, 49], [50, 51]⟩], pktOf 3 d3, d3)]

theorem keysWf : KeysWf (params H Pc []) sel .v1 k0 :=
  keysWf_rfc H Crypto.toyPrims_lawful Pc [] [0x13, 0x01] sel rfl .v1 (by decide) sa ca rfl rfl

theorem est0 : Est H Pc [] sel .v1 k0 hpC hpS false s0 0 0 0 0 [[0xc1]] [[0x51], [0x52]] :=
  ⟨⟨⟨rfl, rfl, rfl, rfl, rfl, rfl, rfl⟩, rfl, rfl, rfl⟩, rfl, rfl, rfl, by decide, rfl, rfl, rfl⟩

theorem wfB : WellFormedSeq framesB := by
  simp [framesB, WellFormedSeq, QFrame.wf, QFrame.greedy, optOk, optFits]; decide

theorem send1 : Send1 maskFn H Pc L sel .v1 k0 hpC hpS false 0 0 0 0 [[0xc1]] [[0x51], [0x52]] ds := by
  simp only [ds, d0, d1, d2, d3, Send1, wf1, wfB, PnLenOk, true_and]
  repeat' apply And.intro
  all_goals first
    | decide
    | exact ⟨by decide, by decide, rfl, by decide⟩
    | trivial
    | (simp [WellFormedSeq, QFrame.wf, QFrame.greedy])

/-- the theorem applies: three output frames (the third datagram has no STREAM frame), payloads `hi`, `\x01\x02\x03`,
    `\x01\x02\x03`, times 100, 101, 103, the last one from the server -/
example :
    let QM := quicMachine maskFn H Pc info
    QM.out false (feedAll QM c0 items) = expectedOut c0 ds ∧
    (expectedOut c0 ds).map (fun p => (p.ts, p.src.port, p.payload)) =
      [(100, 50000, [0x68, 0x69]), (101, 50000, [1, 2, 3]), (103, 8080, [1, 2, 3])] := by
  refine ⟨(quic_one_rtt_connection_exact maskFn H Pc info [] L sel .v1 k0 hpC hpS false keysWf items c0 0 0 0 0
    [[0xc1]] [[0x51], [0x52]] rfl est0 (by intro o ho; cases ho) ?_ send1 (by decide)).2, by decide⟩
  intro x hx
  simp only [items, List.mem_cons, List.not_mem_nil, or_false] at hx
  rcases hx with rfl | rfl | rfl | rfl <;> exact ⟨rfl, rfl, by decide⟩

end Ex

/-! ### the handshake side: where the state `Est` comes from -/

section Handshake
variable (H : Crypto.Prims) (Pc : Cipher.Prims)

/-- the key-log lines of this client random, as `dev_quic_keys` reads them: the last line of each label -/
structure KeylogHas (kl : List Keylog.Key) (cr ch sh ca sa : Bytes) (early : Option Bytes) : Prop where
  lines : ∃ sks ss, Keylog.quicSessionKeys kl (Pipeline.natsOfBytes cr) = some sks ∧ quicSecrets sks = some ss ∧
    lastOf .clientHandshake ss = some ch ∧ lastOf .serverHandshake ss = some sh ∧
    lastOf .clientTraffic0 ss = some ca ∧ lastOf .serverTraffic0 ss = some sa ∧ lastOf .clientEarly ss = early

/-- `dev_quic_keys` on the key log of the run, QUIC v1: the RFC 9001 §5.1 packet keys of the four (five) secrets -/
theorem devQuic_rfc (kl : List Keylog.Key) (sel : SuiteSel) (hk : sel.keyLen < 65536) (cr ch sh ca sa : Bytes)
    (early : Option Bytes) (hkl : KeylogHas kl cr ch sh ca sa early) :
    ∃ k, devQuic H kl sel .v1 cr = .ok k ∧
      k.serverApp = tripleSpec (quicPacketKeys (hashOf H sel.hash) sa sel.keyLen) ∧
      k.clientApp = tripleSpec (quicPacketKeys (hashOf H sel.hash) ca sel.keyLen) ∧
      k.serverHs = tripleSpec (quicPacketKeys (hashOf H sel.hash) sh sel.keyLen) ∧
      k.clientHs = tripleSpec (quicPacketKeys (hashOf H sel.hash) ch sel.keyLen) ∧
      k.serverAppSec = sa ∧ k.clientAppSec = ca ∧
      k.clientEarly = early.map fun s => tripleSpec (quicPacketKeys (hashOf H sel.hash) s sel.keyLen) := by
  obtain ⟨sks, ss, h1, h2, h3, h4, h5, h6, h7⟩ := hkl.lines
  unfold devQuic
  simp only [h1, h2, qver]
  rw [C15.quic_keys_eq_rfc _ _ _ hk]
  simp only [h3, h4, h5, h6, h7]
  exact ⟨_, rfl, rfl, rfl, rfl, rfl, rfl, rfl, rfl⟩


/-- the generation-0 application keys `set_tls_decryptors` installs from a `dev_quic_keys` result -/
def appKeysOf (k : KeySchedule.QuicKeys) : AppKeys := ⟨dirOf k.serverApp, dirOf k.clientApp, k.serverAppSec, k.clientAppSec⟩

/-- THE step of the handshake that establishes the 1-RTT state: `handle_crypto_frame` finds `new_data` (a ServerHello or
    EncryptedExtensions was completed), the suite resolves, `dev_quic_keys` finds the connection's lines — afterwards the
    session satisfies `Est` for exactly those keys, generation 0 in both directions, with the header-protection keys of the
    same derivation, provided no 1-RTT packet moved the epochs before (none can be decrypted before this point). -/
theorem hello_establishes (kl : List Keylog.Key) (s : St Tls) (hv : s.tls.ver = s.version) (cr cs : Bytes)
    (sel : SuiteSel) (k : KeySchedule.QuicKeys)
    (hn : s.tls.msgs.newData = true) (hcr : s.tls.msgs.clientRandom = some cr) (hcs : s.tls.msgs.ciphersuite = some cs)
    (hsel : selectSuite cs = some sel) (hk : devQuic H kl sel s.version cr = .ok k)
    (hinit : s.decInitial.isSome = true)
    (he : s.epochClient = 0 ∧ s.epochServer = 0 ∧ s.lastPhaseClient = some 0 ∧ s.lastPhaseServer = some 0) :
    (afterTls (params H Pc kl) s).2 = none ∧
    Est H Pc kl sel s.version (appKeysOf k) k.clientApp.hp k.serverApp.hp (cs == [0x13, 0x03])
      (afterTls (params H Pc kl) s).1 0 0 s.pnClient.app s.pnServer.app s.clientCids s.serverCids ∧
    (afterTls (params H Pc kl) s).1.out = s.out := by
  have e1 : (params H Pc kl).tlsNewData s.tls = true := hn
  have e2 : (params H Pc kl).tlsClientRandom s.tls = some cr := hcr
  have e3 : (params H Pc kl).tlsCiphersuite s.tls = some cs := hcs
  have e4 : (params H Pc kl).devQuicKeys sel s.version cr = .ok (groupsOf k) := by
    show (devQuic H kl sel s.version cr).map groupsOf = _
    rw [hk]; rfl
  obtain ⟨he1, he2, he3, he4⟩ := he
  unfold afterTls
  simp only [e1, if_true, e2, e3, setTlsDecryptors, hsel, e4]
  cases hke : k.clientEarly <;>
    (refine ⟨trivial, ⟨⟨⟨?_, ?_, ?_, ?_, ?_, ?_, ?_⟩, ?_, ?_, ?_⟩, ?_, ?_, ?_, ?_, ?_, ?_, ?_⟩, ?_⟩ <;>
      simp [installGroups, groupsOf, hke, params, tlsClearNewData, hcr, hcs, hsel, hv, hk, AppKeys.toDec, appKeysOf,
        genDec, genKeys, he1, he2, he3, he4, hinit, HpKeys.withTls])


/-- The first datagram of a connection (`QuicSession.__init__`, then `handle_packet` with the DCID of the client's first
    Initial and version 1): the Initial decryptor and the two Initial header-protection keys are RFC 9001 §5.2's for that
    DCID, the version is latched, the adapter's stamp set — before the first packet is dissected. -/
theorem first_initial_rfc (kl : List Keylog.Key) (h32 : H.sha256.outLen = 32) (dcid : Bytes) :
    let s := feedPre H (params H Pc kl) (St.init (params H Pc [])) dcid .v1
    s.version = .v1 ∧ s.tls.ver = s.version ∧
    s.decInitial = some { alg := .aesgcm,
                          server := some ⟨(quicInitialServerKeys H.sha256 dcid).key, (quicInitialServerKeys H.sha256 dcid).iv⟩,
                          client := ⟨(quicInitialClientKeys H.sha256 dcid).key, (quicInitialClientKeys H.sha256 dcid).iv⟩ } ∧
    s.tls.hp.serverInitial = some (quicInitialServerKeys H.sha256 dcid).hp ∧
    s.tls.hp.clientInitial = some (quicInitialClientKeys H.sha256 dcid).hp ∧
    s.epochClient = 0 ∧ s.epochServer = 0 ∧ s.lastPhaseClient = some 0 ∧ s.lastPhaseServer = some 0 ∧
    s.clientCids = [] ∧ s.serverCids = [] ∧ s.out = [] := by
  have hd : devInitial H .v1 dcid = some
      { clientKey := (quicInitialClientKeys H.sha256 dcid).key, clientIv := (quicInitialClientKeys H.sha256 dcid).iv,
        clientHp := (quicInitialClientKeys H.sha256 dcid).hp, serverKey := (quicInitialServerKeys H.sha256 dcid).key,
        serverIv := (quicInitialServerKeys H.sha256 dcid).iv, serverHp := (quicInitialServerKeys H.sha256 dcid).hp } := by
    unfold devInitial
    simp only [qver]
    rw [C15.quic_initial_eq_rfc _ h32]
  have hp : (params H Pc kl).devInitialKeys .v1 dcid = (devInitial H .v1 dcid).map
      fun k => (⟨k.serverKey, k.serverIv⟩, ⟨k.clientKey, k.clientIv⟩) := rfl
  intro s
  simp [s, feedPre, handlePacketPre, latchVersion, St.init, setInitialDecryptor, hp, hd, stampVer, HpKeys.withInitial, params]

/-- … in RFC terms: with the connection's four key-log lines present (QUIC v1), the established keys are RFC 9001's —
    generation 0 of the §6 chain from CLIENT_/SERVER_TRAFFIC_SECRET_0, header protection keys "quic hp" of the same secrets —
    and they satisfy `KeysWf` (`keysWf_rfc`): exactly what `quic_one_rtt_connection_exact` assumes. -/
theorem hello_establishes_rfc (kl : List Keylog.Key) (s : St Tls) (hv : s.tls.ver = s.version) (hv1 : s.version = .v1)
    (cr cs ch sh ca sa : Bytes) (early : Option Bytes) (sel : SuiteSel)
    (hn : s.tls.msgs.newData = true) (hcr : s.tls.msgs.clientRandom = some cr) (hcs : s.tls.msgs.ciphersuite = some cs)
    (hsel : selectSuite cs = some sel) (hk : sel.keyLen < 65536) (hkl : KeylogHas kl cr ch sh ca sa early)
    (hinit : s.decInitial.isSome = true)
    (he : s.epochClient = 0 ∧ s.epochServer = 0 ∧ s.lastPhaseClient = some 0 ∧ s.lastPhaseServer = some 0) :
    (afterTls (params H Pc kl) s).2 = none ∧
    Est H Pc kl sel .v1 (rfcGen (hashOf H sel.hash) sel.keyLen sa ca 0)
      (quicHp (hashOf H sel.hash) ca sel.keyLen) (quicHp (hashOf H sel.hash) sa sel.keyLen) (cs == [0x13, 0x03])
      (afterTls (params H Pc kl) s).1 0 0 s.pnClient.app s.pnServer.app s.clientCids s.serverCids ∧
    (afterTls (params H Pc kl) s).1.out = s.out := by
  obtain ⟨k, hdq, k1, k2, _, _, k5, k6, _⟩ := devQuic_rfc H kl sel hk cr ch sh ca sa early hkl
  rw [← hv1] at hdq
  obtain ⟨r1, r2, r3⟩ := hello_establishes H Pc kl s hv cr cs sel k hn hcr hcs hsel hdq hinit he
  refine ⟨r1, ?_, r3⟩
  have hk0 : appKeysOf k = rfcGen (hashOf H sel.hash) sel.keyLen sa ca 0 := by
    simp [appKeysOf, rfcGen, k1, k2, k5, k6, dirOf, tripleSpec, quicPacketKeys, quicGeneration]
  have hc : k.clientApp.hp = quicHp (hashOf H sel.hash) ca sel.keyLen := by rw [k2]; rfl
  have hs : k.serverApp.hp = quicHp (hashOf H sel.hash) sa sel.keyLen := by rw [k1]; rfl
  rw [hk0, hc, hs, hv1] at r2
  exact r2

/-- C02 for a whole connection, PARTIAL: everything in RFC terms — the four QUIC v1 suites, lawful hash functions, the
    RFC 9001 §5.1/§6 keys of the connection's traffic secrets, any AEAD satisfying `SealLaws`, any header-protection
    primitive — except that the state `c` the handshake datagrams left is ASSUMED to satisfy `Est` for those keys
    (`hello_establishes_rfc` proves it for the state right after the last `set_tls_decryptors`; that the remaining
    Handshake-level packets — Certificate … Finished, ACKs — preserve it is not proved here). Then for EVERY conformant
    1-RTT datagram history the export without `-a` is exactly one UDP frame per datagram with a STREAM frame, in capture
    order, carrying that datagram's STREAM data, capture time and direction. -/
theorem quic_connection_exact_partial (maskFn : Dissect.MaskFn) (info : Nat → Pipeline.Info) (hl : H.Lawful)
    (kl : List Keylog.Key) (L : SealLaws Pc) (cs : Bytes) (sel : SuiteSel) (hsel : selectSuite cs = some sel)
    (ho : (hashOf H sel.hash).outLen < 65536) (sa ca : Bytes)
    (hs : sa.length = (hashOf H sel.hash).outLen) (hc : ca.length = (hashOf H sel.hash).outLen)
    (items : List (List Keylog.Key × MainLoop.Pkt × Dg1)) (c : QConn) (lc ls : Nat) (cc sc : List Bytes) (hr : c.raised = none)
    (hest : Est H Pc kl sel .v1 (rfcGen (hashOf H sel.hash) sel.keyLen sa ca 0)
      (quicHp (hashOf H sel.hash) ca sel.keyLen) (quicHp (hashOf H sel.hash) sa sel.keyLen) (cs == [0x13, 0x03])
      c.st 0 0 lc ls cc sc)
    (hprev : ∀ o ∈ c.st.out, UdpOut.exported false (frameOf o) = none)
    (hcar : ∀ x ∈ items, Carries info c
      (wireOf H Pc L sel .v1 (rfcGen (hashOf H sel.hash) sel.keyLen sa ca 0)) x.2.1 x.2.2)
    (hsend : Send1 maskFn H Pc L sel .v1 (rfcGen (hashOf H sel.hash) sel.keyLen sa ca 0)
      (quicHp (hashOf H sel.hash) ca sel.keyLen) (quicHp (hashOf H sel.hash) sa sel.keyLen) (cs == [0x13, 0x03])
      0 0 lc ls cc sc (items.map (·.2.2)))
    (htimes : ((items.map (·.2.2)).map fun d => (d.x.ts, d.x.srv)).Pairwise (· ≠ ·)) :
    let QM := quicMachine maskFn H Pc info
    (feedAll QM c items).raised = none ∧
    QM.out false (feedAll QM c items) = expectedOut c (items.map (·.2.2)) :=
  quic_one_rtt_connection_exact maskFn H Pc info kl L sel .v1 _ _ _ _
    (keysWf_rfc H hl Pc kl cs sel hsel .v1 ho sa ca hs hc) items c 0 0 lc ls cc sc hr hest hprev hcar hsend htimes

end Handshake

/-- `hprev` of the main theorem is what a handshake without 0-RTT leaves: CRYPTO frames (and the Version Negotiation
    pseudo frame) are not exported without `-a` -/
theorem crypto_not_exported (o : Out) (h : ∀ ft l fin lb ob sid off dl d, o.frame ≠ .parsed (.stream ft l fin lb ob sid off dl d)) :
    UdpOut.exported false (frameOf o) = none := by
  unfold frameOf
  split
  · simp [UdpOut.exported, UdpOut.isStream]
  · rename_i ft l fin lb ob sid off dl d heq; exact absurd heq (h ft l fin lb ob sid off dl d)
  · simp [UdpOut.exported, UdpOut.isStream]
  · simp [UdpOut.exported, UdpOut.isStream]

namespace Ex
open TLX.Crypto

/-- lawful toy hashes with SHA-256's / SHA-384's output lengths -/
def H32 : Crypto.Prims := ⟨Crypto.toy 16, Crypto.toy 20, Crypto.toy 32, Crypto.toy 48⟩

-- `first_initial_rfc`: its hypothesis is satisfiable
example := first_initial_rfc H32 Pc [] rfl [0x83, 0x94, 0xc8, 0xf0, 0x3e, 0x51, 0x57, 0x08]

def crx : Bytes := [0xab, 0xcd]
/-- the connection's key-log lines (client random `abcd`), one line of another connection, in file order -/
def klx : List Keylog.Key :=
  [⟨Keylog.s_CTS0, Keylog.hexOf [0xab, 0xcd], Keylog.hexOf [5, 6, 7, 8]⟩,
   ⟨Keylog.s_CHTS, Keylog.hexOf [0xab, 0xcd], Keylog.hexOf [1, 1, 1, 1]⟩,
   ⟨Keylog.s_STS0, Keylog.hexOf [0x11, 0x22], Keylog.hexOf [9, 9, 9, 9]⟩,
   ⟨Keylog.s_SHTS, Keylog.hexOf [0xab, 0xcd], Keylog.hexOf [2, 2, 2, 2]⟩,
   ⟨Keylog.s_STS0, Keylog.hexOf [0xab, 0xcd], Keylog.hexOf [1, 2, 3, 4]⟩]

def sksx : List Keylog.Key :=
  [⟨Keylog.s_CTS0, Keylog.hexOf [0xab, 0xcd], Keylog.hexOf [5, 6, 7, 8]⟩,
   ⟨Keylog.s_CHTS, Keylog.hexOf [0xab, 0xcd], Keylog.hexOf [1, 1, 1, 1]⟩,
   ⟨Keylog.s_SHTS, Keylog.hexOf [0xab, 0xcd], Keylog.hexOf [2, 2, 2, 2]⟩,
   ⟨Keylog.s_STS0, Keylog.hexOf [0xab, 0xcd], Keylog.hexOf [1, 2, 3, 4]⟩]

def ssx : List KeySchedule.Secret :=
  [(.clientTraffic0, [5, 6, 7, 8]), (.clientHandshake, [1, 1, 1, 1]), (.serverHandshake, [2, 2, 2, 2]),
   (.serverTraffic0, [1, 2, 3, 4])]

theorem keylogHas : KeylogHas klx crx [1, 1, 1, 1] [2, 2, 2, 2] ca sa none :=
  ⟨⟨sksx, ssx, by decide, by decide, by decide, by decide, by decide, by decide, by decide⟩⟩

/-- the session right after the ServerHello was parsed: client random and suite known, `new_data` set, Initial decryptor
    there, nothing decrypted at 1-RTT level yet -/
def sHello : St Tls :=
  { tls := { ver := .v1, msgs := { clientRandom := some crx, ciphersuite := some [0x13, 0x01], newData := true } },
    version := .v1, decInitial := some { alg := .aesgcm, server := none, client := ⟨[], []⟩ },
    clientCids := [[0xc1]], serverCids := [[0x51]] }

-- `hello_establishes_rfc` applies, and what it establishes is the state `quic_one_rtt_connection_exact` starts from
example : Est H Pc klx sel .v1 k0 hpC hpS false (afterTls (params H Pc klx) sHello).1 0 0 0 0 [[0xc1]] [[0x51]] :=
  (hello_establishes_rfc H Pc klx sHello rfl rfl crx [0x13, 0x01] [1, 1, 1, 1] [2, 2, 2, 2] ca sa none sel rfl rfl rfl rfl
    (by decide) keylogHas rfl ⟨rfl, rfl, rfl, rfl⟩).2.1

end Ex
/-! ## the handshake -/

section LongStep
variable {σ : Type} (P : Params σ)

/-- `handle_quic_packet` after `decrypt_packet` for an Initial packet (CID learning), nothing for the other levels -/
def postLevel (lv : Level) (s : St σ) (p : Pkt) : St σ := if lv = .initial then learnCids s p else s

/-- One Initial / Handshake / 0-RTT packet of a conformant sender whose level's decryptor `d` is installed, for ANY
    parameters: `decrypt_packet` + the bookkeeping of `handle_quic_packet` IS `handle_frame` over the sender's frames
    (then the CID learning of an Initial). Everything that depends on the TLS parser is inside `handleFrames`. -/
theorem step_long_eq (L : SealLaws P.prims) (x : SPkt) (d : Dec) (k : DirKeys) (s : St σ)
    (hne : x.level ≠ .oneRtt) (hdec : longDecryptor s x.level.ptype = .ok (some d))
    (hdir : (if x.srv then d.server else some d.client) = some k)
    (hk : AeadOk d.alg k.key.length k.iv.length 16) (hiv : 8 ≤ k.iv.length)
    (hpn : PnLenOk (pnLargest s x.srv (spaceOf x.level)) x.pn x.pnLen) (hwf : WellFormedSeq x.frames) :
    let p := emit L.aeadSeal d.alg k x
    let r := handleFrames P (pnStore s x.srv (spaceOf x.level) (max (pnLargest s x.srv (spaceOf x.level)) x.pn)) p
      ((normalize x.frames).map QFrame.toParsed)
    stepPkt P s p = { st := postLevel x.level r.1 p, caught := r.2, escaped := none } := by
  intro p r
  have hh : p.htype = .long := by simp [p, emit, hne]
  have ht : p.ptype = x.level.ptype := by simp [p, emit, hne]
  have hsrv : p.isServer = x.srv := by simp [p, emit, hne]
  have hpnb : p.pn = some (pnBytes x.pnLen x.pn) := by simp [p, emit, hne]
  have hpl : p.payload = some (L.aeadSeal d.alg k.key (nonce k.iv x.pn) (header x) 16 (encodeAll x.frames)) := by
    simp [p, emit, hne, protectedPayload]
  have haad : assocData p = .ok (header x) := assocData_emit _ _ _ _
  have hsp : p.ptype.space = some (spaceOf x.level) := by
    rw [ht]; cases hl : x.level <;> simp_all [Level.ptype, PType.space, spaceOf]
  have hattr : hasPnAttr p = true := by
    unfold hasPnAttr; rw [hh, ht]; cases hl : x.level <;> simp_all [Level.ptype]
  have hnr : p.ptype ≠ .retry := by rw [ht]; cases hl : x.level <;> simp [Level.ptype]
  have hnv : p.ptype ≠ .versionNeg := by rw [ht]; cases hl : x.level <;> simp [Level.ptype]
  have hsel : selectDecryptor P s p = (s, .ok (some d)) := by
    simp only [selectDecryptor, hh, ht, hdec]
  have hdp : decryptPacket P s p = decryptRest P s p (some d) := by simp [decryptPacket, hsel]
  have hrest := decryptRest_emitted P L s p d k (spaceOf x.level) _ x.pn x.pnLen (header x) x.frames
    (by rw [hsrv]; exact hdir) hsp hattr (by rw [hsrv]) hpnb hpn haad hpl hwf hk hiv
  rw [hsrv] at hrest
  have hdp' : decryptPacket P s p = r := by rw [hdp, hrest]
  simp only [stepPkt, hnr, hnv, ne_eq, not_false_eq_true, and_self, if_true, afterDecrypt, if_false, hdp', hh]
  unfold postLevel
  by_cases hi : x.level = .initial
  · have : p.ptype = .initial := by rw [ht, hi]; rfl
    simp [hi, this]
  · have : p.ptype ≠ .initial := by rw [ht]; cases hl : x.level <;> simp_all [Level.ptype]
    simp [hi, this]

end LongStep
/-! ### the handshake in the composed session: invariants -/

section HsInv
variable (H : Crypto.Prims) (Pc : Cipher.Prims)

/-- the Handshake decryptor RFC 9001 §5.1 gives for the two handshake traffic secrets -/
def hsDec (sel : SuiteSel) (sh ch : Bytes) : Dec :=
  { alg := sel.alg,
    server := some ⟨quicKey (hashOf H sel.hash) sh sel.keyLen, quicIv (hashOf H sel.hash) sh⟩,
    client := ⟨quicKey (hashOf H sel.hash) ch sel.keyLen, quicIv (hashOf H sel.hash) ch⟩ }

/-- the Initial decryptor RFC 9001 §5.2 gives for the client's first Destination Connection ID -/
def initDec (dcid0 : Bytes) : Dec :=
  { alg := .aesgcm,
    server := some ⟨(quicInitialServerKeys H.sha256 dcid0).key, (quicInitialServerKeys H.sha256 dcid0).iv⟩,
    client := ⟨(quicInitialClientKeys H.sha256 dcid0).key, (quicInitialClientKeys H.sha256 dcid0).iv⟩ }

/-- `set_tls_decryptors` ran for the connection's suite with the connection's key-log lines: Handshake and generation-0
    Application decryptors and the four header-protection keys are RFC 9001 §5.1's -/
structure Keyed (sel : SuiteSel) (ch sh ca sa : Bytes) (s : St Tls) : Prop where
  suite : s.suite = some sel
  hs : s.decHandshake = some (hsDec H sel sh ch)
  app : s.decApp = some [(rfcGen (hashOf H sel.hash) sel.keyLen sa ca 0).toDec sel.alg]
  hpSH : s.tls.hp.serverHandshake = some (quicHp (hashOf H sel.hash) sh sel.keyLen)
  hpCH : s.tls.hp.clientHandshake = some (quicHp (hashOf H sel.hash) ch sel.keyLen)
  hpSA : s.tls.hp.serverApplication = some (quicHp (hashOf H sel.hash) sa sel.keyLen)
  hpCA : s.tls.hp.clientApplication = some (quicHp (hashOf H sel.hash) ca sel.keyLen)

/-- what no handshake step changes (before the first 1-RTT packet): version and stamp, the Initial decryptor and
    header-protection keys of the first DCID, epochs and key phases at their initial values, nothing decrypted in the
    application packet-number space, nothing in `output_buffer` that is exported without `-a` -/
structure HsInv (dcid0 : Bytes) (s : St Tls) : Prop where
  version : s.version = .v1
  ver : s.tls.ver = s.version
  init : s.decInitial = some (initDec H dcid0)
  hpSI : s.tls.hp.serverInitial = some (quicInitialServerKeys H.sha256 dcid0).hp
  hpCI : s.tls.hp.clientInitial = some (quicInitialClientKeys H.sha256 dcid0).hp
  ec : s.epochClient = 0
  es : s.epochServer = 0
  lpc : s.lastPhaseClient = some 0
  lps : s.lastPhaseServer = some 0
  out : ∀ o ∈ s.out, UdpOut.exported false (frameOf o) = none

/-- the parser part of a `QuicTlsSession` (the adapter fields set to their defaults) -/
def coreOf (t : Tls) : Tls := { t with ver := .unknown, hp := {} }

def clearND (t : Tls) : Tls := { t with msgs := { t.msgs with newData := false } }

theorem tlsUpdate_core (t : Tls) (c : CryptoIn) :
    tlsUpdate t c = ({ (tlsUpdate (coreOf t) c).1 with ver := t.ver, hp := t.hp }, (tlsUpdate (coreOf t) c).2) := by
  unfold tlsUpdate coreOf
  split <;> rfl

/-- `set_tls_decryptors` as `handle_crypto_frame` calls it during a handshake, with the connection's lines in the key log:
    it never raises, clears `new_data`, leaves everything `HsInv` and the bookkeeping speak about alone, and — when the
    suite is the connection's — installs the RFC keys (`Keyed`), whatever was installed before (idempotent). -/
theorem afterTls_hs (kl : List Keylog.Key) (s : St Tls) (cr cs ch sh ca sa : Bytes) (early : Option Bytes)
    (hv1 : s.version = .v1) (hv : s.tls.ver = s.version)
    (hn : s.tls.msgs.newData = true) (hcr : s.tls.msgs.clientRandom = some cr) (hcs : s.tls.msgs.ciphersuite = some cs)
    (hkl : KeylogHas kl cr ch sh ca sa early) :
    (afterTls (params H Pc kl) s).2 = none ∧
    (∀ sel, selectSuite cs = some sel → Keyed H sel ch sh ca sa (afterTls (params H Pc kl) s).1) ∧
    (afterTls (params H Pc kl) s).1.version = s.version ∧ (afterTls (params H Pc kl) s).1.decInitial = s.decInitial ∧
    (afterTls (params H Pc kl) s).1.epochClient = s.epochClient ∧ (afterTls (params H Pc kl) s).1.epochServer = s.epochServer ∧
    (afterTls (params H Pc kl) s).1.lastPhaseClient = s.lastPhaseClient ∧
    (afterTls (params H Pc kl) s).1.lastPhaseServer = s.lastPhaseServer ∧
    (afterTls (params H Pc kl) s).1.pnClient = s.pnClient ∧ (afterTls (params H Pc kl) s).1.pnServer = s.pnServer ∧
    (afterTls (params H Pc kl) s).1.clientCids = s.clientCids ∧ (afterTls (params H Pc kl) s).1.serverCids = s.serverCids ∧
    (afterTls (params H Pc kl) s).1.out = s.out ∧ (afterTls (params H Pc kl) s).1.tls.ver = s.tls.ver ∧
    (afterTls (params H Pc kl) s).1.tls.hp.serverInitial = s.tls.hp.serverInitial ∧
    (afterTls (params H Pc kl) s).1.tls.hp.clientInitial = s.tls.hp.clientInitial ∧
    coreOf (afterTls (params H Pc kl) s).1.tls = clearND (coreOf s.tls) := by
  have e1 : (params H Pc kl).tlsNewData s.tls = true := hn
  have e2 : (params H Pc kl).tlsClientRandom s.tls = some cr := hcr
  have e3 : (params H Pc kl).tlsCiphersuite s.tls = some cs := hcs
  unfold afterTls
  simp only [e1, if_true, e2, e3, setTlsDecryptors]
  cases hsel : selectSuite cs with
  | none =>
    simp [params, tlsClearNewData, hcr, hcs, hsel, coreOf, clearND]
  | some sel =>
    have hk : sel.keyLen < 65536 := by
      unfold selectSuite at hsel
      repeat' split at hsel
      all_goals first
        | (cases hsel; decide)
        | (simp at hsel)
    obtain ⟨k, hdq, k1, k2, k3, k4, k5, k6, k7⟩ := devQuic_rfc H kl sel hk cr ch sh ca sa early hkl
    have hdq' : devQuic H kl sel s.version cr = .ok k := by rw [hv1]; exact hdq
    have e4 : (params H Pc kl).devQuicKeys sel s.version cr = .ok (groupsOf k) := by
      show (devQuic H kl sel s.version cr).map groupsOf = _
      rw [hdq']; rfl
    simp only [e4]
    cases hke : k.clientEarly <;>
      (refine ⟨trivial, ?_, ?_, ?_, ?_, ?_, ?_, ?_, ?_, ?_, ?_, ?_, ?_, ?_, ?_, ?_, ?_⟩ <;>
        first
        | (intro sel' hs'; cases hs'
           refine ⟨?_, ?_, ?_, ?_, ?_, ?_, ?_⟩ <;>
           simp [installGroups, groupsOf, hke, params, tlsClearNewData, hcr, hcs, hsel, hv, hdq', AppKeys.toDec, hsDec,
             rfcGen, quicGeneration, k1, k2, k3, k4, k5, k6, dirOf, tripleSpec, quicPacketKeys, HpKeys.withTls])
        | simp [installGroups, groupsOf, hke, params, tlsClearNewData, hcr, hcs, hsel, hv, hdq', coreOf, clearND,
            HpKeys.withTls])

end HsInv

section HsFrames
variable (H : Crypto.Prims) (Pc : Cipher.Prims)

/-- LOCAL parser hypothesis: what the concrete `QuicTlsSession` does on the CRYPTO inputs of THIS history, in processing
    order, starting from parser state `t`: `update_session` never raises; whenever it leaves `new_data` set, the client
    random is the connection's and the cipher suite is the selected one `csel` — except after a CRYPTO frame of a client
    Initial packet (the ClientHello: first offered suite). `new_data` is cleared between the inputs (`handle_crypto_frame`). -/
def PTrace (cr csel : Bytes) : Tls → List CryptoIn → Prop
  | _, [] => True
  | t, c :: rest =>
    (tlsUpdate t c).2 = none ∧
    ((tlsUpdate t c).1.msgs.newData = true →
      (tlsUpdate t c).1.msgs.clientRandom = some cr ∧
      ∃ cs, (tlsUpdate t c).1.msgs.ciphersuite = some cs ∧ (¬ (c.isServer = false ∧ c.ptype = .initial) → cs = csel)) ∧
    PTrace cr csel (clearND (tlsUpdate t c).1) rest

/-- the session during the handshake: `HsInv`, no pending `new_data`, parser part `core`, packet-number tables, CID sets,
    and — once `keyed` — the RFC keys of the selected suite -/
structure HsSt (dcid0 : Bytes) (sel : SuiteSel) (ch sh ca sa : Bytes) (keyed : Bool) (s : St Tls) (tc ts : PnTab)
    (cc sc : List Bytes) (core : Tls) : Prop where
  inv : HsInv H dcid0 s
  nd : s.tls.msgs.newData = false
  core : coreOf s.tls = core
  pc : s.pnClient = tc
  ps : s.pnServer = ts
  cc : s.clientCids = cc
  sc : s.serverCids = sc
  keyed : keyed = true → Keyed H sel ch sh ca sa s

theorem coreOf_idem (t : Tls) : coreOf (coreOf t) = coreOf t := rfl

theorem coreOf_fix (t : Tls) (h1 : t.ver = .unknown) (h2 : t.hp = {}) : coreOf t = t := by
  cases t; simp_all [coreOf]

theorem tlsUpdate_ver_hp (t : Tls) (c : CryptoIn) : (tlsUpdate t c).1.ver = t.ver ∧ (tlsUpdate t c).1.hp = t.hp := by
  unfold tlsUpdate; split <;> exact ⟨rfl, rfl⟩

theorem coreOf_with (t : Tls) (v : Version) (h : HpKeys) : coreOf { t with ver := v, hp := h } = coreOf t := rfl

theorem handleCrypto_hs (kl : List Keylog.Key) (dcid0 cr csel ch sh ca sa : Bytes) (early : Option Bytes) (sel : SuiteSel)
    (hsel : selectSuite csel = some sel) (hkl : KeylogHas kl cr ch sh ca sa early)
    (keyed : Bool) (s : St Tls) (tc ts : PnTab) (cc sc : List Bytes) (core : Tls)
    (hst : HsSt H dcid0 sel ch sh ca sa keyed s tc ts cc sc core) (p : Pkt) (f : Frame.Parsed)
    (hf : isCryptoP f = true) (c : CryptoIn) (rest : List CryptoIn)
    (htr : PTrace cr csel core (c :: rest))
    (hcl : keyed = true → ¬ (c.isServer = false ∧ c.ptype = .initial)) :
    (handleCrypto (params H Pc kl) s p f c).2 = none ∧
    HsSt H dcid0 sel ch sh ca sa keyed (handleCrypto (params H Pc kl) s p f c).1 tc ts cc sc
      (clearND (tlsUpdate core c).1) ∧
    ((tlsUpdate core c).1.msgs.newData = true → ¬ (c.isServer = false ∧ c.ptype = .initial) →
      Keyed H sel ch sh ca sa (handleCrypto (params H Pc kl) s p f c).1) ∧
    PTrace cr csel (clearND (tlsUpdate core c).1) rest := by
  obtain ⟨t1, t2, t3⟩ := htr
  obtain ⟨hinv, hnd, hcore, hpc, hps, hcc, hsc, hkeyed⟩ := hst
  have hup := tlsUpdate_core s.tls c
  rw [hcore] at hup
  have hfix : coreOf (tlsUpdate core c).1 = (tlsUpdate core c).1 := by
    obtain ⟨q1, q2⟩ := tlsUpdate_ver_hp core c
    apply coreOf_fix
    · rw [q1, ← hcore]; rfl
    · rw [q2, ← hcore]; rfl
  generalize hu : tlsUpdate core c = u at hup t1 t2 t3 hfix ⊢
  obtain ⟨ut, ue⟩ := u
  simp only at t1 t2 t3 hup hfix ⊢
  subst t1
  have hfo : ∀ o, o = mkOut p f → UdpOut.exported false (frameOf o) = none := by
    intro o ho; subst ho
    cases f <;> simp [isCryptoP] at hf
    simp [mkOut, frameOf, UdpOut.exported, UdpOut.isStream]
  have hPup : (params H Pc kl).tlsUpdate s.tls c = ({ ut with ver := s.tls.ver, hp := s.tls.hp }, none) := hup
  unfold handleCrypto
  rw [hPup]
  simp only
  by_cases hn : ut.msgs.newData = true
  · -- a hello was completed: set_tls_decryptors
    obtain ⟨hcr, cs, hcs, hcsel⟩ := t2 hn
    have a := afterTls_hs H Pc kl { s with tls := { ut with ver := s.tls.ver, hp := s.tls.hp } } cr cs ch sh ca sa early
      hinv.version hinv.ver hn hcr hcs hkl
    obtain ⟨a0, aK, a1, a2, a3, a4, a5, a6, a7, a8, a9, a10, a11, a12, a13, a14, a15⟩ := a
    generalize hat : afterTls (params H Pc kl) { s with tls := { ut with ver := s.tls.ver, hp := s.tls.hp } } = r at *
    obtain ⟨s', e'⟩ := r
    simp only at a0 aK a1 a2 a3 a4 a5 a6 a7 a8 a9 a10 a11 a12 a13 a14 a15 ⊢
    subst a0
    simp only
    have hcore' : coreOf s'.tls = clearND ut := by
      rw [a15, coreOf_with, hfix]
    have hnd' : s'.tls.msgs.newData = false := by
      have := congrArg (fun t => t.msgs.newData) hcore'
      simpa [coreOf, clearND] using this
    refine ⟨trivial, ⟨⟨a1.trans hinv.version, by rw [a12, a1]; exact hinv.ver, by rw [a2]; exact hinv.init,
        by rw [a13]; exact hinv.hpSI, by rw [a14]; exact hinv.hpCI, by rw [a3]; exact hinv.ec, by rw [a4]; exact hinv.es,
        by rw [a5]; exact hinv.lpc, by rw [a6]; exact hinv.lps, ?_⟩, ?_, ?_, by rw [a7]; exact hpc, by rw [a8]; exact hps,
        by rw [a9]; exact hcc, by rw [a10]; exact hsc, ?_⟩, ?_, t3⟩
    · intro o ho
      simp only [List.mem_append, List.mem_singleton, a11] at ho
      rcases ho with ho | ho
      · exact hinv.out o ho
      · exact hfo o ho
    · simpa [coreOf] using hnd'
    · simpa [coreOf] using hcore'
    · intro hk
      have := hcsel (hcl hk)
      subst this
      have := aK sel hsel
      exact ⟨this.suite, this.hs, this.app, this.hpSH, this.hpCH, this.hpSA, this.hpCA⟩
    · intro _ hni
      have := hcsel hni
      subst this
      have := aK sel hsel
      exact ⟨this.suite, this.hs, this.app, this.hpSH, this.hpCH, this.hpSA, this.hpCA⟩
  · -- nothing new: the frame is buffered / a message without effect
    have hn' : ut.msgs.newData = false := by simpa using hn
    have hflag : (params H Pc kl).tlsNewData { ut with ver := s.tls.ver, hp := s.tls.hp } = false := hn'
    simp only [afterTls, hflag, Bool.false_eq_true, if_false]
    have hclr : clearND ut = ut := by
      obtain ⟨fr, ms, ni, vv, hh⟩ := ut
      obtain ⟨m1, m2, m3, m4, m5, m6, m7⟩ := ms
      simp_all [clearND]
    rw [hclr] at t3 ⊢
    refine ⟨trivial, ⟨⟨hinv.version, hinv.ver, hinv.init, hinv.hpSI, hinv.hpCI, hinv.ec, hinv.es, hinv.lpc, hinv.lps, ?_⟩,
      hn', by rw [coreOf_with, hfix], hpc, hps, hcc, hsc, ?_⟩, fun h => absurd h hn, t3⟩
    · intro o ho
      simp only [List.mem_append, List.mem_singleton] at ho
      rcases ho with ho | ho
      · exact hinv.out o ho
      · exact hfo o ho
    · intro hk
      have := hkeyed hk
      exact ⟨this.suite, this.hs, this.app, this.hpSH, this.hpCH, this.hpSA, this.hpCA⟩

/-- frames a handshake-level packet may carry besides CRYPTO: anything but STREAM and NEW_CONNECTION_ID (RFC 9000 §12.4:
    Initial and Handshake packets carry PADDING, PING, ACK, CRYPTO, CONNECTION_CLOSE only) -/
def hsFrameP (f : Frame.Parsed) : Bool :=
  match f with
  | .stream .. => false
  | .newConnectionId .. => false
  | _ => true

/-- the CRYPTO inputs `handle_frame` hands to the TLS parser for the frames of packet `p`, in order -/
def cryptoInsP (p : Pkt) (fs : List Frame.Parsed) : List CryptoIn :=
  fs.filterMap fun f => match f with | .crypto _ off len data => some (cryptoIn p off len data) | _ => none

/-- the parser part after a list of CRYPTO inputs -/
def pfold (t : Tls) (cs : List CryptoIn) : Tls := cs.foldl (fun t c => clearND (tlsUpdate t c).1) t

/-- did one of them complete a hello (`new_data`)? -/
def pfired : Tls → List CryptoIn → Bool
  | _, [] => false
  | t, c :: rest => (tlsUpdate t c).1.msgs.newData || pfired (clearND (tlsUpdate t c).1) rest

theorem handleFrames_hs (kl : List Keylog.Key) (dcid0 cr csel ch sh ca sa : Bytes) (early : Option Bytes) (sel : SuiteSel)
    (hsel : selectSuite csel = some sel) (hkl : KeylogHas kl cr ch sh ca sa early)
    (keyed : Bool) (p : Pkt) (fs : List Frame.Parsed)
    (hcl : keyed = true → ¬ (p.isServer = false ∧ p.ptype = .initial) ∨ cryptoInsP p fs = [])
    (hok : ∀ f ∈ fs, hsFrameP f = true) (rest : List CryptoIn)
    (s : St Tls) (tc ts : PnTab) (cc sc : List Bytes) (core : Tls)
    (hst : HsSt H dcid0 sel ch sh ca sa keyed s tc ts cc sc core)
    (htr : PTrace cr csel core (cryptoInsP p fs ++ rest)) :
    (handleFrames (params H Pc kl) s p fs).2 = none ∧
    HsSt H dcid0 sel ch sh ca sa keyed (handleFrames (params H Pc kl) s p fs).1 tc ts cc sc
      (pfold core (cryptoInsP p fs)) ∧
    (pfired core (cryptoInsP p fs) = true → ¬ (p.isServer = false ∧ p.ptype = .initial) →
      Keyed H sel ch sh ca sa (handleFrames (params H Pc kl) s p fs).1) ∧
    PTrace cr csel (pfold core (cryptoInsP p fs)) rest := by
  induction fs generalizing s core keyed with
  | nil => exact ⟨rfl, hst, by simp [pfired, cryptoInsP], htr⟩
  | cons f fs ih =>
    have hf := hok f (List.mem_cons_self ..)
    have hrest := fun g hg => hok g (List.mem_cons_of_mem _ hg)
    by_cases hc : isCryptoP f = true
    · -- CRYPTO
      cases f <;> simp [isCryptoP] at hc
      rename_i l off len data
      have hins : cryptoInsP p (.crypto l off len data :: fs) = cryptoIn p off len data :: cryptoInsP p fs := by
        simp [cryptoInsP]
      have hni' : keyed = true → ¬ (p.isServer = false ∧ p.ptype = .initial) :=
        fun hk => (hcl hk).resolve_right (by rw [hins]; simp)
      rw [hins] at htr ⊢
      obtain ⟨b1, b2, b3, b4⟩ := handleCrypto_hs H Pc kl dcid0 cr csel ch sh ca sa early sel hsel hkl keyed s tc ts cc sc
        core hst p (.crypto l off len data) rfl (cryptoIn p off len data) (cryptoInsP p fs ++ rest) htr
        (by simpa [cryptoIn] using hni')
      have hstep : handleFrame (params H Pc kl) s p (.crypto l off len data) =
          handleCrypto (params H Pc kl) s p (.crypto l off len data) (cryptoIn p off len data) := rfl
      unfold handleFrames
      rw [hstep]
      generalize hr : handleCrypto (params H Pc kl) s p (.crypto l off len data) (cryptoIn p off len data) = r at b1 b2 b3
      obtain ⟨s1, e1⟩ := r
      simp only at b1 b2 b3 ⊢
      subst b1
      simp only
      obtain ⟨i1, i2, i3, i4⟩ := ih keyed (fun hk => Or.inl (hni' hk)) hrest s1 _ b2 b4
      refine ⟨i1, i2, ?_, i4⟩
      · intro hfire hni
        simp only [pfired, Bool.or_eq_true] at hfire
        by_cases hlater : pfired (clearND (tlsUpdate core (cryptoIn p off len data)).1) (cryptoInsP p fs) = true
        · exact i3 hlater hni
        · have h1 : (tlsUpdate core (cryptoIn p off len data)).1.msgs.newData = true := by
            rcases hfire with h | h
            · exact h
            · exact absurd h hlater
          -- the keys installed by this frame survive the later (quiet) frames: use the `keyed` flag of a stronger state
          have hk1 := b3 h1 (by simpa [cryptoIn] using hni)
          have b2' : HsSt H dcid0 sel ch sh ca sa true s1 tc ts cc sc (clearND (tlsUpdate core (cryptoIn p off len data)).1) :=
            ⟨b2.inv, b2.nd, b2.core, b2.pc, b2.ps, b2.cc, b2.sc, fun _ => hk1⟩
          exact ((ih true (fun _ => Or.inl hni) hrest s1 _ b2' b4).2.1.keyed) rfl
    · -- an inert frame
      have hins : cryptoInsP p (f :: fs) = cryptoInsP p fs := by
        cases f <;> simp [isCryptoP] at hc <;> simp [cryptoInsP]
      have hstep : handleFrame (params H Pc kl) s p f = (s, none) := by
        cases f <;> simp [isCryptoP] at hc <;> simp [hsFrameP] at hf <;> rfl
      rw [hins] at htr hcl ⊢
      unfold handleFrames
      rw [hstep]
      exact ih keyed hcl hrest s core hst htr

end HsFrames

/-! ### one handshake-level packet -/

section HsPacket
variable (H : Crypto.Prims) (Pc : Cipher.Prims)

/-- the CRYPTO inputs of a sender's packet, in frame order -/
def cryptoIns (x : SPkt) : List CryptoIn :=
  x.frames.filterMap fun f => match f with
    | .crypto off _ data => some ⟨x.srv, x.level.ptype, off.val, data.length, data⟩
    | _ => none

/-- RFC 9000 §12.4 for Initial and Handshake packets -/
def hsFrameQ (f : QFrame) : Bool :=
  match f with
  | .stream .. => false
  | .newConnectionId .. => false
  | _ => true

theorem hsFrameP_toParsed (f : QFrame) : hsFrameP f.toParsed = hsFrameQ f := by cases f <;> rfl

theorem normalize_hsFrame (fs : List QFrame) (h : ∀ f ∈ fs, hsFrameQ f = true) : ∀ f ∈ normalize fs, hsFrameQ f = true := by
  induction fs with
  | nil => simp [normalize]
  | cons a rest ih =>
    have ih' := ih (fun g hg => h g (List.mem_cons_of_mem _ hg))
    have ha := h a (List.mem_cons_self ..)
    cases a <;> simp only [normalize] <;> try (intro f hf; rcases List.mem_cons.mp hf with rfl | hf; exact ha; exact ih' f hf)
    split
    · rename_i b r heq
      rw [heq] at ih'
      intro f hf
      rcases List.mem_cons.mp hf with rfl | hf
      · rfl
      · exact ih' f (List.mem_cons_of_mem _ hf)
    · intro f hf
      rcases List.mem_cons.mp hf with rfl | hf
      · rfl
      · exact ih' f hf

theorem cryptoIns_eq (L : Seal) (alg : Alg) (k : DirKeys) (x : SPkt) (hne : x.level ≠ .oneRtt) :
    cryptoInsP (emit L alg k x) ((normalize x.frames).map QFrame.toParsed) = cryptoIns x := by
  have hsrv : (emit L alg k x).isServer = x.srv := by simp [emit, hne]
  have hpt : (emit L alg k x).ptype = x.level.ptype := by simp [emit, hne]
  unfold cryptoIns cryptoInsP
  generalize emit L alg k x = p at hsrv hpt
  induction x.frames with
  | nil => rfl
  | cons f rest ih =>
    by_cases hp : f.isPadding = true
    · cases f <;> simp [QFrame.isPadding] at hp
      rename_i a
      rcases Lemmas.QuicFrameSeq.normalize_pad_cases a rest with ⟨h0, h1⟩ | ⟨b, r, h0, h1⟩ | ⟨g, r, h0, _, h1⟩
      · rw [h1]; rw [h0] at ih; simp [QFrame.toParsed] at ih ⊢; exact ih
      · rw [h1]; rw [h0] at ih; simp [QFrame.toParsed] at ih ⊢; exact ih
      · rw [h1]; rw [h0] at ih; simp [QFrame.toParsed] at ih ⊢; exact ih
    · rw [Lemmas.QuicFrameSeq.normalize_nonpad f rest (by simpa using hp)]
      cases f <;> simp [QFrame.toParsed, List.filterMap_cons, cryptoIn, hsrv, hpt] at ih ⊢ <;> exact ih

/-- the decryptor of a handshake-level packet's encryption level, and the sender's key in it -/
def lvlDec (dcid0 : Bytes) (sel : SuiteSel) (sh ch : Bytes) (lv : Level) : Dec :=
  if lv = .initial then initDec H dcid0 else hsDec H sel sh ch

def lvlKey (dcid0 : Bytes) (sel : SuiteSel) (sh ch : Bytes) (lv : Level) (srv : Bool) : DirKeys :=
  if srv then ((lvlDec H dcid0 sel sh ch lv).server.getD default) else (lvlDec H dcid0 sel sh ch lv).client

/-- RFC 9000 §7.2: an Initial packet teaches the observer both connection IDs -/
def learn (cc sc : List Bytes) (x : SPkt) : List Bytes × List Bytes :=
  if x.level = .initial then
    (if x.srv then (issue cc [x.dcid], issue sc [x.scid]) else (issue cc [x.scid], issue sc [x.dcid]))
  else (cc, sc)

theorem hs_packet_step (hl : H.Lawful) (kl : List Keylog.Key) (L : SealLaws Pc) (dcid0 cr csel ch sh ca sa : Bytes)
    (early : Option Bytes) (sel : SuiteSel) (hsel : selectSuite csel = some sel) (hkl : KeylogHas kl cr ch sh ca sa early)
    (keyed : Bool) (x : SPkt) (hlv : x.level = .initial ∨ (x.level = .handshake ∧ keyed = true))
    (hcl : keyed = true → ¬ (x.srv = false ∧ x.level = .initial) ∨ cryptoIns x = [])
    (hfr : ∀ f ∈ x.frames, hsFrameQ f = true) (hwf : WellFormedSeq x.frames) (rest : List CryptoIn)
    (s : St Tls) (tc ts : PnTab) (cc sc : List Bytes) (core : Tls)
    (hst : HsSt H dcid0 sel ch sh ca sa keyed s tc ts cc sc core)
    (hpn : PnLenOk ((if x.srv then ts else tc).get (spaceOf x.level)) x.pn x.pnLen)
    (htr : PTrace cr csel core (cryptoIns x ++ rest)) :
    let p := emit L.aeadSeal (lvlDec H dcid0 sel sh ch x.level).alg (lvlKey H dcid0 sel sh ch x.level x.srv) x
    let r := stepPkt (params H Pc kl) s p
    r.escaped = none ∧ r.caught = none ∧
    HsSt H dcid0 sel ch sh ca sa keyed r.st
      (if x.srv then tc else bump tc (spaceOf x.level) x.pn) (if x.srv then bump ts (spaceOf x.level) x.pn else ts)
      (learn cc sc x).1 (learn cc sc x).2 (pfold core (cryptoIns x)) ∧
    (pfired core (cryptoIns x) = true → ¬ (x.srv = false ∧ x.level = .initial) → Keyed H sel ch sh ca sa r.st) ∧
    PTrace cr csel (pfold core (cryptoIns x)) rest := by
  intro p r
  have hne : x.level ≠ .oneRtt := by rcases hlv with h | ⟨h, _⟩ <;> simp [h]
  have hlaw256 : H.sha256.Lawful := hl.sha256
  have hlawS : (hashOf H sel.hash).Lawful := by cases sel.hash <;> simp [hashOf, hl.sha256, hl.sha384]
  have hcases : (sel.alg = .aesgcm ∧ sel.keyLen = 16) ∨ (sel.alg = .aesgcm ∧ sel.keyLen = 32) ∨
      (sel.alg = .chachaPoly ∧ sel.keyLen = 32) ∨ (sel.alg = .aesccm ∧ sel.keyLen = 16) := by
    unfold selectSuite at hsel
    repeat' split at hsel
    all_goals first
      | (cases hsel; simp)
      | (simp at hsel)
  have hk255 : sel.keyLen ≤ 255 := by rcases hcases with h | h | h | h <;> omega
  -- the decryptor of the level is installed and holds the sender's key
  have hdec : longDecryptor s x.level.ptype = .ok (some (lvlDec H dcid0 sel sh ch x.level)) := by
    rcases hlv with h | ⟨h, hk⟩
    · simp [h, Level.ptype, longDecryptor, hst.inv.init, lvlDec]
    · simp [h, Level.ptype, longDecryptor, (hst.keyed hk).hs, lvlDec]
  have hdir : (if x.srv then (lvlDec H dcid0 sel sh ch x.level).server else some (lvlDec H dcid0 sel sh ch x.level).client) =
      some (lvlKey H dcid0 sel sh ch x.level x.srv) := by
    unfold lvlKey lvlDec
    rcases hlv with h | ⟨h, _⟩ <;> cases x.srv <;> simp [h, initDec, hsDec]
  have haead : AeadOk (lvlDec H dcid0 sel sh ch x.level).alg (lvlKey H dcid0 sel sh ch x.level x.srv).key.length
      (lvlKey H dcid0 sel sh ch x.level x.srv).iv.length 16 ∧ 8 ≤ (lvlKey H dcid0 sel sh ch x.level x.srv).iv.length := by
    unfold lvlKey lvlDec
    rcases hlv with h | ⟨h, _⟩
    · cases x.srv <;>
        simp [h, initDec, quicInitialServerKeys, quicInitialClientKeys, quicPacketKeys, quicKey_length _ hlaw256,
          quicIv_length _ hlaw256] <;> decide
    · cases x.srv <;> simp [h, hsDec, quicKey_length _ hlawS _ _ hk255, quicIv_length _ hlawS] <;>
        (rcases hcases with ⟨a, b⟩ | ⟨a, b⟩ | ⟨a, b⟩ | ⟨a, b⟩ <;> rw [a, b] <;> decide)
  have hlarge : pnLargest s x.srv (spaceOf x.level) = (if x.srv then ts else tc).get (spaceOf x.level) := by
    cases x.srv <;> simp [pnLargest, hst.pc, hst.ps]
  have hstep := step_long_eq (params H Pc kl) L x _ _ s hne hdec hdir haead.1 haead.2 (by rw [hlarge]; exact hpn) hwf
  simp only at hstep
  rw [hlarge] at hstep
  -- the state `handle_frame` starts from
  generalize hs2 : pnStore s x.srv (spaceOf x.level) (max ((if x.srv then ts else tc).get (spaceOf x.level)) x.pn) = s2 at hstep
  have hst2 : HsSt H dcid0 sel ch sh ca sa keyed s2 (if x.srv then tc else bump tc (spaceOf x.level) x.pn)
      (if x.srv then bump ts (spaceOf x.level) x.pn else ts) cc sc core := by
    subst hs2
    obtain ⟨i, nd, co, pc, ps, c1, c2, ky⟩ := hst
    cases hsrv : x.srv <;> simp only [pnStore, hsrv, Bool.false_eq_true, if_false, if_true]
    · exact ⟨⟨i.version, i.ver, i.init, i.hpSI, i.hpCI, i.ec, i.es, i.lpc, i.lps, i.out⟩, nd, co, by simp [bump, pc], ps, c1, c2,
        fun hk => let q := ky hk; ⟨q.suite, q.hs, q.app, q.hpSH, q.hpCH, q.hpSA, q.hpCA⟩⟩
    · exact ⟨⟨i.version, i.ver, i.init, i.hpSI, i.hpCI, i.ec, i.es, i.lpc, i.lps, i.out⟩, nd, co, pc, by simp [bump, ps], c1, c2,
        fun hk => let q := ky hk; ⟨q.suite, q.hs, q.app, q.hpSH, q.hpCH, q.hpSA, q.hpCA⟩⟩
  have hins := cryptoIns_eq L.aeadSeal (lvlDec H dcid0 sel sh ch x.level).alg (lvlKey H dcid0 sel sh ch x.level x.srv) x hne
  have hpsrv : p.isServer = x.srv := by simp [p, emit, hne]
  have hppt : p.ptype = x.level.ptype := by simp [p, emit, hne]
  have hci : (p.isServer = false ∧ p.ptype = .initial) ↔ (x.srv = false ∧ x.level = .initial) := by
    rw [hpsrv, hppt]
    rcases hlv with h | ⟨h, _⟩ <;> simp [h, Level.ptype]
  obtain ⟨f1, f2, f3, f4⟩ := handleFrames_hs H Pc kl dcid0 cr csel ch sh ca sa early sel hsel hkl keyed p
    ((normalize x.frames).map QFrame.toParsed)
    (by intro hk; rcases hcl hk with h | h
        · exact Or.inl (by rw [hci]; exact h)
        · exact Or.inr (by rw [hins]; exact h))
    (by intro g hg
        obtain ⟨f, hf, rfl⟩ := List.mem_map.mp hg
        rw [hsFrameP_toParsed]; exact normalize_hsFrame _ hfr f hf)
    rest s2 _ _ cc sc core hst2 (by rw [hins]; exact htr)
  rw [hins] at f2 f3 f4
  have hr : r = { st := postLevel x.level (handleFrames (params H Pc kl) s2 p ((normalize x.frames).map QFrame.toParsed)).1 p,
                  caught := (handleFrames (params H Pc kl) s2 p ((normalize x.frames).map QFrame.toParsed)).2,
                  escaped := none } := hstep
  rw [hr]
  refine ⟨rfl, f1, ?_, ?_, f4⟩
  · -- CID learning of an Initial
    unfold postLevel learn
    by_cases hi : x.level = .initial
    · simp only [hi, if_true]
      obtain ⟨i, nd, co, pc, ps, c1, c2, ky⟩ := f2
      have hpd : p.dcid = x.dcid := by simp [p, emit, hne]
      have hps2 : p.scid = some x.scid := by simp [p, emit, hne]
      unfold learnCids
      rw [hpsrv]
      cases hsrv : x.srv <;> simp only [hsrv, hi, Bool.false_eq_true, if_false, if_true] at pc ps ⊢
      · exact ⟨⟨i.version, i.ver, i.init, i.hpSI, i.hpCI, i.ec, i.es, i.lpc, i.lps, i.out⟩, nd, co, pc, ps,
          by simp [hps2, optAdd, c1, issue_eq], by simp [hpd, c2, issue_eq],
          fun hk => let q := ky hk; ⟨q.suite, q.hs, q.app, q.hpSH, q.hpCH, q.hpSA, q.hpCA⟩⟩
      · exact ⟨⟨i.version, i.ver, i.init, i.hpSI, i.hpCI, i.ec, i.es, i.lpc, i.lps, i.out⟩, nd, co, pc, ps,
          by simp [hpd, c1, issue_eq], by simp [hps2, optAdd, c2, issue_eq],
          fun hk => let q := ky hk; ⟨q.suite, q.hs, q.app, q.hpSH, q.hpCH, q.hpSA, q.hpCA⟩⟩
    · simp only [hi, if_false]; exact f2
  · intro hfire hni
    have hk := f3 hfire (by rw [hci]; exact hni)
    unfold postLevel
    split
    · unfold learnCids; split <;> exact ⟨hk.suite, hk.hs, hk.app, hk.hpSH, hk.hpCH, hk.hpSA, hk.hpCA⟩
    · exact hk

end HsPacket

/-! ### a handshake packet on the wire -/

theorem longOf_first (x : SPkt) (pl : Bytes) (hs : LongShape x) (h1 : 1 ≤ x.pnLen) (h4 : x.pnLen ≤ 4) :
    (longOf x pl).first = firstByteLong x := by
  unfold Long.first firstByteLong longOf
  simp only [pnBytes_length, hs.typeBits]
  congr 1
  have : (ltypeOf x.level).bits < 4 := by cases x.level <;> simp [ltypeOf, LType.bits]
  omega

theorem longOf_wf (x : SPkt) (pl : Bytes) (hs : LongShape x) (h1 : 1 ≤ x.pnLen) (h4 : x.pnLen ≤ 4)
    (hpl : pl.length = (encodeAll x.frames).length + 16) : (longOf x pl).wf := by
  refine ⟨?_, ?_, ?_, ?_, ?_, ?_, ?_, ?_⟩
  · show x.lowBits % 4 < 4; omega
  · show x.version.length = 4; rw [hs.version]; rfl
  · show x.dcid.length ≤ 255; have := hs.dcid; omega
  · show x.scid.length ≤ 255; have := hs.scid; omega
  · show 1 ≤ (pnBytes x.pnLen x.pn).length; rw [pnBytes_length]; exact h1
  · show (pnBytes x.pnLen x.pn).length ≤ 4; rw [pnBytes_length]; exact h4
  · exact hs.tok
  · show x.lenW.fits ((pnBytes x.pnLen x.pn).length + pl.length)
    rw [pnBytes_length, hpl, ← Nat.add_assoc]; exact hs.len

theorem longOf_toPkt (sealFn : Seal) (alg : Alg) (k : DirKeys) (x : SPkt) (hs : LongShape x)
    (h1 : 1 ≤ x.pnLen) (h4 : x.pnLen ≤ 4)
    (hpl : (protectedPayload sealFn alg k x).length = (encodeAll x.frames).length + 16) :
    (longOf x (protectedPayload sealFn alg k x)).toPkt x.srv x.ts = emit sealFn alg k x := by
  have hne : x.level ≠ .oneRtt := by rcases hs.level with h | h <;> simp [h]
  unfold Long.toPkt emit
  rw [longOf_first x _ hs h1 h4]
  simp only [hne, if_false]
  rcases hs.level with h | h <;>
    simp [longOf, h, ltypeOf, LType.ptype, Level.ptype, Long.lengthField, lengthField, pnBytes_length, hpl, Nat.add_assoc]

/-! ### handshake datagrams through `handle_packet` -/

section HsDatagram
variable (maskFn : Dissect.MaskFn) (H : Crypto.Prims) (Pc : Cipher.Prims)

/-- what the observer's bookkeeping is after the packets so far: keys installed?, largest packet numbers, CID sets, and the
    parser part of the TLS session (the concrete `QuicTlsSession` on the CRYPTO inputs so far) -/
structure Trk where
  keyed : Bool
  tc : PnTab
  ts : PnTab
  cc : List Bytes
  sc : List Bytes
  core : Tls

def Trk.step (t : Trk) (x : SPkt) : Trk :=
  { keyed := t.keyed || (pfired t.core (cryptoIns x) && !(!x.srv && decide (x.level = .initial))),
    tc := if x.srv then t.tc else bump t.tc (spaceOf x.level) x.pn,
    ts := if x.srv then bump t.ts (spaceOf x.level) x.pn else t.ts,
    cc := (learn t.cc t.sc x).1, sc := (learn t.cc t.sc x).2,
    core := pfold t.core (cryptoIns x) }

/-- `tls_session.ciphersuite == b"\x13\x03"` as the dissector is told -/
def chachaOf (core : Tls) : Bool := core.msgs.ciphersuite == some [0x13, 0x03]

/-- the header-protection key of a handshake-level packet (RFC 9001 §5.1 / §5.2) -/
def lvlHp (dcid0 : Bytes) (sel : SuiteSel) (sh ch : Bytes) (lv : Level) (srv : Bool) : Bytes :=
  if lv = .initial then
    (if srv then (quicInitialServerKeys H.sha256 dcid0).hp else (quicInitialClientKeys H.sha256 dcid0).hp)
  else quicHp (hashOf H sel.hash) (if srv then sh else ch) sel.keyLen

/-- one handshake-level packet of a conformant sender, relative to the bookkeeping `t`:
    `shape`   QUIC v1 long header of level Initial / Handshake (`LongShape`);
    `keys`    a Handshake packet comes after the ServerHello was seen (the keys are installed);
    `late`    once the keys are installed a client Initial carries no CRYPTO frame (it only acknowledges);
    `frames`  RFC 9000 §12.4 frame types, well formed; `pn`: RFC 9000 §17.1 window per space and direction;
    `mask`    header protection with the level's key (AES-based for Initial, the suite's otherwise) -/
structure HsPkOk (L : SealLaws Pc) (dcid0 : Bytes) (sel : SuiteSel) (sh ch : Bytes) (t : Trk) (q : PkH) : Prop where
  shape : LongShape q.x
  keys : q.x.level = .handshake → t.keyed = true
  late : t.keyed = true → ¬ (q.x.srv = false ∧ q.x.level = .initial) ∨ cryptoIns q.x = []
  frames : ∀ f ∈ q.x.frames, hsFrameQ f = true
  wf : WellFormedSeq q.x.frames
  pn : PnLenOk ((if q.x.srv then t.ts else t.tc).get (spaceOf q.x.level)) q.x.pn q.x.pnLen
  mask : maskFn (senderChacha (ltypeOf q.x.level) (chachaOf t.core)) (lvlHp H dcid0 sel sh ch q.x.level q.x.srv)
    (longOf q.x (protectedPayload L.aeadSeal (lvlDec H dcid0 sel sh ch q.x.level).alg
      (lvlKey H dcid0 sel sh ch q.x.level q.x.srv) q.x)).sample = some q.mask
  mask5 : 5 ≤ q.mask.length

def pkWire (L : SealLaws Pc) (dcid0 : Bytes) (sel : SuiteSel) (sh ch : Bytes) (q : PkH) : Bytes :=
  q.wire L.aeadSeal (lvlDec H dcid0 sel sh ch q.x.level).alg (lvlKey H dcid0 sel sh ch q.x.level q.x.srv)

theorem chachaOf_core (s : St Tls) : (envOf s).chacha = chachaOf (coreOf s.tls) := rfl

theorem hs_turn (hl : H.Lawful) (kl : List Keylog.Key) (L : SealLaws Pc) (dcid0 cr csel ch sh ca sa : Bytes)
    (early : Option Bytes) (sel : SuiteSel) (hsel : selectSuite csel = some sel) (hkl : KeylogHas kl cr ch sh ca sa early)
    (t : Trk) (q : PkH) (hok : HsPkOk maskFn H Pc L dcid0 sel sh ch t q) (rest : List CryptoIn)
    (s : St Tls) (hst : HsSt H dcid0 sel ch sh ca sa t.keyed s t.tc t.ts t.cc t.sc t.core)
    (htr : PTrace cr csel t.core (cryptoIns q.x ++ rest)) (guessed more : Bytes) :
    ∃ s', HsSt H dcid0 sel ch sh ca sa (t.step q.x).keyed s' (t.step q.x).tc (t.step q.x).ts (t.step q.x).cc
        (t.step q.x).sc (t.step q.x).core ∧
      PTrace cr csel (t.step q.x).core rest ∧
      (Dissect.dissectLoop maskFn (fun x : LoopSt => envOf x.1) (handleTurn (params H Pc kl)) q.x.srv guessed q.x.ts
        (s, none) (pkWire H Pc L dcid0 sel sh ch q ++ more)).1 =
      (Dissect.dissectLoop maskFn (fun x : LoopSt => envOf x.1) (handleTurn (params H Pc kl)) q.x.srv guessed q.x.ts
        (s', none) more).1 := by
  obtain ⟨hshape, hkeys, hlate, hframes, hwf, hpn, hmask, hm5⟩ := hok
  have hpn0 := hpn
  obtain ⟨⟨hn1, hn4⟩, _⟩ := hpn
  have hlv : q.x.level = .initial ∨ (q.x.level = .handshake ∧ t.keyed = true) := by
    rcases hshape.level with h | h
    · exact Or.inl h
    · exact Or.inr ⟨h, hkeys h⟩
  obtain ⟨p1, p2, p3, p4, p5⟩ := hs_packet_step H Pc hl kl L dcid0 cr csel ch sh ca sa early sel hsel hkl t.keyed q.x hlv
    hlate hframes hwf rest s t.tc t.ts t.cc t.sc t.core hst hpn0 htr
  -- AEAD output length
  have hlawS : (hashOf H sel.hash).Lawful := by cases sel.hash <;> simp [hashOf, hl.sha256, hl.sha384]
  have hcases : (sel.alg = .aesgcm ∧ sel.keyLen = 16) ∨ (sel.alg = .aesgcm ∧ sel.keyLen = 32) ∨
      (sel.alg = .chachaPoly ∧ sel.keyLen = 32) ∨ (sel.alg = .aesccm ∧ sel.keyLen = 16) := by
    unfold selectSuite at hsel
    repeat' split at hsel
    all_goals first
      | (cases hsel; simp)
      | (simp at hsel)
  have hk255 : sel.keyLen ≤ 255 := by rcases hcases with h | h | h | h <;> omega
  have haead : AeadOk (lvlDec H dcid0 sel sh ch q.x.level).alg (lvlKey H dcid0 sel sh ch q.x.level q.x.srv).key.length
      (lvlKey H dcid0 sel sh ch q.x.level q.x.srv).iv.length 16 := by
    unfold lvlKey lvlDec
    rcases hshape.level with h | h
    · cases q.x.srv <;>
        simp [h, initDec, quicInitialServerKeys, quicInitialClientKeys, quicPacketKeys, quicKey_length _ hl.sha256,
          quicIv_length _ hl.sha256] <;> decide
    · cases q.x.srv <;> simp [h, hsDec, quicKey_length _ hlawS _ _ hk255, quicIv_length _ hlawS] <;>
        (rcases hcases with ⟨a, b⟩ | ⟨a, b⟩ | ⟨a, b⟩ | ⟨a, b⟩ <;> rw [a, b] <;> decide)
  generalize hkd : lvlKey H dcid0 sel sh ch q.x.level q.x.srv = kd at *
  generalize had : (lvlDec H dcid0 sel sh ch q.x.level).alg = ad at *
  have hlen : (protectedPayload L.aeadSeal ad kd q.x).length = (encodeAll q.x.frames).length + 16 := by
    unfold protectedPayload
    have hnl : (nonce kd.iv q.x.pn).length = kd.iv.length := by simp [nonce, Lemmas.QuicVarint.ofNatBE_length]
    exact L.seal_len _ _ _ _ _ _ (by rw [hnl]; exact haead)
  -- the dissector returns the sender's packet
  have hkey : (envOf s).keys (senderKey (ltypeOf q.x.level) q.x.srv) = some (lvlHp H dcid0 sel sh ch q.x.level q.x.srv) := by
    unfold lvlHp
    rcases hshape.level with h | h
    · cases hs : q.x.srv <;> simp [h, ltypeOf, senderKey, envOf, HpKeys.get, hst.inv.hpSI, hst.inv.hpCI]
    · have hk := hst.keyed (hkeys h)
      cases hs : q.x.srv <;> simp [h, ltypeOf, senderKey, envOf, HpKeys.get, hk.hpSH, hk.hpCH]
  have hextract : Dissect.extract maskFn (envOf s) q.x.srv guessed q.x.ts (pkWire H Pc L dcid0 sel sh ch q ++ more) =
      { pkts := [emit L.aeadSeal ad kd q.x], rest := more } := by
    have := C02Dissect.dissect_encode_long maskFn (envOf s) q.x.srv guessed q.x.ts
      (longOf q.x (protectedPayload L.aeadSeal ad kd q.x)) (longOf_wf _ _ hshape hn1 hn4 hlen)
      (by show q.x.version ≠ _; rw [hshape.version]; decide)
      (by show q.x.scid.length ≤ 63; have := hshape.scid; omega)
      (by show 20 ≤ (pnBytes q.x.pnLen q.x.pn).length + (protectedPayload L.aeadSeal ad kd q.x).length
          rw [pnBytes_length, hlen]; have := hshape.padded; omega)
      _ q.mask hkey
      (by rw [chachaOf_core, hst.core]; exact hmask) hm5 more
    rw [longOf_toPkt _ _ _ _ hshape hn1 hn4 hlen] at this
    unfold pkWire PkH.wire
    rw [hkd, had]
    exact this
  have hne : pkWire H Pc L dcid0 sel sh ch q ++ more ≠ [] := by
    unfold pkWire PkH.wire Long.protect applyMask; simp
  have p3' : HsSt H dcid0 sel ch sh ca sa (t.step q.x).keyed (stepPkt (params H Pc kl) s (emit L.aeadSeal ad kd q.x)).st
      (t.step q.x).tc (t.step q.x).ts (t.step q.x).cc (t.step q.x).sc (t.step q.x).core := by
    refine ⟨p3.inv, p3.nd, p3.core, p3.pc, p3.ps, p3.cc, p3.sc, ?_⟩
    intro hk
    simp only [Trk.step, Bool.or_eq_true, Bool.and_eq_true] at hk
    rcases hk with hk | ⟨hf, hni⟩
    · exact p3.keyed hk
    · exact p4 hf (by intro ⟨a, b⟩; simp [a, b] at hni)
  refine ⟨_, p3', p5, ?_⟩
  rw [Lemmas.QuicDissect.dissectLoop_cons _ _ _ _ _ _ _ _ hne]
  simp only [hextract]
  have hturn : handleTurn (params H Pc kl) (s, none) [emit L.aeadSeal ad kd q.x] =
      ((stepPkt (params H Pc kl) s (emit L.aeadSeal ad kd q.x)).st, none) := by
    unfold handleTurn
    simp only [handleQuicPackets, p1]
    congr 1
    exact stampVer_id _ p3.inv.ver
  rw [hturn]

end HsDatagram

section HsRun
variable (maskFn : Dissect.MaskFn) (H : Crypto.Prims) (Pc : Cipher.Prims) (info : Nat → Pipeline.Info)

def Trk.run (t : Trk) (qs : List PkH) : Trk := qs.foldl (fun t q => t.step q.x) t

/-- the CRYPTO inputs of a packet list, in processing order -/
def insOf (qs : List PkH) : List CryptoIn := qs.flatMap fun q => cryptoIns q.x

def HsPks (L : SealLaws Pc) (dcid0 : Bytes) (sel : SuiteSel) (sh ch : Bytes) : Trk → List PkH → Prop
  | _, [] => True
  | t, q :: qs => HsPkOk maskFn H Pc L dcid0 sel sh ch t q ∧ HsPks L dcid0 sel sh ch (t.step q.x) qs

def dgWire (L : SealLaws Pc) (dcid0 : Bytes) (sel : SuiteSel) (sh ch : Bytes) (d : DgH) : Bytes :=
  (d.pkts.map (pkWire H Pc L dcid0 sel sh ch)).flatten

theorem hs_loop (hl : H.Lawful) (kl : List Keylog.Key) (L : SealLaws Pc) (dcid0 cr csel ch sh ca sa : Bytes)
    (early : Option Bytes) (sel : SuiteSel) (hsel : selectSuite csel = some sel) (hkl : KeylogHas kl cr ch sh ca sa early)
    (srv : Bool) (ts : Nat) (guessed : Bytes) (qs : List PkH) (hdir : ∀ q ∈ qs, q.x.srv = srv ∧ q.x.ts = ts)
    (rest : List CryptoIn) (t : Trk) (s : St Tls)
    (hst : HsSt H dcid0 sel ch sh ca sa t.keyed s t.tc t.ts t.cc t.sc t.core)
    (hok : HsPks maskFn H Pc L dcid0 sel sh ch t qs) (htr : PTrace cr csel t.core (insOf qs ++ rest)) :
    ∃ s', HsSt H dcid0 sel ch sh ca sa (t.run qs).keyed s' (t.run qs).tc (t.run qs).ts (t.run qs).cc (t.run qs).sc
        (t.run qs).core ∧
      PTrace cr csel (t.run qs).core rest ∧
      (Dissect.dissectLoop maskFn (fun x : LoopSt => envOf x.1) (handleTurn (params H Pc kl)) srv guessed ts
        (s, none) ((qs.map (pkWire H Pc L dcid0 sel sh ch)).flatten)).1 = (s', none) := by
  induction qs generalizing t s with
  | nil => exact ⟨s, hst, htr, by simp [Lemmas.QuicDissect.dissectLoop_nil]⟩
  | cons q qs ih =>
    obtain ⟨hq, hqs⟩ := hok
    obtain ⟨hsv, hts⟩ := hdir q (List.mem_cons_self ..)
    have htr' : PTrace cr csel t.core (cryptoIns q.x ++ (insOf qs ++ rest)) := by
      simpa [insOf, List.flatMap_cons, List.append_assoc] using htr
    obtain ⟨s1, a1, a2, a3⟩ := hs_turn maskFn H Pc hl kl L dcid0 cr csel ch sh ca sa early sel hsel hkl t q hq _ s hst htr'
      guessed ((qs.map (pkWire H Pc L dcid0 sel sh ch)).flatten)
    rw [hsv, hts] at a3
    obtain ⟨s2, b1, b2, b3⟩ := ih (fun q' hq' => hdir q' (List.mem_cons_of_mem _ hq')) (t.step q.x) s1 a1 hqs a2
    refine ⟨s2, b1, b2, ?_⟩
    simp only [List.map_cons, List.flatten_cons]
    rw [a3, b3]

/-- the session states a handshake datagram may find: fresh (`QuicSession.__init__` just ran; then the datagram is the
    client's first Initial and `dcid` its Destination Connection ID), or in the handshake -/
theorem feedPre_fresh (kl : List Keylog.Key) (h32 : H.sha256.outLen = 32) (dcid0 : Bytes) (sel : SuiteSel)
    (ch sh ca sa : Bytes) :
    HsSt H dcid0 sel ch sh ca sa false (feedPre H (params H Pc kl) (St.init (params H Pc [])) dcid0 .v1) {} {} [] [] {} := by
  have hd : devInitial H .v1 dcid0 = some
      { clientKey := (quicInitialClientKeys H.sha256 dcid0).key, clientIv := (quicInitialClientKeys H.sha256 dcid0).iv,
        clientHp := (quicInitialClientKeys H.sha256 dcid0).hp, serverKey := (quicInitialServerKeys H.sha256 dcid0).key,
        serverIv := (quicInitialServerKeys H.sha256 dcid0).iv, serverHp := (quicInitialServerKeys H.sha256 dcid0).hp } := by
    unfold devInitial
    simp only [qver]
    rw [C15.quic_initial_eq_rfc _ h32]
  have hp : (params H Pc kl).devInitialKeys .v1 dcid0 = (devInitial H .v1 dcid0).map
      fun k => (⟨k.serverKey, k.serverIv⟩, ⟨k.clientKey, k.clientIv⟩) := rfl
  refine ⟨⟨?_, ?_, ?_, ?_, ?_, ?_, ?_, ?_, ?_, ?_⟩, ?_, ?_, ?_, ?_, ?_, ?_, by intro h; cases h⟩
  all_goals simp [feedPre, handlePacketPre, latchVersion, St.init, setInitialDecryptor, hp, hd, stampVer,
    HpKeys.withInitial, params, coreOf, initDec]

theorem feedPre_hs (P : Params Tls) (dcid0 dcid : Bytes) (s : St Tls) (hi : HsInv H dcid0 s) :
    feedPre H P s dcid .v1 = s := by
  have hl : latchVersion s .v1 = s := by unfold latchVersion; rw [hi.version]; simp
  have hn : s.decInitial.isNone = false := by rw [hi.init]; rfl
  unfold feedPre handlePacketPre
  simp only [hl, hn, Bool.false_eq_true, if_false]
  exact stampVer_id s hi.ver

end HsRun

section HsMachine
variable (maskFn : Dissect.MaskFn) (H : Crypto.Prims) (Pc : Cipher.Prims) (info : Nat → Pipeline.Info)

theorem packetIsServer_of_dcidOk (s : St Tls) (cc sc : List Bytes) (hcc : s.clientCids = cc) (hsc : s.serverCids = sc)
    (srv : Bool) (dcid : Bytes) (hcid : DcidOk cc sc srv dcid) : packetIsServer s (!srv) dcid = srv := by
  unfold packetIsServer
  unfold DcidOk at hcid
  rw [hcc, hsc]
  have hl : dcid.length > 0 ↔ dcid ≠ [] := List.length_pos_iff
  cases hs : srv <;> simp only [hs, Bool.false_eq_true, if_false, if_true] at hcid ⊢
  · by_cases h1 : dcid.length > 0 ∧ dcid ∈ sc ∧ dcid ∉ cc
    · simp [h1]
    · have h2 : ¬ (dcid.length > 0 ∧ dcid ∈ cc ∧ dcid ∉ sc) := by rw [hl]; exact hcid
      simp [h1, h2]
  · have h1 : ¬ (dcid.length > 0 ∧ dcid ∈ sc ∧ dcid ∉ cc) := by rw [hl]; exact hcid
    by_cases h2 : dcid.length > 0 ∧ dcid ∈ cc ∧ dcid ∉ sc <;> simp [h1, h2]

/-- the routing DCID the main loop reads off a long-header datagram: that of its first packet -/
def dgDcid (d : DgH) : Bytes :=
  match d.pkts with
  | q :: _ => q.x.dcid
  | [] => []

structure CarriesH (c : QConn) (w : DgH → Bytes) (p : MainLoop.Pkt) (d : DgH) : Prop where
  payload : p.payload = w d
  ts : (info p.tag).ts = d.ts
  dir : (p.src == c.client) = !d.srv

/-- one handshake datagram: its packets share direction and capture time, its DCID is not one only its sender issued, its
    packets are `HsPkOk` one after the other -/
def HsDgOk (L : SealLaws Pc) (dcid0 : Bytes) (sel : SuiteSel) (sh ch : Bytes) (t : Trk) (d : DgH) : Prop :=
  (∀ q ∈ d.pkts, q.x.srv = d.srv ∧ q.x.ts = d.ts) ∧ DcidOk t.cc t.sc d.srv (dgDcid d) ∧
  HsPks maskFn H Pc L dcid0 sel sh ch t d.pkts

theorem hs_feed_step (hl : H.Lawful) (kl : List Keylog.Key) (L : SealLaws Pc) (dcid0 cr csel ch sh ca sa : Bytes)
    (early : Option Bytes) (sel : SuiteSel) (hsel : selectSuite csel = some sel) (hkl : KeylogHas kl cr ch sh ca sa early)
    (t : Trk) (d : DgH) (hok : HsDgOk maskFn H Pc L dcid0 sel sh ch t d) (rest : List CryptoIn)
    (c : QConn) (hr : c.raised = none)
    (hpre : HsSt H dcid0 sel ch sh ca sa t.keyed (feedPre H (params H Pc kl) c.st (dgDcid d) .v1) t.tc t.ts t.cc t.sc t.core)
    (htr : PTrace cr csel t.core (insOf d.pkts ++ rest)) (p : MainLoop.Pkt)
    (hcar : CarriesH info c (dgWire H Pc L dcid0 sel sh ch) p d) :
    let c' := (quicMachine maskFn H Pc info).feed c kl p (dgDcid d) .v1
    c'.raised = none ∧
    HsSt H dcid0 sel ch sh ca sa (t.run d.pkts).keyed c'.st (t.run d.pkts).tc (t.run d.pkts).ts (t.run d.pkts).cc
      (t.run d.pkts).sc (t.run d.pkts).core ∧
    PTrace cr csel (t.run d.pkts).core rest ∧
    c'.opts = c.opts ∧ c'.server = c.server ∧ c'.client = c.client ∧ c'.serverMac = c.serverMac ∧
    c'.clientMac = c.clientMac ∧ c'.ipv6 = c.ipv6 := by
  obtain ⟨hdir, hcid, hpks⟩ := hok
  obtain ⟨w1, w2, w3⟩ := hcar
  have hsrv : packetIsServer (feedPre H (params H Pc kl) c.st (dgDcid d) .v1) (!d.srv) (dgDcid d) = d.srv :=
    packetIsServer_of_dcidOk _ _ _ hpre.cc hpre.sc _ _ hcid
  obtain ⟨s', a1, a2, a3⟩ := hs_loop maskFn H Pc hl kl L dcid0 cr csel ch sh ca sa early sel hsel hkl d.srv d.ts (dgDcid d)
    d.pkts hdir rest t _ hpre hpks htr
  have hfeed : (quicMachine maskFn H Pc info).feed c kl p (dgDcid d) .v1 = { c with st := s', raised := none } := by
    simp only [quicMachine, hr, sver]
    rw [w1, w2, w3]
    unfold handleDatagram
    simp only [hsrv]
    unfold dgWire
    rw [a3]
  intro c'
  have : c' = { c with st := s', raised := none } := hfeed
  rw [this]
  exact ⟨rfl, a1, a2, rfl, rfl, rfl, rfl, rfl, rfl⟩

/-- the handshake datagrams, each against the bookkeeping after the previous ones -/
def HsDgs (L : SealLaws Pc) (dcid0 : Bytes) (sel : SuiteSel) (sh ch : Bytes) : Trk → List DgH → Prop
  | _, [] => True
  | t, d :: ds => HsDgOk maskFn H Pc L dcid0 sel sh ch t d ∧ HsDgs L dcid0 sel sh ch (t.run d.pkts) ds

def Trk.runDgs (t : Trk) (ds : List DgH) : Trk := ds.foldl (fun t d => t.run d.pkts) t

def allIns (ds : List DgH) : List CryptoIn := ds.flatMap fun d => insOf d.pkts

/-- the main loop hands over the handshake datagrams (long headers: routing DCID of the first packet, version 1), each with
    the key log as it is then -/
def hsFeedAll (QM : MainLoop.QuicMachine Keylog.Key QConn Pipeline.OutPkt) (c : QConn) :
    List (List Keylog.Key × MainLoop.Pkt × DgH) → QConn
  | [] => c
  | (kl, p, d) :: rest => hsFeedAll QM (QM.feed c kl p (dgDcid d) .v1) rest

theorem hs_feed_rest (hl : H.Lawful) (L : SealLaws Pc) (dcid0 cr csel ch sh ca sa : Bytes)
    (early : Option Bytes) (sel : SuiteSel) (hsel : selectSuite csel = some sel)
    (items : List (List Keylog.Key × MainLoop.Pkt × DgH)) (hkl : ∀ x ∈ items, KeylogHas x.1 cr ch sh ca sa early)
    (t : Trk) (c : QConn) (hr : c.raised = none)
    (hst : HsSt H dcid0 sel ch sh ca sa t.keyed c.st t.tc t.ts t.cc t.sc t.core)
    (hok : HsDgs maskFn H Pc L dcid0 sel sh ch t (items.map (·.2.2)))
    (htr : PTrace cr csel t.core (allIns (items.map (·.2.2))))
    (hcar : ∀ x ∈ items, CarriesH info c (dgWire H Pc L dcid0 sel sh ch) x.2.1 x.2.2) :
    let c' := hsFeedAll (quicMachine maskFn H Pc info) c items
    let t' := t.runDgs (items.map (·.2.2))
    c'.raised = none ∧ HsSt H dcid0 sel ch sh ca sa t'.keyed c'.st t'.tc t'.ts t'.cc t'.sc t'.core ∧
    c'.opts = c.opts ∧ c'.server = c.server ∧ c'.client = c.client ∧ c'.serverMac = c.serverMac ∧
    c'.clientMac = c.clientMac ∧ c'.ipv6 = c.ipv6 := by
  induction items generalizing t c with
  | nil => exact ⟨hr, hst, rfl, rfl, rfl, rfl, rfl, rfl⟩
  | cons it rest ih =>
    obtain ⟨kl, p, d⟩ := it
    obtain ⟨hd, hds⟩ := hok
    have htr' : PTrace cr csel t.core (insOf d.pkts ++ allIns (rest.map (·.2.2))) := by
      simpa [allIns, List.flatMap_cons] using htr
    have hpre : feedPre H (params H Pc kl) c.st (dgDcid d) .v1 = c.st := feedPre_hs H _ dcid0 _ c.st hst.inv
    obtain ⟨b1, b2, b3, b4, b5, b6, b7, b8, b9⟩ := hs_feed_step maskFn H Pc info hl kl L dcid0 cr csel ch sh ca sa early sel
      hsel (hkl (kl, p, d) (List.mem_cons_self ..)) t d hd _ c hr (by rw [hpre]; exact hst) htr' p
      (hcar (kl, p, d) (List.mem_cons_self ..))
    obtain ⟨i1, i2, i3, i4, i5, i6, i7, i8⟩ := ih (fun x hx => hkl x (List.mem_cons_of_mem _ hx)) (t.run d.pkts) _ b1 b2 hds b3
      (fun x hx => by
        obtain ⟨u1, u2, u3⟩ := hcar x (List.mem_cons_of_mem _ hx)
        exact ⟨u1, u2, by rw [b6]; exact u3⟩)
    exact ⟨i1, i2, i3.trans b4, i4.trans b5, i5.trans b6, i6.trans b7, i7.trans b8, i8.trans b9⟩

end HsMachine

section HsFinal
variable (maskFn : Dissect.MaskFn) (H : Crypto.Prims) (Pc : Cipher.Prims) (info : Nat → Pipeline.Info)

/-- a keyed handshake state IS the state the 1-RTT theorem starts from -/
theorem est_of_hsSt (kl : List Keylog.Key) (dcid0 : Bytes) (sel : SuiteSel) (ch sh ca sa : Bytes) (s : St Tls)
    (tc ts : PnTab) (cc sc : List Bytes) (core : Tls)
    (h : HsSt H dcid0 sel ch sh ca sa true s tc ts cc sc core) :
    Est H Pc kl sel .v1 (rfcGen (hashOf H sel.hash) sel.keyLen sa ca 0)
      (quicHp (hashOf H sel.hash) ca sel.keyLen) (quicHp (hashOf H sel.hash) sa sel.keyLen) (chachaOf core)
      s 0 0 tc.app ts.app cc sc := by
  have k := h.keyed rfl
  refine ⟨⟨⟨k.suite, h.inv.version, ?_, h.inv.ec, h.inv.es, h.inv.lpc, h.inv.lps⟩, h.nd, ?_, ?_⟩, ?_, k.hpCA, k.hpSA, ?_,
    h.inv.ver, h.cc, h.sc⟩
  · rw [k.app]; rfl
  · rw [h.pc]
  · rw [h.ps]
  · rw [h.inv.init]; rfl
  · rw [← h.core]; rfl

/-- a fresh `QuicSession` object, as `quicMachine.new` returns it -/
def Fresh (c : QConn) : Prop := c.st = St.init (params H Pc []) ∧ c.raised = none

theorem new_fresh (o : MainLoop.Opts) (p : MainLoop.Pkt) : Fresh H Pc ((quicMachine maskFn H Pc info).new o p) :=
  ⟨rfl, rfl⟩

def trk0 : Trk := ⟨false, {}, {}, [], [], {}⟩

/-- **The handshake establishes the 1-RTT state.** From a fresh session through every handshake history of the spec
    (`HsDgs`: datagrams of coalesced Initial / Handshake packets of both directions, packet numbers in the RFC window per
    space and direction, RFC 9000 §12.4 frames, CIDs of any lengths incl. empty ones, Handshake packets only after the
    ServerHello), with the connection's key-log lines present at every `handle_packet` call and the LOCAL parser
    hypothesis `PTrace` on this history's CRYPTO inputs: nothing raises, nothing is exported without `-a`, and — if the
    keys were installed on the way (`keyed`: some server CRYPTO frame completed a hello) — the state satisfies `Est` with
    the RFC generation-0 keys, "quic hp" keys and the CIDs learned. -/
theorem quic_handshake_establishes (hl : H.Lawful) (h32 : H.sha256.outLen = 32) (L : SealLaws Pc)
    (cr csel ch sh ca sa : Bytes) (early : Option Bytes) (sel : SuiteSel) (hsel : selectSuite csel = some sel)
    (kl0 : List Keylog.Key) (p0 : MainLoop.Pkt) (d0 : DgH) (items : List (List Keylog.Key × MainLoop.Pkt × DgH))
    (hkl : ∀ x ∈ (kl0, p0, d0) :: items, KeylogHas x.1 cr ch sh ca sa early)
    (c : QConn) (hc : Fresh H Pc c)
    (hok : HsDgs maskFn H Pc L (dgDcid d0) sel sh ch trk0 (d0 :: items.map (·.2.2)))
    (htr : PTrace cr csel {} (allIns (d0 :: items.map (·.2.2))))
    (hcar : ∀ x ∈ (kl0, p0, d0) :: items, CarriesH info c (dgWire H Pc L (dgDcid d0) sel sh ch) x.2.1 x.2.2)
    (hkeyed : (trk0.runDgs (d0 :: items.map (·.2.2))).keyed = true) (kl : List Keylog.Key) :
    let c' := hsFeedAll (quicMachine maskFn H Pc info) c ((kl0, p0, d0) :: items)
    let t' := trk0.runDgs (d0 :: items.map (·.2.2))
    c'.raised = none ∧
    Est H Pc kl sel .v1 (rfcGen (hashOf H sel.hash) sel.keyLen sa ca 0)
      (quicHp (hashOf H sel.hash) ca sel.keyLen) (quicHp (hashOf H sel.hash) sa sel.keyLen) (chachaOf t'.core)
      c'.st 0 0 t'.tc.app t'.ts.app t'.cc t'.sc ∧
    (∀ o ∈ c'.st.out, UdpOut.exported false (frameOf o) = none) ∧
    c'.opts = c.opts ∧ c'.server = c.server ∧ c'.client = c.client ∧ c'.serverMac = c.serverMac ∧
    c'.clientMac = c.clientMac ∧ c'.ipv6 = c.ipv6 := by
  obtain ⟨hfresh, hr⟩ := hc
  obtain ⟨hd0, hds⟩ := hok
  have htr' : PTrace cr csel trk0.core (insOf d0.pkts ++ allIns (items.map (·.2.2))) := by
    simpa [allIns, List.flatMap_cons, trk0] using htr
  have hpre : HsSt H (dgDcid d0) sel ch sh ca sa trk0.keyed (feedPre H (params H Pc kl0) c.st (dgDcid d0) .v1)
      trk0.tc trk0.ts trk0.cc trk0.sc trk0.core := by
    rw [hfresh]; exact feedPre_fresh H Pc kl0 h32 (dgDcid d0) sel ch sh ca sa
  obtain ⟨b1, b2, b3, b4, b5, b6, b7, b8, b9⟩ := hs_feed_step maskFn H Pc info hl kl0 L (dgDcid d0) cr csel ch sh ca sa early
    sel hsel (hkl (kl0, p0, d0) (List.mem_cons_self ..)) trk0 d0 hd0 _ c hr hpre htr' p0
    (hcar (kl0, p0, d0) (List.mem_cons_self ..))
  obtain ⟨i1, i2, i3, i4, i5, i6, i7, i8⟩ := hs_feed_rest maskFn H Pc info hl L (dgDcid d0) cr csel ch sh ca sa early sel hsel
    items (fun x hx => hkl x (List.mem_cons_of_mem _ hx)) (trk0.run d0.pkts) _ b1 b2 hds b3
    (fun x hx => by
      obtain ⟨u1, u2, u3⟩ := hcar x (List.mem_cons_of_mem _ hx)
      exact ⟨u1, u2, by rw [b6]; exact u3⟩)
  intro c' t'
  have hc' : c' = hsFeedAll (quicMachine maskFn H Pc info)
      ((quicMachine maskFn H Pc info).feed c kl0 p0 (dgDcid d0) .v1) items := rfl
  have ht' : t' = (trk0.run d0.pkts).runDgs (items.map (·.2.2)) := rfl
  rw [hc', ht']
  rw [show (trk0.runDgs (d0 :: items.map (·.2.2))) = (trk0.run d0.pkts).runDgs (items.map (·.2.2)) from rfl] at hkeyed
  rw [hkeyed] at i2
  exact ⟨i1, est_of_hsSt H Pc kl _ sel ch sh ca sa _ _ _ _ _ _ i2, i2.inv.out, i3.trans b4, i4.trans b5, i5.trans b6,
    i6.trans b7, i7.trans b8, i8.trans b9⟩

/-- **C02 for a whole connection**: `quic_handshake_establishes`, then `quic_one_rtt_connection_exact`. From a fresh session,
    for every handshake history of the spec followed by every conformant 1-RTT history (`Send1`, starting from the
    bookkeeping the handshake left): nothing raises, and the export without `-a` is exactly one UDP frame per 1-RTT datagram
    that carried a STREAM frame, in capture order, with that datagram's STREAM data, capture time and direction.
    Hypotheses beyond the RFCs: the key-log lines present at every handshake `handle_packet` call; the LOCAL parser
    hypothesis `PTrace` for the handshake's CRYPTO inputs; no CRYPTO frames in 1-RTT packets. -/
theorem quic_connection_exact (hl : H.Lawful) (h32 : H.sha256.outLen = 32) (L : SealLaws Pc)
    (cr csel ch sh ca sa : Bytes) (early : Option Bytes) (sel : SuiteSel) (hsel : selectSuite csel = some sel)
    (ho : (hashOf H sel.hash).outLen < 65536)
    (hsa : sa.length = (hashOf H sel.hash).outLen) (hca : ca.length = (hashOf H sel.hash).outLen)
    (kl0 : List Keylog.Key) (p0 : MainLoop.Pkt) (d0 : DgH) (items : List (List Keylog.Key × MainLoop.Pkt × DgH))
    (hkl : ∀ x ∈ (kl0, p0, d0) :: items, KeylogHas x.1 cr ch sh ca sa early)
    (c : QConn) (hc : Fresh H Pc c)
    (hok : HsDgs maskFn H Pc L (dgDcid d0) sel sh ch trk0 (d0 :: items.map (·.2.2)))
    (htr : PTrace cr csel {} (allIns (d0 :: items.map (·.2.2))))
    (hcar : ∀ x ∈ (kl0, p0, d0) :: items, CarriesH info c (dgWire H Pc L (dgDcid d0) sel sh ch) x.2.1 x.2.2)
    (hkeyed : (trk0.runDgs (d0 :: items.map (·.2.2))).keyed = true)
    (items1 : List (List Keylog.Key × MainLoop.Pkt × Dg1))
    (hcar1 : ∀ x ∈ items1, Carries info c
      (wireOf H Pc L sel .v1 (rfcGen (hashOf H sel.hash) sel.keyLen sa ca 0)) x.2.1 x.2.2)
    (hsend : Send1 maskFn H Pc L sel .v1 (rfcGen (hashOf H sel.hash) sel.keyLen sa ca 0)
      (quicHp (hashOf H sel.hash) ca sel.keyLen) (quicHp (hashOf H sel.hash) sa sel.keyLen)
      (chachaOf (trk0.runDgs (d0 :: items.map (·.2.2))).core) 0 0
      (trk0.runDgs (d0 :: items.map (·.2.2))).tc.app (trk0.runDgs (d0 :: items.map (·.2.2))).ts.app
      (trk0.runDgs (d0 :: items.map (·.2.2))).cc (trk0.runDgs (d0 :: items.map (·.2.2))).sc (items1.map (·.2.2)))
    (htimes : ((items1.map (·.2.2)).map fun d => (d.x.ts, d.x.srv)).Pairwise (· ≠ ·)) :
    let QM := quicMachine maskFn H Pc info
    let c1 := hsFeedAll QM c ((kl0, p0, d0) :: items)
    (feedAll QM c1 items1).raised = none ∧
    QM.out false (feedAll QM c1 items1) = expectedOut c (items1.map (·.2.2)) := by
  intro QM c1
  obtain ⟨e1, e2, e3, e4, e5, e6, e7, e8, e9⟩ := quic_handshake_establishes maskFn H Pc info hl h32 L cr csel ch sh ca sa early
    sel hsel kl0 p0 d0 items hkl c hc hok htr hcar hkeyed []
  have hk := keysWf_rfc H hl Pc [] csel sel hsel .v1 ho sa ca hsa hca
  obtain ⟨r1, r2⟩ := quic_one_rtt_connection_exact maskFn H Pc info [] L sel .v1 _ _ _ _ hk items1 c1 0 0 _ _ _ _ e1 e2 e3
    (fun x hx => by
      obtain ⟨u1, u2, u3⟩ := hcar1 x hx
      exact ⟨u1, u2, by rw [show c1.client = c.client from e6]; exact u3⟩)
    hsend htimes
  refine ⟨r1, ?_⟩
  rw [r2]
  unfold expectedOut
  rw [addressed_congr c c1 e4 e5 e6 e7 e8 e9]

end HsFinal
/-! ### the local parser hypothesis is satisfiable: a conformant handshake's messages through the concrete `QuicTlsSession` -/

namespace ExHs
open TLX.Props.C02Pipeline
def crB : Bytes := List.replicate 32 0x5a
/-- ClientHello: legacy_version, random, empty session id, one suite 0x1301, null compression, empty extension list -/
def chMsg : Bytes := [1, 0, 0, 43, 3, 3] ++ crB ++ [0, 0, 2, 0x13, 0x01, 1, 0, 0, 0]
/-- ServerHello: random, empty session-id echo, suite 0x1301, empty extension list -/
def shMsg : Bytes := [2, 0, 0, 40, 3, 3] ++ List.replicate 32 0x77 ++ [0, 0x13, 0x01, 0, 0, 0]
def eeFin : Bytes := [8, 0, 0, 2, 0, 0, 20, 0, 0, 1, 0xaa]
def finMsg : Bytes := [20, 0, 0, 1, 0xbb]

def ins : List CryptoIn :=
  [⟨false, .initial, 0, 47, chMsg⟩, ⟨true, .initial, 0, 44, shMsg⟩, ⟨true, .handshake, 0, 11, eeFin⟩,
   ⟨false, .handshake, 0, 5, finMsg⟩]

/-- the ClientHello alone: no raise -/
theorem u1 : (tlsUpdate {} ⟨false, .initial, 0, 47, chMsg⟩).2 = none := by
  unfold tlsUpdate
  simp only [ptOf]
  unfold CryptoStream.update CryptoStream.handleBuffer
  simp only [CryptoStream.handleBufferGo, Lemmas.CryptoStream.msgLoop_eq_len]
  simp [CryptoStream.State.set, CryptoStream.State.init, CryptoStream.absorb, CryptoStream.sortByOffset,
    CryptoStream.insertSorted, CryptoStream.pass, CryptoStream.removeFrame, Lemmas.CryptoStream.msgLoopF, Bytes.beNat,
    Bytes.slice, chMsg, crB, recordRaises, TlsMsgs.handleRecord, TlsMsgs.handleClientHello, TlsMsgs.chBody,
    TlsMsgs.extsThenNewData, TlsMsgs.getExtensions, parseExts_nil, TlsMsgs.applyExts]

/-- `PTrace` for ClientHello (client Initial), ServerHello (server Initial), EncryptedExtensions ‖ Finished (server Handshake),
    Finished (client Handshake): by evaluation of `CryptoStream` + `TlsMsgs` -/
theorem ptrace_ex : PTrace crB [0x13, 0x01] {} ins := by
  simp only [ins, PTrace]
  unfold tlsUpdate
  simp only [ptOf, clearND]
  unfold CryptoStream.update CryptoStream.handleBuffer
  simp only [CryptoStream.handleBufferGo, Lemmas.CryptoStream.msgLoop_eq_len]
  simp [CryptoStream.State.set, CryptoStream.State.init, CryptoStream.absorb, CryptoStream.sortByOffset,
    CryptoStream.insertSorted, CryptoStream.pass, CryptoStream.removeFrame, Lemmas.CryptoStream.msgLoopF, Bytes.beNat,
    Bytes.slice, chMsg, shMsg, eeFin, finMsg, crB, recordRaises, feedRecords, TlsMsgs.handleRecord,
    TlsMsgs.handleClientHello, TlsMsgs.chBody, TlsMsgs.handleServerHello, TlsMsgs.handleEncryptedExtensions,
    TlsMsgs.extsThenNewData, TlsMsgs.getExtensions, parseExts_nil, TlsMsgs.applyExts]

/-- … and the ServerHello input fires (`new_data`): the keys get installed while the server Initial is handled -/
theorem fired_ex : pfired (pfold {} [⟨false, .initial, 0, 47, chMsg⟩]) [⟨true, .initial, 0, 44, shMsg⟩] = true := by
  simp only [pfired, pfold, List.foldl]
  unfold tlsUpdate
  simp only [ptOf, clearND]
  unfold CryptoStream.update CryptoStream.handleBuffer
  simp only [CryptoStream.handleBufferGo, Lemmas.CryptoStream.msgLoop_eq_len]
  simp [CryptoStream.State.set, CryptoStream.State.init, CryptoStream.absorb, CryptoStream.sortByOffset,
    CryptoStream.insertSorted, CryptoStream.pass, CryptoStream.removeFrame, Lemmas.CryptoStream.msgLoopF, Bytes.beNat,
    Bytes.slice, chMsg, shMsg, crB, recordRaises, feedRecords, TlsMsgs.handleRecord,
    TlsMsgs.handleClientHello, TlsMsgs.chBody, TlsMsgs.handleServerHello,
    TlsMsgs.extsThenNewData, TlsMsgs.getExtensions, parseExts_nil, TlsMsgs.applyExts]
end ExHs
open TLX.Props.C02Pipeline TLX.Quic.CryptoStream TLX.Lemmas.CryptoStream TLX.Spec.TlsHandshakeFraming
open TLX.Spec.TlsHello TLX.Lemmas.TlsHello

/-! ## discharging the local parser hypothesis `PTrace` for conformant handshakes -/

section Reassembly

/-- no byte buffer of the parser holds a whole message (true whenever `handle_record` never raised) -/
def AllDrained (fr : CryptoStream.State) : Prop := ∀ k, Drained recordRaises (fr.ks k).buf

theorem allDrained_init : AllDrained CryptoStream.State.init := fun _ => drained_nil _

/-- the CRYPTO frame object `update_session` gets for an input -/
def frameOfIn (id : Nat) (c : CryptoIn) : CFrame := ⟨id, c.offset, c.data, c.length⟩

/-- `update_session` when no other buffer holds a whole message: only the frame's own space moves (`kstep`) -/
theorem tlsUpdate_kstep (t : Tls) (c : CryptoIn) (pt : PT) (hpt : ptOf c.ptype = some pt) (hd : AllDrained t.frames) :
    tlsUpdate t c =
      ({ t with frames := t.frames.set (c.isServer, pt)
                  (kstep recordRaises (t.frames.ks (c.isServer, pt)) (frameOfIn t.nextId c)).1,
                msgs := feedRecords t.msgs (kstep recordRaises (t.frames.ks (c.isServer, pt)) (frameOfIn t.nextId c)).2.1,
                nextId := t.nextId + 1 },
       if (kstep recordRaises (t.frames.ks (c.isServer, pt)) (frameOfIn t.nextId c)).2.2 then some .index else none) := by
  unfold tlsUpdate
  simp only [hpt]
  have := update_own_space recordRaises t.frames (c.isServer, pt) (frameOfIn t.nextId c) (fun q _ => hd _)
  unfold frameOfIn at this ⊢
  rw [this]

theorem implFrame_take_prefix (frs : List Bytes) (j : Nat) :
    implFrame (frs.take j).flatten <+: implFrame frs.flatten := by
  have h : frs.flatten = (frs.take j).flatten ++ (frs.drop j).flatten := by
    rw [← List.flatten_append, List.take_append_drop]
  rw [h, (msgLoop_append _ _).1]
  exact List.prefix_append _ _

/-- what `PTrace` demands of the parser state after an input of direction `srv` and packet type `ptype` that left `new_data` set -/
def TCond (cr csel : Bytes) (srv : Bool) (ptype : PType) (st : TlsMsgs.State) : Prop :=
  st.clientRandom = some cr ∧ ∃ cs, st.ciphersuite = some cs ∧ (¬ (srv = false ∧ ptype = .initial) → cs = csel)

/-- the wire view of an input -/
def wireIn (c : CryptoIn) : Wire := (c.offset, c.data, c.length)

theorem idsOK_snoc (D : List CFrame) (f : CFrame) (h : IdsOK D) (hlt : ∀ g ∈ D, g.id < f.id) : IdsOK (D ++ [f]) := by
  intro a ha b hb hab
  rcases List.mem_append.mp ha with ha1 | ha1
  · rcases List.mem_append.mp hb with hb1 | hb1
    · exact h a ha1 b hb1 hab
    · simp only [List.mem_singleton] at hb1; rw [hb1] at hab; have := hlt a ha1; omega
  · rcases List.mem_append.mp hb with hb1 | hb1
    · simp only [List.mem_singleton] at ha1; rw [ha1] at hab; have := hlt b hb1; omega
    · simp only [List.mem_singleton] at ha1 hb1; rw [ha1, hb1]

/-- ONE PHASE of a handshake: CRYPTO inputs of one (direction, packet type) space that are fragments of a cut `frs` of that
    space's stream, in any order, duplicates allowed, interleaved with nothing else. If `handle_record` raises on no message
    of the stream and the message effects satisfy `hMI` (an invariant `MI` indexed by the messages handed on so far), then
    `PTrace` for these inputs followed by `rest` reduces to `PTrace` for `rest` from any state the phase can end in. -/
theorem ptrace_phase (cr csel : Bytes) (srv : Bool) (ptype : PType) (pt : PT) (hpt : ptOf ptype = some pt)
    (frs : List Bytes) (hne : ∀ c ∈ frs, c ≠ [])
    (hnr : ∀ m ∈ implFrame frs.flatten, recordRaises m = false)
    (MI : List Bytes → TlsMsgs.State → Prop)
    (hMI : ∀ cum new st, cum ++ new <+: implFrame frs.flatten → MI cum st → st.newData = false →
      MI (cum ++ new) { feedRecords st new with newData := false } ∧
      ((feedRecords st new).newData = true → TCond cr csel srv ptype (feedRecords st new)))
    (rest : List CryptoIn) (ins : List CryptoIn)
    (hins : ∀ c ∈ ins, c.isServer = srv ∧ c.ptype = ptype ∧
      ∃ i, frs[i]? = some c.data ∧ c.offset = bnd frs i ∧ c.length = c.data.length)
    (t : Tls) (D : List CFrame) (cum : List Bytes)
    (hd : AllDrained t.frames) (hinv : Inv frs D (t.frames.ks (srv, pt)) cum)
    (hids : ∀ g ∈ D, g.id < t.nextId) (hidsok : IdsOK D) (hmi : MI cum t.msgs) (hnd : t.msgs.newData = false)
    (hcont : ∀ (t' : Tls) (D' : List CFrame) (cum' : List Bytes), AllDrained t'.frames →
      Inv frs D' (t'.frames.ks (srv, pt)) cum' → (∀ g ∈ D', g.id < t'.nextId) → IdsOK D' → MI cum' t'.msgs →
      t'.msgs.newData = false → (∀ k', k' ≠ (srv, pt) → t'.frames.ks k' = t.frames.ks k') →
      D'.map C02Crypto.wire = D.map C02Crypto.wire ++ ins.map wireIn → t' = pfold t ins → PTrace cr csel t' rest) :
    PTrace cr csel t (ins ++ rest) := by
  induction ins generalizing t D cum with
  | nil => exact hcont t D cum hd hinv hids hidsok hmi hnd (fun _ _ => rfl) (by simp) rfl
  | cons c ins ih =>
    obtain ⟨hsrv, hpty, i, hi1, hi2, hi3⟩ := hins c (List.mem_cons_self ..)
    have hpt' : ptOf c.ptype = some pt := by rw [hpty]; exact hpt
    have hfrag : IsFrag frs (frameOfIn t.nextId c) := ⟨i, hi1, hi2, hi3⟩
    have hidsok' : IdsOK (D ++ [frameOfIn t.nextId c]) := idsOK_snoc D _ hidsok hids
    have hstep := inv_step frs hne D (t.frames.ks (srv, pt)) cum (frameOfIn t.nextId c) hinv hfrag hidsok'
    -- the new messages are part of the stream's messages
    have hpre : cum ++ (kstep never (t.frames.ks (srv, pt)) (frameOfIn t.nextId c)).2.1 <+: implFrame frs.flatten := by
      obtain ⟨⟨j, _, _, hm, _⟩, _⟩ := hstep
      rw [hm]; exact implFrame_take_prefix frs j
    have hnew : ∀ m ∈ (kstep never (t.frames.ks (srv, pt)) (frameOfIn t.nextId c)).2.1, recordRaises m = false :=
      fun m hm => hnr m (hpre.subset (List.mem_append_right _ hm))
    have hk : kstep recordRaises (t.frames.ks (srv, pt)) (frameOfIn t.nextId c) =
        kstep never (t.frames.ks (srv, pt)) (frameOfIn t.nextId c) := by
      simp only [kstep]
      rw [msgLoop_noraise recordRaises _ hnew]
    have hup := tlsUpdate_kstep t c pt hpt' hd
    rw [hsrv, hk] at hup
    have hraised : (kstep never (t.frames.ks (srv, pt)) (frameOfIn t.nextId c)).2.2 = false := by
      simp only [kstep]; exact msgLoop_never_raised _
    rw [hraised] at hup
    simp only [Bool.false_eq_true, if_false] at hup
    obtain ⟨m1, m2⟩ := hMI cum _ t.msgs hpre hmi hnd
    -- drained afterwards
    have hd' : AllDrained (t.frames.set (srv, pt) (kstep never (t.frames.ks (srv, pt)) (frameOfIn t.nextId c)).1) := by
      have hown := update_own_space recordRaises t.frames (srv, pt) (frameOfIn t.nextId c) (fun q _ => hd _)
      have := C02Crypto.update_keeps_drained recordRaises t.frames (srv, pt) (frameOfIn t.nextId c) hd
        (by rw [hown, hk]; exact hraised)
      rw [hown, hk] at this
      exact this
    show PTrace cr csel t (c :: (ins ++ rest))
    unfold PTrace
    rw [hup]
    refine ⟨rfl, ?_, ?_⟩
    · intro hn
      obtain ⟨q1, cs, q2, q3⟩ := m2 hn
      exact ⟨q1, cs, q2, fun hh => q3 (by rw [← hsrv, ← hpty]; exact hh)⟩
    · apply ih (fun c' hc' => hins c' (List.mem_cons_of_mem _ hc')) _ (D ++ [frameOfIn t.nextId c])
        (cum ++ (kstep never (t.frames.ks (srv, pt)) (frameOfIn t.nextId c)).2.1)
      · exact hd'
      · simpa [clearND, State.set] using hstep
      · intro g hg
        simp only [clearND]
        rcases List.mem_append.mp hg with hg | hg
        · have := hids g hg; omega
        · simp only [List.mem_singleton] at hg; subst hg; simp [frameOfIn]
      · exact hidsok'
      · simpa [clearND] using m1
      · simp [clearND]
      · intro t' D' cum' a1 a2 a3 a4 a5 a6 a7 a8 a9
        apply hcont t' D' cum' a1 a2 a3 a4 a5 a6
        · intro k' hk'
          rw [a7 k' hk']
          simp [clearND, State.set, hk']
        · rw [a8]; simp [C02Crypto.wire, frameOfIn, wireIn]
        · rw [a9]
          show _ = pfold (clearND (tlsUpdate t c).1) ins
          rw [hup]

end Reassembly
section Messages

/-- a handshake message with a non-empty body at the head of a buffer is handed on whole; the loop goes on behind it -/
theorem msgLoop_handshake_cons (t : Nat) (body rest : Bytes) (hb : body ≠ []) (hl : body.length < 16777216) :
    implFrame (handshake t body ++ rest) = handshake t body :: implFrame rest ∧
    rem (handshake t body ++ rest) = rem rest := by
  have hlen : (handshake t body).length = 4 + body.length := handshake_length t body
  have hpos : 0 < body.length := List.length_pos_iff.mpr hb
  have hn : Bytes.beNat (Bytes.slice (handshake t body ++ rest) 1 4) = body.length := by
    rw [slice14_append _ _ (by omega)]; exact handshake_lenfield t body hl
  unfold implFrame rem
  rw [msgLoop]
  simp only [List.length_append, hlen, hn]
  rw [if_neg (by omega), if_neg (by omega)]
  have ht : (handshake t body ++ rest).take (4 + body.length) = handshake t body := by
    rw [← hlen]; simp
  have hd : (handshake t body ++ rest).drop (4 + body.length) = rest := by
    rw [← hlen]; simp
  simp [ht, hd, never]

theorem implFrame_nil : implFrame [] = [] ∧ rem [] = [] := by
  unfold implFrame rem; rw [msgLoop_short never [] (by simp)]; exact ⟨rfl, rfl⟩

end Messages

section Conformant
open TLX.Quic.TlsMsgs

theorem feed_one (T : Nat) (hT : T < 256) (body : Bytes) (st : TlsMsgs.State) :
    feedRecords st [handshake T body] = (handleRecord st T (handshake T body)).1 := by
  have : handshake T body = UInt8.ofNat T :: (u24 body.length ++ body) := by
    simp [handshake, u8_eq]
  simp only [feedRecords, List.foldl_cons, List.foldl_nil]
  rw [this]
  simp [Nat.mod_eq_of_lt hT]

theorem raises_one (T : Nat) (hT : T < 256) (body : Bytes) :
    recordRaises (handshake T body) = (handleRecord {} T (handshake T body)).2.isSome := by
  have : handshake T body = UInt8.ofNat T :: (u24 body.length ++ body) := by
    simp [handshake, u8_eq]
  unfold recordRaises
  rw [this]
  simp [Nat.mod_eq_of_lt hT]

theorem helloType_other (T : Nat) (hT : T < 256) (h1 : T ≠ 1) (h2 : T ≠ 2) (h8 : T ≠ 8) (body : Bytes) :
    helloType (handshake T body) = false := by
  have : handshake T body = UInt8.ofNat T :: (u24 body.length ++ body) := by
    simp [handshake, u8_eq]
  rw [this]
  simp only [helloType, Bool.or_eq_false_iff, beq_eq_false_iff_ne]
  refine ⟨⟨?_, ?_⟩, ?_⟩ <;> (intro h; have := congrArg UInt8.toNat h; simp [Nat.mod_eq_of_lt hT] at this; omega)

/-- a conformant handshake's TLS side: the messages (RFC 8446 encoders of `Spec/TlsHello.lean`) and how their CRYPTO streams
    are cut and delivered -/
structure ConfHs where
  ch : ClientHello
  sh : ServerHello
  shExts : List Ext
  /-- EncryptedExtensions -/
  ee : List Ext
  /-- bodies of Certificate, CertificateVerify, server Finished, client Finished -/
  cert : Bytes
  cv : Bytes
  sfin : Bytes
  cfin : Bytes
  /-- the ClientHello cut into the fragments the client's Initial packets carry, and the CRYPTO frames as delivered:
      every fragment at least once, in any order, exact duplicates allowed -/
  chFrs : List Bytes
  chDl : List Wire
  chDups : List Wire
  /-- the server's Handshake flight cut into the fragments of its CRYPTO frames, delivered in stream order -/
  sFrs : List Bytes

def ConfHs.flight (h : ConfHs) : Bytes :=
  encodeEncryptedExtensions h.ee ++ (handshake 11 h.cert ++ (handshake 15 h.cv ++ handshake 20 h.sfin))

structure ConfHs.Ok (h : ConfHs) : Prop where
  ch : h.ch.WellFormed
  sh : h.sh.WellFormed
  shE : h.sh.extensions = some h.shExts
  ee : extsWf h.ee
  cert : h.cert ≠ [] ∧ h.cert.length < 16777216
  cv : h.cv ≠ [] ∧ h.cv.length < 16777216
  sfin : h.sfin ≠ [] ∧ h.sfin.length < 16777216
  cfin : h.cfin ≠ [] ∧ h.cfin.length < 16777216
  chCut : IsCut (encodeClientHello h.ch) h.chFrs
  chPerm : h.chDl.Perm (framesOf 0 h.chFrs ++ h.chDups)
  chDupsOk : ∀ d ∈ h.chDups, d ∈ framesOf 0 h.chFrs
  sCut : IsCut h.flight h.sFrs

def inOf (srv : Bool) (pt : PType) (w : Wire) : CryptoIn := ⟨srv, pt, w.1, w.2.2, w.2.1⟩

/-- the CRYPTO inputs of the handshake in processing order: ClientHello fragments (client Initial), ServerHello (server
    Initial), the server's flight (server Handshake), the client's Finished (client Handshake) -/
def ConfHs.ins (h : ConfHs) : List CryptoIn :=
  h.chDl.map (inOf false .initial) ++
  ([inOf true .initial (0, encodeServerHello h.sh, (encodeServerHello h.sh).length)] ++
   ((framesOf 0 h.sFrs).map (inOf true .handshake) ++
    [inOf false .handshake (0, handshake 20 h.cfin, (handshake 20 h.cfin).length)]))

theorem inv_complete (frs : List Bytes) (D : List CFrame) (s : KState) (cum : List Bytes) (hinv : Inv frs D s cum)
    (hd : C02Crypto.Delivery frs D) : cum = implFrame frs.flatten := by
  obtain ⟨⟨j, hj, hoff, hmsgs, _⟩, _, _, hne, hkept⟩ := hinv
  have hjm : j = frs.length := by
    false_or_by_contra
    rename_i hlt
    obtain ⟨f, hf, hfo⟩ := C02Crypto.delivery_complete hd j (by omega)
    exact hne f (hkept f hf (by rw [hfo, hoff]; exact Nat.le_refl _)) (by rw [hfo, hoff])
  subst hjm
  rw [hmsgs, List.take_length]

theorem phase_inputs_ok (srv : Bool) (pt : PType) (frs : List Bytes) (ws : List Wire)
    (h : ∀ w ∈ ws, w ∈ framesOf 0 frs) :
    ∀ c ∈ ws.map (inOf srv pt), c.isServer = srv ∧ c.ptype = pt ∧
      ∃ i, frs[i]? = some c.data ∧ c.offset = bnd frs i ∧ c.length = c.data.length := by
  intro c hc
  obtain ⟨w, hw, rfl⟩ := List.mem_map.mp hc
  obtain ⟨i, d, hi, he⟩ := (C02Crypto.mem_framesOf 0 frs w).mp (h w hw)
  refine ⟨rfl, rfl, i, ?_, ?_, ?_⟩ <;> simp [inOf, he, hi]

theorem wireIn_inOf (srv : Bool) (pt : PType) (ws : List Wire) : (ws.map (inOf srv pt)).map wireIn = ws := by
  induction ws with
  | nil => rfl
  | cons w ws ih => simp [inOf, wireIn, ih]

theorem isCut_single (M : Bytes) (h : M ≠ []) : IsCut M [M] := ⟨by simp [h], by simp⟩

theorem handshake_ne_nil (T : Nat) (b : Bytes) : handshake T b ≠ [] := by
  intro h; have := congrArg List.length h; rw [handshake_length] at this; simp at this

theorem prefix_single {α : Type} (cum new : List α) (m : α) (h : cum ++ new <+: [m]) :
    new = [] ∨ (cum = [] ∧ new = [m]) := by
  obtain ⟨r, hr⟩ := h
  cases new with
  | nil => exact Or.inl rfl
  | cons a new' =>
    right
    cases cum with
    | nil =>
      simp only [List.nil_append, List.cons_append, List.cons.injEq] at hr
      obtain ⟨rfl, h2⟩ := hr
      have : new' = [] := by cases new' <;> simp_all
      subst this; exact ⟨rfl, rfl⟩
    | cons b cum' =>
      simp only [List.cons_append, List.cons.injEq] at hr
      have := hr.2
      simp at this

theorem clear_id (st : TlsMsgs.State) (h : st.newData = false) : { st with newData := false } = st := by
  cases st; simp_all

theorem encodeExts_body (es : List Ext) (h : extsWf es) : encodeExts es ≠ [] ∧ (encodeExts es).length < 16777216 := by
  have hl : (encodeExts es).length = 2 + (extsPayload es).length := by
    simp only [encodeExts, vec16, List.length_append, u16_length]
  constructor
  · intro he; rw [he] at hl; simp at hl; omega
  · have := h.2; omega

theorem flight_msgs (h : ConfHs) (hok : h.Ok) :
    implFrame h.flight = [encodeEncryptedExtensions h.ee, handshake 11 h.cert, handshake 15 h.cv, handshake 20 h.sfin] := by
  obtain ⟨e1, e2⟩ := encodeExts_body h.ee hok.ee
  unfold ConfHs.flight encodeEncryptedExtensions
  rw [(msgLoop_handshake_cons 8 _ _ e1 e2).1, (msgLoop_handshake_cons 11 _ _ hok.cert.1 hok.cert.2).1,
    (msgLoop_handshake_cons 15 _ _ hok.cv.1 hok.cv.2).1]
  have := (msgLoop_handshake_cons 20 h.sfin [] hok.sfin.1 hok.sfin.2).1
  rw [List.append_nil, implFrame_nil.1] at this
  rw [this]

theorem single_msgs (T : Nat) (b : Bytes) (h1 : b ≠ []) (h2 : b.length < 16777216) :
    implFrame [handshake T b].flatten = [handshake T b] := by
  have := (msgLoop_handshake_cons T b [] h1 h2).1
  rw [List.append_nil, implFrame_nil.1] at this
  simpa using this

theorem ch_body (ch : ClientHello) (h : ch.WellFormed) : ch.body ≠ [] ∧ ch.body.length < 16777216 := by
  refine ⟨?_, h.2.2.2.2.2.2.2.2.2⟩
  intro he
  have := congrArg List.length he
  simp only [ClientHello.body, List.length_append, h.1] at this
  simp at this

theorem sh_body (sh : ServerHello) (h : sh.WellFormed) : sh.body ≠ [] ∧ sh.body.length < 16777216 := by
  refine ⟨?_, h.2.2.2.2.2⟩
  intro he
  have := congrArg List.length he
  simp only [ServerHello.body, List.length_append, h.1] at this
  simp at this

/-- the effect of the messages of the server's flight and of the client's Finished on the attributes the session reads -/
theorem feed_flight (h : ConfHs) (hok : h.Ok) (cr csel : Bytes) (new : List Bytes)
    (hnew : ∀ m ∈ new, m = encodeEncryptedExtensions h.ee ∨ ∃ T b, m = handshake T b ∧ T < 256 ∧ T ≠ 1 ∧ T ≠ 2 ∧ T ≠ 8)
    (st : TlsMsgs.State) (h1 : st.clientRandom = some cr) (h2 : st.ciphersuite = some csel) :
    (feedRecords st new).clientRandom = some cr ∧ (feedRecords st new).ciphersuite = some csel := by
  induction new generalizing st with
  | nil => exact ⟨h1, h2⟩
  | cons m new ih =>
    have hrest := fun x hx => hnew x (List.mem_cons_of_mem _ hx)
    have hstep : feedRecords st (m :: new) = feedRecords (feedRecords st [m]) new := by
      simp [feedRecords]
    rw [hstep]
    rcases hnew m (List.mem_cons_self ..) with rfl | ⟨T, b, rfl, hT, n1, n2, n8⟩
    · obtain ⟨q1, q2, q3, _⟩ := C02Hello.encrypted_extensions_parsed h.ee hok.ee st
      have : feedRecords st [encodeEncryptedExtensions h.ee] = { extsEffect st h.ee with newData := true } := by
        unfold encodeEncryptedExtensions at q1 ⊢
        rw [feed_one 8 (by decide), q1]
      rw [this]
      exact ih hrest _ (by simpa using q2.trans h1) (by simpa using q3.trans h2)
    · have : feedRecords st [handshake T b] = st := by
        rw [feed_one T hT]
        have hh := helloType_other T hT n1 n2 n8 b
        have hm : handshake T b = UInt8.ofNat T :: (u24 b.length ++ b) := by simp [handshake, u8_eq]
        have := handleRecord_not_hello st (handshake T b) hh (UInt8.ofNat T) _ hm
        simp [Nat.mod_eq_of_lt hT] at this
        rw [this]
      rw [this]
      exact ih hrest st h1 h2

/-- **`PTrace` holds for conformant handshakes.** ClientHello (RFC 8446 encoder; any session id, suite list, extensions)
    delivered as one CRYPTO frame or as ANY cut into fragments in ANY order with duplicates; ServerHello in one frame;
    EncryptedExtensions ‖ Certificate ‖ CertificateVerify ‖ Finished over any in-order cut; the client's Finished: the
    concrete `QuicTlsSession` never raises, and `new_data` comes with the ClientHello's random and — from the ServerHello
    on — the selected suite. By `client_hello_parsed`, `server_hello_parsed`, `encrypted_extensions_parsed`, the `Inv` of
    the CRYPTO reassembly (any order), `update_own_space` / `update_keeps_drained` (the spaces do not disturb each other). -/
theorem ptrace_of_conformant (h : ConfHs) (hok : h.Ok) :
    PTrace h.ch.random h.sh.cipherSuite {} h.ins := by
  obtain ⟨cb1, cb2⟩ := ch_body h.ch hok.ch
  obtain ⟨sb1, sb2⟩ := sh_body h.sh hok.sh
  -- facts about the four streams
  have hM1 : implFrame h.chFrs.flatten = [encodeClientHello h.ch] := by
    rw [hok.chCut.2]
    have := single_msgs 1 h.ch.body cb1 cb2
    simp only [List.flatten_cons, List.flatten_nil, List.append_nil] at this
    exact this
  have hM2 : implFrame [encodeServerHello h.sh].flatten = [encodeServerHello h.sh] := single_msgs 2 _ sb1 sb2
  have hM3 : implFrame h.sFrs.flatten =
      [encodeEncryptedExtensions h.ee, handshake 11 h.cert, handshake 15 h.cv, handshake 20 h.sfin] := by
    rw [hok.sCut.2]; exact flight_msgs h hok
  have hM4 : implFrame [handshake 20 h.cfin].flatten = [handshake 20 h.cfin] := single_msgs 20 _ hok.cfin.1 hok.cfin.2
  have r1 : recordRaises (encodeClientHello h.ch) = false := by
    unfold encodeClientHello
    rw [raises_one 1 (by decide)]
    obtain ⟨s', e, _⟩ := C02Hello.client_hello_parsed h.ch hok.ch {}
    unfold encodeClientHello at e; rw [e]; rfl
  have r2 : recordRaises (encodeServerHello h.sh) = false := by
    unfold encodeServerHello
    rw [raises_one 2 (by decide)]
    obtain ⟨s', e, _⟩ := C02Hello.server_hello_parsed h.sh hok.sh h.shExts hok.shE {}
    unfold encodeServerHello at e; rw [e]; rfl
  have r8 : recordRaises (encodeEncryptedExtensions h.ee) = false := by
    unfold encodeEncryptedExtensions
    rw [raises_one 8 (by decide)]
    have e := (C02Hello.encrypted_extensions_parsed h.ee hok.ee {}).1
    unfold encodeEncryptedExtensions at e; rw [e]; rfl
  have rO : ∀ T b, T < 256 → T ≠ 1 → T ≠ 2 → T ≠ 8 → recordRaises (handshake T b) = false :=
    fun T b hT n1 n2 n8 => recordRaises_not_hello _ (helloType_other T hT n1 n2 n8 b)
  have hfl : ∀ m ∈ [encodeEncryptedExtensions h.ee, handshake 11 h.cert, handshake 15 h.cv, handshake 20 h.sfin],
      m = encodeEncryptedExtensions h.ee ∨ ∃ T b, m = handshake T b ∧ T < 256 ∧ T ≠ 1 ∧ T ≠ 2 ∧ T ≠ 8 := by
    intro m hm
    simp only [List.mem_cons, List.not_mem_nil, or_false] at hm
    rcases hm with rfl | rfl | rfl | rfl
    · exact Or.inl rfl
    · exact Or.inr ⟨11, _, rfl, by decide, by decide, by decide, by decide⟩
    · exact Or.inr ⟨15, _, rfl, by decide, by decide, by decide, by decide⟩
    · exact Or.inr ⟨20, _, rfl, by decide, by decide, by decide, by decide⟩
  unfold ConfHs.ins
  -- phase 1: the ClientHello, any order
  apply ptrace_phase h.ch.random h.sh.cipherSuite false .initial .initial rfl h.chFrs hok.chCut.1
    (by rw [hM1]; intro m hm; simp only [List.mem_singleton] at hm; subst hm; exact r1)
    (fun cum st => cum = [encodeClientHello h.ch] →
      st.clientRandom = some h.ch.random ∧ ∃ c, st.ciphersuite = some c)
    (by
      intro cum new st hpre hmi hnd
      rw [hM1] at hpre
      rcases prefix_single cum new _ hpre with rfl | ⟨rfl, rfl⟩
      · simp only [List.append_nil, feedRecords, List.foldl_nil]
        exact ⟨hmi, fun hh => by rw [hnd] at hh; cases hh⟩
      · obtain ⟨s', e, c1, c2, ⟨c, c3, _⟩, _⟩ := C02Hello.client_hello_parsed h.ch hok.ch st
        have hf : feedRecords st [encodeClientHello h.ch] = s' := by
          unfold encodeClientHello at e ⊢; rw [feed_one 1 (by decide), e]
        rw [hf]
        refine ⟨fun _ => ⟨c1, c, by rw [c2, c3]⟩, fun _ => ⟨c1, c, by rw [c2, c3], fun hh => absurd ⟨rfl, rfl⟩ hh⟩⟩)
    _ _ (phase_inputs_ok false .initial h.chFrs h.chDl (by
      intro w hw
      rcases List.mem_append.mp (hok.chPerm.mem_iff.mp hw) with hh | hh
      · exact hh
      · exact hok.chDupsOk w hh))
    {} [] [] allDrained_init (inv_init _) (by intro g hg; cases hg) (by intro a ha; cases ha) (by intro hh; cases hh) rfl
  intro t1 D1 cum1 d1 i1 ids1 idok1 mi1 nd1 oth1 w1 _
  -- the ClientHello is complete
  have hdel1 : C02Crypto.Delivery h.chFrs D1 := by
    refine ⟨⟨h.chDups, ?_, hok.chDupsOk⟩, idok1⟩
    rw [w1, wireIn_inOf]; simpa using hok.chPerm
  have hc1 := inv_complete _ _ _ _ i1 hdel1
  rw [hM1] at hc1
  obtain ⟨cr1, cfirst, cs1⟩ := mi1 hc1
  -- phase 2: the ServerHello
  show PTrace _ _ t1 (List.map (inOf true .initial) [(0, encodeServerHello h.sh, (encodeServerHello h.sh).length)] ++ _)
  apply ptrace_phase h.ch.random h.sh.cipherSuite true .initial .initial rfl [encodeServerHello h.sh]
    (by intro c hc; simp only [List.mem_singleton] at hc; subst hc; exact handshake_ne_nil _ _)
    (by rw [hM2]; intro m hm; simp only [List.mem_singleton] at hm; subst hm; exact r2)
    (fun cum st => st.clientRandom = some h.ch.random ∧
      (cum = [encodeServerHello h.sh] → st.ciphersuite = some h.sh.cipherSuite))
    (by
      intro cum new st hpre hmi hnd
      rw [hM2] at hpre
      rcases prefix_single cum new _ hpre with rfl | ⟨rfl, rfl⟩
      · simp only [List.append_nil, feedRecords, List.foldl_nil]
        exact ⟨hmi, fun hh => by rw [hnd] at hh; cases hh⟩
      · obtain ⟨s', e, c1, _, c3, _⟩ := C02Hello.server_hello_parsed h.sh hok.sh h.shExts hok.shE st
        have hf : feedRecords st [encodeServerHello h.sh] = s' := by
          unfold encodeServerHello at e ⊢; rw [feed_one 2 (by decide), e]
        rw [hf]
        exact ⟨⟨c3.trans hmi.1, fun _ => c1⟩, fun _ => ⟨c3.trans hmi.1, _, c1, fun _ => rfl⟩⟩)
    _ _ (phase_inputs_ok true .initial [encodeServerHello h.sh] _ (by
      intro w hw; simp only [List.mem_singleton] at hw; subst hw; simp [framesOf]))
    t1 [] [] d1 (by rw [oth1 _ (by decide)]; exact inv_init _) (by intro g hg; cases hg) (by intro a ha; cases ha)
    ⟨cr1, fun hh => by cases hh⟩ nd1
  intro t2 D2 cum2 d2 i2 ids2 idok2 mi2 nd2 oth2 w2 _
  have hdel2 : C02Crypto.Delivery [encodeServerHello h.sh] D2 := by
    refine ⟨⟨[], ?_, by simp⟩, idok2⟩
    rw [w2]; simp [wireIn, inOf, framesOf]
  have hc2 := inv_complete _ _ _ _ i2 hdel2
  rw [hM2] at hc2
  obtain ⟨cr2, cs2⟩ := mi2
  have cs2 := cs2 hc2
  -- phase 3: the server's flight
  apply ptrace_phase h.ch.random h.sh.cipherSuite true .handshake .handshake rfl h.sFrs hok.sCut.1
    (by
      rw [hM3]; intro m hm
      rcases hfl m hm with rfl | ⟨T, b, rfl, hT, n1, n2, n8⟩
      · exact r8
      · exact rO T b hT n1 n2 n8)
    (fun _ st => st.clientRandom = some h.ch.random ∧ st.ciphersuite = some h.sh.cipherSuite)
    (by
      intro cum new st hpre hmi hnd
      rw [hM3] at hpre
      have hnew : ∀ m ∈ new, m = encodeEncryptedExtensions h.ee ∨
          ∃ T b, m = handshake T b ∧ T < 256 ∧ T ≠ 1 ∧ T ≠ 2 ∧ T ≠ 8 :=
        fun m hm => hfl m (hpre.subset (List.mem_append_right _ hm))
      obtain ⟨q1, q2⟩ := feed_flight h hok _ _ new hnew st hmi.1 hmi.2
      exact ⟨⟨q1, q2⟩, fun _ => ⟨q1, _, q2, fun _ => rfl⟩⟩)
    _ _ (phase_inputs_ok true .handshake h.sFrs _ (fun w hw => hw))
    t2 [] [] d2 (by rw [oth2 _ (by decide), oth1 _ (by decide)]; exact inv_init _) (by intro g hg; cases hg)
    (by intro a ha; cases ha) ⟨cr2, cs2⟩ nd2
  intro t3 D3 cum3 d3 i3 ids3 idok3 mi3 nd3 oth3 w3 _
  -- phase 4: the client's Finished
  show PTrace _ _ t3 (List.map (inOf false .handshake) [(0, handshake 20 h.cfin, (handshake 20 h.cfin).length)] ++ [])
  apply ptrace_phase h.ch.random h.sh.cipherSuite false .handshake .handshake rfl [handshake 20 h.cfin]
    (by intro c hc; simp only [List.mem_singleton] at hc; subst hc; exact handshake_ne_nil _ _)
    (by rw [hM4]; intro m hm; simp only [List.mem_singleton] at hm; subst hm
        exact rO 20 _ (by decide) (by decide) (by decide) (by decide))
    (fun _ st => st.clientRandom = some h.ch.random ∧ st.ciphersuite = some h.sh.cipherSuite)
    (by
      intro cum new st hpre hmi hnd
      rw [hM4] at hpre
      have hnew : ∀ m ∈ new, m = encodeEncryptedExtensions h.ee ∨
          ∃ T b, m = handshake T b ∧ T < 256 ∧ T ≠ 1 ∧ T ≠ 2 ∧ T ≠ 8 := by
        intro m hm
        have := hpre.subset (List.mem_append_right _ hm)
        simp only [List.mem_singleton] at this
        exact Or.inr ⟨20, _, this, by decide, by decide, by decide, by decide⟩
      obtain ⟨q1, q2⟩ := feed_flight h hok _ _ new hnew st hmi.1 hmi.2
      exact ⟨⟨q1, q2⟩, fun _ => ⟨q1, _, q2, fun _ => rfl⟩⟩)
    [] _ (phase_inputs_ok false .handshake [handshake 20 h.cfin] _ (by
      intro w hw; simp only [List.mem_singleton] at hw; subst hw; simp [framesOf]))
    t3 [] [] d3 (by rw [oth3 _ (by decide), oth2 _ (by decide), oth1 _ (by decide)]; exact inv_init _)
    (by intro g hg; cases hg) (by intro a ha; cases ha) mi3 nd3
  intro _ _ _ _ _ _ _ _ _ _ _ _
  trivial

end Conformant

section ConformantConn
variable (maskFn : Dissect.MaskFn) (H : Crypto.Prims) (Pc : Cipher.Prims) (info : Nat → Pipeline.Info)

/-- **C02 for a whole connection with a conformant handshake**: `quic_connection_exact` with the local parser hypothesis
    `PTrace` replaced by its RFC-terms cause — the CRYPTO frames of the handshake datagrams are, in processing order, those of
    a conformant TLS 1.3 handshake `hs` (`ConfHs.ins`: ClientHello in any cut / order / duplicates over the client's
    Initial packets, ServerHello, the server's flight in order, the client's Finished); client random and selected suite
    are the ClientHello's and the ServerHello's. -/
theorem quic_connection_exact_conformant (hl : H.Lawful) (h32 : H.sha256.outLen = 32) (L : SealLaws Pc)
    (hs : ConfHs) (hsok : hs.Ok) (ch sh ca sa : Bytes) (early : Option Bytes) (sel : SuiteSel)
    (hsel : selectSuite hs.sh.cipherSuite = some sel)
    (ho : (hashOf H sel.hash).outLen < 65536)
    (hsa : sa.length = (hashOf H sel.hash).outLen) (hca : ca.length = (hashOf H sel.hash).outLen)
    (kl0 : List Keylog.Key) (p0 : MainLoop.Pkt) (d0 : DgH) (items : List (List Keylog.Key × MainLoop.Pkt × DgH))
    (hkl : ∀ x ∈ (kl0, p0, d0) :: items, KeylogHas x.1 hs.ch.random ch sh ca sa early)
    (c : QConn) (hc : Fresh H Pc c)
    (hok : HsDgs maskFn H Pc L (dgDcid d0) sel sh ch trk0 (d0 :: items.map (·.2.2)))
    (hins : allIns (d0 :: items.map (·.2.2)) = hs.ins)
    (hcar : ∀ x ∈ (kl0, p0, d0) :: items, CarriesH info c (dgWire H Pc L (dgDcid d0) sel sh ch) x.2.1 x.2.2)
    (hkeyed : (trk0.runDgs (d0 :: items.map (·.2.2))).keyed = true)
    (items1 : List (List Keylog.Key × MainLoop.Pkt × Dg1))
    (hcar1 : ∀ x ∈ items1, Carries info c
      (wireOf H Pc L sel .v1 (rfcGen (hashOf H sel.hash) sel.keyLen sa ca 0)) x.2.1 x.2.2)
    (hsend : Send1 maskFn H Pc L sel .v1 (rfcGen (hashOf H sel.hash) sel.keyLen sa ca 0)
      (quicHp (hashOf H sel.hash) ca sel.keyLen) (quicHp (hashOf H sel.hash) sa sel.keyLen)
      (chachaOf (trk0.runDgs (d0 :: items.map (·.2.2))).core) 0 0
      (trk0.runDgs (d0 :: items.map (·.2.2))).tc.app (trk0.runDgs (d0 :: items.map (·.2.2))).ts.app
      (trk0.runDgs (d0 :: items.map (·.2.2))).cc (trk0.runDgs (d0 :: items.map (·.2.2))).sc (items1.map (·.2.2)))
    (htimes : ((items1.map (·.2.2)).map fun d => (d.x.ts, d.x.srv)).Pairwise (· ≠ ·)) :
    let QM := quicMachine maskFn H Pc info
    let c1 := hsFeedAll QM c ((kl0, p0, d0) :: items)
    (feedAll QM c1 items1).raised = none ∧
    QM.out false (feedAll QM c1 items1) = expectedOut c (items1.map (·.2.2)) :=
  quic_connection_exact maskFn H Pc info hl h32 L hs.ch.random hs.sh.cipherSuite ch sh ca sa early sel hsel ho hsa hca kl0 p0 d0
    items hkl c hc hok (by rw [hins]; exact ptrace_of_conformant hs hsok) hcar hkeyed items1 hcar1 hsend htimes

end ConformantConn
/-! ## Retry -/

section RetryVariant
variable (maskFn : Dissect.MaskFn) (H : Crypto.Prims) (Pc : Cipher.Prims) (info : Nat → Pipeline.Info)

/-- `quic_handshake_establishes` from ANY handshake state: `hpre` says what `handle_packet` finds after its pre-loop part
    for the first datagram (a fresh session: `feedPre_fresh`; after a Retry: `after_retry_pre`) -/
theorem quic_handshake_establishes_from (hl : H.Lawful) (L : SealLaws Pc) (dcid0 : Bytes)
    (cr csel ch sh ca sa : Bytes) (early : Option Bytes) (sel : SuiteSel) (hsel : selectSuite csel = some sel)
    (t : Trk) (kl0 : List Keylog.Key) (p0 : MainLoop.Pkt) (d0 : DgH) (items : List (List Keylog.Key × MainLoop.Pkt × DgH))
    (hkl : ∀ x ∈ (kl0, p0, d0) :: items, KeylogHas x.1 cr ch sh ca sa early)
    (c : QConn) (hr : c.raised = none)
    (hpre : HsSt H dcid0 sel ch sh ca sa t.keyed (feedPre H (params H Pc kl0) c.st (dgDcid d0) .v1) t.tc t.ts t.cc t.sc t.core)
    (hok : HsDgs maskFn H Pc L dcid0 sel sh ch t (d0 :: items.map (·.2.2)))
    (htr : PTrace cr csel t.core (allIns (d0 :: items.map (·.2.2))))
    (hcar : ∀ x ∈ (kl0, p0, d0) :: items, CarriesH info c (dgWire H Pc L dcid0 sel sh ch) x.2.1 x.2.2)
    (hkeyed : (t.runDgs (d0 :: items.map (·.2.2))).keyed = true) (kl : List Keylog.Key) :
    let c' := hsFeedAll (quicMachine maskFn H Pc info) c ((kl0, p0, d0) :: items)
    let t' := t.runDgs (d0 :: items.map (·.2.2))
    c'.raised = none ∧
    Est H Pc kl sel .v1 (rfcGen (hashOf H sel.hash) sel.keyLen sa ca 0)
      (quicHp (hashOf H sel.hash) ca sel.keyLen) (quicHp (hashOf H sel.hash) sa sel.keyLen) (chachaOf t'.core)
      c'.st 0 0 t'.tc.app t'.ts.app t'.cc t'.sc ∧
    (∀ o ∈ c'.st.out, UdpOut.exported false (frameOf o) = none) ∧
    c'.opts = c.opts ∧ c'.server = c.server ∧ c'.client = c.client ∧ c'.serverMac = c.serverMac ∧
    c'.clientMac = c.clientMac ∧ c'.ipv6 = c.ipv6 := by
  obtain ⟨hd0, hds⟩ := hok
  have htr' : PTrace cr csel t.core (insOf d0.pkts ++ allIns (items.map (·.2.2))) := by
    simpa [allIns, List.flatMap_cons] using htr
  obtain ⟨b1, b2, b3, b4, b5, b6, b7, b8, b9⟩ := hs_feed_step maskFn H Pc info hl kl0 L dcid0 cr csel ch sh ca sa early
    sel hsel (hkl (kl0, p0, d0) (List.mem_cons_self ..)) t d0 hd0 _ c hr hpre htr' p0
    (hcar (kl0, p0, d0) (List.mem_cons_self ..))
  obtain ⟨i1, i2, i3, i4, i5, i6, i7, i8⟩ := hs_feed_rest maskFn H Pc info hl L dcid0 cr csel ch sh ca sa early sel hsel
    items (fun x hx => hkl x (List.mem_cons_of_mem _ hx)) (t.run d0.pkts) _ b1 b2 hds b3
    (fun x hx => by
      obtain ⟨u1, u2, u3⟩ := hcar x (List.mem_cons_of_mem _ hx)
      exact ⟨u1, u2, by rw [b6]; exact u3⟩)
  intro c' t'
  have hc' : c' = hsFeedAll (quicMachine maskFn H Pc info)
      ((quicMachine maskFn H Pc info).feed c kl0 p0 (dgDcid d0) .v1) items := rfl
  have ht' : t' = (t.run d0.pkts).runDgs (items.map (·.2.2)) := rfl
  rw [hc', ht']
  rw [show (t.runDgs (d0 :: items.map (·.2.2))) = (t.run d0.pkts).runDgs (items.map (·.2.2)) from rfl] at hkeyed
  rw [hkeyed] at i2
  exact ⟨i1, est_of_hsSt H Pc kl _ sel ch sh ca sa _ _ _ _ _ _ i2, i2.inv.out, i3.trans b4, i4.trans b5, i5.trans b6,
    i6.trans b7, i7.trans b8, i8.trans b9⟩

/-- After a Retry packet was handled (`retry_resets`: TLS session, decryptors and `self.keys` discarded; version, epochs,
    packet-number tables, CID sets and `output_buffer` kept), the pre-loop part of the next `handle_packet` derives the
    Initial keys from ITS routing DCID — the Retry's Source Connection ID when the datagram is the client's new Initial
    (RFC 9001 §5.2) — and the session is in the handshake state of a fresh attempt, with the bookkeeping of the first. -/
theorem after_retry_pre (kl kl' : List Keylog.Key) (h32 : H.sha256.outLen = 32) (dcid0 dcid' : Bytes) (sel : SuiteSel)
    (ch sh ca sa : Bytes) (keyed : Bool) (s : St Tls) (tc ts : PnTab) (cc sc : List Bytes) (core : Tls)
    (hst : HsSt H dcid0 sel ch sh ca sa keyed s tc ts cc sc core) :
    HsSt H dcid' sel ch sh ca sa false
      (feedPre H (params H Pc kl') (stampVer (retryReset (params H Pc kl) s)) dcid' .v1) tc ts cc sc {} := by
  have hd : devInitial H .v1 dcid' = some
      { clientKey := (quicInitialClientKeys H.sha256 dcid').key, clientIv := (quicInitialClientKeys H.sha256 dcid').iv,
        clientHp := (quicInitialClientKeys H.sha256 dcid').hp, serverKey := (quicInitialServerKeys H.sha256 dcid').key,
        serverIv := (quicInitialServerKeys H.sha256 dcid').iv, serverHp := (quicInitialServerKeys H.sha256 dcid').hp } := by
    unfold devInitial
    simp only [qver]
    rw [C15.quic_initial_eq_rfc _ h32]
  have hp : (params H Pc kl').devInitialKeys .v1 dcid' = (devInitial H .v1 dcid').map
      fun k => (⟨k.serverKey, k.serverIv⟩, ⟨k.clientKey, k.clientIv⟩) := rfl
  obtain ⟨i, nd, co, pc, ps, c1, c2, ky⟩ := hst
  have hv := i.version
  refine ⟨⟨?_, ?_, ?_, ?_, ?_, ?_, ?_, ?_, ?_, ?_⟩, ?_, ?_, ?_, ?_, ?_, ?_, by intro h; cases h⟩
  all_goals simp [feedPre, handlePacketPre, latchVersion, retryReset, setInitialDecryptor, hp, hd, stampVer, hv,
    HpKeys.withInitial, params, coreOf, initDec, i.ec, i.es, i.lpc, i.lps, pc, ps, c1, c2]
  exact i.out

/-- a Retry datagram (RFC 9000 §17.2.5) through `handle_packet`, in any handshake state: the Retry reset, nothing else -/
theorem retry_feed (kl : List Keylog.Key) (dcid0 : Bytes) (r : Retry) (hwf : r.wf) (hver : r.version ≠ [0, 0, 0, 0])
    (hscid : r.scid.length ≤ 63) (c : QConn) (hr : c.raised = none) (hinv : HsInv H dcid0 c.st)
    (p : MainLoop.Pkt) (hp : p.payload = r.encode) (dcid : Bytes) :
    (quicMachine maskFn H Pc info).feed c kl p dcid .v1 =
      { c with st := stampVer (retryReset (params H Pc kl) c.st), raised := none } := by
  have hpre : feedPre H (params H Pc kl) c.st dcid .v1 = c.st := feedPre_hs H _ dcid0 _ c.st hinv
  have hne : r.encode ≠ [] := by unfold Retry.encode; simp
  simp only [quicMachine, hr, sver]
  rw [hp]
  unfold handleDatagram
  simp only [hpre]
  rw [Lemmas.QuicDissect.dissectLoop_cons _ _ _ _ _ _ _ _ hne]
  simp only [C02Dissect.dissect_encode_retry maskFn _ _ _ _ r hwf hver hscid]
  have hturn : ∀ srv ts, handleTurn (params H Pc kl) (c.st, none) [r.toPkt srv ts] =
      (stampVer (retryReset (params H Pc kl) c.st), none) := by
    intro srv ts
    unfold handleTurn
    simp [handleQuicPackets, stepPkt, afterDecrypt, Retry.toPkt]
  rw [hturn, Lemmas.QuicDissect.dissectLoop_nil]

/-- the bookkeeping a Retry leaves: keys gone, parser fresh; packet numbers and CID sets of the first attempt stay -/
def Trk.afterRetry (t : Trk) : Trk := ⟨false, t.tc, t.ts, t.cc, t.sc, {}⟩

/-- **C02 for a connection with a Retry** (RFC 9000 §8.1.2, §17.2.5): the client's first Initial datagram(s), the server's
    Retry (any SCID, any token), then the whole handshake again — the client's new Initial carries the Retry's SCID as
    DCID (that is `dgDcid d0`: the Initial keys are derived from it, RFC 9001 §5.2) and the token (any length: `LongShape.tok`)
    — and the 1-RTT phase. Conclusion as `quic_connection_exact`. The connection IDs learned from the first Initial stay in
    the sets (`Trk.afterRetry`); the only thing asked of them is the `DcidOk` of every later datagram, which RFC 9000 §5.1
    gives: the Retry SCID is a server-chosen CID, the stale first DCID sits in `server_cids` where it can only be taken for a
    client→server CID, which is what it was. -/
theorem quic_connection_exact_retry (hl : H.Lawful) (h32 : H.sha256.outLen = 32) (L : SealLaws Pc)
    (hs : ConfHs) (hsok : hs.Ok) (ch sh ca sa : Bytes) (early : Option Bytes) (sel : SuiteSel)
    (hsel : selectSuite hs.sh.cipherSuite = some sel)
    (ho : (hashOf H sel.hash).outLen < 65536)
    (hsa : sa.length = (hashOf H sel.hash).outLen) (hca : ca.length = (hashOf H sel.hash).outLen)
    -- first attempt
    (klA : List Keylog.Key) (pA : MainLoop.Pkt) (dA : DgH)
    (hklA : KeylogHas klA hs.ch.random ch sh ca sa early)
    (c : QConn) (hc : Fresh H Pc c)
    (hokA : HsDgOk maskFn H Pc L (dgDcid dA) sel sh ch trk0 dA)
    (htrA : PTrace hs.ch.random hs.sh.cipherSuite {} (insOf dA.pkts))
    (hcarA : CarriesH info c (dgWire H Pc L (dgDcid dA) sel sh ch) pA dA)
    -- the Retry
    (klR : List Keylog.Key) (pR : MainLoop.Pkt) (r : Retry) (dcidR : Bytes) (hrwf : r.wf)
    (hrver : r.version ≠ [0, 0, 0, 0]) (hrscid : r.scid.length ≤ 63) (hpR : pR.payload = r.encode)
    -- second attempt
    (kl0 : List Keylog.Key) (p0 : MainLoop.Pkt) (d0 : DgH) (items : List (List Keylog.Key × MainLoop.Pkt × DgH))
    (hkl : ∀ x ∈ (kl0, p0, d0) :: items, KeylogHas x.1 hs.ch.random ch sh ca sa early)
    (hok : HsDgs maskFn H Pc L (dgDcid d0) sel sh ch (trk0.run dA.pkts).afterRetry (d0 :: items.map (·.2.2)))
    (hins : allIns (d0 :: items.map (·.2.2)) = hs.ins)
    (hcar : ∀ x ∈ (kl0, p0, d0) :: items, CarriesH info c (dgWire H Pc L (dgDcid d0) sel sh ch) x.2.1 x.2.2)
    (hkeyed : ((trk0.run dA.pkts).afterRetry.runDgs (d0 :: items.map (·.2.2))).keyed = true)
    -- 1-RTT
    (items1 : List (List Keylog.Key × MainLoop.Pkt × Dg1))
    (hcar1 : ∀ x ∈ items1, Carries info c
      (wireOf H Pc L sel .v1 (rfcGen (hashOf H sel.hash) sel.keyLen sa ca 0)) x.2.1 x.2.2)
    (hsend : Send1 maskFn H Pc L sel .v1 (rfcGen (hashOf H sel.hash) sel.keyLen sa ca 0)
      (quicHp (hashOf H sel.hash) ca sel.keyLen) (quicHp (hashOf H sel.hash) sa sel.keyLen)
      (chachaOf ((trk0.run dA.pkts).afterRetry.runDgs (d0 :: items.map (·.2.2))).core) 0 0
      ((trk0.run dA.pkts).afterRetry.runDgs (d0 :: items.map (·.2.2))).tc.app
      ((trk0.run dA.pkts).afterRetry.runDgs (d0 :: items.map (·.2.2))).ts.app
      ((trk0.run dA.pkts).afterRetry.runDgs (d0 :: items.map (·.2.2))).cc
      ((trk0.run dA.pkts).afterRetry.runDgs (d0 :: items.map (·.2.2))).sc (items1.map (·.2.2)))
    (htimes : ((items1.map (·.2.2)).map fun d => (d.x.ts, d.x.srv)).Pairwise (· ≠ ·)) :
    let QM := quicMachine maskFn H Pc info
    let c1 := QM.feed c klA pA (dgDcid dA) .v1
    let c2 := QM.feed c1 klR pR dcidR .v1
    let c3 := hsFeedAll QM c2 ((kl0, p0, d0) :: items)
    (feedAll QM c3 items1).raised = none ∧
    QM.out false (feedAll QM c3 items1) = expectedOut c (items1.map (·.2.2)) := by
  intro QM c1 c2 c3
  obtain ⟨hfresh, hr⟩ := hc
  -- first attempt
  have hpreA : HsSt H (dgDcid dA) sel ch sh ca sa trk0.keyed (feedPre H (params H Pc klA) c.st (dgDcid dA) .v1)
      trk0.tc trk0.ts trk0.cc trk0.sc trk0.core := by
    rw [hfresh]; exact feedPre_fresh H Pc klA h32 (dgDcid dA) sel ch sh ca sa
  obtain ⟨a1, a2, _, a4, a5, a6, a7, a8, a9⟩ := hs_feed_step maskFn H Pc info hl klA L (dgDcid dA) hs.ch.random
    hs.sh.cipherSuite ch sh ca sa early sel hsel hklA trk0 dA hokA [] c hr hpreA (by rw [List.append_nil]; exact htrA) pA hcarA
  -- the Retry
  have hc2 : c2 = { c1 with st := stampVer (retryReset (params H Pc klR) c1.st), raised := none } :=
    retry_feed maskFn H Pc info klR (dgDcid dA) r hrwf hrver hrscid c1 a1 a2.inv pR hpR dcidR
  have hpre2 : HsSt H (dgDcid d0) sel ch sh ca sa (trk0.run dA.pkts).afterRetry.keyed
      (feedPre H (params H Pc kl0) c2.st (dgDcid d0) .v1) (trk0.run dA.pkts).afterRetry.tc
      (trk0.run dA.pkts).afterRetry.ts (trk0.run dA.pkts).afterRetry.cc (trk0.run dA.pkts).afterRetry.sc
      (trk0.run dA.pkts).afterRetry.core := by
    rw [hc2]
    exact after_retry_pre H Pc klR kl0 h32 (dgDcid dA) (dgDcid d0) sel ch sh ca sa _ c1.st _ _ _ _ _ a2
  have hcar2 : ∀ x ∈ (kl0, p0, d0) :: items, CarriesH info c2 (dgWire H Pc L (dgDcid d0) sel sh ch) x.2.1 x.2.2 := by
    intro x hx
    obtain ⟨u1, u2, u3⟩ := hcar x hx
    exact ⟨u1, u2, by rw [hc2]; show (x.2.1.src == c1.client) = _; rw [show c1.client = c.client from a6]; exact u3⟩
  obtain ⟨e1, e2, e3, e4, e5, e6, e7, e8, e9⟩ := quic_handshake_establishes_from maskFn H Pc info hl L (dgDcid d0)
    hs.ch.random hs.sh.cipherSuite ch sh ca sa early sel hsel (trk0.run dA.pkts).afterRetry kl0 p0 d0 items hkl c2
    (by rw [hc2]) hpre2 hok (by rw [hins]; exact ptrace_of_conformant hs hsok) hcar2 hkeyed []
  have hk := keysWf_rfc H hl Pc [] hs.sh.cipherSuite sel hsel .v1 ho sa ca hsa hca
  have f4 : c3.opts = c.opts := by rw [show c3.opts = c2.opts from e4, hc2]; exact a4
  have f5 : c3.server = c.server := by rw [show c3.server = c2.server from e5, hc2]; exact a5
  have f6 : c3.client = c.client := by rw [show c3.client = c2.client from e6, hc2]; exact a6
  have f7 : c3.serverMac = c.serverMac := by rw [show c3.serverMac = c2.serverMac from e7, hc2]; exact a7
  have f8 : c3.clientMac = c.clientMac := by rw [show c3.clientMac = c2.clientMac from e8, hc2]; exact a8
  have f9 : c3.ipv6 = c.ipv6 := by rw [show c3.ipv6 = c2.ipv6 from e9, hc2]; exact a9
  obtain ⟨r1, r2⟩ := quic_one_rtt_connection_exact maskFn H Pc info [] L sel .v1 _ _ _ _ hk items1 c3 0 0 _ _ _ _ e1 e2 e3
    (fun x hx => by
      obtain ⟨u1, u2, u3⟩ := hcar1 x hx
      exact ⟨u1, u2, by rw [f6]; exact u3⟩)
    hsend htimes
  refine ⟨r1, ?_⟩
  rw [r2]
  unfold expectedOut
  rw [addressed_congr c c3 f4 f5 f6 f7 f8 f9]

end RetryVariant
section Keyed
variable (maskFn : Dissect.MaskFn) (H : Crypto.Prims) (Pc : Cipher.Prims)

theorem step_keyed_mono (t : Trk) (x : SPkt) (h : t.keyed = true) : (t.step x).keyed = true := by
  simp [Trk.step, h]

theorem run_keyed_mono (t : Trk) (qs : List PkH) (h : t.keyed = true) : (t.run qs).keyed = true := by
  induction qs generalizing t with
  | nil => exact h
  | cons q qs ih => exact ih _ (step_keyed_mono t q.x h)

theorem runDgs_keyed_mono (t : Trk) (ds : List DgH) (h : t.keyed = true) : (t.runDgs ds).keyed = true := by
  induction ds generalizing t with
  | nil => exact h
  | cons d ds ih => exact ih _ (run_keyed_mono t d.pkts h)

theorem run_keyed_of_handshake (L : SealLaws Pc) (dcid0 : Bytes) (sel : SuiteSel) (sh ch : Bytes) (t : Trk) (qs : List PkH)
    (hok : HsPks maskFn H Pc L dcid0 sel sh ch t qs) (hex : ∃ q ∈ qs, q.x.level = .handshake) :
    (t.run qs).keyed = true := by
  induction qs generalizing t with
  | nil => obtain ⟨q, hq, _⟩ := hex; cases hq
  | cons q qs ih =>
    obtain ⟨h1, h2⟩ := hok
    obtain ⟨q', hq', hl⟩ := hex
    rcases List.mem_cons.mp hq' with rfl | hq'
    · exact run_keyed_mono _ qs (step_keyed_mono t q'.x (h1.keys hl))
    · exact ih _ h2 ⟨q', hq', hl⟩

/-- `hkeyed` of the connection theorems follows from the history itself as soon as it contains a Handshake-level packet:
    `HsPkOk.keys` demanded the keys for it, and they stay (`set_tls_decryptors` is idempotent) -/
theorem keyed_of_handshake (L : SealLaws Pc) (dcid0 : Bytes) (sel : SuiteSel) (sh ch : Bytes) (t : Trk) (ds : List DgH)
    (hok : HsDgs maskFn H Pc L dcid0 sel sh ch t ds) (hex : ∃ d ∈ ds, ∃ q ∈ d.pkts, q.x.level = .handshake) :
    (t.runDgs ds).keyed = true := by
  induction ds generalizing t with
  | nil => obtain ⟨d, hd, _⟩ := hex; cases hd
  | cons d ds ih =>
    obtain ⟨h1, h2⟩ := hok
    obtain ⟨d', hd', hq⟩ := hex
    rcases List.mem_cons.mp hd' with rfl | hd'
    · exact runDgs_keyed_mono _ ds (run_keyed_of_handshake maskFn H Pc L dcid0 sel sh ch t d'.pkts h1.2.2 hq)
    · exact ih _ h2 ⟨d', hd', hq⟩

end Keyed
/-! ### `ptrace_of_conformant` is not vacuous -/

namespace ExConf
open TLX.Spec.TlsHello TLX.Spec.TlsHandshakeFraming
/-- ClientHello with a session id, three offered suites (first: 0x1303, selected later: 0x1301), ALPN `h3` and a QUIC
    transport-parameters extension -/
def chx : ClientHello :=
  { legacyVersion := [3, 3], random := List.replicate 32 0x5a, sessionId := [1, 2, 3, 4],
    cipherSuites := [[0x13, 0x03], [0x13, 0x01], [0x13, 0x02]], compression := [0],
    extensions := some [⟨16, alpnBody [[0x68, 0x33]]⟩, ⟨57, [1, 2, 0x43, 0xe8]⟩, ⟨43, [2, 3, 4]⟩] }

def shx : ServerHello :=
  { legacyVersion := [3, 3], random := List.replicate 32 0x77, sessionIdEcho := [1, 2, 3, 4], cipherSuite := [0x13, 0x01],
    compressionMethod := 0, extensions := some [⟨43, [3, 4]⟩] }

/-- the ClientHello cut into three fragments, delivered last-first-(duplicate of the first)-middle; the server's flight cut
    into two frames inside the Certificate -/
def hsx : ConfHs :=
  let M := encodeClientHello chx
  let F := encodeEncryptedExtensions [⟨16, alpnBody [[0x68, 0x33]]⟩] ++
    (handshake 11 [0, 0, 0, 5, 1, 2, 3, 4, 5] ++ (handshake 15 [8, 4, 0, 2, 9, 9] ++ handshake 20 [7, 7, 7, 7]))
  { ch := chx, sh := shx, shExts := [⟨43, [3, 4]⟩], ee := [⟨16, alpnBody [[0x68, 0x33]]⟩],
    cert := [0, 0, 0, 5, 1, 2, 3, 4, 5], cv := [8, 4, 0, 2, 9, 9], sfin := [7, 7, 7, 7], cfin := [6, 6, 6, 6],
    chFrs := [M.take 10, (M.drop 10).take 30, M.drop 40],
    chDl := [(40, M.drop 40, (M.drop 40).length), (0, M.take 10, 10), (0, M.take 10, 10),
             (10, (M.drop 10).take 30, 30)],
    chDups := [(0, M.take 10, 10)],
    sFrs := [F.take 25, F.drop 25] }

theorem hsx_ok : hsx.Ok := by
  refine ⟨by decide, by decide, rfl, by decide, by decide, by decide, by decide, by decide, ⟨by decide, by decide⟩, ?_,
    by decide, ⟨by decide, by decide⟩⟩
  decide

/-- `ptrace_of_conformant` applies: the local parser hypothesis for this handshake, without evaluating the parser -/
example : PTrace chx.random [0x13, 0x01] {} hsx.ins := ptrace_of_conformant hsx hsx_ok

end ExConf
end TLX.Props.C02Capstone
