/-
C02, what the capstones (`Props/C02Capstone.lean`) still excluded.

1. ONE INTERLEAVED HISTORY (`quic_connection_exact_interleaved`, `_conformant`). The earlier capstone wanted all handshake
   datagrams before all 1-RTT datagrams, and one level per phase. Here a connection is a list of datagrams `DgM`, each a
   list of coalesced long-header packets (Initial / Handshake) optionally closed by ONE 1-RTT packet (RFC 9000 §12.2), the
   two directions interleaved in any way: server 1-RTT data before the client's Finished, 1-RTT packets behind Handshake
   packets in one datagram, Handshake ACKs between 1-RTT datagrams. WHAT MUST PRECEDE WHAT, for the tool:
     * the tool derives EVERY key of the connection — Handshake, 1-RTT generation 0, Early — inside `handle_crypto_frame`,
       at the moment its CRYPTO reassembly completes a ClientHello (with the FIRST OFFERED suite), a ServerHello or the
       EncryptedExtensions (with the selected suite), from the key-log lines present at that moment (`afterTls`,
       `setTlsDecryptors`); packets it cannot decrypt are dropped, never retried. So a Handshake or 1-RTT packet is
       decrypted iff it is captured after the packet that completes the ServerHello (`HsPkOk.keys`, `ShortOk.keyed`) —
       which the protocol gives an observer on the path: the server sends them in the same or a later datagram, the client
       after it has received the ServerHello;
     * while long-header packets still occur, the 1-RTT packets are in key generation 0 (`ShortOk.gen0`; RFC 9001 §6: no
       key update before the handshake is confirmed, §4.9.2: Handshake keys are discarded then) — the history is a mixed
       part (generation 0) followed by a 1-RTT-only part with any key updates (`Send1`). NOT covered: a Handshake packet
       (an ACK) of one side captured after the OTHER side's first key update;
     * coalesced packets carry the datagram's Destination Connection ID (RFC 9000 §12.2 MUST).
   Conclusion: one exported UDP frame per DATAGRAM whose 1-RTT packet carried STREAM data (a datagram with a Handshake packet
   and a 1-RTT packet yields one frame), payload = that data, capture order, the datagram's time and direction.
   Proof architecture: `output_buffer` is write-only (`wo`, `stepPkt_wo` … `handleDatagram_wo`), so every datagram is
   analysed on the state WITHOUT its output buffer, where the handshake invariant `HsSt` of the capstone holds again;
   `step_one_rtt_keep` / `hsSt_after_short`: a generation-0 1-RTT packet preserves it; `one_turn`: the dissector loop on the
   closing 1-RTT packet; `mix_dg_step`, `mix_feed_step`, `mix_feed_rest`; `build_congr`: the builder reads the exported
   frames only.

2. 0-RTT (`afterTls_early`, `zr_turn`, `quic_connection_exact_0rtt_partial`; the losses: `zero_rtt_dropped_without_key`,
   `legacy_zero_rtt_rejected_poisons_pn` / `zero_rtt_rejected_leaves_session`). What the tool does: the Early decryptor and the early header-protection key are derived
   in the same `set_tls_decryptors` call as all other keys, i.e. when the CRYPTO stream completes the ClientHello — with the
   FIRST OFFERED suite's hash / cipher / key length (quic_tls_parser.py l. 90 "For early data") — and again at the ServerHello
   with the selected suite. A 0-RTT packet is exported iff, when it is captured, that suite is the one the client protects
   0-RTT with (the resumed session's, RFC 9001 §4.6.1 / RFC 8446 §4.2.10-11; the four suites differ pairwise in (hash,
   cipher, key length), so "fits" means "equal"):
     (a) it comes after the packet that completes the ClientHello in CRYPTO (same datagram, later packet, is fine), and
     (b) before the ServerHello: resumed suite = FIRST suite of the ClientHello's list (NOT given by the RFCs: the resumed
         suite may stand anywhere in the list); after the ServerHello: resumed suite = selected suite (given by RFC 8446
         §4.2.10 when the server accepts early data).
   When (a) fails the packet is dropped without a trace (`zero_rtt_dropped_without_key`). When (b) fails the dissector removes
   header protection with the wrong key and the AEAD check rejects the packet. BEFORE the repair "only an authenticated QUIC
   packet moves the largest packet number of its space" `get_full_packet_number` had by then stored the garbage packet number
   as the largest of the client's application space (`legacy_zero_rtt_rejected_poisons_pn`, on `Session.Legacy`), and every
   later 1-RTT packet of the client was reconstructed next to it and lost (`ExZr.legacy_first_offered_suite_counterexample`).
   SINCE the repair the rejected packet leaves the session as it was (`zero_rtt_rejected_leaves_session`): only the 0-RTT
   packet itself is lost, the following 1-RTT packets are exported (`ExZr.late_survives`). `harness/c02_0rtt_replay.py` (real
   tool, real cryptography) shows both, depending on the tree under test; further kernel-checked witness
   `ExZr.zero_rtt_before_client_hello_counterexample`. The full statement is `quic_connection_exact_0rtt_statement` (a `def`,
   NOT proved: 0-RTT packets anywhere in the interleaved history under `ZrPkOk`); proved is the step
   `quic_connection_exact_0rtt_partial`; missing: `EarlyKeyed` threaded through the handshake invariant `HsSt`.

Core Lean only.
-/
import TLX.Props.C02Capstone
set_option linter.unusedSimpArgs false
set_option linter.unusedVariables false
set_option autoImplicit false
namespace TLX.Props.C02Capstone3
open TLX TLX.Quic TLX.Cipher TLX.Quic.Session TLX.Lemmas.QuicSession TLX.Spec.QuicSender TLX.Spec.QuicFrames
open TLX.Props.C02Session TLX.Spec.QuicConnection TLX.Spec.QuicPackets TLX.QuicPipeline
open TLX.Spec.KeySchedules TLX.Lemmas.KeySchedule TLX.Props.C02Capstone

/-! ### `output_buffer` is write-only: the session with more in front of it behaves the same -/
section OutFrame
variable {σ : Type} (P : Params σ)

/-- the state with `o` in front of its `output_buffer` -/
def wo (o : List Out) (s : St σ) : St σ := { s with out := o ++ s.out }

theorem installGroups_wo (o : List Out) (s : St σ) (sel : SuiteSel) (kg : KeyGroups) :
    installGroups (wo o s) sel kg = wo o (installGroups s sel kg) := by
  unfold installGroups wo
  cases kg.hs with
  | none => rfl
  | some hk =>
    obtain ⟨a, b⟩ := hk
    cases kg.app with
    | none => rfl
    | some ak => cases kg.early <;> rfl

theorem setTlsDecryptors_wo (o : List Out) (s : St σ) (cr cs : Bytes) :
    setTlsDecryptors P (wo o s) cr cs = ((wo o (setTlsDecryptors P s cr cs).1), (setTlsDecryptors P s cr cs).2) := by
  unfold setTlsDecryptors
  cases selectSuite cs with
  | none => rfl
  | some sel =>
    simp only
    have hv : (wo o s).version = s.version := rfl
    rw [hv]
    cases P.devQuicKeys sel s.version cr with
    | error e => rfl
    | ok kg => exact congrArg (·, none) (installGroups_wo o { s with suite := some sel } sel kg)

theorem afterTls_wo (o : List Out) (s : St σ) :
    afterTls P (wo o s) = (wo o (afterTls P s).1, (afterTls P s).2) := by
  unfold afterTls
  have ht : (wo o s).tls = s.tls := rfl
  rw [ht]
  split
  · split
    · rename_i cr cs _ _
      rw [setTlsDecryptors_wo]
      generalize setTlsDecryptors P s cr cs = r
      obtain ⟨s', e⟩ := r
      cases e <;> rfl
    · rfl
  · rfl

theorem handleCrypto_wo (o : List Out) (s : St σ) (p : Pkt) (f : Frame.Parsed) (c : CryptoIn) :
    handleCrypto P (wo o s) p f c = (wo o (handleCrypto P s p f c).1, (handleCrypto P s p f c).2) := by
  unfold handleCrypto
  have ht : (wo o s).tls = s.tls := rfl
  rw [ht]
  generalize P.tlsUpdate s.tls c = r
  obtain ⟨t, e⟩ := r
  cases e with
  | some e => rfl
  | none =>
    simp only
    have : ({ wo o s with tls := t } : St σ) = wo o { s with tls := t } := rfl
    rw [this, afterTls_wo]
    generalize afterTls P { s with tls := t } = r
    obtain ⟨s', e⟩ := r
    cases e with
    | some e => rfl
    | none => simp only [wo, List.append_assoc]

theorem handleFrame_wo (o : List Out) (s : St σ) (p : Pkt) (f : Frame.Parsed) :
    handleFrame P (wo o s) p f = (wo o (handleFrame P s p f).1, (handleFrame P s p f).2) := by
  cases f <;> simp only [handleFrame]
  case crypto => exact handleCrypto_wo P o s p _ _
  case stream => simp only [wo, List.append_assoc]
  case newConnectionId => split <;> rfl
  all_goals rfl

theorem handleFrames_wo (o : List Out) (s : St σ) (p : Pkt) (fs : List Frame.Parsed) :
    handleFrames P (wo o s) p fs = (wo o (handleFrames P s p fs).1, (handleFrames P s p fs).2) := by
  induction fs generalizing s with
  | nil => rfl
  | cons f fs ih =>
    simp only [handleFrames]
    rw [handleFrame_wo]
    generalize handleFrame P s p f = r
    obtain ⟨s', e⟩ := r
    cases e with
    | some e => rfl
    | none => exact ih s'


theorem flipEpoch_wo (o : List Out) (s : St σ) (ph : Option Nat) (srv : Bool) :
    flipEpoch (wo o s) ph srv = wo o (flipEpoch s ph srv) := by
  unfold flipEpoch
  have h1 : (wo o s).lastPhaseServer = s.lastPhaseServer := rfl
  have h2 : (wo o s).lastPhaseClient = s.lastPhaseClient := rfl
  rw [h1, h2]
  split <;> split <;> rfl

theorem extendGens_wo (o : List Out) (s : St σ) :
    extendGens P (wo o s) = (wo o (extendGens P s).1, (extendGens P s).2) := by
  unfold extendGens
  have h1 : (wo o s).decApp = s.decApp := rfl
  have h2 : (wo o s).epochClient = s.epochClient := rfl
  have h3 : (wo o s).epochServer = s.epochServer := rfl
  have h4 : (wo o s).suite = s.suite := rfl
  have h5 : (wo o s).version = s.version := rfl
  rw [h1]
  cases s.decApp with
  | none => rfl
  | some gens =>
    simp only [h2, h3, h4, h5]
    split
    · cases gens.getLast? with
      | none => rfl
      | some d => cases s.suite <;> rfl
    · rfl

theorem checkKeyEpoch_wo (o : List Out) (s : St σ) (ph : Option Nat) (srv : Bool) :
    checkKeyEpoch P (wo o s) ph srv = (wo o (checkKeyEpoch P s ph srv).1, (checkKeyEpoch P s ph srv).2) := by
  unfold checkKeyEpoch
  rw [flipEpoch_wo, extendGens_wo]

theorem appDecryptor_wo (o : List Out) (s : St σ) (srv : Bool) : appDecryptor (wo o s) srv = appDecryptor s srv := rfl

theorem longDecryptor_wo (o : List Out) (s : St σ) (t : PType) : longDecryptor (wo o s) t = longDecryptor s t := by
  cases t <;> rfl

theorem selectDecryptor_wo (o : List Out) (s : St σ) (p : Pkt) :
    selectDecryptor P (wo o s) p = (wo o (selectDecryptor P s p).1, (selectDecryptor P s p).2) := by
  unfold selectDecryptor
  cases p.htype with
  | long => simp only [longDecryptor_wo]
  | short =>
    simp only
    split
    · rw [checkKeyEpoch_wo]
      generalize checkKeyEpoch P s p.keyPhase p.isServer = r
      obtain ⟨s', e⟩ := r
      cases e <;> rfl
    · rfl

/-- (statement changed by the pn-store repair: `getFullPn` is pure) -/
theorem getFullPn_wo (o : List Out) (s : St σ) (p : Pkt) : getFullPn (wo o s) p = getFullPn s p := rfl

theorem setLargestPn_wo (o : List Out) (s : St σ) (p : Pkt) (pn : Bytes) :
    setLargestPn (wo o s) p pn = wo o (setLargestPn s p pn) := by
  unfold setLargestPn
  cases p.ptype.space with
  | none => rfl
  | some sp =>
    simp only
    have hl : pnLargest (wo o s) p.isServer sp = pnLargest s p.isServer sp := rfl
    rw [hl]
    unfold pnStore
    split <;> rfl

theorem decryptRest_wo (o : List Out) (s : St σ) (p : Pkt) (d? : Option Dec) :
    decryptRest P (wo o s) p d? = (wo o (decryptRest P s p d?).1, (decryptRest P s p d?).2) := by
  unfold decryptRest
  rw [getFullPn_wo]
  cases getFullPn s p with
  | error e => rfl
  | ok pn =>
    simp only
    cases assocData p with
    | error e => rfl
    | ok aad =>
      simp only
      cases d? with
      | none => rfl
      | some d =>
        simp only
        cases decDecrypt P d p.payload pn aad p.isServer with
        | error e => rfl
        | ok pt =>
          simp only
          rw [setLargestPn_wo]
          cases Frame.parseFrames pt with
          | none => rfl
          | some fs => exact handleFrames_wo P o _ p fs

theorem decryptPacket_wo (o : List Out) (s : St σ) (p : Pkt) :
    decryptPacket P (wo o s) p = (wo o (decryptPacket P s p).1, (decryptPacket P s p).2) := by
  unfold decryptPacket
  rw [selectDecryptor_wo]
  generalize selectDecryptor P s p = r
  obtain ⟨s', e⟩ := r
  cases e with
  | error e => rfl
  | ok d => exact decryptRest_wo P o s' p d

/-- the result of one loop iteration, with `o` in front of the output buffer -/
def woRes (o : List Out) (r : StepRes σ) : StepRes σ := { r with st := wo o r.st }

theorem afterDecrypt_wo (o : List Out) (s : St σ) (c : Option PyErr) (p : Pkt) :
    afterDecrypt P (wo o s) c p = woRes o (afterDecrypt P s c p) := by
  unfold afterDecrypt woRes
  split
  · split
    · rfl
    · simp only [wo, List.append_assoc]
  · split
    · rfl
    · split
      · split
        · rfl
        · simp only [learnCids]; split <;> rfl
      · rfl

theorem stepPkt_wo (o : List Out) (s : St σ) (p : Pkt) : stepPkt P (wo o s) p = woRes o (stepPkt P s p) := by
  unfold stepPkt
  split
  · rw [decryptPacket_wo]; exact afterDecrypt_wo P o _ _ p
  · exact afterDecrypt_wo P o s none p

theorem handleQuicPackets_wo (o : List Out) (s : St σ) (ps : List Pkt) :
    handleQuicPackets P (wo o s) ps =
      (wo o (handleQuicPackets P s ps).1, (handleQuicPackets P s ps).2.1, (handleQuicPackets P s ps).2.2) := by
  induction ps generalizing s with
  | nil => rfl
  | cons p ps ih =>
    simp only [handleQuicPackets]
    rw [stepPkt_wo]
    simp only [woRes]
    cases (stepPkt P s p).escaped with
    | some e => rfl
    | none =>
      simp only
      rw [ih]

end OutFrame

section OutFramePipeline
variable (maskFn : Dissect.MaskFn) (H : Crypto.Prims) (P : Params Tls)

theorem handleTurn_wo (o : List Out) (x : LoopSt) (pkts : List Pkt) :
    handleTurn P (wo o x.1, x.2) pkts = (wo o (handleTurn P x pkts).1, (handleTurn P x pkts).2) := by
  obtain ⟨s, e⟩ := x
  unfold handleTurn
  cases e with
  | some e => rfl
  | none =>
    simp only
    rw [handleQuicPackets_wo]
    rfl

theorem feedPre_wo (o : List Out) (s : St Tls) (dcid : Bytes) (v : Version) :
    feedPre H P (wo o s) dcid v = wo o (feedPre H P s dcid v) := by
  have hl : latchVersion (wo o s) v = wo o (latchVersion s v) := by
    unfold latchVersion
    have : (wo o s).version = s.version := rfl
    rw [this]; split <;> rfl
  have hsi : ∀ s' : St Tls, setInitialDecryptor P (wo o s') dcid = wo o (setInitialDecryptor P s' dcid) := by
    intro s'
    unfold setInitialDecryptor
    have : (wo o s').version = s'.version := rfl
    rw [this]
    cases P.devInitialKeys s'.version dcid with
    | none => rfl
    | some k => rfl
  have hp : handlePacketPre P (wo o s) dcid v = wo o (handlePacketPre P s dcid v) := by
    unfold handlePacketPre
    rw [hl]
    have : (wo o (latchVersion s v)).decInitial = (latchVersion s v).decInitial := rfl
    rw [this]
    split
    · exact hsi _
    · rfl
  unfold feedPre
  simp only [hl, hp]
  have h1 : (wo o (latchVersion s v)).decInitial = (latchVersion s v).decInitial := rfl
  have h2 : (wo o (latchVersion s v)).version = (latchVersion s v).version := rfl
  rw [h1, h2]
  split
  · cases devInitial H (latchVersion s v).version dcid <;> rfl
  · rfl

theorem dissectLoop_wo (o : List Out) (srv : Bool) (guessed : Bytes) (ts : Nat) (d : Bytes) :
    ∀ x : LoopSt,
    (Dissect.dissectLoop maskFn (fun x : LoopSt => envOf x.1) (handleTurn P) srv guessed ts (wo o x.1, x.2) d) =
      ((wo o (Dissect.dissectLoop maskFn (fun x : LoopSt => envOf x.1) (handleTurn P) srv guessed ts x d).1.1,
        (Dissect.dissectLoop maskFn (fun x : LoopSt => envOf x.1) (handleTurn P) srv guessed ts x d).1.2),
       (Dissect.dissectLoop maskFn (fun x : LoopSt => envOf x.1) (handleTurn P) srv guessed ts x d).2) := by
  induction hn : d.length using Nat.strongRecOn generalizing d with
  | _ n ih =>
    intro x
    by_cases hd : d = []
    · subst hd
      simp only [Lemmas.QuicDissect.dissectLoop_nil]
    · rw [Lemmas.QuicDissect.dissectLoop_cons _ _ _ _ _ _ _ _ hd, Lemmas.QuicDissect.dissectLoop_cons _ _ _ _ _ _ _ _ hd]
      have he : envOf (wo o x.1) = envOf x.1 := rfl
      simp only [he]
      have hlt := Dissect.extract_rest_lt maskFn (envOf x.1) srv guessed ts d
        (by intro h; exact hd (List.eq_nil_of_length_eq_zero h))
      rw [handleTurn_wo]
      rw [ih _ (by rw [← hn]; exact hlt) _ rfl]

theorem handleDatagram_wo (o : List Out) (s : St Tls) (fromClient : Bool) (dcid : Bytes) (v : Version) (ts : Nat)
    (payload : Bytes) :
    handleDatagram maskFn H P (wo o s) fromClient dcid v ts payload =
      (wo o (handleDatagram maskFn H P s fromClient dcid v ts payload).1,
        (handleDatagram maskFn H P s fromClient dcid v ts payload).2) := by
  unfold handleDatagram
  simp only [feedPre_wo]
  have hd : packetIsServer (wo o (feedPre H P s dcid v)) fromClient dcid =
      packetIsServer (feedPre H P s dcid v) fromClient dcid := rfl
  rw [hd]
  have := dissectLoop_wo maskFn P o (packetIsServer (feedPre H P s dcid v) fromClient dcid) dcid ts payload
    (feedPre H P s dcid v, none)
  simp only at this
  rw [this]

/-- the state without its output buffer -/
def noOut (s : St Tls) : St Tls := { s with out := [] }

theorem wo_noOut (s : St Tls) : wo s.out (noOut s) = s := by
  unfold wo noOut; simp

end OutFramePipeline
section ShortKeeps
variable {σ : Type} (P : Params σ)

/-- what a 1-RTT packet without CRYPTO frames leaves alone besides what `step_one_rtt_nc` lists: the Handshake and Early
    decryptors and the packet-number tables of the Initial and Handshake spaces -/
theorem step_one_rtt_keep (L : SealLaws P.prims) (sel : SuiteSel) (v : Version) (k0 : AppKeys)
    (hk : KeysWf P sel v k0)
    (x : SPkt) (s : St σ) (gc gs lc ls : Nat) (hrel : Rel1 P sel v k0 s gc gs lc ls)
    (hlv : x.level = .oneRtt) (hlo : (if x.srv then gs else gc) ≤ x.gen) (hhi : x.gen ≤ (if x.srv then gs else gc) + 1)
    (hpn : PnLenOk (if x.srv then ls else lc) x.pn x.pnLen) (hwf : WellFormedSeq x.frames)
    (hnc : ∀ f ∈ x.frames, isCryptoQ f = false) :
    let s' := (stepPkt P s (emit1 P L sel v k0 x)).st
    s'.decHandshake = s.decHandshake ∧ s'.decEarly = s.decEarly ∧
    s'.pnClient.initial = s.pnClient.initial ∧ s'.pnClient.handshake = s.pnClient.handshake ∧
    s'.pnServer.initial = s.pnServer.initial ∧ s'.pnServer.handshake = s.pnServer.handshake := by
  obtain ⟨hinv, hflag, hpc, hps⟩ := hrel
  generalize hp : emit1 P L sel v k0 x = p
  have hh : p.htype = .short := by subst hp; simp [emit1, emit, hlv]
  have ht : p.ptype = .rtt1 := by subst hp; simp [emit1, emit, hlv]
  have hkp : p.keyPhase = some (x.gen % 2) := by subst hp; simp [emit1, emit, hlv]
  have hsrv : p.isServer = x.srv := by subst hp; simp [emit1, emit, hlv]
  have hpnb : p.pn = some (pnBytes x.pnLen x.pn) := by subst hp; simp [emit1, emit, hlv]
  have hpl : p.payload = some (L.aeadSeal sel.alg (genDir (P.keyUpdate sel v) k0 x.srv x.gen).key
      (nonce (genDir (P.keyUpdate sel v) k0 x.srv x.gen).iv x.pn) (header x) 16 (encodeAll x.frames)) := by
    subst hp; simp [emit1, emit, hlv, protectedPayload]
  have haad : assocData p = .ok (header x) := by subst hp; exact assocData_emit _ _ _ _
  obtain ⟨s', h1, h2, h3⟩ := selectDecryptor_tracks P sel v k0 s gc gs hinv p x.gen hh ht hkp
    (by rw [hsrv]; exact hlo) (by rw [hsrv]; exact hhi)
  obtain ⟨e1, e2, e3⟩ := step_short_rtt1 P s p ht
  have hdp : decryptPacket P s p = decryptRest P s' p (some (genDec P sel v k0 x.gen)) := by
    simp [decryptPacket, h1]
  have hs' : s'.pnClient = s.pnClient ∧ s'.pnServer = s.pnServer ∧ s'.decHandshake = s.decHandshake ∧
      s'.decEarly = s.decEarly := by
    obtain ⟨_, _, _, _, _, rfl⟩ := h3; exact ⟨rfl, rfl, rfl, rfl⟩
  obtain ⟨t2, t3, t4, t5⟩ := hs'
  have hdir : (if p.isServer then (genDec P sel v k0 x.gen).server else some (genDec P sel v k0 x.gen).client)
      = some (genDir (P.keyUpdate sel v) k0 x.srv x.gen) := by
    rw [hsrv]; cases x.srv <;> simp [genDec, AppKeys.toDec, genDir]
  have hlarge : pnLargest s' p.isServer .app = (if x.srv then ls else lc) := by
    rw [hsrv]; cases x.srv <;> simp [pnLargest, PnTab.get, t2, t3, hpc, hps]
  have hrest := decryptRest_emitted P L s' p (genDec P sel v k0 x.gen) (genDir (P.keyUpdate sel v) k0 x.srv x.gen)
    .app _ x.pn x.pnLen (header x) x.frames hdir (by rw [ht]; rfl) (by simp [hasPnAttr, hh]) hlarge hpnb hpn haad
    (by rw [hpl]; rfl) hwf (hk x.srv x.gen).1 (hk x.srv x.gen).2
  have hncP : ∀ g ∈ (normalize x.frames).map QFrame.toParsed, isCryptoP g = false := by
    intro g hg
    obtain ⟨f, hf, rfl⟩ := List.mem_map.mp hg
    rw [toParsed_isCrypto]; exact normalize_noCrypto _ hnc f hf
  rw [hdp, hrest, handleFrames_nc P _ p _ hncP] at e1
  intro s''
  have : s'' = afterFrames (pnStore s' p.isServer Space.app (max (if x.srv then ls else lc) x.pn)) p
      ((normalize x.frames).map QFrame.toParsed) := e1
  rw [this]
  unfold pnStore
  cases p.isServer <;> simp [afterFrames, PnTab.set, t2, t3, t4, t5]

end ShortKeeps

section ShortTurn
variable (maskFn : Dissect.MaskFn) (H : Crypto.Prims) (Pc : Cipher.Prims)

/-- the dissector loop on the wire bytes of one 1-RTT packet (the last packet of a datagram), in an established state: the
    sender's packet is recovered and handled by `stepPkt` -/
theorem one_turn (kl : List Keylog.Key) (L : SealLaws Pc) (sel : SuiteSel) (v : Version) (k0 : AppKeys)
    (hpC hpS : Bytes) (chacha : Bool) (hk : KeysWf (params H Pc kl) sel v k0)
    (s : St Tls) (gc gs lc ls : Nat) (cc sc : List Bytes)
    (hest : Est H Pc kl sel v k0 hpC hpS chacha s gc gs lc ls cc sc) (d : Dg1)
    (hlv : d.x.level = .oneRtt) (hlo : (if d.x.srv then gs else gc) ≤ d.x.gen)
    (hhi : d.x.gen ≤ (if d.x.srv then gs else gc) + 1)
    (hpn : PnLenOk (if d.x.srv then ls else lc) d.x.pn d.x.pnLen) (hwf : WellFormedSeq d.x.frames)
    (hdg : DgOk maskFn Pc L sel.alg (genDir (keyUpdate H sel v) k0 d.x.srv d.x.gen) (if d.x.srv then hpS else hpC)
      chacha d) :
    (Dissect.dissectLoop maskFn (fun x : LoopSt => envOf x.1) (handleTurn (params H Pc kl)) d.x.srv d.x.dcid d.x.ts
      (s, none) (d.wire L.aeadSeal sel.alg (genDir (keyUpdate H sel v) k0 d.x.srv d.x.gen))).1 =
    ((stepPkt (params H Pc kl) s (emit1 (params H Pc kl) L sel v k0 d.x)).st, none) := by
  generalize hkd : genDir (keyUpdate H sel v) k0 d.x.srv d.x.gen = kd at hdg ⊢
  obtain ⟨hrel, hinit, hhpc, hhps, hsuite, hver, hcc, hsc⟩ := hest
  have hP : (params H Pc kl).keyUpdate = keyUpdate H := rfl
  obtain ⟨⟨hn1, hn4⟩, hpn'⟩ := hpn
  have hkwf := hk d.x.srv d.x.gen
  rw [hP, hkd] at hkwf
  have hlen : (protectedPayload L.aeadSeal sel.alg kd d.x).length = (encodeAll d.x.frames).length + 16 := by
    unfold protectedPayload
    have hnl : (nonce kd.iv d.x.pn).length = kd.iv.length := by
      simp [nonce, Lemmas.QuicVarint.ofNatBE_length]
    exact L.seal_len _ _ _ _ _ _ (by rw [hnl]; exact hkwf.1)
  have hextract : Dissect.extract maskFn (envOf s) d.x.srv d.x.dcid d.x.ts (d.wire L.aeadSeal sel.alg kd) =
      { pkts := [emit1 (params H Pc kl) L sel v k0 d.x], rest := [] } := by
    have := C02Dissect.dissect_encode_short maskFn (envOf s) d.x.srv d.x.ts
      (shortOf d.x (protectedPayload L.aeadSeal sel.alg kd d.x)) (shortOf_wf _ _ hn1 hn4)
      (by show 20 ≤ (pnBytes d.x.pnLen d.x.pn).length + (protectedPayload L.aeadSeal sel.alg kd d.x).length
          rw [C02Capstone.pnBytes_length, hlen]; have := hdg.padded; omega)
      (if d.x.srv then hpS else hpC) d.mask
      (by cases hs : d.x.srv <;> simp [envOf, HpKeys.get, hhpc, hhps])
      (by show maskFn (s.tls.msgs.ciphersuite == some [0x13, 0x03]) _ _ = _; rw [hsuite]; exact hdg.mask)
      hdg.mask5
    rw [shortOf_toPkt _ _ _ _ hlv hn1 hn4] at this
    unfold emit1
    rw [hP, hkd]
    exact this
  have hne : d.wire L.aeadSeal sel.alg kd ≠ [] := Lemmas.QuicDissect.protect_short_ne_nil _ _
  obtain ⟨c1, c2, c3, c4, c5, c6, c7, c8⟩ := step_one_rtt_nc (params H Pc kl) L sel v k0 hk d.x s gc gs lc ls hrel hlv
    hlo hhi ⟨⟨hn1, hn4⟩, hpn'⟩ hwf (by
      intro f hf
      have := hdg.noCrypto
      unfold hasCrypto at this
      rw [List.any_eq_false] at this
      have := this f hf
      cases f <;> first | rfl | (simp at this))
  have hturn : handleTurn (params H Pc kl) (s, none) [emit1 (params H Pc kl) L sel v k0 d.x] =
      ((stepPkt (params H Pc kl) s (emit1 (params H Pc kl) L sel v k0 d.x)).st, none) := by
    unfold handleTurn
    simp only [handleQuicPackets, c2]
    congr 1
    apply stampVer_id
    rw [c5, hver, c4.inv.version, hrel.inv.version]
  rw [Lemmas.QuicDissect.dissectLoop_cons _ _ _ _ _ _ _ _ hne]
  simp only [hextract, hturn, Lemmas.QuicDissect.dissectLoop_nil]

end ShortTurn
/-! ### one interleaved history: datagrams of coalesced packets of several levels -/

/-- one datagram of the connection (RFC 9000 §12.2): coalesced long-header packets (Initial / Handshake), optionally
    followed by ONE 1-RTT packet (a short-header packet has no Length field: it is the last packet of its datagram) -/
structure DgM where
  srv : Bool
  ts : Nat
  longs : List PkH
  short : Option Dg1

/-- what the main loop reads off the first packet of the datagram: its Destination Connection ID (for a short header: the
    one the loop's CID search finds) and, for a long header, version 1 -/
def DgM.dcid (d : DgM) : Bytes :=
  match d.longs, d.short with
  | q :: _, _ => q.x.dcid
  | [], some o => o.x.dcid
  | [], none => []

def DgM.ver (d : DgM) : MainLoop.Version := if d.longs = [] then .unknown else .v1

section Mixed
variable (maskFn : Dissect.MaskFn) (H : Crypto.Prims) (Pc : Cipher.Prims)

/-- the UDP payload -/
def DgM.wire (L : SealLaws Pc) (dcid0 : Bytes) (sel : SuiteSel) (sh ch sa ca : Bytes) (d : DgM) : Bytes :=
  (d.longs.map (pkWire H Pc L dcid0 sel sh ch)).flatten ++
    (d.short.map (wireOf H Pc L sel .v1 (rfcGen (hashOf H sel.hash) sel.keyLen sa ca 0))).getD []

/-- the observer's bookkeeping after a 1-RTT packet: largest packet number of the application space, connection IDs issued -/
def _root_.TLX.Props.C02Capstone.Trk.short (t : Trk) (x : SPkt) : Trk :=
  { t with tc := if x.srv then t.tc else { t.tc with app := max t.tc.app x.pn },
           ts := if x.srv then { t.ts with app := max t.ts.app x.pn } else t.ts,
           cc := if x.srv then t.cc else issue t.cc (newCids x.frames),
           sc := if x.srv then issue t.sc (newCids x.frames) else t.sc }

def _root_.TLX.Props.C02Capstone.Trk.dgm (t : Trk) (d : DgM) : Trk :=
  match d.short with
  | none => t.run d.longs
  | some o => (t.run d.longs).short o.x

/-- the 1-RTT packet that closes a datagram of the handshake phase, relative to the bookkeeping `t` after the datagram's
    long-header packets:
    `keyed`  the ServerHello was seen before (same or earlier datagram): the tool has derived the 1-RTT keys;
    `gen0`   no key update yet (RFC 9001 §6: not before the handshake is confirmed);
    `dcid`   RFC 9000 §12.2: coalesced packets carry the same Destination Connection ID;
    the rest as in `Send1`. -/
structure ShortOk (L : SealLaws Pc) (sel : SuiteSel) (sa ca : Bytes) (t : Trk) (d : DgM) (o : Dg1) : Prop where
  srv : o.x.srv = d.srv
  ts : o.x.ts = d.ts
  dcid : o.x.dcid = d.dcid
  keyed : t.keyed = true
  level : o.x.level = .oneRtt
  gen0 : o.x.gen = 0
  pn : PnLenOk (if o.x.srv then t.ts.app else t.tc.app) o.x.pn o.x.pnLen
  wf : WellFormedSeq o.x.frames
  dg : DgOk maskFn Pc L sel.alg (genDir (keyUpdate H sel .v1) (rfcGen (hashOf H sel.hash) sel.keyLen sa ca 0) o.x.srv 0)
    (if o.x.srv then quicHp (hashOf H sel.hash) sa sel.keyLen else quicHp (hashOf H sel.hash) ca sel.keyLen)
    (chachaOf t.core) o

/-- one datagram of the interleaved history, relative to the bookkeeping `t` before it -/
structure MixDgOk (L : SealLaws Pc) (dcid0 : Bytes) (sel : SuiteSel) (sh ch sa ca : Bytes) (t : Trk) (d : DgM) : Prop where
  dir : ∀ q ∈ d.longs, q.x.srv = d.srv ∧ q.x.ts = d.ts
  cid : DcidOk t.cc t.sc d.srv d.dcid
  longs : HsPks maskFn H Pc L dcid0 sel sh ch t d.longs
  nonempty : d.longs ≠ [] ∨ d.short.isSome = true
  short : ∀ o, d.short = some o → ShortOk maskFn H Pc L sel sa ca (t.run d.longs) d o

/-- what the datagram's 1-RTT packet puts into `output_buffer` -/
def DgM.shortOut (d : DgM) : List Out :=
  match d.short with
  | none => []
  | some o => expectedOf .rtt1 o.x

theorem hsSt_noOut (dcid0 : Bytes) (sel : SuiteSel) (ch sh ca sa : Bytes) (keyed : Bool) (s : St Tls) (tc ts : PnTab)
    (cc sc : List Bytes) (core : Tls) (h : HsSt H dcid0 sel ch sh ca sa keyed s tc ts cc sc core) :
    HsSt H dcid0 sel ch sh ca sa keyed (noOut s) tc ts cc sc core := by
  obtain ⟨⟨a1, a2, a3, a4, a5, a6, a7, a8, a9, _⟩, b1, b2, b3, b4, b5, b6, b7⟩ := h
  refine ⟨⟨a1, a2, a3, a4, a5, a6, a7, a8, a9, ?_⟩, b1, b2, b3, b4, b5, b6, ?_⟩
  · intro o ho; cases ho
  · intro hk
    obtain ⟨k1, k2, k3, k4, k5, k6, k7⟩ := b7 hk
    exact ⟨k1, k2, k3, k4, k5, k6, k7⟩

/-- `hs_loop` with more bytes after the long-header packets -/
theorem hs_loop_more (hl : H.Lawful) (kl : List Keylog.Key) (L : SealLaws Pc) (dcid0 cr csel ch sh ca sa : Bytes)
    (early : Option Bytes) (sel : SuiteSel) (hsel : selectSuite csel = some sel) (hkl : KeylogHas kl cr ch sh ca sa early)
    (srv : Bool) (ts : Nat) (guessed : Bytes) (qs : List PkH) (hdir : ∀ q ∈ qs, q.x.srv = srv ∧ q.x.ts = ts)
    (rest : List CryptoIn) (more : Bytes) (t : Trk) (s : St Tls)
    (hst : HsSt H dcid0 sel ch sh ca sa t.keyed s t.tc t.ts t.cc t.sc t.core)
    (hok : HsPks maskFn H Pc L dcid0 sel sh ch t qs) (htr : PTrace cr csel t.core (insOf qs ++ rest)) :
    ∃ s', HsSt H dcid0 sel ch sh ca sa (t.run qs).keyed s' (t.run qs).tc (t.run qs).ts (t.run qs).cc (t.run qs).sc
        (t.run qs).core ∧
      PTrace cr csel (t.run qs).core rest ∧
      (Dissect.dissectLoop maskFn (fun x : LoopSt => envOf x.1) (handleTurn (params H Pc kl)) srv guessed ts
        (s, none) ((qs.map (pkWire H Pc L dcid0 sel sh ch)).flatten ++ more)).1 =
      (Dissect.dissectLoop maskFn (fun x : LoopSt => envOf x.1) (handleTurn (params H Pc kl)) srv guessed ts
        (s', none) more).1 := by
  induction qs generalizing t s with
  | nil => exact ⟨s, hst, htr, by simp⟩
  | cons q qs ih =>
    obtain ⟨hq, hqs⟩ := hok
    obtain ⟨hsv, hts⟩ := hdir q (List.mem_cons_self ..)
    have htr' : PTrace cr csel t.core (cryptoIns q.x ++ (insOf qs ++ rest)) := by
      simpa [insOf, List.flatMap_cons, List.append_assoc] using htr
    obtain ⟨s1, a1, a2, a3⟩ := hs_turn maskFn H Pc hl kl L dcid0 cr csel ch sh ca sa early sel hsel hkl t q hq _ s hst htr'
      guessed ((qs.map (pkWire H Pc L dcid0 sel sh ch)).flatten ++ more)
    rw [hsv, hts] at a3
    obtain ⟨s2, b1, b2, b3⟩ := ih (fun q' hq' => hdir q' (List.mem_cons_of_mem _ hq')) (t.step q.x) s1 a1 hqs a2
    refine ⟨s2, b1, b2, ?_⟩
    simp only [List.map_cons, List.flatten_cons, List.append_assoc]
    rw [a3, b3]


theorem pnTab_ext (a b : PnTab) (h1 : a.initial = b.initial) (h2 : a.handshake = b.handshake) (h3 : a.app = b.app) :
    a = b := by
  cases a; cases b; simp_all

/-- HsSt after the datagram's 1-RTT packet (generation 0), for the state without its output buffer -/
theorem hsSt_after_short (hl : H.Lawful) (kl : List Keylog.Key) (L : SealLaws Pc) (dcid0 : Bytes) (sel : SuiteSel)
    (ch sh ca sa : Bytes) (hk : KeysWf (params H Pc kl) sel .v1 (rfcGen (hashOf H sel.hash) sel.keyLen sa ca 0))
    (t : Trk) (s : St Tls) (hkeyed : t.keyed = true)
    (hst : HsSt H dcid0 sel ch sh ca sa t.keyed s t.tc t.ts t.cc t.sc t.core) (x : SPkt)
    (hlv : x.level = .oneRtt) (hg : x.gen = 0)
    (hpn : PnLenOk (if x.srv then t.ts.app else t.tc.app) x.pn x.pnLen) (hwf : WellFormedSeq x.frames)
    (hnc : ∀ f ∈ x.frames, isCryptoQ f = false) :
    let r := stepPkt (params H Pc kl) s
      (emit1 (params H Pc kl) L sel .v1 (rfcGen (hashOf H sel.hash) sel.keyLen sa ca 0) x)
    HsSt H dcid0 sel ch sh ca sa (t.short x).keyed (noOut r.st) (t.short x).tc (t.short x).ts (t.short x).cc
      (t.short x).sc (t.short x).core ∧ r.st.out = s.out ++ expectedOf .rtt1 x := by
  intro r
  have hst1 : HsSt H dcid0 sel ch sh ca sa true s t.tc t.ts t.cc t.sc t.core := by rw [← hkeyed]; exact hst
  have hest := est_of_hsSt H Pc kl dcid0 sel ch sh ca sa s t.tc t.ts t.cc t.sc t.core hst1
  obtain ⟨hrel, hinit, hhpc, hhps, hsuite, hver, hcc, hsc⟩ := hest
  have hlo : (if x.srv then 0 else 0) ≤ x.gen := by rw [hg]; split <;> exact Nat.le_refl _
  have hhi : x.gen ≤ (if x.srv then 0 else 0) + 1 := by rw [hg]; split <;> omega
  obtain ⟨c1, c2, c3, c4, c5, c6, c7, c8⟩ := step_one_rtt_nc (params H Pc kl) L sel .v1 _ hk x s 0 0 t.tc.app t.ts.app hrel
    hlv hlo hhi hpn hwf hnc
  obtain ⟨k1, k2, k3, k4, k5, k6⟩ := step_one_rtt_keep (params H Pc kl) L sel .v1 _ hk x s 0 0 t.tc.app t.ts.app hrel
    hlv hlo hhi hpn hwf hnc
  have hgens : (if x.srv then 0 else x.gen) = 0 ∧ (if x.srv then x.gen else 0) = 0 := by
    rw [hg]; constructor <;> split <;> rfl
  rw [hgens.1, hgens.2] at c4
  obtain ⟨hinv, hflag, hpc, hps⟩ := c4
  have hK := hst.keyed hkeyed
  refine ⟨⟨⟨hinv.version, ?_, ?_, ?_, ?_, hinv.ec, hinv.es, hinv.lc, hinv.ls, ?_⟩, ?_, ?_, ?_, ?_, ?_, ?_, ?_⟩, c3⟩
  · show r.st.tls.ver = r.st.version
    rw [c5, hinv.version, hst.inv.ver, hst.inv.version]
  · show r.st.decInitial = _
    rw [c6]; exact hst.inv.init
  · show r.st.tls.hp.serverInitial = _
    rw [c5]; exact hst.inv.hpSI
  · show r.st.tls.hp.clientInitial = _
    rw [c5]; exact hst.inv.hpCI
  · intro o ho; cases ho
  · show r.st.tls.msgs.newData = false
    exact hflag
  · show coreOf r.st.tls = _
    rw [c5]; exact hst.core
  · show r.st.pnClient = _
    have h0 := hst.pc
    apply pnTab_ext
    · rw [k3, h0]; simp only [Trk.short]; cases x.srv <;> rfl
    · rw [k4, h0]; simp only [Trk.short]; cases x.srv <;> rfl
    · rw [hpc]; simp only [Trk.short]; cases x.srv <;> rfl
  · show r.st.pnServer = _
    have h0 := hst.ps
    apply pnTab_ext
    · rw [k5, h0]; simp only [Trk.short]; cases x.srv <;> rfl
    · rw [k6, h0]; simp only [Trk.short]; cases x.srv <;> rfl
    · rw [hps]; simp only [Trk.short]; cases x.srv <;> rfl
  · show r.st.clientCids = _
    rw [c7, hst.cc]
    cases hs : x.srv <;> simp [Trk.short, newCids_eq, issue_eq, hs]
  · show r.st.serverCids = _
    rw [c8, hst.sc]
    cases hs : x.srv <;> simp [Trk.short, newCids_eq, issue_eq, hs]
  · intro _
    refine ⟨hinv.suite, ?_, ?_, ?_, ?_, ?_, ?_⟩
    · show r.st.decHandshake = _
      rw [k1]; exact hK.hs
    · show r.st.decApp = _
      rw [hinv.gens]; rfl
    · show r.st.tls.hp.serverHandshake = _
      rw [c5]; exact hK.hpSH
    · show r.st.tls.hp.clientHandshake = _
      rw [c5]; exact hK.hpCH
    · show r.st.tls.hp.serverApplication = _
      rw [c5]; exact hK.hpSA
    · show r.st.tls.hp.clientApplication = _
      rw [c5]; exact hK.hpCA


/-- **One datagram of the interleaved history** through `handle_packet`, for a state that satisfies the handshake
    invariant: nothing raises, the invariant holds again (for the state without its output buffer) with the bookkeeping
    advanced, the parser hypothesis is consumed, and what was appended to `output_buffer` is: frames that are not
    exported without `-a` (the CRYPTO frames of the long-header packets), then the frames of the 1-RTT packet. -/
theorem mix_dg_step (hl : H.Lawful) (kl : List Keylog.Key) (L : SealLaws Pc) (dcid0 cr csel ch sh ca sa : Bytes)
    (early : Option Bytes) (sel : SuiteSel) (hsel : selectSuite csel = some sel) (hkl : KeylogHas kl cr ch sh ca sa early)
    (ho : (hashOf H sel.hash).outLen < 65536)
    (hsa : sa.length = (hashOf H sel.hash).outLen) (hca : ca.length = (hashOf H sel.hash).outLen)
    (t : Trk) (d : DgM) (hok : MixDgOk maskFn H Pc L dcid0 sel sh ch sa ca t d) (rest : List CryptoIn) (s : St Tls)
    (hst : HsSt H dcid0 sel ch sh ca sa t.keyed (feedPre H (params H Pc kl) s d.dcid (sver d.ver)) t.tc t.ts t.cc t.sc
      t.core)
    (htr : PTrace cr csel t.core (insOf d.longs ++ rest)) :
    let r := handleDatagram maskFn H (params H Pc kl) s (!d.srv) d.dcid (sver d.ver) d.ts
      (d.wire H Pc L dcid0 sel sh ch sa ca)
    r.2 = none ∧
    HsSt H dcid0 sel ch sh ca sa (t.dgm d).keyed (noOut r.1) (t.dgm d).tc (t.dgm d).ts (t.dgm d).cc (t.dgm d).sc
      (t.dgm d).core ∧
    PTrace cr csel (t.dgm d).core rest ∧
    ∃ J, (∀ o ∈ J, UdpOut.exported false (frameOf o) = none) ∧ r.1.out = J ++ d.shortOut := by
  obtain ⟨hdir, hcid, hlongs, hne, hshort⟩ := hok
  generalize hs0 : feedPre H (params H Pc kl) s d.dcid (sver d.ver) = s0 at hst
  have hsrv : packetIsServer s0 (!d.srv) d.dcid = d.srv :=
    packetIsServer_of_dcidOk s0 t.cc t.sc hst.cc hst.sc d.srv d.dcid hcid
  obtain ⟨s1, a1, a2, a3⟩ := hs_loop_more maskFn H Pc hl kl L dcid0 cr csel ch sh ca sa early sel hsel hkl d.srv d.ts d.dcid
    d.longs hdir rest ((d.short.map (wireOf H Pc L sel .v1 (rfcGen (hashOf H sel.hash) sel.keyLen sa ca 0))).getD [])
    t s0 hst hlongs htr
  intro r
  have hr : r = (Dissect.dissectLoop maskFn (fun x : LoopSt => envOf x.1) (handleTurn (params H Pc kl)) d.srv d.dcid d.ts
      (s1, none) ((d.short.map (wireOf H Pc L sel .v1 (rfcGen (hashOf H sel.hash) sel.keyLen sa ca 0))).getD [])).1 := by
    show handleDatagram _ _ _ _ _ _ _ _ _ = _
    unfold handleDatagram
    simp only [hs0, hsrv]
    exact a3
  cases hso : d.short with
  | none =>
    have hr' : r = (s1, none) := by
      rw [hr, hso]; simp [Lemmas.QuicDissect.dissectLoop_nil]
    have ht : t.dgm d = t.run d.longs := by unfold Trk.dgm; rw [hso]
    rw [hr', ht]
    refine ⟨rfl, hsSt_noOut H _ _ _ _ _ _ _ _ _ _ _ _ _ a1, a2, s1.out, a1.inv.out, ?_⟩
    simp [DgM.shortOut, hso]
  | some o =>
    obtain ⟨o1, o2, o3, o4, o5, o6, o7, o8, o9⟩ := hshort o hso
    have hk := keysWf_rfc H hl Pc kl csel sel hsel .v1 ho sa ca hsa hca
    have hst1 : HsSt H dcid0 sel ch sh ca sa true s1 (t.run d.longs).tc (t.run d.longs).ts (t.run d.longs).cc
        (t.run d.longs).sc (t.run d.longs).core := by rw [← o4]; exact a1
    have hest := est_of_hsSt H Pc kl dcid0 sel ch sh ca sa s1 _ _ _ _ _ hst1
    have hlo : (if o.x.srv then 0 else 0) ≤ o.x.gen := by rw [o6]; split <;> exact Nat.le_refl _
    have hhi : o.x.gen ≤ (if o.x.srv then 0 else 0) + 1 := by rw [o6]; split <;> omega
    have hdg : DgOk maskFn Pc L sel.alg
        (genDir (keyUpdate H sel .v1) (rfcGen (hashOf H sel.hash) sel.keyLen sa ca 0) o.x.srv o.x.gen)
        (if o.x.srv then quicHp (hashOf H sel.hash) sa sel.keyLen else quicHp (hashOf H sel.hash) ca sel.keyLen)
        (chachaOf (t.run d.longs).core) o := by rw [o6]; exact o9
    have hturn := one_turn maskFn H Pc kl L sel .v1 _ _ _ _ hk s1 0 0 _ _ _ _ hest o o5 hlo hhi o7 o8 hdg
    have hr' : r = ((stepPkt (params H Pc kl) s1
        (emit1 (params H Pc kl) L sel .v1 (rfcGen (hashOf H sel.hash) sel.keyLen sa ca 0) o.x)).st, none) := by
      rw [hr, hso, ← o1, ← o2, ← o3]; exact hturn
    have hnc : ∀ f ∈ o.x.frames, isCryptoQ f = false := by
      intro f hf
      have := o9.noCrypto
      unfold hasCrypto at this
      rw [List.any_eq_false] at this
      have := this f hf
      cases f <;> first | rfl | (simp at this)
    obtain ⟨b1, b2⟩ := hsSt_after_short H Pc hl kl L dcid0 sel ch sh ca sa hk (t.run d.longs) s1 o4 a1 o.x o5 o6 o7 o8 hnc
    have ht : t.dgm d = (t.run d.longs).short o.x := by unfold Trk.dgm; rw [hso]
    rw [hr', ht]
    refine ⟨rfl, b1, ?_, s1.out, a1.inv.out, ?_⟩
    · exact a2
    · rw [b2]; simp [DgM.shortOut, hso]


/-- in the handshake phase `handle_packet`'s prologue changes nothing (the Initial decryptor exists, the version is latched) -/
theorem feedPre_mixed (P : Params Tls) (dcid0 : Bytes) (s : St Tls) (hi : HsInv H dcid0 s) (d : DgM) :
    feedPre H P s d.dcid (sver d.ver) = s := by
  unfold DgM.ver
  split
  · exact feedPre_est H _ s _ (by rw [hi.init]; rfl) hi.ver
  · exact feedPre_hs H _ dcid0 _ s hi

end Mixed
section MixedFeed
variable (maskFn : Dissect.MaskFn) (H : Crypto.Prims) (Pc : Cipher.Prims) (info : Nat → Pipeline.Info)

/-- the part of `output_buffer` that is exported without `-a` -/
def expo (l : List Out) : List Out := l.filter fun o => (UdpOut.exported false (frameOf o)).isSome

theorem expo_append (a b : List Out) : expo (a ++ b) = expo a ++ expo b := List.filter_append ..

theorem expo_none (l : List Out) (h : ∀ o ∈ l, UdpOut.exported false (frameOf o) = none) : expo l = [] := by
  unfold expo
  rw [List.filter_eq_nil_iff]
  intro o ho; simp [h o ho]

/-- the captured frame `p` carries the datagram `d` -/
structure CarriesM (c : QConn) (w : DgM → Bytes) (p : MainLoop.Pkt) (d : DgM) : Prop where
  payload : p.payload = w d
  ts : (info p.tag).ts = d.ts
  dir : (p.src == c.client) = !d.srv

theorem noOut_wo (o : List Out) (s : St Tls) : noOut (wo o s) = noOut s := rfl

theorem mix_feed_step (hl : H.Lawful) (kl : List Keylog.Key) (L : SealLaws Pc) (dcid0 cr csel ch sh ca sa : Bytes)
    (early : Option Bytes) (sel : SuiteSel) (hsel : selectSuite csel = some sel) (hkl : KeylogHas kl cr ch sh ca sa early)
    (ho : (hashOf H sel.hash).outLen < 65536)
    (hsa : sa.length = (hashOf H sel.hash).outLen) (hca : ca.length = (hashOf H sel.hash).outLen)
    (t : Trk) (d : DgM) (hok : MixDgOk maskFn H Pc L dcid0 sel sh ch sa ca t d) (rest : List CryptoIn)
    (c : QConn) (hr : c.raised = none)
    (hst : HsSt H dcid0 sel ch sh ca sa t.keyed (feedPre H (params H Pc kl) (noOut c.st) d.dcid (sver d.ver)) t.tc t.ts
      t.cc t.sc t.core)
    (htr : PTrace cr csel t.core (insOf d.longs ++ rest)) (p : MainLoop.Pkt)
    (hcar : CarriesM info c (DgM.wire H Pc L dcid0 sel sh ch sa ca) p d) :
    let c' := (quicMachine maskFn H Pc info).feed c kl p d.dcid d.ver
    c'.raised = none ∧
    HsSt H dcid0 sel ch sh ca sa (t.dgm d).keyed (noOut c'.st) (t.dgm d).tc (t.dgm d).ts (t.dgm d).cc (t.dgm d).sc
      (t.dgm d).core ∧
    PTrace cr csel (t.dgm d).core rest ∧
    expo c'.st.out = expo c.st.out ++ expo d.shortOut ∧
    c'.opts = c.opts ∧ c'.server = c.server ∧ c'.client = c.client ∧ c'.serverMac = c.serverMac ∧
    c'.clientMac = c.clientMac ∧ c'.ipv6 = c.ipv6 := by
  obtain ⟨w1, w2, w3⟩ := hcar
  obtain ⟨a1, a2, a3, J, a4, a5⟩ := mix_dg_step maskFn H Pc hl kl L dcid0 cr csel ch sh ca sa early sel hsel hkl ho hsa hca t d
    hok rest (noOut c.st) hst htr
  generalize hr0 : handleDatagram maskFn H (params H Pc kl) (noOut c.st) (!d.srv) d.dcid (sver d.ver) d.ts
    (d.wire H Pc L dcid0 sel sh ch sa ca) = r0 at a1 a2 a5
  have hfeed : (quicMachine maskFn H Pc info).feed c kl p d.dcid d.ver =
      { c with st := wo c.st.out r0.1, raised := r0.2 } := by
    simp only [quicMachine, hr]
    rw [w1, w2, w3]
    have hw : handleDatagram maskFn H (params H Pc kl) c.st (!d.srv) d.dcid (sver d.ver) d.ts
        (d.wire H Pc L dcid0 sel sh ch sa ca) = (wo c.st.out r0.1, r0.2) := by
      conv => lhs; rw [← wo_noOut c.st]
      rw [handleDatagram_wo, hr0]
    rw [hw]
  intro c'
  have hc' : c' = { c with st := wo c.st.out r0.1, raised := r0.2 } := hfeed
  rw [hc']
  refine ⟨a1, ?_, a3, ?_, rfl, rfl, rfl, rfl, rfl, rfl⟩
  · show HsSt H dcid0 sel ch sh ca sa _ (noOut (wo c.st.out r0.1)) _ _ _ _ _
    rw [noOut_wo]; exact a2
  · show expo (c.st.out ++ r0.1.out) = _
    rw [a5, expo_append, expo_append, expo_none J a4, List.nil_append]


/-- the interleaved history through the main loop's calls -/
def mixFeedAll (QM : MainLoop.QuicMachine Keylog.Key QConn Pipeline.OutPkt) (c : QConn) :
    List (List Keylog.Key × MainLoop.Pkt × DgM) → QConn
  | [] => c
  | (kl, p, d) :: rest => mixFeedAll QM (QM.feed c kl p d.dcid d.ver) rest

/-- every datagram against the bookkeeping after the previous ones -/
def MixDgs (L : SealLaws Pc) (dcid0 : Bytes) (sel : SuiteSel) (sh ch sa ca : Bytes) : Trk → List DgM → Prop
  | _, [] => True
  | t, d :: ds => MixDgOk maskFn H Pc L dcid0 sel sh ch sa ca t d ∧ MixDgs L dcid0 sel sh ch sa ca (t.dgm d) ds

def _root_.TLX.Props.C02Capstone.Trk.runM (t : Trk) (ds : List DgM) : Trk := ds.foldl Trk.dgm t

/-- the CRYPTO inputs of the history, in processing order -/
def allInsM (ds : List DgM) : List CryptoIn := ds.flatMap fun d => insOf d.longs

/-- the 1-RTT packets of the history, in capture order -/
def shortsOf (ds : List DgM) : List Dg1 := ds.filterMap (·.short)

theorem shortOut_flatMap (ds : List DgM) :
    ds.flatMap DgM.shortOut = (shortsOf ds).flatMap fun d => expectedOf .rtt1 d.x := by
  induction ds with
  | nil => rfl
  | cons d ds ih =>
    simp only [List.flatMap_cons, shortsOf, List.filterMap_cons] at ih ⊢
    cases h : d.short with
    | none => simp [DgM.shortOut, h, ih]
    | some o => simp [DgM.shortOut, h, ih]

theorem mix_feed_rest (hl : H.Lawful) (L : SealLaws Pc) (dcid0 cr csel ch sh ca sa : Bytes)
    (early : Option Bytes) (sel : SuiteSel) (hsel : selectSuite csel = some sel)
    (ho : (hashOf H sel.hash).outLen < 65536)
    (hsa : sa.length = (hashOf H sel.hash).outLen) (hca : ca.length = (hashOf H sel.hash).outLen)
    (items : List (List Keylog.Key × MainLoop.Pkt × DgM)) (hkl : ∀ x ∈ items, KeylogHas x.1 cr ch sh ca sa early)
    (t : Trk) (c : QConn) (hr : c.raised = none)
    (hst : HsSt H dcid0 sel ch sh ca sa t.keyed (noOut c.st) t.tc t.ts t.cc t.sc t.core)
    (hok : MixDgs maskFn H Pc L dcid0 sel sh ch sa ca t (items.map (·.2.2)))
    (htr : PTrace cr csel t.core (allInsM (items.map (·.2.2))))
    (hcar : ∀ x ∈ items, CarriesM info c (DgM.wire H Pc L dcid0 sel sh ch sa ca) x.2.1 x.2.2) :
    let c' := mixFeedAll (quicMachine maskFn H Pc info) c items
    let t' := t.runM (items.map (·.2.2))
    c'.raised = none ∧ HsSt H dcid0 sel ch sh ca sa t'.keyed (noOut c'.st) t'.tc t'.ts t'.cc t'.sc t'.core ∧
    expo c'.st.out = expo c.st.out ++ expo ((items.map (·.2.2)).flatMap DgM.shortOut) ∧
    c'.opts = c.opts ∧ c'.server = c.server ∧ c'.client = c.client ∧ c'.serverMac = c.serverMac ∧
    c'.clientMac = c.clientMac ∧ c'.ipv6 = c.ipv6 := by
  induction items generalizing t c with
  | nil => exact ⟨hr, hst, by simp [mixFeedAll, expo], rfl, rfl, rfl, rfl, rfl, rfl⟩
  | cons it rest ih =>
    obtain ⟨kl, p, d⟩ := it
    obtain ⟨hd, hds⟩ := hok
    have htr' : PTrace cr csel t.core (insOf d.longs ++ allInsM (rest.map (·.2.2))) := by
      simpa [allInsM, List.flatMap_cons] using htr
    have hpre : feedPre H (params H Pc kl) (noOut c.st) d.dcid (sver d.ver) = noOut c.st :=
      feedPre_mixed H _ dcid0 _ hst.inv d
    obtain ⟨b1, b2, b3, b4, b5, b6, b7, b8, b9, b10⟩ := mix_feed_step maskFn H Pc info hl kl L dcid0 cr csel ch sh ca sa early
      sel hsel (hkl (kl, p, d) (List.mem_cons_self ..)) ho hsa hca t d hd _ c hr (by rw [hpre]; exact hst) htr' p
      (hcar (kl, p, d) (List.mem_cons_self ..))
    obtain ⟨i1, i2, i3, i4, i5, i6, i7, i8, i9⟩ := ih (fun x hx => hkl x (List.mem_cons_of_mem _ hx)) (t.dgm d) _ b1 b2 hds b3
      (fun x hx => by
        obtain ⟨u1, u2, u3⟩ := hcar x (List.mem_cons_of_mem _ hx)
        exact ⟨u1, u2, by rw [b7]; exact u3⟩)
    refine ⟨i1, i2, ?_, i4.trans b5, i5.trans b6, i6.trans b7, i7.trans b8, i8.trans b9, i9.trans b10⟩
    show expo (mixFeedAll _ _ rest).st.out = _
    rw [i3, b4]
    simp only [List.map_cons, List.flatMap_cons, expo_append, List.append_assoc]

end MixedFeed

section Interleaved
variable (maskFn : Dissect.MaskFn) (H : Crypto.Prims) (Pc : Cipher.Prims) (info : Nat → Pipeline.Info)
open TLX.Quic.UdpOut TLX.Props.C02Out

theorem est_of_noOut (kl : List Keylog.Key) (sel : SuiteSel) (v : Version) (k0 : AppKeys) (hpC hpS : Bytes) (chacha : Bool)
    (s : St Tls) (gc gs lc ls : Nat) (cc sc : List Bytes)
    (h : Est H Pc kl sel v k0 hpC hpS chacha (noOut s) gc gs lc ls cc sc) :
    Est H Pc kl sel v k0 hpC hpS chacha s gc gs lc ls cc sc := by
  obtain ⟨⟨⟨a1, a2, a3, a4, a5, a6, a7⟩, b1, b2, b3⟩, c1, c2, c3, c4, c5, c6, c7⟩ := h
  exact ⟨⟨⟨a1, a2, a3, a4, a5, a6, a7⟩, b1, b2, b3⟩, c1, c2, c3, c4, c5, c6, c7⟩

theorem filter_map_frameOf (l : List Out) :
    (l.map frameOf).filter (fun f => (exported false f).isSome) = (expo l).map frameOf := by
  unfold expo
  induction l with
  | nil => rfl
  | cons o l ih =>
    simp only [List.map_cons, List.filter_cons]
    split <;> simp [ih]

/-- `build` looks at the exported frames only -/
theorem build_congr (a b : List Out) (h : expo a = expo b) :
    build false (a.map frameOf) = build false (b.map frameOf) := by
  rw [build_eq_runs, build_eq_runs, filter_map_frameOf, filter_map_frameOf, h]

/-- **C02 for a whole connection as ONE interleaved history.** From a fresh session:
    * `d0 :: itemsA` — datagrams of coalesced packets of several levels (`DgM`: Initial / Handshake packets, optionally
      closed by a 1-RTT packet), both directions interleaved in any way — in particular 1-RTT data of the server before the
      client's Finished, 1-RTT packets coalesced behind Handshake packets — under `MixDgs`: the conditions of
      `quic_handshake_establishes` for the long-header packets (`HsPkOk`), and for a 1-RTT packet: it comes after the
      ServerHello was captured (`keyed`; the tool derives ALL keys, also the 1-RTT keys, when the CRYPTO stream completes
      the ServerHello, provided the key log has the connection's lines), it is still in key generation 0, it carries the
      datagram's Destination Connection ID, packet number in the RFC window, no CRYPTO frames;
    * then `itemsB` — 1-RTT datagrams only (`Send1`: any key updates).
    `hadj`: CONSECUTIVE data-carrying datagrams differ in (capture microsecond, direction) — the builder merges adjacent
    frames of equal time and direction.
    Nothing raises, and the export without `-a` is exactly one UDP frame per DATAGRAM whose 1-RTT packet carried STREAM
    data, in capture order, with that data, the datagram's capture time and direction. -/
theorem quic_interleaved_exact_adj (hl : H.Lawful) (h32 : H.sha256.outLen = 32) (L : SealLaws Pc)
    (cr csel ch sh ca sa : Bytes) (early : Option Bytes) (sel : SuiteSel) (hsel : selectSuite csel = some sel)
    (ho : (hashOf H sel.hash).outLen < 65536)
    (hsa : sa.length = (hashOf H sel.hash).outLen) (hca : ca.length = (hashOf H sel.hash).outLen)
    (kl0 : List Keylog.Key) (p0 : MainLoop.Pkt) (d0 : DgM) (itemsA : List (List Keylog.Key × MainLoop.Pkt × DgM))
    (hkl : ∀ x ∈ (kl0, p0, d0) :: itemsA, KeylogHas x.1 cr ch sh ca sa early)
    (c : QConn) (hc : Fresh H Pc c) (hd0 : d0.longs ≠ [])
    (hok : MixDgs maskFn H Pc L d0.dcid sel sh ch sa ca trk0 (d0 :: itemsA.map (·.2.2)))
    (htr : PTrace cr csel {} (allInsM (d0 :: itemsA.map (·.2.2))))
    (hcar : ∀ x ∈ (kl0, p0, d0) :: itemsA, CarriesM info c (DgM.wire H Pc L d0.dcid sel sh ch sa ca) x.2.1 x.2.2)
    (hkeyed : (trk0.runM (d0 :: itemsA.map (·.2.2))).keyed = true)
    (itemsB : List (List Keylog.Key × MainLoop.Pkt × Dg1))
    (hcarB : ∀ x ∈ itemsB, Carries info c
      (wireOf H Pc L sel .v1 (rfcGen (hashOf H sel.hash) sel.keyLen sa ca 0)) x.2.1 x.2.2)
    (hsend : Send1 maskFn H Pc L sel .v1 (rfcGen (hashOf H sel.hash) sel.keyLen sa ca 0)
      (quicHp (hashOf H sel.hash) ca sel.keyLen) (quicHp (hashOf H sel.hash) sa sel.keyLen)
      (chachaOf (trk0.runM (d0 :: itemsA.map (·.2.2))).core) 0 0
      (trk0.runM (d0 :: itemsA.map (·.2.2))).tc.app (trk0.runM (d0 :: itemsA.map (·.2.2))).ts.app
      (trk0.runM (d0 :: itemsA.map (·.2.2))).cc (trk0.runM (d0 :: itemsA.map (·.2.2))).sc (itemsB.map (·.2.2)))
    (hadj : DistinctAdjacent false ((shortsOf (d0 :: itemsA.map (·.2.2)) ++ itemsB.map (·.2.2)).map fun d => inDg d.x)) :
    let QM := quicMachine maskFn H Pc info
    let c1 := mixFeedAll QM c ((kl0, p0, d0) :: itemsA)
    (feedAll QM c1 itemsB).raised = none ∧
    QM.out false (feedAll QM c1 itemsB) = expectedOut c (shortsOf (d0 :: itemsA.map (·.2.2)) ++ itemsB.map (·.2.2)) := by
  intro QM c1
  obtain ⟨hfresh, hr⟩ := hc
  obtain ⟨hm0, hms⟩ := hok
  have hv0 : sver d0.ver = .v1 := by unfold DgM.ver; rw [if_neg hd0]; rfl
  have hno : noOut c.st = c.st := by rw [hfresh]; rfl
  have hpre : HsSt H d0.dcid sel ch sh ca sa trk0.keyed (feedPre H (params H Pc kl0) (noOut c.st) d0.dcid (sver d0.ver))
      trk0.tc trk0.ts trk0.cc trk0.sc trk0.core := by
    rw [hno, hfresh, hv0]; exact feedPre_fresh H Pc kl0 h32 d0.dcid sel ch sh ca sa
  have htr' : PTrace cr csel trk0.core (insOf d0.longs ++ allInsM (itemsA.map (·.2.2))) := by
    simpa [allInsM, List.flatMap_cons, trk0] using htr
  obtain ⟨b1, b2, b3, b4, b5, b6, b7, b8, b9, b10⟩ := mix_feed_step maskFn H Pc info hl kl0 L d0.dcid cr csel ch sh ca sa early
    sel hsel (hkl (kl0, p0, d0) (List.mem_cons_self ..)) ho hsa hca trk0 d0 hm0 _ c hr hpre htr' p0
    (hcar (kl0, p0, d0) (List.mem_cons_self ..))
  obtain ⟨i1, i2, i3, i4, i5, i6, i7, i8, i9⟩ := mix_feed_rest maskFn H Pc info hl L d0.dcid cr csel ch sh ca sa early sel hsel
    ho hsa hca itemsA (fun x hx => hkl x (List.mem_cons_of_mem _ hx)) (trk0.dgm d0) _ b1 b2 hms b3
    (fun x hx => by
      obtain ⟨u1, u2, u3⟩ := hcar x (List.mem_cons_of_mem _ hx)
      exact ⟨u1, u2, by rw [b7]; exact u3⟩)
  have hc1 : c1 = mixFeedAll QM (QM.feed c kl0 p0 d0.dcid d0.ver) itemsA := rfl
  have ht1 : trk0.runM (d0 :: itemsA.map (·.2.2)) = (trk0.dgm d0).runM (itemsA.map (·.2.2)) := rfl
  rw [ht1] at hkeyed hsend
  rw [← hc1] at i1 i2 i3 i4 i5 i6 i7 i8 i9
  rw [hkeyed] at i2
  have hest := est_of_noOut H Pc [] _ _ _ _ _ _ _ _ _ _ _ _ _
    (est_of_hsSt H Pc [] _ sel ch sh ca sa _ _ _ _ _ _ i2)
  have hk := keysWf_rfc H hl Pc [] csel sel hsel .v1 ho sa ca hsa hca
  have e3 : c1.opts = c.opts := i4.trans b5
  have e4 : c1.server = c.server := i5.trans b6
  have e5 : c1.client = c.client := i6.trans b7
  have e6 : c1.serverMac = c.serverMac := i7.trans b8
  have e7 : c1.clientMac = c.clientMac := i8.trans b9
  have e8 : c1.ipv6 = c.ipv6 := i9.trans b10
  obtain ⟨f1, f2, f3, f4, f5, f6, f7, f8, _⟩ := feedAll_exact maskFn H Pc info [] L sel .v1 _ _ _ _ hk itemsB c1
    0 0 _ _ _ _ i1 hest
    (fun x hx => by
      obtain ⟨u1, u2, u3⟩ := hcarB x hx
      exact ⟨u1, u2, by rw [e5]; exact u3⟩) hsend
  refine ⟨f1, ?_⟩
  -- the exported part of the output buffer
  have hexpo : expo (feedAll QM c1 itemsB).st.out =
      expo ((shortsOf (d0 :: itemsA.map (·.2.2)) ++ itemsB.map (·.2.2)).flatMap fun d => expectedOf .rtt1 d.x) := by
    rw [f2, expo_append, i3, b4]
    have hc0 : expo c.st.out = [] := by rw [hfresh]; rfl
    rw [hc0, List.nil_append, ← expo_append, ← expo_append]
    congr 1
    rw [List.flatMap_append, ← shortOut_flatMap]
    simp only [List.flatMap_cons, List.append_assoc]
  show connOut false (feedAll QM c1 itemsB) = _
  rw [connOut_eq, addressed_congr c _ (f3.trans e3) (f4.trans e4) (f5.trans e5) (f6.trans e6) (f7.trans e7) (f8.trans e8),
    build_congr _ _ hexpo]
  have hframes : ∀ ds : List Dg1, (ds.flatMap fun d => expectedOf .rtt1 d.x).map frameOf =
      framesOf (ds.map fun d => inDg d.x) := by
    intro ds
    induction ds with
    | nil => rfl
    | cons d ds ih =>
      simp only [List.flatMap_cons, List.map_append, List.map_cons, framesOf] at ih ⊢
      rw [ih, inDg_frames]
  rw [hframes _, build_groups false _ hadj]
  exact out_tail c _

/-- … under the stronger, simpler hypothesis that ALL datagrams carrying 1-RTT packets differ pairwise in (capture
    microsecond, direction) -/
theorem quic_connection_exact_interleaved (hl : H.Lawful) (h32 : H.sha256.outLen = 32) (L : SealLaws Pc)
    (cr csel ch sh ca sa : Bytes) (early : Option Bytes) (sel : SuiteSel) (hsel : selectSuite csel = some sel)
    (ho : (hashOf H sel.hash).outLen < 65536)
    (hsa : sa.length = (hashOf H sel.hash).outLen) (hca : ca.length = (hashOf H sel.hash).outLen)
    (kl0 : List Keylog.Key) (p0 : MainLoop.Pkt) (d0 : DgM) (itemsA : List (List Keylog.Key × MainLoop.Pkt × DgM))
    (hkl : ∀ x ∈ (kl0, p0, d0) :: itemsA, KeylogHas x.1 cr ch sh ca sa early)
    (c : QConn) (hc : Fresh H Pc c) (hd0 : d0.longs ≠ [])
    (hok : MixDgs maskFn H Pc L d0.dcid sel sh ch sa ca trk0 (d0 :: itemsA.map (·.2.2)))
    (htr : PTrace cr csel {} (allInsM (d0 :: itemsA.map (·.2.2))))
    (hcar : ∀ x ∈ (kl0, p0, d0) :: itemsA, CarriesM info c (DgM.wire H Pc L d0.dcid sel sh ch sa ca) x.2.1 x.2.2)
    (hkeyed : (trk0.runM (d0 :: itemsA.map (·.2.2))).keyed = true)
    (itemsB : List (List Keylog.Key × MainLoop.Pkt × Dg1))
    (hcarB : ∀ x ∈ itemsB, Carries info c
      (wireOf H Pc L sel .v1 (rfcGen (hashOf H sel.hash) sel.keyLen sa ca 0)) x.2.1 x.2.2)
    (hsend : Send1 maskFn H Pc L sel .v1 (rfcGen (hashOf H sel.hash) sel.keyLen sa ca 0)
      (quicHp (hashOf H sel.hash) ca sel.keyLen) (quicHp (hashOf H sel.hash) sa sel.keyLen)
      (chachaOf (trk0.runM (d0 :: itemsA.map (·.2.2))).core) 0 0
      (trk0.runM (d0 :: itemsA.map (·.2.2))).tc.app (trk0.runM (d0 :: itemsA.map (·.2.2))).ts.app
      (trk0.runM (d0 :: itemsA.map (·.2.2))).cc (trk0.runM (d0 :: itemsA.map (·.2.2))).sc (itemsB.map (·.2.2)))
    (htimes : ((shortsOf (d0 :: itemsA.map (·.2.2)) ++ itemsB.map (·.2.2)).map fun d => (d.x.ts, d.x.srv)).Pairwise (· ≠ ·)) :
    let QM := quicMachine maskFn H Pc info
    let c1 := mixFeedAll QM c ((kl0, p0, d0) :: itemsA)
    (feedAll QM c1 itemsB).raised = none ∧
    QM.out false (feedAll QM c1 itemsB) = expectedOut c (shortsOf (d0 :: itemsA.map (·.2.2)) ++ itemsB.map (·.2.2)) := by
  have hdist : DistinctKeys ((shortsOf (d0 :: itemsA.map (·.2.2)) ++ itemsB.map (·.2.2)).map fun d => inDg d.x) := by
    unfold DistinctKeys
    rw [List.map_map]
    exact htimes
  exact quic_interleaved_exact_adj maskFn H Pc info hl h32 L cr csel ch sh ca sa early sel hsel ho hsa hca kl0 p0 d0
    itemsA hkl c hc hd0 hok htr hcar hkeyed itemsB hcarB hsend (hdist.adjacent false)

/-- … with a conformant TLS 1.3 handshake (`ConfHs`): the parser hypothesis `PTrace` replaced by "the CRYPTO frames of the
    long-header packets are, in processing order, those of `hs`" (`ptrace_of_conformant`) -/
theorem quic_interleaved_exact_conformant (hl : H.Lawful) (h32 : H.sha256.outLen = 32) (L : SealLaws Pc)
    (hs : ConfHs) (hsok : hs.Ok) (ch sh ca sa : Bytes) (early : Option Bytes) (sel : SuiteSel)
    (hsel : selectSuite hs.sh.cipherSuite = some sel)
    (ho : (hashOf H sel.hash).outLen < 65536)
    (hsa : sa.length = (hashOf H sel.hash).outLen) (hca : ca.length = (hashOf H sel.hash).outLen)
    (kl0 : List Keylog.Key) (p0 : MainLoop.Pkt) (d0 : DgM) (itemsA : List (List Keylog.Key × MainLoop.Pkt × DgM))
    (hkl : ∀ x ∈ (kl0, p0, d0) :: itemsA, KeylogHas x.1 hs.ch.random ch sh ca sa early)
    (c : QConn) (hc : Fresh H Pc c) (hd0 : d0.longs ≠ [])
    (hok : MixDgs maskFn H Pc L d0.dcid sel sh ch sa ca trk0 (d0 :: itemsA.map (·.2.2)))
    (hins : allInsM (d0 :: itemsA.map (·.2.2)) = hs.ins)
    (hcar : ∀ x ∈ (kl0, p0, d0) :: itemsA, CarriesM info c (DgM.wire H Pc L d0.dcid sel sh ch sa ca) x.2.1 x.2.2)
    (hkeyed : (trk0.runM (d0 :: itemsA.map (·.2.2))).keyed = true)
    (itemsB : List (List Keylog.Key × MainLoop.Pkt × Dg1))
    (hcarB : ∀ x ∈ itemsB, Carries info c
      (wireOf H Pc L sel .v1 (rfcGen (hashOf H sel.hash) sel.keyLen sa ca 0)) x.2.1 x.2.2)
    (hsend : Send1 maskFn H Pc L sel .v1 (rfcGen (hashOf H sel.hash) sel.keyLen sa ca 0)
      (quicHp (hashOf H sel.hash) ca sel.keyLen) (quicHp (hashOf H sel.hash) sa sel.keyLen)
      (chachaOf (trk0.runM (d0 :: itemsA.map (·.2.2))).core) 0 0
      (trk0.runM (d0 :: itemsA.map (·.2.2))).tc.app (trk0.runM (d0 :: itemsA.map (·.2.2))).ts.app
      (trk0.runM (d0 :: itemsA.map (·.2.2))).cc (trk0.runM (d0 :: itemsA.map (·.2.2))).sc (itemsB.map (·.2.2)))
    (hadj : DistinctAdjacent false ((shortsOf (d0 :: itemsA.map (·.2.2)) ++ itemsB.map (·.2.2)).map fun d => inDg d.x)) :
    let QM := quicMachine maskFn H Pc info
    let c1 := mixFeedAll QM c ((kl0, p0, d0) :: itemsA)
    (feedAll QM c1 itemsB).raised = none ∧
    QM.out false (feedAll QM c1 itemsB) = expectedOut c (shortsOf (d0 :: itemsA.map (·.2.2)) ++ itemsB.map (·.2.2)) :=
  quic_interleaved_exact_adj maskFn H Pc info hl h32 L hs.ch.random hs.sh.cipherSuite ch sh ca sa early sel hsel ho hsa
    hca kl0 p0 d0 itemsA hkl c hc hd0 hok (by rw [hins]; exact ptrace_of_conformant hs hsok) hcar hkeyed itemsB hcarB hsend
    hadj

end Interleaved
/-! ### 0-RTT -/
section ZeroRtt
variable (maskFn : Dissect.MaskFn) (H : Crypto.Prims) (Pc : Cipher.Prims)

/-- the Early decryptor RFC 9001 §5.1 gives for CLIENT_EARLY_TRAFFIC_SECRET `e` under the suite `sel` -/
def earlyDec (sel : SuiteSel) (e : Bytes) : Dec :=
  { alg := sel.alg, server := none, client := ⟨quicKey (hashOf H sel.hash) e sel.keyLen, quicIv (hashOf H sel.hash) e⟩ }

/-- the session holds the 0-RTT keys of suite `sel`: decryptor and header-protection key -/
structure EarlyKeyed (sel : SuiteSel) (e : Bytes) (s : St Tls) : Prop where
  dec : s.decEarly = some (earlyDec H sel e)
  hp : s.tls.hp.clientEarly = some (quicHp (hashOf H sel.hash) e sel.keyLen)

/-- **When and with which suite the tool derives the 0-RTT keys.** `handle_crypto_frame` with `new_data` set (the CRYPTO
    stream just completed a ClientHello, a ServerHello or EncryptedExtensions), the connection's lines in the key log
    including CLIENT_EARLY_TRAFFIC_SECRET: the Early decryptor and the early header-protection key are derived with the suite
    that `tls_session.ciphersuite` holds AT THAT MOMENT — after the ClientHello that is the FIRST OFFERED suite
    (quic_tls_parser.py l. 90), after the ServerHello the selected one — whatever suite the client used. -/
theorem afterTls_early (kl : List Keylog.Key) (s : St Tls) (cr cs ch sh ca sa e : Bytes) (sel : SuiteSel)
    (hv1 : s.version = .v1) (hv : s.tls.ver = s.version)
    (hn : s.tls.msgs.newData = true) (hcr : s.tls.msgs.clientRandom = some cr) (hcs : s.tls.msgs.ciphersuite = some cs)
    (hsel : selectSuite cs = some sel) (hkl : KeylogHas kl cr ch sh ca sa (some e)) :
    EarlyKeyed H sel e (afterTls (params H Pc kl) s).1 := by
  have e1 : (params H Pc kl).tlsNewData s.tls = true := hn
  have e2 : (params H Pc kl).tlsClientRandom s.tls = some cr := hcr
  have e3 : (params H Pc kl).tlsCiphersuite s.tls = some cs := hcs
  have hk : sel.keyLen < 65536 := by
    unfold selectSuite at hsel
    repeat' split at hsel
    all_goals first
      | (cases hsel; decide)
      | (simp at hsel)
  obtain ⟨k, hdq, k1, k2, k3, k4, k5, k6, k7⟩ := devQuic_rfc H kl sel hk cr ch sh ca sa (some e) hkl
  have hdq' : devQuic H kl sel s.version cr = .ok k := by rw [hv1]; exact hdq
  have e4 : (params H Pc kl).devQuicKeys sel s.version cr = .ok (groupsOf k) := by
    show (devQuic H kl sel s.version cr).map groupsOf = _
    rw [hdq']; rfl
  unfold afterTls
  simp only [e1, if_true, e2, e3, setTlsDecryptors, hsel, e4]
  simp only [Option.map_some] at k7
  refine ⟨?_, ?_⟩ <;>
    simp [installGroups, groupsOf, k7, params, tlsClearNewData, hcr, hcs, hsel, hv, hdq', earlyDec, dirOf, tripleSpec,
      quicPacketKeys, HpKeys.withTls]


/-- what makes a sender decision a QUIC v1 0-RTT packet (RFC 9000 §17.2.3) -/
structure ZrShape (x : SPkt) : Prop where
  level : x.level = .zeroRtt
  client : x.srv = false
  typeBits : x.typeBits = (ltypeOf x.level).bits
  version : x.version = [0, 0, 0, 1]
  dcid : x.dcid.length ≤ 20
  scid : x.scid.length ≤ 20
  tok : x.tokW.fits x.token.length
  len : x.lenW.fits (x.pnLen + (encodeAll x.frames).length + 16)
  padded : 4 ≤ x.pnLen + (encodeAll x.frames).length

/-- the 0-RTT packet on the wire, protected with the early keys of the suite `selR` of the resumed session -/
def zrWire (L : SealLaws Pc) (selR : SuiteSel) (e : Bytes) (q : PkH) : Bytes :=
  q.wire L.aeadSeal selR.alg (earlyDec H selR e).client

/-- **One 0-RTT packet, in a session that holds the sender's early keys** (`EarlyKeyed` for the suite `selR` the client
    used): the dissector recovers it, it is decrypted, its STREAM frames go to `output_buffer` with the packet's capture time,
    the client's application packet-number space advances, everything else stays. `hmask`: the header-protection primitive
    the dissector picks is selected by `tls_session.ciphersuite` AT THAT MOMENT (`envOf s`): it must be the sender's. -/
theorem zr_turn (hl : H.Lawful) (kl : List Keylog.Key) (L : SealLaws Pc) (selR : SuiteSel) (csR : Bytes)
    (hselR : selectSuite csR = some selR) (e : Bytes) (s : St Tls) (q : PkH) (hshape : ZrShape q.x)
    (hek : EarlyKeyed H selR e s) (hver : s.tls.ver = s.version)
    (hfr : ∀ f ∈ q.x.frames, isCryptoQ f = false) (hwf : WellFormedSeq q.x.frames)
    (hpn : PnLenOk s.pnClient.app q.x.pn q.x.pnLen)
    (hmask : maskFn (envOf s).chacha (quicHp (hashOf H selR.hash) e selR.keyLen)
      (longOf q.x (protectedPayload L.aeadSeal selR.alg (earlyDec H selR e).client q.x)).sample = some q.mask)
    (hm5 : 5 ≤ q.mask.length) (guessed more : Bytes) :
    let p := emit L.aeadSeal selR.alg (earlyDec H selR e).client q.x
    let s' : St Tls := afterFrames (pnStore s false .app (max s.pnClient.app q.x.pn)) p
      ((normalize q.x.frames).map QFrame.toParsed)
    (Dissect.dissectLoop maskFn (fun x : LoopSt => envOf x.1) (handleTurn (params H Pc kl)) false guessed q.x.ts
        (s, none) (zrWire H Pc L selR e q ++ more)).1 =
      (Dissect.dissectLoop maskFn (fun x : LoopSt => envOf x.1) (handleTurn (params H Pc kl)) false guessed q.x.ts
        (s', none) more).1 ∧
    s'.out = s.out ++ expectedOf .rtt0 q.x := by
  intro p s'
  have hlawR : (hashOf H selR.hash).Lawful := by cases selR.hash <;> simp [hashOf, hl.sha256, hl.sha384]
  have hcases : (selR.alg = .aesgcm ∧ selR.keyLen = 16) ∨ (selR.alg = .aesgcm ∧ selR.keyLen = 32) ∨
      (selR.alg = .chachaPoly ∧ selR.keyLen = 32) ∨ (selR.alg = .aesccm ∧ selR.keyLen = 16) := by
    unfold selectSuite at hselR
    repeat' split at hselR
    all_goals first
      | (cases hselR; simp)
      | (simp at hselR)
  have hk255 : selR.keyLen ≤ 255 := by rcases hcases with h | h | h | h <;> omega
  obtain ⟨⟨hn1, hn4⟩, _⟩ := hpn
  have haead : AeadOk selR.alg (earlyDec H selR e).client.key.length (earlyDec H selR e).client.iv.length 16 := by
    simp only [earlyDec, quicKey_length _ hlawR _ _ hk255, quicIv_length _ hlawR]
    rcases hcases with ⟨a, b⟩ | ⟨a, b⟩ | ⟨a, b⟩ | ⟨a, b⟩ <;> rw [a, b] <;> decide
  have hiv : 8 ≤ (earlyDec H selR e).client.iv.length := by
    simp only [earlyDec, quicIv_length _ hlawR]; decide
  have hlen : (protectedPayload L.aeadSeal selR.alg (earlyDec H selR e).client q.x).length = (encodeAll q.x.frames).length + 16 := by
    unfold protectedPayload
    have hnl : (nonce (earlyDec H selR e).client.iv q.x.pn).length = (earlyDec H selR e).client.iv.length := by simp [nonce, Lemmas.QuicVarint.ofNatBE_length]
    exact L.seal_len _ _ _ _ _ _ (by rw [hnl]; exact haead)
  have hne : q.x.level ≠ .oneRtt := by rw [hshape.level]; decide
  -- wire format facts (the 0-RTT twins of `longOf_first` / `longOf_wf` / `longOf_toPkt`)
  have hfirst : (longOf q.x (protectedPayload L.aeadSeal selR.alg (earlyDec H selR e).client q.x)).first = firstByteLong q.x := by
    unfold Long.first firstByteLong longOf
    simp only [C02Capstone.pnBytes_length, hshape.typeBits]
    congr 1
    have : (ltypeOf q.x.level).bits < 4 := by cases q.x.level <;> simp [ltypeOf, LType.bits]
    omega
  have hlwf : (longOf q.x (protectedPayload L.aeadSeal selR.alg (earlyDec H selR e).client q.x)).wf := by
    refine ⟨?_, ?_, ?_, ?_, ?_, ?_, ?_, ?_⟩
    · show q.x.lowBits % 4 < 4; omega
    · show q.x.version.length = 4; rw [hshape.version]; rfl
    · show q.x.dcid.length ≤ 255; have := hshape.dcid; omega
    · show q.x.scid.length ≤ 255; have := hshape.scid; omega
    · show 1 ≤ (pnBytes q.x.pnLen q.x.pn).length; rw [C02Capstone.pnBytes_length]; exact hn1
    · show (pnBytes q.x.pnLen q.x.pn).length ≤ 4; rw [C02Capstone.pnBytes_length]; exact hn4
    · exact hshape.tok
    · show q.x.lenW.fits ((pnBytes q.x.pnLen q.x.pn).length + (protectedPayload L.aeadSeal selR.alg (earlyDec H selR e).client q.x).length)
      rw [C02Capstone.pnBytes_length, hlen, ← Nat.add_assoc]; exact hshape.len
  have htoPkt : (longOf q.x (protectedPayload L.aeadSeal selR.alg (earlyDec H selR e).client q.x)).toPkt false q.x.ts =
      emit L.aeadSeal selR.alg (earlyDec H selR e).client q.x := by
    unfold Long.toPkt emit
    rw [hfirst]
    simp only [hne, if_false]
    simp [longOf, hshape.level, hshape.client, ltypeOf, LType.ptype, Level.ptype, Long.lengthField, lengthField,
      C02Capstone.pnBytes_length, hlen, Nat.add_assoc]
  have hkey : (envOf s).keys (senderKey (ltypeOf q.x.level) false) =
      some (quicHp (hashOf H selR.hash) e selR.keyLen) := by
    simp [hshape.level, ltypeOf, senderKey, envOf, HpKeys.get, hek.hp]
  have hextract : Dissect.extract maskFn (envOf s) false guessed q.x.ts (zrWire H Pc L selR e q ++ more) =
      { pkts := [p], rest := more } := by
    have := C02Dissect.dissect_encode_long maskFn (envOf s) false guessed q.x.ts
      (longOf q.x (protectedPayload L.aeadSeal selR.alg (earlyDec H selR e).client q.x)) hlwf
      (by show q.x.version ≠ _; rw [hshape.version]; decide)
      (by show q.x.scid.length ≤ 63; have := hshape.scid; omega)
      (by show 20 ≤ (pnBytes q.x.pnLen q.x.pn).length + (protectedPayload L.aeadSeal selR.alg (earlyDec H selR e).client q.x).length
          rw [C02Capstone.pnBytes_length, hlen]; have := hshape.padded; omega)
      _ q.mask hkey
      (by
        have : senderChacha (longOf q.x (protectedPayload L.aeadSeal selR.alg (earlyDec H selR e).client q.x)).ty (envOf s).chacha =
            (envOf s).chacha := by simp [longOf, hshape.level, ltypeOf, senderChacha]
        rw [this]; exact hmask) hm5 more
    rw [htoPkt] at this
    unfold zrWire PkH.wire
    exact this
  have hnew : zrWire H Pc L selR e q ++ more ≠ [] := by
    unfold zrWire PkH.wire Long.protect applyMask; simp
  -- the session decrypts it
  have hdecr : longDecryptor s q.x.level.ptype = .ok (some (earlyDec H selR e)) := by
    simp [hshape.level, Level.ptype, longDecryptor, hek.dec]
  have hdir : (if q.x.srv then (earlyDec H selR e).server else some (earlyDec H selR e).client) = some (earlyDec H selR e).client := by
    rw [hshape.client]; simp
  have hpnl : pnLargest s q.x.srv (spaceOf q.x.level) = s.pnClient.app := by
    rw [hshape.client, hshape.level]; rfl
  have hstep := step_long_eq (params H Pc kl) L q.x (earlyDec H selR e) (earlyDec H selR e).client s hne hdecr hdir haead hiv
    (by rw [hpnl]; exact ⟨⟨hn1, hn4⟩, ‹_›⟩) hwf
  have hncP : ∀ g ∈ (normalize q.x.frames).map QFrame.toParsed, isCryptoP g = false := by
    intro g hg
    obtain ⟨f, hf, rfl⟩ := List.mem_map.mp hg
    rw [toParsed_isCrypto]; exact normalize_noCrypto _ hfr f hf
  simp only [hpnl, hshape.client, hshape.level, spaceOf] at hstep
  have halg : (earlyDec H selR e).alg = selR.alg := rfl
  rw [halg, handleFrames_nc (params H Pc kl) _ _ _ hncP] at hstep
  have hst : (stepPkt (params H Pc kl) s p).st = s' ∧ (stepPkt (params H Pc kl) s p).escaped = none := by
    rw [hstep]; simp [postLevel, s', p, pnLargest, PnTab.get]
  have hturn : handleTurn (params H Pc kl) (s, none) [p] = (s', none) := by
    unfold handleTurn
    simp only [handleQuicPackets, hst.2, hst.1]
    congr 1
    apply stampVer_id
    show s.tls.ver = s.version
    exact hver
  refine ⟨?_, ?_⟩
  · rw [Lemmas.QuicDissect.dissectLoop_cons _ _ _ _ _ _ _ _ hnew]
    simp only [hextract, hturn]
  · have hsrv : p.isServer = false := by simp [p, emit, hne, hshape.client]
    have hts : p.ts = q.x.ts := by simp [p, emit, hne]
    have hpt : p.ptype = .rtt0 := by simp [p, emit, hne, hshape.level, Level.ptype]
    show (afterFrames _ p _).out = _
    simp only [afterFrames, filterMap_export]
    simp [expectedOf, exported_eq, mkOut, hts, hsrv, hpt, pnStore, hshape.client]

/-- **0-RTT, PARTIAL** (the two local facts composed; what is MISSING for `quic_connection_exact_0rtt`: threading
    `EarlyKeyed` through the handshake invariant `HsSt` of `quic_connection_exact_interleaved`, so that 0-RTT packets may
    stand anywhere in the interleaved history). The CRYPTO stream has just completed a hello (`new_data`), the parser's
    `ciphersuite` is `cs` — the FIRST OFFERED suite after a ClientHello, the selected one after a ServerHello — and the key
    log has the connection's lines incl. CLIENT_EARLY_TRAFFIC_SECRET. If `cs` IS the suite `selR` of the resumed session the
    client protects its 0-RTT packets with, the next 0-RTT packet is decrypted and its STREAM frames are in
    `output_buffer` with the packet's capture time (hence exported: `build_congr`, `build_groups`). -/
theorem quic_connection_exact_0rtt_partial (hl : H.Lawful) (kl : List Keylog.Key) (L : SealLaws Pc)
    (s0 : St Tls) (cr cs ch sh ca sa e : Bytes) (selR : SuiteSel)
    (hv1 : s0.version = .v1) (hv : s0.tls.ver = s0.version)
    (hn : s0.tls.msgs.newData = true) (hcr : s0.tls.msgs.clientRandom = some cr)
    (hcs : s0.tls.msgs.ciphersuite = some cs) (hsel : selectSuite cs = some selR)
    (hkl : KeylogHas kl cr ch sh ca sa (some e))
    (q : PkH) (hshape : ZrShape q.x) (hfr : ∀ f ∈ q.x.frames, isCryptoQ f = false) (hwf : WellFormedSeq q.x.frames)
    (hpn : PnLenOk s0.pnClient.app q.x.pn q.x.pnLen)
    (hmask : maskFn (cs == [0x13, 0x03]) (quicHp (hashOf H selR.hash) e selR.keyLen)
      (longOf q.x (protectedPayload L.aeadSeal selR.alg (earlyDec H selR e).client q.x)).sample = some q.mask)
    (hm5 : 5 ≤ q.mask.length) (guessed more : Bytes) :
    let s := (afterTls (params H Pc kl) s0).1
    ∃ s', (Dissect.dissectLoop maskFn (fun x : LoopSt => envOf x.1) (handleTurn (params H Pc kl)) false guessed q.x.ts
        (s, none) (zrWire H Pc L selR e q ++ more)).1 =
      (Dissect.dissectLoop maskFn (fun x : LoopSt => envOf x.1) (handleTurn (params H Pc kl)) false guessed q.x.ts
        (s', none) more).1 ∧
      s'.out = s0.out ++ expectedOf .rtt0 q.x ∧ s'.pnClient.app = max s0.pnClient.app q.x.pn := by
  intro s
  have hek := afterTls_early H Pc kl s0 cr cs ch sh ca sa e selR hv1 hv hn hcr hcs hsel hkl
  obtain ⟨_, _, a3, _, _, _, _, _, a9, _, _, _, a13, a14, _, _, a17⟩ :=
    afterTls_hs H Pc kl s0 cr cs ch sh ca sa (some e) hv1 hv hn hcr hcs hkl
  have hcsu : s.tls.msgs.ciphersuite = some cs := by
    have h1 : (coreOf s.tls).msgs.ciphersuite = (clearND (coreOf s0.tls)).msgs.ciphersuite := by rw [a17]
    exact h1.trans hcs
  have hch : (envOf s).chacha = (cs == [0x13, 0x03]) := by
    show (s.tls.msgs.ciphersuite == some [0x13, 0x03]) = _
    rw [hcsu]; rfl
  have hz := zr_turn maskFn H Pc hl kl L selR cs hsel e s q hshape hek (by rw [a14, a3]; exact hv) hfr hwf
    (by rw [show s.pnClient = s0.pnClient from a9]; exact hpn) (by rw [hch]; exact hmask) hm5 guessed more
  refine ⟨_, hz.1, ?_, ?_⟩
  · rw [hz.2, show s.out = s0.out from a13]
  · simp [afterFrames, pnStore, PnTab.set, show s.pnClient = s0.pnClient from a9]

/-! what happens to a 0-RTT packet the session has no (fitting) key for — the two mechanisms behind the losses
    `harness/c02_0rtt_replay.py` shows on the real tool -/

section Mechanism
variable {σ : Type} (P : Params σ)

/-- (D) no Early decryptor yet — the ClientHello is not complete in the CRYPTO stream, or the key log has no
    CLIENT_EARLY_TRAFFIC_SECRET line: `self.decryptors["Early"]` raises KeyError inside `decrypt_packet`'s try; the packet
    is dropped, the session is exactly as before (also its packet-number tables). It is never looked at again. -/
theorem zero_rtt_dropped_without_key (s : St σ) (p : Pkt) (hh : p.htype = .long) (ht : p.ptype = .rtt0)
    (hd : s.decEarly = none) :
    stepPkt P s p = { st := s, caught := some .key, escaped := none } := by
  have hsel : selectDecryptor P s p = (s, .error .key) := by
    simp only [selectDecryptor, hh, ht, longDecryptor, hd]
  simp [stepPkt, ht, decryptPacket, hsel, afterDecrypt]

/-- (B), THE CODE BEFORE THE PN-STORE REPAIR (`Session.Legacy`): an Early decryptor exists but is not the sender's
    (derived with another suite), so the AEAD check fails — and the dissector has removed header protection with the wrong
    key, so `pnb` is garbage: the old `get_full_packet_number` has ALREADY stored the packet number decoded from `pnb` as
    the largest one of the client's application space (shared by 0-RTT and 1-RTT packets, RFC 9000 §12.3). The packet is
    dropped; the table keeps the garbage. -/
theorem legacy_zero_rtt_rejected_poisons_pn (s : St σ) (p : Pkt) (d : Dec) (pnb pn aad : Bytes) (e : PyErr)
    (hh : p.htype = .long) (ht : p.ptype = .rtt0) (hd : s.decEarly = some d) (hpn : p.pn = some pnb)
    (hres : pnResult (pnLargest s p.isServer .app) pnb = .ok pn) (haad : assocData p = .ok aad)
    (hfail : decDecrypt P d p.payload pn aad p.isServer = .error e) :
    Legacy.stepPkt P s p =
      { st := pnStore s p.isServer .app (PktNum.implUpdate (pnLargest s p.isServer .app)
          (PktNum.implDecode (2 ^ (8 * pnb.length)) (2 ^ 62) (pnLargest s p.isServer .app) (Bytes.beNat pnb))),
        caught := some e, escaped := none } := by
  have hsel : selectDecryptor P s p = (s, .ok (some d)) := by
    simp only [selectDecryptor, hh, ht, longDecryptor, hd]
  have hsp : p.ptype.space = some .app := by rw [ht]; rfl
  have hattr : hasPnAttr p = true := by unfold hasPnAttr; rw [hh, ht]
  have hrest : Legacy.decryptRest P s p (some d) =
      (pnStore s p.isServer .app (PktNum.implUpdate (pnLargest s p.isServer .app)
          (PktNum.implDecode (2 ^ (8 * pnb.length)) (2 ^ 62) (pnLargest s p.isServer .app) (Bytes.beNat pnb))), some e) := by
    unfold Legacy.decryptRest Legacy.getFullPn
    simp only [hsp, hattr, Bool.not_true, Bool.false_eq_true, if_false, hpn, hres, haad, hfail]
  simp [Legacy.stepPkt, ht, Legacy.decryptPacket, hsel, hrest, afterDecrypt]

/-- (B), the repaired code (the table is stored after `decryptor.decrypt` succeeded): under the very same hypotheses the
    0-RTT packet is still dropped — its early keys are of the wrong suite — but the session, its packet-number tables
    included, is exactly as before. -/
theorem zero_rtt_rejected_leaves_session (s : St σ) (p : Pkt) (d : Dec) (pnb pn aad : Bytes) (e : PyErr)
    (hh : p.htype = .long) (ht : p.ptype = .rtt0) (hd : s.decEarly = some d) (hpn : p.pn = some pnb)
    (hres : pnResult (pnLargest s p.isServer .app) pnb = .ok pn) (haad : assocData p = .ok aad)
    (hfail : decDecrypt P d p.payload pn aad p.isServer = .error e) :
    stepPkt P s p = { st := s, caught := some e, escaped := none } := by
  have hsel : selectDecryptor P s p = (s, .ok (some d)) := by
    simp only [selectDecryptor, hh, ht, longDecryptor, hd]
  have hsp : p.ptype.space = some .app := by rw [ht]; rfl
  have hattr : hasPnAttr p = true := by unfold hasPnAttr; rw [hh, ht]
  have hrest : decryptRest P s p (some d) = (s, some e) := by
    unfold decryptRest getFullPn
    simp only [hsp, hattr, Bool.not_true, Bool.false_eq_true, if_false, hpn, hres, haad, hfail]
  simp [stepPkt, ht, decryptPacket, hsel, hrest, afterDecrypt]

end Mechanism

/-- the arithmetic of the real-tool trace (`c02_0rtt_replay.py`, case B): the garbage packet number 0x3fa69012 of the
    0-RTT packet becomes the largest one; the client's next 1-RTT packet, number 1 on one byte, is then reconstructed as
    1067880449 — not 1: wrong nonce, the packet is lost, and so is every later one of the client -/
example : PktNum.implUpdate 0 (PktNum.implDecode (2 ^ 32) (2 ^ 62) 0 0x3fa69012) = 1067880466 ∧
    PktNum.implDecode (2 ^ 8) (2 ^ 62) 1067880466 1 = 1067880449 := by decide

end ZeroRtt
/-! ### 0-RTT: the losses, on concrete sessions (toy AEAD, kernel-evaluated) -/
namespace ExZr
open TLX.Props.C02Session.Ex TLX.Quic.SessionToy

/-- the resumed session's suite is `sel` (0x1301); the ClientHello lists 0x1303 first -/
def selFirst : SuiteSel := ⟨.sha256, .chachaPoly, 32⟩

/-- the client's 0-RTT packet: STREAM data `EARLY`, protected with the early key of the RESUMED suite -/
def xz : SPkt :=
  { level := .zeroRtt, srv := false, ts := 5, pn := 0, pnLen := 1, typeBits := 1, scid := [0xc1], dcid := [0x51],
    frames := [.stream false ⟨0, Ex.w1⟩ none (some Ex.w1) [0x45, 0x41, 0x52, 0x4c, 0x59], .padding 3] }
def pz : Pkt := emit Toy.laws.aeadSeal sel.alg (dirKeys sel .v1 [5]) xz

/-- the client's next 1-RTT packet: number 1, STREAM data `LATE` -/
def x1 : SPkt :=
  { level := .oneRtt, srv := false, ts := 9, pn := 1, pnLen := 1, dcid := [0x51], gen := 0,
    frames := [.stream true ⟨0, Ex.w1⟩ (some ⟨5, Ex.w1⟩) (some Ex.w1) [0x4c, 0x41, 0x54, 0x45], .padding 3] }
def p1 : Pkt := emit1 params Toy.laws sel .v1 k0 x1

/-- (D) the session as it is BEFORE the ClientHello is complete in the CRYPTO stream — no Early decryptor yet: the genuine
    0-RTT packet is dropped (KeyError), nothing is exported, nothing else changes. RFC-conformant: a ClientHello may span
    several Initial packets, and 0-RTT packets may be coalesced with the first. -/
theorem zero_rtt_before_client_hello_counterexample :
    (streamData xz.frames).flatten = [0x45, 0x41, 0x52, 0x4c, 0x59] ∧
    stepPkt params s0 pz = { st := s0, caught := some .key, escaped := none } :=
  ⟨by decide, zero_rtt_dropped_without_key params s0 pz (by decide) (by decide) rfl⟩

/-- … whereas the same packet in a session that holds the early key of the resumed suite is exported -/
theorem zero_rtt_with_key_exported :
    ((stepPkt params { s0 with decEarly := some { alg := sel.alg, server := none, client := dirKeys sel .v1 [5] } } pz).st.out.map
      fun o => (o.ts, o.isServer, (frameOf o).data)) = [(5, false, [0x45, 0x41, 0x52, 0x4c, 0x59])] := by decide +kernel

/-- (B) the session after the ClientHello when the FIRST OFFERED suite (0x1303) is not the resumed one (0x1301): the Early
    decryptor and the early header-protection key exist, derived for 0x1303. The dissector unprotects the 0-RTT packet's
    header with that wrong key: the packet-number bytes it reports are garbage (here the four bytes the real tool read in
    `harness/c02_0rtt_replay.py`, case B). -/
def sB : St Bool := { s0 with decEarly := some { alg := selFirst.alg, server := none, client := dirKeys selFirst .v1 [5] } }
def pzGarbled : Pkt := { pz with pn := some [0x3f, 0xa6, 0x90, 0x12] }

/-- THE CODE BEFORE THE PN-STORE REPAIR (`Session.Legacy`). RFC-conformant client (RFC 8446 §4.2.11: the resumed suite may
    stand anywhere in the list), yet:
    1. the 0-RTT packet is rejected by the AEAD, nothing is exported —
    2. but the garbage packet number 0x3fa69012 is now the largest one of the client's application space;
    3. the client's NEXT 1-RTT packet (number 1, `LATE`), which the session exports when it comes first (4.),
       is reconstructed next to the garbage, rejected and lost: `output_buffer` stays empty. -/
theorem legacy_first_offered_suite_counterexample :
    (Legacy.stepPkt params sB pzGarbled).caught.isSome = true ∧ (Legacy.stepPkt params sB pzGarbled).st.out = [] ∧
    (Legacy.stepPkt params sB pzGarbled).st.pnClient.app = 1067880466 ∧
    (Legacy.stepPkt params (Legacy.stepPkt params sB pzGarbled).st p1).caught.isSome = true ∧
    (Legacy.stepPkt params (Legacy.stepPkt params sB pzGarbled).st p1).st.out = [] ∧
    ((Legacy.stepPkt params sB p1).st.out.map fun o => (o.ts, o.isServer, (frameOf o).data)) =
      [(9, false, [0x4c, 0x41, 0x54, 0x45])] := by
  decide +kernel

/-- The same history on the REPAIRED code: the 0-RTT packet is still lost (the Early keys were derived for the first
    offered suite 0x1303, the client used the resumed 0x1301: AEAD failure, nothing exported) — but the packet-number
    table is untouched, and the client's following 1-RTT packet `LATE` is decrypted and exported with its time and
    direction. -/
theorem late_survives :
    (stepPkt params sB pzGarbled).caught.isSome = true ∧ (stepPkt params sB pzGarbled).st.out = [] ∧
    (stepPkt params sB pzGarbled).st.pnClient = sB.pnClient ∧
    (stepPkt params (stepPkt params sB pzGarbled).st p1).caught = none ∧
    ((stepPkt params (stepPkt params sB pzGarbled).st p1).st.out.map fun o => (o.ts, o.isServer, (frameOf o).data)) =
      [(9, false, [0x4c, 0x41, 0x54, 0x45])] := by
  decide +kernel

end ExZr
/-! ### 0-RTT: the full statement (NOT proved; see `quic_connection_exact_0rtt_partial` for what is) -/
section ZeroRttStatement
variable (maskFn : Dissect.MaskFn) (H : Crypto.Prims) (Pc : Cipher.Prims) (info : Nat → Pipeline.Info)

/-- a datagram of the interleaved history that may also carry 0-RTT packets: `base` as in `DgM`; the 0-RTT packets `zr`
    (client only) stand after the first `pos` long-header packets of `base` (RFC 9000 §12.2 order: Initial, 0-RTT,
    Handshake, 1-RTT) -/
structure DgX where
  base : DgM
  zr : List PkH
  pos : Nat

def DgX.wire (L : SealLaws Pc) (dcid0 : Bytes) (sel selR : SuiteSel) (sh ch sa ca e : Bytes) (d : DgX) : Bytes :=
  ((d.base.longs.take d.pos).map (pkWire H Pc L dcid0 sel sh ch)).flatten ++ (d.zr.map (zrWire H Pc L selR e)).flatten ++
    ((d.base.longs.drop d.pos).map (pkWire H Pc L dcid0 sel sh ch)).flatten ++
    (d.base.short.map (wireOf H Pc L sel .v1 (rfcGen (hashOf H sel.hash) sel.keyLen sa ca 0))).getD []

/-- the routing header: that of the first packet on the wire -/
def DgX.dcid (d : DgX) : Bytes :=
  match d.base.longs.take d.pos, d.zr with
  | [], q :: _ => q.x.dcid
  | _, _ => d.base.dcid
def DgX.ver (d : DgX) : MainLoop.Version := if d.base.longs = [] ∧ d.zr = [] then .unknown else .v1

/-- the observer's bookkeeping after a 0-RTT packet: the client's application packet-number space, connection IDs issued -/
def _root_.TLX.Props.C02Capstone.Trk.zr (t : Trk) (x : SPkt) : Trk :=
  { t with tc := { t.tc with app := max t.tc.app x.pn }, cc := issue t.cc (newCids x.frames) }

def _root_.TLX.Props.C02Capstone.Trk.dgx (t : Trk) (d : DgX) : Trk :=
  let t1 := (d.zr.foldl (fun t q => t.zr q.x) (t.run (d.base.longs.take d.pos))).run (d.base.longs.drop d.pos)
  match d.base.short with
  | none => t1
  | some o => t1.short o.x

/-- **THE CONDITION under which the tool exports a 0-RTT packet** of a client that resumed a session of suite `selR` with
    early secret `e`, relative to the bookkeeping `t` when the packet is reached:
    `suite`  `tls_session.ciphersuite` — unset until the CRYPTO stream has completed the ClientHello, then the FIRST OFFERED
             suite, from the ServerHello on the selected one — names `selR`: the tool's Early keys are the client's
             (`afterTls_early`); when it names ANOTHER known suite the packet is not only lost but poisons the client's
             application packet-number space on the code before the pn-store repair (`legacy_zero_rtt_rejected_poisons_pn`; now: `zero_rtt_rejected_leaves_session`); when it is unset the packet is dropped
             (`zero_rtt_dropped_without_key`);
    the rest as for the other packets: RFC 9000 §17.2.3 shape, §12.4 frames (no CRYPTO), packet number in the window of the
    application space (shared with 1-RTT), header protection with the early key. -/
structure ZrPkOk (L : SealLaws Pc) (selR : SuiteSel) (e : Bytes) (t : Trk) (q : PkH) : Prop where
  suite : t.core.msgs.ciphersuite.bind selectSuite = some selR
  shape : ZrShape q.x
  frames : ∀ f ∈ q.x.frames, isCryptoQ f = false
  wf : WellFormedSeq q.x.frames
  pn : PnLenOk t.tc.app q.x.pn q.x.pnLen
  mask : maskFn (chachaOf t.core) (quicHp (hashOf H selR.hash) e selR.keyLen)
    (longOf q.x (protectedPayload L.aeadSeal selR.alg (earlyDec H selR e).client q.x)).sample = some q.mask
  mask5 : 5 ≤ q.mask.length

def ZrPks (L : SealLaws Pc) (selR : SuiteSel) (e : Bytes) : Trk → List PkH → Prop
  | _, [] => True
  | t, q :: qs => ZrPkOk maskFn H Pc L selR e t q ∧ ZrPks L selR e (t.zr q.x) qs

/-- one datagram with 0-RTT packets, relative to the bookkeeping before it: `MixDgOk` for the rest, `ZrPkOk` for the 0-RTT
    packets where they stand -/
structure XDgOk (L : SealLaws Pc) (dcid0 : Bytes) (sel selR : SuiteSel) (sh ch sa ca e : Bytes) (t : Trk) (d : DgX) : Prop where
  client : d.zr ≠ [] → d.base.srv = false
  dir : ∀ q ∈ d.base.longs ++ d.zr, q.x.srv = d.base.srv ∧ q.x.ts = d.base.ts
  cid : DcidOk t.cc t.sc d.base.srv d.dcid
  pre : HsPks maskFn H Pc L dcid0 sel sh ch t (d.base.longs.take d.pos)
  zr : ZrPks maskFn H Pc L selR e (t.run (d.base.longs.take d.pos)) d.zr
  post : HsPks maskFn H Pc L dcid0 sel sh ch (d.zr.foldl (fun t q => t.zr q.x) (t.run (d.base.longs.take d.pos)))
    (d.base.longs.drop d.pos)
  nonempty : d.base.longs ≠ [] ∨ d.zr ≠ [] ∨ d.base.short.isSome = true
  short : ∀ o, d.base.short = some o → ShortOk maskFn H Pc L sel sa ca
    ((d.zr.foldl (fun t q => t.zr q.x) (t.run (d.base.longs.take d.pos))).run (d.base.longs.drop d.pos)) d.base o

def XDgs (L : SealLaws Pc) (dcid0 : Bytes) (sel selR : SuiteSel) (sh ch sa ca e : Bytes) : Trk → List DgX → Prop
  | _, [] => True
  | t, d :: ds => XDgOk maskFn H Pc L dcid0 sel selR sh ch sa ca e t d ∧ XDgs L dcid0 sel selR sh ch sa ca e (t.dgx d) ds

def xFeedAll (QM : MainLoop.QuicMachine Keylog.Key QConn Pipeline.OutPkt) (c : QConn) :
    List (List Keylog.Key × MainLoop.Pkt × DgX) → QConn
  | [] => c
  | (kl, p, d) :: rest => xFeedAll QM (QM.feed c kl p d.dcid d.ver) rest

/-- the STREAM data of a datagram: of its 0-RTT packets, then of its 1-RTT packet -/
def DgX.data (d : DgX) : List Bytes :=
  d.zr.flatMap (fun q => streamData q.x.frames) ++ (d.base.short.map fun o => streamData o.x.frames).getD []

/-- one UDP frame per datagram with STREAM data (0-RTT or 1-RTT), then the 1-RTT-only part -/
def expectedOutX (c : QConn) (ds : List DgX) (bs : List Dg1) : List Pipeline.OutPkt :=
  ((ds.filter fun d => !d.data.isEmpty).map fun d => addressed c ⟨d.base.srv, d.base.ts, d.data.flatten⟩) ++
    expectedOut c bs

/-- **C02 with 0-RTT, the full statement** (`quic_connection_exact_interleaved` with 0-RTT packets anywhere in the mixed
    part, under `ZrPkOk`). NOT PROVED: `quic_connection_exact_0rtt_partial` proves the step for one 0-RTT packet right after
    the firing `handle_crypto_frame`; missing is `EarlyKeyed` as part of the handshake invariant `HsSt` along the history.
    The condition `ZrPkOk.suite` is NOT implied by the RFCs before the ServerHello (first offered suite = resumed suite;
    ClientHello complete): `ExZr.legacy_first_offered_suite_counterexample` / `ExZr.late_survives`, `ExZr.zero_rtt_before_client_hello_counterexample`,
    `harness/c02_0rtt_replay.py`. -/
def quic_connection_exact_0rtt_statement : Prop :=
  ∀ (hl : H.Lawful) (h32 : H.sha256.outLen = 32) (L : SealLaws Pc)
    (cr csel ch sh ca sa e : Bytes) (sel selR : SuiteSel) (hsel : selectSuite csel = some sel)
    (ho : (hashOf H sel.hash).outLen < 65536)
    (hsa : sa.length = (hashOf H sel.hash).outLen) (hca : ca.length = (hashOf H sel.hash).outLen)
    (kl0 : List Keylog.Key) (p0 : MainLoop.Pkt) (d0 : DgX) (itemsA : List (List Keylog.Key × MainLoop.Pkt × DgX))
    (hkl : ∀ x ∈ (kl0, p0, d0) :: itemsA, KeylogHas x.1 cr ch sh ca sa (some e))
    (c : QConn) (hc : Fresh H Pc c) (hd0 : d0.base.longs.take d0.pos ≠ [])
    (hok : XDgs maskFn H Pc L d0.dcid sel selR sh ch sa ca e trk0 (d0 :: itemsA.map (·.2.2)))
    (htr : PTrace cr csel {} (allInsM ((d0 :: itemsA.map (·.2.2)).map (·.base))))
    (hcar : ∀ x ∈ (kl0, p0, d0) :: itemsA,
      x.2.1.payload = DgX.wire H Pc L d0.dcid sel selR sh ch sa ca e x.2.2 ∧
        (info x.2.1.tag).ts = x.2.2.base.ts ∧ (x.2.1.src == c.client) = !x.2.2.base.srv)
    (hkeyed : ((d0 :: itemsA.map (·.2.2)).foldl Trk.dgx trk0).keyed = true)
    (itemsB : List (List Keylog.Key × MainLoop.Pkt × Dg1))
    (hcarB : ∀ x ∈ itemsB, Carries info c
      (wireOf H Pc L sel .v1 (rfcGen (hashOf H sel.hash) sel.keyLen sa ca 0)) x.2.1 x.2.2)
    (hsend : Send1 maskFn H Pc L sel .v1 (rfcGen (hashOf H sel.hash) sel.keyLen sa ca 0)
      (quicHp (hashOf H sel.hash) ca sel.keyLen) (quicHp (hashOf H sel.hash) sa sel.keyLen)
      (chachaOf ((d0 :: itemsA.map (·.2.2)).foldl Trk.dgx trk0).core) 0 0
      ((d0 :: itemsA.map (·.2.2)).foldl Trk.dgx trk0).tc.app ((d0 :: itemsA.map (·.2.2)).foldl Trk.dgx trk0).ts.app
      ((d0 :: itemsA.map (·.2.2)).foldl Trk.dgx trk0).cc ((d0 :: itemsA.map (·.2.2)).foldl Trk.dgx trk0).sc
      (itemsB.map (·.2.2)))
    (hadj : Quic.UdpOut.AdjDistinct ((((d0 :: itemsA.map (·.2.2)).filter fun d => !d.data.isEmpty).map
        fun d => (d.base.ts, d.base.srv)) ++
      ((itemsB.map (·.2.2)).filter fun d => hasStream d.x.frames).map fun d => (d.x.ts, d.x.srv))),
    let QM := quicMachine maskFn H Pc info
    let c1 := xFeedAll QM c ((kl0, p0, d0) :: itemsA)
    (feedAll QM c1 itemsB).raised = none ∧
    QM.out false (feedAll QM c1 itemsB) = expectedOutX c (d0 :: itemsA.map (·.2.2)) (itemsB.map (·.2.2))

end ZeroRttStatement
end TLX.Props.C02Capstone3
