/-
C09, the link the file-level theorems need: from the TEXT of a key-log file to what `find_session_secrets` returns.

A key-log file is described line by line (`FLine`): a line is either a secret line in NSS Key Log Format — `LABEL SP 64 hex
digits (the client random, upper or lower case) SP hex digits (the secret)`, `Spec.NssKeylog.DenotesVia` — or ANY other line
that does not look like one (`¬ LooksLikeKey`: comments, blank lines, `RSA …` lines, other tools' lines, prose); every line is
terminated by LF or CRLF, independently (`fileText`). No hypothesis on order or position.

  `parse_fileText`        `open(path).read()` (universal newlines) + `get_keys_from_string`: exactly the secret lines, as
                          `Key(label, client-random field, value field)`, in file order
  `keylog_line_found`     a secret line anywhere in the file ⇒ its `Key` is in the key log
  `findSessionSecrets_fileText`   `find_session_secrets(client_random)` = the keys of the secret lines with THAT client random,
                          in file order (comparison case-insensitive, as in the source)
  `found12_fileText`, `found13_fileText`   in the shape `tls12_connection_exact` / `tls13_connection_exact` take it
Holds for the pattern of the tree under test (`Keylog.srcHexClass`, regenerated; `srcHexClass_any`: both cases of hex
digits are accepted since the C09 repair) and, for lower-case client randoms, for the old pattern too.
-/
import TLX.Props.C09
import TLX.Export
set_option autoImplicit false
namespace TLX.Props.C09Found
open TLX TLX.Keylog TLX.Spec.NssKeylog TLX.Lemmas.Keylog

/-- one line of a key-log file -/
inductive FLine
  /-- a secret line for `tr`, written with the hex strings `hc` (client random) and `hv` (secret) -/
  | key (tr : Triple) (hc hv : Str)
  /-- anything else -/
  | other (l : Str)

def FLine.text : FLine → Str
  | .key tr hc hv => tr.label ++ 32 :: hc ++ 32 :: hv
  | .other l => l

/-- well-formed line: a secret line denotes its triple; another line contains no line-end character and does not look
    like a secret line -/
def FLine.WF : FLine → Prop
  | .key tr hc hv => DenotesVia (tr.label ++ 32 :: hc ++ 32 :: hv) tr hc hv
  | .other l => 10 ∉ l ∧ 13 ∉ l ∧ ¬ LooksLikeKey l

/-- the `Key` object `Key(line)` makes of a secret line -/
def FLine.key? : FLine → Option Key
  | .key tr hc hv => some ⟨tr.label, hc, hv⟩
  | .other _ => none

/-- the file: every line followed by LF or by CRLF (the flag) -/
def fileText : List (FLine × Bool) → Str
  | [] => []
  | (l, crlf) :: rest => l.text ++ (if crlf then [13, 10] else [10]) ++ fileText rest

theorem srcHexClass_any : Keylog.srcHexClass = .any := by decide

/-! ### one line -/

theorem hex_no_eol {h : Str} {b : List Nat} (H : IsHexOf h b) : 10 ∉ h ∧ 13 ∉ h := by
  have hd := (props_of_isHexOf H).2.2.2.1
  rw [List.all_eq_true] at hd
  constructor <;> intro hm <;> have := hd _ hm <;> revert this <;> decide

theorem label_no_eol {l : Str} (h : l ∈ nssLabels) : 10 ∉ l ∧ 13 ∉ l := by
  have := (nss_facts l h).2.1
  rw [List.all_eq_true] at this
  constructor <;> intro hm <;> have := this _ hm <;> revert this <;> decide

theorem text_no_eol (l : FLine) (w : l.WF) : 10 ∉ l.text ∧ 13 ∉ l.text := by
  cases l with
  | other s => exact ⟨w.1, w.2.1⟩
  | key tr hc hv =>
    obtain ⟨_, hl, hcr, _, hsec, _⟩ := w
    have a := label_no_eol hl
    have b := hex_no_eol hcr
    have c := hex_no_eol hsec
    simp only [FLine.text, List.mem_append, List.mem_cons, not_or]
    exact ⟨⟨⟨a.1, by decide, b.1⟩, by decide, c.1⟩, ⟨⟨a.2, by decide, b.2⟩, by decide, c.2⟩⟩

theorem getKey_line (hx : HexClass) (l : FLine) (w : l.WF)
    (hcls : ∀ tr hc hv, l = .key tr hc hv → hc.all hx.ok = true) : getKeyFromLine hx l.text = l.key? := by
  cases l with
  | other s => exact C09.foreign_lines_ignored hx s w.2.2
  | key tr hc hv =>
    have w' : DenotesVia (tr.label ++ 32 :: hc ++ 32 :: hv) tr hc hv := w
    simp only [FLine.text, FLine.key?, getKeyFromLine, accepts_of_denotes w' (hcls tr hc hv rfl), if_true,
      keyOfLine_of_denotes w']

/-- with the pattern of the repaired source every hex digit is in the class -/
theorem any_ok (tr : Triple) (hc hv : Str) (w : (FLine.key tr hc hv).WF) : hc.all HexClass.any.ok = true :=
  (props_of_isHexOf w.2.2.1).2.1

/-! ### the file -/

theorem universalNewlines_line (l rest : Str) (h : 13 ∉ l) (crlf : Bool) :
    universalNewlines (l ++ (if crlf then [13, 10] else [10]) ++ rest) = l ++ 10 :: universalNewlines rest := by
  induction l with
  | nil => cases crlf <;> simp [universalNewlines]
  | cons c cs ih =>
    have hc : c ≠ 13 := fun e => h (by simp [e])
    have := ih (fun hm => h (by simp [hm]))
    simp only [List.cons_append, List.append_assoc] at this ⊢
    rw [universalNewlines]
    · rw [this]
    · intro r e _; exact hc e
    · intro e; exact hc e

theorem keys_single (hx : HexClass) (l : Str) (h10 : 10 ∉ l) (h13 : 13 ∉ l) :
    getKeysFromString hx l = (getKeyFromLine hx l).toList := by
  have hr : removeCR l = l := by
    unfold removeCR
    exact List.filter_eq_self.mpr fun c hc => by
      have : c ≠ 13 := fun e => h13 (e ▸ hc)
      simpa using this
  simp only [getKeysFromString, hr, splitOn_of_not_mem 10 l h10, List.filterMap_cons, List.filterMap_nil]
  cases getKeyFromLine hx l <;> rfl

/-- **The key log read from the file**: exactly the secret lines, in file order. -/
theorem parse_fileText (hx : HexClass) (ls : List (FLine × Bool)) (hwf : ∀ x ∈ ls, x.1.WF)
    (hcls : ∀ x ∈ ls, ∀ tr hc hv, x.1 = .key tr hc hv → hc.all hx.ok = true) :
    getKeysFromString hx (universalNewlines (fileText ls)) = ls.filterMap fun x => x.1.key? := by
  induction ls with
  | nil => simp [fileText, universalNewlines, parse_nil]
  | cons x rest ih =>
    obtain ⟨l, crlf⟩ := x
    have w := hwf (l, crlf) (by simp)
    obtain ⟨h10, h13⟩ := text_no_eol l w
    have := ih (fun y hy => hwf y (by simp [hy])) (fun y hy => hcls y (by simp [hy]))
    rw [fileText, universalNewlines_line _ _ h13, parse_append_lf, this, keys_single hx _ h10 h13,
      getKey_line hx l w (hcls (l, crlf) (by simp)), List.filterMap_cons]
    cases l.key? <;> rfl

/-- a secret line anywhere in the file, between any other lines, with either line ending ⇒ its key is in the key log -/
theorem keylog_line_found (hx : HexClass) (ls : List (FLine × Bool)) (hwf : ∀ x ∈ ls, x.1.WF)
    (hcls : ∀ x ∈ ls, ∀ tr hc hv, x.1 = .key tr hc hv → hc.all hx.ok = true)
    (tr : Triple) (hc hv : Str) (crlf : Bool) (hmem : (FLine.key tr hc hv, crlf) ∈ ls) :
    (⟨tr.label, hc, hv⟩ : Key) ∈ getKeysFromString hx (universalNewlines (fileText ls)) := by
  rw [parse_fileText hx ls hwf hcls]
  exact List.mem_filterMap.mpr ⟨_, hmem, rfl⟩

/-- the secret lines for the client random `cr`, as keys, in file order -/
def linesFor (cr : List Nat) (ls : List (FLine × Bool)) : List Key :=
  ls.filterMap fun x =>
    match x.1 with
    | .key tr hc hv => if tr.cr = cr then some ⟨tr.label, hc, hv⟩ else none
    | .other _ => none

/-- **`find_session_secrets`** returns exactly the keys of the secret lines with that client random, in file order. -/
theorem findSessionSecrets_fileText (hx : HexClass) (ls : List (FLine × Bool)) (hwf : ∀ x ∈ ls, x.1.WF)
    (hcls : ∀ x ∈ ls, ∀ tr hc hv, x.1 = .key tr hc hv → hc.all hx.ok = true) (cr : List Nat) :
    findSessionSecrets (getKeysFromString hx (universalNewlines (fileText ls))) cr = linesFor cr ls := by
  rw [parse_fileText hx ls hwf hcls]
  clear hcls
  induction ls with
  | nil => rfl
  | cons x rest ih =>
    obtain ⟨l, crlf⟩ := x
    have w := hwf (l, crlf) (by simp)
    have := ih (fun y hy => hwf y (by simp [hy]))
    cases l with
    | other s => simpa [linesFor, FLine.key?, findSessionSecrets] using this
    | key tr hc hv =>
      have hm := crMatch_eq (lower_of_isHexOf w.2.2.1) cr
      simp only [linesFor, FLine.key?, findSessionSecrets, List.filterMap_cons, List.filter_cons, hm] at this ⊢
      by_cases e : tr.cr = cr
      · simp only [e, decide_true, if_true, List.cons.injEq, true_and]; exact this
      · simp only [e, decide_false, Bool.false_eq_true, if_false]; exact this

/-! ### in the shape the connection capstones take it (the key log is `Export.fileKeysOf (some text)`) -/

theorem fileKeys_fileText (ls : List (FLine × Bool)) :
    (Export.fileKeysOf (some (fileText ls))).getD [] =
      getKeysFromString Keylog.srcHexClass (universalNewlines (fileText ls)) := rfl

theorem src_cls (ls : List (FLine × Bool)) (hwf : ∀ x ∈ ls, x.1.WF) :
    ∀ x ∈ ls, ∀ tr hc hv, x.1 = .key tr hc hv → hc.all Keylog.srcHexClass.ok = true := by
  intro x hx tr hc hv e
  rw [srcHexClass_any]
  exact any_ok tr hc hv (e ▸ hwf x hx)

/-- TLS 1.3: every line with the connection's client random (the four traffic secrets among them), in file order -/
theorem found13_fileText (ls : List (FLine × Bool)) (hwf : ∀ x ∈ ls, x.1.WF) (cr : List Nat) :
    findSessionSecrets ((Export.fileKeysOf (some (fileText ls))).getD []) cr = linesFor cr ls := by
  rw [fileKeys_fileText]
  exact findSessionSecrets_fileText _ ls hwf (src_cls ls hwf) cr

/-- SSL 3.0 – TLS 1.2: the `CLIENT_RANDOM` lines with the connection's client random (an `RSA` line never has a 64-digit
    second field: it is an `other` line) -/
theorem found12_fileText (ls : List (FLine × Bool)) (hwf : ∀ x ∈ ls, x.1.WF) (cr : List Nat) :
    (findSessionSecrets ((Export.fileKeysOf (some (fileText ls))).getD []) cr).filter
        (fun k => k.label == s_CLIENT_RANDOM || k.label == s_RSA) =
      (linesFor cr ls).filter fun k => k.label == s_CLIENT_RANDOM || k.label == s_RSA := by
  rw [found13_fileText ls hwf cr]

end TLX.Props.C09Found
