/-
Instances of `Props/ExportFaults.lean`, evaluated by the kernel through the whole pipeline (the capture of
`Props/ExportDemuxEx.lean`: four TLS-port TCP flows and two QUIC connections of different clients, interleaved).
-/
import TLX.Props.ExportFaults
import TLX.Props.ExportDemuxEx
import TLX.Props.C12
set_option linter.unusedSimpArgs false
namespace TLX.Props.ExportFaults.Ex
open TLX TLX.MainLoop TLX.Export TLX.Spec.Demux TLX.QuicPipeline TLX.Lemmas.ExportProps TLX.Lemmas.ExportDemux
open TLX.Props.ExportPropsQuic TLX.Props.ExportDemux TLX.Props.ExportDemux.Ex
open TLX.Props.C02File.Ex (H Pc maskFn keys)
open TLX.Props.ExportPropsQuic.Ex (info view)

/-- the victim: the QUIC connection of the client 10.0.0.3 -/
def victim (p : Pkt) : Bool := lab p == 2

abbrev vl : QIn Keylog.Key → Nat := fun x => vlab victim x.p

theorem hflow : ∀ a ∈ tcpView o (only (fun p => !victim p) merged), ∀ b ∈ tcpView o (victimFrames victim merged),
    sameFlow a b = false := by decide +kernel

theorem hBV : CaptureSeparated QM o (cls vl 0 V) (rest vl 0 V) :=
  captureSeparated_of_sepCheck _ _ _ _ (by decide +kernel)
theorem hVB : CaptureSeparated QM o (cls vl 1 V) (rest vl 1 V) :=
  captureSeparated_of_sepCheck _ _ _ _ (by decide +kernel)

/-- non-vacuity of `export_bystander_unaffected_quic`: every hypothesis holds on the merged capture -/
theorem bystander_quic_instance :
    Merge (tlsFrames H Pc info o (some keys) (only (fun p => !victim p) merged))
      ((tlsConvs H Pc info o (victimFrames victim merged)).map (convFrames H Pc info (keysOf (some keys) merged)))
      (tlsFrames H Pc info o (some keys) merged) ∧
    Merge (quicFrames maskFn H Pc info o (some keys) (only (fun p => !victim p) merged))
      (quicFrames maskFn H Pc info o (some keys) (only victim merged)) (quicFrames maskFn H Pc info o (some keys) merged) :=
  (export_bystander_unaffected_quic maskFn H Pc info freshState args0 o ho (some keys) merged victim hflow hBV hVB).2.2

/-- … and what it says there: without the victim the bystander QUIC connection exports the same four datagrams, the TLS
    conversations are the same four -/
theorem bystander_quic_view :
    view (quicFrames maskFn H Pc info o (some keys) (only (fun p => !victim p) merged)) =
      [[(122, [0x48, 0x49]), (124, [0x47, 0x45, 0x54]), (125, [0x4f, 0x4b]), (127, [0x4d, 0x4f, 0x52, 0x45])]] ∧
    (tlsConvs H Pc info o (only (fun p => !victim p) merged)).length = 4 := by decide +kernel

/-- the fault `cut-after` on the victim at position 10 of the capture: its session exports the first two of its four
    datagrams (`export_victim_cut_quic`: `CutRel`, here a plain prefix), the bystanders' capture is the same list -/
theorem victim_cut_view :
    view (quicFrames maskFn H Pc info o (some keys) (only victim (cutVictim victim 10 merged))) =
      [[(132, [0x48, 0x49]), (134, [0x47, 0x45, 0x54])]] ∧
    view (quicFrames maskFn H Pc info o (some keys) (only victim merged)) =
      [[(132, [0x48, 0x49]), (134, [0x47, 0x45, 0x54]), (135, [0x4f, 0x4b]), (137, [0x4d, 0x4f, 0x52, 0x45])]] := by
  decide +kernel

/-- non-vacuity of `payloads_never_abort`: the libpcap capture of `ExportInputs2.Ex` (two segments of a flow to port 443, a
    segment of another flow whose payload is a TLS record header with nothing behind it, a non-IP frame) is read to the
    end, so for EVERY key-log text and every primitive the run writes a file or the writer raises — nothing else -/
theorem never_abort_instance (mask : Quic.Dissect.MaskFn) (H' : Crypto.Prims) (P : Cipher.Prims) (kl : Option Keylog.Str) :
    (∃ f, exportFile mask H' P ExportInputs2.Ex.args0 true kl
        (Spec.Containers.encode ExportInputs2.Ex.nano ExportInputs2.Ex.evs3) = .file f) ∨
    (∃ e, exportFile mask H' P ExportInputs2.Ex.args0 true kl
        (Spec.Containers.encode ExportInputs2.Ex.nano ExportInputs2.Ex.evs3) = .abort (.write e)) := by
  have hr : Ingest.itemsWith Keylog.srcHexClass ExportInputs2.Ex.args0.checksumTest true
      (Spec.Containers.encode ExportInputs2.Ex.nano ExportInputs2.Ex.evs3) =
      .ok (ExportInputs2.Ex.X3, ExportInputs2.Ex.IS3) := by
    have := ExportInputs.itemsWith_of_read Keylog.srcHexClass false true _ _
      (C12.reader_roundtrip ExportInputs2.Ex.nano ExportInputs2.Ex.evs3 ExportInputs2.Ex.evs3_wf.1)
    rw [ExportInputs2.Ex.evs3_read] at this
    exact this
  obtain ⟨out, _, h, _⟩ := payloads_never_abort mask H' P ExportInputs2.Ex.args0 true kl _ (by decide +kernel) _ _ hr
  exact h

end TLX.Props.ExportFaults.Ex
