/-
C05 and C09 for the WHOLE PROGRAM (TLS): statements about `Pipeline.connOut` (one connection) and `Export.framesFrom`
(one run of the tool).

C05 — "the exported plaintext of a TLS connection depends only on the byte stream each endpoint sent, not on how TCP
delivered it".
  `connection_release_independent`     for ANY connection, key log, option `-a`: two captures whose reassemblers release
        the same record bytes in the same order (`Session.keys`: the sequence of (record bytes, direction); the carriers —
        which packets the bytes came in — may differ) export the same sequence of (direction, record plaintext) and frames
        whose per-direction reassembled payload streams (`Spec.reassemble`) are the same. No decryptability assumption: the
        connection may be decryptable, partly decryptable or not at all. Frame boundaries and time stamps may differ (they
        follow the carriers).  Behind it: `Session.run_carriers` — the session state machine never looks at carriers.
  `connection_segmentation_independent` … from DELIVERIES: each capture shows, per direction, a delivery of the same byte
        stream `str d` (`DeliversStream`: any cut points, exact duplicates, segments displaced by any number of positions,
        any initial sequence number incl. wrap — under `Props.C05.NoEarlyDelivery`, stream ≤ 2^31 bytes, whole records:
        the exact domain of `Props.C05.reassembly_exact_partial`), and the two captures release the records of the two
        directions in the same interleaving (`SameReleaseOrder`: the sequence of DIRECTIONS of the released records is the
        same — the state machine is order-sensitive across directions: ServerHello before the client's ChangeCipherSpec,
        …; `Ex.order_matters`).
  `export_segmentation_independent`     the same for two RUNS (`framesFrom`): the blocks the two runs export for the flow.
  The known finding stays OUTSIDE the hypotheses: when the first data segment of a direction is overtaken by a segment that
  is a whole record (`Props.C05.reassembly_exact_counterexample`), `NoEarlyDelivery` fails and the export does change
  (`Ex.overtaken_first_segment_differs`).

C09 — "the export depends only on which secrets are supplied, not on how".
  `genKeys_of_installed`                `Pipeline.genKeys … kl` reads the key log only through `Keylog.installed12
        .firstMaster kl cr` / `Keylog.installed13 kl cr` for the client random `cr` it is called with
  `connOut_keylog_independent`, `tlsFrames_keylog_independent`, `export_keylog_denotation_independent`
        two key lists that install the same secrets for every client random give the same TLS export — per connection, per
        conversation list, per run (the TLS part of `framesFrom`'s output)
  `export_keylog_text_independent`      … for two key-log FILES that are well formed, consistent and denote the same
        (label, client random, secret) triples (`Props.C09.keys_invariant_under_delivery_global`): permutation, duplication,
        decoration, hex case, LF / CRLF
  `onlySecret_of_consistent`            the `OnlySecret` hypothesis of `Props/C01Rfc` IS C09's consistency
-/
import TLX.Lemmas.ExportSeg
set_option autoImplicit false
set_option linter.unusedSimpArgs false
set_option linter.unusedVariables false
namespace TLX.Props.ExportSeg
open TLX TLX.MainLoop TLX.Export TLX.Spec.Demux TLX.Lemmas.MainLoop TLX.Props.C01File
open TLX.Lemmas.Capstone TLX.Lemmas.Pipeline TLX.Spec.TlsFraming TLX.Props.C01Pipeline TLX.Lemmas.ExportSeg

/-! ## C05 -/

/-- the capture `(info, c)` shows, for direction `d` of the connection, a DELIVERY of the byte stream `str` that
    direction's endpoint sent — the exact domain of `Props.C05.reassembly_exact_partial`: a stream of whole records of at
    most 2^31 bytes; any cut into segments, exact duplicates, segments displaced by up to `k` positions (any `k`), any
    initial sequence number; nothing is handed on before the segment that starts the stream has been captured. -/
def DeliversStream (info : Nat → Pipeline.Info) (c : Pipeline.Conn) (d : Bool) (str : Bytes) : Prop :=
  WholeRecords str ∧ str.length ≤ 2 ^ 31 ∧
  ∃ k isn, Delivers k isn str ((dirSegs info c.server d c.pkts).map Props.C05.wire) ∧
    Props.C05.NoEarlyDelivery isn (dirSegs info c.server d c.pkts)

/-- the two captures release the records of the two directions in the same interleaving: the sequence of directions
    (`false` = client) of the released records is the same -/
def SameReleaseOrder (info1 : Nat → Pipeline.Info) (c1 : Pipeline.Conn) (info2 : Nat → Pipeline.Info)
    (c2 : Pipeline.Conn) : Prop :=
  (connRecs info1 c1).map (·.2) = (connRecs info2 c2).map (·.2)

/-- what two exports have in common when they differ in frame boundaries and times only: the same records handed to the
    output builder (direction, plaintext), both exports exist, and their frames reassemble — with a textbook TCP
    reassembler — to the same two payload streams -/
def SameExport (H : Crypto.Prims) (P : Cipher.Prims) (kl : List Keylog.Key) (info1 : Nat → Pipeline.Info)
    (c1 : Pipeline.Conn) (info2 : Nat → Pipeline.Info) (c2 : Pipeline.Conn) : Prop :=
  exportedRecs H P info1 c1 kl = exportedRecs H P info2 c2 kl ∧
  ∃ f1 f2 pc ps, Pipeline.connOut H P info1 c1 kl = some (f1.map (Pipeline.addressed c1.opts c1)) ∧
    Pipeline.connOut H P info2 c2 kl = some (f2.map (Pipeline.addressed c2.opts c2)) ∧
    Spec.reassemble f1 = some (pc, ps) ∧ Spec.reassemble f2 = some (pc, ps)

/-- **C05, one connection, from the release order.** -/
theorem connection_release_independent (H : Crypto.Prims) (P : Cipher.Prims) (kl : List Keylog.Key)
    (info1 info2 : Nat → Pipeline.Info) (c1 c2 : Pipeline.Conn) (hm : c1.opts.metadata = c2.opts.metadata)
    (hk : Session.keys (connRecs info1 c1) = Session.keys (connRecs info2 c2)) :
    SameExport H P kl info1 c1 info2 c2 :=
  exported_of_keys H P kl info1 info2 c1 c2 hm hk

theorem keys_of_deliveries (info1 info2 : Nat → Pipeline.Info) (c1 c2 : Pipeline.Conn) (str : Bool → Bytes)
    (h1 : ∀ d, DeliversStream info1 c1 d (str d)) (h2 : ∀ d, DeliversStream info2 c2 d (str d))
    (hord : SameReleaseOrder info1 c1 info2 c2) :
    Session.keys (connRecs info1 c1) = Session.keys (connRecs info2 c2) := by
  apply keys_of_dirs _ _ hord
  intro d
  obtain ⟨w1, l1, k1, isn1, d1, e1⟩ := h1 d
  obtain ⟨w2, l2, k2, isn2, d2, e2⟩ := h2 d
  unfold connRecs
  rw [released_dir_stream info1 c1.server c1.pkts d k1 isn1 (str d) w1 d1 l1 e1,
    released_dir_stream info2 c2.server c2.pkts d k2 isn2 (str d) w2 d2 l2 e2]

/-- **C05, one connection, from the deliveries.** For any primitives, key log and `-a` setting; no decryptability
    assumption. `NoEarlyDelivery` keeps `Props.C05.reassembly_exact_counterexample` (the first data segment of a direction
    overtaken by a segment that is a whole record on its own) outside: there the export does depend on the delivery. -/
theorem connection_segmentation_independent (H : Crypto.Prims) (P : Cipher.Prims) (kl : List Keylog.Key)
    (info1 info2 : Nat → Pipeline.Info) (c1 c2 : Pipeline.Conn) (hm : c1.opts.metadata = c2.opts.metadata)
    (str : Bool → Bytes)
    (h1 : ∀ d, DeliversStream info1 c1 d (str d)) (h2 : ∀ d, DeliversStream info2 c2 d (str d))
    (hord : SameReleaseOrder info1 c1 info2 c2) :
    SameExport H P kl info1 c1 info2 c2 :=
  connection_release_independent H P kl info1 info2 c1 c2 hm (keys_of_deliveries info1 info2 c1 c2 str h1 h2 hord)

/-- THE session object a run builds for a flow whose TLS-relevant packets are `p0 :: rest` (capture order) -/
def flowConn (H : Crypto.Prims) (P : Cipher.Prims) (info : Nat → Pipeline.Info) (o : Opts) (p0 : Pkt) (rest : List Pkt) :
    Pipeline.Conn :=
  { (Pipeline.tlsMachine H P info).new o p0 with pkts := p0 :: rest }

/-- **C05, whole program** (`export_segmentation_independent`). Two runs of the tool with the same options and `-s` key
    log on two captures (ANY item lists: other flows, UDP, junk, DSBs — the same DSB keys in both) in which the flow of
    interest appears as `p1 :: rest1` resp. `p2 :: rest2`: if both captures show deliveries of the same two byte streams
    and release the records in the same interleaving, the blocks the two runs export for the flow differ in frame
    boundaries and times only — same (direction, record plaintext) sequence, same two reassembled payload streams.
    No decryptability assumption. -/
theorem export_segmentation_independent (mask : Quic.Dissect.MaskFn) (H : Crypto.Prims) (P : Cipher.Prims) (args : Args)
    (fk : Option (List Keylog.Key)) (pm : List (Int × Int)) (ports : List Int)
    (hpm : Options.getPortMap Options.Src.bare args.mArg = .ok pm)
    (hports : Options.serverPorts Options.Src.builtin Options.Src.pDefault args.pArg = .ok ports)
    (xs1 xs2 : List (MainLoop.Item Keylog.Key)) (info1 info2 : Nat → Pipeline.Info)
    (hdsb : dsbKeys (optsOf args ports pm) xs1 = dsbKeys (optsOf args ports pm) xs2)
    (q1 p1 : Pkt) (rest1 : List Pkt)
    (hF1 : (tcpView (optsOf args ports pm) xs1).filter (sameFlow q1) = p1 :: rest1)
    (hc1 : candidate (optsOf args ports pm) p1 = true)
    (q2 p2 : Pkt) (rest2 : List Pkt)
    (hF2 : (tcpView (optsOf args ports pm) xs2).filter (sameFlow q2) = p2 :: rest2)
    (hc2 : candidate (optsOf args ports pm) p2 = true)
    (str : Bool → Bytes)
    (h1 : ∀ d, DeliversStream info1 (flowConn H P info1 (optsOf args ports pm) p1 rest1) d (str d))
    (h2 : ∀ d, DeliversStream info2 (flowConn H P info2 (optsOf args ports pm) p2 rest2) d (str d))
    (hord : SameReleaseOrder info1 (flowConn H P info1 (optsOf args ports pm) p1 rest1)
      info2 (flowConn H P info2 (optsOf args ports pm) p2 rest2)) :
    let o := optsOf args ports pm
    let kl := fk.getD [] ++ dsbKeys o xs1
    ∃ pre1 post1 pre2 post2 f1 f2 pc ps,
      framesFrom mask H P freshState args fk xs1 info1 =
        .ok (pre1 ++ f1.map (Pipeline.addressed o (flowConn H P info1 o p1 rest1)) ++ post1) ∧
      framesFrom mask H P freshState args fk xs2 info2 =
        .ok (pre2 ++ f2.map (Pipeline.addressed o (flowConn H P info2 o p2 rest2)) ++ post2) ∧
      Spec.reassemble f1 = some (pc, ps) ∧ Spec.reassemble f2 = some (pc, ps) ∧
      exportedRecs H P info1 (flowConn H P info1 o p1 rest1) kl = exportedRecs H P info2 (flowConn H P info2 o p2 rest2) kl := by
  intro o kl
  obtain ⟨hx, f1, f2, pc, ps, g1, g2, r1, r2⟩ := connection_segmentation_independent H P kl info1 info2
    (flowConn H P info1 o p1 rest1) (flowConn H P info2 o p2 rest2) rfl str h1 h2 hord
  obtain ⟨pre1, post1, e1⟩ := session_of_items mask H P info1 o (fk.getD []) xs1 q1 p1 rest1 hF1 hc1
  obtain ⟨pre2, post2, e2⟩ := session_of_items mask H P info2 o (fk.getD []) xs2 q2 p2 rest2 hF2 hc2
  refine ⟨pre1, post1, pre2, post2, f1, f2, pc, ps, ?_, ?_, r1, r2, hx⟩
  · rw [framesFrom_eq mask H P args fk xs1 info1 pm ports hpm hports, e1]
    have : (Pipeline.tlsMachine H P info1).out (flowConn H P info1 o p1 rest1) kl
        = f1.map (Pipeline.addressed o (flowConn H P info1 o p1 rest1)) := by
      show (Pipeline.connOut H P info1 _ kl).getD [] = _
      rw [g1]; rfl
    rw [← this]; rfl
  · rw [framesFrom_eq mask H P args fk xs2 info2 pm ports hpm hports, e2]
    have : (Pipeline.tlsMachine H P info2).out (flowConn H P info2 o p2 rest2) kl
        = f2.map (Pipeline.addressed o (flowConn H P info2 o p2 rest2)) := by
      show (Pipeline.connOut H P info2 _ kl).getD [] = _
      rw [g2]; rfl
    rw [← this, ← hdsb]; rfl

/-! ## C09 -/

section C09
open TLX.Keylog TLX.Spec.NssKeylog TLX.Lemmas.Keylog TLX.Lemmas.ExportProps

/-- **C09, one connection**: two key logs that install the same TLS secrets for every client random
    (`SameTlsSecrets`: `Keylog.installed12 .firstMaster` and `Keylog.installed13` agree) give the same export of every
    connection — the key log enters `Session.decrypt()` through `generate_keys` only (`genKeys_of_installed`). -/
theorem connOut_keylog_independent (H : Crypto.Prims) (P : Cipher.Prims) (info : Nat → Pipeline.Info) (c : Pipeline.Conn)
    (kl1 kl2 : List Key) (h : SameTlsSecrets kl1 kl2) :
    Pipeline.connOut H P info c kl1 = Pipeline.connOut H P info c kl2 :=
  connOut_of_installed H P info c kl1 kl2 h

/-- **C09, all TLS conversations of a run**: two `-s` key logs that install the same TLS secrets — with whatever DSBs
    the capture holds behind them — give the same frames for every TLS conversation -/
theorem tlsFrames_keylog_independent (H : Crypto.Prims) (P : Cipher.Prims) (info : Nat → Pipeline.Info) (o : Opts)
    (fk1 fk2 : Option (List Key)) (xs : List (MainLoop.Item Key)) (h : SameTlsSecrets (fk1.getD []) (fk2.getD [])) :
    tlsFrames H P info o fk1 xs = tlsFrames H P info o fk2 xs := by
  unfold tlsFrames
  apply List.map_congr_left
  intro s _
  unfold convFrames keysOf
  rw [connOut_keylog_independent H P info s.st _ _ (sameTlsSecrets_append _ _ (dsbOnly xs) h)]

/-- **C09, whole program** (`export_keylog_denotation_independent`): two runs on the same capture with the same options and
    two `-s` key logs that install the same TLS secrets: the TLS part of what `run()` hands to the writer — the frames of
    all TLS conversations, in order — is the same; what follows it is the QUIC part of each run (QUIC reads the key log
    through its own lookup, `Keylog.installedQuic`; not covered here). -/
theorem export_keylog_denotation_independent (mask : Quic.Dissect.MaskFn) (H : Crypto.Prims) (P : Cipher.Prims)
    (info : Nat → Pipeline.Info) (prior : Export.Prior) (args : Args) (o : Opts)
    (ho : TLX.Lemmas.ExportProps.optsOf args = some o)
    (fk1 fk2 : Option (List Key)) (xs : List (MainLoop.Item Key)) (h : SameTlsSecrets (fk1.getD []) (fk2.getD [])) :
    ∃ quic1 quic2,
      framesFrom mask H P prior args fk1 xs info = .ok ((tlsFrames H P info o fk1 xs).flatten ++ quic1) ∧
      framesFrom mask H P prior args fk2 xs info = .ok ((tlsFrames H P info o fk1 xs).flatten ++ quic2) := by
  obtain ⟨q1, e1⟩ := framesFrom_ok mask H P info prior args fk1 xs o ho
  obtain ⟨q2, e2⟩ := framesFrom_ok mask H P info prior args fk2 xs o ho
  rw [← tlsFrames_keylog_independent H P info o fk1 fk2 xs h] at e2
  exact ⟨q1, q2, e1, e2⟩

/-- what C09 (`Props.C09.keys_invariant_under_delivery_global`) gives for two key-log FILES read in text mode: well
    formed, the same set of (label, client random, secret) triples, consistent (one secret per label and client random),
    every CR followed by LF ⇒ the same TLS secrets for every client random. Permutation of the lines, duplication,
    comments and foreign lines, hex-digit case, LF vs CRLF are all covered. -/
theorem sameTlsSecrets_of_texts (t1 t2 : Str) (wf1 : WellFormed t1) (wf2 : WellFormed t2) (heq : Equivalent t1 t2)
    (hcons : Consistent t1) (c1 : CrOk t1) (c2 : CrOk t2) :
    SameTlsSecrets ((fileKeysOf (some t1)).getD []) ((fileKeysOf (some t2)).getD []) := by
  intro cr
  have e : ∀ t, CrOk t → (fileKeysOf (some t)).getD [] = getKeysFromString .any t := by
    intro t ht
    show getKeysFromString Keylog.srcHexClass (universalNewlines t) = _
    rw [Props.C09Found.srcHexClass_any]
    exact Props.C09.file_text_mode_irrelevant .any t ht
  rw [e t1 c1, e t2 c2]
  have := Props.C09.keys_invariant_under_delivery_global t1 t2 wf1 wf2 heq hcons cr
  exact ⟨congrArg Installed.tls12 this, congrArg Installed.tls13 this⟩

/-- **C09, whole program, key-log files as text.** -/
theorem export_keylog_text_independent (mask : Quic.Dissect.MaskFn) (H : Crypto.Prims) (P : Cipher.Prims)
    (info : Nat → Pipeline.Info) (prior : Export.Prior) (args : Args) (o : Opts)
    (ho : TLX.Lemmas.ExportProps.optsOf args = some o)
    (t1 t2 : Str) (wf1 : WellFormed t1) (wf2 : WellFormed t2) (heq : Equivalent t1 t2)
    (hcons : Consistent t1) (c1 : CrOk t1) (c2 : CrOk t2) (xs : List (MainLoop.Item Key)) :
    ∃ quic1 quic2,
      framesFrom mask H P prior args (fileKeysOf (some t1)) xs info =
        .ok ((tlsFrames H P info o (fileKeysOf (some t1)) xs).flatten ++ quic1) ∧
      framesFrom mask H P prior args (fileKeysOf (some t2)) xs info =
        .ok ((tlsFrames H P info o (fileKeysOf (some t1)) xs).flatten ++ quic2) :=
  export_keylog_denotation_independent mask H P info prior args o ho _ _ xs
    (sameTlsSecrets_of_texts t1 t2 wf1 wf2 heq hcons c1 c2)

/-- **`OnlySecret` (the key-log hypothesis of `Props/C01Rfc`) follows from C09's consistency**: in a key-log file of
    well-formed lines that is consistent for the client random, a line `label cr secret` is the only secret under that
    label and client random — so `tls12/13_capture_exact_rfc` hold for every consistent key-log file that has the lines. -/
theorem onlySecret_of_consistent (ls : List (Props.C09Found.FLine × Bool)) (hwf : ∀ x ∈ ls, x.1.WF) (cr : List Nat)
    (hcons : ConsistentFor cr (Props.C09Found.fileText ls)) (label secret : List Nat)
    (hhas : TLX.Lemmas.C01Rfc.HasLine ls label cr secret) : TLX.Lemmas.C01Rfc.OnlySecret ls label cr secret :=
  TLX.Lemmas.ExportSeg.onlySecret_of_consistent ls hwf cr hcons label secret hhas

end C09

end TLX.Props.ExportSeg
